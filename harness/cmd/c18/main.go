// Command c18 exercises disjoint.Set on histories of Union/UnionBuffered/Find/FindBuffered
// and prints, after every operation, the partition it represents (C18).
package main

import (
	"fmt"
	"sort"
	"strconv"
	"strings"
	"time"

	"github.com/Tom-Johnston/mamba/disjoint"
	"verifharness/hx"
)

type op struct {
	kind byte // f F u U
	x, y int
}

func (o op) String() string {
	if o.kind == 'f' || o.kind == 'F' {
		return fmt.Sprintf("%c%d", o.kind, o.x)
	}
	return fmt.Sprintf("%c%d,%d", o.kind, o.x, o.y)
}

func caseLine(n int, ops []op) string {
	s := make([]string, len(ops))
	for i, o := range ops {
		s[i] = o.String()
	}
	return fmt.Sprintf("%d;%s", n, strings.Join(s, " "))
}

func parseCase(line string) (int, []op) {
	parts := strings.SplitN(line, ";", 2)
	n, _ := strconv.Atoi(parts[0])
	var ops []op
	for _, t := range strings.Fields(parts[1]) {
		o := op{kind: t[0]}
		nums := strings.Split(t[1:], ",")
		o.x, _ = strconv.Atoi(nums[0])
		if len(nums) > 1 {
			o.y, _ = strconv.Atoi(nums[1])
		}
		ops = append(ops, o)
	}
	return n, ops
}

// labels gives every element the least member of its class, computed on a copy so that
// observing does not compress the set under test.
func labels(ds disjoint.Set) []int {
	c := append(disjoint.Set(nil), ds...)
	lab := make([]int, len(c))
	rootMin := map[int]int{}
	for i := range c {
		r := c.Find(i)
		if m, ok := rootMin[r]; ok {
			lab[i] = m
		} else {
			rootMin[r] = i
			lab[i] = i
		}
	}
	return lab
}

// depth of x in the raw forest (number of parent links to the root), without mutation.
func depth(ds disjoint.Set, x int) int {
	d := 0
	for ds[x] >= 0 && d <= len(ds) {
		x = ds[x]
		d++
	}
	return d
}

// run executes the history; it returns the observation and whether some Find walked a path
// with at least three elements above... i.e. compression actually rewrote a parent pointer.
func run(n int, ops []op) (obs string, compressed bool) {
	var sb, strict strings.Builder
	ds := disjoint.New(n)
	buf := make([]int, 1, 4)
	for i, o := range ops {
		switch o.kind {
		case 'f':
			if depth(ds, o.x) >= 2 {
				compressed = true
			}
			fmt.Fprintf(&strict, "%d ", ds.Find(o.x))
		case 'F':
			if depth(ds, o.x) >= 2 {
				compressed = true
			}
			fmt.Fprintf(&strict, "%d ", ds.FindBuffered(o.x, buf))
		case 'u':
			if depth(ds, o.x) >= 2 || depth(ds, o.y) >= 2 {
				compressed = true
			}
			ds.Union(o.x, o.y)
		case 'U':
			if depth(ds, o.x) >= 2 || depth(ds, o.y) >= 2 {
				compressed = true
			}
			ds.UnionBuffered(o.x, o.y, buf)
		}
		if i > 0 {
			sb.WriteByte('|')
		}
		sb.WriteString(hx.Ints(labels(ds)))
	}
	// the views; each is taken on its own copy, as the model does
	lab := labels(ds)
	c1 := append(disjoint.Set(nil), ds...)
	sets := c1.Sets()
	ss := make([]string, len(sets))
	for i, s := range sets {
		ss[i] = strings.ReplaceAll(hx.Ints(s), ",", ".")
	}
	c2 := append(disjoint.Set(nil), ds...)
	sr := c2.SmallestRep()
	c3 := append(disjoint.Set(nil), ds...)
	roots := c3.Roots()
	rl := make([]int, len(roots))
	for i, r := range roots {
		rl[i] = lab[r]
	}
	sort.Ints(rl)
	fmt.Fprintf(&sb, ";sets=%s;sr=%s;roots=%s", strings.Join(ss, "/"), hx.Ints(sr), hx.Ints(rl))
	return sb.String() + " ## " + hx.Ints([]int(ds)) + " finds=" + strings.TrimSpace(strict.String()), compressed
}

func genHistory(r *hx.Rng, n, length int, style int) []op {
	ops := make([]op, 0, length)
	kinds := []byte{'u', 'U', 'f', 'F'}
	switch style {
	case 0: // uniform
		for len(ops) < length {
			k := kinds[r.Intn(4)]
			ops = append(ops, op{k, r.Intn(n), r.Intn(n)})
		}
	case 1: // build binomial trees (equal-rank unions give the deepest forests), then finds
		step := 1
		for step < n && len(ops) < length {
			for i := 0; i+step < n && len(ops) < length; i += 2 * step {
				k := kinds[r.Intn(2)]
				// union of two roots-of-blocks in an order that varies which root survives
				if r.Bool() {
					ops = append(ops, op{k, i, i + step})
				} else {
					ops = append(ops, op{k, i + step, i})
				}
			}
			step *= 2
		}
		for len(ops) < length {
			k := kinds[2+r.Intn(2)]
			if r.Chance(1, 4) {
				k = kinds[r.Intn(2)]
			}
			ops = append(ops, op{k, r.Intn(n), r.Intn(n)})
		}
	case 2: // unions dominate, many of them between already joined elements, finds in between
		for len(ops) < length {
			if r.Chance(2, 3) {
				x := r.Intn(n)
				y := x
				if r.Chance(3, 4) {
					y = r.Intn(n)
				}
				ops = append(ops, op{kinds[r.Intn(2)], x, y})
			} else {
				ops = append(ops, op{kinds[2+r.Intn(2)], r.Intn(n), 0})
			}
		}
	}
	for i := range ops {
		if ops[i].kind == 'f' || ops[i].kind == 'F' {
			ops[i].y = 0
		}
	}
	return ops
}

func exec(line string) hx.Result {
	n, ops := parseCase(line)
	obs, comp := run(n, ops)
	return hx.Result{Obs: obs, Nontrivial: comp, Buckets: []string{fmt.Sprintf("n<=%d", bucket(n)), fmt.Sprintf("len<=%d", bucket(len(ops)))}}
}

func gen(g *hx.Gen) {
	do := func(n int, ops []op) { g.Emit(caseLine(n, ops)) }
	// corpus: the chain of the non-vacuity example of Props/C18.v
	do(8, []op{{'u', 0, 1}, {'u', 2, 3}, {'u', 1, 3}, {'u', 4, 5}, {'u', 6, 7}, {'u', 5, 7}, {'u', 3, 7}, {'f', 0, 0}})
	do(1, []op{{'f', 0, 0}, {'u', 0, 0}})
	// exhaustive small spaces
	exh := func(n, length int, kinds []byte) {
		var all []op
		for _, k := range kinds {
			for x := 0; x < n; x++ {
				if k == 'f' || k == 'F' {
					all = append(all, op{k, x, 0})
					continue
				}
				for y := 0; y < n; y++ {
					all = append(all, op{k, x, y})
				}
			}
		}
		idx := make([]int, length)
		for {
			ops := make([]op, length)
			for i, j := range idx {
				ops[i] = all[j]
			}
			do(n, ops)
			i := length - 1
			for ; i >= 0; i-- {
				idx[i]++
				if idx[i] < len(all) {
					break
				}
				idx[i] = 0
			}
			if i < 0 {
				break
			}
		}
		g.Exhaustive(fmt.Sprintf("all histories of length %d over n=%d, kinds %s", length, n, string(kinds)))
	}
	exh(3, 2, []byte{'u', 'U', 'f', 'F'})
	exh(3, 3, []byte{'u', 'f'})
	if g.Thorough() {
		exh(4, 4, []byte{'u', 'f'})
		exh(3, 5, []byte{'u', 'f'})
	}
	count := g.Pick(6000, 200000)
	for i := 0; i < count; i++ {
		var n int
		switch g.Rng.Intn(4) {
		case 0:
			n = g.Rng.Range(1, 6)
		case 1:
			n = g.Rng.Range(4, 16)
		case 2:
			n = g.Rng.Range(8, 33)
		default:
			n = g.Rng.Range(16, 64)
		}
		length := g.Rng.Range(1, 12)
		if g.Rng.Chance(1, 2) {
			length = g.Rng.Range(n, 3*n+4)
		}
		if length > 120 {
			length = 120
		}
		do(n, genHistory(g.Rng, n, length, g.Rng.Intn(3)))
	}
}

func main() {
	hx.Main(hx.Prop{
		Rule:        "history = n plus a list of Union/UnionBuffered/Find/FindBuffered calls with indices < n; non-trivial = some call walked a path of >= 3 elements so that path compression rewrote a parent pointer; distinct by history text",
		Gen:         gen,
		Exec:        exec,
		CaseTimeout: 4 * time.Second,
		MemMB:       2048,
	})
}

func bucket(n int) int {
	b := 1
	for b < n {
		b *= 2
	}
	return b
}
