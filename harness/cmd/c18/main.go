// Command c18 exercises disjoint.Set on histories of Union/UnionBuffered/Find/FindBuffered
// (plus same-set queries and the views taken in the middle of a history) and prints the
// partition it represents after every operation (dense cases) or at chosen points (sparse
// cases, used for large n) (C18).
//
// Case syntax (shared with ocaml/c18/driver.ml):
//
//	<n>[:s][:c<cap>];tok tok ...
//
// header flag s = sparse: the partition is observed only at `o` tokens; without it it is
// observed after every token.  c<cap> = capacity of the scratch buffer handed to the buffered
// calls (default 4; one buffer is re-used by all calls of a case).  Tokens:
//
//	f<x> F<x>           Find / FindBuffered
//	u<x>,<y> U<x>,<y>   Union / UnionBuffered
//	q<x>,<y> Q<x>,<y>   Find(x) == Find(y) with Find / FindBuffered, item q0|q1
//	o                   item = the partition (least member of every element's class), taken on a copy
//	v                   Sets(), SmallestRep(), Roots() on the set itself, item v<sets>~<sr>~<roots>
//
// Deleting tokens keeps a case valid (shrink: tokens).
package main

import (
	"fmt"
	"sort"
	"strconv"
	"strings"
	"time"

	"github.com/Tom-Johnston/mamba/disjoint"
	"verifharness/hx"
)

type op struct {
	kind byte // f F u U q Q o v
	x, y int
}

func (o op) String() string {
	switch o.kind {
	case 'f', 'F':
		return fmt.Sprintf("%c%d", o.kind, o.x)
	case 'o', 'v':
		return string(o.kind)
	}
	return fmt.Sprintf("%c%d,%d", o.kind, o.x, o.y)
}

type header struct {
	n      int
	sparse bool
	bufCap int
}

func (h header) String() string {
	s := strconv.Itoa(h.n)
	if h.sparse {
		s += ":s"
	}
	if h.bufCap != 4 {
		s += fmt.Sprintf(":c%d", h.bufCap)
	}
	return s
}

func caseLine(h header, ops []op) string {
	s := make([]string, len(ops))
	for i, o := range ops {
		s[i] = o.String()
	}
	return h.String() + ";" + strings.Join(s, " ")
}

func parseCase(line string) (header, []op) {
	parts := strings.SplitN(line, ";", 2)
	hs := strings.Split(parts[0], ":")
	h := header{bufCap: 4}
	h.n, _ = strconv.Atoi(hs[0])
	for _, f := range hs[1:] {
		switch {
		case f == "s":
			h.sparse = true
		case strings.HasPrefix(f, "c"):
			h.bufCap, _ = strconv.Atoi(f[1:])
		}
	}
	if h.bufCap < 1 {
		h.bufCap = 1
	}
	var ops []op
	for _, t := range strings.Fields(parts[1]) {
		o := op{kind: t[0]}
		if len(t) > 1 {
			nums := strings.Split(t[1:], ",")
			o.x, _ = strconv.Atoi(nums[0])
			if len(nums) > 1 {
				o.y, _ = strconv.Atoi(nums[1])
			}
		}
		ops = append(ops, o)
	}
	return h, ops
}

// labels gives every element the least member of its class, computed on a copy so that
// observing does not compress the set under test.
func labels(ds disjoint.Set) []int {
	c := append(disjoint.Set(nil), ds...)
	lab := make([]int, len(c))
	rootMin := make(map[int]int, 8)
	for i := range c {
		r := c.Find(i)
		if m, ok := rootMin[r]; ok {
			lab[i] = m
		} else {
			rootMin[r] = i
			lab[i] = i
		}
	}
	return lab
}

// depth of x in the raw forest (number of parent links to the root), without mutation.
func depth(ds disjoint.Set, x int) int {
	d := 0
	for ds[x] >= 0 && d <= len(ds) {
		x = ds[x]
		d++
	}
	return d
}

func setsStr(sets [][]int) string {
	ss := make([]string, len(sets))
	for i, s := range sets {
		ss[i] = strings.ReplaceAll(hx.Ints(s), ",", ".")
	}
	return strings.Join(ss, "/")
}

func rootLabels(lab, roots []int) []int {
	rl := make([]int, len(roots))
	for i, r := range roots {
		rl[i] = lab[r]
	}
	sort.Ints(rl)
	return rl
}

// viewsCost is the driver's estimate of the model steps of sets + smallest_rep on a set with
// this partition (same formula and threshold as ocaml/c18/driver.ml: above the threshold the
// driver derives the expected final views from the partition instead of running the quadratic
// model functions on Peano indices).  Used for the histogram only.
func viewsCost(lab []int) int {
	n := len(lab)
	idx := make([]int, n)
	k, c := 0, 0
	for i := 0; i < n; i++ {
		if lab[i] == i {
			idx[i] = k
			k++
			c += 2*k + 2*i
		} else {
			c += 2*(idx[lab[i]]+1) + 2*(lab[i]+1)
		}
	}
	return c * n
}

const viewBudget = 16_000_000

type outcome struct {
	obs        string
	compressed bool // some lookup walked a path of >= 3 elements (compression rewrote a pointer)
	maxWalk    int  // longest path (in links) walked by a lookup of the history
	viewsModel bool
	viol       []hx.OracleViolation
}

// run executes the history.
func run(h header, ops []op) (out outcome) {
	var sb, strict strings.Builder
	n := h.n
	ds := disjoint.New(n)
	buf := make([]int, 1, h.bufCap)
	first := true
	item := func(s string) {
		if !first {
			sb.WriteByte('|')
		}
		first = false
		sb.WriteString(s)
	}
	walked := func(xs ...int) {
		for _, x := range xs {
			d := depth(ds, x)
			if d >= 2 {
				out.compressed = true
			}
			if d > out.maxWalk {
				out.maxWalk = d
			}
		}
	}
	// A representative is a member of its own set and lookups do not change representatives, so
	// looking up the value just returned must give it back (checked on a copy).
	checkRep := func(i int, o op, r int) {
		if len(out.viol) > 0 {
			return
		}
		if r < 0 || r >= n {
			out.viol = append(out.viol, hx.Fail("C18:find-range", "op %d (%s) returned %d, not an element of 0..%d", i, o, r, n-1))
			return
		}
		c := append(disjoint.Set(nil), ds...)
		if r2 := c.Find(r); r2 != r {
			out.viol = append(out.viol, hx.Fail("C18:find-not-representative", "op %d (%s) returned %d, but Find(%d) immediately afterwards is %d: the value returned is not the representative of its own set", i, o, r, r, r2))
		}
	}
	for i, o := range ops {
		switch o.kind {
		case 'f':
			walked(o.x)
			r := ds.Find(o.x)
			fmt.Fprintf(&strict, "%d ", r)
			checkRep(i, o, r)
		case 'F':
			walked(o.x)
			r := ds.FindBuffered(o.x, buf)
			fmt.Fprintf(&strict, "%d ", r)
			checkRep(i, o, r)
		case 'u':
			walked(o.x, o.y)
			ds.Union(o.x, o.y)
		case 'U':
			walked(o.x, o.y)
			ds.UnionBuffered(o.x, o.y, buf)
		case 'q', 'Q':
			walked(o.x)
			var rx, ry int
			if o.kind == 'q' {
				rx = ds.Find(o.x)
				walked(o.y)
				ry = ds.Find(o.y)
			} else {
				rx = ds.FindBuffered(o.x, buf)
				walked(o.y)
				ry = ds.FindBuffered(o.y, buf)
			}
			if rx == ry {
				item("q1")
			} else {
				item("q0")
			}
		case 'o':
			item(hx.Ints(labels(ds)))
		case 'v':
			for x := 0; x < n && !out.compressed; x++ {
				walked(x)
			}
			sets := ds.Sets()
			sr := ds.SmallestRep()
			roots := ds.Roots()
			item("v" + setsStr(sets) + "~" + hx.Ints(sr) + "~" + hx.Ints(rootLabels(labels(ds), roots)))
		}
		if !h.sparse && o.kind != 'o' {
			item(hx.Ints(labels(ds)))
		}
	}
	// the final views; each is taken on its own copy, as the model does
	lab := labels(ds)
	out.viewsModel = viewsCost(lab) <= viewBudget
	c1 := append(disjoint.Set(nil), ds...)
	sets := c1.Sets()
	c2 := append(disjoint.Set(nil), ds...)
	sr := c2.SmallestRep()
	c3 := append(disjoint.Set(nil), ds...)
	roots := c3.Roots()
	fmt.Fprintf(&sb, ";sets=%s;sr=%s;roots=%s", setsStr(sets), hx.Ints(sr), hx.Ints(rootLabels(lab, roots)))
	out.obs = sb.String() + " ## " + hx.Ints([]int(ds)) + " finds=" + strings.TrimSpace(strict.String())
	return out
}

func exec(line string) hx.Result {
	h, ops := parseCase(line)
	out := run(h, ops)
	mode := "dense"
	if h.sparse {
		mode = "sparse"
	}
	views := "views:derived-from-partition"
	if out.viewsModel {
		views = "views:model"
	}
	return hx.Result{Obs: out.obs, Nontrivial: out.compressed, Viol: out.viol, Buckets: []string{
		fmt.Sprintf("n<=%d", bucket(h.n)), fmt.Sprintf("len<=%d", bucket(len(ops))),
		fmt.Sprintf("walk<=%d", bucket(out.maxWalk)), mode, views}}
}

// ---------------------------------------------------------------- generator

// ref is the generator's own copy of the documented algorithm (union by rank, second argument
// wins a tie, compression of all but the last two path elements).  It only steers the
// generator (which elements are roots now, which element is deepest); it is not an oracle.
type ref []int

func newRef(n int) ref {
	r := make(ref, n)
	for i := range r {
		r[i] = -1
	}
	return r
}

func (r ref) find(x int) int {
	var seen []int
	for r[x] >= 0 {
		seen = append(seen, x)
		x = r[x]
	}
	for i := 0; i+1 < len(seen); i++ {
		r[seen[i]] = x
	}
	return x
}

func (r ref) union(x, y int) {
	px, py := r.find(x), r.find(y)
	switch {
	case px == py:
	case r[px] < r[py]:
		r[py] = px
	case r[py] < r[px]:
		r[px] = py
	default:
		r[px] = py
		r[py]--
	}
}

func (r ref) depth(x int) int {
	d := 0
	for r[x] >= 0 {
		x = r[x]
		d++
	}
	return d
}

func (r ref) apply(o op) {
	switch o.kind {
	case 'f', 'F':
		r.find(o.x)
	case 'u', 'U':
		r.union(o.x, o.y)
	case 'q', 'Q':
		r.find(o.x)
		r.find(o.y)
	}
}

// kinds chooses between the unbuffered and the buffered variant of a call.
type kinds struct {
	mode int // 0 unbuffered only, 1 buffered only, 2 mixed
	r    *hx.Rng
}

func (k kinds) pick(lower, upper byte) byte {
	switch k.mode {
	case 0:
		return lower
	case 1:
		return upper
	}
	if k.r.Bool() {
		return lower
	}
	return upper
}
func (k kinds) u() byte { return k.pick('u', 'U') }
func (k kinds) f() byte { return k.pick('f', 'F') }
func (k kinds) q() byte { return k.pick('q', 'Q') }

const (
	shChainAsc  = iota // Union(e[i], e[i+1]): every call joins the tree built so far with a fresh singleton
	shChainDesc        // Union(e[i+1], e[i]): the same with the arguments exchanged
	shBinomial         // rounds of unions of pairs of current roots (equal ranks: the deepest trees union by rank allows)
	shRootPairs        // unions of two random current roots, random argument order (all rank combinations, no compression)
	shUniform          // unions of random elements (compression inside Union)
	shMixed            // a different one of the above per group
	nShapes
)

var shapeName = []string{"chain-asc", "chain-desc", "binomial-roots", "random-root-pairs", "uniform", "mixed"}

// buildGroup emits the unions that join the elements e (in this order) by the given shape and
// applies them to sim.  frac < 1 stops early (leaves several sets).
func buildGroup(r *hx.Rng, k kinds, sim ref, e []int, shape int, stopAfter int, emit func(op)) {
	m := len(e)
	if stopAfter > m-1 {
		stopAfter = m - 1
	}
	cnt := 0
	do := func(x, y int) bool {
		if cnt >= stopAfter {
			return false
		}
		o := op{k.u(), x, y}
		sim.apply(o)
		emit(o)
		cnt++
		return true
	}
	switch shape {
	case shChainAsc:
		for i := 0; i+1 < m && do(e[i], e[i+1]); i++ {
		}
	case shChainDesc:
		for i := 0; i+1 < m && do(e[i+1], e[i]); i++ {
		}
	case shBinomial:
		roots := append([]int(nil), e...)
		for len(roots) > 1 {
			var next []int
			i := 0
			for ; i+1 < len(roots); i += 2 {
				a, b := roots[i], roots[i+1]
				if r.Bool() {
					a, b = b, a
				}
				if !do(a, b) {
					return
				}
				next = append(next, sim.find(a))
			}
			if i < len(roots) {
				next = append(next, roots[i])
			}
			roots = next
		}
	case shRootPairs:
		roots := append([]int(nil), e...)
		for len(roots) > 1 {
			i := r.Intn(len(roots))
			j := r.Intn(len(roots) - 1)
			if j >= i {
				j++
			}
			if !do(roots[i], roots[j]) {
				return
			}
			w := sim.find(roots[i])
			if i < j {
				i, j = j, i
			}
			roots[i] = roots[len(roots)-1]
			roots = roots[:len(roots)-1]
			roots[j] = w
		}
	default: // uniform
		for t := 0; t < 2*m && do(e[r.Intn(m)], e[r.Intn(m)]); t++ {
		}
	}
}

// genBig builds a sparse case over n elements: the elements are split into k groups, every
// group is joined by unions in an order that gives the deepest tree some linking rule allows,
// then come lookups that start at the deep ends, snapshots of the partition and spot
// operations.  mid says whether views in the middle of the history are affordable for the model.
func genBig(r *hx.Rng, n, k, shape, kindMode int, mid bool) (header, []op) {
	h := header{n: n, sparse: true, bufCap: []int{1, 2, 4, 4, 64, 65, n + 1}[r.Intn(7)]}
	kd := kinds{kindMode, r}
	sim := newRef(n)
	var ops []op
	emit := func(o op) { ops = append(ops, o) }
	// relabelling: identity, reversal or a random permutation
	perm := make([]int, n)
	switch r.Intn(4) {
	case 0:
		for i := range perm {
			perm[i] = i
		}
	case 1:
		for i := range perm {
			perm[i] = n - 1 - i
		}
	default:
		perm = r.Perm(n)
	}
	if k > n {
		k = n
	}
	groups := make([][]int, k)
	switch r.Intn(3) {
	case 0: // interleaved: small least elements, roots anywhere
		for i := 0; i < n; i++ {
			groups[i%k] = append(groups[i%k], i)
		}
	case 1: // contiguous blocks of unequal size
		cuts := []int{0, n}
		for len(cuts) < k+1 {
			c := r.Range(1, n-1)
			dup := false
			for _, d := range cuts {
				dup = dup || d == c
			}
			if !dup {
				cuts = append(cuts, c)
			}
		}
		sort.Ints(cuts)
		for g := 0; g < k; g++ {
			for i := cuts[g]; i < cuts[g+1]; i++ {
				groups[g] = append(groups[g], i)
			}
		}
	default: // random assignment, no group empty
		for i := 0; i < n; i++ {
			g := r.Intn(k)
			if i < k {
				g = i
			}
			groups[g] = append(groups[g], i)
		}
	}
	var deep []int // elements that are deep under some linking rule
	for _, gi := range r.Perm(k) {
		e := groups[gi]
		// within a group: by position (perm applied), sometimes in a random order
		if r.Chance(1, 3) {
			p := r.Perm(len(e))
			e2 := make([]int, len(e))
			for i, j := range p {
				e2[i] = e[j]
			}
			e = e2
		}
		for i := range e {
			e[i] = perm[e[i]]
		}
		groups[gi] = e
		sh := shape
		if sh == shMixed {
			sh = r.Intn(shMixed)
		}
		stop := len(e)
		if r.Chance(1, 6) {
			stop = r.Range(len(e)/2, len(e))
		}
		buildGroup(r, kd, sim, e, sh, stop, emit)
		// the ends of the build order are the deep ends of a path if ranks are ignored or
		// compared the wrong way round; under the documented rule the deepest is found on sim
		second := e[0]
		if len(e) > 1 {
			second = e[1]
		}
		deep = append(deep, e[0], e[len(e)-1], second)
		best, bd := e[0], -1
		for _, x := range e {
			if d := sim.depth(x); d > bd {
				best, bd = x, d
			}
		}
		deep = append(deep, best)
	}
	add := func(o op) { sim.apply(o); emit(o) }
	pickDeep := func() int { return deep[r.Intn(len(deep))] }
	// first lookups after the build: either a snapshot first (on a copy: does not compress the
	// set under test) or straight a lookup from a deep end
	if r.Bool() {
		add(op{kind: 'o'})
	}
	first := r.Range(1, 4)
	for t := 0; t < first; t++ {
		x := pickDeep()
		if t == 0 {
			// the sim-deepest element of the group built first, or an end of its build order
			x = deep[r.Intn(4)]
		}
		switch r.Intn(4) {
		case 0:
			add(op{kd.f(), x, 0})
		case 1:
			add(op{kd.q(), x, pickDeep()})
		case 2:
			add(op{kd.q(), r.Intn(n), x})
		default:
			add(op{kd.u(), x, pickDeep()})
		}
	}
	add(op{kind: 'o'})
	// spot operations
	spots := 8 + r.Intn(n/4+1)
	if spots > 300 {
		spots = 300
	}
	snapAt := -1
	if r.Bool() {
		snapAt = r.Intn(spots)
	}
	for t := 0; t < spots; t++ {
		x, y := r.Intn(n), r.Intn(n)
		if r.Chance(1, 3) {
			x = pickDeep()
		}
		switch c := r.Intn(10); {
		case c < 3:
			add(op{kd.f(), x, 0})
		case c < 6:
			add(op{kd.q(), x, y})
		case c < 8: // union inside one group (no change of the partition once the group is joined)
			g := groups[r.Intn(k)]
			add(op{kd.u(), g[r.Intn(len(g))], g[r.Intn(len(g))]})
		case c < 9 && k > 1 && r.Chance(1, 3): // join two groups
			add(op{kd.u(), x, y})
		default:
			add(op{kd.q(), x, pickDeep()})
		}
		if t == snapAt {
			add(op{kind: 'o'})
		}
		if mid && r.Chance(1, 40) {
			add(op{kind: 'v'})
		}
	}
	add(op{kind: 'o'})
	return h, ops
}

func genHistory(r *hx.Rng, n, length int, style int) []op {
	ops := make([]op, 0, length)
	kinds := []byte{'u', 'U', 'f', 'F'}
	switch style {
	case 0: // uniform
		for len(ops) < length {
			k := kinds[r.Intn(4)]
			ops = append(ops, op{k, r.Intn(n), r.Intn(n)})
		}
	case 1: // build binomial trees (equal-rank unions give the deepest forests), then finds
		step := 1
		for step < n && len(ops) < length {
			for i := 0; i+step < n && len(ops) < length; i += 2 * step {
				k := kinds[r.Intn(2)]
				// union of two roots-of-blocks in an order that varies which root survives
				if r.Bool() {
					ops = append(ops, op{k, i, i + step})
				} else {
					ops = append(ops, op{k, i + step, i})
				}
			}
			step *= 2
		}
		for len(ops) < length {
			k := kinds[2+r.Intn(2)]
			if r.Chance(1, 4) {
				k = kinds[r.Intn(2)]
			}
			ops = append(ops, op{k, r.Intn(n), r.Intn(n)})
		}
	case 2: // unions dominate, many of them between already joined elements, finds in between
		for len(ops) < length {
			if r.Chance(2, 3) {
				x := r.Intn(n)
				y := x
				if r.Chance(3, 4) {
					y = r.Intn(n)
				}
				ops = append(ops, op{kinds[r.Intn(2)], x, y})
			} else {
				ops = append(ops, op{kinds[2+r.Intn(2)], r.Intn(n), 0})
			}
		}
	}
	for i := range ops {
		if ops[i].kind == 'f' || ops[i].kind == 'F' {
			ops[i].y = 0
		}
	}
	return ops
}

// sprinkle turns some lookups of a history into same-set queries and inserts a few views taken
// on the set itself.
func sprinkle(r *hx.Rng, n int, ops []op) []op {
	out := make([]op, 0, len(ops)+2)
	for _, o := range ops {
		if (o.kind == 'f' || o.kind == 'F') && r.Chance(1, 3) {
			o = op{o.kind - 'f' + 'q', o.x, r.Intn(n)}
		}
		out = append(out, o)
		// the model's views are cubic in n on Peano indices: several per case only for small n
		if n <= 40 && r.Chance(1, 25) {
			out = append(out, op{kind: 'v'})
		}
	}
	if n > 40 && r.Chance(1, 4) {
		i := r.Intn(len(out) + 1)
		out = append(out[:i], append([]op{{kind: 'v'}}, out[i:]...)...)
	}
	return out
}

func gen(g *hx.Gen) {
	do := func(n int, ops []op) { g.Emit(caseLine(header{n: n, bufCap: 4}, ops)) }
	// corpus: the chain of the non-vacuity example of Props/C18.v
	do(8, []op{{'u', 0, 1}, {'u', 2, 3}, {'u', 1, 3}, {'u', 4, 5}, {'u', 6, 7}, {'u', 5, 7}, {'u', 3, 7}, {'f', 0, 0}})
	do(1, []op{{'f', 0, 0}, {'u', 0, 0}})
	do(1, []op{{kind: 'v'}, {'q', 0, 0}, {kind: 'o'}})
	// exhaustive small spaces
	exh := func(n, length int, kinds []byte) {
		var all []op
		for _, k := range kinds {
			for x := 0; x < n; x++ {
				if k == 'f' || k == 'F' {
					all = append(all, op{k, x, 0})
					continue
				}
				for y := 0; y < n; y++ {
					all = append(all, op{k, x, y})
				}
			}
		}
		idx := make([]int, length)
		for {
			ops := make([]op, length)
			for i, j := range idx {
				ops[i] = all[j]
			}
			do(n, ops)
			i := length - 1
			for ; i >= 0; i-- {
				idx[i]++
				if idx[i] < len(all) {
					break
				}
				idx[i] = 0
			}
			if i < 0 {
				break
			}
		}
		g.Exhaustive(fmt.Sprintf("all histories of length %d over n=%d, kinds %s", length, n, string(kinds)))
	}
	exh(3, 2, []byte{'u', 'U', 'f', 'F'})
	exh(3, 3, []byte{'u', 'f'})
	if g.Thorough() {
		exh(4, 4, []byte{'u', 'f'})
		exh(3, 5, []byte{'u', 'f'})
	}
	r := g.Rng

	// Large sets, sparse observation.  For every size boundary B (a plausible capacity of a
	// fixed path buffer or threshold of a second code path) and every union order: n just
	// above B joined into ONE set (path length n under a wrong linking rule), and n below / at /
	// further above B split into a few sets.
	bounds := []int{64, 128, 256, 512, 1024}
	if g.Thorough() {
		bounds = append(bounds, 2048, 4096)
	}
	kindMode := r.Intn(3)
	for _, b := range bounds {
		reps := g.Pick(1, 4)
		if b >= 2048 {
			reps = 1
		}
		for shape := 0; shape < nShapes; shape++ {
			for rep := 0; rep < reps; rep++ {
				// n = B+1 joined into one set.  A chain order is a deep path only under one particular
				// altered linking rule of the variant (buffered or not) that makes the calls, so the
				// chains are run once with each variant alone; the other shapes cycle through the modes.
				modes := []int{kindMode % 3}
				kindMode++
				if (shape == shChainAsc || shape == shChainDesc) && rep == 0 {
					modes = []int{0, 1}
				}
				for _, m := range modes {
					h, ops := genBig(r, b+1, 1, shape, m, false)
					g.Emit(caseLine(h, ops))
				}
				// below, at, further above B, split into a few sets
				offs := []int{[]int{-1, 0, 2, 3 + r.Intn(b/2)}[r.Intn(4)]}
				if g.Thorough() {
					offs = []int{-1, 0, 2, 3 + r.Intn(b/2)}
				}
				for _, off := range offs {
					n := b + off
					h, ops := genBig(r, n, []int{1, 2, 3, 5, 8}[r.Intn(5)], shape, kindMode%3, n <= 140)
					kindMode++
					g.Emit(caseLine(h, ops))
				}
			}
		}
	}
	// a few histories well above the last boundary
	for i, cnt := 0, g.Pick(4, 24); i < cnt; i++ {
		n := r.Range(1500, 2100)
		if g.Thorough() && i%4 == 3 {
			n = r.Range(2100, 5000)
		}
		shape := []int{shChainAsc, shChainDesc, shBinomial, shRootPairs, shMixed}[i%5]
		mode := kindMode % 3
		kindMode++
		if shape == shChainAsc || shape == shChainDesc {
			mode = (i/5 + i) % 2
		}
		h, ops := genBig(r, n, []int{1, 1, 2, 4}[r.Intn(4)], shape, mode, false)
		g.Emit(caseLine(h, ops))
	}
	// sizes between the boundaries, many sets, roots that are not least elements
	for i, cnt := 0, g.Pick(60, 1500); i < cnt; i++ {
		n := r.Range(65, 300)
		if r.Chance(1, 4) {
			n = r.Range(65, 70)
		}
		h, ops := genBig(r, n, r.Range(1, 12), r.Intn(nShapes), r.Intn(3), n <= 140)
		g.Emit(caseLine(h, ops))
	}

	count := g.Pick(6000, 200000)
	for i := 0; i < count; i++ {
		var n int
		switch r.Intn(4) {
		case 0:
			n = r.Range(1, 6)
		case 1:
			n = r.Range(4, 16)
		case 2:
			n = r.Range(8, 33)
		default:
			n = r.Range(16, 64)
		}
		length := r.Range(1, 12)
		if r.Chance(1, 2) {
			length = r.Range(n, 3*n+4)
		}
		if r.Chance(1, 60) {
			// dense observation just around and above the 64 boundary; long histories only (the
			// model's final views are cubic in n on a partition into near-singletons)
			n = r.Range(63, 140)
			length = r.Range(n/2, 120)
		}
		if length > 120 {
			length = 120
		}
		ops := genHistory(r, n, length, r.Intn(3))
		if r.Chance(1, 3) {
			ops = sprinkle(r, n, ops)
		}
		do(n, ops)
	}
}

func main() {
	hx.Main(hx.Prop{
		Rule:        "history = n plus a list of Union/UnionBuffered/Find/FindBuffered calls, same-set queries and views with indices < n; non-trivial = some call walked a path of >= 3 elements so that path compression rewrote a parent pointer; distinct by history text",
		Gen:         gen,
		Exec:        exec,
		CaseTimeout: 20 * time.Second,
		MemMB:       2048,
	})
}

func bucket(n int) int {
	b := 1
	for b < n {
		b *= 2
	}
	return b
}
