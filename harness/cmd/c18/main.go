// Command c18 exercises disjoint.Set on histories of Union/UnionBuffered/Find/FindBuffered
// (plus same-set queries and the views taken in the middle of a history) and prints the
// partition it represents after every operation (dense cases) or at chosen points (sparse
// cases, used for large n) (C18).
//
// Case syntax (shared with ocaml/c18/driver.ml):
//
//	<n>[:s][:c<cap>];tok tok ...
//
// header flag s = sparse: the partition is observed only at `o` tokens; without it it is
// observed after every token.  c<cap> = capacity of the scratch buffer handed to the buffered
// calls (default 4; one buffer is re-used by all calls of a case).  Tokens:
//
//	f<x> F<x>           Find / FindBuffered
//	u<x>,<y> U<x>,<y>   Union / UnionBuffered
//	q<x>,<y> Q<x>,<y>   Find(x) == Find(y) with Find / FindBuffered, item q0|q1
//	o                   item = the partition (least member of every element's class), taken on a copy
//	v                   Sets(), SmallestRep(), Roots() on the set itself, item v<sets>~<sr>~<roots>
//
// Deleting tokens keeps a case valid (shrink: tokens).
package main

import (
	"fmt"
	"sort"
	"strconv"
	"strings"
	"time"

	"github.com/Tom-Johnston/mamba/disjoint"
	"verifharness/hx"
)

type op struct {
	kind byte // f F u U q Q o v
	x, y int
}

func (o op) String() string {
	switch o.kind {
	case 'f', 'F':
		return fmt.Sprintf("%c%d", o.kind, o.x)
	case 'o', 'v', 's', 'm', 'r':
		return string(o.kind)
	}
	return fmt.Sprintf("%c%d,%d", o.kind, o.x, o.y)
}

type header struct {
	n       int
	sparse  bool
	bufCap  int
	garbage bool // the scratch buffer is filled with arbitrary in-range values before the first and after every buffered call, and handed over at full length every other time
	two     bool // a second Set of n2 elements lives next to the first; tokens with prefix @ go to it; both share the scratch buffer
	n2      int
}

func (h header) String() string {
	s := strconv.Itoa(h.n)
	if h.sparse {
		s += ":s"
	}
	if h.bufCap != 4 {
		s += fmt.Sprintf(":c%d", h.bufCap)
	}
	if h.garbage {
		s += ":g"
	}
	if h.two {
		s += fmt.Sprintf(":t%d", h.n2)
	}
	return s
}

func tokens(ops []op, prefix string) []string {
	s := make([]string, len(ops))
	for i, o := range ops {
		s[i] = prefix + o.String()
	}
	return s
}

func caseLine(h header, ops []op) string {
	return h.String() + ";" + strings.Join(tokens(ops, ""), " ")
}

// tok is a token of a case: an operation and the object (0 or 1) it goes to.
type tok struct {
	op
	obj int
}

func parseCase(line string) (header, []tok) {
	parts := strings.SplitN(line, ";", 2)
	hs := strings.Split(parts[0], ":")
	h := header{bufCap: 4}
	h.n, _ = strconv.Atoi(hs[0])
	for _, f := range hs[1:] {
		switch {
		case f == "s":
			h.sparse = true
		case f == "g":
			h.garbage = true
		case strings.HasPrefix(f, "c"):
			h.bufCap, _ = strconv.Atoi(f[1:])
		case strings.HasPrefix(f, "t"):
			h.two = true
			h.n2, _ = strconv.Atoi(f[1:])
		}
	}
	if h.bufCap < 1 {
		h.bufCap = 1
	}
	var ops []tok
	for _, t := range strings.Fields(parts[1]) {
		var o tok
		if t[0] == '@' {
			o.obj = 1
			t = t[1:]
		}
		o.kind = t[0]
		if len(t) > 1 {
			nums := strings.Split(t[1:], ",")
			o.x, _ = strconv.Atoi(nums[0])
			if len(nums) > 1 {
				o.y, _ = strconv.Atoi(nums[1])
			}
		}
		ops = append(ops, o)
	}
	return h, ops
}

// labels gives every element the least member of its class, computed on a copy so that
// observing does not compress the set under test.
func labels(ds disjoint.Set) []int {
	c := append(disjoint.Set(nil), ds...)
	lab := make([]int, len(c))
	rootMin := make(map[int]int, 8)
	for i := range c {
		r := c.Find(i)
		if m, ok := rootMin[r]; ok {
			lab[i] = m
		} else {
			rootMin[r] = i
			lab[i] = i
		}
	}
	return lab
}

// depth of x in the raw forest (number of parent links to the root), without mutation.
func depth(ds disjoint.Set, x int) int {
	d := 0
	for ds[x] >= 0 && d <= len(ds) {
		x = ds[x]
		d++
	}
	return d
}

func setsStr(sets [][]int) string {
	ss := make([]string, len(sets))
	for i, s := range sets {
		ss[i] = strings.ReplaceAll(hx.Ints(s), ",", ".")
	}
	return strings.Join(ss, "/")
}

func rootLabels(lab, roots []int) []int {
	rl := make([]int, len(roots))
	for i, r := range roots {
		rl[i] = lab[r]
	}
	sort.Ints(rl)
	return rl
}

// viewsCost is the driver's estimate of the model steps of sets + smallest_rep on a set with
// this partition (same formula and threshold as ocaml/c18/driver.ml: above the threshold the
// driver derives the expected final views from the partition instead of running the quadratic
// model functions on Peano indices).  Used for the histogram only.
func viewsCost(lab []int) int {
	n := len(lab)
	idx := make([]int, n)
	k, c := 0, 0
	for i := 0; i < n; i++ {
		if lab[i] == i {
			idx[i] = k
			k++
			c += 2*k + 2*i
		} else {
			c += 2*(idx[lab[i]]+1) + 2*(lab[i]+1)
		}
	}
	return c * n
}

const viewBudget = 16_000_000

type outcome struct {
	obs        string
	compressed bool // some lookup walked a path of >= 3 elements (compression rewrote a pointer)
	maxWalk    int  // longest path (in links) walked by a lookup of the history
	viewsModel bool
	nsets      int
	viol       []hx.OracleViolation
}

// held is a result of a view kept by the caller together with a deep copy taken when it was
// returned: the result of an earlier call must not change through later calls.
type held struct {
	what string
	sets [][]int
	ints []int
	cs   [][]int
	ci   []int
}

func copySets(a [][]int) [][]int {
	c := make([][]int, len(a))
	for i := range a {
		c[i] = append([]int(nil), a[i]...)
	}
	return c
}

func sameInts(a, b []int) bool {
	if len(a) != len(b) {
		return false
	}
	for i := range a {
		if a[i] != b[i] {
			return false
		}
	}
	return true
}

func sameSets(a, b [][]int) bool {
	if len(a) != len(b) {
		return false
	}
	for i := range a {
		if !sameInts(a[i], b[i]) {
			return false
		}
	}
	return true
}

func (h *held) intact() bool { return sameSets(h.sets, h.cs) && sameInts(h.ints, h.ci) }

// scribble overwrites a result the caller owns.
func (h *held) scribble() {
	for i := range h.ints {
		h.ints[i] = -7 - i
	}
	for _, s := range h.sets {
		for i := range s {
			s[i] = 1<<20 + i
		}
	}
	for i := range h.sets {
		h.sets[i] = h.sets[0][:0]
	}
}

// run executes the history.
func run(h header, ops []tok) (out outcome) {
	var sb, strict strings.Builder
	size := []int{h.n, h.n2}
	dss := []disjoint.Set{disjoint.New(h.n)}
	if h.two {
		dss = append(dss, disjoint.New(h.n2))
	}
	buf := make([]int, 1, h.bufCap)
	// garbage: whatever the buffer holds is the caller's business
	calls := 0
	fill := func() {
		if !h.garbage {
			return
		}
		calls++
		m := h.n
		if m < 1 {
			m = 1
		}
		b := buf[:cap(buf)]
		for i := range b {
			b[i] = (i*7 + calls*13 + 3) % m
		}
		if calls%2 == 0 {
			buf = b
		} else {
			buf = b[:1]
		}
	}
	fill()
	first := true
	item := func(obj int, s string) {
		if !first {
			sb.WriteByte('|')
		}
		first = false
		if obj == 1 {
			sb.WriteByte('@')
		}
		sb.WriteString(s)
	}
	fail := func(key, format string, a ...interface{}) {
		if len(out.viol) < 3 {
			out.viol = append(out.viol, hx.Fail(key, format, a...))
		}
	}
	var keep []*held
	hold := func(x *held) {
		x.cs, x.ci = copySets(x.sets), append([]int(nil), x.ints...)
		keep = append(keep, x)
	}
	revalidate := func(i int, o tok) {
		for _, x := range keep {
			if !x.intact() {
				fail("C18:result-changed", "the result of %s changed after later calls (noticed after op %d, %s): now %v %v, was %v %v", x.what, i, o, x.sets, x.ints, x.cs, x.ci)
				x.cs, x.ci = copySets(x.sets), append([]int(nil), x.ints...)
			}
		}
	}
	for i, o := range ops {
		if o.obj >= len(dss) {
			continue // token for an object the header does not declare (only after shrinking by hand)
		}
		ds := dss[o.obj]
		n := size[o.obj]
		walked := func(xs ...int) {
			for _, x := range xs {
				d := depth(ds, x)
				if d >= 2 {
					out.compressed = true
				}
				if d > out.maxWalk {
					out.maxWalk = d
				}
			}
		}
		// A representative is a member of its own set and lookups do not change representatives,
		// so looking up the value just returned must give it back (checked on a copy).
		checkRep := func(r int) {
			if r < 0 || r >= n {
				fail("C18:find-range", "op %d (%s) returned %d, not an element of 0..%d", i, o, r, n-1)
				return
			}
			c := append(disjoint.Set(nil), ds...)
			if r2 := c.Find(r); r2 != r {
				fail("C18:find-not-representative", "op %d (%s) returned %d, but Find(%d) immediately afterwards is %d: the value returned is not the representative of its own set", i, o, r, r, r2)
			}
		}
		walkedAll := func() {
			for x := 0; x < n && !out.compressed; x++ {
				walked(x)
			}
		}
		// a view is about to be called: the oldest results held are given up (scribbled over)
		retire := func() {
			for len(keep) > 6 {
				keep[0].scribble()
				keep = keep[1:]
			}
		}
		switch o.kind {
		case 'f':
			walked(o.x)
			r := ds.Find(o.x)
			fmt.Fprintf(&strict, "%d ", r)
			checkRep(r)
		case 'F':
			walked(o.x)
			r := ds.FindBuffered(o.x, buf)
			fill()
			fmt.Fprintf(&strict, "%d ", r)
			checkRep(r)
		case 'u':
			walked(o.x, o.y)
			ds.Union(o.x, o.y)
		case 'U':
			walked(o.x, o.y)
			ds.UnionBuffered(o.x, o.y, buf)
			fill()
		case 'q', 'Q':
			walked(o.x)
			var rx, ry int
			if o.kind == 'q' {
				rx = ds.Find(o.x)
				walked(o.y)
				ry = ds.Find(o.y)
			} else {
				rx = ds.FindBuffered(o.x, buf)
				fill()
				walked(o.y)
				ry = ds.FindBuffered(o.y, buf)
				fill()
			}
			if rx == ry {
				item(o.obj, "q1")
			} else {
				item(o.obj, "q0")
			}
		case 'o':
			item(o.obj, hx.Ints(labels(ds)))
		case 's':
			walkedAll()
			retire()
			sets := ds.Sets()
			hold(&held{what: fmt.Sprintf("Sets() at op %d", i), sets: sets})
			item(o.obj, "s"+setsStr(sets))
		case 'm':
			walkedAll()
			retire()
			sr := ds.SmallestRep()
			hold(&held{what: fmt.Sprintf("SmallestRep() at op %d", i), ints: sr})
			item(o.obj, "m"+hx.Ints(sr))
		case 'r':
			retire()
			roots := ds.Roots()
			hold(&held{what: fmt.Sprintf("Roots() at op %d", i), ints: roots})
			item(o.obj, "r"+hx.Ints(rootLabels(labels(ds), roots)))
		case 'v':
			walkedAll()
			retire()
			sets := ds.Sets()
			hold(&held{what: fmt.Sprintf("Sets() at op %d", i), sets: sets})
			sr := ds.SmallestRep()
			hold(&held{what: fmt.Sprintf("SmallestRep() at op %d", i), ints: sr})
			roots := ds.Roots()
			hold(&held{what: fmt.Sprintf("Roots() at op %d", i), ints: roots})
			item(o.obj, "v"+setsStr(sets)+"~"+hx.Ints(sr)+"~"+hx.Ints(rootLabels(labels(ds), roots)))
		}
		if !h.sparse && o.kind != 'o' {
			item(o.obj, hx.Ints(labels(ds)))
		}
		revalidate(i, o)
	}
	// every result still held is given up before the final views are taken
	for _, x := range keep {
		x.scribble()
	}
	keep = nil
	// the final views; each is taken on its own copy, as the model does
	var raw []string
	for obj, ds := range dss {
		lab := labels(ds)
		if obj == 0 {
			out.viewsModel = viewsCost(lab) <= viewBudget
		}
		view := func() (*held, *held, *held) {
			c1 := append(disjoint.Set(nil), ds...)
			c2 := append(disjoint.Set(nil), ds...)
			c3 := append(disjoint.Set(nil), ds...)
			return &held{what: "Sets() at the end", sets: c1.Sets()}, &held{what: "SmallestRep() at the end", ints: c2.SmallestRep()}, &held{what: "Roots() at the end", ints: c3.Roots()}
		}
		a1, a2, a3 := view()
		pre := ""
		if obj == 1 {
			pre = "@"
		} else {
			out.nsets = len(a1.sets)
		}
		fmt.Fprintf(&sb, ";%ssets=%s;%ssr=%s;%sroots=%s", pre, setsStr(a1.sets), pre, hx.Ints(a2.ints), pre, hx.Ints(rootLabels(lab, a3.ints)))
		// the same views of the same array again, with the first results held, and a third time
		// after the caller has scribbled over the first results: all three must agree
		hold(a1)
		hold(a2)
		hold(a3)
		b1, b2, b3 := view()
		revalidate(len(ops), tok{})
		if !sameSets(b1.sets, a1.cs) || !sameInts(b2.ints, a2.ci) || !sameInts(b3.ints, a3.ci) {
			fail("C18:view-not-reproducible", "the views of one array taken twice differ: Sets %v / %v, SmallestRep %v / %v, Roots %v / %v", a1.cs, b1.sets, a2.ci, b2.ints, a3.ci, b3.ints)
		}
		a1.scribble()
		a2.scribble()
		a3.scribble()
		keep = nil
		c1, c2, c3 := view()
		if !sameSets(c1.sets, a1.cs) || !sameInts(c2.ints, a2.ci) || !sameInts(c3.ints, a3.ci) {
			fail("C18:view-after-scribble", "after the caller overwrote the results of the views, the views of the same array differ: Sets %v / %v, SmallestRep %v / %v, Roots %v / %v", a1.cs, c1.sets, a2.ci, c2.ints, a3.ci, c3.ints)
		}
		raw = append(raw, hx.Ints([]int(ds)))
	}
	out.obs = sb.String() + " ## " + strings.Join(raw, " @ ") + " finds=" + strings.TrimSpace(strict.String())
	return out
}

func exec(line string) hx.Result {
	h, ops := parseCase(line)
	out := run(h, ops)
	mode := "dense"
	if h.sparse {
		mode = "sparse"
	}
	views := "views:derived-from-partition"
	if out.viewsModel {
		views = "views:model"
	}
	b := []string{
		fmt.Sprintf("n<=%d", bucket(h.n)), fmt.Sprintf("len<=%d", bucket(len(ops))),
		fmt.Sprintf("walk<=%d", bucket(out.maxWalk)), fmt.Sprintf("sets<=%d", bucket(out.nsets)),
		fmt.Sprintf("bufcap<=%d", bucket(h.bufCap)), mode, views}
	if h.two {
		b = append(b, "two-objects")
	}
	if h.garbage {
		b = append(b, "buffer-garbage")
	}
	return hx.Result{Obs: out.obs, Nontrivial: out.compressed, Viol: out.viol, Buckets: b}
}

// ---------------------------------------------------------------- generator

// ref is the generator's own copy of the documented algorithm (union by rank, second argument
// wins a tie, compression of all but the last two path elements).  It only steers the
// generator (which elements are roots now, which element is deepest); it is not an oracle.
type ref []int

func newRef(n int) ref {
	r := make(ref, n)
	for i := range r {
		r[i] = -1
	}
	return r
}

func (r ref) find(x int) int {
	var seen []int
	for r[x] >= 0 {
		seen = append(seen, x)
		x = r[x]
	}
	for i := 0; i+1 < len(seen); i++ {
		r[seen[i]] = x
	}
	return x
}

func (r ref) union(x, y int) {
	px, py := r.find(x), r.find(y)
	switch {
	case px == py:
	case r[px] < r[py]:
		r[py] = px
	case r[py] < r[px]:
		r[px] = py
	default:
		r[px] = py
		r[py]--
	}
}

// root is find without compression (a question of the generator, not an operation of the case).
func (r ref) root(x int) int {
	for r[x] >= 0 {
		x = r[x]
	}
	return x
}

func (r ref) depth(x int) int {
	d := 0
	for r[x] >= 0 {
		x = r[x]
		d++
	}
	return d
}

func (r ref) apply(o op) {
	switch o.kind {
	case 'f', 'F':
		r.find(o.x)
	case 'u', 'U':
		r.union(o.x, o.y)
	case 'q', 'Q':
		r.find(o.x)
		r.find(o.y)
	}
}

// kinds chooses between the unbuffered and the buffered variant of a call.
type kinds struct {
	mode int // 0 unbuffered only, 1 buffered only, 2 mixed
	r    *hx.Rng
}

func (k kinds) pick(lower, upper byte) byte {
	switch k.mode {
	case 0:
		return lower
	case 1:
		return upper
	}
	if k.r.Bool() {
		return lower
	}
	return upper
}
func (k kinds) u() byte { return k.pick('u', 'U') }
func (k kinds) f() byte { return k.pick('f', 'F') }
func (k kinds) q() byte { return k.pick('q', 'Q') }

const (
	shChainAsc  = iota // Union(e[i], e[i+1]): every call joins the tree built so far with a fresh singleton
	shChainDesc        // Union(e[i+1], e[i]): the same with the arguments exchanged
	shBinomial         // rounds of unions of pairs of current roots (equal ranks: the deepest trees union by rank allows)
	shRootPairs        // unions of two random current roots, random argument order (all rank combinations, no compression)
	shUniform          // unions of random elements (compression inside Union)
	shMixed            // a different one of the above per group
	nShapes
)

var shapeName = []string{"chain-asc", "chain-desc", "binomial-roots", "random-root-pairs", "uniform", "mixed"}

// buildGroup emits the unions that join the elements e (in this order) by the given shape and
// applies them to sim.  frac < 1 stops early (leaves several sets).
func buildGroup(r *hx.Rng, k kinds, sim ref, e []int, shape int, stopAfter int, emit func(op)) {
	m := len(e)
	if stopAfter > m-1 {
		stopAfter = m - 1
	}
	cnt := 0
	do := func(x, y int) bool {
		if cnt >= stopAfter {
			return false
		}
		o := op{k.u(), x, y}
		sim.apply(o)
		emit(o)
		cnt++
		return true
	}
	switch shape {
	case shChainAsc:
		for i := 0; i+1 < m && do(e[i], e[i+1]); i++ {
		}
	case shChainDesc:
		for i := 0; i+1 < m && do(e[i+1], e[i]); i++ {
		}
	case shBinomial:
		roots := append([]int(nil), e...)
		for len(roots) > 1 {
			var next []int
			i := 0
			for ; i+1 < len(roots); i += 2 {
				a, b := roots[i], roots[i+1]
				if r.Bool() {
					a, b = b, a
				}
				if !do(a, b) {
					return
				}
				next = append(next, sim.find(a))
			}
			if i < len(roots) {
				next = append(next, roots[i])
			}
			roots = next
		}
	case shRootPairs:
		roots := append([]int(nil), e...)
		for len(roots) > 1 {
			i := r.Intn(len(roots))
			j := r.Intn(len(roots) - 1)
			if j >= i {
				j++
			}
			if !do(roots[i], roots[j]) {
				return
			}
			w := sim.find(roots[i])
			if i < j {
				i, j = j, i
			}
			roots[i] = roots[len(roots)-1]
			roots = roots[:len(roots)-1]
			roots[j] = w
		}
	default: // uniform
		for t := 0; t < 2*m && do(e[r.Intn(m)], e[r.Intn(m)]); t++ {
		}
	}
}

// genBig builds a sparse case over n elements: the elements are split into k groups, every
// group is joined by unions in an order that gives the deepest tree some linking rule allows,
// then come lookups that start at the deep ends, snapshots of the partition and spot
// operations.  mid says whether views in the middle of the history are affordable for the model.
//
// grouping: 0 interleaved (element i in group i mod k), 1 contiguous blocks of unequal size, 2
// random, 3 interleaved runs (element i in group (i / L) mod k), -1 any of them.
func genBig(r *hx.Rng, n, k, shape, kindMode int, mid bool, grouping int) (header, []op) {
	h := header{n: n, sparse: true, garbage: r.Chance(1, 4)}
	kd := kinds{kindMode, r}
	sim := newRef(n)
	var ops []op
	emit := func(o op) { ops = append(ops, o) }
	// relabelling: identity, reversal or a random permutation
	perm := make([]int, n)
	switch r.Intn(4) {
	case 0:
		for i := range perm {
			perm[i] = i
		}
	case 1:
		for i := range perm {
			perm[i] = n - 1 - i
		}
	default:
		perm = r.Perm(n)
	}
	if k > n {
		k = n
	}
	groups := make([][]int, k)
	if grouping < 0 {
		grouping = r.Intn(4)
	}
	switch grouping {
	case 3: // interleaved runs
		l := r.Range(2, 5)
		for i := 0; i < n; i++ {
			g := (i / l) % k
			if i < k*l && i%l == 0 {
				g = i / l // every group gets its first run
			}
			groups[g] = append(groups[g], i)
		}
		for g := range groups { // n < k*l: the groups without a run take an element of the largest
			for len(groups[g]) == 0 {
				big := 0
				for j := range groups {
					if len(groups[j]) > len(groups[big]) {
						big = j
					}
				}
				m := len(groups[big]) - 1
				groups[g] = append(groups[g], groups[big][m])
				groups[big] = groups[big][:m]
			}
		}
	case 0: // interleaved: small least elements, roots anywhere
		for i := 0; i < n; i++ {
			groups[i%k] = append(groups[i%k], i)
		}
	case 1: // contiguous blocks of unequal size
		cuts := []int{0, n}
		for len(cuts) < k+1 {
			c := r.Range(1, n-1)
			dup := false
			for _, d := range cuts {
				dup = dup || d == c
			}
			if !dup {
				cuts = append(cuts, c)
			}
		}
		sort.Ints(cuts)
		for g := 0; g < k; g++ {
			for i := cuts[g]; i < cuts[g+1]; i++ {
				groups[g] = append(groups[g], i)
			}
		}
	default: // random assignment, no group empty
		for i := 0; i < n; i++ {
			g := r.Intn(k)
			if i < k {
				g = i
			}
			groups[g] = append(groups[g], i)
		}
	}
	var deep []int // elements that are deep under some linking rule
	for _, gi := range r.Perm(k) {
		e := groups[gi]
		// within a group: by position (perm applied), sometimes in a random order
		if r.Chance(1, 3) {
			p := r.Perm(len(e))
			e2 := make([]int, len(e))
			for i, j := range p {
				e2[i] = e[j]
			}
			e = e2
		}
		for i := range e {
			e[i] = perm[e[i]]
		}
		groups[gi] = e
		sh := shape
		if sh == shMixed {
			sh = r.Intn(shMixed)
		}
		stop := len(e)
		if r.Chance(1, 6) {
			stop = r.Range(len(e)/2, len(e))
		}
		buildGroup(r, kd, sim, e, sh, stop, emit)
		// the ends of the build order are the deep ends of a path if ranks are ignored or
		// compared the wrong way round; under the documented rule the deepest is found on sim
		second := e[0]
		if len(e) > 1 {
			second = e[1]
		}
		deep = append(deep, e[0], e[len(e)-1], second)
		best, bd := e[0], -1
		for _, x := range e {
			if d := sim.depth(x); d > bd {
				best, bd = x, d
			}
		}
		deep = append(deep, best)
	}
	// the scratch buffer: capacity 1, around the number of elements on the longest path of the
	// forest just built (as the documented rule builds it), around n (the longest path any rule
	// builds), or a fixed size
	longest := 1
	for x := 0; x < n; x++ {
		if d := sim.depth(x) + 1; d > longest {
			longest = d
		}
	}
	h.bufCap = []int{1, longest - 1, longest, longest + 1, 4, 64, n - 1, n, n + 1}[r.Intn(9)]
	if h.bufCap < 1 {
		h.bufCap = 1
	}
	add := func(o op) { sim.apply(o); emit(o) }
	pickDeep := func() int { return deep[r.Intn(len(deep))] }
	// first lookups after the build: either a snapshot first (on a copy: does not compress the
	// set under test) or straight a lookup from a deep end
	if r.Bool() {
		add(op{kind: 'o'})
	}
	first := r.Range(1, 4)
	for t := 0; t < first; t++ {
		x := pickDeep()
		if t == 0 {
			// the sim-deepest element of the group built first, or an end of its build order
			x = deep[r.Intn(4)]
		}
		switch r.Intn(4) {
		case 0:
			add(op{kd.f(), x, 0})
		case 1:
			add(op{kd.q(), x, pickDeep()})
		case 2:
			add(op{kd.q(), r.Intn(n), x})
		default:
			add(op{kd.u(), x, pickDeep()})
		}
	}
	add(op{kind: 'o'})
	// spot operations
	spots := 8 + r.Intn(n/4+1)
	if spots > 300 {
		spots = 300
	}
	snapAt := -1
	if r.Bool() {
		snapAt = r.Intn(spots)
	}
	for t := 0; t < spots; t++ {
		x, y := r.Intn(n), r.Intn(n)
		if r.Chance(1, 3) {
			x = pickDeep()
		}
		switch c := r.Intn(10); {
		case c < 3:
			add(op{kd.f(), x, 0})
		case c < 6:
			add(op{kd.q(), x, y})
		case c < 8: // union inside one group (no change of the partition once the group is joined)
			g := groups[r.Intn(k)]
			add(op{kd.u(), g[r.Intn(len(g))], g[r.Intn(len(g))]})
		case c < 9 && k > 1 && r.Chance(1, 3): // join two groups
			add(op{kd.u(), x, y})
		default:
			add(op{kd.q(), x, pickDeep()})
		}
		if t == snapAt {
			add(op{kind: 'o'})
		}
		if mid && r.Chance(1, 40) {
			add(op{kind: "vsmr"[r.Intn(4)]})
		}
	}
	add(op{kind: 'o'})
	return h, ops
}

func genHistory(r *hx.Rng, n, length int, style int) []op {
	ops := make([]op, 0, length)
	kinds := []byte{'u', 'U', 'f', 'F'}
	switch style {
	case 0: // uniform
		for len(ops) < length {
			k := kinds[r.Intn(4)]
			ops = append(ops, op{k, r.Intn(n), r.Intn(n)})
		}
	case 1: // build binomial trees (equal-rank unions give the deepest forests), then finds
		step := 1
		for step < n && len(ops) < length {
			for i := 0; i+step < n && len(ops) < length; i += 2 * step {
				k := kinds[r.Intn(2)]
				// union of two roots-of-blocks in an order that varies which root survives
				if r.Bool() {
					ops = append(ops, op{k, i, i + step})
				} else {
					ops = append(ops, op{k, i + step, i})
				}
			}
			step *= 2
		}
		for len(ops) < length {
			k := kinds[2+r.Intn(2)]
			if r.Chance(1, 4) {
				k = kinds[r.Intn(2)]
			}
			ops = append(ops, op{k, r.Intn(n), r.Intn(n)})
		}
	case 2: // unions dominate, many of them between already joined elements, finds in between
		for len(ops) < length {
			if r.Chance(2, 3) {
				x := r.Intn(n)
				y := x
				if r.Chance(3, 4) {
					y = r.Intn(n)
				}
				ops = append(ops, op{kinds[r.Intn(2)], x, y})
			} else {
				ops = append(ops, op{kinds[2+r.Intn(2)], r.Intn(n), 0})
			}
		}
	}
	for i := range ops {
		if ops[i].kind == 'f' || ops[i].kind == 'F' {
			ops[i].y = 0
		}
	}
	return ops
}

// viewTokens is one of the call patterns of the views: all three, one alone, one twice, or the
// three in another order.
func viewTokens(r *hx.Rng) []op {
	pats := []string{"v", "s", "m", "r", "ss", "mm", "rsm", "msr", "rr", "sv", "vv"}
	var out []op
	for _, c := range []byte(pats[r.Intn(len(pats))]) {
		out = append(out, op{kind: c})
	}
	return out
}

// sprinkle turns some lookups of a history into same-set queries and inserts a few views taken
// on the set itself.
func sprinkle(r *hx.Rng, n int, ops []op) []op {
	out := make([]op, 0, len(ops)+2)
	for _, o := range ops {
		if (o.kind == 'f' || o.kind == 'F') && r.Chance(1, 3) {
			o = op{o.kind - 'f' + 'q', o.x, r.Intn(n)}
		}
		out = append(out, o)
		// the model's views are cubic in n on Peano indices: several per case only for small n
		if n <= 40 && r.Chance(1, 25) {
			out = append(out, viewTokens(r)...)
		}
	}
	if n > 40 && r.Chance(1, 4) {
		i := r.Intn(len(out) + 1)
		out = append(out[:i], append(viewTokens(r)[:1], out[i:]...)...)
	}
	return out
}

// binomial emits the unions (on current roots, generator's simulation) that join the elements
// base..base+2^rank-1 into one tree of that rank and depth.
func binomial(r *hx.Rng, kd kinds, sim ref, base, rank int, emit func(op)) {
	for step := 1; step < 1<<rank; step *= 2 {
		for i := base; i < base+1<<rank; i += 2 * step {
			a, b := sim.root(i), sim.root(i+step)
			if r.Bool() {
				a, b = b, a
			}
			o := op{kd.u(), a, b}
			sim.apply(o)
			emit(o)
		}
	}
}

// genRankPair: a tree A of rank a next to a tree B of rank b, then ONE union of an element x of
// A (the root, a child of the root, or a deepest element) with an element y of B, in the given
// argument order, observed before and after; then queries and views.
func genRankPair(r *hx.Rng, a, b, px, py int, swap bool, kindMode int, capSel int) (header, []op, bool) {
	n := 1<<a + 1<<b + 1 // one element stays alone
	kd := kinds{kindMode, r}
	sim := newRef(n)
	var ops []op
	emit := func(o op) { ops = append(ops, o) }
	binomial(r, kd, sim, 0, a, emit)
	binomial(r, kd, sim, 1<<a, b, emit)
	pick := func(base, rank, p int) (int, bool) {
		root := sim.root(base)
		switch p {
		case 0:
			return root, true
		case 1: // a child of the root
			for x := base; x < base+1<<rank; x++ {
				if sim.depth(x) == 1 {
					return x, true
				}
			}
		default: // a deepest element, depth >= 2
			for x := base; x < base+1<<rank; x++ {
				if sim.depth(x) == rank && rank >= 2 {
					return x, true
				}
			}
		}
		return 0, false
	}
	x, ok1 := pick(0, a, px)
	y, ok2 := pick(1<<a, b, py)
	if !ok1 || !ok2 {
		return header{}, nil, false
	}
	longest := sim.depth(x) + 1
	if d := sim.depth(y) + 1; d > longest {
		longest = d
	}
	h := header{n: n, sparse: true, garbage: capSel%2 == 1}
	h.bufCap = []int{1, longest - 1, longest, longest + 1}[capSel%4]
	if h.bufCap < 1 {
		h.bufCap = 1
	}
	add := func(o op) { sim.apply(o); emit(o) }
	add(op{kind: 'o'})
	if swap {
		add(op{kd.u(), y, x})
	} else {
		add(op{kd.u(), x, y})
	}
	add(op{kind: 'o'})
	add(op{kd.q(), x, y})
	add(op{kd.q(), 0, n - 2})
	add(op{kd.q(), n - 1, x})
	add(op{kd.f(), r.Intn(n), 0})
	if n <= 70 {
		ops = append(ops, viewTokens(r)...)
	}
	add(op{kd.u(), n - 1, []int{x, y, 0, n - 2}[r.Intn(4)]})
	add(op{kind: 'o'})
	return h, ops, true
}

func gen(g *hx.Gen) {
	do := func(n int, ops []op) { g.Emit(caseLine(header{n: n, bufCap: 4}, ops)) }
	// corpus: the chain of the non-vacuity example of Props/C18.v
	do(8, []op{{'u', 0, 1}, {'u', 2, 3}, {'u', 1, 3}, {'u', 4, 5}, {'u', 6, 7}, {'u', 5, 7}, {'u', 3, 7}, {'f', 0, 0}})
	do(1, []op{{'f', 0, 0}, {'u', 0, 0}})
	do(1, []op{{kind: 'v'}, {'q', 0, 0}, {kind: 'o'}})
	// exhaustive small spaces
	exh := func(n, length int, kinds []byte) {
		var all []op
		for _, k := range kinds {
			for x := 0; x < n; x++ {
				if k == 'f' || k == 'F' {
					all = append(all, op{k, x, 0})
					continue
				}
				for y := 0; y < n; y++ {
					all = append(all, op{k, x, y})
				}
			}
		}
		idx := make([]int, length)
		for {
			ops := make([]op, length)
			for i, j := range idx {
				ops[i] = all[j]
			}
			do(n, ops)
			i := length - 1
			for ; i >= 0; i-- {
				idx[i]++
				if idx[i] < len(all) {
					break
				}
				idx[i] = 0
			}
			if i < 0 {
				break
			}
		}
		g.Exhaustive(fmt.Sprintf("all histories of length %d over n=%d, kinds %s", length, n, string(kinds)))
	}
	exh(3, 2, []byte{'u', 'U', 'f', 'F'})
	exh(3, 3, []byte{'u', 'f'})
	if g.Thorough() {
		exh(4, 4, []byte{'u', 'f'})
		exh(3, 5, []byte{'u', 'f'})
	}
	r := g.Rng

	// Large sets, sparse observation.  For every size boundary B (a plausible capacity of a
	// fixed path buffer or threshold of a second code path) and every union order: n just
	// above B joined into ONE set (path length n under a wrong linking rule), and n below / at /
	// further above B split into a few sets.
	bounds := []int{64, 128, 256, 512, 1024}
	if g.Thorough() {
		bounds = append(bounds, 2048, 4096)
	}
	kindMode := r.Intn(3)
	for _, b := range bounds {
		reps := g.Pick(1, 4)
		if b >= 2048 {
			reps = 1
		}
		for shape := 0; shape < nShapes; shape++ {
			for rep := 0; rep < reps; rep++ {
				// n = B+1 joined into one set.  A chain order is a deep path only under one particular
				// altered linking rule of the variant (buffered or not) that makes the calls, so the
				// chains are run once with each variant alone; the other shapes cycle through the modes.
				modes := []int{kindMode % 3}
				kindMode++
				if (shape == shChainAsc || shape == shChainDesc) && rep == 0 {
					modes = []int{0, 1}
				}
				for _, m := range modes {
					h, ops := genBig(r, b+1, 1, shape, m, false, -1)
					g.Emit(caseLine(h, ops))
				}
				// below, at, further above B, split into a few sets
				offs := []int{[]int{-1, 0, 2, 3 + r.Intn(b/2)}[r.Intn(4)]}
				if g.Thorough() {
					offs = []int{-1, 0, 2, 3 + r.Intn(b/2)}
				}
				for _, off := range offs {
					n := b + off
					h, ops := genBig(r, n, []int{1, 2, 3, 5, 8}[r.Intn(5)], shape, kindMode%3, n <= 140, -1)
					kindMode++
					g.Emit(caseLine(h, ops))
				}
			}
		}
	}
	// a few histories well above the last boundary
	for i, cnt := 0, g.Pick(4, 24); i < cnt; i++ {
		n := r.Range(1500, 2100)
		if g.Thorough() && i%4 == 3 {
			n = r.Range(2100, 5000)
		}
		shape := []int{shChainAsc, shChainDesc, shBinomial, shRootPairs, shMixed}[i%5]
		mode := kindMode % 3
		kindMode++
		if shape == shChainAsc || shape == shChainDesc {
			mode = (i/5 + i) % 2
		}
		h, ops := genBig(r, n, []int{1, 1, 2, 4}[r.Intn(4)], shape, mode, false, -1)
		g.Emit(caseLine(h, ops))
	}
	// sizes between the boundaries, many sets, roots that are not least elements
	for i, cnt := 0, g.Pick(60, 1500); i < cnt; i++ {
		n := r.Range(65, 300)
		if r.Chance(1, 4) {
			n = r.Range(65, 70)
		}
		h, ops := genBig(r, n, r.Range(1, 12), r.Intn(nShapes), r.Intn(3), n <= 140, -1)
		g.Emit(caseLine(h, ops))
	}

	// Fresh sets: New(n) at and around the multiples of 64 (and n = 0, 1, 2) with no union at
	// all: nothing, a snapshot, lookups at the ends and around the multiples of 64, the views.
	fresh := []int{0, 1, 2, 63, 64, 65, 127, 128, 129, 192, 256, 320, 512, 1024}
	if g.Thorough() {
		fresh = append(fresh, 191, 193, 255, 257, 384, 448, 576, 640, 2048, 4096)
	}
	for _, n := range fresh {
		for variant := 0; variant < 4; variant++ {
			h := header{n: n, sparse: n > 130 || variant%2 == 0, bufCap: []int{1, 4, 64}[variant%3], garbage: variant == 3}
			var ops []op
			switch variant {
			case 1:
				ops = append(ops, op{kind: 'o'})
			case 2, 3:
				if n == 0 {
					ops = append(ops, op{kind: 'o'})
					break
				}
				kd := kinds{2, r}
				for _, x := range []int{0, n - 1, n / 2, 63, 64, 65, n - 64, n - 65} {
					if x >= 0 && x < n {
						ops = append(ops, op{kd.f(), x, 0}, op{kd.q(), x, (x + 64) % n}, op{kd.q(), x, x})
					}
				}
				ops = append(ops, op{kind: 'o'})
				if n <= 130 {
					ops = append(ops, viewTokens(r)...)
				}
			}
			g.Emit(caseLine(h, ops))
		}
	}

	// One union of an element of a tree of rank a with an element of a tree of rank b: all
	// a, b, the element a root / a child of the root / a deepest element on either side, both
	// argument orders, unbuffered and buffered, buffer capacity 1 / path-1 / path / path+1.
	maxRank := g.Pick(4, 6)
	pairs := 0
	for a := 0; a <= maxRank; a++ {
		for b := 0; b <= maxRank; b++ {
			for px := 0; px < 3; px++ {
				for py := 0; py < 3; py++ {
					for v := 0; v < 4; v++ {
						if h, ops, ok := genRankPair(r, a, b, px, py, v&1 == 1, v>>1, pairs); ok {
							g.Emit(caseLine(h, ops))
							pairs++
						}
					}
				}
			}
		}
	}
	g.Exhaustive(fmt.Sprintf("one union between binomial trees of ranks a, b <= %d: x and y each the root / a child of the root / a deepest element, both argument orders, Union and UnionBuffered (%d cases)", maxRank, pairs))
	// the same with very unequal sizes (1:16 ... 1:256)
	for _, ab := range [][2]int{{0, 6}, {1, 7}, {2, 8}, {0, 8}, {7, 8}, {8, 8}, {3, 7}} {
		for v := 0; v < 4; v++ {
			a, b := ab[0], ab[1]
			if v >= 2 {
				a, b = b, a
			}
			if h, ops, ok := genRankPair(r, a, b, r.Intn(3), r.Intn(3), v&1 == 1, r.Intn(3), r.Intn(8)); ok {
				g.Emit(caseLine(h, ops))
			}
		}
	}

	// Number of sets just below / at / above 16, 32, 64 (thorough: 128, 256): k sets whose
	// members are interleaved (element i in set i mod k, or runs of 2..5 elements in turn), so
	// that neither the roots nor the sets are contiguous.
	ks := []int{15, 16, 17, 31, 32, 33, 63, 64, 65}
	if g.Thorough() {
		ks = append(ks, 127, 128, 129, 255, 256, 257)
	}
	for _, k := range ks {
		for rep, reps := 0, g.Pick(2, 6); rep < reps; rep++ {
			n := k*r.Range(2, 4) + r.Intn(k)
			if rep%2 == 1 && k <= 65 {
				n = k + r.Intn(k) // many singletons, n small: views in the middle too
			}
			h, ops := genBig(r, n, k, r.Intn(nShapes), r.Intn(3), n <= 140, []int{0, 3}[rep%2])
			g.Emit(caseLine(h, ops))
		}
	}

	// Two sets alive at the same time, their calls interleaved, one scratch buffer for both.
	for i, cnt := 0, g.Pick(300, 6000); i < cnt; i++ {
		n1, n2 := r.Range(1, 24), r.Range(1, 24)
		switch r.Intn(8) {
		case 0:
			n1 = r.Range(62, 67)
		case 1:
			n2 = r.Range(62, 67)
		case 2:
			n2 = n1
		}
		gen1 := func(n int) []op {
			length := r.Range(n, 2*n+4)
			if length > 80 {
				length = 80
			}
			ops := genHistory(r, n, length, r.Intn(3))
			if r.Bool() {
				ops = sprinkle(r, n, ops)
			}
			return ops
		}
		t1, t2 := tokens(gen1(n1), ""), tokens(gen1(n2), "@")
		var all []string
		for len(t1)+len(t2) > 0 {
			// runs of 1..3 tokens of one object, then the other
			src := &t1
			if len(t1) == 0 || (len(t2) > 0 && r.Bool()) {
				src = &t2
			}
			for run := r.Range(1, 3); run > 0 && len(*src) > 0; run-- {
				all = append(all, (*src)[0])
				*src = (*src)[1:]
			}
		}
		h := header{n: n1, two: true, n2: n2, bufCap: []int{1, 2, 3, 4, 8}[r.Intn(5)], garbage: r.Chance(1, 3), sparse: r.Chance(1, 4)}
		if h.sparse {
			all = append(all, "o", "@o")
		}
		g.Emit(h.String() + ";" + strings.Join(all, " "))
	}

	count := g.Pick(6000, 200000)
	for i := 0; i < count; i++ {
		var n int
		switch r.Intn(4) {
		case 0:
			n = r.Range(1, 6)
		case 1:
			n = r.Range(4, 16)
		case 2:
			n = r.Range(8, 33)
		default:
			n = r.Range(16, 64)
		}
		length := r.Range(1, 12)
		if r.Chance(1, 2) {
			length = r.Range(n, 3*n+4)
		}
		if r.Chance(1, 60) {
			// dense observation just around and above the 64 boundary; long histories only (the
			// model's final views are cubic in n on a partition into near-singletons)
			n = r.Range(63, 140)
			length = r.Range(n/2, 120)
		}
		if length > 120 {
			length = 120
		}
		ops := genHistory(r, n, length, r.Intn(3))
		if r.Chance(1, 3) {
			ops = sprinkle(r, n, ops)
		}
		// depth is at most 6 here: capacities 1..8 lie below, at and above every path length
		g.Emit(caseLine(header{n: n, bufCap: []int{1, 2, 3, 4, 4, 5, 6, 8}[r.Intn(8)], garbage: r.Chance(1, 4)}, ops))
	}
}

func main() {
	hx.Main(hx.Prop{
		Rule:        "history = n plus a list of Union/UnionBuffered/Find/FindBuffered calls, same-set queries and views with indices < n; non-trivial = some call walked a path of >= 3 elements so that path compression rewrote a parent pointer; distinct by history text",
		Gen:         gen,
		Exec:        exec,
		CaseTimeout: 20 * time.Second,
		MemMB:       2048,
	})
}

func bucket(n int) int {
	b := 1
	for b < n {
		b *= 2
	}
	return b
}
