package main

// Provenance of the graph.Graph value handed to IsPlanar: the same abstract graph presented in
// every way the API allows, each guarded (before and after the call) by a check that the value
// presents exactly the intended graph.  All choices are a function of the graph (its hash), so
// Exec stays a function of the case line.

import (
	"sort"

	"github.com/Tom-Johnston/mamba/graph"
	"github.com/Tom-Johnston/mamba/sortints"
)

type prng struct{ s uint64 }

func (r *prng) u64() uint64 {
	r.s += 0x9e3779b97f4a7c15
	z := r.s
	z = (z ^ (z >> 30)) * 0xbf58476d1ce4e5b9
	z = (z ^ (z >> 27)) * 0x94d049bb133111eb
	return z ^ (z >> 31)
}
func (r *prng) intn(n int) int { return int(r.u64() % uint64(n)) }

type pres struct {
	name string
	g    graph.Graph
}

// userGraph: an implementation of graph.Graph that is not one of the library's (the interface
// allows it).  Neighbours returns a fresh increasing slice on every call.  onNb, if set, is
// called with the running number of the Neighbours call.
type userGraph struct {
	g     *gr
	calls *int
	onNb  func(k int)
}

func (u userGraph) N() int { return u.g.n }
func (u userGraph) M() int { return u.g.m() }
func (u userGraph) IsEdge(i, j int) bool {
	if i < 0 || j < 0 || i >= u.g.n || j >= u.g.n {
		return false
	}
	return u.g.adj[i][j]
}
func (u userGraph) Neighbours(v int) []int {
	if u.calls != nil {
		*u.calls++
		if u.onNb != nil {
			u.onNb(*u.calls)
		}
	}
	return append(make([]int, 0, u.g.deg(v)+3), u.g.nbrs(v)...)
}
func (u userGraph) Degrees() []int {
	d := make([]int, u.g.n)
	for v := range d {
		d[v] = u.g.deg(v)
	}
	return d
}

// presentsExactly: N, M, Degrees, Neighbours of every vertex and (for graphs up to 80 vertices)
// IsEdge of every pair agree with g.
func presentsExactly(x graph.Graph, g *gr) (ok bool) {
	defer func() {
		if e := recover(); e != nil {
			ok = false
		}
	}()
	if x.N() != g.n || x.M() != g.m() {
		return false
	}
	deg := x.Degrees()
	if len(deg) != g.n {
		return false
	}
	for v := 0; v < g.n; v++ {
		want := g.nbrs(v)
		got := x.Neighbours(v)
		if len(got) != len(want) || deg[v] != len(want) {
			return false
		}
		for i := range want {
			if got[i] != want[i] {
				return false
			}
		}
	}
	if g.n <= 80 {
		for u := 0; u < g.n; u++ {
			for v := 0; v < g.n; v++ {
				if x.IsEdge(u, v) != g.adj[u][v] {
					return false
				}
			}
		}
	}
	return true
}

func denseBytes(g *gr, r *prng, big bool) []byte {
	edges := make([]byte, g.n*(g.n-1)/2)
	if g.n == 0 {
		edges = []byte{}
	}
	for v := 1; v < g.n; v++ {
		for u := 0; u < v; u++ {
			if g.adj[u][v] {
				b := byte(1)
				if big {
					switch r.intn(4) {
					case 0:
						b = 0xff
					case 1:
						b = 0x80
					case 2:
						b = 2
					default:
						b = byte(1 + r.intn(255))
					}
				}
				edges[v*(v-1)/2+u] = b
			}
		}
	}
	return edges
}

// scrambled: the start of an edit history.  A graph on g.n+extra vertices in which the vertices
// keep[0] < keep[1] < ... stand for the vertices of g (the extra ones are spread between them) and
// a number of pairs are flipped.
func scrambled(g *gr, r *prng, extra int) (*gr, []int) {
	n := g.n + extra
	isExtra := make([]bool, n)
	for c := 0; c < extra; {
		x := r.intn(n)
		if !isExtra[x] {
			isExtra[x] = true
			c++
		}
	}
	keep := make([]int, 0, g.n)
	for x := 0; x < n; x++ {
		if !isExtra[x] {
			keep = append(keep, x)
		}
	}
	h := newGr(n)
	for u := 0; u < g.n; u++ {
		for v := 0; v < g.n; v++ {
			if g.adj[u][v] {
				h.adj[keep[u]][keep[v]] = true
			}
		}
	}
	for i := 0; i < 2+n && n > 1; i++ {
		u, v := r.intn(n), r.intn(n)
		if u == v {
			continue
		}
		if h.adj[u][v] {
			h.del(u, v)
		} else {
			h.add(u, v)
		}
	}
	return h, keep
}

// editTo brings the editable graph e (currently presenting `from`) to present g: removes the
// vertices that are not in keep, in a scrambled order, then flips every differing pair.
func editTo(e graph.EditableGraph, from *gr, keep []int, g *gr, r *prng) {
	keep = append([]int{}, keep...)
	for from.n > g.n {
		// the k-th surplus vertex
		var surplus []int
		j := 0
		for x := 0; x < from.n; x++ {
			if j < len(keep) && keep[j] == x {
				j++
			} else {
				surplus = append(surplus, x)
			}
		}
		k := surplus[r.intn(len(surplus))]
		e.RemoveVertex(k)
		from = from.removeVertex(k)
		for i := range keep {
			if keep[i] > k {
				keep[i]--
			}
		}
	}
	var diff [][2]int
	for u := 0; u < g.n; u++ {
		for v := u + 1; v < g.n; v++ {
			if from.adj[u][v] != g.adj[u][v] {
				diff = append(diff, [2]int{u, v})
			}
		}
	}
	for i := len(diff) - 1; i > 0; i-- {
		j := r.intn(i + 1)
		diff[i], diff[j] = diff[j], diff[i]
	}
	for _, d := range diff {
		u, v := d[0], d[1]
		if r.intn(2) == 0 {
			u, v = v, u
		}
		if g.adj[u][v] {
			e.AddEdge(u, v)
		} else {
			e.RemoveEdge(u, v)
		}
	}
}

func sparseOf(g *gr) *graph.SparseGraph {
	nb := make([]sortints.SortedInts, g.n)
	for v := 0; v < g.n; v++ {
		nb[v] = sortints.SortedInts(append([]int{}, g.nbrs(v)...))
	}
	return graph.NewSparse(g.n, nb)
}

const numExtraPres = 12

// extraPres builds presentation number k of g.
func extraPres(g *gr, k int, r *prng) (p pres) {
	defer func() {
		if e := recover(); e != nil {
			p = pres{name: p.name + "(build-panic)", g: nil}
		}
	}()
	switch k {
	case 0: // NewDense with arbitrary non-zero bytes; the caller's slice is scribbled over afterwards
		b := denseBytes(g, r, true)
		d := graph.NewDense(g.n, b)
		for i := range b {
			b[i] ^= 0xff
		}
		return pres{"dense-bytes", d}
	case 1: // dense, after an edit history that went through a larger graph (stale capacity)
		from, keep := scrambled(g, r, 1+r.intn(6))
		d := graph.NewDense(from.n, denseBytes(from, r, r.intn(2) == 0))
		editTo(d, from, keep, g, r)
		return pres{"dense-edited", d}
	case 2: // sparse, after an edit history
		from, keep := scrambled(g, r, 1+r.intn(6))
		s := sparseOf(from)
		editTo(s, from, keep, g, r)
		return pres{"sparse-edited", s}
	case 3: // dense grown vertex by vertex from the empty graph
		d := graph.NewDense(0, nil)
		for v := 0; v < g.n; v++ {
			var nb []int
			for _, u := range g.nbrs(v) {
				if u < v {
					nb = append(nb, u)
				}
			}
			d.AddVertex(nb)
		}
		return pres{"dense-grown", d}
	case 4: // sparse grown vertex by vertex, with one vertex too many in between
		s := graph.NewSparse(0, nil)
		for v := 0; v < g.n; v++ {
			var nb []int
			for _, u := range g.nbrs(v) {
				if u < v {
					nb = append(nb, u)
				}
			}
			s.AddVertex(nb)
			if v == g.n/2 {
				s.AddVertex([]int{v})
				s.RemoveVertex(v + 1)
			}
		}
		return pres{"sparse-grown", s}
	case 5: // Copy of an edited graph
		from, keep := scrambled(g, r, r.intn(3))
		d := graph.NewDense(from.n, denseBytes(from, r, false))
		editTo(d, from, keep, g, r)
		return pres{"dense-copy", d.Copy()}
	case 6: // the method InducedSubgraph (a deep copy) of a larger sparse graph, in a permuted order
		_, base, V := permutedSuper(g, r, 1+r.intn(5))
		return pres{"sparse-induced-copy", sparseOf(base).InducedSubgraph(V)}
	case 7: // a view over a base that is edited after the view was made
		_, base, V := permutedSuper(g, r, 1+r.intn(5))
		wrong := base.clone()
		// spoil some pairs inside V and outside
		for i := 0; i < 3+g.n/2 && base.n > 1; i++ {
			u, v := r.intn(base.n), r.intn(base.n)
			if u != v {
				if wrong.adj[u][v] {
					wrong.del(u, v)
				} else {
					wrong.add(u, v)
				}
			}
		}
		var e graph.EditableGraph
		if r.intn(2) == 0 {
			e = graph.NewDense(wrong.n, denseBytes(wrong, r, r.intn(2) == 0))
		} else {
			e = sparseOf(wrong)
		}
		view := graph.InducedSubgraph(e, V)
		all := make([]int, base.n)
		for i := range all {
			all[i] = i
		}
		editTo(e, wrong, all, base, r)
		return pres{"view-edited-base", view}
	case 8: // a view of a view
		_, base, V := permutedSuper(g, r, 2+r.intn(5))
		// first view: all of base in reversed order; second: V translated
		rev := make([]int, base.n)
		for i := range rev {
			rev[i] = base.n - 1 - i
		}
		v1 := graph.InducedSubgraph(graph.NewDense(base.n, denseBytes(base, r, false)), rev)
		V2 := make([]int, len(V))
		for i, x := range V {
			V2[i] = base.n - 1 - x
		}
		return pres{"view-nested", graph.InducedSubgraph(v1, V2)}
	case 9: // complement view of the dense complement
		return pres{"complement-view", graph.Complement(graph.ComplementDense(graph.NewDense(g.n, denseBytes(g, r, false))))}
	case 10: // a Graph implementation that is not the library's
		return pres{"user-impl", userGraph{g: g}}
	default: // a view over a user implementation
		_, base, V := permutedSuper(g, r, r.intn(4))
		return pres{"view-user", graph.InducedSubgraph(userGraph{g: base}, V)}
	}
}

// permutedSuper returns a graph `base` on g.n+extra vertices and a list V such that the subgraph
// of base induced by V, in the order of V, is g.
func permutedSuper(g *gr, r *prng, extra int) (p []int, base *gr, V []int) {
	n := g.n + extra
	p = make([]int, n)
	for i := range p {
		p[i] = i
	}
	for i := n - 1; i > 0; i-- {
		j := r.intn(i + 1)
		p[i], p[j] = p[j], p[i]
	}
	base = newGr(n)
	for u := 0; u < g.n; u++ {
		for v := 0; v < g.n; v++ {
			if g.adj[u][v] {
				base.adj[p[u]][p[v]] = true
			}
		}
	}
	// junk on the extra vertices
	for x := g.n; x < n; x++ {
		for k := 0; k < 3; k++ {
			y := r.intn(n)
			base.add(p[x], y)
		}
	}
	V = make([]int, g.n)
	copy(V, p[:g.n])
	return p, base, V
}

func sortedCopy(a []int) []int {
	b := append([]int{}, a...)
	sort.Ints(b)
	return b
}
