package main

// Families with a construction-known answer at a prescribed number of vertices (sizes across
// 8/16/32/64/128/256: hub degree, number of fragments, face length, number of faces, number of
// blocks, DFS depth all cross the thresholds with n), and the bases of the relabelling volume
// runs (near-triangulations and graphs one edge beyond planarity).

import (
	"fmt"

	"verifharness/hx"
)

// kuratowskiExact: a subdivision of K5 / K3,3 with exactly n vertices (n >= 5 / 6): the
// subdividing vertices are spread at random, a few edges get most of them.
func kuratowskiExact(r *hx.Rng, k5 bool, n int) (*gr, [][]int) {
	var base *gr
	if k5 {
		base = complete(5)
	} else {
		base = completeBip(3, 3)
	}
	es := base.edges()
	counts := make([]int, len(es))
	for k := n - base.n; k > 0; {
		c := 1 + r.Intn(k)
		if r.Bool() {
			c = 1
		}
		counts[r.Intn(len(es))] += c
		k -= c
	}
	g := base.clone()
	sets := make([][]int, base.n)
	for v := 0; v < base.n; v++ {
		sets[v] = []int{v}
	}
	for i, e := range es {
		k := counts[i]
		if k == 0 {
			continue
		}
		first := g.n
		g = g.grow(k)
		g.del(e[0], e[1])
		prev := e[0]
		for j := 0; j < k; j++ {
			g.add(prev, first+j)
			prev = first + j
			sets[e[0]] = append(sets[e[0]], first+j)
		}
		g.add(prev, e[1])
	}
	return g, sets
}

// subdivideRandom subdivides k random edges (one after the other).
func subdivideRandom(r *hx.Rng, g *gr, k int) *gr {
	for i := 0; i < k; i++ {
		es := g.edges()
		e := es[r.Intn(len(es))]
		h := g.grow(1)
		h.del(e[0], e[1])
		h.add(e[0], g.n)
		h.add(e[1], g.n)
		g = h
	}
	return g
}

// beyondTriangulation: a triangulation on k >= 5 vertices plus one more edge (non-planar: 3k-5
// edges), then subs >= 1 subdivisions so that the edge count of the block is at most 3n-6 and
// the count shortcut does not decide.  Also returns the planar graph without the extra edge
// (same subdivisions are not reproduced: it is a separate construction).
func beyondTriangulation(r *hx.Rng, k, subs int) *gr {
	t := flippedTriangulation(r, k, 2*k)
	for tries := 0; tries < 1000; tries++ {
		u, v := r.Intn(k), r.Intn(k)
		if u != v && !t.has(u, v) {
			t.add(u, v)
			return subdivideRandom(r, t, subs)
		}
	}
	return nil
}

// nearTriangulation: a triangulation minus a few edges, a few edges subdivided (planar).
func nearTriangulation(r *hx.Rng, k, drop, subs int) *gr {
	t := flippedTriangulation(r, k, 2*k)
	for i := 0; i < drop; i++ {
		es := t.edges()
		e := es[r.Intn(len(es))]
		t.del(e[0], e[1])
	}
	return subdivideRandom(r, t, subs)
}

// cylinderChord: the cylinder C_a x P_b (a >= 3, b >= 2; 3-connected, so its embedding is
// unique: faces are the two a-gons of the end layers and the quadrilaterals between
// consecutive layers) plus one chord.  cofacial = true: the diagonal of a quadrilateral (or a
// chord of an end a-gon), planar.  cofacial = false: the ends share no face, non-planar.
// Vertex (i,j) has number i*b+j (i around the cycle, j the layer).
func cylinderChord(r *hx.Rng, a, b int, cofacial bool) *gr {
	g := cylinder(a, b, false)
	id := func(i, j int) int { return ((i%a+a)%a)*b + j }
	for tries := 0; tries < 1000; tries++ {
		i, j := r.Intn(a), r.Intn(b)
		if cofacial {
			if r.Bool() && a >= 4 {
				// chord of an end a-gon
				jj := 0
				if r.Bool() {
					jj = b - 1
				}
				d := 2 + r.Intn(a-3)
				g.add(id(i, jj), id(i+d, jj))
				return g
			}
			if j+1 < b {
				g.add(id(i, j), id(i+1, j+1))
				return g
			}
			continue
		}
		i2, j2 := r.Intn(a), r.Intn(b)
		dj := j - j2
		if dj < 0 {
			dj = -dj
		}
		di := ((i-i2)%a + a) % a
		if di > a-di {
			di = a - di
		}
		share := false
		if dj == 0 && (j == 0 || j == b-1) {
			share = true // same end layer
		}
		if dj <= 1 && di <= 1 {
			share = true // a common quadrilateral, adjacent, or equal
		}
		if !share {
			g.add(id(i, j), id(i2, j2))
			return g
		}
	}
	return nil
}

// wheelChain: k wheels on 5 vertices (hub + 4-cycle) glued in a chain at cut vertices (4k+1
// vertices, k blocks); if tail != nil it is glued at the end as one more block.
func wheelChain(k int, tail *gr) (*gr, []int) {
	g := wheel(5)
	last := 4
	for i := 1; i < k; i++ {
		var mp []int
		g, mp = glue(g, last, wheel(5), 1)
		last = mp[3]
	}
	if tail == nil {
		return g, nil
	}
	g2, mp := glue(g, last, tail, 0)
	return g2, mp
}

// sizeFamilies: graphs with exactly n vertices (n >= 8) and a known answer.
func sizeFamilies(r *hx.Rng, n int, few bool) []built {
	var out []built
	P := func(fam string, g *gr) {
		if g.n < n {
			g = g.grow(n - g.n)
		}
		out = append(out, built{g: g, truth: 'P', fam: fmt.Sprintf("size-%s", fam)})
	}
	N := func(fam string, g *gr, h string, cert [][]int) {
		if g == nil {
			return
		}
		if g.n < n {
			g = g.grow(n - g.n)
		}
		if n > 70 {
			// the proved certificate checker of the driver works on unary numbers and is cubic in
			// the size of a branch set: above 70 vertices the answer is judged by construction only
			h, cert = "", nil
		}
		out = append(out, built{g: g, truth: 'N', certH: h, cert: cert, fam: fmt.Sprintf("size-%s", fam)})
	}
	P("wheel", wheel(n))                   // hub of degree n-1, n-1 triangular faces
	P("K2_n", completeBip(2, n-2))         // n-4 fragments on a 4-cycle
	P("apollonian", apollonian(r, n))      // 2n-4 faces, 3n-6 edges
	P("outerplanar", outerplanar(r, n, 3)) // a Hamiltonian outer face
	{
		kg, sets := kuratowskiExact(r, r.Bool(), n)
		h := "K33"
		if len(sets) == 5 {
			h = "K5"
		}
		N("kuratowski", kg, h, sets)
	}
	N("beyond", beyondTriangulation(r, n-1, 1), "", nil)
	if few {
		return out
	}
	P("cycle", cycle(n))
	P("grid2", grid(2, n/2))
	if a := 3 + r.Intn(3); n/a >= 2 {
		P("grid", grid(a, n/a))
	}
	if a := 3 + r.Intn(4); n/a >= 2 {
		P("cylinder", cylinder(a, n/a, false))
	}
	P("near-triang", nearTriangulation(r, n-2, 2, 2))
	{
		g, _ := wheelChain((n-1)/4, nil) // (n-1)/4 blocks
		P("wheel-chain", g)
	}
	{
		// hub of a big wheel is also a vertex of a K5
		g, mp := glue(wheel(n-4), 0, complete(5), 0)
		N("wheel+K5", g, "K5", [][]int{{mp[0]}, {mp[1]}, {mp[2]}, {mp[3]}, {mp[4]}})
	}
	{
		// many planar blocks first, the non-planar block last (and, reversed, first)
		k := (n - 6) / 4
		if k >= 1 {
			g, mp := wheelChain(k, completeBip(3, 3))
			cert := [][]int{{mp[0]}, {mp[1]}, {mp[2]}, {mp[3]}, {mp[4]}, {mp[5]}}
			b := built{g: g, truth: 'N', certH: "K33", cert: cert, fam: "size-chain+K33"}
			if n > 70 {
				b.certH, b.cert = "", nil
			}
			if b.g.n < n {
				b.g = b.g.grow(n - b.g.n)
			}
			out = append(out, b)
			p := make([]int, b.g.n)
			for v := range p {
				p[v] = b.g.n - 1 - v
			}
			rb := relabelBuilt(b, p)
			rb.fam = "size-K33+chain"
			out = append(out, rb)
		}
	}
	{
		a := 3 + r.Intn(5)
		b := n / a
		if b >= 2 {
			N("cylinder+chord", cylinderChord(r, a, b, false), "", nil)
			if g := cylinderChord(r, a, b, true); g != nil {
				P("cylinder+diag", g)
			}
		}
	}
	return out
}

// volumeBase: one base of the relabelling volume runs, 9..40 vertices.
func volumeBase(r *hx.Rng) built {
	for {
		switch r.Intn(7) {
		case 0, 1:
			subs := 1 + r.Intn(3)
			k := r.Range(8, 40-subs)
			if g := beyondTriangulation(r, k, subs); g != nil {
				return built{g: g, truth: 'N', fam: "vol-beyond"}
			}
		case 2, 3:
			subs := r.Intn(3)
			k := r.Range(9, 40-subs)
			return built{g: nearTriangulation(r, k, 1+r.Intn(3), subs), truth: 'P', fam: "vol-near-triang"}
		case 4:
			a, b := r.Range(3, 8), r.Range(2, 5)
			if a*b < 9 || a*b > 40 {
				continue
			}
			if g := cylinderChord(r, a, b, false); g != nil {
				return built{g: g, truth: 'N', fam: "vol-cyl-chord"}
			}
		case 5:
			a, b := r.Range(3, 8), r.Range(2, 5)
			if a*b < 9 || a*b > 40 {
				continue
			}
			if g := cylinderChord(r, a, b, true); g != nil {
				return built{g: g, truth: 'P', fam: "vol-cyl-diag"}
			}
		default:
			// exactly one edge too many for the count: decided by the shortcut, kept as a control
			k := r.Range(9, 40)
			t := flippedTriangulation(r, k, 2*k)
			for tries := 0; tries < 1000; tries++ {
				u, v := r.Intn(k), r.Intn(k)
				if u != v && !t.has(u, v) {
					t.add(u, v)
					return built{g: t, truth: 'N', fam: "vol-triang+edge"}
				}
			}
		}
	}
}
