package main

// Independent oracles of the harness: exhaustive K5 / K3,3 minor test for small graphs
// (contraction with memoisation), edge-count bounds valid for every size, and the
// enumeration of isomorphism class representatives by canonical form.

import (
	"math/bits"
	"sort"
)

const oracleMax = 10 // the bitmask oracle handles up to this many vertices

// small graph: rows[v] = bitmask of neighbours
type sg struct {
	n    int
	rows [oracleMax]uint16
}

func toSmall(g *gr) sg {
	var s sg
	s.n = g.n
	for u := 0; u < g.n; u++ {
		for v := 0; v < g.n; v++ {
			if g.adj[u][v] {
				s.rows[u] |= 1 << uint(v)
			}
		}
	}
	return s
}

func (s *sg) m() int {
	c := 0
	for v := 0; v < s.n; v++ {
		c += bits.OnesCount16(s.rows[v])
	}
	return c / 2
}

func (s *sg) key() [2]uint64 {
	var k [2]uint64
	k[0] = uint64(s.n)
	pos := uint(8)
	w := 0
	for v := 1; v < s.n; v++ {
		for u := 0; u < v; u++ {
			if s.rows[v]&(1<<uint(u)) != 0 {
				k[w] |= 1 << pos
			}
			pos++
			if pos == 64 {
				pos = 0
				w++
			}
		}
	}
	return k
}

// contract merges b into a (a<b) and removes b.
func (s *sg) contract(a, b int) sg {
	var t sg
	t.n = s.n - 1
	rows := s.rows
	rows[a] = (rows[a] | rows[b]) &^ (1<<uint(a) | 1<<uint(b))
	for v := 0; v < s.n; v++ {
		if rows[v]&(1<<uint(b)) != 0 && v != a {
			rows[v] |= 1 << uint(a)
		}
	}
	rows[a] &^= 1 << uint(a)
	low := uint16(1<<uint(b)) - 1
	j := 0
	for v := 0; v < s.n; v++ {
		if v == b {
			continue
		}
		r := rows[v]
		t.rows[j] = (r & low) | ((r >> uint(b+1)) << uint(b))
		j++
	}
	return t
}

// hasKuratowskiSubgraph: K5 or K3,3 as a (not necessarily induced) subgraph.
func (s *sg) hasKuratowskiSubgraph() bool {
	n := s.n
	// K3,3: three vertices with at least three common neighbours
	for a := 0; a < n; a++ {
		for b := a + 1; b < n; b++ {
			ab := s.rows[a] & s.rows[b]
			if bits.OnesCount16(ab) < 3 {
				continue
			}
			for c := b + 1; c < n; c++ {
				if bits.OnesCount16(ab&s.rows[c]) >= 3 {
					return true
				}
			}
		}
	}
	// K5: a clique on five vertices
	for a := 0; a < n; a++ {
		ca := s.rows[a] &^ (uint16(1<<uint(a+1)) - 1)
		for b := a + 1; b < n; b++ {
			if ca&(1<<uint(b)) == 0 {
				continue
			}
			cb := ca & s.rows[b] &^ (uint16(1<<uint(b+1)) - 1)
			for c := b + 1; c < n; c++ {
				if cb&(1<<uint(c)) == 0 {
					continue
				}
				cc := cb & s.rows[c] &^ (uint16(1<<uint(c+1)) - 1)
				for d := c + 1; d < n; d++ {
					if cc&(1<<uint(d)) == 0 {
						continue
					}
					if cc&s.rows[d]&^(uint16(1<<uint(d+1))-1) != 0 {
						return true
					}
				}
			}
		}
	}
	return false
}

var memo = map[[2]uint64]bool{}

// nonplanarSmall decides whether the graph has a K5 or K3,3 minor: it has one iff it
// contains one of them as a subgraph or some single edge contraction has one (a minor model
// whose branch sets are all singletons is a subgraph; otherwise some branch set contains an
// edge, and contracting it leaves a model).
func nonplanarSmall(s sg) bool {
	if s.n < 5 {
		return false
	}
	if s.m() < 9 {
		return false
	}
	k := s.key()
	if r, ok := memo[k]; ok {
		return r
	}
	r := s.hasKuratowskiSubgraph()
	if !r && s.n > 5 {
	outer:
		for a := 0; a < s.n; a++ {
			for b := a + 1; b < s.n; b++ {
				if s.rows[a]&(1<<uint(b)) == 0 {
					continue
				}
				if nonplanarSmall(s.contract(a, b)) {
					r = true
					break outer
				}
			}
		}
	}
	if len(memo) > 4000000 {
		memo = map[[2]uint64]bool{}
	}
	memo[k] = r
	return r
}

func oraclePlanar(g *gr) bool { return !nonplanarSmall(toSmall(g)) }

// boundsForceNonplanar: a planar graph on n >= 3 vertices has at most 3n-6 edges, a
// bipartite one at most 2n-4; both bounds also hold for every block.
func boundsForceNonplanar(g *gr) bool {
	check := func(h *gr) bool {
		m := h.m()
		if h.n >= 3 && m > 3*h.n-6 {
			return true
		}
		if h.n >= 3 && m > 2*h.n-4 && bipartite(h) {
			return true
		}
		return false
	}
	if check(g) {
		return true
	}
	for _, b := range blocks(g) {
		if len(b) < g.n && check(g.induced(b)) {
			return true
		}
	}
	return false
}

// ---------------------------------------------------------------- isomorphism classes

// canonMask returns the smallest upper-triangle bitmask of g over all relabellings that put
// the vertices in non-increasing order of degree.
func canonMask(g *gr) uint64 {
	n := g.n
	deg := make([]int, n)
	for v := range deg {
		deg[v] = g.deg(v)
	}
	order := make([]int, n)
	for i := range order {
		order[i] = i
	}
	sort.SliceStable(order, func(a, b int) bool { return deg[order[a]] > deg[order[b]] })
	want := make([]int, n)
	for i, v := range order {
		want[i] = deg[v]
	}
	best := ^uint64(0)
	used := make([]bool, n)
	p := make([]int, n) // p[i] = old vertex placed at new position i
	var rec func(i int, mask uint64)
	rec = func(i int, mask uint64) {
		if i == n {
			if mask < best {
				best = mask
			}
			return
		}
		for v := 0; v < n; v++ {
			if used[v] || deg[v] != want[i] {
				continue
			}
			mk := mask
			base := uint(i * (i - 1) / 2)
			for j := 0; j < i; j++ {
				if g.adj[p[j]][v] {
					mk |= 1 << (base + uint(j))
				}
			}
			// bits of later rows are more significant: a prefix larger than best cannot win
			if best != ^uint64(0) && mk > best {
				continue
			}
			used[v] = true
			p[i] = v
			rec(i+1, mk)
			used[v] = false
		}
	}
	rec(0, 0)
	return best
}

func fromMask(n int, mask uint64) *gr {
	g := newGr(n)
	pos := uint(0)
	for v := 1; v < n; v++ {
		for u := 0; u < v; u++ {
			if mask&(1<<pos) != 0 {
				g.add(u, v)
			}
			pos++
		}
	}
	return g
}

// classReps returns one representative of every isomorphism class of graphs on 0..maxN
// vertices: every graph on k+1 vertices is a graph on k vertices plus one vertex.
func classReps(maxN int) [][]*gr {
	reps := make([][]*gr, maxN+1)
	reps[0] = []*gr{newGr(0)}
	for n := 1; n <= maxN; n++ {
		seen := map[uint64]bool{}
		var keys []uint64
		for _, g := range reps[n-1] {
			for s := 0; s < 1<<uint(n-1); s++ {
				h := g.grow(1)
				for v := 0; v < n-1; v++ {
					if s&(1<<uint(v)) != 0 {
						h.add(v, n-1)
					}
				}
				c := canonMask(h)
				if !seen[c] {
					seen[c] = true
					keys = append(keys, c)
				}
			}
		}
		sort.Slice(keys, func(a, b int) bool { return keys[a] < keys[b] })
		for _, c := range keys {
			reps[n] = append(reps[n], fromMask(n, c))
		}
	}
	return reps
}
