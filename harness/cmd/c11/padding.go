package main

// Padding: a base graph with a known answer plus many extra planar components (isolated
// vertices, disjoint edges, paths, small trees, a triangulation, mixtures), so that every
// relation between m and n (m < n, m = n, m slightly above n, m near 3n-6) occurs with the
// non-planar part intact, and so that shortcuts on global counts ("m < n: a forest") are
// exposed.  The answer is unchanged: isolated and pendant vertices do not change the
// specification's value (C11_spec_isolated, C11_spec_pendant), and a disjoint union with a
// planar graph contains the base as a subgraph (C11_spec_subgraph).  The new vertices come
// after those of the base, so a certificate of the base stays valid.

import (
	"fmt"

	"verifharness/hx"
)

func padIso(g *gr, t int) *gr { return g.grow(t) }

func padEdges(g *gr, k int) *gr {
	h := g.grow(2 * k)
	for i := 0; i < k; i++ {
		h.add(g.n+2*i, g.n+2*i+1)
	}
	return h
}

// padTrees appends one tree (or path) component per entry of sizes.
func padTrees(r *hx.Rng, g *gr, sizes []int, paths bool) *gr {
	h := g
	for _, s := range sizes {
		var t *gr
		if paths {
			t = newGr(s)
			for v := 1; v < s; v++ {
				t.add(v-1, v)
			}
		} else {
			t = randomTree(r, s)
		}
		h = disjointUnion(h, t)
	}
	return h
}

// padTo appends isolated vertices until n = m + delta (nothing if that is not more than n).
func padTo(g *gr, delta int) *gr {
	want := g.m() + delta
	if want <= g.n {
		return nil
	}
	return g.grow(want - g.n)
}

func relabelBuilt(b built, p []int) built {
	nb := b
	nb.g = b.g.relabel(p)
	if b.cert != nil {
		nb.cert = make([][]int, len(b.cert))
		for i, s := range b.cert {
			nb.cert[i] = make([]int, len(s))
			for j, v := range s {
				nb.cert[i][j] = p[v]
			}
		}
	}
	return nb
}

// paddedVariants returns the padded versions of b (each also with the padding moved in front of
// the base, i.e. the non-trivial part on the highest vertex numbers).
func paddedVariants(r *hx.Rng, b built, all bool) []built {
	var out []built
	add := func(tag string, g *gr) {
		if g == nil || g.n > 190 {
			return
		}
		nb := b
		nb.g = g
		nb.fam = b.fam + "+" + tag
		out = append(out, nb)
		// rotate: the padding first, the base last
		k := g.n - b.g.n
		if k > 0 {
			p := make([]int, g.n)
			for v := range p {
				p[v] = (v + k) % g.n
			}
			rb := relabelBuilt(nb, p)
			rb.fam = nb.fam + "-front"
			out = append(out, rb)
		}
	}
	g := b.g
	for _, t := range []int{4, 6, 9, 15} {
		add(fmt.Sprintf("iso%d", t), padIso(g, t))
	}
	add("edges", padEdges(g, r.Range(2, 5)))
	add("edges", padEdges(g, r.Range(6, 12)))
	add("paths", padTrees(r, g, []int{r.Range(2, 4), r.Range(3, 6), r.Range(2, 9)}, true))
	add("trees", padTrees(r, g, []int{r.Range(3, 8), r.Range(2, 6), r.Range(4, 12)}, false))
	// mixture
	{
		h := padIso(g, r.Range(1, 5))
		h = padEdges(h, r.Range(1, 4))
		h = padTrees(r, h, []int{r.Range(3, 7), r.Range(2, 5)}, r.Bool())
		h = padIso(h, r.Range(1, 4))
		add("mix", h)
	}
	// exact relations between m and n: m = n-1 (the count of a tree), m = n-1-k, m = n, m = n+1, m = n+3
	add("m=n-1", padTo(g, 1))
	add("m<n", padTo(g, 2+r.Intn(4)))
	if all {
		add("m=n", padTo(g, 0))
		add("m=n+1", padTo(g, -1))
		add("m=n+3", padTo(g, -3))
		// trees instead of isolated vertices, same count relation m = n-c (c components of the padding + ...)
		if want := g.m() + 3 - g.n; want > 6 {
			add("m<n-trees", padTrees(r, g, []int{want / 2, want - want/2}, false))
		}
		// a planar triangulation as an extra component: total m near 3n-6
		add("triang", disjointUnion(g, apollonian(r, r.Range(4, 12))))
		add("triang+iso", padIso(disjointUnion(g, apollonian(r, r.Range(5, 9))), r.Range(2, 6)))
	}
	return out
}

// twoBlocks: a planar 2-connected piece and a subdivided K5 / K3,3, as two components or glued at
// a cut vertex, in both orders of the vertex numbers; only one block is non-planar.
func twoBlocks(r *hx.Rng) []built {
	kg, sets := kuratowski(r, r.Bool(), r.Intn(3))
	var front *gr
	switch r.Intn(4) {
	case 0:
		front = wheel(r.Range(5, 10))
	case 1:
		front = apollonian(r, r.Range(5, 12))
	case 2:
		front = grid(r.Range(2, 4), r.Range(3, 5))
	default:
		front = flippedTriangulation(r, r.Range(6, 14), 20)
	}
	h := "K33"
	if len(sets) == 5 {
		h = "K5"
	}
	var out []built
	mk := func(tag string, g *gr, mp []int) {
		cert := make([][]int, len(sets))
		for i, s := range sets {
			cert[i] = make([]int, len(s))
			for j, v := range s {
				cert[i][j] = mp[v]
			}
		}
		b := built{g: g, truth: 'N', certH: h, cert: cert, fam: "two-blocks-" + tag}
		out = append(out, b)
		// the same with the order of the two parts exchanged
		p := make([]int, g.n)
		for v := range p {
			p[v] = g.n - 1 - v
		}
		rb := relabelBuilt(b, p)
		rb.fam = b.fam + "-rev"
		out = append(out, rb)
	}
	mp := make([]int, kg.n)
	for v := range mp {
		mp[v] = front.n + v
	}
	mk("disjoint", disjointUnion(front, kg), mp)
	g2, mp2 := glue(front, r.Intn(front.n), kg, r.Intn(kg.n))
	mk("cut", g2, mp2)
	return out
}
