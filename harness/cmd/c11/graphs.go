package main

// Plain graphs of the harness (independent of the library under test), the case syntax and
// the transformations of a case.  Everything here is mirrored by ocaml/c11/driver.ml.

import (
	"fmt"
	"sort"
	"strconv"
	"strings"
)

type gr struct {
	n   int
	adj [][]bool
}

func newGr(n int) *gr {
	g := &gr{n: n, adj: make([][]bool, n)}
	for i := range g.adj {
		g.adj[i] = make([]bool, n)
	}
	return g
}

func (g *gr) add(u, v int) {
	if u == v {
		return
	}
	g.adj[u][v] = true
	g.adj[v][u] = true
}

func (g *gr) del(u, v int) {
	g.adj[u][v] = false
	g.adj[v][u] = false
}

func (g *gr) has(u, v int) bool { return g.adj[u][v] }

func (g *gr) clone() *gr {
	h := newGr(g.n)
	for i := range g.adj {
		copy(h.adj[i], g.adj[i])
	}
	return h
}

// grow returns a copy with k more (isolated) vertices.
func (g *gr) grow(k int) *gr {
	h := newGr(g.n + k)
	for i := range g.adj {
		copy(h.adj[i], g.adj[i])
	}
	return h
}

// edges in lexicographic order of (min,max).
func (g *gr) edges() [][2]int {
	var es [][2]int
	for u := 0; u < g.n; u++ {
		for v := u + 1; v < g.n; v++ {
			if g.adj[u][v] {
				es = append(es, [2]int{u, v})
			}
		}
	}
	return es
}

func (g *gr) m() int {
	c := 0
	for u := 0; u < g.n; u++ {
		for v := u + 1; v < g.n; v++ {
			if g.adj[u][v] {
				c++
			}
		}
	}
	return c
}

func (g *gr) deg(v int) int {
	c := 0
	for _, b := range g.adj[v] {
		if b {
			c++
		}
	}
	return c
}

func (g *gr) nbrs(v int) []int {
	var r []int
	for u, b := range g.adj[v] {
		if b {
			r = append(r, u)
		}
	}
	return r
}

// text is "n:u-v,u-v,..." with u<v in lexicographic order.
func (g *gr) text() string {
	var sb strings.Builder
	sb.WriteString(strconv.Itoa(g.n))
	sb.WriteByte(':')
	for i, e := range g.edges() {
		if i > 0 {
			sb.WriteByte(',')
		}
		sb.WriteString(strconv.Itoa(e[0]))
		sb.WriteByte('-')
		sb.WriteString(strconv.Itoa(e[1]))
	}
	return sb.String()
}

func parseGr(s string) *gr {
	i := strings.IndexByte(s, ':')
	n, err := strconv.Atoi(s[:i])
	if err != nil {
		panic("bad graph " + s)
	}
	g := newGr(n)
	if s[i+1:] == "" {
		return g
	}
	for _, e := range strings.Split(s[i+1:], ",") {
		j := strings.IndexByte(e, '-')
		u, _ := strconv.Atoi(e[:j])
		v, _ := strconv.Atoi(e[j+1:])
		g.add(u, v)
	}
	return g
}

// hash of the labelled graph, computed the same way by the model driver (values < 2^30).
func (g *gr) hash() int {
	h := g.n % 1073741824
	for _, e := range g.edges() {
		h = (h*1000003 + e[0]*1009 + e[1] + 1) % 1073741824
	}
	return h
}

// lcgPerm is the permutation named by a seed: Fisher-Yates driven by a 64-bit LCG.
func lcgPerm(seed uint64, n int) []int {
	p := make([]int, n)
	for i := range p {
		p[i] = i
	}
	x := seed
	for i := n - 1; i >= 1; i-- {
		x = x*6364136223846793005 + 1442695040888963407
		j := int((x >> 33) % uint64(i+1))
		p[i], p[j] = p[j], p[i]
	}
	return p
}

func (g *gr) relabel(p []int) *gr {
	h := newGr(g.n)
	for u := 0; u < g.n; u++ {
		for v := 0; v < g.n; v++ {
			if g.adj[u][v] {
				h.adj[p[u]][p[v]] = true
			}
		}
	}
	return h
}

func (g *gr) removeVertex(k int) *gr {
	h := newGr(g.n - 1)
	idx := func(v int) int {
		if v > k {
			return v - 1
		}
		return v
	}
	for u := 0; u < g.n; u++ {
		for v := 0; v < g.n; v++ {
			if u != k && v != k && g.adj[u][v] {
				h.adj[idx(u)][idx(v)] = true
			}
		}
	}
	return h
}

// apply executes one transformation token on g.  Tokens are total: every token is valid on
// every graph (indices are reduced modulo the current size), so deleting tokens of a case
// leaves a valid case.  The kind returned is the token letter.
//
//	r<seed>   relabel by lcgPerm(seed, n)
//	s<i>      subdivide edge number i mod m (no-op if m = 0)
//	i         add an isolated vertex
//	p<v>      add a pendant vertex at v mod n (an isolated vertex if n = 0)
//	d<i>      delete edge number i mod m
//	v<k>      delete vertex k mod n, larger labels move down
//	a<u>,<v>  add the edge {u mod n, v mod n} (no-op if equal or present)
//	c<i>      contract edge number i mod m = {a,b}, a<b: b is merged into a and removed
func apply(g *gr, tok string) (*gr, byte) {
	kind := tok[0]
	arg := tok[1:]
	num := func(s string) int {
		x, err := strconv.ParseUint(s, 10, 64)
		if err != nil {
			panic("bad token " + tok)
		}
		return int(x % (1 << 62))
	}
	switch kind {
	case 'r':
		x, err := strconv.ParseUint(arg, 10, 64)
		if err != nil {
			panic("bad token " + tok)
		}
		return g.relabel(lcgPerm(x, g.n)), kind
	case 's':
		es := g.edges()
		if len(es) == 0 {
			return g.clone(), kind
		}
		e := es[num(arg)%len(es)]
		h := g.grow(1)
		h.del(e[0], e[1])
		h.add(e[0], g.n)
		h.add(e[1], g.n)
		return h, kind
	case 'i':
		return g.grow(1), kind
	case 'p':
		h := g.grow(1)
		if g.n > 0 {
			h.add(num(arg)%g.n, g.n)
		}
		return h, kind
	case 'd':
		es := g.edges()
		h := g.clone()
		if len(es) > 0 {
			e := es[num(arg)%len(es)]
			h.del(e[0], e[1])
		}
		return h, kind
	case 'v':
		if g.n == 0 {
			return g.clone(), kind
		}
		return g.removeVertex(num(arg) % g.n), kind
	case 'a':
		h := g.clone()
		if g.n > 0 {
			j := strings.IndexByte(arg, ',')
			u, v := num(arg[:j])%g.n, num(arg[j+1:])%g.n
			h.add(u, v)
		}
		return h, kind
	case 'c':
		es := g.edges()
		if len(es) == 0 {
			return g.clone(), kind
		}
		e := es[num(arg)%len(es)]
		h := g.clone()
		for _, w := range g.nbrs(e[1]) {
			if w != e[0] {
				h.add(e[0], w)
			}
		}
		return h.removeVertex(e[1]), kind
	}
	panic("bad token " + tok)
}

// ---------------------------------------------------------------- case lines
//
//	L<lim> <fam> <truth> <graph> [K5=<sets>|K33=<sets>];tok tok tok
//
// lim: graphs with at most lim vertices are decided by the exhaustive oracle (on both sides);
// fam: name of the generating family (for the histogram); truth: P (planar by construction),
// N (non-planar by construction), U (not known); sets: branch sets of a K5 / K3,3 minor of
// the base graph, `0.1.2/3/4.5/...`, for K3,3 the first three sets are one side.
type tcase struct {
	lim   int
	fam   string
	truth byte
	g     *gr
	certH string  // "", "K5", "K33"
	cert  [][]int // branch sets
	toks  []string
}

func (c *tcase) line() string {
	var sb strings.Builder
	fmt.Fprintf(&sb, "L%d %s %c %s", c.lim, c.fam, c.truth, c.g.text())
	if c.certH != "" {
		sb.WriteByte(' ')
		sb.WriteString(c.certH)
		sb.WriteByte('=')
		for i, s := range c.cert {
			if i > 0 {
				sb.WriteByte('/')
			}
			for j, v := range s {
				if j > 0 {
					sb.WriteByte('.')
				}
				sb.WriteString(strconv.Itoa(v))
			}
		}
	}
	sb.WriteByte(';')
	sb.WriteString(strings.Join(c.toks, " "))
	return sb.String()
}

func parseCase(line string) *tcase {
	k := strings.LastIndexByte(line, ';')
	head := strings.Fields(line[:k])
	c := &tcase{toks: strings.Fields(line[k+1:])}
	c.lim, _ = strconv.Atoi(head[0][1:])
	c.fam = head[1]
	c.truth = head[2][0]
	c.g = parseGr(head[3])
	if len(head) > 4 {
		j := strings.IndexByte(head[4], '=')
		c.certH = head[4][:j]
		for _, s := range strings.Split(head[4][j+1:], "/") {
			var set []int
			for _, x := range strings.Split(s, ".") {
				if x == "" {
					continue
				}
				v, _ := strconv.Atoi(x)
				set = append(set, v)
			}
			c.cert = append(c.cert, set)
		}
	}
	return c
}

// certValid checks the branch sets against the graph: the right number of sets, every set
// non-empty, inside the graph, connected, pairwise disjoint, and an edge between every pair
// of sets that are adjacent in K5 / K3,3.
func certValid(g *gr, h string, sets [][]int) bool {
	want := 5
	if h == "K33" {
		want = 6
	}
	if len(sets) != want {
		return false
	}
	owner := make([]int, g.n)
	for i := range owner {
		owner[i] = -1
	}
	for i, s := range sets {
		if len(s) == 0 {
			return false
		}
		for _, v := range s {
			if v < 0 || v >= g.n || owner[v] != -1 {
				return false
			}
			owner[v] = i
		}
	}
	for i, s := range sets {
		seen := map[int]bool{s[0]: true}
		stack := []int{s[0]}
		for len(stack) > 0 {
			v := stack[len(stack)-1]
			stack = stack[:len(stack)-1]
			for _, u := range g.nbrs(v) {
				if owner[u] == i && !seen[u] {
					seen[u] = true
					stack = append(stack, u)
				}
			}
		}
		if len(seen) != len(s) {
			return false
		}
	}
	touch := func(i, j int) bool {
		for _, u := range sets[i] {
			for _, v := range sets[j] {
				if g.adj[u][v] {
					return true
				}
			}
		}
		return false
	}
	for i := 0; i < want; i++ {
		for j := i + 1; j < want; j++ {
			need := true
			if h == "K33" {
				need = i < 3 && j >= 3
			}
			if need && !touch(i, j) {
				return false
			}
		}
	}
	return true
}

// ---------------------------------------------------------------- structure: blocks

// blocks returns the vertex sets of the biconnected components (blocks with at least one
// edge) of g, by the classical edge-stack algorithm (own implementation, recursive).
func blocks(g *gr) [][]int {
	n := g.n
	disc := make([]int, n)
	low := make([]int, n)
	for i := range disc {
		disc[i] = -1
	}
	var out [][]int
	var stack [][2]int
	t := 0
	var dfs func(v, parent int)
	dfs = func(v, parent int) {
		disc[v] = t
		low[v] = t
		t++
		for u := 0; u < n; u++ {
			if !g.adj[v][u] || u == parent {
				continue
			}
			if disc[u] == -1 {
				stack = append(stack, [2]int{v, u})
				dfs(u, v)
				if low[u] < low[v] {
					low[v] = low[u]
				}
				if low[u] >= disc[v] {
					set := map[int]bool{}
					for {
						e := stack[len(stack)-1]
						stack = stack[:len(stack)-1]
						set[e[0]] = true
						set[e[1]] = true
						if e[0] == v && e[1] == u {
							break
						}
					}
					var b []int
					for x := range set {
						b = append(b, x)
					}
					sort.Ints(b)
					out = append(out, b)
				}
			} else if disc[u] < disc[v] {
				stack = append(stack, [2]int{v, u})
				if disc[u] < low[v] {
					low[v] = disc[u]
				}
			}
		}
	}
	for v := 0; v < n; v++ {
		if disc[v] == -1 {
			dfs(v, -1)
		}
	}
	return out
}

func (g *gr) induced(vs []int) *gr {
	h := newGr(len(vs))
	for i, u := range vs {
		for j, v := range vs {
			if g.adj[u][v] {
				h.adj[i][j] = true
			}
		}
	}
	return h
}

// bipartite reports whether g is 2-colourable.
func bipartite(g *gr) bool {
	col := make([]int, g.n)
	for s := 0; s < g.n; s++ {
		if col[s] != 0 {
			continue
		}
		col[s] = 1
		q := []int{s}
		for len(q) > 0 {
			v := q[0]
			q = q[1:]
			for u := 0; u < g.n; u++ {
				if !g.adj[v][u] {
					continue
				}
				if col[u] == 0 {
					col[u] = -col[v]
					q = append(q, u)
				} else if col[u] == col[v] {
					return false
				}
			}
		}
	}
	return true
}
