// Command c11 exercises graph.IsPlanar (C11).  A case is a base graph plus a chain of
// transformations; IsPlanar is evaluated on every graph of the chain and compared with
//   - an exhaustive K5 / K3,3 minor oracle on small graphs (and, on the model side, with the
//     extracted oracle proved correct against the specification),
//   - the edge-count bounds,
//   - the answer known by construction of the family,
//   - the metamorphic relations between consecutive graphs of the chain.
package main

import (
	"fmt"
	"sort"
	"strings"
	"time"

	"github.com/Tom-Johnston/mamba/graph"
	"github.com/Tom-Johnston/mamba/sortints"
	"verifharness/hx"
)

func toDense(g *gr) *graph.DenseGraph {
	edges := make([]byte, g.n*(g.n-1)/2)
	if g.n == 0 {
		edges = []byte{}
	}
	for v := 1; v < g.n; v++ {
		for u := 0; u < v; u++ {
			if g.adj[u][v] {
				edges[v*(v-1)/2+u] = 1
			}
		}
	}
	return graph.NewDense(g.n, edges)
}

func toSparse(g *gr) *graph.SparseGraph {
	nb := make([]sortints.SortedInts, g.n)
	for v := 0; v < g.n; v++ {
		nb[v] = sortints.SortedInts(append([]int{}, g.nbrs(v)...))
	}
	return graph.NewSparse(g.n, nb)
}

// callIsPlanar runs IsPlanar under recover: "t", "f" or "panic".
func callIsPlanar(g graph.Graph) (res string) {
	defer func() {
		if e := recover(); e != nil {
			res = "panic"
		}
	}()
	if graph.IsPlanar(g) {
		return "t"
	}
	return "f"
}

// graphs with more vertices are not given to the model of IsPlanar by the driver (same constant
// in ocaml/c11/driver.ml)
const modelMax = 200

const (
	stUnknown = 0
	stPlanar  = 1
	stNonpl   = 2
)

// next status of the specification value along one transformation, when the new graph is too
// large for the exhaustive oracle.  r, s, i, p leave the value unchanged; d, v (subgraph) and
// c (contraction: a minor) keep "planar"; a (supergraph) keeps "non-planar" (theorems
// C11_spec_* of coq/Props/C11.v).
func propagate(st int, kind byte) int {
	switch kind {
	case 'r', 's', 'i', 'p':
		return st
	case 'd', 'v', 'c':
		if st == stPlanar {
			return stPlanar
		}
	case 'a':
		if st == stNonpl {
			return stNonpl
		}
	}
	return stUnknown
}

// truthNext: what is known by construction (including contraction: minors of planar graphs
// are planar).
func truthNext(t byte, kind byte) byte {
	switch kind {
	case 'r', 's', 'i', 'p':
		return t
	case 'd', 'v', 'c':
		if t == 'P' {
			return 'P'
		}
	case 'a':
		if t == 'N' {
			return 'N'
		}
	}
	return 'U'
}

func nontrivialGraph(g *gr) (nontrivial bool, nblocks int) {
	bs := blocks(g)
	for _, b := range bs {
		if len(b) >= 5 && g.induced(b).m() <= 3*len(b)-6 {
			nontrivial = true
		}
	}
	return nontrivial, len(bs)
}

func exec(line string) hx.Result {
	c := parseCase(line)
	var res hx.Result
	fail := func(key, format string, a ...interface{}) {
		if len(res.Viol) < 6 {
			res.Viol = append(res.Viol, hx.Fail("C11:"+key+":"+clip(line, 100), format, a...))
		}
	}
	var obs []string
	g := c.g
	st := stUnknown
	truth := c.truth
	prevAns := ""
	var prevG *gr
	maxBlocks := 0
	presUsed := map[string]bool{}
	var firstG *gr
	firstAns := ""
	for i := -1; i < len(c.toks); i++ {
		kind := byte('0')
		if i >= 0 {
			prevG = g
			g, kind = apply(g, c.toks[i])
			truth = truthNext(truth, kind)
		}
		// specification status
		small := g.n <= c.lim && g.n <= oracleMax
		var orc bool
		if small {
			orc = oraclePlanar(g)
			if orc {
				st = stPlanar
			} else {
				st = stNonpl
			}
		} else if i < 0 {
			st = stUnknown
			if c.certH != "" && certValid(g, c.certH, c.cert) {
				st = stNonpl
			}
		} else {
			st = propagate(st, kind)
		}
		// the implementation, on every presentation of the same abstract graph
		ans := callIsPlanar(toDense(g))
		if ans2 := callIsPlanar(toSparse(g)); ans2 != ans {
			fail("repr", "IsPlanar differs between DenseGraph (%s) and SparseGraph (%s) on %s", ans, ans2, g.text())
		}
		if g.n > 0 && g.n <= 40 {
			// the same graph seen through an InducedSubgraph view with a rotated vertex order
			p := make([]int, g.n)
			for v := range p {
				p[v] = (v + 1) % g.n
			}
			// view vertex j is vertex p[j] of the relabelled graph, i.e. vertex j of g
			view := graph.InducedSubgraph(toDense(g.relabel(p)), p)
			if ans3 := callIsPlanar(view); ans3 != ans {
				fail("view", "IsPlanar differs between DenseGraph (%s) and an InducedSubgraph view of a relabelling (%s) on %s", ans, ans3, g.text())
			}
		}
		{
			h := uint64(g.hash())
			pr := &prng{s: h*0x9e3779b97f4a7c15 + uint64(i+1)}
			k1 := int((h + uint64(i+1)) % numExtraPres)
			k2 := int((h/13 + 5*uint64(i+2)) % numExtraPres)
			ks := []int{k1}
			if k2 != k1 {
				ks = append(ks, k2)
			}
			for _, k := range ks {
				x := extraPres(g, k, pr)
				if x.g == nil || !presentsExactly(x.g, g) {
					// the presentation itself is wrong (another property's business): not used
					res.Buckets = append(res.Buckets, "guard-failed:"+x.name)
					continue
				}
				ansX := callIsPlanar(x.g)
				if ansX != ans {
					fail("prov-"+x.name, "IsPlanar = %s on a DenseGraph but %s on the same graph presented as %s: %s", ans, ansX, x.name, g.text())
				}
				if !presentsExactly(x.g, g) {
					fail("mutated-"+x.name, "IsPlanar changed its argument (presentation %s): %s", x.name, g.text())
				}
				presUsed[x.name] = true
			}
		}
		if ans == "panic" {
			fail("panic", "IsPlanar panicked on %s", g.text())
		}
		if small && ans != "panic" && (ans == "t") != orc {
			fail("oracle", "IsPlanar = %s but the exhaustive K5/K3,3 minor oracle says planar = %v on %s", ans, orc, g.text())
		}
		if ans == "t" && boundsForceNonplanar(g) {
			fail("bound", "IsPlanar = true but an edge-count bound (m <= 3n-6, bipartite m <= 2n-4, per block) excludes planarity: %s", g.text())
		}
		if truth == 'P' && ans == "f" {
			fail("family", "planar by construction (%s) but IsPlanar = false: %s", c.fam, g.text())
		}
		if truth == 'N' && ans == "t" {
			fail("family", "non-planar by construction (%s) but IsPlanar = true: %s", c.fam, g.text())
		}
		if i >= 0 && ans != "panic" && prevAns != "panic" {
			switch kind {
			case 'r', 's', 'i', 'p':
				if ans != prevAns {
					fail("meta-"+string(kind), "answer changed from %s to %s under %s: %s -> %s", prevAns, ans, c.toks[i], prevG.text(), g.text())
				}
			case 'd', 'v', 'c':
				if prevAns == "t" && ans == "f" {
					fail("meta-"+string(kind), "reported planar, but after %s reported non-planar: %s -> %s", c.toks[i], prevG.text(), g.text())
				}
			case 'a':
				if prevAns == "f" && ans == "t" {
					fail("meta-a", "reported non-planar, but after %s reported planar: %s -> %s", c.toks[i], prevG.text(), g.text())
				}
			}
		}
		prevAns = ans
		if i < 0 {
			firstG, firstAns = g, ans
		}
		shown := ans
		if st == stUnknown && ans != "panic" {
			shown = "?"
		}
		// second field: the answer itself, compared with the executable model of IsPlanar
		// (coq/Planar/DmpModel.v) on every graph, also where the specification's value is unknown
		modelAns := ans
		if g.n > modelMax {
			modelAns = "-"
		}
		obs = append(obs, fmt.Sprintf("%d.%d.%d=%s:%s", g.n, g.m(), g.hash(), shown, modelAns))
		nt, nb := nontrivialGraph(g)
		if nt {
			res.Nontrivial = true
		}
		if nb > maxBlocks {
			maxBlocks = nb
		}
	}
	// hidden state across calls in this worker process: the first graph again after the whole
	// chain; a call that panics inside the caller's Graph implementation and is recovered, then
	// the last graph again; a call from inside another call's Neighbours
	if firstG != nil && prevAns != "panic" && firstAns != "panic" {
		if again := callIsPlanar(toDense(firstG)); again != firstAns {
			fail("state-again", "IsPlanar = %s on the first graph, %s on the same graph after %d other calls: %s", firstAns, again, len(c.toks), firstG.text())
		}
		if g.n >= 5 {
			calls := 0
			at := 1 + g.hash()%17
			bomb := userGraph{g: g, calls: &calls, onNb: func(k int) {
				if k == at {
					panic("caller's Graph panics")
				}
			}}
			_ = callIsPlanar(bomb) // "panic" expected when IsPlanar asks that often; not judged
			if again := callIsPlanar(toSparse(g)); again != prevAns {
				fail("state-recover", "IsPlanar = %s, but %s on the same graph after a call that panicked in the caller's Neighbours and was recovered: %s", prevAns, again, g.text())
			}
			calls = 0
			innerBad := ""
			nested := userGraph{g: g, calls: &calls, onNb: func(k int) {
				if k == at || k == 3*at {
					if a := callIsPlanar(toDense(completeBip(3, 3).grow(2))); a != "f" {
						innerBad = "K3,3 + 2 isolated = " + a
					}
					if a := callIsPlanar(toSparse(firstG)); a != firstAns {
						innerBad = "first graph of the case = " + a + " instead of " + firstAns
					}
				}
			}}
			if outer := callIsPlanar(nested); outer != prevAns {
				fail("state-nested", "IsPlanar = %s, but %s when other IsPlanar calls run inside its Neighbours calls: %s", prevAns, outer, g.text())
			}
			if innerBad != "" {
				fail("state-nested", "a call made from inside another call's Neighbours gave a wrong answer (%s): %s", innerBad, g.text())
			}
		}
	}
	var presNames []string
	for name := range presUsed {
		presNames = append(presNames, "pres:"+name)
	}
	sort.Strings(presNames)
	res.Buckets = append(res.Buckets, presNames...)
	res.Obs = strings.Join(obs, " ")
	res.Buckets = append(res.Buckets, "fam:"+c.fam, fmt.Sprintf("n<=%d", bucket(c.g.n)), fmt.Sprintf("blocks<=%d", bucket(maxBlocks)),
		fmt.Sprintf("truth:%c", c.truth), "final:"+prevAns)
	return res
}

func clip(s string, n int) string {
	if len(s) > n {
		return s[:n]
	}
	return s
}

func bucket(n int) int {
	b := 1
	for b < n {
		b *= 2
	}
	return b
}

// ---------------------------------------------------------------- generation

func seedTok(r *hx.Rng) string { return fmt.Sprintf("r%d", r.U64()>>2) }

// randomToks makes a chain of transformations; weights by kind.
func randomToks(r *hx.Rng, length int, inv, sub, sup, con int) []string {
	var toks []string
	total := inv + sub + sup + con
	for len(toks) < length {
		x := r.Intn(total)
		switch {
		case x < inv:
			switch r.Intn(5) {
			case 0, 1:
				toks = append(toks, seedTok(r))
			case 2:
				toks = append(toks, fmt.Sprintf("s%d", r.Intn(1000)))
			case 3:
				toks = append(toks, fmt.Sprintf("p%d", r.Intn(1000)))
			default:
				toks = append(toks, "i")
			}
		case x < inv+sub:
			if r.Chance(3, 4) {
				toks = append(toks, fmt.Sprintf("d%d", r.Intn(1000)))
			} else {
				toks = append(toks, fmt.Sprintf("v%d", r.Intn(1000)))
			}
		case x < inv+sub+sup:
			toks = append(toks, fmt.Sprintf("a%d,%d", r.Intn(1000), r.Intn(1000)))
		default:
			toks = append(toks, fmt.Sprintf("c%d", r.Intn(1000)))
		}
	}
	return toks
}

func gen(g *hx.Gen) {
	r := g.Rng
	emit := func(lim int, b built, toks []string) {
		c := tcase{lim: lim, fam: b.fam, truth: b.truth, g: b.g, certH: b.certH, cert: b.cert, toks: toks}
		if c.truth == 0 {
			c.truth = 'U'
		}
		g.Emit(c.line())
	}
	relabels := func(k int) []string {
		t := make([]string, k)
		for i := range t {
			t[i] = seedTok(r)
		}
		return t
	}
	lim := 7

	// 1. corpus: named graphs, alone, relabelled, and with invariance transformations
	for _, b := range namedGraphs() {
		emit(lim, b, relabels(6))
		emit(lim, b, randomToks(r, 10, 1, 0, 0, 0))
	}

	// 2. exhaustive: every labelled graph on at most 5 (thorough: 6) vertices
	maxLab := g.Pick(5, 6)
	for n := 0; n <= maxLab; n++ {
		e := n * (n - 1) / 2
		for mask := uint64(0); mask < 1<<uint(e); mask++ {
			emit(lim, built{g: fromMask(n, mask), truth: 'U', fam: fmt.Sprintf("labelled%d", n)}, nil)
		}
	}
	g.Exhaustive(fmt.Sprintf("every labelled graph on 0..%d vertices against the exhaustive minor oracle", maxLab))

	// 3. one representative per isomorphism class x relabellings
	maxClass := g.Pick(6, 7)
	reps := classReps(7)
	for n := 5; n <= maxClass; n++ {
		for _, h := range reps[n] {
			emit(lim, built{g: h, truth: 'U', fam: fmt.Sprintf("class%d", n)}, relabels(20))
		}
	}
	g.Exhaustive(fmt.Sprintf("one representative of every isomorphism class on 5..%d vertices (%d, %d, %d classes on 5, 6, 7 vertices) x 20 relabellings", maxClass, len(reps[5]), len(reps[6]), len(reps[7])))
	if len(reps[5]) != 34 || len(reps[6]) != 156 || len(reps[7]) != 1044 {
		g.Note(fmt.Sprintf("class enumeration is off: %d %d %d", len(reps[5]), len(reps[6]), len(reps[7])))
	}
	// quick: the classes on 7 vertices whose answer is not forced by the edge count, sampled
	if !g.Thorough() {
		for _, h := range reps[7] {
			m := h.m()
			if m >= 9 && m <= 15 && r.Chance(1, 4) {
				emit(lim, built{g: h, truth: 'U', fam: "class7"}, relabels(6))
			}
		}
	} else {
		// thorough: 8 vertices, 9 <= m <= 18, every one-vertex extension of a class on 7 vertices
		// up to isomorphism
		seen := map[uint64]bool{}
		cnt := 0
		for _, h := range reps[7] {
			for s := 0; s < 128; s++ {
				x := h.grow(1)
				for v := 0; v < 7; v++ {
					if s&(1<<uint(v)) != 0 {
						x.add(v, 7)
					}
				}
				m := x.m()
				if m < 9 || m > 18 {
					continue
				}
				cm := canonMask(x)
				if seen[cm] {
					continue
				}
				seen[cm] = true
				cnt++
				emit(8, built{g: fromMask(8, cm), truth: 'U', fam: "class8"}, relabels(3))
			}
		}
		g.Exhaustive(fmt.Sprintf("one representative of every isomorphism class on 8 vertices with 9 <= m <= 18 (%d classes) x 3 relabellings", cnt))
	}

	// 4. small random graphs with mixed chains (oracle at every step while n <= lim)
	for i := 0; i < g.Pick(600, 6000); i++ {
		n := r.Range(5, 7)
		h := newGr(n)
		den := r.Range(2, 5)
		for u := 0; u < n; u++ {
			for v := u + 1; v < n; v++ {
				if r.Chance(den, 6) {
					h.add(u, v)
				}
			}
		}
		emit(lim, built{g: h, truth: 'U', fam: "random-small"}, randomToks(r, r.Range(4, 14), 3, 2, 2, 1))
	}

	// 5. planar by construction, up to n = 60 (thorough: 120), with chains
	for i := 0; i < g.Pick(400, 3800); i++ {
		n := r.Range(5, 60)
		if g.Thorough() && r.Chance(1, 6) {
			n = r.Range(60, 120)
		}
		var h *gr
		fam := ""
		if r.Chance(1, 3) {
			h = manyBlocks(r, r.Range(2, 6), n/3+1)
			fam = "many-blocks"
		} else {
			h, fam = randomPlanar(r, n)
		}
		if r.Bool() {
			h = h.relabel(r.Perm(h.n))
		}
		emit(lim, built{g: h, truth: 'P', fam: fam}, randomToks(r, r.Range(3, 10), 3, 3, 0, 1))
	}

	// 6. non-planar by construction with a certificate, hidden behind planar material
	for i := 0; i < g.Pick(260, 3000); i++ {
		b := hiddenKuratowski(r, r.Range(3, 25))
		emit(lim, b, randomToks(r, r.Range(3, 10), 4, 0, 2, 0))
	}

	// 8. padding: bases with a known answer plus many extra planar components (see padding.go),
	// all relations between m and n; two blocks of which only one is non-planar
	emitPadded := func(b built, all bool) {
		for _, pb := range paddedVariants(r, b, all) {
			toks := relabels(1)
			if r.Chance(1, 3) {
				toks = append(toks, randomToks(r, 2, 1, 0, 0, 0)...)
			}
			emit(lim, pb, toks)
		}
	}
	for _, b := range namedGraphs() {
		emitPadded(b, true)
	}
	for i := 0; i < g.Pick(25, 150); i++ {
		kg, sets := kuratowski(r, i%2 == 0, r.Intn(4))
		h := "K33"
		if i%2 == 0 {
			h = "K5"
		}
		emitPadded(built{g: kg, truth: 'N', certH: h, cert: sets, fam: "subdivided-" + h}, i%3 == 0)
	}
	for i := 0; i < g.Pick(20, 100); i++ {
		emitPadded(hiddenKuratowski(r, r.Range(3, 12)), i%3 == 0)
	}
	for i := 0; i < g.Pick(20, 100); i++ {
		h, fam := randomPlanar(r, r.Range(5, 30))
		emitPadded(built{g: h, truth: 'P', fam: fam}, i%3 == 0)
	}
	for i := 0; i < g.Pick(60, 300); i++ {
		for _, b := range twoBlocks(r) {
			emit(lim, b, relabels(2))
			if i%4 == 0 {
				emitPadded(b, false)
			}
		}
	}

	// 9. sizes across thresholds, with construction-known answers (and, up to modelMax vertices,
	// the model): n = T-1, T, T+1 for T = 8 .. 256
	for _, T := range []int{8, 16, 32, 64, 128, 256} {
		for _, n := range []int{T - 1, T, T + 1} {
			few := !g.Thorough() && T >= 128
			for fi, b := range sizeFamilies(r, n, few) {
				if !g.Thorough() && T == 128 && n != T && fi%2 == 1 {
					continue // quick: half of the families just below and above 128
				}
				var toks []string
				switch {
				case g.Thorough():
					toks = append(relabels(1), "i", fmt.Sprintf("p%d", r.Intn(1000)), seedTok(r))
				case T <= 32:
					toks = append(relabels(1), fmt.Sprintf("p%d", r.Intn(1000)), seedTok(r))
				case T == 64:
					toks = relabels(1)
				case T == 128 && n == T:
					toks = relabels(1)
				}
				emit(lim, b, toks)
			}
		}
	}

	// 10. volume: many relabellings of near-triangulations and of graphs one edge beyond planarity
	// (9..40 vertices); judged by the construction-known answer, relabelling invariance and the model
	for i := 0; i < g.Pick(220, 2500); i++ {
		emit(lim, volumeBase(r), relabels(g.Pick(10, 14)))
	}

	// 7. near the boundary: a triangulation plus one edge (non-planar, m = 3n-5 only inside one
	// block), a triangulation minus one edge plus another, random graphs of moderate density
	for i := 0; i < g.Pick(300, 4000); i++ {
		n := r.Range(6, 40)
		h := flippedTriangulation(r, n, 2*n)
		switch r.Intn(3) {
		case 0:
			// maximal planar plus one edge is never planar
			var u, v int
			for tries := 0; tries < 200; tries++ {
				u, v = r.Intn(n), r.Intn(n)
				if u != v && !h.has(u, v) {
					break
				}
			}
			if u != v && !h.has(u, v) {
				h.add(u, v)
				// hang planar blocks on it so that the global count m <= 3n-6 does not reveal it
				h2, _ := glue(h, r.Intn(h.n), randomTree(r, r.Range(2, 10)), 0)
				emit(lim, built{g: h2.relabel(r.Perm(h2.n)), truth: 'N', fam: "triang+edge"}, randomToks(r, 4, 1, 0, 0, 0))
				continue
			}
			emit(lim, built{g: h, truth: 'P', fam: "flipped"}, randomToks(r, 4, 1, 1, 0, 0))
		case 1:
			// exchange edges: answer unknown, metamorphic relations and bounds only
			for k := 0; k < 3; k++ {
				es := h.edges()
				e := es[r.Intn(len(es))]
				h.del(e[0], e[1])
				h.add(r.Intn(n), r.Intn(n))
			}
			emit(lim, built{g: h, truth: 'U', fam: "triang-exchanged"}, randomToks(r, 8, 3, 2, 2, 1))
		default:
			h = newGr(n)
			m := r.Range(n, 3*n-6)
			for k := 0; k < m; k++ {
				h.add(r.Intn(n), r.Intn(n))
			}
			emit(lim, built{g: h, truth: 'U', fam: "random-sparse"}, randomToks(r, 8, 3, 2, 2, 1))
		}
	}
}

func main() {
	hx.Main(hx.Prop{
		Rule:        "case = base graph + chain of transformations (relabel, subdivide, add isolated/pendant vertex, delete edge/vertex, add edge, contract); non-trivial = some graph of the chain has a block with >= 5 vertices and at most 3n-6 edges, i.e. the embedding loop of IsPlanar runs; distinct by case text",
		Gen:         gen,
		Exec:        exec,
		CaseTimeout: 20 * time.Second,
		MemMB:       3072,
	})
}
