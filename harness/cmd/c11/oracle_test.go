package main

import "testing"

// The numbers of planar graphs on 0..7 unlabelled vertices (OEIS A005470) calibrate the
// class enumeration and the contraction oracle of the harness.
func TestPlanarCounts(t *testing.T) {
	want := []int{1, 1, 2, 4, 11, 33, 142, 822}
	classes := []int{1, 1, 2, 4, 11, 34, 156, 1044}
	reps := classReps(7)
	for n := 0; n <= 7; n++ {
		if len(reps[n]) != classes[n] {
			t.Errorf("n=%d: %d classes, want %d", n, len(reps[n]), classes[n])
		}
		c := 0
		for _, g := range reps[n] {
			if oraclePlanar(g) {
				c++
			}
		}
		if c != want[n] {
			t.Errorf("n=%d: %d planar classes, want %d", n, c, want[n])
		}
	}
}
