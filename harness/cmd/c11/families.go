package main

// Graph families with a known answer.  Every constructor returns the graph, the truth
// ('P' planar by construction, 'N' non-planar by construction) and, for some non-planar
// families, the branch sets of a K5 / K3,3 minor (a certificate the model driver checks with
// the proved checker).

import (
	"verifharness/hx"
)

type built struct {
	g     *gr
	truth byte
	certH string
	cert  [][]int
	fam   string
}

func complete(n int) *gr {
	g := newGr(n)
	for u := 0; u < n; u++ {
		for v := u + 1; v < n; v++ {
			g.add(u, v)
		}
	}
	return g
}

func completeBip(a, b int) *gr {
	g := newGr(a + b)
	for u := 0; u < a; u++ {
		for v := 0; v < b; v++ {
			g.add(u, a+v)
		}
	}
	return g
}

func cycle(n int) *gr {
	g := newGr(n)
	for i := 0; i < n; i++ {
		g.add(i, (i+1)%n)
	}
	return g
}

func genPetersen(n, k int) *gr {
	g := newGr(2 * n)
	for i := 0; i < n; i++ {
		g.add(i, (i+1)%n)
		g.add(i, n+i)
		g.add(n+i, n+(i+k)%n)
	}
	return g
}

func grid(a, b int) *gr {
	g := newGr(a * b)
	for i := 0; i < a; i++ {
		for j := 0; j < b; j++ {
			if i+1 < a {
				g.add(i*b+j, (i+1)*b+j)
			}
			if j+1 < b {
				g.add(i*b+j, i*b+j+1)
			}
		}
	}
	return g
}

// cylinder: C_a x P_b (planar); torus: C_a x C_b (non-planar for a,b >= 3).
func cylinder(a, b int, wrap bool) *gr {
	g := newGr(a * b)
	for i := 0; i < a; i++ {
		for j := 0; j < b; j++ {
			g.add(i*b+j, ((i+1)%a)*b+j)
			if j+1 < b {
				g.add(i*b+j, i*b+j+1)
			} else if wrap {
				g.add(i*b+j, i*b)
			}
		}
	}
	return g
}

func wheel(n int) *gr { // hub 0, rim 1..n-1
	g := newGr(n)
	for i := 1; i < n; i++ {
		g.add(0, i)
		j := i + 1
		if j == n {
			j = 1
		}
		g.add(i, j)
	}
	return g
}

// bipyramid: cycle of length k plus two apexes (planar; a triangulation).
func bipyramid(k int) *gr {
	g := newGr(k + 2)
	for i := 0; i < k; i++ {
		g.add(i, (i+1)%k)
		g.add(i, k)
		g.add(i, k+1)
	}
	return g
}

func antiprism(k int) *gr {
	g := newGr(2 * k)
	for i := 0; i < k; i++ {
		g.add(i, (i+1)%k)
		g.add(k+i, k+(i+1)%k)
		g.add(i, k+i)
		g.add(i, k+(i+1)%k)
	}
	return g
}

// apollonian: stacked triangulation on n >= 3 vertices.
func apollonian(r *hx.Rng, n int) *gr {
	g := newGr(n)
	g.add(0, 1)
	g.add(1, 2)
	g.add(0, 2)
	faces := [][3]int{{0, 1, 2}, {0, 1, 2}}
	for v := 3; v < n; v++ {
		k := r.Intn(len(faces))
		f := faces[k]
		g.add(v, f[0])
		g.add(v, f[1])
		g.add(v, f[2])
		faces[k] = [3]int{f[0], f[1], v}
		faces = append(faces, [3]int{f[0], f[2], v}, [3]int{f[1], f[2], v})
	}
	return g
}

// flippedTriangulation: a stacked triangulation followed by random edge flips (an edge
// shared by the triangles abc and abd with c,d non-adjacent is replaced by cd); the result
// is again a simple planar triangulation, in general not a 3-tree.
func flippedTriangulation(r *hx.Rng, n, flips int) *gr {
	g := newGr(n)
	g.add(0, 1)
	g.add(1, 2)
	g.add(0, 2)
	faces := [][3]int{{0, 1, 2}, {0, 1, 2}}
	for v := 3; v < n; v++ {
		k := r.Intn(len(faces))
		f := faces[k]
		g.add(v, f[0])
		g.add(v, f[1])
		g.add(v, f[2])
		faces[k] = [3]int{f[0], f[1], v}
		faces = append(faces, [3]int{f[0], f[2], v}, [3]int{f[1], f[2], v})
	}
	if n < 4 {
		return g
	}
	has := func(f [3]int, x int) bool { return f[0] == x || f[1] == x || f[2] == x }
	third := func(f [3]int, a, b int) int {
		for _, x := range f {
			if x != a && x != b {
				return x
			}
		}
		return -1
	}
	for t := 0; t < flips; t++ {
		es := g.edges()
		e := es[r.Intn(len(es))]
		a, b := e[0], e[1]
		var idx []int
		for i, f := range faces {
			if has(f, a) && has(f, b) {
				idx = append(idx, i)
			}
		}
		if len(idx) != 2 {
			continue
		}
		c, d := third(faces[idx[0]], a, b), third(faces[idx[1]], a, b)
		if c == d || g.has(c, d) {
			continue
		}
		g.del(a, b)
		g.add(c, d)
		faces[idx[0]] = [3]int{a, c, d}
		faces[idx[1]] = [3]int{b, c, d}
	}
	return g
}

// outerplanar: a cycle 0..n-1 with a random set of non-crossing chords.
func outerplanar(r *hx.Rng, n int, density int) *gr {
	g := cycle(n)
	var split func(lo, hi int)
	split = func(lo, hi int) { // polygon lo..hi (indices along the cycle), chord lo-hi present or the outer edge
		if hi-lo < 2 {
			return
		}
		k := lo + 1 + r.Intn(hi-lo-1)
		if k-lo >= 2 && r.Chance(density, 4) {
			g.add(lo, k)
		}
		if hi-k >= 2 && r.Chance(density, 4) {
			g.add(k, hi)
		}
		split(lo, k)
		split(k, hi)
	}
	if n >= 4 {
		split(0, n-1)
	}
	return g
}

func randomTree(r *hx.Rng, n int) *gr {
	g := newGr(n)
	for v := 1; v < n; v++ {
		g.add(v, r.Intn(v))
	}
	return g
}

// randomSubgraph deletes every edge with probability num/den.
func randomSubgraph(r *hx.Rng, g *gr, num, den int) *gr {
	h := g.clone()
	for _, e := range g.edges() {
		if r.Chance(num, den) {
			h.del(e[0], e[1])
		}
	}
	return h
}

// disjointUnion places h after g.
func disjointUnion(g, h *gr) *gr {
	u := g.grow(h.n)
	for _, e := range h.edges() {
		u.add(g.n+e[0], g.n+e[1])
	}
	return u
}

// glue identifies vertex b of h with vertex a of g (a cut vertex of the result); the other
// vertices of h are appended after those of g in their order.  It returns the map of h's
// vertices into the result.
func glue(g *gr, a int, h *gr, b int) (*gr, []int) {
	u := g.grow(h.n - 1)
	mp := make([]int, h.n)
	k := g.n
	for v := 0; v < h.n; v++ {
		if v == b {
			mp[v] = a
		} else {
			mp[v] = k
			k++
		}
	}
	for _, e := range h.edges() {
		u.add(mp[e[0]], mp[e[1]])
	}
	return u, mp
}

// randomPlanar picks a planar graph on about n vertices from the families above.
func randomPlanar(r *hx.Rng, n int) (*gr, string) {
	if n < 3 {
		n = 3
	}
	switch r.Intn(12) {
	case 0:
		return apollonian(r, n), "apollonian"
	case 1:
		return flippedTriangulation(r, n, 3*n), "flipped"
	case 2:
		return randomSubgraph(r, flippedTriangulation(r, n, 2*n), 1, 2+r.Intn(5)), "flipped-sub"
	case 3:
		return randomSubgraph(r, apollonian(r, n), 1, 2+r.Intn(6)), "apollonian-sub"
	case 4:
		a := 2 + r.Intn(6)
		b := n / a
		if b < 2 {
			b = 2
		}
		g := grid(a, b)
		if r.Bool() {
			return randomSubgraph(r, g, 1, 5), "grid-sub"
		}
		return g, "grid"
	case 5:
		if n < 4 {
			n = 4
		}
		return wheel(n), "wheel"
	case 6:
		if n < 4 {
			n = 4
		}
		return outerplanar(r, n, 1+r.Intn(4)), "outerplanar"
	case 7:
		return randomTree(r, n), "tree"
	case 8:
		a := 3 + r.Intn(5)
		b := n / a
		if b < 2 {
			b = 2
		}
		return cylinder(a, b, false), "cylinder"
	case 9:
		k := n - 2
		if k < 3 {
			k = 3
		}
		return bipyramid(k), "bipyramid"
	case 10:
		k := n / 2
		if k < 3 {
			k = 3
		}
		return antiprism(k), "antiprism"
	default:
		k := n / 2
		if k < 3 {
			k = 3
		}
		return genPetersen(k, 1), "prism"
	}
}

// manyBlocks glues several planar pieces at cut vertices and/or takes disjoint unions.
func manyBlocks(r *hx.Rng, pieces, size int) *gr {
	g, _ := randomPlanar(r, 3+r.Intn(size))
	for i := 1; i < pieces; i++ {
		h, _ := randomPlanar(r, 3+r.Intn(size))
		if r.Chance(1, 5) {
			g = disjointUnion(g, h)
		} else {
			g, _ = glue(g, r.Intn(g.n), h, r.Intn(h.n))
		}
	}
	return g
}

// kuratowski builds a subdivision of K5 or K3,3 with every edge subdivided a random number of
// times, returns it with the branch sets of the minor (every subdividing vertex joins the
// branch set of the smaller end of its edge).
func kuratowski(r *hx.Rng, k5 bool, maxSub int) (*gr, [][]int) {
	var base *gr
	if k5 {
		base = complete(5)
	} else {
		base = completeBip(3, 3)
	}
	g := base.clone()
	sets := make([][]int, base.n)
	for v := 0; v < base.n; v++ {
		sets[v] = []int{v}
	}
	for _, e := range base.edges() {
		k := r.Intn(maxSub + 1)
		if k == 0 {
			continue
		}
		first := g.n
		g = g.grow(k)
		g.del(e[0], e[1])
		prev := e[0]
		for i := 0; i < k; i++ {
			g.add(prev, first+i)
			prev = first + i
			sets[e[0]] = append(sets[e[0]], first+i)
		}
		g.add(prev, e[1])
	}
	return g, sets
}

// hiddenKuratowski: planar material on the low-numbered vertices, the subdivided K5 / K3,3
// after it, joined through cut vertices or bridges, planar attachments glued onto vertices of
// the Kuratowski part, a few extra edges; optionally relabelled at random.  The certificate
// follows every step.
func hiddenKuratowski(r *hx.Rng, size int) built {
	k5 := r.Bool()
	kg, sets := kuratowski(r, k5, 1+r.Intn(4))
	// planar front part
	front := manyBlocks(r, 1+r.Intn(3), size)
	var g *gr
	mp := make([]int, kg.n)
	switch r.Intn(3) {
	case 0: // disjoint
		g = disjointUnion(front, kg)
		for v := range mp {
			mp[v] = front.n + v
		}
	case 1: // bridge
		g = disjointUnion(front, kg)
		for v := range mp {
			mp[v] = front.n + v
		}
		g.add(r.Intn(front.n), front.n+r.Intn(kg.n))
	default: // cut vertex
		g, mp = glue(front, r.Intn(front.n), kg, r.Intn(kg.n))
	}
	for i := range sets {
		for j := range sets[i] {
			sets[i][j] = mp[sets[i][j]]
		}
	}
	// planar attachments on vertices of the Kuratowski part
	att := r.Intn(4)
	for i := 0; i < att; i++ {
		h, _ := randomPlanar(r, 3+r.Intn(size))
		g, _ = glue(g, mp[r.Intn(len(mp))], h, r.Intn(h.n))
	}
	// a few extra edges anywhere (a supergraph keeps the minor)
	extra := r.Intn(4)
	for i := 0; i < extra; i++ {
		g.add(r.Intn(g.n), r.Intn(g.n))
	}
	if r.Chance(2, 3) {
		p := r.Perm(g.n)
		g = g.relabel(p)
		for i := range sets {
			for j := range sets[i] {
				sets[i][j] = p[sets[i][j]]
			}
		}
	}
	h := "K33"
	if k5 {
		h = "K5"
	}
	return built{g: g, truth: 'N', certH: h, cert: sets, fam: "hidden-" + h}
}

// namedGraphs: classical graphs with a known answer.
func namedGraphs() []built {
	var out []built
	add := func(fam string, g *gr, truth byte) { out = append(out, built{g: g, truth: truth, fam: fam}) }
	addC := func(fam string, g *gr, h string, sets [][]int) {
		out = append(out, built{g: g, truth: 'N', certH: h, cert: sets, fam: fam})
	}
	addC("K5", complete(5), "K5", [][]int{{0}, {1}, {2}, {3}, {4}})
	addC("K33", completeBip(3, 3), "K33", [][]int{{0}, {1}, {2}, {3}, {4}, {5}})
	addC("petersen", genPetersen(5, 2), "K5", [][]int{{0, 5}, {1, 6}, {2, 7}, {3, 8}, {4, 9}})
	add("K6", complete(6), 'N')
	add("K7", complete(7), 'N')
	add("K4", complete(4), 'P')
	add("K34", completeBip(3, 4), 'N')
	add("K44", completeBip(4, 4), 'N')
	add("K2_7", completeBip(2, 7), 'P')
	add("K1_9", completeBip(1, 9), 'P')
	add("moebius-kantor", genPetersen(8, 3), 'N')
	add("desargues", genPetersen(10, 3), 'N')
	add("nauru", genPetersen(12, 5), 'N')
	add("duerer", genPetersen(6, 2), 'P')
	add("dodecahedron", genPetersen(10, 2), 'P')
	add("cube", genPetersen(4, 1), 'P')
	add("GP7_2", genPetersen(7, 2), 'N')
	for k := 3; k <= 9; k++ {
		add("prism", genPetersen(k, 1), 'P')
		add("antiprism", antiprism(k), 'P')
		add("bipyramid", bipyramid(k), 'P')
		add("wheel", wheel(k+1), 'P')
	}
	// Moebius ladders: cycle of length 2k plus the k diameters; non-planar for k >= 3
	for k := 3; k <= 8; k++ {
		g := cycle(2 * k)
		for i := 0; i < k; i++ {
			g.add(i, i+k)
		}
		add("moebius-ladder", g, 'N')
	}
	// Heawood graph: vertices 0..13, i ~ i+1, even i ~ i+5
	{
		g := cycle(14)
		for i := 0; i < 14; i += 2 {
			g.add(i, (i+5)%14)
		}
		add("heawood", g, 'N')
	}
	// Pappus graph (LCF [5,7,-7,7,-7,-5]^3)
	{
		g := cycle(18)
		lcf := []int{5, 7, -7, 7, -7, -5}
		for i := 0; i < 18; i++ {
			g.add(i, ((i+lcf[i%6])%18+18)%18)
		}
		add("pappus", g, 'N')
	}
	// Franklin graph (LCF [5,-5]^6)
	{
		g := cycle(12)
		for i := 0; i < 12; i++ {
			d := 5
			if i%2 == 1 {
				d = -5
			}
			g.add(i, ((i+d)%12+12)%12)
		}
		add("franklin", g, 'N')
	}
	// hypercubes
	for _, d := range []int{3, 4} {
		g := newGr(1 << uint(d))
		for v := 0; v < g.n; v++ {
			for b := 0; b < d; b++ {
				g.add(v, v^(1<<uint(b)))
			}
		}
		if d == 3 {
			add("Q3", g, 'P')
		} else {
			add("Q4", g, 'N')
		}
	}
	// octahedron K2,2,2 and icosahedron
	{
		g := complete(6)
		g.del(0, 1)
		g.del(2, 3)
		g.del(4, 5)
		add("octahedron", g, 'P')
	}
	{
		// icosahedron: apexes 10 and 11, two 5-cycles 0..4 and 5..9 forming an antiprism
		g := newGr(12)
		for i := 0; i < 5; i++ {
			g.add(i, (i+1)%5)
			g.add(5+i, 5+(i+1)%5)
			g.add(i, 5+i)
			g.add(i, 5+(i+1)%5)
			g.add(10, i)
			g.add(11, 5+i)
		}
		add("icosahedron", g, 'P')
	}
	for _, ab := range [][2]int{{3, 3}, {3, 4}, {4, 5}, {3, 7}} {
		add("torus-grid", cylinder(ab[0], ab[1], true), 'N')
		add("cylinder", cylinder(ab[0], ab[1], false), 'P')
	}
	for _, ab := range [][2]int{{2, 9}, {3, 5}, {5, 5}, {6, 7}, {4, 12}} {
		add("grid", grid(ab[0], ab[1]), 'P')
	}
	return out
}
