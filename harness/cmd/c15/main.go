// Command c15 drains every iterator of package itertools on exhaustively enumerated small
// parameters and prints the whole yielded sequence plus the behaviour after exhaustion (C15).
//
// Case line:   <iterator> [<predicate>] <int> <int> ...
//
//	product f1 f2 ..        comb n k           colex n k        mcomb k m1 m2 ..
//	heap n                  lexperm n          mperm f1 f2 ..   parts n        intparts n
//	rpprod P f1 f2 ..       rpperm P n         pattern P n      topo mMASK n
//
// P is a prefix predicate: pI (member I of the fixed family below), hSEED:NUM:DEN (a pseudo
// random truth table: a 31-bit LCG hash of the prefix decides acceptance with probability
// NUM/DEN), or one of the strongly pruning families used with large objects: sC (sum of the
// prefix <= C), dC (last entry within 1 of its position and at most C entries above their
// position), eC (last entry among the two largest and at most C entries that are not a new
// maximum).  MASK is the bit set of the pairs i<j (bit j*(j-1)/2+i) on which less(i,j) holds;
// instead of mMASK the relation may be fI.J.K..: the total order 0<1<..<n-1 without the pairs
// (I,I+1), (J,J+1), .. (not transitive), or cI.J..: the chain given by its covers only without
// the links I, J, ..; both scale to large n.  sC, dC, eC may carry :LO:HI - deviations from the
// all-zero / identity / all-records object only at positions LO <= i < HI.
//
// A trailing token %PAT is an API call pattern: Value only every J-th step (kJ), on a pseudo random
// half of the steps (rSEED), twice in a row (d), never (n); observed values are "<step>=<value>".
//
// A trailing token @K is a window: only the first K objects are drained and compared and Next
// is not called again (for families too large to drain: large n, factors or n at MaxInt).
//
// Observation: <count>:<v1>/<v2>/..;<three further Next results> (or <K>+:<v1>/../<vK>;WIN when
// the window was filled) where a value is its entries
// joined by '.', the empty tuple is 'e', a set partition is its blocks joined by '|'.  For the
// iterators whose order is not documented (heap, pattern, topo) the projected part is the
// sorted sequence and the strict part the sequence in the order produced.
package main

import (
	"fmt"
	"sort"
	"strconv"
	"strings"
	"time"

	"github.com/Tom-Johnston/mamba/itertools"
	"verifharness/hx"
)

// ---------------------------------------------------------------- predicates

const nFixedPreds = 14

// fixedPred is the fixed family of prefix predicates; a is never empty.
func fixedPred(i int, a []int) bool {
	l := len(a)
	last := a[l-1]
	switch i {
	case 0:
		return true
	case 1:
		return false
	case 2:
		return last%2 == 0
	case 3:
		s := 0
		for _, v := range a {
			s += v
		}
		return s%3 != 0
	case 4:
		return l < 2 || last >= a[l-2]
	case 5:
		return l < 2 || (last-a[l-2] != 1 && a[l-2]-last != 1)
	case 6:
		return l < 3 || last != a[0]
	case 7:
		return l <= 2
	case 8:
		return a[0] == 0
	case 9:
		return last != l-1
	case 10:
		return l < 2 || last > a[l-2]
	case 11:
		return last != 1
	case 12:
		return l < 2 || last < a[l-2]
	case 13:
		mx, mn := true, true
		for _, v := range a[:l-1] {
			if v >= last {
				mx = false
			}
			if v <= last {
				mn = false
			}
		}
		return mx || mn
	}
	panic("bad predicate index")
}

func hashPred(seed, num, den int, a []int) bool {
	h := uint64(seed) & 0x7fffffff
	for _, x := range a {
		h = (h*1103515245 + 12345 + uint64(x+1)*7919) & 0x7fffffff
	}
	h = (h*1103515245 + 12345) & 0x7fffffff
	return int((h>>12)%uint64(den)) < num
}

func parsePred(tok string) func([]int) bool {
	if tok[0] == 'p' {
		i, err := strconv.Atoi(tok[1:])
		if err != nil || i < 0 || i >= nFixedPreds {
			panic("bad predicate " + tok)
		}
		return func(a []int) bool { return fixedPred(i, a) }
	}
	if tok[0] == 'P' {
		// the fixed predicate I again, but reached through a method value of an object with
		// (constant) mutable state, a memo table and a defensive copy of its argument
		i, err := strconv.Atoi(tok[1:])
		if err != nil || i < 0 || i >= nFixedPreds {
			panic("bad predicate " + tok)
		}
		o := &predObj{idx: []int{i}, memo: map[string]bool{}}
		return o.test
	}
	if tok[0] == 'z' {
		// accept exactly the prefixes shorter than N: everything is explored, nothing of length >= N survives
		n := atoi(tok[1:])
		return func(a []int) bool { return len(a) < n }
	}
	if tok[0] == 's' || tok[0] == 'd' || tok[0] == 'e' {
		p := strings.Split(tok[1:], ":")
		c, lo, hi := atoi(p[0]), 0, maxInt
		if len(p) == 3 {
			lo, hi = atoi(p[1]), atoi(p[2])
		}
		kind := tok[0]
		return func(a []int) bool { return prunePred(kind, c, lo, hi, a) }
	}
	if tok[0] == 'h' {
		f := strings.Split(tok[1:], ":")
		seed, _ := strconv.Atoi(f[0])
		num, _ := strconv.Atoi(f[1])
		den, _ := strconv.Atoi(f[2])
		return func(a []int) bool { return hashPred(seed, num, den, a) }
	}
	panic("bad predicate " + tok)
}

type predObj struct {
	idx   []int
	memo  map[string]bool
	calls int
}

func (o *predObj) test(a []int) bool {
	o.calls++
	b := append(make([]int, 0, len(a)+3), a...)
	key := tup(b)
	if v, ok := o.memo[key]; ok {
		return v
	}
	v := fixedPred(o.idx[0], b)
	o.memo[key] = v
	return v
}

// prunePred: the strongly pruning predicate families (a is never empty); the entries that
// deviate (non-zero / not at their position / not a new maximum) must lie at positions in [lo,hi).
func prunePred(kind byte, c, lo, hi int, a []int) bool {
	l := len(a)
	last := a[l-1]
	in := func(i int) bool { return lo <= i && i < hi }
	switch kind {
	case 's':
		t := 0
		for i, v := range a {
			t += v
			if t > c || (v != 0 && !in(i)) {
				return false
			}
		}
		return true
	case 'd':
		if last-(l-1) > 1 || (l-1)-last > 1 {
			return false
		}
		t := 0
		for i, v := range a {
			if v > i {
				t++
			}
			if v != i && !in(i) {
				return false
			}
		}
		return t <= c
	case 'e':
		if last < l-2 {
			return false
		}
		t, mx := 0, -1
		for i, v := range a {
			if v < mx {
				t++
				if !in(i) {
					return false
				}
			} else {
				mx = v
			}
		}
		return t <= c
	}
	panic("bad predicate kind")
}

func pairBit(i, j int) uint { return uint(j*(j-1)/2 + i) }

func parseLess(tok string) func(i, j int) bool {
	if tok[0] == 'f' {
		free := map[int]bool{}
		if len(tok) > 1 {
			for _, t := range strings.Split(tok[1:], ".") {
				free[atoi(t)] = true
			}
		}
		return func(i, j int) bool { return i < j && !(j == i+1 && free[i]) }
	}
	if tok[0] == 'c' {
		// the chain given by its covers only (less(i,j) iff j = i+1), without the listed links i
		broken := map[int]bool{}
		if len(tok) > 1 {
			for _, t := range strings.Split(tok[1:], ".") {
				broken[atoi(t)] = true
			}
		}
		return func(i, j int) bool { return j == i+1 && !broken[i] }
	}
	mask, err := strconv.ParseUint(tok[1:], 10, 64)
	if tok[0] != 'm' || err != nil {
		panic("bad relation " + tok)
	}
	return func(i, j int) bool { return i < j && mask>>pairBit(i, j)&1 == 1 }
}

// ---------------------------------------------------------------- reference enumerations

func cp(a []int) []int { return append([]int{}, a...) }

// col collects objects in the order generated; with max > 0 generation stops after max objects
// (the generators below produce the documented order directly, so a prefix is a window).
type col struct {
	max int
	out [][]int
}

func (c *col) add(a []int) { c.out = append(c.out, cp(a)) }
func (c *col) full() bool  { return c.max > 0 && len(c.out) >= c.max }

// refProduct: lexicographic order.
func refProduct(n []int, max int) [][]int {
	c := &col{max: max}
	for _, v := range n {
		if v < 1 {
			return nil
		}
	}
	cur := make([]int, len(n))
	var rec func(i int)
	rec = func(i int) {
		if i == len(n) {
			c.add(cur)
			return
		}
		for v := 0; v < n[i] && !c.full(); v++ {
			cur[i] = v
			rec(i + 1)
		}
	}
	rec(0)
	return c.out
}

// refPrefixProduct: depth-first search with pruning (independent of filtering the product, with
// which it is compared on all small cases).
func refPrefixProduct(f func([]int) bool, n []int, max int) [][]int {
	c := &col{max: max}
	for _, v := range n {
		if v < 1 {
			return nil
		}
	}
	cur := make([]int, 0, len(n))
	var rec func()
	rec = func() {
		if len(cur) == len(n) {
			c.add(cur)
			return
		}
		i := len(cur)
		for v := 0; v < n[i] && !c.full(); v++ {
			cur = append(cur, v)
			if f(cur) {
				rec()
			}
			cur = cur[:i]
		}
	}
	rec()
	return c.out
}

func lexLess(a, b []int) bool {
	for i := 0; i < len(a) && i < len(b); i++ {
		if a[i] != b[i] {
			return a[i] < b[i]
		}
	}
	return len(a) < len(b)
}

func colexLess(a, b []int) bool {
	for i := len(a) - 1; i >= 0; i-- {
		if a[i] != b[i] {
			return a[i] < b[i]
		}
	}
	return false
}

// refComb: lexicographic order.
func refComb(n, k, max int) [][]int {
	c := &col{max: max}
	cur := make([]int, 0, k)
	var rec func(from int)
	rec = func(from int) {
		if len(cur) == k {
			c.add(cur)
			return
		}
		for v := from; v <= n-(k-len(cur)) && !c.full(); v++ {
			cur = append(cur, v)
			rec(v + 1)
			cur = cur[:len(cur)-1]
		}
	}
	rec(0)
	return c.out
}

// refCombColex: colexicographic order, generated directly: by largest element, then recursively.
func refCombColex(n, k, max int) [][]int {
	c := &col{max: max}
	cur := make([]int, k)
	var rec func(j, bound int) // fills cur[0..j-1] with the j-subsets of [0,bound) in colex order
	rec = func(j, bound int) {
		if j == 0 {
			c.add(cur)
			return
		}
		for m := j - 1; m < bound && !c.full(); m++ {
			cur[j-1] = m
			rec(j-1, m)
		}
	}
	rec(k, n)
	return c.out
}

// refMultiComb lists the frequency vectors v with 0 <= v[i] <= m[i] and sum k in
// colexicographic order (last coordinate most significant), generated directly; multiplicities
// are capped at k first so that huge ones (MaxInt) cost nothing and no sum overflows.
func refMultiComb(m []int, k, max int) [][]int {
	c := &col{max: max}
	cap := make([]int, len(m))
	pre := make([]int, len(m)+1) // pre[i] = sum of the capped multiplicities of 0..i-1
	for i, v := range m {
		cap[i] = v
		if v > k {
			cap[i] = k
		}
		pre[i+1] = pre[i] + cap[i]
	}
	cur := make([]int, len(m))
	var rec func(i, left int) // fills cur[0..i] with sum left
	rec = func(i, left int) {
		if i < 0 {
			if left == 0 {
				c.add(cur)
			}
			return
		}
		lo := left - pre[i]
		if lo < 0 {
			lo = 0
		}
		for x := lo; x <= cap[i] && x <= left && !c.full(); x++ {
			cur[i] = x
			rec(i-1, left-x)
		}
	}
	rec(len(m)-1, k)
	return c.out
}

func freqToMultiset(v []int) []int {
	r := []int{}
	for i, c := range v {
		for j := 0; j < c; j++ {
			r = append(r, i)
		}
	}
	return r
}

func ones(n int) []int {
	f := make([]int, n)
	for i := range f {
		f[i] = 1
	}
	return f
}

func refPerms(n, max int) [][]int { return refMultisetPerms(ones(n), max) }

// refMultisetPerms: lexicographic order.
func refMultisetPerms(freq []int, max int) [][]int {
	c := &col{max: max}
	left := cp(freq)
	total := 0
	for _, v := range freq {
		total += v
	}
	cur := make([]int, 0, total)
	var rec func()
	rec = func() {
		if len(cur) == total {
			c.add(cur)
			return
		}
		for v := 0; v < len(left) && !c.full(); v++ {
			if left[v] > 0 {
				left[v]--
				cur = append(cur, v)
				rec()
				cur = cur[:len(cur)-1]
				left[v]++
			}
		}
	}
	rec()
	return c.out
}

// refPrefixPerms: depth-first search over the prefixes of permutations with pruning; test
// receives the prefix (standardised when std is set).  Lexicographic order.
func refPrefixPerms(n int, f func([]int) bool, std bool, max int) [][]int {
	c := &col{max: max}
	used := make([]bool, n)
	cur := make([]int, 0, n)
	var rec func()
	rec = func() {
		if len(cur) == n {
			c.add(cur)
			return
		}
		for v := 0; v < n && !c.full(); v++ {
			if used[v] {
				continue
			}
			cur = append(cur, v)
			ok := false
			if std {
				ok = f(standardise(cur))
			} else {
				ok = f(cur)
			}
			if ok {
				used[v] = true
				rec()
				used[v] = false
			}
			cur = cur[:len(cur)-1]
		}
	}
	rec()
	return c.out
}

// refPatternTree: the depth-first search of the documentation of PermutationsByPattern (children
// of P: append x in {len(P), .., 0} and increase the entries >= x), pruned by f.  On small n it
// is checked against the property's definition (all standardised prefixes accepted).
func refPatternTree(n int, f func([]int) bool) [][]int {
	c := &col{}
	var rec func(p []int)
	rec = func(p []int) {
		if len(p) == n {
			c.add(p)
			return
		}
		for x := len(p); x >= 0; x-- {
			q := make([]int, len(p)+1)
			for i, v := range p {
				if v >= x {
					q[i] = v + 1
				} else {
					q[i] = v
				}
			}
			q[len(p)] = x
			if f(q) {
				rec(q)
			}
		}
	}
	rec([]int{})
	return c.out
}

// refLinearExtensions: the permutations in which i stands before j whenever less(i,j), by
// repeatedly choosing an element all of whose predecessors are placed.
func refLinearExtensions(n int, less func(i, j int) bool) [][]int {
	c := &col{}
	placed := make([]bool, n)
	cur := make([]int, 0, n)
	var rec func()
	rec = func() {
		if len(cur) == n {
			c.add(cur)
			return
		}
		for v := 0; v < n; v++ {
			if placed[v] {
				continue
			}
			ok := true
			for u := 0; u < v && ok; u++ {
				if !placed[u] && less(u, v) {
					ok = false
				}
			}
			if ok {
				placed[v] = true
				cur = append(cur, v)
				rec()
				cur = cur[:len(cur)-1]
				placed[v] = false
			}
		}
	}
	rec()
	return c.out
}

// refRGS lists the restricted growth strings of length n in lexicographic order.
func refRGS(n, max int) [][]int {
	c := &col{max: max}
	cur := make([]int, n)
	var rec func(i, mx int)
	rec = func(i, mx int) {
		if i == n {
			c.add(cur)
			return
		}
		for v := 0; v <= mx+1 && !c.full(); v++ {
			cur[i] = v
			nm := mx
			if v > mx {
				nm = v
			}
			rec(i+1, nm)
		}
	}
	if n > 0 {
		cur[0] = 0
		rec(1, 0)
	}
	return c.out
}

func rgsToBlocks(r []int) string {
	mx := -1
	for _, v := range r {
		if v > mx {
			mx = v
		}
	}
	bl := make([][]string, mx+1)
	for i, v := range r {
		bl[v] = append(bl[v], strconv.Itoa(i))
	}
	s := make([]string, len(bl))
	for i, b := range bl {
		s[i] = strings.Join(b, ".")
	}
	return strings.Join(s, "|")
}

// refIntParts lists the partitions of n (non-increasing positive parts) in reverse
// lexicographic order.
func refIntParts(n, max int) [][]int {
	c := &col{max: max}
	cur := []int{}
	var rec func(left, mx int)
	rec = func(left, mx int) {
		if left == 0 {
			c.add(cur)
			return
		}
		for v := min(left, mx); v >= 1 && !c.full(); v-- {
			cur = append(cur, v)
			rec(left-v, v)
			cur = cur[:len(cur)-1]
		}
	}
	rec(n, n)
	return c.out
}

func min(a, b int) int {
	if a < b {
		return a
	}
	return b
}

func allPrefixesOK(f func([]int) bool, a []int) bool {
	for l := 1; l <= len(a); l++ {
		if !f(a[:l]) {
			return false
		}
	}
	return true
}

// standardise returns the pattern of a: the permutation of 0..len-1 with the same relative order.
func standardise(a []int) []int {
	r := make([]int, len(a))
	for i, v := range a {
		for _, w := range a {
			if w < v {
				r[i]++
			}
		}
	}
	return r
}

func allPatternsOK(f func([]int) bool, a []int) bool {
	for l := 1; l <= len(a); l++ {
		if !f(standardise(a[:l])) {
			return false
		}
	}
	return true
}

func respects(less func(i, j int) bool, a []int) bool {
	pos := make([]int, len(a))
	for p, v := range a {
		pos[v] = p
	}
	for i := range a {
		for j := i + 1; j < len(a); j++ {
			if less(i, j) && pos[i] > pos[j] {
				return false
			}
		}
	}
	return true
}

func filter(all [][]int, keep func([]int) bool) [][]int {
	out := [][]int{}
	for _, a := range all {
		if keep(a) {
			out = append(out, a)
		}
	}
	return out
}

func sameLists(a, b [][]int) bool {
	if len(a) != len(b) {
		return false
	}
	for i := range a {
		if tup(a[i]) != tup(b[i]) {
			return false
		}
	}
	return true
}

// ---------------------------------------------------------------- draining

func tup(a []int) string {
	if len(a) == 0 {
		return "e"
	}
	var sb strings.Builder
	for i, v := range a {
		if i > 0 {
			sb.WriteByte('.')
		}
		sb.WriteString(strconv.Itoa(v))
	}
	return sb.String()
}

type drained struct {
	vals  []string // formatted values in the order produced (with a call pattern: "<step>=<value>" of the observed steps)
	steps int      // number of calls of Next that returned true
	tail string   // results of the three calls after the first false; "WIN" when the window was filled; "OVER" if the cap was hit
}

// callPat is the API call pattern of the case being executed ("" = Value after every Next):
//   kJ     Value only after every J-th successful Next
//   rSEED  Value only after a pseudo random half of the steps
//   d      Value twice in a row after every step (both results must agree)
//   n      Value never called
//   w      Value after every step and the returned slice overwritten by the caller afterwards
//          (only where the documentation allows modifying it: MultisetCombinations, Partitions)
//   t      Value after every step and 300 further calls of Next after exhaustion
// observe gives the number of Value calls after step i (0-based).
var callPat string

func observe(pat string, i int) int {
	switch pat[0] {
	case 'k':
		if (i+1)%atoi(pat[1:]) == 0 {
			return 1
		}
		return 0
	case 'r':
		h := uint64(atoi(pat[1:])) & 0x7fffffff
		h = (h*1103515245 + 12345 + uint64(i+1)*7919) & 0x7fffffff
		h = (h*1103515245 + 12345) & 0x7fffffff
		return int(h>>12) & 1
	case 'd':
		return 2
	case 'n':
		return 0
	case 'w', 't':
		return 1
	}
	panic("bad call pattern " + pat)
}

// drain calls next until it returns false, the window (if > 0) is filled, or more than limit
// values were produced (an iterator that does not stop), formatting a copy of the value at each
// step; unless the window was filled it then calls next three more times.  With a call pattern
// the values are observed only at the steps the pattern selects and recorded as "<step>=<value>".
func drain(next func() bool, value func() string, limit, window int) drained {
	var d drained
	for next() {
		if callPat == "" {
			d.vals = append(d.vals, value())
		} else {
			switch observe(callPat, d.steps) {
			case 1:
				d.vals = append(d.vals, fmt.Sprintf("%d=%s", d.steps, value()))
			case 2:
				v1 := value()
				v2 := value()
				if v1 != v2 {
					v1 += "!=" + v2
				}
				d.vals = append(d.vals, fmt.Sprintf("%d=%s", d.steps, v1))
			}
		}
		d.steps++
		if window > 0 && d.steps == window {
			d.tail = "WIN"
			return d
		}
		if d.steps > limit {
			d.tail = "OVER"
			return d
		}
	}
	for i := 0; i < 3; i++ {
		if next() {
			d.tail += "T"
		} else {
			d.tail += "F"
		}
	}
	if callPat == "t" {
		for i := 0; i < 300; i++ {
			if next() {
				d.tail = fmt.Sprintf("T@%d", i+3)
				break
			}
		}
	}
	return d
}

func obsOf(vals []string, tail string) string {
	if tail == "WIN" {
		return fmt.Sprintf("%d+:%s;WIN", len(vals), strings.Join(vals, "/"))
	}
	return fmt.Sprintf("%d:%s;%s", len(vals), strings.Join(vals, "/"), tail)
}

func tups(ref [][]int) []string {
	s := make([]string, len(ref))
	for i, a := range ref {
		s[i] = tup(a)
	}
	return s
}

func sortedStrings(a []string) []string {
	b := append([]string{}, a...)
	sort.Strings(b)
	return b
}

func firstDiff(a, b []string) string {
	for i := 0; i < len(a) || i < len(b); i++ {
		x, y := "<none>", "<none>"
		if i < len(a) {
			x = a[i]
		}
		if i < len(b) {
			y = b[i]
		}
		if x != y {
			return fmt.Sprintf("position %d: got %s want %s", i, clip(x), clip(y))
		}
	}
	return "equal"
}

func clip(s string) string {
	if len(s) > 120 {
		return s[:120] + ".."
	}
	return s
}

func atoi(s string) int {
	v, err := strconv.Atoi(s)
	if err != nil {
		panic("bad integer " + s)
	}
	return v
}

func atois(s []string) []int {
	r := make([]int, len(s))
	for i := range s {
		r[i] = atoi(s[i])
	}
	return r
}

func isPerm(a []int) bool {
	seen := make([]bool, len(a))
	for _, v := range a {
		if v < 0 || v >= len(a) || seen[v] {
			return false
		}
		seen[v] = true
	}
	return true
}

func maxOf(a []int) int {
	m := 0
	for _, v := range a {
		if v > m {
			m = v
		}
	}
	return m
}

// smallSpace: the parameters are small enough for the reference that filters the whole
// unrestricted enumeration (kept as the primary reference there; the pruned search is checked
// against it).
const smallPerm = 8

// mkIter constructs the iterator of an (ordered, window-free) case and returns its Next and a
// formatter of a copy of its Value; used for the interleaved pairs.
func mkIter(f []string) (func() bool, func() string) {
	switch f[0] {
	case "product":
		it := itertools.Product(atois(f[1:])...)
		return it.Next, func() string { return tup(it.Value()) }
	case "comb":
		it := itertools.Combinations(atoi(f[1]), atoi(f[2]))
		return it.Next, func() string { return tup(it.Value()) }
	case "colex":
		it := itertools.CombinationsColex(atoi(f[1]), atoi(f[2]))
		return it.Next, func() string { return tup(it.Value()) }
	case "mcomb":
		it := itertools.MultisetCombinations(atois(f[2:]), atoi(f[1]))
		return it.Next, func() string { return tup(it.Value()) }
	case "lexperm":
		it := itertools.LexicographicPermutations(atoi(f[1]))
		return it.Next, func() string { return tup(it.Value()) }
	case "mperm":
		it := itertools.MultisetPermutations(atois(f[1:]))
		return it.Next, func() string { return tup(it.Value()) }
	case "intparts":
		it := itertools.IntegerPartitions(atoi(f[1]))
		return it.Next, func() string { return tup(it.Value()) }
	case "parts":
		it := itertools.Partitions(atoi(f[1]))
		return it.Next, func() string {
			p := it.Value()
			bl := make([]string, len(p))
			for i, b := range p {
				bl[i] = strings.ReplaceAll(tup(b), "e", "")
			}
			return strings.Join(bl, "|")
		}
	case "rpprod":
		it := itertools.RestrictedPrefixProduct(parsePred(f[1]), atois(f[2:])...)
		return it.Next, func() string { return tup(it.Value()) }
	case "rpperm":
		it := itertools.RestrictedPrefixPermutations(atoi(f[2]), parsePred(f[1]))
		return it.Next, func() string { return tup(it.Value()) }
	}
	panic("mkIter: " + f[0])
}

// execPair: two iterators alive at the same time, their calls of Next interleaved; each must
// behave exactly as when run alone (no state shared between iterator objects).
func execPair(line string) hx.Result {
	parts := strings.SplitN(strings.TrimPrefix(line, "il "), " ;; ", 2)
	ra, rb := exec(parts[0]), exec(parts[1])
	res := hx.Result{Obs: ra.Obs + " && " + rb.Obs, Nontrivial: ra.Nontrivial || rb.Nontrivial}
	res.Viol = append(res.Viol, ra.Viol...)
	res.Viol = append(res.Viol, rb.Viol...)
	res.Buckets = []string{"interleaved-pair", "pair:" + strings.Fields(parts[0])[0] + "+" + strings.Fields(parts[1])[0]}
	nA, vA := mkIter(strings.Fields(parts[0]))
	nB, vB := mkIter(strings.Fields(parts[1]))
	var sa, sb []string
	doneA, doneB := 0, 0 // number of false results seen
	for steps := 0; (doneA < 4 || doneB < 4) && steps < 200000; steps++ {
		if doneA < 4 {
			if nA() {
				sa = append(sa, vA())
				if doneA > 0 {
					sa = append(sa, "<true after false>")
				}
			} else {
				doneA++
			}
		}
		if doneB < 4 {
			if nB() {
				sb = append(sb, vB())
				if doneB > 0 {
					sb = append(sb, "<true after false>")
				}
			} else {
				doneB++
			}
		}
	}
	wantA := fmt.Sprintf("%d:%s;FFF", len(sa), strings.Join(sa, "/"))
	wantB := fmt.Sprintf("%d:%s;FFF", len(sb), strings.Join(sb, "/"))
	if wantA != ra.Obs {
		res.Viol = append(res.Viol, hx.Fail("C15:pair", "interleaved with [%s] the iterator [%s] yields %s, alone %s", parts[1], parts[0], clip(wantA), clip(ra.Obs)))
	}
	if wantB != rb.Obs {
		res.Viol = append(res.Viol, hx.Fail("C15:pair", "interleaved with [%s] the iterator [%s] yields %s, alone %s", parts[0], parts[1], clip(wantB), clip(rb.Obs)))
	}
	return res
}

// slicesOf returns the index range of the slice-valued arguments of a case (the integers after
// the scalar ones), or -1.
func sliceArgStart(f []string) int {
	switch f[0] {
	case "product", "mperm":
		return 1
	case "mcomb", "rpprod":
		return 2
	}
	return -1
}

// mkIterOn is mkIter for the constructors that take a slice, with the slice supplied by the caller.
func mkIterOn(f []string, sl []int) (func() bool, func() string) {
	switch f[0] {
	case "product":
		it := itertools.Product(sl...)
		return it.Next, func() string { return tup(it.Value()) }
	case "mperm":
		it := itertools.MultisetPermutations(sl)
		return it.Next, func() string { return tup(it.Value()) }
	case "mcomb":
		it := itertools.MultisetCombinations(sl, atoi(f[1]))
		return it.Next, func() string { return tup(it.Value()) }
	case "rpprod":
		it := itertools.RestrictedPrefixProduct(parsePred(f[1]), sl...)
		return it.Next, func() string { return tup(it.Value()) }
	}
	panic("mkIterOn: " + f[0])
}

func drainAll(next func() bool, value func() string, steps int) ([]string, bool) {
	var out []string
	for i := 0; steps < 0 || i < steps; i++ {
		if !next() {
			return out, true
		}
		out = append(out, value())
		if len(out) > 300000 {
			return out, true
		}
	}
	return out, false
}

func soloObs(vals []string) string { return fmt.Sprintf("%d:%s;FFF", len(vals), strings.Join(vals, "/")) }

// execShared: "sh <case>" (two iterators of the same case) or "sh mcomb k1 k2 m.." built on ONE
// caller-owned slice, run with a hand-off (A three steps, B completely, A to the end, three more
// calls each); "sc <case>": the caller overwrites its slice right after the constructor returned
// (Product and RestrictedPrefixProduct, which copy their factors for that purpose).  Each
// iterator must yield what it yields alone on a private slice.
func execShared(line string) hx.Result {
	f := strings.Fields(line)
	kind := f[0]
	f = f[1:]
	fa, fb := f, f
	if f[0] == "mcomb" && kind == "sh" {
		fa = append([]string{"mcomb", f[1]}, f[3:]...)
		fb = append([]string{"mcomb", f[2]}, f[3:]...)
	}
	ra := exec(strings.Join(fa, " "))
	res := hx.Result{Obs: ra.Obs, Nontrivial: true, Viol: ra.Viol, Buckets: []string{"input-aliasing", "input-aliasing:" + kind + ":" + f[0]}}
	st := sliceArgStart(fa)
	sl := atois(fa[st:])
	orig := cp(sl)
	if kind == "sc" {
		next, value := mkIterOn(fa, sl)
		for i := range sl {
			sl[i] = []int{0, -1, 7, maxInt}[i%4]
		}
		vals, _ := drainAll(next, value, -1)
		for i := 0; i < 3; i++ {
			if next() {
				vals = append(vals, "<true after false>")
			}
		}
		if got := soloObs(vals); got != ra.Obs {
			res.Viol = append(res.Viol, hx.Fail("C15:input-aliasing", "[%s]: after the caller overwrote the slice it had passed to the constructor the iterator yields %s, otherwise %s", strings.Join(fa, " "), clip(got), clip(ra.Obs)))
		}
		return res
	}
	rb := exec(strings.Join(fb, " "))
	res.Obs = ra.Obs + " && " + rb.Obs
	res.Viol = append(res.Viol, rb.Viol...)
	nA, vA := mkIterOn(fa, sl)
	nB, vB := mkIterOn(fb, sl)
	a1, doneA := drainAll(nA, vA, 3)
	b1, _ := drainAll(nB, vB, -1)
	if !doneA {
		a2, _ := drainAll(nA, vA, -1)
		a1 = append(a1, a2...)
	}
	for i := 0; i < 3; i++ {
		if nA() {
			a1 = append(a1, "<true after false>")
		}
		if nB() {
			b1 = append(b1, "<true after false>")
		}
	}
	if got := soloObs(a1); got != ra.Obs {
		res.Viol = append(res.Viol, hx.Fail("C15:input-aliasing", "[%s] sharing its input slice with [%s] yields %s, alone %s", strings.Join(fa, " "), strings.Join(fb, " "), clip(got), clip(ra.Obs)))
	}
	if got := soloObs(b1); got != rb.Obs {
		res.Viol = append(res.Viol, hx.Fail("C15:input-aliasing", "[%s] sharing its input slice with [%s] yields %s, alone %s", strings.Join(fb, " "), strings.Join(fa, " "), clip(got), clip(rb.Obs)))
	}
	if tup(sl) != tup(orig) {
		res.Viol = append(res.Viol, hx.Fail("C15:input-aliasing", "[%s]: the caller's slice %v was changed to %v", strings.Join(fa, " "), orig, sl))
	}
	return res
}

// execAfterPanic: "ap <case>": a constructor that panics by design, a predicate and an order
// relation that panic in the middle of a run are provoked and recovered, then the case is run
// and judged as in a fresh process.
func execAfterPanic(line string) hx.Result {
	provoke := func(g func()) {
		defer func() { recover() }()
		g()
	}
	provoke(func() { itertools.Partitions(0) })
	provoke(func() {
		c := 0
		it := itertools.RestrictedPrefixPermutations(5, func(a []int) bool {
			c++
			if c == 40 {
				panic("user predicate gives up")
			}
			return true
		})
		for it.Next() {
		}
	})
	provoke(func() {
		c := 0
		it := itertools.RestrictedPrefixProduct(func(a []int) bool {
			c++
			if c == 17 {
				panic("user predicate gives up")
			}
			return a[len(a)-1] != 1
		}, 3, 3, 3)
		for it.Next() {
		}
	})
	provoke(func() {
		c := 0
		it := itertools.PermutationsByPattern(5, func(a []int) bool {
			c++
			if c == 33 {
				panic("user predicate gives up")
			}
			return true
		})
		for it.Next() {
		}
	})
	provoke(func() {
		c := 0
		it := itertools.TopologicalSorts(5, func(i, j int) bool {
			c++
			if c == 21 {
				panic("user relation gives up")
			}
			return false
		})
		for it.Next() {
		}
	})
	res := exec(strings.TrimPrefix(line, "ap "))
	res.Buckets = append(res.Buckets, "after-recovered-panics")
	return res
}

// execCallback: "cb A ;; B": A is predicate-driven; every call of its predicate advances the
// independent iterator B by one step.  Both must yield what they yield alone.
func execCallback(line string) hx.Result {
	parts := strings.SplitN(strings.TrimPrefix(line, "cb "), " ;; ", 2)
	ra, rb := exec(parts[0]), exec(parts[1])
	res := hx.Result{Obs: ra.Obs + " && " + rb.Obs, Nontrivial: true, Buckets: []string{"iterator-driven-from-callback"}}
	res.Viol = append(append(res.Viol, ra.Viol...), rb.Viol...)
	nB, vB := mkIter(strings.Fields(parts[1]))
	var sb []string
	doneB := 0
	stepB := func() {
		if doneB >= 4 {
			return
		}
		if nB() {
			sb = append(sb, vB())
			if doneB > 0 {
				sb = append(sb, "<true after false>")
			}
		} else {
			doneB++
		}
	}
	fa := strings.Fields(parts[0])
	p := parsePred(fa[1])
	wrapped := func(a []int) bool { stepB(); return p(a) }
	var nA func() bool
	var vA func() string
	switch fa[0] {
	case "rpprod":
		it := itertools.RestrictedPrefixProduct(wrapped, atois(fa[2:])...)
		nA, vA = it.Next, func() string { return tup(it.Value()) }
	case "rpperm":
		it := itertools.RestrictedPrefixPermutations(atoi(fa[2]), wrapped)
		nA, vA = it.Next, func() string { return tup(it.Value()) }
	default:
		panic("cb: " + fa[0])
	}
	sa, _ := drainAll(nA, vA, -1)
	for i := 0; i < 3; i++ {
		if nA() {
			sa = append(sa, "<true after false>")
		}
	}
	for doneB < 4 && len(sb) < 300000 {
		stepB()
	}
	if got := soloObs(sa); got != ra.Obs {
		res.Viol = append(res.Viol, hx.Fail("C15:callback", "[%s] whose predicate drives [%s] yields %s, alone %s", parts[0], parts[1], clip(got), clip(ra.Obs)))
	}
	if got := soloObs(sb); got != rb.Obs {
		res.Viol = append(res.Viol, hx.Fail("C15:callback", "[%s] driven from the predicate of [%s] yields %s, alone %s", parts[1], parts[0], clip(got), clip(rb.Obs)))
	}
	return res
}

func exec(line string) hx.Result {
	switch {
	case strings.HasPrefix(line, "il "):
		return execPair(line)
	case strings.HasPrefix(line, "sh "), strings.HasPrefix(line, "sc "):
		return execShared(line)
	case strings.HasPrefix(line, "ap "):
		return execAfterPanic(line)
	case strings.HasPrefix(line, "cb "):
		return execCallback(line)
	}
	f := strings.Fields(line)
	name := f[0]
	window := 0
	callPat = ""
	if last := f[len(f)-1]; last[0] == '%' {
		callPat = last[1:]
		f = f[:len(f)-1]
	}
	defer func() { callPat = "" }()
	if last := f[len(f)-1]; last[0] == '@' {
		window = atoi(last[1:])
		f = f[:len(f)-1]
	}
	var res hx.Result
	var d drained
	var ref []string // the advertised family in the documented order (sorted when unordered); its first `window` members when a window is set
	ordered := true
	boundary := false
	objLen := 0 // length of the objects, for the size histogram
	extreme := false
	fail := func(format string, a ...interface{}) {
		if len(res.Viol) < 3 {
			res.Viol = append(res.Viol, hx.Fail("C15:"+name, name+": "+format, a...))
		}
	}
	lim := func(r int) int { return r + 2 }
	const big = 1 << 40
	switch name {
	case "product":
		n := atois(f[1:])
		r := refProduct(n, window)
		it := itertools.Product(n...)
		d = drain(it.Next, func() string { return tup(it.Value()) }, lim(len(r)), window)
		ref = tups(r)
		boundary = len(n) <= 1
		for _, v := range n {
			boundary = boundary || v == 0
		}
		objLen = len(n)
		extreme = maxOf(n) > big
	case "comb", "colex":
		n, k := atoi(f[1]), atoi(f[2])
		var r [][]int
		if name == "comb" {
			r = refComb(n, k, window)
			it := itertools.Combinations(n, k)
			d = drain(it.Next, func() string { return tup(it.Value()) }, lim(len(r)), window)
		} else {
			r = refCombColex(n, k, window)
			it := itertools.CombinationsColex(n, k)
			d = drain(it.Next, func() string { return tup(it.Value()) }, lim(len(r)), window)
		}
		ref = tups(r)
		boundary = n <= 1 || k == 0 || k == n || k == n+1
		objLen = k
		extreme = n > big
	case "mcomb":
		k := atoi(f[1])
		m := atois(f[2:])
		r := refMultiComb(m, k, window)
		for _, v := range r {
			ref = append(ref, tup(freqToMultiset(v)))
		}
		it := itertools.MultisetCombinations(cp(m), k)
		d = drain(it.Next, func() string {
			raw := it.Value()
			v := cp(raw)
			fr := it.FreqValue()
			if tup(freqToMultiset(fr)) != tup(v) || len(fr) != len(m) {
				fail("FreqValue %v does not describe Value %v", fr, v)
			}
			if callPat == "w" {
				for i := range raw { // "You may modify the return value."
					raw[i] = -7 - i
				}
			}
			return tup(v)
		}, lim(len(r)), window)
		boundary = len(m) <= 1 || k == 0
		s := 0
		for _, v := range m {
			boundary = boundary || v == 0
			if v > big || s > big {
				s = big + 1
			} else {
				s += v
			}
		}
		boundary = boundary || k == s || k == s+1
		objLen = len(m)
		extreme = maxOf(m) > big
	case "heap", "lexperm":
		n := atoi(f[1])
		objLen = n
		if name == "heap" {
			ordered = false
			it := itertools.Permutations(n)
			if window > 0 {
				// no order is documented: a window can only be checked for "distinct permutations"
				seen := map[string]bool{}
				d = drain(it.Next, func() string {
					v := it.Value()
					s := tup(v)
					if len(v) != n || !isPerm(v) {
						fail("value %s is not a permutation of 0..%d", clip(s), n-1)
					}
					if seen[s] {
						fail("value %s is produced twice", clip(s))
					}
					seen[s] = true
					return s
				}, window+2, window)
				if d.tail != "WIN" {
					fail("exhausted after %d of %d! permutations", len(d.vals), n)
				}
				res.Obs = fmt.Sprintf("%d+:;WIN ## %s", len(d.vals), strings.Join(d.vals, "/"))
				res.Nontrivial = true
				res.Buckets = []string{name, name + ":window", sizeBucket(objLen)}
				return res
			}
			r := refPerms(n, 0)
			ref = tups(r)
			d = drain(it.Next, func() string { return tup(it.Value()) }, lim(len(r)), 0)
		} else {
			r := refPerms(n, window)
			ref = tups(r)
			it := itertools.LexicographicPermutations(n)
			d = drain(it.Next, func() string { return tup(it.Value()) }, lim(len(r)), window)
		}
		boundary = n <= 1
	case "mperm":
		fr := atois(f[1:])
		r := refMultisetPerms(fr, window)
		ref = tups(r)
		it := itertools.MultisetPermutations(cp(fr))
		d = drain(it.Next, func() string { return tup(it.Value()) }, lim(len(r)), window)
		boundary = len(fr) <= 1
		for _, v := range fr {
			boundary = boundary || v == 0
			objLen += v
		}
	case "parts":
		n := atoi(f[1])
		for _, g := range refRGS(n, window) {
			ref = append(ref, rgsToBlocks(g))
		}
		it := itertools.Partitions(n)
		d = drain(it.Next, func() string {
			p := it.Value()
			bl := make([]string, len(p))
			for i, b := range p {
				bl[i] = strings.ReplaceAll(tup(b), "e", "")
			}
			if callPat == "w" { // "It is safe to modify the output"
				for i := range p {
					for j := range p[i] {
						p[i][j] = -7
					}
					p[i] = nil
				}
			}
			return strings.Join(bl, "|")
		}, lim(len(ref)), window)
		boundary = n <= 1
		objLen = n
	case "intparts":
		n := atoi(f[1])
		r := refIntParts(n, window)
		ref = tups(r)
		it := itertools.IntegerPartitions(n)
		d = drain(it.Next, func() string { return tup(it.Value()) }, lim(len(r)), window)
		boundary = n <= 1
		objLen = n
	case "rpprod":
		p := parsePred(f[1])
		n := atois(f[2:])
		r := refPrefixProduct(p, n, window)
		size := 1
		for _, v := range n {
			if v > 0 && size <= 5000 {
				size *= v
			} else if v <= 0 {
				size = 0
			}
		}
		if window == 0 && size <= 5000 {
			// small: the defining reference is the filter of the unrestricted enumeration
			r2 := filter(refProduct(n, 0), func(a []int) bool { return allPrefixesOK(p, a) })
			if !sameLists(r, r2) {
				panic("harness: the pruned search disagrees with filtering the product")
			}
		}
		ref = tups(r)
		it := itertools.RestrictedPrefixProduct(p, n...)
		d = drain(it.Next, func() string { return tup(it.Value()) }, lim(len(r)), window)
		boundary = len(n) <= 1
		for _, v := range n {
			boundary = boundary || v == 0
		}
		objLen = len(n)
		extreme = maxOf(n) > big
	case "rpperm":
		p := parsePred(f[1])
		n := atoi(f[2])
		r := refPrefixPerms(n, p, false, window)
		if window == 0 && n <= smallPerm {
			r2 := filter(refPerms(n, 0), func(a []int) bool { return allPrefixesOK(p, a) })
			if !sameLists(r, r2) {
				panic("harness: the pruned search disagrees with filtering the permutations")
			}
		}
		ref = tups(r)
		it := itertools.RestrictedPrefixPermutations(n, p)
		d = drain(it.Next, func() string { return tup(it.Value()) }, lim(len(r)), window)
		boundary = n <= 1
		objLen = n
	case "pattern":
		p := parsePred(f[1])
		n := atoi(f[2])
		r := refPatternTree(n, p)
		if n <= smallPerm {
			r2 := filter(refPerms(n, 0), func(a []int) bool { return allPatternsOK(p, a) })
			if strings.Join(sortedStrings(tups(r)), "/") != strings.Join(sortedStrings(tups(r2)), "/") {
				panic("harness: the pruned search disagrees with filtering the permutations")
			}
		}
		ref = tups(r)
		ordered = false
		it := itertools.PermutationsByPattern(n, p)
		d = drain(it.Next, func() string { return tup(it.Value()) }, lim(len(r)), 0)
		boundary = n <= 1
		objLen = n
	case "topo":
		less := parseLess(f[1])
		n := atoi(f[2])
		r := refLinearExtensions(n, less)
		if n <= smallPerm {
			r2 := filter(refPerms(n, 0), func(a []int) bool { return respects(less, a) })
			if !sameLists(r, r2) {
				panic("harness: the linear extensions disagree with filtering the permutations")
			}
		}
		ref = tups(r)
		ordered = false
		it := itertools.TopologicalSorts(n, less)
		d = drain(it.Next, func() string {
			v := cp(it.Value())
			inv := it.InverseValue()
			ok := len(inv) == len(v)
			for i := 0; ok && i < len(v); i++ {
				ok = v[i] >= 0 && v[i] < len(v) && inv[v[i]] == i
			}
			if !ok {
				fail("InverseValue %v is not the inverse of Value %v", inv, v)
			}
			return tup(v)
		}, lim(len(r)), 0)
		boundary = n <= 1
		objLen = n
	default:
		panic("unknown iterator " + name)
	}

	if callPat != "" {
		// expected at every observed step: the object the family has at that step (ordered
		// iterators); for the iterators without a documented order: a member, never twice
		if d.steps != len(ref) {
			fail("call pattern %s: %d successful calls of Next, the family has %d objects", callPat, d.steps, len(ref))
		}
		member := map[string]bool{}
		for _, r := range ref {
			member[r] = true
		}
		seen := map[string]bool{}
		for _, e := range d.vals {
			eq := strings.IndexByte(e, '=')
			i, v := atoi(e[:eq]), e[eq+1:]
			if ordered {
				if i >= len(ref) || ref[i] != v {
					w := "<none>"
					if i < len(ref) {
						w = ref[i]
					}
					fail("call pattern %s: Value at step %d is %s, the object of that step is %s", callPat, i, clip(v), clip(w))
				}
			} else if !member[v] || seen[v] {
				fail("call pattern %s: Value at step %d is %s: not a member of the family or seen before", callPat, i, clip(v))
			}
			seen[v] = true
		}
		if d.tail != "FFF" {
			fail("after exhaustion the further calls gave %s", d.tail)
		}
		if ordered {
			res.Obs = fmt.Sprintf("%d:%s;%s", d.steps, strings.Join(d.vals, "/"), d.tail)
		} else {
			res.Obs = fmt.Sprintf("%d:;%s ## %s", d.steps, d.tail, strings.Join(d.vals, "/"))
		}
		res.Nontrivial = len(ref) >= 2
		res.Buckets = []string{name, "call-pattern:" + callPat[:1], name + ":call-pattern"}
		return res
	}
	got := d.vals
	if !ordered {
		got = sortedStrings(d.vals)
		ref = sortedStrings(ref)
	}
	if len(got) != len(ref) || firstDiff(got, ref) != "equal" {
		fail("yielded %d objects, the family%s has %d; %s", len(got), map[bool]string{true: " (first objects, window)", false: ""}[window > 0], len(ref), firstDiff(got, ref))
	}
	if d.tail != "FFF" && d.tail != "WIN" {
		fail("after exhaustion the further calls gave %s", d.tail)
	}
	if ordered {
		res.Obs = obsOf(d.vals, d.tail)
	} else {
		res.Obs = obsOf(got, d.tail) + " ## " + strings.Join(d.vals, "/")
	}
	res.Nontrivial = len(ref) >= 2 || boundary
	res.Buckets = []string{name, fmt.Sprintf("%s:objects<=%d", name, bucket(len(ref))), sizeBucket(objLen)}
	if window > 0 {
		res.Buckets = append(res.Buckets, name+":window")
	}
	if extreme {
		res.Buckets = append(res.Buckets, "extreme-values")
	}
	return res
}

func bucket(n int) int {
	b := 1
	for b < n {
		b *= 4
	}
	return b
}

func sizeBucket(l int) string {
	switch {
	case l <= 8:
		return "object-length<=8"
	case l <= 16:
		return "object-length<=16"
	case l <= 32:
		return "object-length<=32"
	case l <= 64:
		return "object-length<=64"
	}
	return "object-length>64"
}

// ---------------------------------------------------------------- generation

func ints(a []int) string {
	s := make([]string, len(a))
	for i, v := range a {
		s[i] = strconv.Itoa(v)
	}
	return strings.Join(s, " ")
}

// lists calls f on every list of the given length with entries in [lo,hi].
func lists(length, lo, hi int, f func([]int)) {
	cur := make([]int, length)
	var rec func(i int)
	rec = func(i int) {
		if i == length {
			f(cp(cur))
			return
		}
		for v := lo; v <= hi; v++ {
			cur[i] = v
			rec(i + 1)
		}
	}
	rec(0)
}

func sum(a []int) int {
	s := 0
	for _, v := range a {
		s += v
	}
	return s
}

func prodSize(a []int) int {
	s := 1
	for _, v := range a {
		s *= v
	}
	return s
}

// namedMasks are the fixed sub-orders of 0<1<..<n-1 used for every n.
func namedMasks(n int) []uint64 {
	rel := func(f func(i, j int) bool) uint64 {
		var m uint64
		for j := 0; j < n; j++ {
			for i := 0; i < j; i++ {
				if f(i, j) {
					m |= 1 << pairBit(i, j)
				}
			}
		}
		return m
	}
	return []uint64{
		rel(func(i, j int) bool { return false }),                    // antichain: all permutations
		rel(func(i, j int) bool { return true }),                     // total order: identity only
		rel(func(i, j int) bool { return j == i+1 }),                 // chain given by covers only (not transitive)
		rel(func(i, j int) bool { return i == 0 }),                   // 0 below everything
		rel(func(i, j int) bool { return j == n-1 }),                 // n-1 above everything
		rel(func(i, j int) bool { return j-i >= 2 }),                 // all but the covers
		rel(func(i, j int) bool { return i%2 == 0 && j%2 == 1 }),     // evens below larger odds
		rel(func(i, j int) bool { return j == 2*i+1 || j == 2*i+2 }), // heap-ordered tree (covers only)
		rel(func(i, j int) bool { return i%2 == j%2 }),               // two chains by parity
		rel(func(i, j int) bool { return i == 0 && j == n-1 }),       // one constraint
		rel(func(i, j int) bool { return j == i+2 }),                 // two interleaved chains, covers only
		rel(func(i, j int) bool { return i < n/2 && j >= n/2 }),      // complete bipartite: low half below high half
	}
}

func transitiveClosure(n int, m uint64) uint64 {
	for k := 0; k < n; k++ {
		for i := 0; i < k; i++ {
			for j := k + 1; j < n; j++ {
				if m>>pairBit(i, k)&1 == 1 && m>>pairBit(k, j)&1 == 1 {
					m |= 1 << pairBit(i, j)
				}
			}
		}
	}
	return m
}

func gen(g *hx.Gen) {
	r := g.Rng
	N := g.Pick(7, 8) // the size bound n of the exhaustive spaces

	// corpus: the boundary inputs on which the pinned tree failed (KNOWN_FINDINGS `fixed:` lines)
	for _, c := range []string{
		"colex 2 3", "colex 0 1", "colex 3 3", "mcomb 0 2 1", "mcomb 2 0 2 0", "mcomb 1", "mcomb 0", "mcomb 5 1 1",
		"parts 1", "intparts 0", "lexperm 0", "mperm", "mperm 0 0", "topo m0 0", "topo m5 3", "rpperm p0 0", "rpperm p0 3",
		"product", "product 0", "product 1 0 1", "rpprod p0", "rpprod p1", "rpprod p0 1 0 1", "pattern p0 0", "heap 0",
	} {
		g.Emit(c)
	}

	// Product: all factor lists of length <= 4 over 0..3, length <= 3 over 0..N, and all 0/1/2 lists up to length N
	for l := 0; l <= 4; l++ {
		lists(l, 0, 3, func(a []int) { g.Emit("product " + ints(a)) })
	}
	for l := 1; l <= 3; l++ {
		lists(l, 0, N, func(a []int) {
			if prodSize(a) <= 400 {
				g.Emit("product " + ints(a))
			}
		})
	}
	for l := 5; l <= N; l++ {
		lists(l, 0, 2, func(a []int) {
			if prodSize(a) > 0 || sum(a) >= 2*l-2 {
				g.Emit("product " + ints(a))
			}
		})
	}
	g.Exhaustive(fmt.Sprintf("Product: all factor lists of length <= 4 over 0..3; length <= 3 over 0..%d with at most 400 tuples; length 5..%d over 0..2 (lists with a zero only when at most one other factor is below 2)", N, N))

	// Combinations, CombinationsColex: all n <= N+2, k <= n+2
	for n := 0; n <= N+2; n++ {
		for k := 0; k <= n+2; k++ {
			g.Emit(fmt.Sprintf("comb %d %d", n, k))
			g.Emit(fmt.Sprintf("colex %d %d", n, k))
		}
	}
	g.Exhaustive(fmt.Sprintf("Combinations, CombinationsColex: all 0 <= n <= %d, 0 <= k <= n+2", N+2))

	// MultisetCombinations: all multiplicity lists of length <= 4 over 0..3 (length 5 over 0..2), every k <= sum+2
	for l := 0; l <= 5; l++ {
		hi := 3
		if l == 5 {
			hi = 2
		}
		lists(l, 0, hi, func(m []int) {
			for k := 0; k <= sum(m)+2; k++ {
				g.Emit(fmt.Sprintf("mcomb %d %s", k, ints(m)))
			}
		})
	}
	g.Exhaustive("MultisetCombinations: all multiplicity lists of length <= 4 over 0..3 and of length 5 over 0..2, every 0 <= k <= sum+2")

	// permutations
	for n := 0; n <= N; n++ {
		g.Emit(fmt.Sprintf("heap %d", n))
		g.Emit(fmt.Sprintf("lexperm %d", n))
	}
	g.Exhaustive(fmt.Sprintf("Permutations, LexicographicPermutations: all 0 <= n <= %d", N))
	for l := 0; l <= 5; l++ {
		lists(l, 0, 4, func(fr []int) {
			if sum(fr) <= N {
				g.Emit("mperm " + ints(fr))
			}
		})
	}
	g.Exhaustive(fmt.Sprintf("MultisetPermutations: all frequency lists of length <= 5 over 0..4 with sum <= %d", N))

	// partitions
	for n := 1; n <= N+1; n++ {
		g.Emit(fmt.Sprintf("parts %d", n))
	}
	for n := 0; n <= g.Pick(24, 45); n++ {
		g.Emit(fmt.Sprintf("intparts %d", n))
	}
	g.Exhaustive(fmt.Sprintf("Partitions: all 1 <= n <= %d; IntegerPartitions: all 0 <= n <= %d", N+1, g.Pick(24, 45)))

	// predicates: the fixed family plus truth tables derived from the seed
	var preds []string
	for i := 0; i < nFixedPreds; i++ {
		preds = append(preds, fmt.Sprintf("p%d", i))
	}
	nRandom := g.Pick(6, 40)
	for i := 0; i < nRandom; i++ {
		den := r.Range(2, 6)
		num := r.Range(1, den-1)
		if i%3 == 0 { // mostly accepting: deep backtracking from late failures
			den = r.Range(6, 12)
			num = den - 1
		}
		preds = append(preds, fmt.Sprintf("h%d:%d:%d", r.Intn(1<<30), num, den))
	}

	// RestrictedPrefixProduct: all factor lists of length <= 3 over 0..3 and length 4 over 0..2 x all predicates
	for _, p := range preds {
		for l := 0; l <= 4; l++ {
			hi := 3
			if l == 4 {
				hi = 2
			}
			lists(l, 0, hi, func(a []int) { g.Emit("rpprod " + p + " " + ints(a)) })
		}
		for l := 5; l <= N; l++ {
			a := make([]int, l)
			for i := range a {
				a[i] = 2
			}
			g.Emit("rpprod " + p + " " + ints(a))
			a[r.Intn(l)] = 1
			a[r.Intn(l)] = 3
			g.Emit("rpprod " + p + " " + ints(a))
		}
	}
	g.Exhaustive(fmt.Sprintf("RestrictedPrefixProduct: all factor lists of length <= 3 over 0..3 and of length 4 over 0..2, each with %d fixed and %d pseudo random prefix predicates", nFixedPreds, nRandom))

	// RestrictedPrefixPermutations, PermutationsByPattern: all n <= N-1 (n = N for the fixed family) x predicates
	for pi, p := range preds {
		for n := 0; n <= N; n++ {
			if n == N && pi >= nFixedPreds+2 && !g.Thorough() {
				continue
			}
			g.Emit(fmt.Sprintf("rpperm %s %d", p, n))
			g.Emit(fmt.Sprintf("pattern %s %d", p, n))
		}
	}
	g.Exhaustive(fmt.Sprintf("RestrictedPrefixPermutations, PermutationsByPattern: all 0 <= n <= %d with %d fixed and %d pseudo random predicates", N-1, nFixedPreds, nRandom))

	// TopologicalSorts: every relation on pairs i<j for n <= 5 (n <= 6 thorough); named and random ones above
	full := g.Pick(5, 6)
	for n := 0; n <= full; n++ {
		for m := uint64(0); m < 1<<uint(n*(n-1)/2); m++ {
			g.Emit(fmt.Sprintf("topo m%d %d", m, n))
		}
	}
	g.Exhaustive(fmt.Sprintf("TopologicalSorts: all 0 <= n <= %d with every relation contained in the natural order (transitive or not)", full))
	for n := full + 1; n <= N; n++ {
		for _, m := range namedMasks(n) {
			g.Emit(fmt.Sprintf("topo m%d %d", m, n))
		}
		cnt := g.Pick(60, 1500)
		if n == 8 {
			cnt = 150
		}
		for i := 0; i < cnt; i++ {
			var m uint64
			dens := r.Range(1, 6)
			for b := 0; b < n*(n-1)/2; b++ {
				if r.Chance(dens, 12) {
					m |= 1 << uint(b)
				}
			}
			if r.Bool() {
				m = transitiveClosure(n, m)
			}
			g.Emit(fmt.Sprintf("topo m%d %d", m, n))
		}
	}

	genLarge(g)
	genExtreme(g)
	genHighIndex(g)
	genCallPatterns(g)
	genAliasingAndHistory(g)

	// two iterators alive at once, calls interleaved (same and different constructors)
	solo := []string{"product 2 3 2", "product 3 1 2", "comb 6 3", "comb 5 2", "colex 6 3", "colex 5 4", "mcomb 3 2 1 2", "mcomb 2 1 1 1 1",
		"lexperm 4", "mperm 2 1 2", "mperm 1 3", "intparts 9", "intparts 7", "parts 4", "parts 5", "rpprod p4 3 3 3", "rpprod p5 2 4 3",
		"rpperm p5 5", "rpperm p10 4", "comb 18 17", "mperm 15 2", "mcomb 2 17 1 1"}
	for i, a := range solo {
		g.Emit("il " + a + " ;; " + a)
		for j, b := range solo {
			if i != j && (g.Thorough() || (i+2*j)%5 == 0) {
				g.Emit("il " + a + " ;; " + b)
			}
		}
	}
	g.Exhaustive(fmt.Sprintf("interleaved pairs: two iterators alive at once with alternating calls of Next, %d constructor calls paired with themselves and with each other", len(solo)))
}

// rep returns n copies of v.
func rep(n, v int) []int {
	a := make([]int, n)
	for i := range a {
		a[i] = v
	}
	return a
}

const maxInt = int(^uint(0) >> 1)

// genLarge: large objects in small families.  The lengths straddle 8, 16, 32 and 64 (where
// implementations switch algorithms or buffers grow); the family is kept to a few thousand
// objects by the choice of the other parameters, or only a window of first objects is drained.
func genLarge(g *hx.Gen) {
	r := g.Rng
	lens := []int{9, 16, 17, 18, 32, 33, 64, 65}
	if g.Thorough() {
		lens = []int{9, 12, 15, 16, 17, 18, 24, 31, 32, 33, 34, 48, 63, 64, 65, 66, 70}
	}
	win := g.Pick(300, 3000)
	for _, L := range lens {
		// Product: factors 1 with a few factors 2 (first, last, middle, random positions); all ones; one zero
		g.Emit("product " + ints(rep(L, 1)))
		z := rep(L, 1)
		z[r.Intn(L)] = 0
		g.Emit("product " + ints(z))
		for _, pos := range [][]int{{0}, {L - 1}, {0, L - 1}, {L / 2, L/2 + 1, L - 1}, {0, 1, 2, L - 3, L - 2, L - 1}} {
			a := rep(L, 1)
			for _, p := range pos {
				a[p] = 2
			}
			g.Emit("product " + ints(a))
			g.Emit("rpprod p0 " + ints(a))
			g.Emit("rpprod p2 " + ints(a))
		}
		a := rep(L, 1)
		for i := 0; i < 5; i++ {
			a[r.Intn(L)] = r.Range(2, 3)
		}
		g.Emit("product " + ints(a))
		g.Emit(fmt.Sprintf("product %s @%d", ints(rep(L, 3)), win))
		// RestrictedPrefixProduct: full binary/ternary trees pruned to the prefixes of small sum
		g.Emit("rpprod s2 " + ints(rep(L, 2)))
		g.Emit("rpprod s1 " + ints(rep(L, 3)))
		g.Emit(fmt.Sprintf("rpprod s%d %s", r.Range(0, 2), ints(rep(L, 2))))
		g.Emit(fmt.Sprintf("rpprod h%d:%d:%d %s @%d", r.Intn(1<<30), 63, 64, ints(rep(L, 2)), win))

		// Combinations, CombinationsColex: k near 0 and near n
		for _, k := range []int{0, 1, 2, L - 2, L - 1, L, L + 1} {
			g.Emit(fmt.Sprintf("comb %d %d", L, k))
			g.Emit(fmt.Sprintf("colex %d %d", L, k))
		}
		g.Emit(fmt.Sprintf("comb %d %d @%d", L, L/2, win))
		g.Emit(fmt.Sprintf("colex %d %d @%d", L, L/2, win))

		// MultisetPermutations: one huge multiplicity (total length L), the repeated value small, middle or large
		if L >= 3 {
			for _, fr := range [][]int{{L - 2, 1, 1}, {1, L - 2, 1}, {1, 1, L - 2}, {L - 1, 1}, {1, L - 1}, {L - 2, 2}, {2, L - 2}, {L}} {
				g.Emit("mperm " + ints(fr))
			}
			if L <= 33 || g.Thorough() {
				g.Emit("mperm " + ints([]int{L - 3, 2, 1}))
				g.Emit("mperm " + ints([]int{1, 2, L - 3}))
				g.Emit("mperm " + ints([]int{2, L - 3, 1}))
			}
			fr := []int{L / 4, L / 4, L / 4, L - 3*(L/4)}
			g.Emit(fmt.Sprintf("mperm %s @%d", ints(fr), win))
			g.Emit(fmt.Sprintf("mperm %s @%d", ints([]int{L / 2, L - L/2}), win))
		}
		// LexicographicPermutations, Permutations: windows
		g.Emit(fmt.Sprintf("lexperm %d @%d", L, win))
		g.Emit(fmt.Sprintf("heap %d @%d", L, win))

		// MultisetCombinations: many kinds with k near 0 / near the total; one huge multiplicity
		for _, k := range []int{0, 1, 2, L - 2, L - 1, L, L + 1} {
			g.Emit(fmt.Sprintf("mcomb %d %s", k, ints(rep(L, 1))))
		}
		for _, k := range []int{0, 1, 3, L - 1, L, L + 1} {
			g.Emit(fmt.Sprintf("mcomb %d %s", k, ints([]int{L - 3, 2, 1})))
			g.Emit(fmt.Sprintf("mcomb %d %s", k, ints([]int{1, 2, L - 3})))
		}
		g.Emit(fmt.Sprintf("mcomb %d %s @%d", L/2, ints(rep(L, 2)), win))

		// Partitions, IntegerPartitions: the first objects of a large n
		g.Emit(fmt.Sprintf("parts %d @%d", L, win))
		g.Emit(fmt.Sprintf("intparts %d @%d", L, win))
		g.Emit(fmt.Sprintf("intparts %d @%d", 2*L, win))

		// RestrictedPrefixPermutations / PermutationsByPattern with predicates that prune almost everything
		c := 1
		if L <= 18 {
			c = 2
		}
		g.Emit(fmt.Sprintf("rpperm d%d %d", c, L))
		g.Emit(fmt.Sprintf("rpperm d0 %d", L))
		g.Emit(fmt.Sprintf("pattern e%d %d", c, L))
		g.Emit(fmt.Sprintf("pattern e0 %d", L))
		g.Emit(fmt.Sprintf("rpperm p0 %d @%d", L, win))
		g.Emit(fmt.Sprintf("rpperm p5 %d @%d", L, win))

		// TopologicalSorts: the total order with a few adjacent pairs left free (2^k sorts), and the last pairs free
		for _, cnt := range []int{0, 1, 4, 8} {
			free := map[int]bool{}
			for tries := 0; len(free) < cnt && tries < 200; tries++ {
				i := r.Intn(L - 1)
				if !free[i] && !free[i-1] && !free[i+1] {
					free[i] = true
				}
			}
			ks := []string{}
			for i := 0; i < L; i++ {
				if free[i] {
					ks = append(ks, strconv.Itoa(i))
				}
			}
			g.Emit(fmt.Sprintf("topo f%s %d", strings.Join(ks, "."), L))
		}
		g.Emit(fmt.Sprintf("topo f%d.%d.%d %d", L-4, L-3, L-2, L))
		g.Emit(fmt.Sprintf("topo f0.1.2 %d", L))
	}
	for _, n := range []int{100, 128, 200} {
		g.Emit(fmt.Sprintf("intparts %d @%d", n, win))
	}
	g.Exhaustive(fmt.Sprintf("large objects, small families: for each length L in %v every iterator with parameters that keep the family small (factors 1 and 2, k near 0 or near n, one huge multiplicity, strongly pruning predicates, near-total orders) or a window of the first %d objects", lens, win))
}

// genHighIndex: the predicate- and order-driven iterators at sizes around 64 and 128 with tiny
// families whose decisive predicate answers / order constraints sit at HIGH indices (>= 64, >= 128),
// and, for comparison, at low ones.
func genHighIndex(g *hx.Gen) {
	sizes := []int{63, 64, 65, 66, 67, 70, 127, 128, 129, 130}
	if g.Thorough() {
		sizes = []int{62, 63, 64, 65, 66, 67, 68, 69, 70, 126, 127, 128, 129, 130, 131, 192, 193}
	}
	for _, L := range sizes {
		// TopologicalSorts: near-total orders and chains given by covers, free pairs / broken links at the top and at the bottom
		for _, rel := range []string{"f", fmt.Sprintf("f%d", L-2), fmt.Sprintf("f%d.%d", L-4, L-2), fmt.Sprintf("f%d", L-3), "f0", "f0.2", fmt.Sprintf("f0.%d", L-2),
			"c", fmt.Sprintf("c%d", L-2), "c0", fmt.Sprintf("c%d", L-3)} {
			if rel == fmt.Sprintf("c%d", L-3) && L > 70 {
				continue // C(L,2) sorts
			}
			g.Emit(fmt.Sprintf("topo %s %d", rel, L))
		}
		if L > 66 {
			g.Emit(fmt.Sprintf("topo f63.65 %d", L))
			g.Emit(fmt.Sprintf("topo f62.64.%d %d", L-2, L))
		}
		// RestrictedPrefixPermutations, PermutationsByPattern, RestrictedPrefixProduct: deviations only at the top / only at the bottom
		for _, rg := range []string{fmt.Sprintf(":%d:%d", L-4, L), fmt.Sprintf(":%d:%d", L-6, L-1), ":0:4", ":1:6"} {
			g.Emit(fmt.Sprintf("rpperm d1%s %d", rg, L))
			g.Emit(fmt.Sprintf("pattern e1%s %d", rg, L))
			if L <= 70 || g.Thorough() {
				g.Emit(fmt.Sprintf("rpperm d2%s %d", rg, L))
				g.Emit(fmt.Sprintf("pattern e2%s %d", rg, L))
			}
			g.Emit(fmt.Sprintf("rpprod s2%s %s", rg, ints(rep(L, 2))))
			g.Emit(fmt.Sprintf("rpprod s2%s %s", rg, ints(rep(L, 3))))
		}
		g.Emit(fmt.Sprintf("rpperm d0 %d", L))
		g.Emit(fmt.Sprintf("pattern e0 %d", L))
		g.Emit(fmt.Sprintf("rpprod s1 %s", ints(rep(L, 2))))
		if L <= 70 {
			g.Emit(fmt.Sprintf("rpperm d1 %d", L))
			g.Emit(fmt.Sprintf("pattern e1 %d", L))
			g.Emit(fmt.Sprintf("rpprod s2 %s", ints(rep(L, 2))))
		}
	}
	g.Exhaustive(fmt.Sprintf("predicate- and order-driven iterators at sizes %v with tiny families: decisive constraints / predicate answers at the highest indices and at the lowest", sizes))
}

// genCallPatterns: API call patterns other than "Value after every Next".
func genCallPatterns(g *hx.Gen) {
	r := g.Rng
	pats := func() []string {
		return []string{"k2", "k3", "k5", fmt.Sprintf("r%d", r.Intn(1<<30)), fmt.Sprintf("r%d", r.Intn(1<<30)), "d", "n"}
	}
	var base []string
	every := g.Pick(3, 1)
	cnt := 0
	add := func(c string) {
		cnt++
		if cnt%every == 0 {
			base = append(base, c)
		}
	}
	for l := 1; l <= 4; l++ {
		lists(l, 0, 3, func(m []int) {
			for k := 1; k < sum(m); k++ {
				add(fmt.Sprintf("mcomb %d %s", k, ints(m)))
			}
		})
	}
	every = g.Pick(2, 1)
	for l := 1; l <= 3; l++ {
		lists(l, 1, 3, func(a []int) { add("product " + ints(a)) })
		lists(l, 0, 3, func(a []int) {
			if sum(a) >= 2 && sum(a) <= 6 {
				add("mperm " + ints(a))
			}
		})
	}
	for n := 2; n <= 7; n++ {
		for k := 1; k < n; k++ {
			add(fmt.Sprintf("comb %d %d", n, k))
			add(fmt.Sprintf("colex %d %d", n, k))
		}
	}
	every = 1
	for _, c := range []string{"lexperm 3", "lexperm 4", "lexperm 5", "heap 3", "heap 4", "heap 5", "parts 3", "parts 4", "parts 5", "parts 6", "intparts 6", "intparts 9", "intparts 13",
		"rpprod p0 3 2 3", "rpprod p4 3 3 3", "rpprod p5 2 4 3", "rpprod p3 3 3 3", "rpperm p0 4", "rpperm p5 5", "rpperm p10 5", "rpperm p9 5",
		"pattern p0 4", "pattern p12 5", "pattern p4 5", "topo m0 4", "topo m5 4", "topo m9 5", "topo m300 5",
		"mcomb 5 2 1 3 2", "mcomb 17 15 2 1", "mperm 15 1 1", "comb 18 16", "colex 18 16", "product 1 1 1 1 1 1 1 1 1 1 1 1 1 1 1 2 2 2"} {
		add(c)
	}
	for _, c := range base {
		for _, p := range pats() {
			g.Emit(c + " %" + p)
		}
	}
	g.Exhaustive(fmt.Sprintf("API call patterns: %d constructor calls each driven with Value only every 2nd/3rd/5th step, on two pseudo random halves of the steps, twice in a row, and never; the value observed at a step must be the object of that step", len(base)))
}

// genAliasingAndHistory: input aliasing (one caller-owned slice shared by two iterators; the
// slice overwritten after construction where the constructor copies), results overwritten by the
// caller where the documentation allows it, hidden state (after recovered panics; an iterator
// driven from inside another one's predicate), provenance of the predicate, long tails after
// exhaustion, asymmetric and negative factors, and every iterator at sizes 0, 1, 2 under every
// call pattern.
func genAliasingAndHistory(g *hx.Gen) {
	r := g.Rng
	every := g.Pick(4, 1)
	cnt := 0
	pick := func() bool { cnt++; return cnt%every == 0 }
	// shared multiplicities, different k (and equal k)
	g.Emit("sh mcomb 5 2 4 3 3 2")
	g.Emit("sh mcomb 2 5 4 3 3 2")
	for l := 1; l <= 4; l++ {
		lists(l, 0, 4, func(m []int) {
			if sum(m) < 2 || !pick() {
				return
			}
			k1 := r.Range(1, sum(m))
			k2 := r.Range(1, sum(m))
			g.Emit(fmt.Sprintf("sh mcomb %d %d %s", k1, k2, ints(m)))
		})
	}
	for l := 1; l <= 3; l++ {
		lists(l, 0, 3, func(a []int) {
			if !pick() {
				return
			}
			if sum(a) <= 6 {
				g.Emit("sh mperm " + ints(a))
			}
			g.Emit("sh product " + ints(a))
			g.Emit("sc product " + ints(a))
			p := fmt.Sprintf("p%d", r.Intn(nFixedPreds))
			g.Emit("sh rpprod " + p + " " + ints(a))
			g.Emit("sc rpprod " + p + " " + ints(a))
		})
	}
	g.Emit("sh mperm 15 2 1")
	g.Emit("sc product 1 1 1 1 1 1 1 1 1 1 1 1 1 1 1 2 2 3")
	g.Exhaustive("input aliasing: pairs of MultisetCombinations (different k), MultisetPermutations, Product, RestrictedPrefixProduct iterators built on ONE caller-owned slice and run with a hand-off; Product / RestrictedPrefixProduct with the slice overwritten right after construction")

	// hidden state: after recovered panics; B driven from A's predicate
	solo := []string{"product 2 3 2", "comb 6 3", "colex 6 3", "mcomb 3 2 1 2", "lexperm 4", "mperm 2 1 2", "intparts 9", "parts 4",
		"rpprod p4 3 3 3", "rpperm p5 5", "comb 0 0", "comb 1 1", "product", "mperm", "rpprod p0", "rpperm p0 0", "rpperm p0 1", "rpprod p3 2 2"}
	for _, c := range solo {
		g.Emit("ap " + c)
	}
	for _, c := range []string{"pattern p12 5", "topo m5 4", "heap 4", "parts 1", "intparts 0"} {
		g.Emit("ap " + c)
	}
	for _, a := range []string{"rpprod p4 3 3 3", "rpprod p5 2 4 3", "rpperm p5 5", "rpperm p10 4", "rpperm p0 3", "rpprod p0 2 2"} {
		for _, b := range solo {
			if g.Thorough() || pick() || a == b {
				g.Emit("cb " + a + " ;; " + b)
			}
		}
	}
	g.Exhaustive("hidden state: cases run after five provoked and recovered panics (constructor, predicates, order relation) in the same process; an iterator advanced from inside the predicate of another one")

	// provenance of the predicate (method value of a stateful memoising object), exhaustive rejection at the last level
	for i := 0; i < nFixedPreds; i++ {
		g.Emit(fmt.Sprintf("rpprod P%d 3 2 3", i))
		g.Emit(fmt.Sprintf("rpprod P%d 2 2 2 2", i))
		g.Emit(fmt.Sprintf("rpperm P%d 5", i))
		g.Emit(fmt.Sprintf("pattern P%d 5", i))
		g.Emit(fmt.Sprintf("rpperm P%d %d", i, r.Range(0, 6)))
	}
	for n := 0; n <= 6; n++ {
		for _, z := range []int{1, n - 1, n, n + 1} {
			if z >= 1 {
				g.Emit(fmt.Sprintf("rpperm z%d %d", z, n))
				g.Emit(fmt.Sprintf("pattern z%d %d", z, n))
				g.Emit(fmt.Sprintf("rpprod z%d %s", z, ints(rep(n, 2))))
				g.Emit(fmt.Sprintf("rpprod z%d %s", z, ints(rep(n, 3))))
			}
		}
	}

	// results overwritten by the caller where the documentation allows it; long tails; sizes 0, 1, 2 under every call pattern
	for l := 1; l <= 4; l++ {
		lists(l, 0, 3, func(m []int) {
			for k := 1; k <= sum(m); k++ {
				if pick() {
					g.Emit(fmt.Sprintf("mcomb %d %s %%w", k, ints(m)))
				}
			}
		})
	}
	g.Emit("mcomb 5 2 1 3 2 %w")
	g.Emit("mcomb 17 15 2 1 %w")
	for n := 1; n <= 7; n++ {
		g.Emit(fmt.Sprintf("parts %d %%w", n))
	}
	small := []string{}
	for n := 0; n <= 2; n++ {
		for k := 0; k <= n+1; k++ {
			small = append(small, fmt.Sprintf("comb %d %d", n, k), fmt.Sprintf("colex %d %d", n, k))
		}
		small = append(small, fmt.Sprintf("heap %d", n), fmt.Sprintf("lexperm %d", n), fmt.Sprintf("intparts %d", n),
			fmt.Sprintf("rpperm p0 %d", n), fmt.Sprintf("rpperm p9 %d", n), fmt.Sprintf("pattern p0 %d", n), fmt.Sprintf("pattern p12 %d", n),
			fmt.Sprintf("topo m0 %d", n), fmt.Sprintf("topo m1 %d", n))
		if n >= 1 {
			small = append(small, fmt.Sprintf("parts %d", n))
		}
		lists(n, 0, 2, func(a []int) {
			small = append(small, "product "+ints(a), "rpprod p0 "+ints(a), "rpprod p2 "+ints(a), "mperm "+ints(a))
			for k := 0; k <= sum(a)+1 && k <= 2; k++ {
				small = append(small, fmt.Sprintf("mcomb %d %s", k, ints(a)))
			}
		})
	}
	for _, c := range small {
		for _, p := range []string{"k2", "k3", fmt.Sprintf("r%d", r.Intn(1<<30)), "d", "n", "t"} {
			g.Emit(c + " %" + p)
		}
	}
	for _, c := range []string{"comb 5 0", "colex 5 0", "colex 2 3", "colex 0 1", "comb 2 3", "product 2 0 2", "mcomb 9 2 2", "mcomb 0", "comb 6 3", "colex 6 3", "intparts 7", "lexperm 4", "heap 4",
		"rpprod p1 2 2", "rpperm p1 3", "pattern p1 3", "topo m7 3", "parts 3", "mperm 2 2", "rpperm p0 4", "topo m0 3"} {
		g.Emit(c + " %t")
	}
	g.Exhaustive(fmt.Sprintf("call patterns at the boundary sizes: %d constructor calls with n, k, list lengths in {0,1,2} under every call pattern; returned slices overwritten by the caller for MultisetCombinations.Value and Partitions.Value (documented as modifiable); 300 further calls of Next after exhaustion", len(small)))

	// asymmetric factor lists (one large factor before / between / after small ones) and factors below 1
	minInt := -maxInt - 1
	for _, b := range []int{255, 256, 257, 1024} {
		for _, a := range [][]int{{b}, {b, 2}, {2, b}, {1, b, 1}, {2, b, 1}, {1, 1, b, 1, 1}} {
			size := 1
			for _, v := range a {
				size *= v
			}
			w := ""
			if size > 3000 {
				w = " @600"
			}
			g.Emit("product " + ints(a) + w)
			g.Emit("rpprod p2 " + ints(a) + w)
			g.Emit("rpprod s1 " + ints(a))
		}
		g.Emit(fmt.Sprintf("mcomb 2 %d 1 1", b))
		g.Emit(fmt.Sprintf("mcomb %d 1 %d 1", b, b))
		if b <= 257 || g.Thorough() {
			g.Emit(fmt.Sprintf("mperm 1 %d", b))
			g.Emit(fmt.Sprintf("mperm %d 1", b))
		}
	}
	for _, v := range []int{-1, -2, minInt, minInt + 1} {
		g.Emit(fmt.Sprintf("product %d", v))
		g.Emit(fmt.Sprintf("product 2 %d", v))
		g.Emit(fmt.Sprintf("product %d 2 3", v))
		g.Emit(fmt.Sprintf("product %d %d", v, maxInt))
		g.Emit(fmt.Sprintf("rpprod p0 2 %d 2", v))
		g.Emit(fmt.Sprintf("rpprod p0 %d", v))
	}
	g.Exhaustive("asymmetric factor lists (one factor 255, 256, 257, 1024 before / between / after factors 1 and 2), one huge among unit multiplicities, factors below 1 down to MinInt (Product treats every factor < 1 as an empty factor)")
}

// genExtreme: parameters at the ends of the int range whose sums or products overflow while the
// family (or the window drained) stays tiny.
func genExtreme(g *hx.Gen) {
	M := maxInt
	vals := []int{M, M - 1, M/2 + 1, M / 2, 1 << 32, 1<<31 - 1}
	for _, v := range vals {
		g.Emit(fmt.Sprintf("product %d @40", v))
		g.Emit(fmt.Sprintf("product 2 %d @40", v))
		g.Emit(fmt.Sprintf("product %d 2 @40", v))
		g.Emit(fmt.Sprintf("product %d %d @40", v, v))
		g.Emit(fmt.Sprintf("product %d 0", v))
		g.Emit(fmt.Sprintf("product 0 %d %d", v, v))
		g.Emit(fmt.Sprintf("rpprod p0 %d 0", v))
		g.Emit(fmt.Sprintf("rpprod s1 %d 2 @3", v))
		g.Emit(fmt.Sprintf("rpprod s1 2 %d @2", v))
		for _, k := range []int{0, 1, 2, 3} {
			g.Emit(fmt.Sprintf("comb %d %d @40", v, k))
			g.Emit(fmt.Sprintf("colex %d %d @40", v, k))
		}
		// MultisetCombinations: huge multiplicities ("unbounded"), small k: the family is tiny
		for _, m := range [][]int{{v}, {v, 2}, {2, v}, {v, v}, {v, v, v}, {M / 2, M/2 + 1, 1}, {1, v, 0, v}, {v, 0}, {M - v, v, 1}} {
			for _, k := range []int{0, 1, 2, 3, 5} {
				g.Emit(fmt.Sprintf("mcomb %d %s", k, ints(m)))
			}
		}
	}
	g.Exhaustive(fmt.Sprintf("extreme values: factors, n and multiplicities in %v (sums and products overflow int) with k <= 5 or a window of 40 objects", vals))
}

func main() {
	hx.Main(hx.Prop{
		Rule:        "case = one constructor call (iterator, parameters, predicate or relation), drained completely with Value copied at every step and Next called three more times after the first false; a trailing @K drains only the first K objects; non-trivial = the family (or window) has >= 2 objects or the parameters sit on a boundary (n <= 1, k in {0,n,n+1}, a zero or single factor/multiplicity); distinct by case text",
		Gen:         gen,
		Exec:        exec,
		CaseTimeout: 20 * time.Second,
		MemMB:       3072,
	})
}
