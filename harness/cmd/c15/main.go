// Command c15 drains every iterator of package itertools on exhaustively enumerated small
// parameters and prints the whole yielded sequence plus the behaviour after exhaustion (C15).
//
// Case line:   <iterator> [<predicate>] <int> <int> ...
//
//	product f1 f2 ..        comb n k           colex n k        mcomb k m1 m2 ..
//	heap n                  lexperm n          mperm f1 f2 ..   parts n        intparts n
//	rpprod P f1 f2 ..       rpperm P n         pattern P n      topo mMASK n
//
// P is a prefix predicate: pI (member I of the fixed family below) or hSEED:NUM:DEN (a pseudo
// random truth table: a 31-bit LCG hash of the prefix decides acceptance with probability
// NUM/DEN).  MASK is the bit set of the pairs i<j (bit j*(j-1)/2+i) on which less(i,j) holds.
//
// Observation: <count>:<v1>/<v2>/..;<three further Next results> where a value is its entries
// joined by '.', the empty tuple is 'e', a set partition is its blocks joined by '|'.  For the
// iterators whose order is not documented (heap, pattern, topo) the projected part is the
// sorted sequence and the strict part the sequence in the order produced.
package main

import (
	"fmt"
	"sort"
	"strconv"
	"strings"
	"time"

	"github.com/Tom-Johnston/mamba/itertools"
	"verifharness/hx"
)

// ---------------------------------------------------------------- predicates

const nFixedPreds = 14

// fixedPred is the fixed family of prefix predicates; a is never empty.
func fixedPred(i int, a []int) bool {
	l := len(a)
	last := a[l-1]
	switch i {
	case 0:
		return true
	case 1:
		return false
	case 2:
		return last%2 == 0
	case 3:
		s := 0
		for _, v := range a {
			s += v
		}
		return s%3 != 0
	case 4:
		return l < 2 || last >= a[l-2]
	case 5:
		return l < 2 || (last-a[l-2] != 1 && a[l-2]-last != 1)
	case 6:
		return l < 3 || last != a[0]
	case 7:
		return l <= 2
	case 8:
		return a[0] == 0
	case 9:
		return last != l-1
	case 10:
		return l < 2 || last > a[l-2]
	case 11:
		return last != 1
	case 12:
		return l < 2 || last < a[l-2]
	case 13:
		mx, mn := true, true
		for _, v := range a[:l-1] {
			if v >= last {
				mx = false
			}
			if v <= last {
				mn = false
			}
		}
		return mx || mn
	}
	panic("bad predicate index")
}

func hashPred(seed, num, den int, a []int) bool {
	h := uint64(seed) & 0x7fffffff
	for _, x := range a {
		h = (h*1103515245 + 12345 + uint64(x+1)*7919) & 0x7fffffff
	}
	h = (h*1103515245 + 12345) & 0x7fffffff
	return int((h>>12)%uint64(den)) < num
}

func parsePred(tok string) func([]int) bool {
	if tok[0] == 'p' {
		i, err := strconv.Atoi(tok[1:])
		if err != nil || i < 0 || i >= nFixedPreds {
			panic("bad predicate " + tok)
		}
		return func(a []int) bool { return fixedPred(i, a) }
	}
	if tok[0] == 'h' {
		f := strings.Split(tok[1:], ":")
		seed, _ := strconv.Atoi(f[0])
		num, _ := strconv.Atoi(f[1])
		den, _ := strconv.Atoi(f[2])
		return func(a []int) bool { return hashPred(seed, num, den, a) }
	}
	panic("bad predicate " + tok)
}

func pairBit(i, j int) uint { return uint(j*(j-1)/2 + i) }

func parseLess(tok string) func(i, j int) bool {
	mask, err := strconv.ParseUint(tok[1:], 10, 64)
	if tok[0] != 'm' || err != nil {
		panic("bad relation " + tok)
	}
	return func(i, j int) bool { return i < j && mask>>pairBit(i, j)&1 == 1 }
}

// ---------------------------------------------------------------- reference enumerations

func cp(a []int) []int { return append([]int{}, a...) }

func refProduct(n []int) [][]int {
	var out [][]int
	cur := make([]int, len(n))
	var rec func(i int)
	rec = func(i int) {
		if i == len(n) {
			out = append(out, cp(cur))
			return
		}
		for v := 0; v < n[i]; v++ {
			cur[i] = v
			rec(i + 1)
		}
	}
	rec(0)
	return out
}

func lexLess(a, b []int) bool {
	for i := 0; i < len(a) && i < len(b); i++ {
		if a[i] != b[i] {
			return a[i] < b[i]
		}
	}
	return len(a) < len(b)
}

func colexLess(a, b []int) bool {
	for i := len(a) - 1; i >= 0; i-- {
		if a[i] != b[i] {
			return a[i] < b[i]
		}
	}
	return false
}

func refComb(n, k int) [][]int {
	var out [][]int
	cur := make([]int, 0, k)
	var rec func(from int)
	rec = func(from int) {
		if len(cur) == k {
			out = append(out, cp(cur))
			return
		}
		for v := from; v < n; v++ {
			cur = append(cur, v)
			rec(v + 1)
			cur = cur[:len(cur)-1]
		}
	}
	rec(0)
	return out
}

// refMultiComb lists the frequency vectors v with 0 <= v[i] <= m[i] and sum k in
// colexicographic order.
func refMultiComb(m []int, k int) [][]int {
	var out [][]int
	for _, v := range refProduct(addOne(m)) {
		s := 0
		for _, x := range v {
			s += x
		}
		if s == k {
			out = append(out, v)
		}
	}
	sort.SliceStable(out, func(i, j int) bool { return colexLess(out[i], out[j]) })
	return out
}

func addOne(m []int) []int {
	r := make([]int, len(m))
	for i, v := range m {
		r[i] = v + 1
	}
	return r
}

func freqToMultiset(v []int) []int {
	r := []int{}
	for i, c := range v {
		for j := 0; j < c; j++ {
			r = append(r, i)
		}
	}
	return r
}

func refPerms(n int) [][]int {
	f := make([]int, n)
	for i := range f {
		f[i] = 1
	}
	return refMultisetPerms(f)
}

func refMultisetPerms(freq []int) [][]int {
	var out [][]int
	left := cp(freq)
	total := 0
	for _, v := range freq {
		total += v
	}
	cur := make([]int, 0, total)
	var rec func()
	rec = func() {
		if len(cur) == total {
			out = append(out, cp(cur))
			return
		}
		for v := range left {
			if left[v] > 0 {
				left[v]--
				cur = append(cur, v)
				rec()
				cur = cur[:len(cur)-1]
				left[v]++
			}
		}
	}
	rec()
	return out
}

// refRGS lists the restricted growth strings of length n in lexicographic order.
func refRGS(n int) [][]int {
	var out [][]int
	cur := make([]int, n)
	var rec func(i, mx int)
	rec = func(i, mx int) {
		if i == n {
			out = append(out, cp(cur))
			return
		}
		for v := 0; v <= mx+1; v++ {
			cur[i] = v
			nm := mx
			if v > mx {
				nm = v
			}
			rec(i+1, nm)
		}
	}
	if n > 0 {
		cur[0] = 0
		rec(1, 0)
	}
	return out
}

func rgsToBlocks(r []int) string {
	mx := -1
	for _, v := range r {
		if v > mx {
			mx = v
		}
	}
	bl := make([][]string, mx+1)
	for i, v := range r {
		bl[v] = append(bl[v], strconv.Itoa(i))
	}
	s := make([]string, len(bl))
	for i, b := range bl {
		s[i] = strings.Join(b, ".")
	}
	return strings.Join(s, "|")
}

// refIntParts lists the partitions of n (non-increasing positive parts) in reverse
// lexicographic order.
func refIntParts(n int) [][]int {
	var out [][]int
	cur := []int{}
	var rec func(left, mx int)
	rec = func(left, mx int) {
		if left == 0 {
			out = append(out, cp(cur))
			return
		}
		for v := min(left, mx); v >= 1; v-- {
			cur = append(cur, v)
			rec(left-v, v)
			cur = cur[:len(cur)-1]
		}
	}
	rec(n, n)
	return out
}

func min(a, b int) int {
	if a < b {
		return a
	}
	return b
}

func allPrefixesOK(f func([]int) bool, a []int) bool {
	for l := 1; l <= len(a); l++ {
		if !f(a[:l]) {
			return false
		}
	}
	return true
}

// standardise returns the pattern of a: the permutation of 0..len-1 with the same relative order.
func standardise(a []int) []int {
	r := make([]int, len(a))
	for i, v := range a {
		for _, w := range a {
			if w < v {
				r[i]++
			}
		}
	}
	return r
}

func allPatternsOK(f func([]int) bool, a []int) bool {
	for l := 1; l <= len(a); l++ {
		if !f(standardise(a[:l])) {
			return false
		}
	}
	return true
}

func respects(less func(i, j int) bool, a []int) bool {
	pos := make([]int, len(a))
	for p, v := range a {
		pos[v] = p
	}
	for i := range a {
		for j := i + 1; j < len(a); j++ {
			if less(i, j) && pos[i] > pos[j] {
				return false
			}
		}
	}
	return true
}

func filter(all [][]int, keep func([]int) bool) [][]int {
	out := [][]int{}
	for _, a := range all {
		if keep(a) {
			out = append(out, a)
		}
	}
	return out
}

// ---------------------------------------------------------------- draining

func tup(a []int) string {
	if len(a) == 0 {
		return "e"
	}
	var sb strings.Builder
	for i, v := range a {
		if i > 0 {
			sb.WriteByte('.')
		}
		sb.WriteString(strconv.Itoa(v))
	}
	return sb.String()
}

type drained struct {
	vals []string // formatted values in the order produced
	tail string   // results of the three calls after the first false; "OVER" if the cap was hit
}

// drain calls next until it returns false or more than limit values were produced (an
// iterator that does not stop), formatting a copy of the value at each step, and then calls
// next three more times.
func drain(next func() bool, value func() string, limit int) drained {
	var d drained
	for next() {
		d.vals = append(d.vals, value())
		if len(d.vals) > limit {
			d.tail = "OVER"
			return d
		}
	}
	for i := 0; i < 3; i++ {
		if next() {
			d.tail += "T"
		} else {
			d.tail += "F"
		}
	}
	return d
}

func obsOf(vals []string, tail string) string {
	return fmt.Sprintf("%d:%s;%s", len(vals), strings.Join(vals, "/"), tail)
}

func tups(ref [][]int) []string {
	s := make([]string, len(ref))
	for i, a := range ref {
		s[i] = tup(a)
	}
	return s
}

func sortedStrings(a []string) []string {
	b := append([]string{}, a...)
	sort.Strings(b)
	return b
}

func firstDiff(a, b []string) string {
	for i := 0; i < len(a) || i < len(b); i++ {
		x, y := "<none>", "<none>"
		if i < len(a) {
			x = a[i]
		}
		if i < len(b) {
			y = b[i]
		}
		if x != y {
			return fmt.Sprintf("position %d: got %s want %s", i, x, y)
		}
	}
	return "equal"
}

func atoi(s string) int {
	v, err := strconv.Atoi(s)
	if err != nil {
		panic("bad integer " + s)
	}
	return v
}

func atois(s []string) []int {
	r := make([]int, len(s))
	for i := range s {
		r[i] = atoi(s[i])
	}
	return r
}

func exec(line string) hx.Result {
	f := strings.Fields(line)
	name := f[0]
	var res hx.Result
	var d drained
	var ref []string // the advertised family in the documented order (sorted when unordered)
	ordered := true
	boundary := false
	fail := func(format string, a ...interface{}) {
		if len(res.Viol) < 3 {
			res.Viol = append(res.Viol, hx.Fail("C15:"+name, name+": "+format, a...))
		}
	}
	switch name {
	case "product":
		n := atois(f[1:])
		r := refProduct(n)
		it := itertools.Product(n...)
		d = drain(it.Next, func() string { return tup(it.Value()) }, len(r)+2)
		ref = tups(r)
		boundary = len(n) <= 1
		for _, v := range n {
			boundary = boundary || v == 0
		}
	case "comb", "colex":
		n, k := atoi(f[1]), atoi(f[2])
		r := refComb(n, k)
		if name == "comb" {
			it := itertools.Combinations(n, k)
			d = drain(it.Next, func() string { return tup(it.Value()) }, len(r)+2)
		} else {
			sort.SliceStable(r, func(i, j int) bool { return colexLess(r[i], r[j]) })
			it := itertools.CombinationsColex(n, k)
			d = drain(it.Next, func() string { return tup(it.Value()) }, len(r)+2)
		}
		ref = tups(r)
		boundary = n <= 1 || k == 0 || k == n || k == n+1
	case "mcomb":
		k := atoi(f[1])
		m := atois(f[2:])
		r := refMultiComb(m, k)
		for _, v := range r {
			ref = append(ref, tup(freqToMultiset(v)))
		}
		it := itertools.MultisetCombinations(cp(m), k)
		d = drain(it.Next, func() string {
			v := cp(it.Value())
			fr := it.FreqValue()
			if tup(freqToMultiset(fr)) != tup(v) || len(fr) != len(m) {
				fail("FreqValue %v does not describe Value %v", fr, v)
			}
			return tup(v)
		}, len(r)+2)
		boundary = len(m) <= 1 || k == 0
		s := 0
		for _, v := range m {
			boundary = boundary || v == 0
			s += v
		}
		boundary = boundary || k == s || k == s+1
	case "heap", "lexperm":
		n := atoi(f[1])
		r := refPerms(n)
		ref = tups(r)
		if name == "heap" {
			ordered = false
			it := itertools.Permutations(n)
			d = drain(it.Next, func() string { return tup(it.Value()) }, len(r)+2)
		} else {
			it := itertools.LexicographicPermutations(n)
			d = drain(it.Next, func() string { return tup(it.Value()) }, len(r)+2)
		}
		boundary = n <= 1
	case "mperm":
		fr := atois(f[1:])
		r := refMultisetPerms(fr)
		ref = tups(r)
		it := itertools.MultisetPermutations(cp(fr))
		d = drain(it.Next, func() string { return tup(it.Value()) }, len(r)+2)
		boundary = len(fr) <= 1
		for _, v := range fr {
			boundary = boundary || v == 0
		}
	case "parts":
		n := atoi(f[1])
		for _, g := range refRGS(n) {
			ref = append(ref, rgsToBlocks(g))
		}
		it := itertools.Partitions(n)
		d = drain(it.Next, func() string {
			p := it.Value()
			bl := make([]string, len(p))
			for i, b := range p {
				bl[i] = strings.ReplaceAll(tup(b), "e", "")
			}
			return strings.Join(bl, "|")
		}, len(ref)+2)
		boundary = n <= 1
	case "intparts":
		n := atoi(f[1])
		r := refIntParts(n)
		ref = tups(r)
		it := itertools.IntegerPartitions(n)
		d = drain(it.Next, func() string { return tup(it.Value()) }, len(r)+2)
		boundary = n <= 1
	case "rpprod":
		p := parsePred(f[1])
		n := atois(f[2:])
		r := filter(refProduct(n), func(a []int) bool { return allPrefixesOK(p, a) })
		ref = tups(r)
		it := itertools.RestrictedPrefixProduct(p, n...)
		d = drain(it.Next, func() string { return tup(it.Value()) }, len(r)+2)
		boundary = len(n) <= 1
		for _, v := range n {
			boundary = boundary || v == 0
		}
	case "rpperm":
		p := parsePred(f[1])
		n := atoi(f[2])
		r := filter(refPerms(n), func(a []int) bool { return allPrefixesOK(p, a) })
		ref = tups(r)
		it := itertools.RestrictedPrefixPermutations(n, p)
		d = drain(it.Next, func() string { return tup(it.Value()) }, len(r)+2)
		boundary = n <= 1
	case "pattern":
		p := parsePred(f[1])
		n := atoi(f[2])
		r := filter(refPerms(n), func(a []int) bool { return allPatternsOK(p, a) })
		ref = tups(r)
		ordered = false
		it := itertools.PermutationsByPattern(n, p)
		d = drain(it.Next, func() string { return tup(it.Value()) }, len(r)+2)
		boundary = n <= 1
	case "topo":
		less := parseLess(f[1])
		n := atoi(f[2])
		r := filter(refPerms(n), func(a []int) bool { return respects(less, a) })
		ref = tups(r)
		ordered = false
		it := itertools.TopologicalSorts(n, less)
		d = drain(it.Next, func() string {
			v := cp(it.Value())
			inv := it.InverseValue()
			ok := len(inv) == len(v)
			for i := 0; ok && i < len(v); i++ {
				ok = v[i] >= 0 && v[i] < len(v) && inv[v[i]] == i
			}
			if !ok {
				fail("InverseValue %v is not the inverse of Value %v", inv, v)
			}
			return tup(v)
		}, len(r)+2)
		boundary = n <= 1
	default:
		panic("unknown iterator " + name)
	}

	got := d.vals
	if !ordered {
		got = sortedStrings(d.vals)
		ref = sortedStrings(ref)
	}
	if len(got) != len(ref) || firstDiff(got, ref) != "equal" {
		fail("yielded %d objects, the family has %d; %s", len(got), len(ref), firstDiff(got, ref))
	}
	if d.tail != "FFF" {
		fail("after exhaustion the further calls gave %s", d.tail)
	}
	if ordered {
		res.Obs = obsOf(d.vals, d.tail)
	} else {
		res.Obs = obsOf(got, d.tail) + " ## " + strings.Join(d.vals, "/")
	}
	res.Nontrivial = len(ref) >= 2 || boundary
	res.Buckets = []string{name, fmt.Sprintf("%s:objects<=%d", name, bucket(len(ref)))}
	return res
}

func bucket(n int) int {
	b := 1
	for b < n {
		b *= 4
	}
	return b
}

// ---------------------------------------------------------------- generation

func ints(a []int) string {
	s := make([]string, len(a))
	for i, v := range a {
		s[i] = strconv.Itoa(v)
	}
	return strings.Join(s, " ")
}

// lists calls f on every list of the given length with entries in [lo,hi].
func lists(length, lo, hi int, f func([]int)) {
	cur := make([]int, length)
	var rec func(i int)
	rec = func(i int) {
		if i == length {
			f(cp(cur))
			return
		}
		for v := lo; v <= hi; v++ {
			cur[i] = v
			rec(i + 1)
		}
	}
	rec(0)
}

func sum(a []int) int {
	s := 0
	for _, v := range a {
		s += v
	}
	return s
}

func prodSize(a []int) int {
	s := 1
	for _, v := range a {
		s *= v
	}
	return s
}

// namedMasks are the fixed sub-orders of 0<1<..<n-1 used for every n.
func namedMasks(n int) []uint64 {
	rel := func(f func(i, j int) bool) uint64 {
		var m uint64
		for j := 0; j < n; j++ {
			for i := 0; i < j; i++ {
				if f(i, j) {
					m |= 1 << pairBit(i, j)
				}
			}
		}
		return m
	}
	return []uint64{
		rel(func(i, j int) bool { return false }),                    // antichain: all permutations
		rel(func(i, j int) bool { return true }),                     // total order: identity only
		rel(func(i, j int) bool { return j == i+1 }),                 // chain given by covers only (not transitive)
		rel(func(i, j int) bool { return i == 0 }),                   // 0 below everything
		rel(func(i, j int) bool { return j == n-1 }),                 // n-1 above everything
		rel(func(i, j int) bool { return j-i >= 2 }),                 // all but the covers
		rel(func(i, j int) bool { return i%2 == 0 && j%2 == 1 }),     // evens below larger odds
		rel(func(i, j int) bool { return j == 2*i+1 || j == 2*i+2 }), // heap-ordered tree (covers only)
		rel(func(i, j int) bool { return i%2 == j%2 }),               // two chains by parity
		rel(func(i, j int) bool { return i == 0 && j == n-1 }),       // one constraint
		rel(func(i, j int) bool { return j == i+2 }),                 // two interleaved chains, covers only
		rel(func(i, j int) bool { return i < n/2 && j >= n/2 }),      // complete bipartite: low half below high half
	}
}

func transitiveClosure(n int, m uint64) uint64 {
	for k := 0; k < n; k++ {
		for i := 0; i < k; i++ {
			for j := k + 1; j < n; j++ {
				if m>>pairBit(i, k)&1 == 1 && m>>pairBit(k, j)&1 == 1 {
					m |= 1 << pairBit(i, j)
				}
			}
		}
	}
	return m
}

func gen(g *hx.Gen) {
	r := g.Rng
	N := g.Pick(7, 8) // the size bound n of the exhaustive spaces

	// corpus: the boundary inputs on which the pinned tree failed (KNOWN_FINDINGS `fixed:` lines)
	for _, c := range []string{
		"colex 2 3", "colex 0 1", "colex 3 3", "mcomb 0 2 1", "mcomb 2 0 2 0", "mcomb 1", "mcomb 0", "mcomb 5 1 1",
		"parts 1", "intparts 0", "lexperm 0", "mperm", "mperm 0 0", "topo m0 0", "topo m5 3", "rpperm p0 0", "rpperm p0 3",
		"product", "product 0", "product 1 0 1", "rpprod p0", "rpprod p1", "rpprod p0 1 0 1", "pattern p0 0", "heap 0",
	} {
		g.Emit(c)
	}

	// Product: all factor lists of length <= 4 over 0..3, length <= 3 over 0..N, and all 0/1/2 lists up to length N
	for l := 0; l <= 4; l++ {
		lists(l, 0, 3, func(a []int) { g.Emit("product " + ints(a)) })
	}
	for l := 1; l <= 3; l++ {
		lists(l, 0, N, func(a []int) {
			if prodSize(a) <= 400 {
				g.Emit("product " + ints(a))
			}
		})
	}
	for l := 5; l <= N; l++ {
		lists(l, 0, 2, func(a []int) {
			if prodSize(a) > 0 || sum(a) >= 2*l-2 {
				g.Emit("product " + ints(a))
			}
		})
	}
	g.Exhaustive(fmt.Sprintf("Product: all factor lists of length <= 4 over 0..3; length <= 3 over 0..%d with at most 400 tuples; length 5..%d over 0..2 (lists with a zero only when at most one other factor is below 2)", N, N))

	// Combinations, CombinationsColex: all n <= N+2, k <= n+2
	for n := 0; n <= N+2; n++ {
		for k := 0; k <= n+2; k++ {
			g.Emit(fmt.Sprintf("comb %d %d", n, k))
			g.Emit(fmt.Sprintf("colex %d %d", n, k))
		}
	}
	g.Exhaustive(fmt.Sprintf("Combinations, CombinationsColex: all 0 <= n <= %d, 0 <= k <= n+2", N+2))

	// MultisetCombinations: all multiplicity lists of length <= 4 over 0..3 (length 5 over 0..2), every k <= sum+2
	for l := 0; l <= 5; l++ {
		hi := 3
		if l == 5 {
			hi = 2
		}
		lists(l, 0, hi, func(m []int) {
			for k := 0; k <= sum(m)+2; k++ {
				g.Emit(fmt.Sprintf("mcomb %d %s", k, ints(m)))
			}
		})
	}
	g.Exhaustive("MultisetCombinations: all multiplicity lists of length <= 4 over 0..3 and of length 5 over 0..2, every 0 <= k <= sum+2")

	// permutations
	for n := 0; n <= N; n++ {
		g.Emit(fmt.Sprintf("heap %d", n))
		g.Emit(fmt.Sprintf("lexperm %d", n))
	}
	g.Exhaustive(fmt.Sprintf("Permutations, LexicographicPermutations: all 0 <= n <= %d", N))
	for l := 0; l <= 5; l++ {
		lists(l, 0, 4, func(fr []int) {
			if sum(fr) <= N {
				g.Emit("mperm " + ints(fr))
			}
		})
	}
	g.Exhaustive(fmt.Sprintf("MultisetPermutations: all frequency lists of length <= 5 over 0..4 with sum <= %d", N))

	// partitions
	for n := 1; n <= N+1; n++ {
		g.Emit(fmt.Sprintf("parts %d", n))
	}
	for n := 0; n <= g.Pick(24, 45); n++ {
		g.Emit(fmt.Sprintf("intparts %d", n))
	}
	g.Exhaustive(fmt.Sprintf("Partitions: all 1 <= n <= %d; IntegerPartitions: all 0 <= n <= %d", N+1, g.Pick(24, 45)))

	// predicates: the fixed family plus truth tables derived from the seed
	var preds []string
	for i := 0; i < nFixedPreds; i++ {
		preds = append(preds, fmt.Sprintf("p%d", i))
	}
	nRandom := g.Pick(6, 40)
	for i := 0; i < nRandom; i++ {
		den := r.Range(2, 6)
		num := r.Range(1, den-1)
		if i%3 == 0 { // mostly accepting: deep backtracking from late failures
			den = r.Range(6, 12)
			num = den - 1
		}
		preds = append(preds, fmt.Sprintf("h%d:%d:%d", r.Intn(1<<30), num, den))
	}

	// RestrictedPrefixProduct: all factor lists of length <= 3 over 0..3 and length 4 over 0..2 x all predicates
	for _, p := range preds {
		for l := 0; l <= 4; l++ {
			hi := 3
			if l == 4 {
				hi = 2
			}
			lists(l, 0, hi, func(a []int) { g.Emit("rpprod " + p + " " + ints(a)) })
		}
		for l := 5; l <= N; l++ {
			a := make([]int, l)
			for i := range a {
				a[i] = 2
			}
			g.Emit("rpprod " + p + " " + ints(a))
			a[r.Intn(l)] = 1
			a[r.Intn(l)] = 3
			g.Emit("rpprod " + p + " " + ints(a))
		}
	}
	g.Exhaustive(fmt.Sprintf("RestrictedPrefixProduct: all factor lists of length <= 3 over 0..3 and of length 4 over 0..2, each with %d fixed and %d pseudo random prefix predicates", nFixedPreds, nRandom))

	// RestrictedPrefixPermutations, PermutationsByPattern: all n <= N-1 (n = N for the fixed family) x predicates
	for pi, p := range preds {
		for n := 0; n <= N; n++ {
			if n == N && pi >= nFixedPreds+2 && !g.Thorough() {
				continue
			}
			g.Emit(fmt.Sprintf("rpperm %s %d", p, n))
			g.Emit(fmt.Sprintf("pattern %s %d", p, n))
		}
	}
	g.Exhaustive(fmt.Sprintf("RestrictedPrefixPermutations, PermutationsByPattern: all 0 <= n <= %d with %d fixed and %d pseudo random predicates", N-1, nFixedPreds, nRandom))

	// TopologicalSorts: every relation on pairs i<j for n <= 5 (n <= 6 thorough); named and random ones above
	full := g.Pick(5, 6)
	for n := 0; n <= full; n++ {
		for m := uint64(0); m < 1<<uint(n*(n-1)/2); m++ {
			g.Emit(fmt.Sprintf("topo m%d %d", m, n))
		}
	}
	g.Exhaustive(fmt.Sprintf("TopologicalSorts: all 0 <= n <= %d with every relation contained in the natural order (transitive or not)", full))
	for n := full + 1; n <= N; n++ {
		for _, m := range namedMasks(n) {
			g.Emit(fmt.Sprintf("topo m%d %d", m, n))
		}
		cnt := g.Pick(60, 1500)
		if n == 8 {
			cnt = 150
		}
		for i := 0; i < cnt; i++ {
			var m uint64
			dens := r.Range(1, 6)
			for b := 0; b < n*(n-1)/2; b++ {
				if r.Chance(dens, 12) {
					m |= 1 << uint(b)
				}
			}
			if r.Bool() {
				m = transitiveClosure(n, m)
			}
			g.Emit(fmt.Sprintf("topo m%d %d", m, n))
		}
	}
}

func main() {
	hx.Main(hx.Prop{
		Rule:        "case = one constructor call (iterator, parameters, predicate or relation), drained completely with Value copied at every step and Next called three more times after the first false; non-trivial = the family has >= 2 objects or the parameters sit on a boundary (n <= 1, k in {0,n,n+1}, a zero or single factor/multiplicity); distinct by case text",
		Gen:         gen,
		Exec:        exec,
		CaseTimeout: 20 * time.Second,
		MemMB:       3072,
	})
}
