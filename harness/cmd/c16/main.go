// Command c16 exercises package comb (CoeffUint64, Coeff, Coeffs, Rank, Unrank) and the order
// of itertools.CombinationsColex (C16).
//
// Case lines (kind;arguments), shared with ocaml/c16/driver.ml:
//
//	U;n k        CoeffUint64(n,k)
//	C;n k        Coeff(n,k)
//	T;n          Coeffs(n)
//	R;c0 c1 ...  Rank of the increasing list
//	N;r k        Unrank(r,k) followed by Rank of the result
//	O;r k        Unrank(r,k) decided by the oracle below only (too many steps for the model driver)
//	X;n k        all values of CombinationsColex(n,k)
//	S;tok ...    a sequence of calls in one process: T<n>, U<n>,<k>, C<n>,<k>, R<c0>,<c1>,..., N<r>,<k>
//	             as above, and m = the caller scribbles over the slices the previous call returned
//
// Projected observation = what the property determines: the exact value where the function must
// return (C(n,k)*min(k,n-k) fits the result type), `opt:<value>` where it may either return the
// exact value or panic, `panic` where it must panic.  The raw result is the strict part.  Every
// result is also checked here against an independent computation with math/big; a failure is
// an oracle violation carrying the concrete arguments.
package main

import (
	"fmt"
	"math"
	"math/big"
	"strconv"
	"strings"
	"time"

	"github.com/Tom-Johnston/mamba/comb"
	"github.com/Tom-Johnston/mamba/itertools"
	"verifharness/hx"
)

var (
	big1     = big.NewInt(1)
	two64    = new(big.Int).Lsh(big1, 64)
	maxU64   = new(big.Int).Sub(two64, big1)
	maxIntB  = big.NewInt(math.MaxInt64)
	hugeKMin = uint64(34) // min(k,n-k) >= 34 implies C(n,k) >= C(68,34) > 2^64
)

// binom returns C(n,k) exactly, or nil when C(n,k) >= 2^64 (the partial products C(m+i,i) only
// grow, so the loop stops at the first one >= 2^64; min(k,n-k) >= 34 implies C(n,k) >= C(68,34) > 2^64).
func binom(n, k uint64) *big.Int {
	if k > n {
		return new(big.Int)
	}
	if k > n-k {
		k = n - k
	}
	if k >= hugeKMin {
		return nil
	}
	r := big.NewInt(1)
	nb := new(big.Int).SetUint64(n - k)
	t := new(big.Int)
	for i := uint64(1); i <= k; i++ {
		t.Add(nb, t.SetUint64(i))
		r.Mul(r, t)
		r.Quo(r, t.SetUint64(i))
		if r.Cmp(two64) >= 0 {
			return nil
		}
	}
	return r
}

// binomBig returns C(n,k) for small k without any cap.
func binomBig(n, k uint64) *big.Int {
	r := big.NewInt(1)
	t := new(big.Int)
	for i := uint64(1); i <= k; i++ {
		r.Mul(r, t.SetUint64(n-k+i))
		r.Quo(r, t.SetUint64(i))
	}
	return r
}

// class says what the property demands of a binomial-valued call with result type bound
// `limit`: must return (val*min(k,n-k) <= limit), may return (val <= limit), must panic.
type class struct {
	val        *big.Int // nil: huge
	must, fits bool
}

func classify(n, k uint64, limit *big.Int) class {
	c := binom(n, k)
	if c == nil {
		return class{}
	}
	m := k
	if k > n {
		return class{val: c, must: true, fits: true} // C = 0
	}
	if n-k < m {
		m = n - k
	}
	p := new(big.Int).Mul(c, new(big.Int).SetUint64(m))
	return class{val: c, must: p.Cmp(limit) <= 0, fits: c.Cmp(limit) <= 0}
}

// project turns a raw result (value or panic) into the projected observation and the oracle verdict.
func project(cl class, panicked bool, got *big.Int, what string) (string, []hx.OracleViolation) {
	val := "huge"
	if cl.val != nil {
		val = cl.val.String()
	}
	if !panicked {
		if cl.val == nil || got.Cmp(cl.val) != 0 {
			return "WRONG " + got.String() + " exact=" + val,
				[]hx.OracleViolation{hx.Fail(what+"/wrong-value", "%s returned %s, the exact value is %s", what, got, val)}
		}
		if cl.must {
			return val, nil
		}
		return "opt:" + val, nil
	}
	if cl.must {
		return "panic", []hx.OracleViolation{hx.Fail(what+"/panic-in-range", "%s panicked although the exact value %s times min(k,n-k) fits the result type", what, val)}
	}
	if cl.fits {
		return "opt:" + val, nil
	}
	return "panic", nil
}

// lastReturned holds the slices the most recent Coeffs / Unrank call handed to the caller; the
// token "m" of a sequence case scribbles over them, as a caller is free to do.
var lastReturned [][]int

func callU64(n, k uint64) (v uint64, panicked bool) {
	defer func() {
		if recover() != nil {
			panicked = true
		}
	}()
	return comb.CoeffUint64(n, k), false
}

func callCoeff(n, k int) (v int, panicked bool) {
	defer func() {
		if recover() != nil {
			panicked = true
		}
	}()
	return comb.Coeff(n, k), false
}

func callCoeffs(n int) (v [][]int, panicked bool) {
	defer func() {
		if recover() != nil {
			panicked = true
		}
	}()
	v = comb.Coeffs(n)
	lastReturned = v
	return v, false
}

func callRank(c []int) (v int, panicked bool) {
	defer func() {
		if recover() != nil {
			panicked = true
		}
	}()
	return comb.Rank(c), false
}

func callUnrank(r, k int) (v []int, panicked bool) {
	defer func() {
		if recover() != nil {
			panicked = true
		}
	}()
	v = comb.Unrank(r, k)
	lastReturned = [][]int{v}
	return v, false
}

func rawInt(v int, panicked bool) string {
	if panicked {
		return "panic"
	}
	return strconv.Itoa(v)
}

// rankClass: the colex rank sum C(c_i,i+1); Rank must return it when every term times
// min(i+1, c_i-i-1) and the sum fit an int.
func rankClass(c []int) class {
	sum := new(big.Int)
	must := true
	for i, v := range c {
		cl := classify(uint64(v), uint64(i+1), maxIntB)
		if cl.val == nil {
			return class{}
		}
		sum.Add(sum, cl.val)
		must = must && cl.must
	}
	fits := sum.Cmp(maxIntB) <= 0
	return class{val: sum, must: must && fits, fits: fits}
}

func increasingNaturals(c []int) bool {
	for i, v := range c {
		if v < 0 || (i > 0 && c[i-1] >= v) {
			return false
		}
	}
	return true
}

func nearThreshold(n, k uint64) bool {
	// within 3 of a point where the demanded behaviour changes (in the column min(k,n-k)),
	// for either result type
	if k > n {
		return false
	}
	if n-k < k {
		k = n - k
	}
	for _, lim := range []*big.Int{maxU64, maxIntB} {
		base := classify(n, k, lim)
		for d := -3; d <= 3; d++ {
			m := n + uint64(d)
			if (d < 0 && m > n) || (d > 0 && m < n) || m < 2*k {
				continue
			}
			cl := classify(m, k, lim)
			if cl.must != base.must || cl.fits != base.fits {
				return true
			}
		}
	}
	return false
}

func exec(line string) hx.Result {
	kind, rest, ok := strings.Cut(line, ";")
	if !ok {
		return hx.Result{Obs: "invalid"}
	}
	args := strings.Fields(rest)
	switch kind {
	case "U":
		if len(args) != 2 {
			break
		}
		n, e1 := strconv.ParseUint(args[0], 10, 64)
		k, e2 := strconv.ParseUint(args[1], 10, 64)
		if e1 != nil || e2 != nil {
			break
		}
		v, p := callU64(n, k)
		cl := classify(n, k, maxU64)
		obs, viol := project(cl, p, new(big.Int).SetUint64(v), fmt.Sprintf("CoeffUint64(%d,%d)", n, k))
		raw := "panic"
		if !p {
			raw = strconv.FormatUint(v, 10)
		}
		return hx.Result{Obs: obs + " ## " + raw, Nontrivial: n > 32 || nearThreshold(n, k), Viol: viol,
			Buckets: []string{"U:" + outcome(obs), "U:n" + bitBucket(n), "U:k" + kBucket(n, k)}}
	case "C":
		if len(args) != 2 {
			break
		}
		n, e1 := strconv.ParseInt(args[0], 10, 64)
		k, e2 := strconv.ParseInt(args[1], 10, 64)
		if e1 != nil || e2 != nil || n < 0 {
			break
		}
		v, p := callCoeff(int(n), int(k))
		var cl class
		if k < 0 {
			cl = class{val: new(big.Int), must: true, fits: true}
		} else {
			cl = classify(uint64(n), uint64(k), maxIntB)
		}
		obs, viol := project(cl, p, big.NewInt(int64(v)), fmt.Sprintf("Coeff(%d,%d)", n, k))
		return hx.Result{Obs: obs + " ## " + rawInt(v, p), Nontrivial: n > 32 || (k >= 0 && nearThreshold(uint64(n), uint64(k))), Viol: viol,
			Buckets: []string{"C:" + outcome(obs)}}
	case "T":
		if len(args) != 1 {
			break
		}
		n, e1 := strconv.Atoi(args[0])
		if e1 != nil || n < 0 {
			break
		}
		rows, p := callCoeffs(n)
		// Pascal's triangle must be returned iff its largest entry C(n, n/2) fits an int
		central := binom(uint64(n), uint64(n/2))
		mustPanic := central == nil || central.Cmp(maxIntB) > 0
		var viol []hx.OracleViolation
		obs := "panic"
		if !p {
			var sb strings.Builder
			okAll := len(rows) == n+1
			for i, r := range rows {
				if i > 0 {
					sb.WriteByte('/')
				}
				sb.WriteString(hx.Ints(r))
				if len(r) != i/2+1 {
					okAll = false
					continue
				}
				for j, x := range r {
					if b := binom(uint64(i), uint64(j)); b == nil || b.Cmp(big.NewInt(int64(x))) != 0 {
						okAll = false
					}
				}
			}
			obs = sb.String()
			if !okAll || mustPanic {
				viol = append(viol, hx.Fail("Coeffs/wrong", "Coeffs(%d) is not Pascal's triangle (rows 0..n, row i = C(i,0..i/2))", n))
			}
		} else if !mustPanic {
			viol = append(viol, hx.Fail("Coeffs/panic", "Coeffs(%d) panicked although every entry fits an int", n))
		}
		return hx.Result{Obs: obs, Nontrivial: n > 32, Viol: viol, Buckets: []string{"T:" + outcome(obs)}}
	case "R":
		c := make([]int, len(args))
		for i, a := range args {
			v, err := strconv.Atoi(a)
			if err != nil || v < 0 {
				return hx.Result{Obs: "invalid"}
			}
			c[i] = v
		}
		// the argument is a view into a larger array (spare capacity behind it): Rank must leave
		// the set and everything around it as it was
		const pad, sentinel = 8, -99
		backing := make([]int, len(c)+2*pad)
		for i := range backing {
			backing[i] = sentinel
		}
		view := backing[pad : pad+len(c)]
		copy(view, c)
		v, p := callRank(view)
		cl := rankClass(c)
		obs, viol := project(cl, p, big.NewInt(int64(v)), "Rank(["+hx.Ints(c)+"])")
		for i := range backing {
			want := sentinel
			if i >= pad && i < pad+len(c) {
				want = c[i-pad]
			}
			if backing[i] != want {
				viol = append(viol, hx.Fail("Rank/wrote-to-argument", "Rank([%s]) changed the caller's array at offset %d relative to the argument (%d -> %d)", hx.Ints(c), i-pad, want, backing[i]))
				break
			}
		}
		if !increasingNaturals(c) {
			viol = nil // outside the property's domain (only reachable through shrinking)
		}
		return hx.Result{Obs: obs + " ## " + rawInt(v, p), Nontrivial: cl.val == nil || cl.val.Cmp(big.NewInt(1<<31)) > 0, Viol: viol,
			Buckets: []string{"R:" + outcome(obs), fmt.Sprintf("R:len<=%d", bucket(len(c)))}}
	case "N", "O":
		if len(args) != 2 {
			break
		}
		r, e1 := strconv.Atoi(args[0])
		k, e2 := strconv.Atoi(args[1])
		if e1 != nil || e2 != nil || r < 0 || k < 0 || (k == 0 && r != 0) {
			break
		}
		c, p := callUnrank(r, k)
		what := fmt.Sprintf("Unrank(%d,%d)", r, k)
		if p {
			return hx.Result{Obs: "panic", Nontrivial: r > 1<<31, Viol: []hx.OracleViolation{hx.Fail("Unrank/panic", "%s panicked", what)}}
		}
		var viol []hx.OracleViolation
		cl := rankClass(c)
		if len(c) != k || !increasingNaturals(c) || cl.val == nil || cl.val.Cmp(big.NewInt(int64(r))) != 0 {
			viol = append(viol, hx.Fail("Unrank/wrong", "%s = [%s] is not the increasing %d-list of colex rank %d", what, hx.Ints(c), k, r))
		}
		rv, rp := callRank(c)
		robs, rviol := project(cl, rp, big.NewInt(int64(rv)), "Rank("+what+")")
		viol = append(viol, rviol...)
		res := hx.Result{Nontrivial: r > 1<<31, Viol: viol, Buckets: []string{kind + ":k" + strconv.Itoa(bucket(k)), kind + ":r" + bitBucket(uint64(r))}}
		if kind == "O" {
			res.Obs = "oracle-only"
		} else {
			res.Obs = hx.Ints(c) + ";rt=" + robs + " ## " + rawInt(rv, rp)
		}
		return res
	case "S":
		// a sequence of calls made one after the other in this one process: every call must
		// behave as it does in fresh state (no hidden package-level state, panics recovered by
		// the caller, results scribbled over by the caller in between)
		var obs []string
		var viol []hx.OracleViolation
		calls := 0
		// every slice any call of the sequence returned stays held, with a snapshot of its
		// contents: no later call may change it (results of successive calls must not alias)
		type heldResult struct {
			call     int
			tok      string
			ref, was [][]int
		}
		var held []heldResult
		snapshot := func(ref [][]int) [][]int {
			was := make([][]int, len(ref))
			for i, sl := range ref {
				was[i] = append([]int(nil), sl...)
			}
			return was
		}
		revalidate := func(idx int, tok string) {
			for _, h := range held {
				for i := range h.ref {
					if hx.Ints(h.ref[i]) != hx.Ints(h.was[i]) {
						viol = append(viol, hx.Fail("aliasing/earlier-result-changed", "the result of call %d (%s) changed during call %d (%s): slice %d was [%s], is [%s]", h.call, h.tok, idx+1, tok, i, hx.Ints(h.was[i]), hx.Ints(h.ref[i])))
						return
					}
				}
			}
		}
		for idx, tok := range args {
			if tok == "m" {
				for _, sl := range lastReturned {
					for j := range sl {
						sl[j] = -7 - j
					}
				}
				if n := len(held); n > 0 && len(lastReturned) > 0 {
					held[n-1].was = snapshot(held[n-1].ref)
				}
				obs = append(obs, "m")
				continue
			}
			if !strings.Contains("UCTRN", tok[:1]) {
				return hx.Result{Obs: "invalid"}
			}
			lastReturned = nil
			sub := exec(tok[:1] + ";" + strings.ReplaceAll(tok[1:], ",", " "))
			proj, _, _ := strings.Cut(sub.Obs, " ## ")
			obs = append(obs, proj)
			for _, v := range sub.Viol {
				v.Detail = fmt.Sprintf("call %d (%s) of the sequence: %s", idx+1, tok, v.Detail)
				viol = append(viol, v)
			}
			calls++
			if len(viol) == 0 {
				revalidate(idx, tok)
			}
			if len(lastReturned) > 0 {
				held = append(held, heldResult{idx + 1, tok, lastReturned, snapshot(lastReturned)})
			}
		}
		return hx.Result{Obs: strings.Join(obs, " | "), Nontrivial: calls >= 2, Viol: viol,
			Buckets: []string{fmt.Sprintf("S:calls<=%d", bucket(calls))}}
	case "X":
		if len(args) != 2 {
			break
		}
		n, e1 := strconv.Atoi(args[0])
		k, e2 := strconv.Atoi(args[1])
		if e1 != nil || e2 != nil || n < 0 || k < 0 || n > 24 {
			break
		}
		total := binom(uint64(n), uint64(k)).Int64()
		it := itertools.CombinationsColex(n, k)
		var sb strings.Builder
		var viol []hx.OracleViolation
		count := int64(0)
		for it.Next() {
			if count > total+2 {
				viol = append(viol, hx.Fail("CombinationsColex/too-many", "CombinationsColex(%d,%d) yields more than C(n,k) values", n, k))
				break
			}
			v := append([]int(nil), it.Value()...)
			if count > 0 {
				sb.WriteByte('/')
			}
			sb.WriteString(hx.Ints(v))
			if len(viol) == 0 {
				if rk, p := callRank(v); p || int64(rk) != count {
					viol = append(viol, hx.Fail("CombinationsColex/rank", "value %d of CombinationsColex(%d,%d) is [%s] but Rank of it is %s", count, n, k, hx.Ints(v), rawInt(rk, p)))
				}
				if u, p := callUnrank(int(count), k); p || hx.Ints(u) != hx.Ints(v) {
					viol = append(viol, hx.Fail("CombinationsColex/unrank", "value %d of CombinationsColex(%d,%d) is [%s] but Unrank(%d,%d) = [%s]", count, n, k, hx.Ints(v), count, k, hx.Ints(u)))
				}
			}
			count++
		}
		if count != total && len(viol) == 0 {
			viol = append(viol, hx.Fail("CombinationsColex/count", "CombinationsColex(%d,%d) yields %d values, C(n,k) = %d", n, k, count, total))
		}
		return hx.Result{Obs: sb.String(), Nontrivial: total >= 2, Viol: viol, Buckets: []string{"X"}}
	}
	return hx.Result{Obs: "invalid"}
}

func bits64(n uint64) int {
	b := 0
	for ; n > 0; n >>= 1 {
		b++
	}
	return b
}

func outcome(obs string) string {
	switch {
	case strings.HasPrefix(obs, "WRONG"):
		return "wrong"
	case strings.HasPrefix(obs, "opt:"):
		return "may-panic-range"
	case obs == "panic":
		return "panic"
	}
	return "exact"
}

func bucket(n int) int {
	b := 1
	for b < n {
		b *= 2
	}
	return b
}

func bitBucket(n uint64) string {
	bits := 0
	for ; n > 0; n >>= 1 {
		bits++
	}
	return fmt.Sprintf("<2^%d", (bits+7)/8*8)
}

func kBucket(n, k uint64) string {
	if k > n {
		return ">n"
	}
	if k > n-k {
		k = n - k
		if k <= 40 {
			return "sym<=40"
		}
		return "sym>40"
	}
	if k <= 31 {
		return "<=31"
	}
	if k <= 40 {
		return "<=40"
	}
	return ">40"
}

// ---------------------------------------------------------------- generation

// largest n in [lo, 2^64) with pred(n), pred being monotone (true then false); lo-1 if none.
func lastTrue(lo uint64, pred func(uint64) bool) uint64 {
	if !pred(lo) {
		return lo - 1
	}
	hi := ^uint64(0)
	if pred(hi) {
		return hi
	}
	for hi-lo > 1 { // pred(lo) && !pred(hi)
		mid := lo + (hi-lo)/2
		if pred(mid) {
			lo = mid
		} else {
			hi = mid
		}
	}
	return lo
}

// thresholds of column k computed independently of the code under test:
// largest n with C(n,k) <= limit and largest n with k*C(n,k) <= limit (n >= 2k).
func trueThresholds(k uint64, limit *big.Int) (fit, step uint64) {
	kb := new(big.Int).SetUint64(k)
	fit = lastTrue(2*k, func(n uint64) bool { c := binom(n, k); return c != nil && c.Cmp(limit) <= 0 })
	step = lastTrue(2*k, func(n uint64) bool {
		c := binom(n, k)
		return c != nil && new(big.Int).Mul(c, kb).Cmp(limit) <= 0
	})
	return
}

// estimated number of steps of Unrank's walk: the top element is about (k! r)^(1/k), and every
// level walks about that far.
func unrankSteps(r uint64, k int) float64 {
	if k == 0 {
		return 1
	}
	lf := 0.0
	for i := 2; i <= k; i++ {
		lf += math.Log(float64(i))
	}
	top := math.Exp((lf + math.Log(float64(r)+1)) / float64(k))
	return (top + float64(k)) * float64(k+1) / 2
}

func gen(g *hx.Gen) {
	emit := func(format string, a ...interface{}) { g.Emit(fmt.Sprintf(format, a...)) }
	modelSteps := 0.0 // budget of walk steps handed to the (slow) model driver
	modelBudget := float64(g.Pick(350000, 12000000))
	perCase := float64(g.Pick(60000, 2500000))
	skipped := 0
	unrankCase := func(r uint64, k int) {
		if r > math.MaxInt64 {
			return
		}
		// Unrank walks upwards one step at a time: Theta(r^(1/k)) steps.  It terminates for
		// every r (theorem) but k=1 is capped at r <= 10^7 and k=2 at r <= 10^14 here.
		if (k == 1 && r > 10000000) || (k == 2 && r > 100000000000000) {
			skipped++
			return
		}
		s := unrankSteps(r, k)
		if s <= perCase && modelSteps+s <= modelBudget {
			modelSteps += s
			emit("N;%d %d", r, k)
		} else {
			emit("O;%d %d", r, k)
		}
	}

	// corpus: the inputs of the defects repaired in /repo (KNOWN_FINDINGS.txt, fixed: C16)
	emit("U;4000000 3")
	emit("U;80 19")
	emit("C;4000000 3")
	emit("C;80 19")
	emit("U;33290221 3")
	emit("T;67")
	emit("T;70")
	emit("O;1333313333400026 3")

	// every (n,k) with n <= 72 (thorough: 130), k up to n+1, both entry points: all of the table,
	// and min(k,n-k) = 30..34 on either side of largestK for every n around 62..70
	smallN := g.Pick(72, 130)
	for n := 0; n <= smallN; n++ {
		for k := 0; k <= n+1; k++ {
			emit("U;%d %d", n, k)
			emit("C;%d %d", n, k)
		}
		emit("C;%d -1", n)
	}
	g.Exhaustive(fmt.Sprintf("CoeffUint64 and Coeff on every (n,k) with n <= %d, k <= n+1", smallN))

	// n at the value boundaries 2^e-1, 2^e, 2^e+1 (e = 5..64), 10^e +- 1, MaxInt/2 +- 1, with k tiny,
	// n-k tiny (k itself beyond 2^63) and k around n/2
	var edgeN []uint64
	for e := uint(5); e <= 64; e++ {
		var p2 uint64 // e = 64: 0, so that p2-1 = 2^64-1
		if e < 64 {
			p2 = 1 << e
		}
		for _, n := range []uint64{p2 - 2, p2 - 1, p2, p2 + 1} {
			if e < 64 || n >= 1<<63 {
				edgeN = append(edgeN, n)
			}
		}
	}
	for p10 := uint64(100); p10 < 1<<63; p10 *= 10 {
		edgeN = append(edgeN, p10-1, p10, p10+1)
		if p10 > (1<<64-1)/10 {
			break
		}
	}
	edgeN = append(edgeN, math.MaxInt64/2-1, math.MaxInt64/2, math.MaxInt64/2+1, math.MaxInt64/2+2)
	for _, n := range edgeN {
		ks := []uint64{0, 1, 2, 3, n - 3, n - 2, n - 1, n, n + 1, n/2 - 1, n / 2, n/2 + 1, n/2 + 2}
		for _, k := range ks {
			if k > n && k != n+1 {
				continue // wrapped
			}
			emit("U;%d %d", n, k)
			if n <= math.MaxInt64 && k <= math.MaxInt64 {
				emit("C;%d %d", n, k)
			}
		}
	}
	g.Exhaustive("CoeffUint64 (and Coeff where the arguments are ints) for n in {2^e-2..2^e+1 : e = 5..64} u {10^e-1..10^e+1} u {MaxInt/2-1..MaxInt/2+2} and k in {0..3, n-3..n+1, n/2-1..n/2+2}")

	// both sides of every threshold: the implementation's own (found by probing where it starts
	// to panic) and the true ones computed with math/big, each +-3, with the k > n/2 mirror
	window := func(t uint64, k uint64) {
		for d := -3; d <= 3; d++ {
			n := t + uint64(d)
			if (d < 0 && n > t) || (d > 0 && n < t) || n < k {
				continue
			}
			emit("U;%d %d", n, k)
			emit("U;%d %d", n, n-k)
			if n <= math.MaxInt64 {
				emit("C;%d %d", n, k)
				emit("C;%d %d", n, n-k)
			}
		}
	}
	for k := uint64(1); k <= 33; k++ {
		probed := lastTrue(2*k, func(n uint64) bool { _, p := callU64(n, k); return !p })
		window(probed, k)
		probedInt := lastTrue(2*k, func(n uint64) bool {
			if n > math.MaxInt64 {
				return false
			}
			_, p := callCoeff(int(n), int(k))
			return !p
		})
		window(probedInt, k)
		for _, lim := range []*big.Int{maxU64, maxIntB} {
			fit, step := trueThresholds(k, lim)
			window(fit, k)
			window(step, k)
		}
	}
	g.Exhaustive("for k = 1..33: n within 3 of the point where CoeffUint64 / Coeff start to panic (probed) and of the true thresholds C(n,k) <= limit, k*C(n,k) <= limit for limit = 2^64-1 and MaxInt, with the mirror k' = n-k")

	// Coeffs(0..70)
	for n := 0; n <= 70; n++ {
		emit("T;%d", n)
	}
	emit("T;100")
	emit("T;1000")
	for _, n := range []int{127, 128, 129, 255, 256, 257} {
		emit("T;%d", n)
	}
	g.Exhaustive("Coeffs(n) for n = 0..70")

	// random (n,k)
	rnd := g.Rng
	randBits := func() uint64 { return rnd.U64() >> uint(rnd.Intn(64)) }
	count := g.Pick(4000, 200000)
	for i := 0; i < count; i++ {
		var n, k uint64
		switch rnd.Intn(6) {
		case 0:
			n, k = rnd.U64(), rnd.U64()
		case 1:
			n, k = randBits(), uint64(rnd.Intn(41))
		case 2:
			n = randBits()
			k = n - uint64(rnd.Intn(41))
			if k > n {
				k = n
			}
		case 3:
			n = uint64(rnd.Intn(200))
			k = uint64(rnd.Intn(int(n) + 2))
		case 4:
			// around the working range of column k
			k = uint64(rnd.Range(1, 33))
			_, step := trueThresholds(k, maxU64)
			span := 2*step - 2*k + 1
			if span == 0 || span < step {
				span = step
			}
			n = 2*k + rnd.U64()%span
		default:
			n, k = randBits(), randBits()
		}
		if rnd.Chance(1, 3) && n <= math.MaxInt64 && k <= math.MaxInt64 {
			emit("C;%d %d", n, k)
		} else {
			emit("U;%d %d", n, k)
		}
	}

	emit("N;0 0")
	// Rank / Unrank.  Boundary ranks first (they get the model driver's step budget first):
	// ranks near 2^31, 2^62, MaxInt and the places where C(l,k) crosses them
	for _, base := range []uint64{1 << 31, 1 << 32, 1 << 62, math.MaxInt64, 10000000, 100000000000000} {
		for k := 1; k <= 12; k++ {
			for d := -2; d <= 2; d++ {
				r := base + uint64(d)
				if r > math.MaxInt64 {
					continue
				}
				unrankCase(r, k)
			}
		}
		for _, k := range []int{16, 20, 31, 32, 33, 40, 64, 100} {
			unrankCase(base, k)
		}
	}
	for i := 0; i < g.Pick(300, 5000); i++ {
		k := rnd.Range(1, 12)
		if rnd.Chance(1, 6) {
			k = rnd.Range(13, 70)
		}
		r := randBits() >> 1
		unrankCase(r, k)
	}
	// ranks right at C(l,k)-1, C(l,k), C(l,k)+1 (where the top element changes)
	for i := 0; i < g.Pick(300, 5000); i++ {
		k := rnd.Range(2, 10)
		fit, _ := trueThresholds(uint64(k), maxIntB)
		l := uint64(k) + rnd.U64()%(fit-uint64(k)+1)
		if rnd.Chance(1, 3) {
			l = fit - uint64(rnd.Intn(3))
		}
		c := binom(l, uint64(k))
		if c == nil || !c.IsInt64() {
			continue
		}
		for d := int64(-1); d <= 1; d++ {
			if r := c.Int64() + d; r >= 0 && (d <= 0 || r > 0) {
				unrankCase(uint64(r), k)
			}
		}
	}
	// the boundary hi == d of the 128-bit division in Unrank's walk: C(l+1,k) in [2^64, 2^64 + 2^64/d)
	// with d = l+1-k =: e.  That needs l+1 <= 2k, i.e. subsets [0,1,...,k-2,k+e-1]: for every e the
	// sizes k with C(k+e,e) just above 2^64, rank C(k+e-1,e-1) (+0,+1).  (For e <= 5 the size k is
	// beyond what the model driver walks in reasonable time: those go to the oracle-only stream.)
	for e := uint64(3); e <= 40; e++ {
		lim := new(big.Int).Add(two64, new(big.Int).Quo(two64, new(big.Int).SetUint64(e)))
		k0 := lastTrue(1, func(k uint64) bool { return k < 1<<40 && binomBig(k+e, e).Cmp(two64) < 0 }) + 1
		for k := k0; k < k0+3 && k < 8000000; k++ {
			if k < 2 || binomBig(k+e, e).Cmp(lim) >= 0 {
				break
			}
			r := binomBig(k+e-1, e-1)
			if !r.IsInt64() {
				break
			}
			unrankCase(uint64(r.Int64()), int(k))
			if k <= 100000 {
				unrankCase(uint64(r.Int64())+1, int(k))
			}
		}
	}

	// every r < 5000 for k <= 6 (short walks on small numbers: a budget of their own)
	modelSteps, modelBudget = 0, float64(g.Pick(1500000, 25000000))
	for k := 2; k <= 6; k++ {
		for r := 0; r < 5000; r++ {
			unrankCase(uint64(r), k)
		}
	}
	if g.Thorough() {
		for r := 0; r < 5000; r++ {
			unrankCase(uint64(r), 1)
		}
		g.Exhaustive("Unrank(r,k) and Rank(Unrank(r,k)) for all r < 5000, k = 1..6")
	} else {
		for r := 0; r < 5000; r++ {
			if r < 300 || r%53 == 0 {
				unrankCase(uint64(r), 1)
			}
		}
		g.Exhaustive("Unrank(r,k) and Rank(Unrank(r,k)) for all r < 5000, k = 2..6 (k = 1: r < 300 and every 53rd)")
	}
	if skipped > 0 {
		g.Note(fmt.Sprintf("%d Unrank cases skipped by the caps r <= 10^7 (k=1), r <= 10^14 (k=2): Unrank walks upwards step by step", skipped))
	}

	// Rank on increasing lists: small ones, and ones whose terms sit at the int thresholds
	for i := 0; i < g.Pick(1500, 40000); i++ {
		k := rnd.Range(1, 8)
		if rnd.Chance(1, 5) {
			k = rnd.Range(9, 40)
		}
		c := make([]int, k)
		switch rnd.Intn(3) {
		case 0: // small, dense
			v := rnd.Intn(3)
			for j := range c {
				c[j] = v
				v += 1 + rnd.Intn(4)
			}
		case 1: // top element at a threshold of its column
			fit, step := trueThresholds(uint64(k), maxIntB)
			top := step
			if rnd.Bool() {
				top = fit
			}
			top = top + uint64(rnd.Intn(7)) - 3
			if top > math.MaxInt64 || top < uint64(k) {
				top = uint64(k) + 5
			}
			c[k-1] = int(top)
			for j := k - 2; j >= 0; j-- {
				room := c[j+1] - j
				c[j] = j + int(rnd.U64()%uint64(room))
				if rnd.Chance(1, 3) {
					c[j] = c[j+1] - 1
				}
			}
		default: // random magnitudes
			for j := k - 1; j >= 0; j-- {
				hi := uint64(math.MaxInt64)
				if j < k-1 {
					hi = uint64(c[j+1] - 1)
				}
				if hi < uint64(j) {
					hi = uint64(j)
				}
				v := randBits() >> 1
				if v > hi {
					v = hi
				}
				if v < uint64(j) {
					v = uint64(j)
				}
				c[j] = int(v)
			}
		}
		if !increasingNaturals(c) {
			continue
		}
		strs := make([]string, k)
		for j, v := range c {
			strs[j] = strconv.Itoa(v)
		}
		emit("R;%s", strings.Join(strs, " "))
	}

	// ---- ranks at, just below and just above C(l,k) for small k, l on a geometric grid over the
	// whole feasible range -- including l for which the rank exceeds 2^53, where floating point
	// loses integers.  Unrank walks l upwards one step at a time (about k*l steps), so these are
	// slow calls: they get a step budget of their own and are judged by the oracle only.
	slowSteps, slowBudget, slowSkipped := 0.0, float64(g.Pick(4, 19))*1e9, 0
	slow := func(r *big.Int, k int, l uint64) {
		if r.Sign() < 0 || !r.IsInt64() {
			return
		}
		steps := float64(k) * float64(l)
		if steps <= 20000 {
			unrankCase(uint64(r.Int64()), k)
			return
		}
		if slowSteps+steps > slowBudget {
			slowSkipped++
			return
		}
		slowSteps += steps
		emit("O;%d %d", r.Int64(), k)
	}
	rankSets := func(l uint64, k int) {
		// the k-sets whose ranks are C(l,k)-1, C(l,k), C(l,k)+1 and two in between
		if l < uint64(k)+2 || l > math.MaxInt64-2 {
			return
		}
		sets := [][]int{make([]int, k), make([]int, k), make([]int, k), make([]int, k)}
		for j := 0; j < k; j++ {
			sets[0][j] = int(l) - k + j // {l-k..l-1}: rank C(l,k)-1
			sets[1][j] = j              // {0..k-2, l}: rank C(l,k)
			sets[2][j] = j
			sets[3][j] = int(l) - k + j
		}
		sets[1][k-1] = int(l)
		sets[2][k-1] = int(l)
		sets[2][k-2] = k - 1 // {0..k-3, k-1, l}: rank C(l,k)+1
		sets[3][0] = 0       // {0, l-k+1..l-1}
		for _, c := range sets {
			if increasingNaturals(c) {
				strs := make([]string, k)
				for j, v := range c {
					strs[j] = strconv.Itoa(v)
				}
				emit("R;%s", strings.Join(strs, " "))
			}
		}
	}
	// l at the implementation's own overflow thresholds (maxSizes[k] of the code under test, found
	// by probing where CoeffUint64 starts to panic) and at the true ones, +-1, d = -2..2, for every
	// column k = 2..33: Unrank of C(l,k)+d and Rank of the neighbouring sets.  k = 2 has l = 2^32,
	// a walk of 2^32 steps per call: Unrank is skipped there (Rank is not).
	for k := 2; k <= 33; k++ {
		probed := lastTrue(2*uint64(k), func(n uint64) bool { _, p := callU64(n, uint64(k)); return !p })
		_, step := trueThresholds(uint64(k), maxU64)
		seen := map[uint64]bool{}
		for _, t := range []uint64{probed, step} {
			for dl := -1; dl <= 1; dl++ {
				l := t + uint64(dl)
				if seen[l] || l < uint64(k) {
					continue
				}
				seen[l] = true
				rankSets(l, k)
				if k == 2 {
					continue
				}
				c := binomBig(l, uint64(k))
				for d := int64(-2); d <= 2; d++ {
					slow(new(big.Int).Add(c, big.NewInt(d)), k, l)
				}
			}
		}
	}
	g.Exhaustive("Unrank at C(l,k)+d, d = -2..2 (k = 3..33), and Rank of the sets of rank C(l,k)-1..C(l,k)+1 (k = 2..33), for l within 1 of the point where CoeffUint64 starts to panic in column k (probed) and of the true threshold k*C(l,k) < 2^64")
	g.Note("Unrank at C(l,2)+d for l = 2^32 (maxSizes[2]) is not executed: one call walks 2^32 steps")

	for k := 2; k <= 6; k++ {
		fit, _ := trueThresholds(uint64(k), maxIntB) // largest l with C(l,k) <= MaxInt
		walkMax := fit
		if k == 2 {
			walkMax = uint64(g.Pick(3<<26+3<<22, 1<<29+1<<25)) // C(l,2) up to 2*10^16 (quick), 1.6*10^17 (thorough)
		}
		var grid []uint64
		for j := uint(4); j < 63; j++ {
			for _, b := range []uint64{1 << j, 3 << (j - 1)} {
				if b <= fit {
					grid = append(grid, b+rnd.U64()%(b/16+1))
				}
			}
		}
		grid = append(grid, fit-1, fit, fit+1)
		if k == 2 {
			grid = append(grid, 94906266) // C(l,2) just below 2^53 (the grid point 2^27+... is just above)
		}
		// the largest l first: they are the ones the budget must not drop
		for i := len(grid) - 1; i >= 0; i-- {
			l := grid[i]
			rankSets(l, k)
			if l > walkMax {
				continue
			}
			ds := []int64{-3, -2, -1, 0, 1}
			if !g.Thorough() && k == 2 {
				ds = []int64{-2, -1, 0}
				if l < 1<<26 {
					ds = []int64{-1, 0}
					if bits64(l)%4 != 0 {
						continue
					}
				}
			}
			c := binomBig(l, uint64(k))
			for _, d := range ds {
				slow(new(big.Int).Add(c, big.NewInt(d)), k, l)
			}
		}
	}
	g.Exhaustive("Unrank at C(l,k)+d, d = -3..1, and Rank of the sets of rank C(l,k)-1..C(l,k)+1, for k = 2..6 and l on a geometric grid (2^j, 3*2^(j-1), randomly offset) up to the largest feasible l (Unrank with k = 2: l <= 3*2^26 in the quick tier, 2^29 in the thorough tier)")
	if slowSkipped > 0 {
		g.Note(fmt.Sprintf("%d slow Unrank cases dropped by the step budget", slowSkipped))
	}

	// ---- Rank on both sides of the points where Coeff starts to refuse (k*C(l,k) > MaxInt) and
	// where C(l,k) itself leaves int, k = 2..33 (k = 2: the 32-bit boundary l = 2^32), +-3
	for k := 2; k <= 33; k++ {
		fit, step := trueThresholds(uint64(k), maxIntB)
		for _, t := range []uint64{fit, step} {
			for d := -3; d <= 3; d++ {
				rankSets(t+uint64(d), k)
			}
		}
	}
	g.Exhaustive("Rank of the sets of rank C(l,k)-1, C(l,k), C(l,k)+1 for k = 2..33 and l within 3 of the thresholds C(l,k) <= MaxInt and k*C(l,k) <= MaxInt")

	// ---- long sets whose rank SUM crosses MaxInt, 2^64, 2^64 + 2^63 and 2^65 while every single term
	// C(c_i, i+1) stays far inside the range of Coeff: the shifted initial segments {s..s+k-1} (rank
	// C(s+k,k)-1) for k = 34..800, s just below / at / above the least shift whose rank reaches the
	// target.  A sum kept in a wider or unsigned accumulator, checked once at the end, or checked
	// for a single wrap only, is wrong exactly here (the wrapped value can land anywhere in int).
	{
		one := big.NewInt(1)
		targets := []*big.Int{
			new(big.Int).Lsh(one, 63), new(big.Int).Lsh(one, 64),
			new(big.Int).Add(new(big.Int).Lsh(one, 64), new(big.Int).Lsh(one, 63)), new(big.Int).Lsh(one, 65),
		}
		for _, k := range []int{34, 40, 50, 64, 100, 128, 166, 200, 256, 300, 453, 512, 738, 800} {
			for _, T := range targets {
				sh := -1
				for s0 := 0; s0 <= 4000; s0++ {
					r := new(big.Int).Binomial(int64(s0+k), int64(k))
					r.Sub(r, one)
					if r.Cmp(T) >= 0 {
						sh = s0
						break
					}
				}
				if sh < 0 {
					continue
				}
				for d := -1; d <= 1; d++ {
					if sh+d < 0 {
						continue
					}
					strs := make([]string, k)
					for j := range strs {
						strs[j] = strconv.Itoa(sh + d + j)
					}
					emit("R;%s", strings.Join(strs, " "))
					// the same with the least element pulled down to 0 (one term changes)
					if sh+d > 0 {
						strs[0] = "0"
						emit("R;%s", strings.Join(strs, " "))
					}
				}
			}
		}
	}

	// ---- sizes across the thresholds 8, 16, ..., 1024: Rank of the shifted initial segments
	// {s..s+k-1} (rank C(s+k,k)-1) and Unrank of small and of large ranks with that many elements
	for sz := 8; sz <= g.Pick(1024, 4096); sz *= 2 {
		for _, k := range []int{sz - 1, sz, sz + 1} {
			for s0 := 0; s0 <= 2; s0++ {
				strs := make([]string, k)
				for j := range strs {
					strs[j] = strconv.Itoa(s0 + j)
				}
				emit("R;%s", strings.Join(strs, " "))
			}
			if k <= g.Pick(257, 1025) {
				for _, r := range []uint64{0, 1, uint64(k), uint64(k) + 1, 1000003, 1 << 31, 1 << 62, math.MaxInt64} {
					unrankCase(r, k)
				}
			}
		}
	}

	// ---- the band of ranks in which the walk of the top level is left through one of its two
	// overflow exits (C(l+1,k) > MaxInt): r in [C(fit,k), MaxInt], fit = the largest l with
	// C(l,k) <= MaxInt, for every k = 3..70, plus fixed large ranks
	for k := 3; k <= 70; k++ {
		fit, _ := trueThresholds(uint64(k), maxIntB)
		lo := binomBig(fit, uint64(k))
		span := new(big.Int).Sub(maxIntB, lo).Uint64() + 1
		for i := 0; i < g.Pick(3, 40); i++ {
			slow(new(big.Int).Add(lo, new(big.Int).SetUint64(rnd.U64()%span)), k, fit)
		}
		for _, r := range []uint64{math.MaxInt64, math.MaxInt64 - 1, 1 << 62, 1<<53 - 1, 1<<53 + 1} {
			slow(new(big.Int).SetUint64(r), k, fit)
		}
	}

	// results held while later calls run, sizes going down and up again
	// (the S exec re-validates every earlier result after every later call)
	holdSeqs := [][]string{
		{"T20", "T10", "T5", "T12", "T30"}, {"T66", "T3", "T66", "T40"},
		{"N1000000,5", "N77,3", "N5,2", "N123456,4", "N99999999,6"},
		{"N4000,6", "N4001,6", "N4002,6"}, {"N12,2", "T9", "N13,2", "T9", "N12,3"},
	}
	for _, h := range holdSeqs {
		emit("S;%s", strings.Join(h, " "))
	}
	for i := 0; i < g.Pick(40, 1000); i++ {
		n := rnd.Range(3, 7)
		toks := make([]string, n)
		unr := rnd.Bool()
		for j := range toks {
			if unr {
				toks[j] = fmt.Sprintf("N%d,%d", rnd.Intn(3000000), []int{1, 2, 3, 4, 7, 8, 9, 15, 16, 17, 31, 33}[rnd.Intn(12)])
				if toks[j][1] != '0' && strings.HasSuffix(toks[j], ",1") {
					toks[j] = fmt.Sprintf("N%d,1", rnd.Intn(3000))
				}
			} else {
				toks[j] = fmt.Sprintf("T%d", []int{0, 1, 2, 7, 8, 9, 15, 16, 17, 31, 32, 33, 63, 64, 65, 66}[rnd.Intn(16)])
			}
		}
		emit("S;%s", strings.Join(toks, " "))
	}

	// ---- sequences of calls inside one process: hidden package-level state, recovered panics
	// followed by further calls, results scribbled over by the caller ("m")
	seq := func(toks ...string) { emit("S;%s", strings.Join(toks, " ")) }
	T := func(n int) string { return fmt.Sprintf("T%d", n) }
	for _, hi := range []int{67, 68, 70, 100} {
		for _, n := range []int{65, 66, 67, 68} {
			if n <= hi {
				seq(T(hi), T(n))
				seq(T(n), T(hi), T(n))
				seq(T(hi), "m", T(n), T(hi))
			}
		}
	}
	seq("T66", "m", "T66")
	seq("T10", "m", "T12", "m", "T5")
	seq("T30", "m", "T66", "T67", "T66", "m", "T33")
	seq("N1000,3", "m", "N1000,3")
	seq("N5,2", "m", "N6,2", "R0,1", "m", "N5,2")
	seq("R1,2,9223372036854775807", "R1,2,3", "N2,3")
	for _, k := range []uint64{2, 3, 19, 31} {
		_, step := trueThresholds(k, maxU64)
		seq(fmt.Sprintf("U%d,%d", step+1, k), fmt.Sprintf("U%d,%d", step, k), fmt.Sprintf("U%d,%d", step+1, k), fmt.Sprintf("U%d,%d", step, step-k))
		if step < math.MaxInt64 {
			seq(fmt.Sprintf("C%d,%d", step+1, k), fmt.Sprintf("C%d,%d", step, k), fmt.Sprintf("U%d,%d", step, k))
		}
	}
	for i := 0; i < g.Pick(150, 4000); i++ {
		n := rnd.Range(2, 8)
		var toks []string
		for len(toks) < n {
			if len(toks) > 0 && toks[len(toks)-1] != "m" && rnd.Chance(1, 4) {
				toks = append(toks, "m")
				continue
			}
			switch rnd.Intn(6) {
			case 0, 1:
				v := rnd.Intn(13)
				switch rnd.Intn(3) {
				case 0:
					v = rnd.Range(60, 72)
				case 1:
					v = []int{31, 32, 33, 63, 64, 65, 66, 67, 68, 100, 127, 128, 129}[rnd.Intn(13)]
				}
				toks = append(toks, T(v))
			case 2:
				k := uint64(rnd.Range(1, 33))
				_, step := trueThresholds(k, maxU64)
				nn := step + uint64(rnd.Intn(5)) - 2
				if nn < k || rnd.Bool() {
					nn = uint64(rnd.Intn(90))
					k = uint64(rnd.Intn(int(nn) + 2))
				}
				toks = append(toks, fmt.Sprintf("U%d,%d", nn, k))
			case 3:
				k := uint64(rnd.Range(1, 33))
				_, step := trueThresholds(k, maxIntB)
				nn := step + uint64(rnd.Intn(5)) - 2
				if nn < k || nn > math.MaxInt64 || rnd.Bool() {
					nn = uint64(rnd.Intn(90))
					k = uint64(rnd.Intn(int(nn) + 2))
				}
				toks = append(toks, fmt.Sprintf("C%d,%d", nn, k))
			case 4:
				k := rnd.Range(1, 5)
				c := make([]string, k)
				v := rnd.Intn(4)
				for j := range c {
					if j == k-1 && rnd.Chance(1, 4) {
						v += int(randBits() >> 1 % (math.MaxInt64 - 100))
					}
					c[j] = strconv.Itoa(v)
					v += 1 + rnd.Intn(5)
				}
				toks = append(toks, "R"+strings.Join(c, ","))
			default:
				k := rnd.Range(2, 6)
				toks = append(toks, fmt.Sprintf("N%d,%d", rnd.Intn(200000), k))
			}
		}
		seq(toks...)
	}

	// agreement with CombinationsColex
	maxN := g.Pick(12, 16)
	for n := 0; n <= maxN; n++ {
		for k := 0; k <= n+1; k++ {
			emit("X;%d %d", n, k)
		}
	}
	g.Exhaustive(fmt.Sprintf("CombinationsColex(n,k) against Rank and Unrank for all n <= %d, k <= n+1", maxN))
}

func main() {
	hx.Main(hx.Prop{
		Rule:        "case = one call (CoeffUint64/Coeff (n,k), Coeffs(n), Rank(list), Unrank(r,k), CombinationsColex(n,k)) or a sequence S of such calls in one process (non-trivial with at least 2 calls); non-trivial = an (n,k) with n > 32 or within 3 of a point where the demanded behaviour changes, or a rank > 2^31 (CombinationsColex: at least 2 values); distinct by case text",
		Gen:         gen,
		Exec:        exec,
		CaseTimeout: 60 * time.Second,
		MemMB:       4096,
	})
}
