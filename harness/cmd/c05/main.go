// Command c05 replays edit histories on graph.DenseGraph and graph.SparseGraph and prints,
// after every operation, all observers of every live graph of both representations (C05).
//
// Case syntax (shared with ocaml/c05/driver.ml):  <n0>;tok tok tok ...
//
//	e<g>,<i>,<j> AddEdge   x<g>,<i>,<j> RemoveEdge   r<g>,<v> RemoveVertex
//	v<g>,<a>.<b>... AddVertex   s<g>,<a>.<b>... InducedSubgraph   c<g> Copy
//
// All numbers are raw: the store index is taken modulo the store size, vertices modulo the
// current n of that graph (an op needing a vertex is skipped when n = 0), vertex lists are
// reduced modulo n and repeats after the first are dropped.  A created graph is appended while
// the store has fewer than 4 entries, otherwise it replaces entry (g+1) mod 4.  Deleting any
// token therefore leaves a valid history.
//
// Large mode: a header `L<n0>` (graphs with 20..80 vertices, hubs, long argument lists).  The
// semantics of the tokens is the same; only what is printed differs, to keep the model side
// affordable: after a token only the touched graphs (receiver, created graph) are dumped, as
// n/m/degrees/IsEdge rows of a few sampled vertices (the two endpoints after AddEdge/RemoveEdge, otherwise
// 0, n/2, n-1 and the first three arguments modulo n)/neighbour lists (of the sampled vertices after AddEdge/RemoveEdge, of all vertices
// after the other operations); at the end every graph is dumped with all rows and all lists.
//
// Quiet mode: a header `q<n0>`; tokens `o<g>` mark where all graphs are dumped; other tokens
// print nothing; the observation ends with `E:` and the dump of all graphs.
// Huge mode: a header `H<n0>`; the observation is the constant `huge` (see huge.go).
//
// Provenance mode: a header `p<dk><sk>,<n0>,<salt>,<a>.<b>,...` (see prov.go): the history starts
// from graphs built in other ways than NewDense(n, nil)/NewSparse(n, nil); the observation
// begins with `I:` and the dump of the start graphs and has no strict part.
package main

import (
	"fmt"
	"strconv"
	"strings"
	"time"

	"github.com/Tom-Johnston/mamba/graph"
	"verifharness/hx"
)

const maxStore = 4

type tok struct {
	kind byte
	g    int
	args []int
}

func (t tok) String() string {
	switch t.kind {
	case 'c', 'o':
		return fmt.Sprintf("%c%d", t.kind, t.g)
	case 'v', 's':
		s := make([]string, len(t.args))
		for i, a := range t.args {
			s[i] = strconv.Itoa(a)
		}
		return fmt.Sprintf("%c%d,%s", t.kind, t.g, strings.Join(s, "."))
	}
	return fmt.Sprintf("%c%d,%s", t.kind, t.g, hx.Ints(t.args))
}

func parseTok(s string) tok {
	t := tok{kind: s[0]}
	rest := s[1:]
	c := strings.IndexByte(rest, ',')
	if c < 0 {
		t.g, _ = strconv.Atoi(rest)
		return t
	}
	t.g, _ = strconv.Atoi(rest[:c])
	sep := ","
	if t.kind == 'v' || t.kind == 's' {
		sep = "."
	}
	for _, a := range strings.Split(rest[c+1:], sep) {
		if a == "" {
			continue
		}
		x, _ := strconv.Atoi(a)
		t.args = append(t.args, x)
	}
	return t
}

// header of a case: plain `<n0>`, large `L<n0>`, provenance `p<dk><sk>,<n0>,<salt>,<a>.<b>,...`
type header struct {
	quiet  bool // `q<n0>`: observers are called only at `o` tokens and at the end
	huge   bool // `H<n0>`: 100..600 vertices, judged by the adjacency-matrix oracle of huge.go
	large  bool
	prov   bool
	dk, sk byte
	n0     int
	salt   uint64
	raw    [][2]int
}

func parseCase(line string) (header, []tok) {
	parts := strings.SplitN(line, ";", 2)
	var h header
	switch {
	case strings.HasPrefix(parts[0], "L"):
		h.large = true
		h.n0, _ = strconv.Atoi(parts[0][1:])
	case strings.HasPrefix(parts[0], "q"):
		h.quiet = true
		h.n0, _ = strconv.Atoi(parts[0][1:])
	case strings.HasPrefix(parts[0], "H"):
		h.huge = true
		h.n0, _ = strconv.Atoi(parts[0][1:])
	case strings.HasPrefix(parts[0], "p"):
		f := strings.Split(parts[0], ",")
		h.prov, h.dk, h.sk = true, f[0][1], f[0][2]
		h.n0, _ = strconv.Atoi(f[1])
		h.salt, _ = strconv.ParseUint(f[2], 10, 64)
		for _, e := range f[3:] {
			ab := strings.Split(e, ".")
			if len(ab) != 2 {
				continue
			}
			a, _ := strconv.Atoi(ab[0])
			b, _ := strconv.Atoi(ab[1])
			h.raw = append(h.raw, [2]int{a, b})
		}
	default:
		h.n0, _ = strconv.Atoi(parts[0])
	}
	var toks []tok
	for _, f := range strings.Fields(parts[1]) {
		toks = append(toks, parseTok(f))
	}
	return h, toks
}

func caseLineP(dk, sk byte, n0 int, salt uint64, raw [][2]int, toks []tok) string {
	hd := fmt.Sprintf("p%c%c,%d,%d", dk, sk, n0, salt)
	for _, e := range raw {
		hd += fmt.Sprintf(",%d.%d", e[0], e[1])
	}
	s := make([]string, len(toks))
	for i, t := range toks {
		s[i] = t.String()
	}
	return hd + ";" + strings.Join(s, " ")
}

func caseLine(n0 int, toks []tok) string {
	s := make([]string, len(toks))
	for i, t := range toks {
		s[i] = t.String()
	}
	return fmt.Sprintf("%d;%s", n0, strings.Join(s, " "))
}

func caseLineL(n0 int, toks []tok) string { return "L" + caseLine(n0, toks) }

// vlist reduces raw numbers modulo n and drops repeats after the first.
func vlist(raw []int, n int) []int {
	// spare capacity: a callee that kept the slice and appended to it would write here
	r := make([]int, 0, len(raw)+3)
	if n == 0 {
		return r
	}
	seen := map[int]bool{}
	for _, x := range raw {
		x %= n
		if !seen[x] {
			seen[x] = true
			r = append(r, x)
		}
	}
	return r
}

// scribble overwrites a caller-owned argument slice up to its capacity: with -1 in the spare
// capacity (an index panic or a visible vertex if the callee kept the slice) and 0 in the part
// that was passed.
func scribble(a []int) {
	full := a[:cap(a)]
	for i := range full {
		if i < len(a) {
			full[i] = 0
		} else {
			full[i] = -1
		}
	}
}

// dump prints all observers of g: n/m/degrees/IsEdge rows (bit masks, every ordered pair
// including i = j is asked)/neighbour lists in the order returned.
func dump(g graph.Graph) string { return dumpPat(g, 0) }

// dumpPat gives the same text with the observers called in another pattern: bit 0 N/M/Degrees
// first, bit 1 Neighbours called twice (second result used), bit 2 vertices in descending
// order, bit 3 every IsEdge asked twice, bit 4 Degrees called twice (second result used).
func dumpPat(g graph.Graph, pat int) string {
	var n, m int
	var deg []int
	head := func() {
		n, m = g.N(), g.M()
		deg = g.Degrees()
		if pat&16 != 0 {
			deg = g.Degrees()
		}
	}
	if pat&1 != 0 {
		head()
	}
	n = g.N()
	rows := make([]int, n)
	nb := make([]string, n)
	for k := 0; k < n; k++ {
		v := k
		if pat&4 != 0 {
			v = n - 1 - k
		}
		for u := 0; u < n; u++ {
			e := g.IsEdge(v, u)
			if pat&8 != 0 {
				e = g.IsEdge(v, u)
			}
			if e {
				rows[v] |= 1 << uint(u)
			}
		}
		l := g.Neighbours(v)
		if pat&2 != 0 {
			l = g.Neighbours(v)
		}
		nb[v] = strings.ReplaceAll(hx.Ints(l), ",", ".")
	}
	if pat&1 == 0 {
		head()
	}
	return fmt.Sprintf("%d/%d/%s/%s/%s", n, m, hx.Ints(deg), hx.Ints(rows), strings.Join(nb, ","))
}

// sample lists the vertices whose IsEdge rows (and, after edge edits, neighbour lists) are
// printed in large mode.
func sample(kind byte, n int, args []int) []int {
	if n == 0 {
		return nil
	}
	s := []int{0, n / 2, n - 1}
	for _, v := range []int{63, 64, 65, 72, 80} {
		if v < n {
			s = append(s, v)
		}
	}
	k := 3
	if kind == 'e' || kind == 'x' {
		s, k = nil, 2
	}
	for i, a := range args {
		if i >= k {
			break
		}
		s = append(s, a%n)
	}
	return s
}

func allVertices(n int) []int {
	r := make([]int, n)
	for i := range r {
		r[i] = i
	}
	return r
}

// bigDump prints n/m/degrees/rows/neighbours with the IsEdge rows of the vertices in rows (as
// strings of 0/1 over all u) and the neighbour lists of the vertices in nbs.
func bigDump(g graph.Graph, rows, nbs []int) string {
	n := g.N()
	rs := make([]string, len(rows))
	for k, v := range rows {
		b := make([]byte, n)
		for u := 0; u < n; u++ {
			if g.IsEdge(v, u) {
				b[u] = '1'
			} else {
				b[u] = '0'
			}
		}
		rs[k] = fmt.Sprintf("%d:%s", v, b)
	}
	ns := make([]string, len(nbs))
	for k, v := range nbs {
		ns[k] = fmt.Sprintf("%d:%s", v, strings.ReplaceAll(hx.Ints(g.Neighbours(v)), ",", "."))
	}
	return fmt.Sprintf("%d/%d/%s/%s/%s", n, g.M(), hx.Ints(g.Degrees()), strings.Join(rs, ","), strings.Join(ns, ","))
}

// touchedDump is the large-mode observation after token t: the receiver and the created graph.
func touchedDump(st []graph.EditableGraph, t tok, touched []int) string {
	s := make([]string, len(touched))
	for k, i := range touched {
		g := st[i]
		smp := sample(t.kind, g.N(), t.args)
		nbs := smp
		if t.kind != 'e' && t.kind != 'x' {
			nbs = allVertices(g.N())
		}
		s[k] = fmt.Sprintf("%d=%s", i, bigDump(g, smp, nbs))
	}
	return strings.Join(s, ";")
}

func fullDump(st []graph.EditableGraph) string {
	s := make([]string, len(st))
	for i, g := range st {
		s[i] = bigDump(g, allVertices(g.N()), allVertices(g.N()))
	}
	return strings.Join(s, ";")
}

func dumpAll(st []graph.EditableGraph) string { return dumpAllPat(st, 0) }

func dumpAllPat(st []graph.EditableGraph, pat int) string {
	s := make([]string, len(st))
	for i, g := range st {
		s[i] = dumpPat(g, pat+i)
	}
	return strings.Join(s, ";")
}

// vlistInto is vlist writing into a caller-supplied buffer (re-used across calls).
func vlistInto(buf []int, raw []int, n int) []int {
	r := buf[:0]
	if n == 0 {
		return r
	}
	seen := map[int]bool{}
	for _, x := range raw {
		x %= n
		if !seen[x] {
			seen[x] = true
			r = append(r, x)
		}
	}
	return r
}

// held is a slice returned by an observer, kept by the caller, with a snapshot of its content.
type held struct {
	what string
	got  []int
	snap []int
}

func hold(what string, got []int) held {
	return held{what, got, append([]int(nil), got...)}
}

func (h held) intact() bool {
	if len(h.got) != len(h.snap) {
		return false
	}
	for i := range h.got {
		if h.got[i] != h.snap[i] {
			return false
		}
	}
	return true
}

// holdAll calls Degrees and Neighbours (of the given vertices) on the graphs and keeps the
// returned slices.
func holdAll(st []graph.EditableGraph, which []int, label string, verts func(n int) []int) []held {
	var hs []held
	for _, i := range which {
		g := st[i]
		hs = append(hs, hold(fmt.Sprintf("%s[%d].Degrees()", label, i), g.Degrees()))
		for _, v := range verts(g.N()) {
			hs = append(hs, hold(fmt.Sprintf("%s[%d].Neighbours(%d)", label, i, v), g.Neighbours(v)))
		}
	}
	return hs
}

func sameGraph(a, b graph.Graph) bool {
	if a.N() != b.N() || a.M() != b.M() || hx.Ints(a.Degrees()) != hx.Ints(b.Degrees()) {
		return false
	}
	for v := 0; v < a.N(); v++ {
		if hx.Ints(a.Neighbours(v)) != hx.Ints(b.Neighbours(v)) {
			return false
		}
	}
	return true
}

// apply performs one token on one store; it returns the new store and whether a dense
// AddVertex re-used spare capacity / a non-last vertex was removed.
//
// shared != nil: the argument list of AddVertex / InducedSubgraph is this caller-owned slice (the
// same one for the dense and the sparse call, and the same backing array from token to token);
// the caller scribbles over it after both calls.  Otherwise a fresh slice is passed and
// scribbled over right after the call.  InducedSubgraph is called twice with the same V; the
// two results must be equal graphs and the second one is kept.
func apply(st []graph.EditableGraph, t tok, shared []int, viol *[]hx.OracleViolation) ([]graph.EditableGraph, bool, []int) {
	gi := t.g % len(st)
	g := st[gi]
	n := g.N()
	interesting := false
	var created graph.EditableGraph
	switch t.kind {
	case 'e':
		if n > 0 {
			g.AddEdge(t.args[0]%n, t.args[1]%n)
		}
	case 'x':
		if n > 0 {
			g.RemoveEdge(t.args[0]%n, t.args[1]%n)
		}
	case 'r':
		if n > 0 {
			v := t.args[0] % n
			interesting = v < n-1
			g.RemoveVertex(v)
		}
	case 'v':
		nb := shared
		if shared == nil {
			nb = vlist(t.args, n)
		}
		if d, ok := g.(*graph.DenseGraph); ok && n > 0 && cap(d.Edges) >= (n*(n-1))/2+n {
			interesting = true
		}
		g.AddVertex(nb)
		// the argument slice belongs to the caller: overwrite it (and its spare capacity)
		// after the call
		if shared == nil {
			scribble(nb)
		}
	case 's':
		V := shared
		if shared == nil {
			V = vlist(t.args, n)
		}
		first := g.InducedSubgraph(V)
		created = g.InducedSubgraph(V)
		if !sameGraph(first, created) {
			*viol = append(*viol, hx.Fail("induced-twice", "two calls of InducedSubgraph with the same V on the same graph gave different graphs (token %s)", t))
		}
		if shared == nil {
			scribble(V)
		}
	case 'c':
		created = g.Copy()
	case 'o':
	default:
		panic("bad token")
	}
	touched := []int{gi}
	if created != nil {
		if len(st) < maxStore {
			st = append(st, created)
			touched = append(touched, len(st)-1)
		} else {
			st[(gi+1)%maxStore] = created
			touched = append(touched, (gi+1)%maxStore)
		}
	}
	return st, interesting, touched
}

// prelude leaves a past in the process before the case proper starts: graphs of both kinds are
// built, edited, observed and dropped, so that package-level state (if any) is not fresh.
func prelude(r *hx.Rng) {
	for _, g := range []graph.EditableGraph{graph.NewDense(5, nil), graph.NewSparse(5, nil)} {
		for i := 0; i < 6; i++ {
			g.AddEdge(r.Intn(5), r.Intn(5))
		}
		g.AddVertex([]int{4, 0, 2})
		h := g.InducedSubgraph([]int{5, 2, 0, 4})
		g.RemoveVertex(1)
		g.Neighbours(g.N() - 1)
		h.Neighbours(0)
		g.Degrees()
		c := g.Copy()
		c.RemoveVertex(0)
		c.Neighbours(0)
	}
}

func exec(line string) hx.Result {
	h, toks := parseCase(line)
	if h.huge {
		return execHuge(h, toks)
	}
	large, n0 := h.large, h.n0
	pr := hx.NewRng(uint64(len(line))*1000003 + uint64(len(toks))) // call patterns: fixed by the case
	prelude(pr)
	dst := []graph.EditableGraph{graph.NewDense(n0, nil)}
	sst := []graph.EditableGraph{graph.NewSparse(n0, nil)}
	var sb strings.Builder
	var viol []hx.OracleViolation
	var provBuckets []string
	if h.prov {
		es := cleanEdges(n0, h.raw)
		d, okd := buildDense(h.dk, n0, es, hx.NewRng(h.salt))
		s, oks := buildSparse(h.sk, n0, es, hx.NewRng(h.salt+1))
		dst[0], sst[0] = d, s
		provBuckets = []string{"mode=prov", fmt.Sprintf("dprov=%c:%v", h.dk, okd), fmt.Sprintf("sprov=%c:%v", h.sk, oks)}
		sb.WriteString("I:D:" + dumpAll(dst) + "|S:" + dumpAll(sst))
	}
	interesting, nontrivial := false, false
	kinds := map[byte]int{}
	maxN := n0
	argbuf := make([]int, 0, 12)
	var window [][]held // results of observers held by the caller, by step
	checkHeld := func(when string) {
		for _, step := range window {
			for _, x := range step {
				if !x.intact() {
					viol = append(viol, hx.Fail("result-aliasing", "the slice returned by %s changed %s: was %v, is %v", x.what, when, x.snap, x.got))
				}
			}
		}
	}
	scribbleHeld := func(step []held) {
		for _, x := range step {
			for i := range x.got {
				x.got[i] = -7
			}
		}
	}
	wrote := false
	lastDump := ""
	for k, t := range toks {
		var i1, i2 bool
		var touched []int
		if k%2 == 1 && (t.kind == 'v' || t.kind == 's') {
			// one caller-owned buffer for the dense and the sparse call, re-used from token to token
			gi := t.g % len(dst)
			argbuf = vlistInto(argbuf, t.args, dst[gi].N())
			dst, i1, touched = apply(dst, t, argbuf, &viol)
			sst, i2, _ = apply(sst, t, argbuf, &viol)
			scribble(argbuf)
		} else {
			dst, i1, touched = apply(dst, t, nil, &viol)
			sst, i2, _ = apply(sst, t, nil, &viol)
		}
		if i1 || i2 {
			interesting = true
		}
		kinds[t.kind]++
		// slices returned earlier must not have changed; the caller then writes into the oldest
		// ones, which must not change any graph (the dump below is compared with the model)
		checkHeld(fmt.Sprintf("after token %d (%s)", k, t))
		if len(window) > 2 {
			scribbleHeld(window[0])
			window = window[1:]
		}
		if !h.quiet || t.kind == 'o' {
			if wrote || h.prov {
				sb.WriteByte(' ')
			}
			wrote = true
			pat := pr.Intn(32)
			if large {
				sb.WriteString("D:" + touchedDump(dst, t, touched) + "|S:" + touchedDump(sst, t, touched))
			} else {
				lastDump = "D:" + dumpAllPat(dst, pat) + "|S:" + dumpAllPat(sst, pat)
				sb.WriteString(lastDump)
			}
		}
		if !h.quiet {
			verts := allVertices
			if large {
				verts = func(n int) []int { return sample(t.kind, n, t.args) }
			}
			step := holdAll(dst, touched, "dense", verts)
			step = append(step, holdAll(sst, touched, "sparse", verts)...)
			window = append(window, step)
		}
		for _, g := range dst {
			if interesting && g.M() > 0 {
				nontrivial = true
			}
			if g.N() > maxN {
				maxN = g.N()
			}
		}
	}
	checkHeld("by the end of the history")
	for _, step := range window {
		scribbleHeld(step)
	}
	if large {
		sb.WriteString(" F:" + fullDump(dst) + "|" + fullDump(sst))
	} else if h.quiet {
		if wrote {
			sb.WriteByte(' ')
		}
		sb.WriteString("E:D:" + dumpAll(dst) + "|S:" + dumpAll(sst))
	} else if lastDump != "" {
		if again := "D:" + dumpAll(dst) + "|S:" + dumpAll(sst); again != lastDump {
			viol = append(viol, hx.Fail("returned-slice-written", "writing into the slices returned by Degrees/Neighbours changed a graph: %s -> %s", lastDump, again))
		}
	}
	strict := make([]string, len(dst))
	for i, g := range dst {
		d := g.(*graph.DenseGraph)
		full := d.Edges[:cap(d.Edges)]
		b := make([]int, len(full))
		for j, x := range full {
			b[j] = int(x)
		}
		strict[i] = fmt.Sprintf("%d:%s", len(d.Edges), hx.Ints(b))
	}
	buckets := []string{fmt.Sprintf("len<=%d", bucket(len(toks))), fmt.Sprintf("maxn<=%d", bucket(maxN)), fmt.Sprintf("store=%d", len(dst))}
	if large {
		maxDeg := 0
		for _, g := range sst {
			for _, d := range g.Degrees() {
				if d > maxDeg {
					maxDeg = d
				}
			}
		}
		buckets = append(buckets, "mode=large", fmt.Sprintf("finalmaxdeg<=%d", bucket(maxDeg)))
	}
	if h.quiet {
		buckets = append(buckets, "mode=quiet")
	}
	for k, c := range kinds {
		if c > 0 {
			buckets = append(buckets, "has:"+string(k))
		}
	}
	buckets = append(buckets, provBuckets...)
	if h.prov {
		// the model starts from the abstract graph: bytes and capacity of the start value are
		// not determined, so there is no strict part
		return hx.Result{Obs: sb.String(), Nontrivial: nontrivial, Buckets: buckets, Viol: viol}
	}
	return hx.Result{Obs: sb.String() + " ## " + strings.Join(strict, ";"), Nontrivial: nontrivial, Buckets: buckets, Viol: viol}
}

func bucket(n int) int {
	b := 1
	for b < n {
		b *= 2
	}
	return b
}

// genHistory produces a history; it tracks the vertex counts of the store so that sizes stay
// small and the choices are biased to the interesting shapes (the token semantics do not
// depend on this tracking).
func genHistory(r *hx.Rng, n0, length, maxN int) []tok {
	ns := []int{n0}
	var toks []tok
	last := 0   // store index used by the previous op
	pair := -1  // index of the most recent source of a copy, to alternate source/copy
	for len(toks) < length {
		// choose the graph: alternate between a copy and its source, or the same again, or random
		gi := r.Intn(len(ns))
		if pair >= 0 && r.Chance(1, 2) {
			if last == pair {
				gi = len(ns) - 1
			} else {
				gi = pair
			}
		} else if r.Chance(1, 3) {
			gi = last
		}
		n := ns[gi]
		raw := func() int { // a vertex, sometimes written with an offset so that modulo matters
			if n == 0 {
				return r.Intn(3)
			}
			return r.Intn(n) + n*r.Intn(2)
		}
		t := tok{g: gi + len(ns)*r.Intn(2)}
		switch c := r.Intn(100); {
		case c < 30:
			t.kind = 'e'
			t.args = []int{raw(), raw()}
			if r.Chance(1, 12) {
				t.args[1] = t.args[0]
			}
		case c < 42:
			t.kind = 'x'
			t.args = []int{raw(), raw()}
		case c < 60 && n < maxN:
			t.kind = 'v'
			k := 0
			if n > 0 {
				k = r.Intn(n + 1)
			}
			p := r.Perm(max(n, 1))
			t.args = p[:min(k, len(p))]
			if n > 0 && r.Chance(1, 4) {
				t.args = append(t.args, r.Intn(n)) // possibly a repeat (dropped by the normalisation)
			}
			ns[gi] = n + 1
		case c < 76:
			if n == 0 {
				continue
			}
			t.kind = 'r'
			v := r.Intn(n)
			if r.Chance(1, 5) {
				v = n - 1
			} else if r.Chance(1, 5) {
				v = 0
			}
			t.args = []int{v}
			ns[gi] = n - 1
		case c < 86:
			t.kind = 'c'
			if len(ns) < maxStore {
				ns = append(ns, n)
				pair = gi
			} else {
				ns[(gi+1)%maxStore] = n
				pair = -1
			}
		case c < 96:
			t.kind = 's'
			p := r.Perm(max(n, 1))
			k := 0
			if n > 0 {
				k = r.Intn(n + 1)
				if r.Chance(1, 3) {
					k = n // a relabelling
				}
			}
			t.args = p[:min(k, len(p))]
			m := len(vlist(t.args, n))
			if len(ns) < maxStore {
				ns = append(ns, m)
				pair = gi
			} else {
				ns[(gi+1)%maxStore] = m
				pair = -1
			}
		default:
			// a burst of edges making the graph dense before the next structural op
			if n < 2 {
				continue
			}
			for k := 0; k < n && len(toks) < length-1; k++ {
				toks = append(toks, tok{kind: 'e', g: gi, args: []int{r.Intn(n), r.Intn(n)}})
			}
			t.kind = 'e'
			t.args = []int{raw(), raw()}
		}
		last = gi
		toks = append(toks, t)
	}
	return toks
}

// entry is what the large-history generator knows about one store entry: its vertex count and
// one vertex (hub) with a known long neighbour list.  The token semantics never depend on it.
type entry struct {
	n   int
	hub int
	nb  []int
}

func (e entry) clone() entry { return entry{e.n, e.hub, append([]int(nil), e.nb...)} }

func (e *entry) edge(i, j int, add bool) {
	if e.hub < 0 || i == j || (i != e.hub && j != e.hub) {
		return
	}
	u := i + j - e.hub
	at := -1
	for k, x := range e.nb {
		if x == u {
			at = k
		}
	}
	if add && at < 0 {
		e.nb = append(e.nb, u)
	} else if !add && at >= 0 {
		e.nb = append(e.nb[:at], e.nb[at+1:]...)
	}
}

func (e *entry) remove(w int) {
	e.n--
	if e.hub < 0 {
		return
	}
	if w == e.hub {
		e.hub, e.nb = -1, nil
		return
	}
	var nb []int
	for _, x := range e.nb {
		if x > w {
			nb = append(nb, x-1)
		} else if x < w {
			nb = append(nb, x)
		}
	}
	e.nb = nb
	if w < e.hub {
		e.hub--
	}
}

// hubSet returns a vertex list of the given size holding the hub and, as far as they last,
// neighbours of the hub, in random order.
func hubSet(r *hx.Rng, e entry, size int) []int {
	V := []int{e.hub}
	used := map[int]bool{e.hub: true}
	p := r.Perm(len(e.nb))
	for _, k := range p {
		if len(V) >= size {
			break
		}
		V = append(V, e.nb[k])
		used[e.nb[k]] = true
	}
	for _, x := range r.Perm(e.n) {
		if len(V) >= size {
			break
		}
		if !used[x] {
			V = append(V, x)
		}
	}
	q := r.Perm(len(V))
	W := make([]int, len(V))
	for i, k := range q {
		W[i] = V[k]
	}
	return W
}

var thresholds = []int{7, 8, 9, 15, 16, 17, 31, 32, 33, 63, 64, 65}

// genLarge: a graph on n0 vertices with sparse background edges and one hub of degree d (built
// by d AddEdge calls or as a new vertex by one AddVertex call with d neighbours), induced
// subgraphs on k vertices around the hub, then a tail of operations on the big graphs: induced
// subgraphs with 1..5 and with many vertices, removal of low-numbered/random/hub vertices (long
// row compaction), AddVertex with neighbour lists at the thresholds, copies, edge edits.
func genLarge(r *hx.Rng, n0, k, d int, viaAddVertex bool, tail int) []tok {
	return genLargeT(r, n0, k, d, viaAddVertex, tail, thresholds, 84)
}

// genLargeT: genLarge with the list lengths of the tail's AddVertex calls and the largest n given.
func genLargeT(r *hx.Rng, n0, k, d int, viaAddVertex bool, tail int, ths []int, capN int) []tok {
	var toks []tok
	add := func(t tok) { toks = append(toks, t) }
	es := []entry{{n: n0, hub: -1}}
	create := func(gi int, e entry) {
		if len(es) < maxStore {
			es = append(es, e)
		} else {
			es[(gi+1)%maxStore] = e
		}
	}
	h := r.Intn(n0)
	if viaAddVertex {
		h = n0
	}
	for i := 0; i < min(n0, 24); i++ {
		a, b := r.Intn(n0), r.Intn(n0)
		if a == h || b == h {
			continue
		}
		add(tok{'e', 0, []int{a, b}})
	}
	for _, v := range []int{64, 72, 128, 256} { // rows that start words / cache lines
		for c := 0; c < 3 && v < n0; c++ {
			if u := r.Intn(n0); u != h && v != h {
				add(tok{'e', 0, []int{v, u}})
			}
		}
	}
	if viaAddVertex {
		if d > n0 {
			d = n0
		}
		nb := r.Perm(n0)[:d]
		add(tok{'v', 0, append([]int(nil), nb...)})
		es[0] = entry{n0 + 1, n0, nb}
	} else {
		var nb []int
		for _, x := range r.Perm(n0) {
			if x != h && len(nb) < d {
				nb = append(nb, x)
			}
		}
		for _, u := range nb {
			if r.Bool() {
				add(tok{'e', 0, []int{h, u}})
			} else {
				add(tok{'e', 0, []int{u, h}})
			}
		}
		es[0] = entry{n0, h, nb}
	}
	for i := 0; i < 3; i++ {
		size := k
		if i == 2 {
			size = r.Range(1, 5)
		}
		V := hubSet(r, es[0], size)
		add(tok{'s', 0, V})
		create(0, entry{n: len(V), hub: -1})
	}
	for step := 0; step < tail; step++ {
		gi := r.Intn(len(es))
		if r.Chance(1, 2) {
			gi = 0
		}
		e := &es[gi]
		n := e.n
		if n < 2 {
			continue
		}
		switch c := r.Intn(100); {
		case c < 25:
			size := r.Range(1, 5)
			var V []int
			if e.hub >= 0 && r.Chance(3, 4) {
				V = hubSet(r, *e, size)
			} else {
				V = r.Perm(n)[:min(size, n)]
			}
			add(tok{'s', gi, V})
			create(gi, entry{n: len(V), hub: -1})
		case c < 35:
			V := r.Perm(n)[:r.Range(n/2, n)]
			add(tok{'s', gi, V})
			create(gi, entry{n: len(V), hub: -1})
		case c < 50:
			w := r.Intn(n)
			if r.Chance(1, 4) {
				w = r.Intn(min(3, n))
			} else if e.hub >= 0 && r.Chance(1, 6) {
				w = e.hub
			}
			add(tok{'r', gi, []int{w}})
			e.remove(w)
		case c < 65:
			if n >= capN {
				continue
			}
			l := ths[r.Intn(len(ths))]
			if l > n || r.Chance(1, 8) {
				l = n
			}
			nb := r.Perm(n)[:l]
			add(tok{'v', gi, append([]int(nil), nb...)})
			*e = entry{n + 1, n, nb}
		case c < 75:
			add(tok{'c', gi, nil})
			create(gi, e.clone())
		default:
			a, b := r.Intn(n), r.Intn(n)
			if e.hub >= 0 && r.Chance(1, 2) {
				a = e.hub
				if len(e.nb) > 0 && r.Chance(1, 2) {
					b = e.nb[r.Intn(len(e.nb))]
				}
			}
			if r.Chance(1, 2) {
				add(tok{'e', gi, []int{a, b}})
				e.edge(a, b, true)
			} else {
				add(tok{'x', gi, []int{a, b}})
				e.edge(a, b, false)
			}
		}
	}
	if es[0].hub >= 0 {
		add(tok{'s', 0, hubSet(r, es[0], r.Range(2, 5))})
	}
	return toks
}

// genLargeCases covers the size dimension systematically: hub degrees just below, at and above
// c*k for induced subgraphs on k = 1..5 vertices (ratio thresholds c) and at the absolute
// thresholds 8, 16, 32, 64.
func genLargeCases(g *hx.Gen) {
	r := g.Rng
	count := 0
	one := func(k, d int) {
		if d < 1 || d > 70 {
			return
		}
		n0 := d + 2 + r.Intn(10)
		if n0 < 20 {
			n0 = 20 + r.Intn(6)
		}
		if n0 > 80 {
			n0 = 80
		}
		tail := 6
		if g.Thorough() {
			tail = r.Range(4, 14)
		}
		if n0 > 50 {
			tail = min(tail, 5)
		}
		// a hub of high degree is built edge by edge (one observation per edge) in the thorough
		// tier only
		via := count%2 == 0 || (d > 40 && !g.Thorough())
		g.Emit(caseLineL(n0, genLarge(r, n0, k, d, via, tail)))
		count++
	}
	ratios := []int{8, 4, 16}
	reps := 1
	if g.Thorough() {
		ratios = []int{2, 3, 4, 6, 8, 12, 16, 32}
		reps = 6
	}
	for rep := 0; rep < reps; rep++ {
		for _, c := range ratios {
			for k := 1; k <= 5; k++ {
				deltas := []int{0, 1}
				if c == 8 || g.Thorough() {
					deltas = []int{-1, 0, 1, 2}
				}
				for _, dl := range deltas {
					one(k, c*k+dl)
				}
			}
		}
		for _, d := range thresholds {
			one(r.Range(1, 5), d)
		}
	}
	g.Note(fmt.Sprintf("large mode: %d histories on graphs with 20..80 vertices and a hub of degree c*k-1..c*k+2 (k = |V| of the induced subgraphs, c a ratio threshold) or at 8/16/32/64 +-1", count))
}

// genProvCases: short histories that start from graphs of every provenance (see prov.go).
func genProvCases(g *hx.Gen) {
	r := g.Rng
	count := g.Pick(480, 24000)
	for c := 0; c < count; c++ {
		dk := denseProv[c%len(denseProv)]
		sk := sparseProv[(c/len(denseProv))%len(sparseProv)]
		n0 := r.Range(2, 7)
		den := r.Range(1, 4)
		var raw [][2]int
		for a := 0; a < n0; a++ {
			for b := 0; b < a; b++ {
				if r.Chance(den, 5) {
					if r.Bool() {
						raw = append(raw, [2]int{a, b + n0*r.Intn(2)})
					} else {
						raw = append(raw, [2]int{b, a})
					}
				}
			}
		}
		toks := genHistory(r, n0, r.Range(1, 16), r.Range(3, 9))
		if r.Chance(1, 3) {
			toks = append([]tok{{'r', 0, []int{r.Intn(n0)}}}, toks...)
		}
		g.Emit(caseLineP(dk, sk, n0, r.U64()>>1, raw, toks))
	}
	g.Note(fmt.Sprintf("provenance mode: %d histories starting from NewDense with arbitrary non-zero bytes, ChromaticIndex's array, ComplementDense, Graph6Decode/Sparse6Decode results, NewSparse with unsorted repeated lists, Copy and InducedSubgraph of those, edited-down graphs", count))
}

// nearSorted returns l distinct vertices below n in a nearly sorted order: ascending with one
// element (disp, if it is >= 0 and below n it is made a member) moved to the end / to the front /
// into the middle, two adjacent entries swapped, descending, rotated by one, or exactly sorted.
func nearSorted(r *hx.Rng, n, l, disp, variant int) []int {
	p := r.Perm(n)[:l]
	has := false
	for _, x := range p {
		if x == disp {
			has = true
		}
	}
	if disp >= 0 && disp < n && !has {
		p[0] = disp
	}
	for i := 1; i < len(p); i++ { // ascending
		for j := i; j > 0 && p[j-1] > p[j]; j-- {
			p[j-1], p[j] = p[j], p[j-1]
		}
	}
	at := r.Intn(l)
	for i, x := range p {
		if x == disp {
			at = i
		}
	}
	move := func(to int) {
		x := p[at]
		rest := append(append([]int{}, p[:at]...), p[at+1:]...)
		p = append(append(append([]int{}, rest[:to]...), x), rest[to:]...)
	}
	switch variant % 7 {
	case 0:
		if at == l-1 && l > 1 { // already last: displace the first instead
			at = 0
		}
		move(l - 1)
	case 1:
		if at == 0 && l > 1 {
			at = l - 1
		}
		move(0)
	case 2:
		move(r.Intn(l))
	case 3:
		if l > 1 {
			i := min(at, l-2)
			p[i], p[i+1] = p[i+1], p[i]
		}
	case 4:
		for i, j := 0, l-1; i < j; i, j = i+1, j-1 {
			p[i], p[j] = p[j], p[i]
		}
	case 5:
		p = append(p[1:], p[0])
	}
	return p
}

// genNearSortedCases: InducedSubgraph with long vertex lists (15..n entries, n up to 80) in nearly
// sorted orders, the displaced vertex being a hub with many neighbours inside V.
func genNearSortedCases(g *hx.Gen) {
	r := g.Rng
	count := g.Pick(21, 700)
	for c := 0; c < count; c++ {
		n0 := r.Range(20, 44)
		if c%7 == 6 {
			n0 = r.Range(60, 80)
		}
		var toks []tok
		hub := r.Intn(n0)
		for i := 0; i < n0; i++ {
			toks = append(toks, tok{'e', 0, []int{r.Intn(n0), r.Intn(n0)}})
		}
		for _, u := range r.Perm(n0)[:n0/2] {
			toks = append(toks, tok{'e', 0, []int{hub, u}})
		}
		lens := []int{15, 16, 17, 18, 31, 32, 33, 34, 63, 64, 65, n0 - 1, n0}
		reps := 4
		if n0 >= 60 {
			reps = 3
		}
		for k := 0; k < reps; k++ {
			l := lens[r.Intn(len(lens))]
			if l > n0 || r.Chance(1, 4) {
				l = r.Range(17, n0)
			}
			disp := hub
			if r.Chance(1, 4) {
				disp = -1
			}
			toks = append(toks, tok{'s', 0, nearSorted(r, n0, l, disp, c+k)})
		}
		g.Emit(caseLineL(n0, toks))
	}
	g.Note(fmt.Sprintf("large mode: %d histories with InducedSubgraph on 15..80 vertices in nearly sorted orders (last/first/middle element displaced, adjacent swap, descending, rotated, sorted)", count))
}

// genHugeCases: the size dimension beyond what the extracted model can follow (see huge.go):
// hubs and argument lists of length 127..129, 255..257, 511..513.
func genHugeCases(g *hx.Gen) {
	r := g.Rng
	ths := []int{127, 128, 129, 255, 256, 257, 511, 512, 513}
	reps := g.Pick(1, 8)
	count := 0
	for rep := 0; rep < reps; rep++ {
		for i, d := range ths {
			if !g.Thorough() && d > 300 && i%3 != 1 {
				continue // quick: 512 only
			}
			n0 := d + 2 + r.Intn(12)
			via := d > 300 || (rep+i)%3 != 0 || !g.Thorough()
			tail := g.Pick(5, 10)
			k := r.Range(1, 5)
			g.Emit("H" + caseLine(n0, genLargeT(r, n0, k, d, via, tail, ths, 600)))
			count++
		}
	}
	g.Note(fmt.Sprintf("huge mode: %d histories on 130..530 vertices with hubs/lists of length 127..129, 255..257, 511..513, judged by the adjacency-matrix oracle (no model run)", count))
}

// genQuietCases: the same random histories, but the observers are called only at the `o` tokens
// (none, few or many) and at the end: edits run back to back without any observer in between.
func genQuietCases(g *hx.Gen) {
	r := g.Rng
	count := g.Pick(500, 20000)
	for c := 0; c < count; c++ {
		n0 := r.Intn(6)
		toks := genHistory(r, n0, r.Range(2, 30), r.Range(3, 9))
		every := r.Intn(6) // 0: no observation before the end
		var out []tok
		for i, t := range toks {
			out = append(out, t)
			if every > 0 && r.Intn(every) == 0 && i < len(toks)-1 {
				out = append(out, tok{kind: 'o'})
			}
		}
		g.Emit("q" + caseLine(n0, out))
	}
	g.Note(fmt.Sprintf("quiet mode: %d histories with the observers called only at marked places and at the end", count))
}

// genStaleCases: a graph with a stale capacity tail (non-last RemoveVertex, or AddVertex then
// RemoveVertex) is copied / induced (whole vertex set in random order, or a part); then source
// and new graph are edited alternately: AddVertex (into the stale tail of the source, into a
// fresh array for the copy), edges, removals, further copies.
func genStaleCases(g *hx.Gen) {
	r := g.Rng
	count := g.Pick(300, 12000)
	for c := 0; c < count; c++ {
		n0 := r.Range(3, 7)
		var toks []tok
		add := func(t tok) { toks = append(toks, t) }
		for i := r.Range(2, 2*n0); i > 0; i-- {
			add(tok{'e', 0, []int{r.Intn(n0), r.Intn(n0)}})
		}
		n := n0
		switch r.Intn(3) {
		case 0:
			add(tok{'r', 0, []int{r.Intn(n - 1)}})
			n--
		case 1:
			add(tok{'v', 0, r.Perm(n)[:r.Intn(n+1)]})
			add(tok{'r', 0, []int{r.Intn(n)}})
		default:
			add(tok{'r', 0, []int{0}})
			add(tok{'r', 0, []int{r.Intn(n - 1)}})
			n -= 2
		}
		ns := []int{n}
		mk := func(src int) {
			if r.Bool() {
				add(tok{'c', src, nil})
				ns = append(ns, ns[src])
			} else {
				k := ns[src]
				if r.Chance(1, 3) {
					k = r.Intn(ns[src] + 1)
				}
				V := r.Perm(max(ns[src], 1))[:min(k, ns[src])]
				add(tok{'s', src, V})
				ns = append(ns, len(V))
			}
		}
		mk(0)
		for i := r.Range(4, 14); i > 0; i-- {
			gi := i % len(ns) // alternate
			m := ns[gi]
			switch x := r.Intn(10); {
			case x < 3:
				add(tok{'v', gi, r.Perm(max(m, 1))[:min(r.Intn(m+1), m)]})
				ns[gi]++
			case x < 5 && m > 0:
				add(tok{'r', gi, []int{r.Intn(m)}})
				ns[gi]--
			case x < 6 && len(ns) < maxStore:
				mk(gi)
			case m > 0 && x < 8:
				add(tok{'e', gi, []int{r.Intn(m), r.Intn(m)}})
			case m > 0:
				add(tok{'x', gi, []int{r.Intn(m), r.Intn(m)}})
			}
		}
		g.Emit(caseLine(n0, toks))
	}
}

func gen(g *hx.Gen) {
	emit := func(n0 int, toks []tok) { g.Emit(caseLine(n0, toks)) }
	// corpus: remove a middle vertex, re-add within the stale capacity, edit copy and source
	emit(4, []tok{{'e', 0, []int{0, 1}}, {'e', 0, []int{1, 2}}, {'e', 0, []int{2, 3}}, {'e', 0, []int{0, 3}}, {'r', 0, []int{1}}, {'v', 0, []int{2}}, {'c', 0, nil}, {'x', 1, []int{0, 2}}, {'e', 0, []int{0, 1}}, {'s', 1, []int{3, 0, 2}}, {'r', 2, []int{0}}})
	emit(0, []tok{{'v', 0, nil}, {'v', 0, []int{0}}, {'r', 0, []int{0}}, {'r', 0, []int{0}}, {'c', 0, nil}, {'v', 1, nil}})
	// exhaustive: all histories of length L over one graph with at most 3 vertices, from a
	// fixed alphabet of tokens (raw numbers < 3 so every vertex is reachable)
	alphabet := func() []tok {
		var a []tok
		for i := 0; i < 3; i++ {
			for j := 0; j <= i; j++ {
				a = append(a, tok{'e', 0, []int{j, i}})
			}
		}
		a = append(a, tok{'x', 0, []int{0, 1}}, tok{'x', 0, []int{2, 1}})
		for v := 0; v < 3; v++ {
			a = append(a, tok{'r', 0, []int{v}})
		}
		a = append(a, tok{'v', 0, nil}, tok{'v', 0, []int{0}}, tok{'v', 0, []int{1, 0}}, tok{'v', 0, []int{2, 0, 1}})
		a = append(a, tok{'c', 0, nil}, tok{'s', 0, []int{1, 0}}, tok{'s', 0, []int{2, 0, 1}})
		// the same ops on store entry 1 (which is entry 0 until a graph has been created)
		a = append(a, tok{'e', 1, []int{0, 1}}, tok{'r', 1, []int{0}}, tok{'v', 1, []int{0}})
		return a
	}()
	exh := func(n0, length int) {
		idx := make([]int, length)
		for {
			toks := make([]tok, length)
			for i, j := range idx {
				toks[i] = alphabet[j]
			}
			emit(n0, toks)
			i := length - 1
			for ; i >= 0; i-- {
				idx[i]++
				if idx[i] < len(alphabet) {
					break
				}
				idx[i] = 0
			}
			if i < 0 {
				break
			}
		}
		g.Exhaustive(fmt.Sprintf("all histories of length %d over an alphabet of %d tokens from the empty graph on %d vertices", length, len(alphabet), n0))
	}
	exh(2, 2)
	if g.Thorough() {
		exh(3, 3)
		exh(2, 4)
	}
	genLargeCases(g)
	genProvCases(g)
	genNearSortedCases(g)
	genHugeCases(g)
	genQuietCases(g)
	genStaleCases(g)
	count := g.Pick(5000, 200000)
	for i := 0; i < count; i++ {
		n0 := g.Rng.Intn(6)
		length := g.Rng.Range(1, 40)
		maxN := g.Rng.Range(3, 9)
		emit(n0, genHistory(g.Rng, n0, length, maxN))
	}
}

func main() {
	hx.Main(hx.Prop{
		Rule:        "history of AddVertex/RemoveVertex/AddEdge/RemoveEdge/Copy/InducedSubgraph over a store of <= 4 graphs, executed on DenseGraph and SparseGraph; non-trivial = some RemoveVertex of a non-last vertex or some dense AddVertex into spare capacity, after which some live graph has an edge; distinct by history text; large mode (header L): the same on graphs with 20..80 vertices with hubs, observed on the touched graphs after each operation and completely at the end",
		Gen:         gen,
		Exec:        exec,
		CaseTimeout: 5 * time.Second,
		MemMB:       2048,
	})
}
