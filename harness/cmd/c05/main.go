// Command c05 replays edit histories on graph.DenseGraph and graph.SparseGraph and prints,
// after every operation, all observers of every live graph of both representations (C05).
//
// Case syntax (shared with ocaml/c05/driver.ml):  <n0>;tok tok tok ...
//
//	e<g>,<i>,<j> AddEdge   x<g>,<i>,<j> RemoveEdge   r<g>,<v> RemoveVertex
//	v<g>,<a>.<b>... AddVertex   s<g>,<a>.<b>... InducedSubgraph   c<g> Copy
//
// All numbers are raw: the store index is taken modulo the store size, vertices modulo the
// current n of that graph (an op needing a vertex is skipped when n = 0), vertex lists are
// reduced modulo n and repeats after the first are dropped.  A created graph is appended while
// the store has fewer than 4 entries, otherwise it replaces entry (g+1) mod 4.  Deleting any
// token therefore leaves a valid history.
package main

import (
	"fmt"
	"strconv"
	"strings"
	"time"

	"github.com/Tom-Johnston/mamba/graph"
	"verifharness/hx"
)

const maxStore = 4

type tok struct {
	kind byte
	g    int
	args []int
}

func (t tok) String() string {
	switch t.kind {
	case 'c':
		return fmt.Sprintf("c%d", t.g)
	case 'v', 's':
		s := make([]string, len(t.args))
		for i, a := range t.args {
			s[i] = strconv.Itoa(a)
		}
		return fmt.Sprintf("%c%d,%s", t.kind, t.g, strings.Join(s, "."))
	}
	return fmt.Sprintf("%c%d,%s", t.kind, t.g, hx.Ints(t.args))
}

func parseTok(s string) tok {
	t := tok{kind: s[0]}
	rest := s[1:]
	c := strings.IndexByte(rest, ',')
	if c < 0 {
		t.g, _ = strconv.Atoi(rest)
		return t
	}
	t.g, _ = strconv.Atoi(rest[:c])
	sep := ","
	if t.kind == 'v' || t.kind == 's' {
		sep = "."
	}
	for _, a := range strings.Split(rest[c+1:], sep) {
		if a == "" {
			continue
		}
		x, _ := strconv.Atoi(a)
		t.args = append(t.args, x)
	}
	return t
}

func parseCase(line string) (int, []tok) {
	parts := strings.SplitN(line, ";", 2)
	n0, _ := strconv.Atoi(parts[0])
	var toks []tok
	for _, f := range strings.Fields(parts[1]) {
		toks = append(toks, parseTok(f))
	}
	return n0, toks
}

func caseLine(n0 int, toks []tok) string {
	s := make([]string, len(toks))
	for i, t := range toks {
		s[i] = t.String()
	}
	return fmt.Sprintf("%d;%s", n0, strings.Join(s, " "))
}

// vlist reduces raw numbers modulo n and drops repeats after the first.
func vlist(raw []int, n int) []int {
	// spare capacity: a callee that kept the slice and appended to it would write here
	r := make([]int, 0, len(raw)+3)
	if n == 0 {
		return r
	}
	seen := map[int]bool{}
	for _, x := range raw {
		x %= n
		if !seen[x] {
			seen[x] = true
			r = append(r, x)
		}
	}
	return r
}

// scribble overwrites a caller-owned argument slice up to its capacity: with -1 in the spare
// capacity (an index panic or a visible vertex if the callee kept the slice) and 0 in the part
// that was passed.
func scribble(a []int) {
	full := a[:cap(a)]
	for i := range full {
		if i < len(a) {
			full[i] = 0
		} else {
			full[i] = -1
		}
	}
}

// dump prints all observers of g: n/m/degrees/IsEdge rows (bit masks, every ordered pair
// including i = j is asked)/neighbour lists in the order returned.
func dump(g graph.Graph) string {
	n := g.N()
	rows := make([]int, n)
	nb := make([]string, n)
	for v := 0; v < n; v++ {
		for u := 0; u < n; u++ {
			if g.IsEdge(v, u) {
				rows[v] |= 1 << uint(u)
			}
		}
		nb[v] = strings.ReplaceAll(hx.Ints(g.Neighbours(v)), ",", ".")
	}
	return fmt.Sprintf("%d/%d/%s/%s/%s", n, g.M(), hx.Ints(g.Degrees()), hx.Ints(rows), strings.Join(nb, ","))
}

func dumpAll(st []graph.EditableGraph) string {
	s := make([]string, len(st))
	for i, g := range st {
		s[i] = dump(g)
	}
	return strings.Join(s, ";")
}

// apply performs one token on one store; it returns the new store and whether a dense
// AddVertex re-used spare capacity / a non-last vertex was removed.
func apply(st []graph.EditableGraph, t tok) ([]graph.EditableGraph, bool) {
	gi := t.g % len(st)
	g := st[gi]
	n := g.N()
	interesting := false
	var created graph.EditableGraph
	switch t.kind {
	case 'e':
		if n > 0 {
			g.AddEdge(t.args[0]%n, t.args[1]%n)
		}
	case 'x':
		if n > 0 {
			g.RemoveEdge(t.args[0]%n, t.args[1]%n)
		}
	case 'r':
		if n > 0 {
			v := t.args[0] % n
			interesting = v < n-1
			g.RemoveVertex(v)
		}
	case 'v':
		nb := vlist(t.args, n)
		if d, ok := g.(*graph.DenseGraph); ok && n > 0 && cap(d.Edges) >= (n*(n-1))/2+n {
			interesting = true
		}
		g.AddVertex(nb)
		// the argument slice belongs to the caller: overwrite it (and its spare capacity)
		// after the call
		scribble(nb)
	case 's':
		V := vlist(t.args, n)
		created = g.InducedSubgraph(V)
		scribble(V)
	case 'c':
		created = g.Copy()
	default:
		panic("bad token")
	}
	if created != nil {
		if len(st) < maxStore {
			st = append(st, created)
		} else {
			st[(gi+1)%maxStore] = created
		}
	}
	return st, interesting
}

func exec(line string) hx.Result {
	n0, toks := parseCase(line)
	dst := []graph.EditableGraph{graph.NewDense(n0, nil)}
	sst := []graph.EditableGraph{graph.NewSparse(n0, nil)}
	var sb strings.Builder
	interesting, nontrivial := false, false
	kinds := map[byte]int{}
	maxN := n0
	for k, t := range toks {
		var i1, i2 bool
		dst, i1 = apply(dst, t)
		sst, i2 = apply(sst, t)
		if i1 || i2 {
			interesting = true
		}
		kinds[t.kind]++
		if k > 0 {
			sb.WriteByte(' ')
		}
		sb.WriteString("D:" + dumpAll(dst) + "|S:" + dumpAll(sst))
		for _, g := range dst {
			if interesting && g.M() > 0 {
				nontrivial = true
			}
			if g.N() > maxN {
				maxN = g.N()
			}
		}
	}
	strict := make([]string, len(dst))
	for i, g := range dst {
		d := g.(*graph.DenseGraph)
		full := d.Edges[:cap(d.Edges)]
		b := make([]int, len(full))
		for j, x := range full {
			b[j] = int(x)
		}
		strict[i] = fmt.Sprintf("%d:%s", len(d.Edges), hx.Ints(b))
	}
	buckets := []string{fmt.Sprintf("len<=%d", bucket(len(toks))), fmt.Sprintf("maxn<=%d", bucket(maxN)), fmt.Sprintf("store=%d", len(dst))}
	for k, c := range kinds {
		if c > 0 {
			buckets = append(buckets, "has:"+string(k))
		}
	}
	return hx.Result{Obs: sb.String() + " ## " + strings.Join(strict, ";"), Nontrivial: nontrivial, Buckets: buckets}
}

func bucket(n int) int {
	b := 1
	for b < n {
		b *= 2
	}
	return b
}

// genHistory produces a history; it tracks the vertex counts of the store so that sizes stay
// small and the choices are biased to the interesting shapes (the token semantics do not
// depend on this tracking).
func genHistory(r *hx.Rng, n0, length, maxN int) []tok {
	ns := []int{n0}
	var toks []tok
	last := 0   // store index used by the previous op
	pair := -1  // index of the most recent source of a copy, to alternate source/copy
	for len(toks) < length {
		// choose the graph: alternate between a copy and its source, or the same again, or random
		gi := r.Intn(len(ns))
		if pair >= 0 && r.Chance(1, 2) {
			if last == pair {
				gi = len(ns) - 1
			} else {
				gi = pair
			}
		} else if r.Chance(1, 3) {
			gi = last
		}
		n := ns[gi]
		raw := func() int { // a vertex, sometimes written with an offset so that modulo matters
			if n == 0 {
				return r.Intn(3)
			}
			return r.Intn(n) + n*r.Intn(2)
		}
		t := tok{g: gi + len(ns)*r.Intn(2)}
		switch c := r.Intn(100); {
		case c < 30:
			t.kind = 'e'
			t.args = []int{raw(), raw()}
			if r.Chance(1, 12) {
				t.args[1] = t.args[0]
			}
		case c < 42:
			t.kind = 'x'
			t.args = []int{raw(), raw()}
		case c < 60 && n < maxN:
			t.kind = 'v'
			k := 0
			if n > 0 {
				k = r.Intn(n + 1)
			}
			p := r.Perm(max(n, 1))
			t.args = p[:min(k, len(p))]
			if n > 0 && r.Chance(1, 4) {
				t.args = append(t.args, r.Intn(n)) // possibly a repeat (dropped by the normalisation)
			}
			ns[gi] = n + 1
		case c < 76:
			if n == 0 {
				continue
			}
			t.kind = 'r'
			v := r.Intn(n)
			if r.Chance(1, 5) {
				v = n - 1
			} else if r.Chance(1, 5) {
				v = 0
			}
			t.args = []int{v}
			ns[gi] = n - 1
		case c < 86:
			t.kind = 'c'
			if len(ns) < maxStore {
				ns = append(ns, n)
				pair = gi
			} else {
				ns[(gi+1)%maxStore] = n
				pair = -1
			}
		case c < 96:
			t.kind = 's'
			p := r.Perm(max(n, 1))
			k := 0
			if n > 0 {
				k = r.Intn(n + 1)
				if r.Chance(1, 3) {
					k = n // a relabelling
				}
			}
			t.args = p[:min(k, len(p))]
			m := len(vlist(t.args, n))
			if len(ns) < maxStore {
				ns = append(ns, m)
				pair = gi
			} else {
				ns[(gi+1)%maxStore] = m
				pair = -1
			}
		default:
			// a burst of edges making the graph dense before the next structural op
			if n < 2 {
				continue
			}
			for k := 0; k < n && len(toks) < length-1; k++ {
				toks = append(toks, tok{kind: 'e', g: gi, args: []int{r.Intn(n), r.Intn(n)}})
			}
			t.kind = 'e'
			t.args = []int{raw(), raw()}
		}
		last = gi
		toks = append(toks, t)
	}
	return toks
}

func gen(g *hx.Gen) {
	emit := func(n0 int, toks []tok) { g.Emit(caseLine(n0, toks)) }
	// corpus: remove a middle vertex, re-add within the stale capacity, edit copy and source
	emit(4, []tok{{'e', 0, []int{0, 1}}, {'e', 0, []int{1, 2}}, {'e', 0, []int{2, 3}}, {'e', 0, []int{0, 3}}, {'r', 0, []int{1}}, {'v', 0, []int{2}}, {'c', 0, nil}, {'x', 1, []int{0, 2}}, {'e', 0, []int{0, 1}}, {'s', 1, []int{3, 0, 2}}, {'r', 2, []int{0}}})
	emit(0, []tok{{'v', 0, nil}, {'v', 0, []int{0}}, {'r', 0, []int{0}}, {'r', 0, []int{0}}, {'c', 0, nil}, {'v', 1, nil}})
	// exhaustive: all histories of length L over one graph with at most 3 vertices, from a
	// fixed alphabet of tokens (raw numbers < 3 so every vertex is reachable)
	alphabet := func() []tok {
		var a []tok
		for i := 0; i < 3; i++ {
			for j := 0; j <= i; j++ {
				a = append(a, tok{'e', 0, []int{j, i}})
			}
		}
		a = append(a, tok{'x', 0, []int{0, 1}}, tok{'x', 0, []int{2, 1}})
		for v := 0; v < 3; v++ {
			a = append(a, tok{'r', 0, []int{v}})
		}
		a = append(a, tok{'v', 0, nil}, tok{'v', 0, []int{0}}, tok{'v', 0, []int{1, 0}}, tok{'v', 0, []int{2, 0, 1}})
		a = append(a, tok{'c', 0, nil}, tok{'s', 0, []int{1, 0}}, tok{'s', 0, []int{2, 0, 1}})
		// the same ops on store entry 1 (which is entry 0 until a graph has been created)
		a = append(a, tok{'e', 1, []int{0, 1}}, tok{'r', 1, []int{0}}, tok{'v', 1, []int{0}})
		return a
	}()
	exh := func(n0, length int) {
		idx := make([]int, length)
		for {
			toks := make([]tok, length)
			for i, j := range idx {
				toks[i] = alphabet[j]
			}
			emit(n0, toks)
			i := length - 1
			for ; i >= 0; i-- {
				idx[i]++
				if idx[i] < len(alphabet) {
					break
				}
				idx[i] = 0
			}
			if i < 0 {
				break
			}
		}
		g.Exhaustive(fmt.Sprintf("all histories of length %d over an alphabet of %d tokens from the empty graph on %d vertices", length, len(alphabet), n0))
	}
	exh(2, 2)
	if g.Thorough() {
		exh(3, 3)
		exh(2, 4)
	}
	count := g.Pick(5000, 200000)
	for i := 0; i < count; i++ {
		n0 := g.Rng.Intn(6)
		length := g.Rng.Range(1, 40)
		maxN := g.Rng.Range(3, 9)
		emit(n0, genHistory(g.Rng, n0, length, maxN))
	}
}

func main() {
	hx.Main(hx.Prop{
		Rule:        "history of AddVertex/RemoveVertex/AddEdge/RemoveEdge/Copy/InducedSubgraph over a store of <= 4 graphs, executed on DenseGraph and SparseGraph; non-trivial = some RemoveVertex of a non-last vertex or some dense AddVertex into spare capacity, after which some live graph has an edge; distinct by history text",
		Gen:         gen,
		Exec:        exec,
		CaseTimeout: 5 * time.Second,
		MemMB:       2048,
	})
}
