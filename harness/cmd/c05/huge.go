package main

// Huge mode (header `H<n0>`): histories on graphs with 100..600 vertices, where hub degrees and
// argument lists cross 128, 256 and 512.  The extracted model computes the packed index in unary
// arithmetic and cannot follow at this size, so these cases are judged on the implementation
// side by the property's relation itself: an adjacency-matrix graph (`oracle`, the plain
// adjacency-set model of the property text, ~60 lines) is run beside the DenseGraph and the
// SparseGraph and N, M, Degrees, all Neighbours (ascending) and sampled IsEdge rows of the
// touched graphs are compared after every operation, everything at the end.  A difference is
// reported through Result.Viol; the observation line is the constant "huge" on both sides.

import (
	"fmt"

	"github.com/Tom-Johnston/mamba/graph"
	"verifharness/hx"
)

type oracle struct {
	n   int
	adj [][]bool
}

func newOracle(n int) *oracle {
	o := &oracle{n: n, adj: make([][]bool, n)}
	for i := range o.adj {
		o.adj[i] = make([]bool, n)
	}
	return o
}

func (o *oracle) addEdge(i, j int) {
	if i != j {
		o.adj[i][j], o.adj[j][i] = true, true
	}
}

func (o *oracle) removeEdge(i, j int) {
	if i != j {
		o.adj[i][j], o.adj[j][i] = false, false
	}
}

func (o *oracle) addVertex(nb []int) {
	for i := range o.adj {
		o.adj[i] = append(o.adj[i], false)
	}
	o.adj = append(o.adj, make([]bool, o.n+1))
	for _, u := range nb {
		o.adj[o.n][u], o.adj[u][o.n] = true, true
	}
	o.n++
}

func (o *oracle) removeVertex(v int) {
	o.adj = append(o.adj[:v], o.adj[v+1:]...)
	for i := range o.adj {
		o.adj[i] = append(o.adj[i][:v], o.adj[i][v+1:]...)
	}
	o.n--
}

func (o *oracle) induced(V []int) *oracle {
	h := newOracle(len(V))
	for x, p := range V {
		for y, q := range V {
			h.adj[x][y] = o.adj[p][q]
		}
	}
	return h
}

func (o *oracle) copy() *oracle {
	h := newOracle(o.n)
	for i := range o.adj {
		copy(h.adj[i], o.adj[i])
	}
	return h
}

func (o *oracle) neighbours(v int) []int {
	r := []int{}
	for u, e := range o.adj[v] {
		if e {
			r = append(r, u)
		}
	}
	return r
}

// agree compares g with o: N, M, Degrees, Neighbours of all vertices, IsEdge rows of rows.
func agree(label string, g graph.Graph, o *oracle, rows []int) *hx.OracleViolation {
	fail := func(format string, a ...interface{}) *hx.OracleViolation {
		v := hx.Fail("huge-oracle", label+": "+format, a...)
		return &v
	}
	if g.N() != o.n {
		return fail("N = %d, adjacency model has %d", g.N(), o.n)
	}
	deg := g.Degrees()
	if len(deg) != o.n {
		return fail("len(Degrees) = %d, n = %d", len(deg), o.n)
	}
	m := 0
	for v := 0; v < o.n; v++ {
		want := o.neighbours(v)
		m += len(want)
		if deg[v] != len(want) {
			return fail("Degrees[%d] = %d, adjacency model %d", v, deg[v], len(want))
		}
		if got := g.Neighbours(v); hx.Ints(got) != hx.Ints(want) {
			return fail("Neighbours(%d) = %v, adjacency model %v", v, got, want)
		}
	}
	if g.M() != m/2 {
		return fail("M = %d, adjacency model %d", g.M(), m/2)
	}
	for _, v := range rows {
		for u := 0; u < o.n; u++ {
			if g.IsEdge(v, u) != o.adj[v][u] {
				return fail("IsEdge(%d,%d) = %v, adjacency model %v", v, u, g.IsEdge(v, u), o.adj[v][u])
			}
		}
	}
	return nil
}

func hugeSample(n int, args []int) []int {
	if n == 0 {
		return nil
	}
	s := []int{0, n / 2, n - 1}
	for _, v := range []int{63, 64, 65, 127, 128, 129, 192, 255, 256, 257, 320, 511, 512, 513} {
		if v < n {
			s = append(s, v)
		}
	}
	for i, a := range args {
		if i >= 4 {
			break
		}
		s = append(s, a%n)
	}
	return s
}

func execHuge(h header, toks []tok) hx.Result {
	dst := []graph.EditableGraph{graph.NewDense(h.n0, nil)}
	sst := []graph.EditableGraph{graph.NewSparse(h.n0, nil)}
	ost := []*oracle{newOracle(h.n0)}
	var viol []hx.OracleViolation
	maxN, maxDeg := h.n0, 0
	for k, t := range toks {
		var touched []int
		dst, _, touched = apply(dst, t, nil, &viol)
		sst, _, _ = apply(sst, t, nil, &viol)
		// the same token on the adjacency model
		gi := t.g % len(ost)
		o := ost[gi]
		n := o.n
		var created *oracle
		switch t.kind {
		case 'e':
			if n > 0 {
				o.addEdge(t.args[0]%n, t.args[1]%n)
			}
		case 'x':
			if n > 0 {
				o.removeEdge(t.args[0]%n, t.args[1]%n)
			}
		case 'r':
			if n > 0 {
				o.removeVertex(t.args[0] % n)
			}
		case 'v':
			o.addVertex(vlist(t.args, n))
		case 's':
			created = o.induced(vlist(t.args, n))
		case 'c':
			created = o.copy()
		}
		if created != nil {
			if len(ost) < maxStore {
				ost = append(ost, created)
			} else {
				ost[(gi+1)%maxStore] = created
			}
		}
		if len(viol) > 0 {
			break
		}
		for _, i := range touched {
			rows := hugeSample(ost[i].n, t.args)
			if v := agree(fmt.Sprintf("after token %d (%s) dense[%d]", k, t.kindName(), i), dst[i], ost[i], rows); v != nil {
				viol = append(viol, *v)
			}
			if v := agree(fmt.Sprintf("after token %d (%s) sparse[%d]", k, t.kindName(), i), sst[i], ost[i], rows); v != nil {
				viol = append(viol, *v)
			}
			if ost[i].n > maxN {
				maxN = ost[i].n
			}
		}
		if len(viol) > 0 {
			break
		}
	}
	if len(viol) == 0 {
		for i := range ost {
			if v := agree(fmt.Sprintf("at the end dense[%d]", i), dst[i], ost[i], allVertices(ost[i].n)); v != nil {
				viol = append(viol, *v)
			}
			if v := agree(fmt.Sprintf("at the end sparse[%d]", i), sst[i], ost[i], allVertices(ost[i].n)); v != nil {
				viol = append(viol, *v)
			}
			for v := 0; v < ost[i].n; v++ {
				if d := len(ost[i].neighbours(v)); d > maxDeg {
					maxDeg = d
				}
			}
		}
	}
	buckets := []string{"mode=huge", fmt.Sprintf("maxn<=%d", bucket(maxN)), fmt.Sprintf("finalmaxdeg<=%d", bucket(maxDeg))}
	return hx.Result{Obs: "huge", Nontrivial: maxDeg >= 100, Buckets: buckets, Viol: viol}
}

func (t tok) kindName() string {
	switch t.kind {
	case 'e':
		return "AddEdge"
	case 'x':
		return "RemoveEdge"
	case 'r':
		return "RemoveVertex"
	case 'v':
		return "AddVertex"
	case 's':
		return "InducedSubgraph"
	case 'c':
		return "Copy"
	}
	return string(t.kind)
}
