package main

// Provenance of the graphs a history starts from (idea of harness/cmd/c06/prov.go and
// harness/cmd/c07/codecobs/prov.go, re-implemented so that C05 depends on nobody's files).
//
// Case header  p<dk><sk>,<n0>,<salt>,<a>.<b>,<a>.<b>,...  : the history starts from a DenseGraph
// built in the way <dk> and a SparseGraph built in the way <sk>, both presenting the graph on n0
// vertices with the listed edges (raw numbers modulo n0, loops and repeats dropped).  The model
// starts from the same abstract graph (empty graph + AddEdge; the theorems hold from every state
// related by Rd/Rs, in particular for edge bytes other than 1 and any capacity), so provenance
// cases have no strict part.  Values produced by constructors/decoders/transformations that are
// the subject of other properties are guarded: if their struct fields do not represent (n0, edges)
// the plain value is used instead (the guard does not call the observers: they are under test).  Copy and InducedSubgraph results are not guarded
// (they are C05's subject): the initial observation "I:" compares them with the model.

import (
	"sort"

	"github.com/Tom-Johnston/mamba/graph"
	"github.com/Tom-Johnston/mamba/sortints"
	"verifharness/hx"
)

var denseProv = []byte{
	'w', // NewDense from an edge array with arbitrary non-zero bytes (2, 7, 255, ... mixed with 1)
	'x', // NewDense from the coloured edge array returned by ChromaticIndex
	'c', // ComplementDense of the (weighted) complement
	'6', // the DenseGraph returned by Graph6Decode
	'p', // Copy() of w
	'i', // InducedSubgraph (arbitrary vertex order) of a larger weighted graph
	'q', // Copy() of i
	'e', // weighted graph with one vertex too many, edited down (RemoveVertex, AddVertex, RemoveVertex)
}

var sparseProv = []byte{
	'u', // NewSparse from neighbour lists in arbitrary order with repeats
	'6', // the SparseGraph returned by Sparse6Decode
	'p', // Copy() of u
	'i', // InducedSubgraph of a larger sparse graph
	'q', // Copy() of i
	'e', // edited down from a larger graph
}

type pedge struct{ v, u int } // u < v

func pnorm(a, b int) pedge {
	if a < b {
		a, b = b, a
	}
	return pedge{a, b}
}

func cleanEdges(n int, raw [][2]int) []pedge {
	var out []pedge
	if n == 0 {
		return out
	}
	seen := map[pedge]bool{}
	for _, e := range raw {
		a, b := e[0]%n, e[1]%n
		if a == b {
			continue
		}
		p := pnorm(a, b)
		if !seen[p] {
			seen[p] = true
			out = append(out, p)
		}
	}
	return out
}

var provWeights = []byte{2, 7, 255, 128, 3, 64, 1, 254}

func pDense(n int, es []pedge, r *hx.Rng) *graph.DenseGraph {
	bits := make([]byte, n*(n-1)/2)
	for _, e := range es {
		w := byte(1)
		if r != nil {
			w = provWeights[r.Intn(len(provWeights))]
		}
		bits[e.v*(e.v-1)/2+e.u] = w
	}
	return graph.NewDense(n, bits)
}

func pSparse(n int, es []pedge, r *hx.Rng) *graph.SparseGraph {
	nb := make([]sortints.SortedInts, n)
	for i := range nb {
		nb[i] = []int{}
	}
	for _, e := range es {
		nb[e.v] = append(nb[e.v], e.u)
		nb[e.u] = append(nb[e.u], e.v)
	}
	for x, l := range nb {
		if r != nil {
			if len(l) > 0 && r.Chance(1, 3) {
				l = append(l, l[r.Intn(len(l))])
			}
			for i := len(l) - 1; i > 0; i-- {
				j := r.Intn(i + 1)
				l[i], l[j] = l[j], l[i]
			}
			nb[x] = l
		} else {
			sort.Ints(l)
		}
	}
	return graph.NewSparse(n, nb)
}

// pLarger embeds (n, es) into a graph on up to n+3 vertices: verts[i] plays the role of i.
func pLarger(n int, es []pedge, r *hx.Rng) (N int, big []pedge, verts []int) {
	N = n + r.Range(0, 3)
	p := r.Perm(max(N, 1))[:N]
	verts = append([]int{}, p[:n]...)
	in := make([]bool, N)
	for _, v := range verts {
		in[v] = true
	}
	for _, e := range es {
		big = append(big, pnorm(verts[e.v], verts[e.u]))
	}
	for a := 1; a < N; a++ {
		for b := 0; b < a; b++ {
			if (!in[a] || !in[b]) && r.Chance(1, 2) {
				big = append(big, pedge{a, b})
			}
		}
	}
	return N, big, verts
}

func pComplement(n int, es []pedge) []pedge {
	has := map[pedge]bool{}
	for _, e := range es {
		has[e] = true
	}
	var out []pedge
	for v := 1; v < n; v++ {
		for u := 0; u < v; u++ {
			if !has[pedge{v, u}] {
				out = append(out, pedge{v, u})
			}
		}
	}
	return out
}

// pEditDown: a graph with one vertex too many at a random place, joined to about half of the
// others; that vertex is removed, a vertex is added at the end and removed again.
func pEditDown(n int, es []pedge, r *hx.Rng, mk func(n int, es []pedge) graph.EditableGraph) graph.EditableGraph {
	p := r.Intn(n + 1)
	up := func(v int) int {
		if v >= p {
			return v + 1
		}
		return v
	}
	var big []pedge
	for _, e := range es {
		big = append(big, pnorm(up(e.v), up(e.u)))
	}
	for v := 0; v <= n; v++ {
		if v != p && r.Chance(1, 2) {
			big = append(big, pnorm(p, v))
		}
	}
	g := mk(n+1, big)
	if !presents(g, n+1, cleanP(big)) {
		return nil // the constructor is to blame (another property): the caller falls back
	}
	g.RemoveVertex(p)
	var nb []int
	for v := 0; v < g.N(); v++ {
		if r.Chance(1, 2) {
			nb = append(nb, v)
		}
	}
	g.AddVertex(nb)
	g.RemoveVertex(g.N() - 1)
	return g
}

// presents: the value REPRESENTS exactly (n, es).  The guard looks at the struct fields, not at
// the observers: the observers (IsEdge, Neighbours, Degrees, N, M) are C05's own subject and are
// compared with the model in the initial dump, so a wrong observer must not make the guard
// fall back to the plain value.  Dense: n, m, degree sequence, len(Edges) = n(n-1)/2 and a
// non-zero byte exactly at the cells of the edges.  Sparse: n, m, degree sequence and the
// ascending neighbour lists.
func presents(g graph.Graph, n int, es []pedge) bool {
	adj := make([][]bool, n)
	deg := make([]int, n)
	for i := range adj {
		adj[i] = make([]bool, n)
	}
	for _, e := range es {
		adj[e.v][e.u], adj[e.u][e.v] = true, true
		deg[e.v]++
		deg[e.u]++
	}
	sameInts := func(a, b []int) bool {
		if len(a) != len(b) {
			return false
		}
		for i := range a {
			if a[i] != b[i] {
				return false
			}
		}
		return true
	}
	switch x := g.(type) {
	case *graph.DenseGraph:
		if x == nil || x.NumberOfVertices != n || x.NumberOfEdges != len(es) || !sameInts(x.DegreeSequence, deg) || len(x.Edges) != n*(n-1)/2 {
			return false
		}
		for v := 1; v < n; v++ {
			for u := 0; u < v; u++ {
				if (x.Edges[v*(v-1)/2+u] > 0) != adj[v][u] {
					return false
				}
			}
		}
		return true
	case *graph.SparseGraph:
		if x == nil || x.NumberOfVertices != n || x.NumberOfEdges != len(es) || !sameInts(x.DegreeSequence, deg) || len(x.Neighbourhoods) != n {
			return false
		}
		for v := 0; v < n; v++ {
			var want []int
			for u := 0; u < n; u++ {
				if adj[v][u] {
					want = append(want, u)
				}
			}
			if !sameInts([]int(x.Neighbourhoods[v]), want) {
				return false
			}
		}
		return true
	}
	return false
}

func pcall(f func()) (ok bool) {
	defer func() {
		if e := recover(); e != nil {
			ok = false
		}
	}()
	f()
	return true
}

func plainDense(n int, es []pedge) graph.EditableGraph {
	g := graph.NewDense(n, nil)
	for _, e := range es {
		g.AddEdge(e.u, e.v)
	}
	return g
}

func plainSparse(n int, es []pedge) graph.EditableGraph {
	g := graph.NewSparse(n, nil)
	for _, e := range es {
		g.AddEdge(e.u, e.v)
	}
	return g
}

// buildDense returns the start value and whether the requested provenance was delivered.
func buildDense(k byte, n int, es []pedge, r *hx.Rng) (graph.EditableGraph, bool) {
	var g graph.EditableGraph
	guard := func(x graph.Graph, n int, es []pedge) bool { return presents(x, n, es) }
	ok := pcall(func() {
		switch k {
		case 'w':
			g = pDense(n, es, r)
		case 'x':
			if n > 6 {
				return
			}
			_, col := graph.ChromaticIndex(pDense(n, es, nil))
			if len(col) != n*(n-1)/2 {
				return
			}
			g = graph.NewDense(n, col)
		case 'c':
			g = graph.ComplementDense(pDense(n, pComplement(n, es), r))
		case '6':
			d, err := graph.Graph6Decode(graph.Graph6Encode(pDense(n, es, nil)))
			if err == nil {
				g = d
			}
		case 'p':
			src := pDense(n, es, r)
			if guard(src, n, es) {
				g = src.Copy()
				return
			}
		case 'i', 'q':
			N, big, verts := pLarger(n, es, r)
			src := pDense(N, big, r)
			if guard(src, N, cleanP(big)) {
				g = src.InducedSubgraph(verts)
				if k == 'q' {
					g = g.Copy()
				}
				return
			}
		case 'e':
			if e := pEditDown(n, es, r, func(n int, es []pedge) graph.EditableGraph { return pDense(n, es, r) }); e != nil {
				g = e
			}
		}
	})
	switch k {
	case 'p', 'i', 'q', 'e':
		// results of C05's own operations: not guarded, the initial observation decides
		if ok && g != nil {
			return g, true
		}
	default:
		if ok && g != nil && presents(g, n, es) {
			return g, true
		}
	}
	return plainDense(n, es), false
}

func buildSparse(k byte, n int, es []pedge, r *hx.Rng) (graph.EditableGraph, bool) {
	var g graph.EditableGraph
	ok := pcall(func() {
		switch k {
		case 'u':
			g = pSparse(n, es, r)
		case '6':
			s, err := graph.Sparse6Decode(graph.Sparse6Encode(pSparse(n, es, nil)))
			if err == nil {
				g = s
			}
		case 'p':
			src := pSparse(n, es, r)
			if presents(src, n, es) {
				g = src.Copy()
			}
		case 'i', 'q':
			N, big, verts := pLarger(n, es, r)
			src := pSparse(N, big, r)
			if presents(src, N, cleanP(big)) {
				g = src.InducedSubgraph(verts)
				if k == 'q' {
					g = g.Copy()
				}
			}
		case 'e':
			if e := pEditDown(n, es, r, func(n int, es []pedge) graph.EditableGraph { return pSparse(n, es, r) }); e != nil {
				g = e
			}
		}
	})
	switch k {
	case 'p', 'i', 'q', 'e':
		if ok && g != nil {
			return g, true
		}
	default:
		if ok && g != nil && presents(g, n, es) {
			return g, true
		}
	}
	return plainSparse(n, es), false
}

// cleanP drops repeated pairs.
func cleanP(es []pedge) []pedge {
	seen := map[pedge]bool{}
	var out []pedge
	for _, e := range es {
		if !seen[e] {
			seen[e] = true
			out = append(out, e)
		}
	}
	return out
}
