// Command c06 calls every constructor, named family, transformation, view and decoder of
// package graph on small parameter tuples and dumps the returned graph through the generic
// observers of the Graph interface (C06).  Every dump is checked for well-formedness by an
// oracle (symmetric, loop-free, M = number of edges, Degrees/Neighbours = adjacency) and the
// dump itself is the observation compared with the extracted Coq model of the constructor.
//
// Case syntax (shared with ocaml/c06/driver.ml): `kind a b c;tok tok tok` — a kind, integer
// header arguments, and after the semicolon a list of tokens (integers, edges `i-j`, or comma
// lists) whose meaning depends on the kind.  See `exec` below.
package main

import (
	"fmt"
	"math/rand"
	"sort"
	"strconv"
	"strings"
	"time"

	"github.com/Tom-Johnston/mamba/graph"
	"github.com/Tom-Johnston/mamba/sortints"
	"verifharness/hx"
)

// ---------------------------------------------------------------- observation

type dump struct {
	n, m int
	deg  []int
	nb   [][]int
	adj  [][]bool
}

func observe(g graph.Graph) dump {
	n := g.N()
	d := dump{n: n, m: g.M(), deg: g.Degrees()}
	d.nb = make([][]int, n)
	d.adj = make([][]bool, n)
	for i := 0; i < n; i++ {
		d.nb[i] = g.Neighbours(i)
		d.adj[i] = make([]bool, n)
		for j := 0; j < n; j++ {
			d.adj[i][j] = g.IsEdge(i, j)
		}
	}
	return d
}

// observeRev reads the same observers in the opposite order.
func observeRev(g graph.Graph) dump {
	n := g.N()
	d := dump{n: n}
	d.nb = make([][]int, n)
	d.adj = make([][]bool, n)
	for i := n - 1; i >= 0; i-- {
		d.adj[i] = make([]bool, n)
		for j := n - 1; j >= 0; j-- {
			d.adj[i][j] = g.IsEdge(i, j)
		}
	}
	for i := n - 1; i >= 0; i-- {
		d.nb[i] = g.Neighbours(i)
	}
	d.deg = g.Degrees()
	d.m = g.M()
	return d
}

// String prints the projected form: neighbour lists as sets (sorted).
func (d dump) String() string {
	var sb strings.Builder
	fmt.Fprintf(&sb, "N=%d M=%d D=%s A=", d.n, d.m, hx.Ints(d.deg))
	for i := range d.adj {
		if i > 0 {
			sb.WriteByte('.')
		}
		for _, b := range d.adj[i] {
			if b {
				sb.WriteByte('1')
			} else {
				sb.WriteByte('0')
			}
		}
	}
	sb.WriteString(" NB=")
	for i := range d.nb {
		if i > 0 {
			sb.WriteByte('/')
		}
		sb.WriteString(hx.Ints(hx.SortedCopy(d.nb[i])))
	}
	return sb.String()
}

// wf is the oracle of the first sentence of the property.
func (d dump) wf() []hx.OracleViolation {
	var v []hx.OracleViolation
	fail := func(key, f string, a ...interface{}) {
		if len(v) < 4 {
			v = append(v, hx.Fail("C06:"+key, f, a...))
		}
	}
	if d.n < 0 {
		fail("n", "N() = %d is negative", d.n)
		return v
	}
	if len(d.deg) != d.n {
		fail("deglen", "len(Degrees()) = %d but N() = %d", len(d.deg), d.n)
	}
	edges := 0
	for i := 0; i < d.n; i++ {
		if d.adj[i][i] {
			fail("loop", "IsEdge(%d,%d) is true", i, i)
		}
		row := []int{}
		for j := 0; j < d.n; j++ {
			if d.adj[i][j] != d.adj[j][i] {
				fail("sym", "IsEdge(%d,%d) = %v but IsEdge(%d,%d) = %v", i, j, d.adj[i][j], j, i, d.adj[j][i])
			}
			if d.adj[i][j] && i != j {
				row = append(row, j)
				if i < j {
					edges++
				}
			}
		}
		if i < len(d.deg) && d.deg[i] != len(row) {
			fail("deg", "Degrees()[%d] = %d but vertex %d has %d neighbours by IsEdge", i, d.deg[i], i, len(row))
		}
		if hx.Ints(hx.SortedCopy(d.nb[i])) != hx.Ints(row) {
			fail("nb", "Neighbours(%d) = %v but IsEdge gives %v", i, d.nb[i], row)
		}
	}
	if d.m != edges {
		fail("m", "M() = %d but IsEdge gives %d edges", d.m, edges)
	}
	return v
}

// ---------------------------------------------------------------- case parsing

type tcase struct {
	kind string
	args []string // header arguments after the kind
	toks []string // tokens after the semicolon
}

func parse(line string) tcase {
	parts := strings.SplitN(line, ";", 2)
	h := strings.Fields(parts[0])
	c := tcase{kind: h[0], args: h[1:]}
	if len(parts) > 1 {
		c.toks = strings.Fields(parts[1])
	}
	return c
}

// scribble overwrites a slice the caller handed to the library (input aliasing: the result must
// not depend on it any more)
func scribble(a []int) {
	for i := range a {
		a[i] = -1 - 3*a[i]
	}
}

func atoi(s string) int {
	v, err := strconv.Atoi(s)
	if err != nil {
		panic("bad integer " + s)
	}
	return v
}

func (c tcase) arg(i int) int { return atoi(c.args[i]) }

func intsOf(toks []string) []int {
	r := make([]int, len(toks))
	for i, t := range toks {
		r[i] = atoi(t)
	}
	return r
}

func commaInts(s string) []int {
	if s == "-" || s == "" {
		return []int{}
	}
	return intsOf(strings.Split(s, ","))
}

func edgesOf(toks []string) [][2]int {
	r := make([][2]int, len(toks))
	for i, t := range toks {
		p := strings.SplitN(t, "-", 2)
		r[i] = [2]int{atoi(p[0]), atoi(p[1])}
	}
	return r
}

// build makes the input graph of a transformation in one of the representations:
// d dense, s sparse, c complement view of the dense complement, i induced-subgraph view (the
// rotation x -> x+1 mod n) of the dense graph relabelled the other way round.
func build(rep string, n int, es [][2]int) graph.Graph {
	switch rep {
	case "d":
		g := graph.NewDense(n, nil)
		for _, e := range es {
			g.AddEdge(e[0], e[1])
		}
		return g
	case "s":
		g := graph.NewSparse(n, nil)
		for _, e := range es {
			g.AddEdge(e[0], e[1])
		}
		return g
	case "c":
		g := graph.NewDense(n, nil)
		for _, e := range es {
			g.AddEdge(e[0], e[1])
		}
		return graph.Complement(graph.ComplementDense(g))
	case "i":
		h := graph.NewDense(n, nil)
		V := make([]int, n)
		for x := range V {
			V[x] = (x + 1) % n
		}
		for _, e := range es {
			h.AddEdge(V[e[0]], V[e[1]])
		}
		return graph.InducedSubgraph(h, V)
	}
	if isProv(rep) {
		// provenance layer (prov.go): the same abstract graph reached in another way; if the
		// library did not deliver it (guard), the operation under test gets the plain value
		if g, ok := buildProv(rep, n, es); ok {
			return g
		}
		provFallback = true
		if rep[0] == 's' {
			return build("s", n, es)
		}
		return build("d", n, es)
	}
	panic("bad representation " + rep)
}

// set by build when a provenance could not be produced (reported as a bucket)
var provFallback bool

// construct makes the graph of a constructor / transformation case (used by kind twice).
func construct(c tcase) graph.Graph {
	switch c.kind {
	case "complete":
		return graph.CompleteGraph(c.arg(0))
	case "path":
		return graph.Path(c.arg(0))
	case "cycle":
		return graph.Cycle(c.arg(0))
	case "star":
		return graph.Star(c.arg(0))
	case "partite":
		return graph.CompletePartiteGraph(intsOf(c.toks)...)
	case "rook":
		return graph.RookGraph(c.arg(0), c.arg(1))
	case "flower":
		return graph.FlowerSnark(c.arg(0))
	case "hypercube":
		return graph.HypercubeGraph(c.arg(0))
	case "folded":
		return graph.FoldedHypercubeGraph(c.arg(0))
	case "kneser":
		return graph.KneserGraph(c.arg(0), c.arg(1))
	case "bikneser":
		return graph.BipartiteKneserGraph(c.arg(0), c.arg(1))
	case "circulant":
		return graph.CirculantGraph(c.arg(0), intsOf(c.toks)...)
	case "petersen":
		return graph.GeneralisedPetersenGraph(c.arg(0), c.arg(1))
	case "friendship":
		return graph.FriendshipGraph(c.arg(0))
	case "newdensenil":
		return graph.NewDense(c.arg(0), nil)
	case "newsparsenil":
		return graph.NewSparse(c.arg(0), nil)
	case "compdense":
		return graph.ComplementDense(build(c.args[0], c.arg(1), edgesOf(c.toks)))
	case "line":
		return graph.LineGraphDense(build(c.args[0], c.arg(1), edgesOf(c.toks)))
	}
	panic("twice: no constructor for " + c.kind)
}

// ---------------------------------------------------------------- execution of one case

// modes of comparison: full = the dump is determined by the property (definition of the
// family / transformation); wfonly = the property determines only well-formedness (random
// graphs, decoders): the projected part is then constant and the dump goes to the strict part.
func exec(line string) hx.Result {
	c := parse(line)
	var dumps []dump
	wfonly := false
	provFallback = false
	var extraViol []hx.OracleViolation
	see := func(g graph.Graph) {
		d := observe(g)
		dumps = append(dumps, d)
		// API call patterns: the observers are called a second time in the opposite order (IsEdge
		// from the last pair down, Neighbours from the last vertex down, Degrees, M, N) after the
		// caller has overwritten the slice Degrees() returned (the library's own complement view
		// overwrites the result of Degrees() of an arbitrary Graph, so that slice is the caller's);
		// a value of the Graph interface must answer the same
		if d.n <= 70 && len(extraViol) == 0 {
			dg := g.Degrees()
			for i := range dg {
				dg[i] = -7
			}
			if d2 := observeRev(g); d2.String() != d.String() {
				extraViol = append(extraViol, hx.Fail("C06:observer-order", "second observation in reverse order differs: %s / %s", d.String(), d2.String()))
			}
		}
	}
	switch c.kind {
	case "complete":
		see(graph.CompleteGraph(c.arg(0)))
	case "path":
		see(graph.Path(c.arg(0)))
	case "cycle":
		see(graph.Cycle(c.arg(0)))
	case "star":
		see(graph.Star(c.arg(0)))
	case "partite":
		nums := intsOf(c.toks)
		g := graph.CompletePartiteGraph(nums...)
		scribble(nums)
		see(g)
	case "rook":
		see(graph.RookGraph(c.arg(0), c.arg(1)))
	case "flower":
		see(graph.FlowerSnark(c.arg(0)))
	case "flower1": // FlowerSnark(1): outside the definition (it would prescribe a loop); wf only
		wfonly = true
		see(graph.FlowerSnark(1))
	case "hypercube":
		see(graph.HypercubeGraph(c.arg(0)))
	case "folded":
		see(graph.FoldedHypercubeGraph(c.arg(0)))
	case "kneser":
		see(graph.KneserGraph(c.arg(0), c.arg(1)))
	case "bikneser":
		see(graph.BipartiteKneserGraph(c.arg(0), c.arg(1)))
	case "circulant":
		ds := intsOf(c.toks)
		g := graph.CirculantGraph(c.arg(0), ds...)
		scribble(ds)
		see(g)
	case "circbip":
		ds := intsOf(c.toks)
		g := graph.CirculantBipartiteGraph(c.arg(0), c.arg(1), ds...)
		scribble(ds)
		see(g)
	case "petersen":
		see(graph.GeneralisedPetersenGraph(c.arg(0), c.arg(1)))
	case "friendship":
		see(graph.FriendshipGraph(c.arg(0)))
	case "newdense":
		// the caller's slice is overwritten after the call and the graph observed again
		buf := make([]byte, len(c.toks))
		for i, v := range intsOf(c.toks) {
			buf[i] = byte(v)
		}
		g := graph.NewDense(c.arg(0), buf)
		see(g)
		for i := range buf {
			if buf[i] == 0 {
				buf[i] = 1
			} else {
				buf[i] = 0
			}
		}
		see(g)
	case "newdensenil":
		see(graph.NewDense(c.arg(0), nil))
	case "newsparse":
		n := c.arg(0)
		nbs := make([]sortints.SortedInts, len(c.toks))
		shared := map[string]sortints.SortedInts{}
		for i, t := range c.toks {
			// equal lists are passed as one and the same slice (the same slice given twice)
			if l, ok := shared[t]; ok && len(l) > 0 {
				nbs[i] = l
			} else {
				nbs[i] = commaInts(t)
				shared[t] = nbs[i]
			}
		}
		g := graph.NewSparse(n, nbs)
		see(g)
		for i := range nbs {
			for k := range nbs[i] {
				nbs[i][k] = (nbs[i][k] + 1) % n
			}
			if i%2 == 0 {
				nbs[i] = nil
			}
		}
		see(g)
	case "newsparsenil":
		see(graph.NewSparse(c.arg(0), nil))
	case "rgraph":
		wfonly = true
		see(graph.RandomGraph(c.arg(0), float64(c.arg(1))/8, int64(c.arg(2))))
	case "rtree":
		wfonly = true
		see(graph.RandomTree(c.arg(0), int64(c.arg(1))))
	case "compdense":
		see(graph.ComplementDense(build(c.args[0], c.arg(1), edgesOf(c.toks))))
	case "compview":
		see(graph.Complement(build(c.args[0], c.arg(1), edgesOf(c.toks))))
	case "line":
		see(graph.LineGraphDense(build(c.args[0], c.arg(1), edgesOf(c.toks))))
	case "indview":
		// the caller's V is overwritten after the view has been observed once
		V := commaInts(c.args[2])
		see(graph.InducedSubgraph(build(c.args[0], c.arg(1), edgesOf(c.toks)), V))
	case "split":
		g := build(c.args[0], c.arg(1), edgesOf(c.toks)).(graph.EditableGraph)
		graph.SplitEdge(g, c.arg(2), c.arg(3))
		see(g)
	case "contract":
		g := build(c.args[0], c.arg(1), edgesOf(c.toks)).(graph.EditableGraph)
		graph.Contract(g, c.arg(2), c.arg(3))
		see(g)
	case "consplit":
		// Contract then SplitEdge on the same graph: the second call re-slices a DenseGraph's
		// backing array into the stale tail the RemoveVertex of the first left behind
		g := build(c.args[0], c.arg(1), edgesOf(c.toks)).(graph.EditableGraph)
		graph.Contract(g, c.arg(2), c.arg(3))
		see(g)
		graph.SplitEdge(g, c.arg(4), c.arg(5))
		see(g)
	case "big":
		return execBig(c)
	case "twice":
		// result aliasing / hidden package-level state: the same call is made twice and both
		// results are held; the second result is edited (edge toggled, vertices added, one
		// removed) through its own methods; the first must still be what it was
		inner := parse(strings.TrimPrefix(line, "twice "))
		g1 := construct(inner)
		see(g1)
		g2 := construct(inner)
		if e, ok := g2.(graph.EditableGraph); ok {
			if e.N() >= 2 {
				if e.IsEdge(0, 1) {
					e.RemoveEdge(0, 1)
				} else {
					e.AddEdge(0, 1)
				}
			}
			// grow by two vertices and shrink by one: N, M and the adjacency all differ afterwards
			if e.N() >= 1 {
				e.AddVertex([]int{0})
				e.AddVertex([]int{})
				e.RemoveVertex(0)
			} else {
				e.AddVertex([]int{})
			}
		}
		see(g1)
	case "viewedit":
		// views are live: built once over an editable base, then observed (with the base) before
		// and after every edit of the base.  Tokens with ':' are edits, the others edges.
		var es, ops []string
		for _, t := range c.toks {
			if strings.Contains(t, ":") {
				ops = append(ops, t)
			} else {
				es = append(es, t)
			}
		}
		base := build(c.args[0], c.arg(1), edgesOf(es)).(graph.EditableGraph)
		V := commaInts(c.args[2])
		cp := func() []int { return append([]int(nil), V...) }
		views := []graph.Graph{
			base,
			graph.Complement(base),
			graph.InducedSubgraph(base, cp()),
			graph.Complement(graph.InducedSubgraph(base, cp())),
			graph.InducedSubgraph(graph.Complement(base), cp()),
		}
		seeAll := func() {
			for _, v := range views {
				see(v)
			}
		}
		seeAll()
		for _, t := range ops {
			p := strings.SplitN(t, ":", 2)
			switch p[0] {
			case "av":
				base.AddVertex(commaInts(p[1]))
			case "rv":
				base.RemoveVertex(atoi(p[1]))
			case "ae":
				e := edgesOf([]string{p[1]})[0]
				base.AddEdge(e[0], e[1])
			case "re":
				e := edgesOf([]string{p[1]})[0]
				base.RemoveEdge(e[0], e[1])
			case "sp":
				e := edgesOf([]string{p[1]})[0]
				graph.SplitEdge(base, e[0], e[1])
			case "ct":
				e := edgesOf([]string{p[1]})[0]
				graph.Contract(base, e[0], e[1])
			default:
				panic("bad edit " + t)
			}
			seeAll()
		}
	case "prufer":
		wfonly = true
		code := intsOf(c.toks)
		g := graph.PruferDecode(code)
		scribble(code)
		see(g)
	case "multicode":
		wfonly = true
		b := make([]byte, len(c.toks))
		for i, v := range intsOf(c.toks) {
			b[i] = byte(v)
		}
		g := graph.MulticodeDecode(b)
		for i := range b {
			b[i] = 0xff
		}
		see(g)
	case "graph6", "sparse6":
		wfonly = true
		b := make([]byte, len(c.toks))
		for i, v := range intsOf(c.toks) {
			b[i] = byte(v)
		}
		var g graph.Graph
		var err error
		if c.kind == "graph6" {
			g, err = graph.Graph6Decode(string(b))
		} else {
			g, err = graph.Sparse6Decode(string(b))
		}
		if err != nil {
			// whether a valid string decodes at all is C07's business
			return hx.Result{Obs: "wf", Buckets: []string{"kind:" + c.kind, "decode-error"}}
		}
		see(g)
	default:
		panic("unknown kind " + c.kind)
	}
	res := hx.Result{Buckets: []string{"kind:" + c.kind}}
	if provFallback {
		res.Buckets = append(res.Buckets, "prov-fallback")
	}
	if len(c.args) > 0 && isProv(c.args[0]) {
		res.Buckets = append(res.Buckets, "prov:"+c.args[0])
	}
	strs := make([]string, len(dumps))
	for i, d := range dumps {
		strs[i] = d.String()
		res.Viol = append(res.Viol, d.wf()...)
	}
	res.Viol = append(res.Viol, extraViol...)
	last := dumps[len(dumps)-1]
	res.Nontrivial = last.n >= 2 && last.m >= 1
	res.Buckets = append(res.Buckets, fmt.Sprintf("N<=%d", bucket(last.n)))
	if wfonly {
		verdict := "wf"
		if len(res.Viol) > 0 {
			verdict = "notwf"
		}
		// graph6/sparse6: the model is C08's decoder completed by NewDense resp. NewSparse+AddEdge
		// (coq/Graph/CtorDecodeModel.v); like the other decoders: projected = verdict and N
		if last.n <= 70 {
			res.Obs = fmt.Sprintf("%s N=%d ## %s", verdict, last.n, strings.Join(strs, " => "))
		} else { // the strict dump of a large graph is too slow in the unary model
			res.Obs = fmt.Sprintf("%s N=%d", verdict, last.n)
		}
	} else {
		res.Obs = strings.Join(strs, " => ")
	}
	return res
}

func bucket(n int) int {
	b := 1
	for b < n {
		b *= 2
	}
	return b
}

// ---------------------------------------------------------------- generation

func tri(n int) int { return n * (n - 1) / 2 }

func edgeToks(es [][2]int) string {
	s := make([]string, len(es))
	for i, e := range es {
		s[i] = fmt.Sprintf("%d-%d", e[0], e[1])
	}
	return strings.Join(s, " ")
}

// all pairs i<j of n in the packed order 01 02 12 03 ...
func pairs(n int) [][2]int {
	var p [][2]int
	for j := 0; j < n; j++ {
		for i := 0; i < j; i++ {
			p = append(p, [2]int{i, j})
		}
	}
	return p
}

func graphOfMask(n int, mask int) [][2]int {
	var es [][2]int
	for k, p := range pairs(n) {
		if mask>>uint(k)&1 == 1 {
			es = append(es, p)
		}
	}
	return es
}

func randomEdges(r *hx.Rng, n int) [][2]int {
	den := []int{0, 1, 2, 4, 6, 8}[r.Intn(6)]
	var es [][2]int
	for _, p := range pairs(n) {
		if r.Intn(8) < den {
			if r.Bool() {
				p[0], p[1] = p[1], p[0]
			}
			es = append(es, p)
		}
	}
	// a shuffled order and an occasional repeated edge: AddEdge must ignore it
	for i := len(es) - 1; i > 0; i-- {
		j := r.Intn(i + 1)
		es[i], es[j] = es[j], es[i]
	}
	if len(es) > 0 && r.Chance(1, 4) {
		es = append(es, es[r.Intn(len(es))])
	}
	return es
}

func commaList(a []int) string {
	if len(a) == 0 {
		return "-"
	}
	return hx.Ints(a)
}

// neighbour lists of the graph es for NewSparse; mess: shuffled with repeated entries
func sparseToks(r *hx.Rng, n int, es [][2]int, mess bool) string {
	nb := make([][]int, n)
	for _, e := range es {
		if e[0] == e[1] {
			continue
		}
		dup := false
		for _, x := range nb[e[0]] {
			if x == e[1] {
				dup = true
			}
		}
		if dup {
			continue
		}
		nb[e[0]] = append(nb[e[0]], e[1])
		nb[e[1]] = append(nb[e[1]], e[0])
	}
	s := make([]string, n)
	for i := range nb {
		if mess {
			for k := len(nb[i]) - 1; k > 0; k-- {
				j := r.Intn(k + 1)
				nb[i][k], nb[i][j] = nb[i][j], nb[i][k]
			}
			if len(nb[i]) > 0 && r.Chance(1, 3) {
				nb[i] = append(nb[i], nb[i][r.Intn(len(nb[i]))])
			}
		} else {
			sort.Ints(nb[i])
		}
		s[i] = commaList(nb[i])
	}
	return strings.Join(s, " ")
}

func multicodeOf(n int, es [][2]int) []int {
	if n == 0 {
		return []int{0}
	}
	adj := make(map[[2]int]bool)
	for _, e := range es {
		a, b := e[0], e[1]
		if a > b {
			a, b = b, a
		}
		adj[[2]int{a, b}] = true
	}
	s := []int{n}
	for i := 0; i < n-1; i++ {
		for j := i + 1; j < n; j++ {
			if adj[[2]int{i, j}] {
				s = append(s, j+1)
			}
		}
		s = append(s, 0)
	}
	return s
}

func bytesToks(s string) string {
	a := make([]int, len(s))
	for i := range s {
		a[i] = int(s[i])
	}
	return strings.ReplaceAll(hx.Ints(a), ",", " ")
}

func gen(g *hx.Gen) {
	r := g.Rng
	emit := func(f string, a ...interface{}) { g.Emit(fmt.Sprintf(f, a...)) }
	big := g.Thorough()

	// ---- corpus: BipartiteKneserGraph(n,k) with 2k > n was edgeless before commit e9f18ed
	emit("bikneser 3 2;")
	emit("bikneser 3 3;")
	emit("bikneser 4 3;")
	// ---- the named families: every accepted parameter tuple up to small bounds
	nmax := g.Pick(9, 14)
	for n := 0; n <= nmax; n++ {
		emit("complete %d;", n)
		emit("path %d;", n)
		emit("star %d;", n)
		if n >= 3 {
			emit("cycle %d;", n)
		}
		emit("newdensenil %d;", n)
		emit("newsparsenil %d;", n)
	}
	for n := 0; n <= g.Pick(6, 9); n++ {
		emit("friendship %d;", n)
	}
	emit("flower1;")
	for n := 3; n <= g.Pick(9, 13); n += 2 {
		emit("flower %d;", n)
	}
	for d := 0; d <= g.Pick(5, 6); d++ {
		emit("hypercube %d;", d)
		emit("folded %d;", d+1)
	}
	for n := 0; n <= g.Pick(7, 8); n++ {
		for k := 0; k <= n+1; k++ {
			emit("kneser %d %d;", n, k)
		}
	}
	for n := 0; n <= g.Pick(6, 7); n++ {
		for k := 0; k <= n; k++ {
			emit("bikneser %d %d;", n, k)
		}
	}
	for a := 0; a <= g.Pick(4, 5); a++ {
		for b := 0; b <= g.Pick(4, 5); b++ {
			emit("rook %d %d;", a, b)
		}
	}
	for n := 3; n <= g.Pick(9, 12); n++ {
		for k := 0; k <= (n-1)/2; k++ {
			emit("petersen %d %d;", n, k)
		}
	}
	g.Exhaustive(fmt.Sprintf("complete/path/star/cycle n<=%d, hypercube dim<=%d, folded dim<=%d, Kneser n<=%d all k<=n+1, bipartite Kneser n<=%d, rook <=%dx%d, generalised Petersen n<=%d all k, friendship, flower snarks", nmax, g.Pick(5, 6), g.Pick(5, 6)+1, g.Pick(7, 8), g.Pick(6, 7), g.Pick(4, 5), g.Pick(4, 5), g.Pick(9, 12)))
	// complete partite: every tuple of up to three parts of sizes 0..4, then random longer ones
	emit("partite;")
	pm := g.Pick(4, 5)
	for a := 0; a <= pm; a++ {
		emit("partite;%d", a)
		for b := 0; b <= pm; b++ {
			emit("partite;%d %d", a, b)
			for c := 0; c <= pm; c++ {
				emit("partite;%d %d %d", a, b, c)
			}
		}
	}
	g.Exhaustive(fmt.Sprintf("complete partite graphs with at most 3 parts of sizes 0..%d", pm))
	for k := 0; k < g.Pick(40, 400); k++ {
		parts := r.Range(4, 6)
		s := make([]int, parts)
		for i := range s {
			s[i] = r.Intn(4)
		}
		emit("partite;%s", strings.ReplaceAll(hx.Ints(s), ",", " "))
	}
	// circulant graphs: every single difference in [-n-1,n+1], n<=7; random difference sets
	for n := 0; n <= g.Pick(7, 9); n++ {
		emit("circulant %d;", n)
		for d := -n - 1; d <= n+1; d++ {
			emit("circulant %d;%d", n, d)
		}
	}
	for n := 0; n <= 4; n++ {
		for m := 1; m <= 4; m++ {
			emit("circbip %d %d;", n, m)
			for d := -m - 1; d <= m+1; d++ {
				emit("circbip %d %d;%d", n, m, d)
			}
		}
	}
	emit("circbip 0 0;")
	emit("circbip 0 0;1 2")
	emit("circbip 3 0;")
	g.Exhaustive("circulant n<=7 and bipartite circulant n<=4, m<=4 with one difference in [-n-1,n+1]")
	for k := 0; k < g.Pick(150, 2000); k++ {
		n := r.Range(1, 12)
		ds := make([]int, r.Range(2, 4))
		for i := range ds {
			ds[i] = r.Range(-2*n, 2*n)
		}
		emit("circulant %d;%s", n, strings.ReplaceAll(hx.Ints(ds), ",", " "))
		emit("circbip %d %d;%s", r.Range(0, 6), n, strings.ReplaceAll(hx.Ints(ds), ",", " "))
	}

	// ---- NewDense / NewSparse from caller-supplied slices which are overwritten afterwards
	for n := 0; n <= g.Pick(4, 5); n++ {
		for mask := 0; mask < 1<<uint(tri(n)); mask++ {
			b := make([]int, tri(n))
			for k := range b {
				b[k] = mask >> uint(k) & 1
			}
			emit("newdense %d;%s", n, strings.ReplaceAll(hx.Ints(b), ",", " "))
			emit("newsparse %d;%s", n, sparseToks(r, n, graphOfMask(n, mask), false))
		}
	}
	g.Exhaustive(fmt.Sprintf("NewDense/NewSparse on every labelled graph with n<=%d, caller slices overwritten afterwards", g.Pick(4, 5)))
	for k := 0; k < g.Pick(300, 5000); k++ {
		n := r.Range(2, 10)
		b := make([]int, tri(n))
		vals := []int{0, 0, 1, 1, 1, 2, 255, 128}
		for i := range b {
			b[i] = vals[r.Intn(len(vals))]
		}
		emit("newdense %d;%s", n, strings.ReplaceAll(hx.Ints(b), ",", " "))
		emit("newsparse %d;%s", n, sparseToks(r, n, randomEdges(r, n), true))
	}

	// ---- random graphs and trees: only well-formedness is determined
	// The tokens are the outcomes of the draws of math/rand for that seed in the order the
	// implementation is expected to make them (used for the strict comparison only).
	rgraph := func(n, p, seed int) {
		src := rand.New(rand.NewSource(int64(seed)))
		bits := make([]int, 0, tri(n))
		for i := 0; i < n; i++ {
			for j := 0; j < i; j++ {
				if src.Float64() < float64(p)/8 {
					bits = append(bits, 1)
				} else {
					bits = append(bits, 0)
				}
			}
		}
		emit("rgraph %d %d %d;%s", n, p, seed, strings.ReplaceAll(hx.Ints(bits), ",", " "))
	}
	rtree := func(n, seed int) {
		src := rand.New(rand.NewSource(int64(seed)))
		code := make([]int, n-2)
		for i := range code {
			code[i] = src.Intn(n)
		}
		emit("rtree %d %d;%s", n, seed, strings.ReplaceAll(hx.Ints(code), ",", " "))
	}
	for n := 0; n <= 6; n++ {
		for p := 0; p <= 8; p += 4 {
			rgraph(n, p, n+p)
		}
		if n >= 2 {
			rtree(n, n)
		}
	}
	for k := 0; k < g.Pick(150, 3000); k++ {
		rgraph(r.Range(0, 12), r.Range(0, 8), r.Intn(1<<30))
		rtree(r.Range(2, 12), r.Intn(1<<30))
	}

	// ---- transformations and views on every graph with n<=4 in every representation
	reps := []string{"d", "s", "c", "i"}
	trans := func(n int, es [][2]int, all bool) {
		e := edgeToks(es)
		for _, rep := range reps {
			emit("compdense %s %d;%s", rep, n, e)
			emit("compview %s %d;%s", rep, n, e)
			emit("line %s %d;%s", rep, n, e)
			// induced view: a random arrangement of a random subset, and the reversal
			perm := r.Perm(n)
			emit("indview %s %d %s;%s", rep, n, commaList(perm[:r.Intn(n+1)]), e)
			if all {
				rev := make([]int, n)
				for x := range rev {
					rev[x] = n - 1 - x
				}
				emit("indview %s %d %s;%s", rep, n, commaList(rev), e)
			}
		}
		for _, rep := range reps[:2] {
			if all {
				for i := 0; i < n; i++ {
					for j := 0; j < n; j++ {
						if i != j {
							emit("split %s %d %d %d;%s", rep, n, i, j, e)
						}
						emit("contract %s %d %d %d;%s", rep, n, i, j, e)
					}
				}
			} else if n >= 2 {
				i := r.Intn(n)
				j := (i + 1 + r.Intn(n-1)) % n
				emit("split %s %d %d %d;%s", rep, n, i, j, e)
				emit("contract %s %d %d %d;%s", rep, n, i, j, e)
				emit("contract %s %d %d %d;%s", rep, n, j, j, e)
			}
			// Contract(i, j) then SplitEdge(k, l), k != l among the n-1 remaining vertices
			if n >= 3 {
				cnt := 2
				if all {
					cnt = n
				}
				for t := 0; t < cnt; t++ {
					i, j := r.Intn(n), r.Intn(n)
					if all {
						i = t
					}
					k := r.Intn(n - 1)
					l := (k + 1 + r.Intn(n-2)) % (n - 1)
					emit("consplit %s %d %d %d %d %d;%s", rep, n, i, j, k, l, e)
				}
			}
		}
	}
	tn := g.Pick(4, 5)
	for n := 0; n <= tn; n++ {
		for mask := 0; mask < 1<<uint(tri(n)); mask++ {
			trans(n, graphOfMask(n, mask), n <= 4)
		}
	}
	g.Exhaustive(fmt.Sprintf("ComplementDense, Complement, LineGraphDense, InducedSubgraph view, SplitEdge, Contract on every labelled graph with n<=%d as dense, sparse, complement view and induced view (SplitEdge/Contract: all vertex pairs, n<=4)", tn))
	for k := 0; k < g.Pick(120, 3000); k++ {
		n := r.Range(3, 9)
		trans(n, randomEdges(r, n), false)
	}

	// ---- provenance of the input graph (prov.go): every transformation / view / constructor that
	// takes a graph is run on the same abstract graph reached in many ways -- Copy(), deep
	// InducedSubgraph copies, edit histories (stale capacity, shared backing arrays), decoder and
	// ComplementDense results, NewDense with weights, NewSparse with unsorted lists, views, a
	// foreign implementation -- and must give the result of the plain graph (the model).
	provTrans := func(n int, es [][2]int, allPairs bool) {
		e := edgeToks(es)
		reps := append(append([]string{}, provEditable...), provViews...)
		for _, rep := range reps {
			switch r.Intn(3) {
			case 0:
				emit("compdense %s %d;%s", rep, n, e)
			case 1:
				emit("compview %s %d;%s", rep, n, e)
			case 2:
				emit("line %s %d;%s", rep, n, e)
			}
			emit("indview %s %d %s;%s", rep, n, commaList(r.Perm(n)[:r.Intn(n+1)]), e)
		}
		for _, rep := range provEditable {
			if allPairs {
				for i := 0; i < n; i++ {
					for j := 0; j < n; j++ {
						if i != j {
							emit("split %s %d %d %d;%s", rep, n, i, j, e)
						}
						emit("contract %s %d %d %d;%s", rep, n, i, j, e)
					}
				}
			} else if n >= 2 {
				i := r.Intn(n)
				j := (i + 1 + r.Intn(n-1)) % n
				emit("split %s %d %d %d;%s", rep, n, i, j, e)
				emit("contract %s %d %d %d;%s", rep, n, i, j, e)
			}
			if n >= 3 {
				k := r.Intn(n - 1)
				emit("consplit %s %d %d %d %d %d;%s", rep, n, r.Intn(n), r.Intn(n), k, (k+1+r.Intn(n-2))%(n-1), e)
			}
		}
	}
	pn := g.Pick(4, 5)
	for n := 0; n <= pn; n++ {
		for mask := 0; mask < 1<<uint(tri(n)); mask++ {
			// all pairs on every graph with n <= 4 (quick: n = 4 on every third graph), one pair above
			provTrans(n, graphOfMask(n, mask), n <= 3 || (n == 4 && (mask%g.Pick(3, 1) == 0)))
		}
	}
	g.Exhaustive(fmt.Sprintf("transformations and views on every labelled graph with n<=%d in %d provenances (SplitEdge/Contract: all vertex pairs for n<=3 and on a third of / all graphs with n=4)", pn, len(provEditable)+len(provViews)))
	for k := 0; k < g.Pick(60, 1500); k++ {
		n := r.Range(3, 10)
		provTrans(n, randomEdges(r, n), false)
	}

	// ---- named families at sizes around 32 / 64 / 128 / 256 / 1000 (kind big, see big.go)
	bigAll := func(f string, a ...interface{}) { emit("big all "+f+";", a...) }
	bigSampleN := func(rows, pairs, N int, f string, a ...interface{}) {
		var tk []string
		seen := map[int]bool{}
		for _, v := range []int{N - 1, 64, 0, N / 2, 65, 63, 1, 31, 32, 127, 128, N/2 - 1, N - 2, r.Intn(N), r.Intn(N)} {
			if v >= 0 && v < N && !seen[v] && len(seen) < rows {
				seen[v] = true
				tk = append(tk, fmt.Sprintf("r%d", v))
			}
		}
		for t := 0; t < pairs; t++ {
			a, b := r.Intn(N), r.Intn(N)
			if t%3 == 0 { // near the diagonal and across word boundaries
				b = (a + []int{1, 2, 31, 32, 33, 63, 64, 65}[r.Intn(8)]) % N
			}
			tk = append(tk, fmt.Sprintf("%d-%d", a, b))
		}
		emit("big sample "+f+";"+strings.Join(tk, " "), a...)
	}
	bigSample := func(N int, f string, a ...interface{}) { bigSampleN(15, 1500, N, f, a...) }
	pickInts := func(q, t []int) []int {
		if g.Thorough() {
			return t
		}
		return q
	}
	words := []int{31, 32, 33, 63, 64, 65, 66}
	for _, n := range append(words, 129) {
		bigAll("kneser %d 1", n)
		emit("big oracle bikneser %d 1;", n)
	}
	for _, n := range pickInts([]int{32, 33, 64, 65}, words) {
		bigAll("kneser %d 2", n)
	}
	for _, n := range pickInts([]int{33}, []int{31, 32, 33, 64, 65}) {
		emit("big oracle bikneser %d 2;", n)
	}
	for _, n := range []int{63, 64, 65, 127, 128, 129, 255, 256, 257} {
		bigAll("complete %d", n)
		bigAll("path %d", n)
		bigAll("cycle %d", n)
		bigAll("star %d", n)
		if n != 255 || g.Thorough() {
			bigAll("circulant %d %s", n, commaList([]int{1, -r.Range(2, n), r.Range(n/2, 2*n), 64}))
		}
	}
	for _, n := range []int{1000, 1025} {
		bigSample(n, "path %d", n)
		bigSample(n, "cycle %d", n)
		bigSample(n, "star %d", n)
		bigSample(n, "complete %d", n)
		if n == 1025 || g.Thorough() {
			bigSampleN(g.Pick(6, 15), g.Pick(500, 1500), n, "circulant %d %s", n, commaList([]int{-1, 64, r.Range(2, n)}))
		}
	}
	for _, ps := range [][]int{{64, 1}, {1, 64}, {63, 2, 64}, {32, 0, 33}, {128, 128}, {1, 1, 1, 62, 1}} {
		bigAll("partite %s", commaList(ps))
	}
	for d := 6; d <= g.Pick(7, 8); d++ {
		bigAll("hypercube %d", d)
		bigAll("folded %d", d+1)
	}
	for _, d := range pickInts([]int{10}, []int{9, 10, 11, 12}) {
		// Nat.lxor on unary numbers is slow in the extracted model: few rows and pairs
		bigSampleN(g.Pick(3, 8), g.Pick(300, 1500), 1<<uint(d), "hypercube %d", d)
		bigSampleN(g.Pick(3, 8), g.Pick(300, 1500), 1<<uint(d-1), "folded %d", d)
	}
	for _, n := range []int{31, 32, 63, 64, 127, 128} {
		bigAll("friendship %d", n)
	}
	bigSample(1001, "friendship %d", 500)
	for _, n := range []int{15, 17, 31, 33, 63, 65} {
		bigAll("flower %d", n)
	}
	for _, n := range []int{32, 33, 64, 65, 128} {
		for _, k := range []int{1, 2, (n - 1) / 2} {
			bigAll("petersen %d %d", n, k)
		}
	}
	bigSample(1000, "petersen %d %d", 500, 249)
	for _, nm := range [][2]int{{8, 8}, {8, 9}, {5, 13}, {13, 5}, {1, 65}, {64, 2}, {16, 16}} {
		bigAll("rook %d %d", nm[0], nm[1])
	}
	for _, nm := range [][2]int{{32, 33}, {64, 65}, {65, 64}, {128, 3}} {
		bigAll("circbip %d %d %s", nm[0], nm[1], commaList([]int{0, -1, r.Range(2, 200), 64}))
	}

	// ---- views over an edited base: Complement / InducedSubgraph views (and the two nestings) of
	// a dense or sparse base are built once and observed, together with the base, before and after
	// every edit of the base.  Documented domain of the induced view: "If a vertex in V is no
	// longer in the graph, the behaviour is unspecified" -- so a vertex is removed (RemoveVertex,
	// Contract) only when it lies above every entry of V: no vertex of V is removed or renumbered.
	// Everything else (AddVertex, AddEdge, RemoveEdge, SplitEdge anywhere) is always in the domain.
	viewedit := func(rep string, n int, es [][2]int, nops int) {
		// V: a duplicate-free list in random order; half of the time confined to the low indices
		lim := n
		if r.Bool() && n > 0 {
			lim = r.Range(0, (n+1)/2)
		}
		perm := r.Perm(n)
		var V []int
		maxV := -1
		want := r.Intn(lim + 1)
		for _, x := range perm {
			if x < lim && len(V) < want {
				V = append(V, x)
				if x > maxV {
					maxV = x
				}
			}
		}
		cur := n
		var ops []string
		for len(ops) < nops {
			switch r.Intn(7) {
			case 0, 1: // AddVertex with up to 3 distinct neighbours in random order
				k := r.Intn(4)
				if k > cur {
					k = cur
				}
				ops = append(ops, "av:"+commaList(r.Perm(cur)[:k]))
				cur++
			case 2: // RemoveVertex above V
				if maxV+1 <= cur-1 {
					ops = append(ops, fmt.Sprintf("rv:%d", r.Range(maxV+1, cur-1)))
					cur--
				}
			case 3:
				if cur >= 1 {
					ops = append(ops, fmt.Sprintf("ae:%d-%d", r.Intn(cur), r.Intn(cur)))
				}
			case 4:
				if cur >= 1 {
					ops = append(ops, fmt.Sprintf("re:%d-%d", r.Intn(cur), r.Intn(cur)))
				}
			case 5:
				if cur >= 2 {
					i := r.Intn(cur)
					ops = append(ops, fmt.Sprintf("sp:%d-%d", i, (i+1+r.Intn(cur-1))%cur))
					cur++
				}
			case 6: // Contract(i, j) removes j: j above V
				if maxV+1 <= cur-1 {
					ops = append(ops, fmt.Sprintf("ct:%d-%d", r.Intn(cur), r.Range(maxV+1, cur-1)))
					cur--
				}
			}
		}
		emit("viewedit %s %d %s;%s %s", rep, n, commaList(V), edgeToks(es), strings.Join(ops, " "))
	}
	for n := 0; n <= 3; n++ {
		for mask := 0; mask < 1<<uint(tri(n)); mask++ {
			for _, rep := range reps[:2] {
				for t := 0; t < 3; t++ {
					viewedit(rep, n, graphOfMask(n, mask), 1+t)
				}
			}
		}
	}
	for k := 0; k < g.Pick(250, 6000); k++ {
		n := r.Range(1, 7)
		viewedit(reps[k%2], n, randomEdges(r, n), r.Range(1, 6))
		if k%2 == 0 { // the base itself reached by Copy / InducedSubgraph copy / edit history / decoder ...
			viewedit(provEditable[r.Intn(len(provEditable))], n, randomEdges(r, n), r.Range(1, 6))
		}
	}

	// ---- decoders: only well-formedness of the result is this property's business
	for n := 2; n <= g.Pick(5, 6); n++ {
		code := make([]int, n-2)
		for {
			emit("prufer;%s", strings.ReplaceAll(hx.Ints(code), ",", " "))
			i := 0
			for ; i < len(code); i++ {
				code[i]++
				if code[i] < n {
					break
				}
				code[i] = 0
			}
			if i == len(code) {
				break
			}
		}
	}
	for n := 0; n <= 4; n++ {
		for mask := 0; mask < 1<<uint(tri(n)); mask++ {
			es := graphOfMask(n, mask)
			emit("multicode;%s", strings.ReplaceAll(hx.Ints(multicodeOf(n, es)), ",", " "))
			d := build("d", n, es)
			emit("graph6;%s", bytesToks(graph.Graph6Encode(d)))
			emit("sparse6;%s", bytesToks(graph.Sparse6Encode(d)))
		}
	}
	g.Exhaustive(fmt.Sprintf("PruferDecode on every code with n<=%d; MulticodeDecode, Graph6Decode, Sparse6Decode on the encodings of every labelled graph with n<=4", g.Pick(5, 6)))
	for k := 0; k < g.Pick(100, 3000); k++ {
		n := r.Range(2, 12)
		code := make([]int, n-2)
		for i := range code {
			code[i] = r.Intn(n)
		}
		emit("prufer;%s", strings.ReplaceAll(hx.Ints(code), ",", " "))
		n = r.Range(0, 20)
		es := randomEdges(r, n)
		emit("multicode;%s", strings.ReplaceAll(hx.Ints(multicodeOf(n, es)), ",", " "))
		d := build("d", n, es)
		emit("graph6;%s", bytesToks(graph.Graph6Encode(d)))
		emit("sparse6;%s", bytesToks(graph.Sparse6Encode(d)))
	}
	// raw streams (not encoder output): a one-byte size header followed by arbitrary bytes of the
	// alphabet 63..126.  Every such sparse6 string decodes: its stream holds loops, repeated
	// edges, pairs naming vertices >= n and padding, all of which AddEdge / the guard must absorb.
	// graph6 gets the number of bytes it needs, sometimes one fewer (error) or extra ones.
	emit("sparse6;58 67 111 78 111 78")
	for k := 0; k < g.Pick(300, 6000); k++ {
		n := r.Range(0, 14)
		b := []byte{58, byte(63 + n)}
		for t := r.Intn(12); t > 0; t-- {
			b = append(b, byte(r.Range(63, 126)))
		}
		emit("sparse6;%s", bytesToks(string(b)))
		n = r.Range(0, 9)
		b = []byte{byte(63 + n)}
		need := (tri(n)+5)/6 + r.Range(-1, 1)
		for t := 0; t < need; t++ {
			b = append(b, byte(r.Range(63, 126)))
		}
		emit("graph6;%s", bytesToks(string(b)))
	}
	// ================= hardening pass (notes/GENERATOR_DIMENSIONS.md) =================
	sp := func(a []int) string { return strings.ReplaceAll(hx.Ints(a), ",", " ") }
	// a graph with a hub (degree n-1), a second vertex of high degree, leaves and m0 further
	// random edges: degrees on both sides of 32 / 64, very different list lengths
	hubGraph := func(n, m0 int) [][2]int {
		var es [][2]int
		for v := 1; v < n; v++ {
			es = append(es, [2]int{0, v})
		}
		for v := 2; v < n; v += 2 {
			es = append(es, [2]int{v, 1})
		}
		for t := 0; t < m0; t++ {
			a, b := r.Range(2, n-1), r.Range(2, n-1)
			if a != b {
				es = append(es, [2]int{a, b})
			}
		}
		return es
	}
	sparseGraph := func(n, m0 int) [][2]int {
		seen := map[[2]int]bool{}
		var es [][2]int
		for len(es) < m0 {
			a, b := r.Intn(n), r.Intn(n)
			if a > b {
				a, b = b, a
			}
			if a != b && !seen[[2]int{a, b}] {
				seen[[2]int{a, b}] = true
				es = append(es, [2]int{a, b})
			}
		}
		return es
	}
	// ---- 1/2: transformations, views, NewDense/NewSparse at n around 32 / 64 (thorough 128);
	// induced views with |V| from 1 to n over hubs and leaves (list lengths 1 : 64 both ways);
	// LineGraphDense with 63 / 64 / 65 edges; Contract of hub into leaf and leaf into hub
	for _, n := range pickInts([]int{33, 64, 65}, []int{31, 32, 33, 63, 64, 65, 66, 129}) {
		reps2 := []string{"d", "s", provEditable[r.Intn(len(provEditable))], provViews[r.Intn(len(provViews))]}
		if n > 70 {
			reps2 = []string{"s", "sp"}
		}
		hub := edgeToks(hubGraph(n, n/2))
		for _, rep := range reps2 {
			emit("compdense %s %d;%s", rep, n, hub)
			emit("compview %s %d;%s", rep, n, hub)
			for _, k := range []int{1, 2, n / 2, n - 1, n} {
				emit("indview %s %d %s;%s", rep, n, commaList(r.Perm(n)[:k]), hub)
			}
			emit("indview %s %d %s;%s", rep, n, commaList([]int{0, n - 1}), hub)
			for _, m0 := range []int{63, 64, 65} {
				emit("line %s %d;%s", rep, n, edgeToks(sparseGraph(n, m0)))
			}
		}
		for _, rep := range reps2[:min2(3, len(reps2))] {
			if rep[0] == 'v' {
				continue
			}
			emit("split %s %d %d %d;%s", rep, n, 0, n-1, hub)
			emit("split %s %d %d %d;%s", rep, n, n-1, n-2, hub)
			emit("contract %s %d %d %d;%s", rep, n, 0, n-1, hub)
			emit("contract %s %d %d %d;%s", rep, n, n-1, 0, hub)
			emit("contract %s %d %d %d;%s", rep, n, 1, 0, hub)
			emit("consplit %s %d %d %d %d %d;%s", rep, n, 1, 0, n-2, 0, hub)
		}
		if n <= 70 {
			b := make([]int, tri(n))
			for i := range b { // full byte range
				b[i] = []int{0, 0, 1, 0x7f, 0x80, 0xff, r.Intn(256)}[r.Intn(7)]
			}
			emit("newdense %d;%s", n, sp(b))
		}
		emit("newsparse %d;%s", n, sparseToks(r, n, hubGraph(n, n), true))
	}
	// ---- 1/3/12: decoders at the header boundary n = 62 | 63 and beyond; non-canonical but legal
	// size headers (4- and 8-byte forms for a small n), the optional ">>graph6<<" / ">>sparse6<<"
	// prefixes, bytes outside 63..126 (error on both sides); Pruefer and Multicode at n around
	// 64 / 128 / 256 (multicode bytes >= 0x80)
	hdr := func(n, form int) []byte {
		switch form {
		case 4:
			return []byte{126, byte(63 + (n>>12)&63), byte(63 + (n>>6)&63), byte(63 + n&63)}
		case 8:
			return []byte{126, 126, 63, 63, 63, byte(63 + (n>>12)&63), byte(63 + (n>>6)&63), byte(63 + n&63)}
		}
		return []byte{byte(63 + n)}
	}
	for _, n := range pickInts([]int{62, 63, 64, 65}, []int{61, 62, 63, 64, 65, 66, 127, 128, 129}) {
		for _, es := range [][][2]int{hubGraph(n, n), sparseGraph(n, 40), nil} {
			d := build("s", n, es)
			emit("graph6;%s", bytesToks(graph.Graph6Encode(d)))
			emit("sparse6;%s", bytesToks(graph.Sparse6Encode(d)))
		}
	}
	for _, n := range []int{127, 128, 129, 255, 256, 257} { // sparse only: cheap in the model
		emit("sparse6;%s", bytesToks(graph.Sparse6Encode(build("s", n, sparseGraph(n, 50)))))
	}
	for k := 0; k < g.Pick(40, 600); k++ {
		n := r.Range(0, 9)
		es := randomEdges(r, n)
		d := build("d", n, es)
		g6 := graph.Graph6Encode(d)
		s6 := graph.Sparse6Encode(d)
		form := []int{4, 8}[k%2]
		if n <= 62 && len(g6) >= 1 {
			emit("graph6;%s", bytesToks(string(hdr(n, form))+g6[1:]))
			emit("graph6;%s", bytesToks(">>graph6<<"+g6))
			emit("sparse6;%s", bytesToks(":"+string(hdr(n, form))+s6[2:]))
			emit("sparse6;%s", bytesToks(">>sparse6<<"+s6))
		}
		// one byte outside the alphabet somewhere
		bad := []byte{0, 10, 58, 62, 127, 128, 255}[r.Intn(7)]
		b6 := []byte(g6)
		b6[r.Intn(len(b6))] = bad
		emit("graph6;%s", bytesToks(string(b6)))
		bs := []byte(s6)
		bs[1+r.Intn(len(bs)-1)] = bad
		emit("sparse6;%s", bytesToks(string(bs)))
	}
	for _, n := range pickInts([]int{64, 65, 129, 257}, []int{63, 64, 65, 127, 128, 129, 255, 256, 257}) {
		code := make([]int, n-2)
		for i := range code {
			code[i] = []int{0, n - 1, r.Intn(n), r.Intn(n)}[r.Intn(4)]
		}
		emit("prufer;%s", sp(code))
	}
	for _, n := range pickInts([]int{128, 255}, []int{127, 128, 129, 200, 254, 255}) {
		es := sparseGraph(n, 60)
		for v := 1; v < n; v++ { // a spanning path keeps every vertex reachable
			es = append(es, [2]int{v - 1, v})
		}
		emit("multicode;%s", sp(multicodeOf(n, cleanPairs(es))))
	}
	// ---- 3: differences far outside [-n, n]: around 2^31, 2^32, 2^40 (no int overflow)
	for _, n := range []int{1, 2, 7, 10} {
		for _, v := range []int{1 << 31, -(1 << 31) - 1, 1<<32 + 3, -(1 << 40) + 1, 1<<40 + 5} {
			emit("circulant %d;%d", n, v)
			emit("circulant %d;1 %d", n, v)
			emit("circbip %d %d;%d", n, n+1, v)
		}
	}
	// ---- 6/8: the same call twice, both results held, the second edited
	for _, c := range []string{"complete 5;", "path 6;", "cycle 5;", "star 4;", "partite;2 1 2", "rook 2 3;", "flower 3;",
		"hypercube 3;", "folded 3;", "kneser 5 2;", "bikneser 4 1;", "circulant 7;1 3", "petersen 5 2;", "friendship 3;",
		"newdensenil 4;", "newsparsenil 4;", "complete 0;", "complete 1;"} {
		emit("twice %s", c)
	}
	for k := 0; k < g.Pick(40, 600); k++ {
		n := r.Range(2, 7)
		allreps := append(append([]string{"d", "s", "c", "i"}, provEditable...), provViews...)
		rep := allreps[r.Intn(len(allreps))]
		emit("twice %s %s %d;%s", []string{"compdense", "line"}[k%2], rep, n, edgeToks(randomEdges(r, n)))
	}
	// ---- 5: one object through long histories, sizes going up and down
	for k := 0; k < g.Pick(30, 500); k++ {
		n := r.Range(2, 6)
		viewedit(provEditable[r.Intn(len(provEditable))], n, randomEdges(r, n), r.Range(8, 16))
		viewedit(reps[k%2], n, randomEdges(r, n), r.Range(8, 16))
	}
	_ = big
}

func min2(a, b int) int {
	if a < b {
		return a
	}
	return b
}

// cleanPairs removes repeated edges (either orientation).
func cleanPairs(es [][2]int) [][2]int {
	seen := map[[2]int]bool{}
	var out [][2]int
	for _, e := range es {
		a, b := e[0], e[1]
		if a > b {
			a, b = b, a
		}
		if a != b && !seen[[2]int{a, b}] {
			seen[[2]int{a, b}] = true
			out = append(out, [2]int{a, b})
		}
	}
	return out
}

func main() {
	hx.Main(hx.Prop{
		Rule:        "case = one call of a constructor / family / transformation / view / decoder with arguments in its accepted domain; non-trivial = the returned graph has at least 2 vertices and at least one edge; distinct by case text",
		Gen:         gen,
		Exec:        exec,
		CaseTimeout: 40 * time.Second, // big families: KneserGraph(66,2) takes 2 s, BipartiteKneserGraph(65,2) about 10 s
		MemMB:       2048,
	})
}
