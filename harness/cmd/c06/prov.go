package main

// Provenance layer (idea of harness/cmd/c07/codecobs/prov.go, re-implemented here so that C06
// does not depend on another property's files): many ways of producing a value of graph.Graph /
// graph.EditableGraph that presents one and the same abstract graph (n, es).  Every
// transformation, view and constructor that takes a graph must give the same result on all of
// them; the model always builds the plain graph (the theorems are stated over every value under
// the struct invariant / every well-formed Graph value).
//
// A guard checks that the built value presents exactly (n, es) through every observer before it
// is handed on; if it does not, the operation under test is not to blame (Copy, InducedSubgraph
// copies and edit histories are C05's subject) and the caller falls back to the plain value.

import (
	"fmt"
	"hash/fnv"

	"github.com/Tom-Johnston/mamba/graph"
	"github.com/Tom-Johnston/mamba/sortints"
	"verifharness/hx"
)

// editable provenances: first letter d = *DenseGraph, s = *SparseGraph
var provEditable = []string{
	"dw", // NewDense from an edge array with arbitrary non-zero bytes
	"de", // DenseGraph after an edit history (RemoveVertex in the middle, AddVertex/RemoveVertex at the end: stale capacity; AddEdge/RemoveEdge)
	"dp", // DenseGraph.Copy() of an edited graph
	"dq", // Copy() of a Copy() of the plain dense graph
	"di", // DenseGraph.InducedSubgraph (deep copy) of a larger graph, vertices in arbitrary order
	"d6", // the DenseGraph returned by Graph6Decode
	"dc", // ComplementDense of the complement
	"su", // NewSparse from neighbour lists in arbitrary order with repeats
	"se", // SparseGraph after an edit history
	"sp", // SparseGraph.Copy() of the plain sparse graph
	"sq", // SparseGraph.Copy() of an edited graph
	"si", // SparseGraph.InducedSubgraph (deep copy) of a larger graph
	"s6", // the SparseGraph returned by Sparse6Decode
}

// views and foreign implementations (not editable); the model builds the plain dense graph
var provViews = []string{
	"vi", // InducedSubgraph view of a larger dense graph
	"vs", // InducedSubgraph view of a larger sparse graph
	"vc", // Complement view of the dense complement
	"vz", // Complement view of the sparse complement
	"vn", // Complement(InducedSubgraph(Complement(larger sparse graph)))
	"vv", // InducedSubgraph view of an InducedSubgraph view
	"vx", // a user-defined implementation of graph.Graph
}

func isProv(rep string) bool {
	for _, p := range provEditable {
		if p == rep {
			return true
		}
	}
	for _, p := range provViews {
		if p == rep {
			return true
		}
	}
	return false
}

type pedge struct{ v, u int } // u < v

func cleanEdges(n int, es [][2]int) []pedge {
	seen := map[pedge]bool{}
	var out []pedge
	for _, e := range es {
		a, b := e[0], e[1]
		if a == b {
			continue
		}
		if a < b {
			a, b = b, a
		}
		p := pedge{a, b}
		if !seen[p] {
			seen[p] = true
			out = append(out, p)
		}
	}
	return out
}

func provSeed(rep string, n int, es []pedge) uint64 {
	h := fnv.New64a()
	fmt.Fprintf(h, "%s/%d/%v", rep, n, es)
	return h.Sum64()
}

var provWeights = []byte{2, 7, 255, 128, 3, 64, 1, 254}

func pDense(n int, es []pedge, w func(i int) byte) *graph.DenseGraph {
	bits := make([]byte, n*(n-1)/2)
	for i, e := range es {
		bits[e.v*(e.v-1)/2+e.u] = w(i)
	}
	return graph.NewDense(n, bits)
}

func one(int) byte { return 1 }

func pSparse(n int, es []pedge, r *hx.Rng) *graph.SparseGraph {
	nb := make([]sortints.SortedInts, n)
	for i := range nb {
		nb[i] = []int{}
	}
	for _, e := range es {
		nb[e.v] = append(nb[e.v], e.u)
		nb[e.u] = append(nb[e.u], e.v)
	}
	for x, l := range nb {
		if r != nil { // arbitrary order, sometimes a repeated entry
			if len(l) > 0 && r.Chance(1, 3) {
				l = append(l, l[r.Intn(len(l))])
			}
			for i := len(l) - 1; i > 0; i-- {
				j := r.Intn(i + 1)
				l[i], l[j] = l[j], l[i]
			}
			nb[x] = l
		} else {
			for i := 1; i < len(l); i++ {
				for j := i; j > 0 && l[j-1] > l[j]; j-- {
					l[j-1], l[j] = l[j], l[j-1]
				}
			}
		}
	}
	return graph.NewSparse(n, nb)
}

func pnorm(a, b int) pedge {
	if a < b {
		a, b = b, a
	}
	return pedge{a, b}
}

// pLarger embeds (n, es) into a graph on n+k vertices: verts[i] plays the role of i.
func pLarger(n int, es []pedge, r *hx.Rng) (N int, big []pedge, verts []int) {
	N = n + r.Range(0, 3)
	p := r.Perm(N)
	verts = append([]int(nil), p[:n]...)
	in := make([]bool, N)
	for _, v := range verts {
		in[v] = true
	}
	seen := map[pedge]bool{}
	for _, e := range es {
		ne := pnorm(verts[e.v], verts[e.u])
		seen[ne] = true
		big = append(big, ne)
	}
	for a := 1; a < N; a++ {
		for b := 0; b < a; b++ {
			if (!in[a] || !in[b]) && r.Chance(1, 3) && !seen[pedge{a, b}] {
				big = append(big, pedge{a, b})
			}
		}
	}
	return N, big, verts
}

func pComplement(n int, es []pedge) []pedge {
	has := map[pedge]bool{}
	for _, e := range es {
		has[e] = true
	}
	var out []pedge
	for v := 1; v < n; v++ {
		for u := 0; u < v; u++ {
			if !has[pedge{v, u}] {
				out = append(out, pedge{v, u})
			}
		}
	}
	return out
}

// pEdited reaches (n, es) through an edit history: one vertex too many in the middle that is
// removed, vertices added at the end and removed again (spare capacity / stale tail), edges
// added and removed.
func pEdited(n int, es []pedge, r *hx.Rng, mk func(n int, es []pedge) graph.EditableGraph) graph.EditableGraph {
	p := r.Intn(n + 1)
	up := func(v int) int {
		if v >= p {
			return v + 1
		}
		return v
	}
	var big []pedge
	for _, e := range es {
		big = append(big, pnorm(up(e.v), up(e.u)))
	}
	for v := 0; v <= n; v++ {
		if v != p && r.Chance(1, 2) {
			big = append(big, pnorm(p, v))
		}
	}
	g := mk(n+1, big)
	g.RemoveVertex(p)
	for c := r.Range(1, 2); c > 0; c-- {
		var nb []int
		for v := 0; v < g.N(); v++ {
			if r.Chance(1, 2) {
				nb = append(nb, v)
			}
		}
		g.AddVertex(nb)
	}
	for g.N() > n {
		g.RemoveVertex(g.N() - 1)
	}
	if n >= 2 {
		for c := 0; c < 3; c++ {
			a, b := r.Intn(n), r.Intn(n)
			if a != b && !g.IsEdge(a, b) {
				g.AddEdge(a, b)
				g.RemoveEdge(a, b)
			}
		}
	}
	return g
}

// stub is a user-defined implementation of graph.Graph.
type stub struct {
	n, m int
	nb   [][]int
}

func newStub(n int, es []pedge) *stub {
	g := &stub{n: n, m: len(es), nb: make([][]int, n)}
	for _, e := range es {
		g.nb[e.v] = append(g.nb[e.v], e.u)
		g.nb[e.u] = append(g.nb[e.u], e.v)
	}
	for _, l := range g.nb {
		for i := 1; i < len(l); i++ {
			for j := i; j > 0 && l[j-1] > l[j]; j-- {
				l[j-1], l[j] = l[j], l[j-1]
			}
		}
	}
	return g
}
func (g *stub) N() int { return g.n }
func (g *stub) M() int { return g.m }
func (g *stub) IsEdge(i, j int) bool {
	for _, u := range g.nb[i] {
		if u == j {
			return true
		}
	}
	return false
}
func (g *stub) Neighbours(v int) []int { return append([]int(nil), g.nb[v]...) }
func (g *stub) Degrees() []int {
	d := make([]int, g.n)
	for v, l := range g.nb {
		d[v] = len(l)
	}
	return d
}

func pcall(f func()) (ok bool) {
	defer func() {
		if e := recover(); e != nil {
			ok = false
		}
	}()
	f()
	return true
}

// buildProv makes the graph (n, es) in the named way; ok is false when the library did not
// deliver a value that presents (n, es) through N, M, Degrees, Neighbours and IsEdge.
func buildProv(rep string, n int, raw [][2]int) (g graph.Graph, ok bool) {
	es := cleanEdges(n, raw)
	r := hx.NewRng(provSeed(rep, n, es))
	mkd := func(n int, es []pedge) graph.EditableGraph { return pDense(n, es, one) }
	mks := func(n int, es []pedge) graph.EditableGraph { return pSparse(n, es, nil) }
	built := pcall(func() {
		switch rep {
		case "dw":
			off := r.Intn(len(provWeights))
			g = pDense(n, es, func(i int) byte { return provWeights[(off+i*5)%len(provWeights)] })
		case "de":
			g = pEdited(n, es, r, mkd)
		case "dp":
			g = pEdited(n, es, r, mkd).(*graph.DenseGraph).Copy()
		case "dq":
			g = pDense(n, es, one).Copy().(*graph.DenseGraph).Copy()
		case "su":
			g = pSparse(n, es, r)
		case "se":
			g = pEdited(n, es, r, mks)
		case "sp":
			g = pSparse(n, es, nil).Copy()
		case "sq":
			g = pEdited(n, es, r, mks).(*graph.SparseGraph).Copy()
		case "di", "si", "vi", "vs", "vv", "vn":
			N, big, verts := pLarger(n, es, r)
			switch rep {
			case "di":
				g = pDense(N, big, one).InducedSubgraph(verts)
			case "si":
				g = pSparse(N, big, nil).InducedSubgraph(verts)
			case "vi":
				g = graph.InducedSubgraph(pDense(N, big, func(i int) byte { return provWeights[i%len(provWeights)] }), verts)
			case "vs":
				g = graph.InducedSubgraph(pSparse(N, big, r), verts)
			case "vv":
				all := r.Perm(N)
				pos := make([]int, N)
				for i, v := range all {
					pos[v] = i
				}
				inner := graph.InducedSubgraph(pSparse(N, big, nil), all)
				sel := make([]int, len(verts))
				for i, v := range verts {
					sel[i] = pos[v]
				}
				g = graph.InducedSubgraph(inner, sel)
			case "vn":
				g = graph.Complement(graph.InducedSubgraph(graph.Complement(pSparse(N, big, nil)), verts))
				g = graph.Complement(graph.Complement(g))
			}
		case "vc":
			g = graph.Complement(pDense(n, pComplement(n, es), func(i int) byte { return provWeights[i%len(provWeights)] }))
		case "vz":
			g = graph.Complement(pSparse(n, pComplement(n, es), r))
		case "dc":
			g = graph.ComplementDense(pSparse(n, pComplement(n, es), nil))
		case "d6":
			d, err := graph.Graph6Decode(graph.Graph6Encode(newStub(n, es)))
			if err == nil {
				g = d
			}
		case "s6":
			d, err := graph.Sparse6Decode(graph.Sparse6Encode(newStub(n, es)))
			if err == nil {
				g = d
			}
		case "vx":
			g = newStub(n, es)
		}
	})
	if !built || g == nil {
		return nil, false
	}
	good := false
	pcall(func() {
		if g.N() != n || g.M() != len(es) {
			return
		}
		has := map[pedge]bool{}
		deg := make([]int, n)
		for _, e := range es {
			has[e] = true
			deg[e.v]++
			deg[e.u]++
		}
		if hx.Ints(g.Degrees()) != hx.Ints(deg) {
			return
		}
		for a := 0; a < n; a++ {
			var row []int
			for b := 0; b < n; b++ {
				want := a != b && has[pnorm(a, b)]
				if g.IsEdge(a, b) != want {
					return
				}
				if want {
					row = append(row, b)
				}
			}
			if hx.Ints(hx.SortedCopy(g.Neighbours(a))) != hx.Ints(row) {
				return
			}
		}
		good = true
	})
	return g, good
}
