package main

// Kind "big": named families at parameter sizes around 32 / 64 / 128 / 256 / 1000, where an
// all-pairs dump would be too long.  `big <mode> <family> params...;tokens`
//   mode all:    projected = N, M, the whole degree sequence and a hash of the adjacency of all
//                pairs i<j (order j = 1.., i = 0..j-1); the model evaluates the family's defining
//                predicate (the one the theorem C06_<family> states) on all pairs.
//   mode sample: projected = N, the full neighbour rows of the vertices named by tokens `r<v>`
//                and the adjacency bits of the pairs named by tokens `a-b`.
//   mode oracle: projected = N; the adjacency is checked here against the definition written
//                out independently (BipartiteKneser: the extracted unranking is exponential for
//                large k) and reported through hx.Fail.
// In every mode the graph also goes through the well-formedness oracle on ALL pairs (M, Degrees,
// Neighbours against IsEdge), so the sampled adjacency and the counts are tied together.

import (
	"fmt"
	"sort"
	"strings"

	"github.com/Tom-Johnston/mamba/graph"
	"verifharness/hx"
)

func bigHashStep(h int64, bit bool) int64 {
	b := int64(1)
	if bit {
		b = 2
	}
	return (h*1000003 + b) % 2147483647
}

func execBig(c tcase) hx.Result {
	mode, fam := c.args[0], c.args[1]
	p := func(i int) int { return atoi(c.args[2+i]) }
	var g graph.Graph
	switch fam {
	case "complete":
		g = graph.CompleteGraph(p(0))
	case "path":
		g = graph.Path(p(0))
	case "cycle":
		g = graph.Cycle(p(0))
	case "star":
		g = graph.Star(p(0))
	case "partite":
		g = graph.CompletePartiteGraph(commaInts(c.args[2])...)
	case "hypercube":
		g = graph.HypercubeGraph(p(0))
	case "folded":
		g = graph.FoldedHypercubeGraph(p(0))
	case "friendship":
		g = graph.FriendshipGraph(p(0))
	case "petersen":
		g = graph.GeneralisedPetersenGraph(p(0), p(1))
	case "circulant":
		g = graph.CirculantGraph(p(0), commaInts(c.args[3])...)
	case "circbip":
		g = graph.CirculantBipartiteGraph(p(0), p(1), commaInts(c.args[4])...)
	case "flower":
		g = graph.FlowerSnark(p(0))
	case "rook":
		g = graph.RookGraph(p(0), p(1))
	case "kneser":
		g = graph.KneserGraph(p(0), p(1))
	case "bikneser":
		g = graph.BipartiteKneserGraph(p(0), p(1))
	default:
		panic("unknown family " + fam)
	}
	d := observe(g)
	res := hx.Result{Buckets: []string{"kind:big", "family:" + fam, fmt.Sprintf("N<=%d", bucket(d.n))}}
	res.Viol = d.wf()
	res.Nontrivial = d.n >= 2 && d.m >= 1
	switch mode {
	case "all":
		h := int64(7)
		for j := 1; j < d.n; j++ {
			for i := 0; i < j; i++ {
				h = bigHashStep(h, d.adj[i][j])
			}
		}
		res.Obs = fmt.Sprintf("N=%d M=%d D=%s H=%d", d.n, d.m, hx.Ints(d.deg), h)
	case "sample":
		var rows []string
		var bits strings.Builder
		for _, t := range c.toks {
			if strings.HasPrefix(t, "r") {
				v := atoi(t[1:])
				var row []int
				for u := 0; u < d.n; u++ {
					if d.adj[v][u] {
						row = append(row, u)
					}
				}
				rows = append(rows, fmt.Sprintf("%d:%s", v, hx.Ints(row)))
			} else {
				e := edgesOf([]string{t})[0]
				if d.adj[e[0]][e[1]] {
					bits.WriteByte('1')
				} else {
					bits.WriteByte('0')
				}
			}
		}
		res.Obs = fmt.Sprintf("N=%d R=%s P=%s", d.n, strings.Join(rows, "|"), bits.String())
	case "oracle":
		if fam != "bikneser" {
			panic("no oracle for " + fam)
		}
		res.Viol = append(res.Viol, bikneserOracle(d, p(0), p(1))...)
		res.Obs = fmt.Sprintf("N=%d", d.n)
	default:
		panic("bad mode " + mode)
	}
	return res
}

// all k-subsets of {0..n-1} as ascending lists, in colexicographic order (compare the largest
// elements first) -- the order comb.Unrank numbers them in (C06_kneser_vertices).
func colexSubsets(n, k int) [][]int {
	var out [][]int
	cur := make([]int, 0, k)
	var rec func(start int)
	rec = func(start int) {
		if len(cur) == k {
			out = append(out, append([]int(nil), cur...))
			return
		}
		for x := start; x <= n-(k-len(cur)); x++ {
			cur = append(cur, x)
			rec(x + 1)
			cur = cur[:len(cur)-1]
		}
	}
	rec(0)
	sort.Slice(out, func(a, b int) bool {
		for t := k - 1; t >= 0; t-- {
			if out[a][t] != out[b][t] {
				return out[a][t] < out[b][t]
			}
		}
		return false
	})
	return out
}

func subsetOf(a, b []int) bool { // ascending lists
	j := 0
	for _, x := range a {
		for j < len(b) && b[j] < x {
			j++
		}
		if j == len(b) || b[j] != x {
			return false
		}
	}
	return true
}

// BipartiteKneserGraph(n, k), n >= k: vertices 0..C-1 the k-subsets, C..2C-1 the (n-k)-subsets,
// both in colex order; a k-subset and an (n-k)-subset are adjacent iff one contains the other;
// no other edges (C06_bipartite_kneser).
func bikneserOracle(d dump, n, k int) []hx.OracleViolation {
	var v []hx.OracleViolation
	A := colexSubsets(n, k)
	B := colexSubsets(n, n-k)
	C := len(A)
	if d.n != 2*C || len(B) != C {
		return append(v, hx.Fail("C06:bikneser-n", "BipartiteKneserGraph(%d,%d) has %d vertices, definition %d", n, k, d.n, 2*C))
	}
	for x := 0; x < d.n && len(v) < 4; x++ {
		for y := 0; y < d.n; y++ {
			want := false
			if x < C && y >= C {
				want = subsetOf(A[x], B[y-C]) || subsetOf(B[y-C], A[x])
			} else if y < C && x >= C {
				want = subsetOf(A[y], B[x-C]) || subsetOf(B[x-C], A[y])
			}
			if d.adj[x][y] != want {
				v = append(v, hx.Fail("C06:bikneser-def", "BipartiteKneserGraph(%d,%d): IsEdge(%d,%d) = %v, definition %v", n, k, x, y, d.adj[x][y], want))
				break
			}
		}
	}
	return v
}
