// Command c03sim is the co-simulation stream of C03 (and of the model used by C04): the model of
// GraphIterator.Next extracted from coq/Search/Model.v is run by ocaml/c03/driver.ml on the same
// (n, a, m, preprune, prune) as the real iterator, and the complete sequences of yielded values
// (NumberOfVertices, NumberOfEdges, DegreeSequence, Edges) are compared, in order.
//
// The model takes the canonical labelling as a parameter.  A case line therefore carries a table
// of answers of graph.CanonicalIsomorphAllocated (perm, orbits, generators) for every labelled
// graph on k <= n vertices, with CheckViability = false and with CheckViability = true for every
// non-empty ViableBits among the vertices i < k-1 of the same degree as vertex k-1 (the only
// sets isCanonical can ask for), and a table of the orbit representatives of k-subsets that
// addAugmentations computes from a list of generators (a copy of that loop over the library's
// comb / itertools / disjoint functions).  Every table entry is computed with fresh storage.
//
// case = `cosim <n>;<key>=<value>;...`.  Both sides run the same fixed list of combinations
// (m in {1,2,3,4,7}, a < m, predicate, placement).  Projected observation: per (m, predicate,
// placement) the sorted isomorphism-class ids of what the shards yield together; strict part:
// `a/m/pred/place:<graph> <graph> ...`, the exact sequences.
package main

import (
	"fmt"
	"sort"
	"strconv"
	"strings"
	"time"

	"github.com/Tom-Johnston/mamba/comb"
	"github.com/Tom-Johnston/mamba/disjoint"
	"github.com/Tom-Johnston/mamba/graph"
	"github.com/Tom-Johnston/mamba/graph/search"
	"github.com/Tom-Johnston/mamba/ints"
	"github.com/Tom-Johnston/mamba/itertools"
	"verifharness/cmd/c03/gx"
	"verifharness/hx"
)

// ---------------------------------------------------------------- tables

func joinInts(a []int) string {
	s := make([]string, len(a))
	for i, v := range a {
		s[i] = strconv.Itoa(v)
	}
	return strings.Join(s, ",")
}

func gensString(gens [][]int) string {
	s := make([]string, len(gens))
	for i, g := range gens {
		s[i] = joinInts(g)
	}
	return strings.Join(s, "/")
}

func nbrsString(nb [][]int) string {
	s := make([]string, len(nb))
	for i, l := range nb {
		s[i] = joinInts(l)
	}
	return strings.Join(s, ".")
}

// canonAnswer is getAutomorphismGroup of search_all.go on fresh storage.
func canonAnswer(k, m int, nb [][]int, cv bool, vb uint) (perm []int, orbits []int, gens [][]int) {
	storage := graph.NewStorage(k, (k*(k-1))/2)
	op := graph.NewOrderedPartition(k, (k*(k-1))/2, nil)
	options := new(graph.CanonicalOptions)
	options.CheckViability = cv
	options.ViableBits = vb
	op.Reset(k, m, nil)
	p, o, g := graph.CanonicalIsomorphAllocated(k, m, nb, op, storage, options)
	if p != nil {
		perm = append([]int{}, p...)
	}
	orbits = append([]int{}, o...)
	for _, x := range g {
		gens = append(gens, append([]int{}, x...))
	}
	return
}

// ksubReps is the loop `for k := 2; k <= maxSize; k++` of addAugmentations for one k.
func ksubReps(n, k int, generators [][]int) []uint {
	var out []uint
	ds := make(disjoint.Set, comb.Coeff(n, k))
	for i := range ds {
		ds[i] = -1
	}
	buf := make([]int, n)
	iter := itertools.CombinationsColex(n, k)
	c2 := make([]int, k)
	for i := 0; i < len(ds); i++ {
		iter.Next()
		c := iter.Value()
		for _, g := range generators {
			for j := 0; j < k; j++ {
				c2[j] = g[c[j]]
			}
			ints.Sort(c2)
			ds.UnionBuffered(i, comb.Rank(c2), buf)
		}
	}
	iter = itertools.CombinationsColex(n, k)
	for i := 0; i < len(ds); i++ {
		iter.Next()
		if ds[i] < 0 {
			x := 0
			for _, v := range iter.Value() {
				x |= (1 << uint(v))
			}
			out = append(out, uint(x))
		}
	}
	return out
}

// vbFullK: for graphs on at most this many vertices the table holds the CheckViability = true
// answer for every ViableBits (all subsets of 0..k-2), so that the model driver can evaluate the
// early-exit clause of canon_spec in full (Coq: vbs_mixed in Search/OrderlyInstCheckModel.v uses
// the same constant); above it only the sets isCanonical can ask for.
const vbFullK = 6

// tableBuilder collects the answers of the real labelling and of the real k-subset loop.
type tableBuilder struct {
	entries  map[string]string
	gensSeen map[string][][]int
}

func newTableBuilder() *tableBuilder {
	return &tableBuilder{entries: map[string]string{}, gensSeen: map[string][][]int{}}
}

func (t *tableBuilder) add(k, m int, nb [][]int, cv bool, vb uint) {
	perm, orbits, gens := canonAnswer(k, m, nb, cv, vb)
	ps := "nil"
	if perm != nil {
		ps = joinInts(perm)
	}
	cvs := "0"
	if cv {
		cvs = "1"
	}
	key := fmt.Sprintf("C%d:%d:%s:%s:%d", k, m, nbrsString(nb), cvs, vb)
	t.entries[key] = ps + "~" + joinInts(orbits) + "~" + gensString(gens)
	gk := fmt.Sprintf("%d:%s", k, gensString(gens))
	if _, ok := t.gensSeen[gk]; !ok {
		t.gensSeen[gk] = gens
		for kk := 2; kk <= k; kk++ {
			reps := ksubReps(k, kk, gens)
			rs := make([]string, len(reps))
			for i, r := range reps {
				rs[i] = strconv.FormatUint(uint64(r), 10)
			}
			t.entries[fmt.Sprintf("K%d:%d:%s", k, kk, gensString(gens))] = strings.Join(rs, ",")
		}
	}
}

// addGraph tabulates everything the model and the spec checker ask about one labelled graph.
func (t *tableBuilder) addGraph(g *gx.G) {
	k := g.N
	nb := make([][]int, k)
	m := 0
	for v := 0; v < k; v++ {
		nb[v] = []int{}
		for u := 0; u < k; u++ {
			if g.Edge(u, v) {
				nb[v] = append(nb[v], u)
			}
		}
		m += len(nb[v])
	}
	m /= 2
	t.add(k, m, nb, false, 0)
	if k <= vbFullK {
		// spec checker (clause ok_early of canon_spec): EVERY ViableBits below 2^(k-1)
		for vb := uint(0); vb < 1<<uint(k-1); vb++ {
			t.add(k, m, nb, true, vb)
		}
		return
	}
	// viable sets: non-empty subsets of {i < k-1 : deg i == deg (k-1)}
	var cand []int
	for i := 0; i < k-1; i++ {
		if g.Deg(i) == g.Deg(k-1) {
			cand = append(cand, i)
		}
	}
	for s := 1; s < 1<<uint(len(cand)); s++ {
		vb := uint(0)
		for j, i := range cand {
			if s>>uint(j)&1 == 1 {
				vb |= 1 << uint(i)
			}
		}
		t.add(k, m, nb, true, vb)
	}
}

func (t *tableBuilder) String() string {
	keys := make([]string, 0, len(t.entries))
	for k := range t.entries {
		keys = append(keys, k)
	}
	sort.Strings(keys)
	var sb strings.Builder
	for _, k := range keys {
		sb.WriteByte(';')
		sb.WriteString(k)
		sb.WriteByte('=')
		sb.WriteString(t.entries[k])
	}
	return sb.String()
}

func buildTables(n int) string {
	t := newTableBuilder()
	for k := 1; k <= n; k++ {
		tot := uint(k * (k - 1) / 2)
		for x := uint64(0); x < 1<<tot; x++ {
			g := gx.FromBits(k, x)
			t.addGraph(&g)
		}
	}
	return t.String()
}

// ---------------------------------------------------------------- sampled graphs for the spec checker

// edgeString is the Edges array of the DenseGraph with the same edges (pair uv, u < v, at
// index v(v-1)/2+u), as a string of 0/1.
func edgeString(g *gx.G) string {
	b := make([]byte, 0, g.N*(g.N-1)/2)
	for v := 1; v < g.N; v++ {
		for u := 0; u < v; u++ {
			if g.Edge(u, v) {
				b = append(b, '1')
			} else {
				b = append(b, '0')
			}
		}
	}
	return string(b)
}

func setEdge(g *gx.G, u, v int) {
	g.Adj[u] |= 1 << uint(v)
	g.Adj[v] |= 1 << uint(u)
}

// structured draws a graph on k vertices that is a disjoint union of small symmetric pieces
// (complete, cycle, path, star, complete bipartite, edgeless), possibly complemented: the graphs
// on which the automorphism part of the labelling (orbits, generators) has work to do.
func structured(r *hx.Rng, k int) gx.G {
	var g gx.G
	g.N = k
	at := 0
	for at < k {
		sz := r.Range(1, k-at)
		if r.Chance(1, 2) && sz > 4 {
			sz = r.Range(2, 4)
		}
		vs := make([]int, sz)
		for i := range vs {
			vs[i] = at + i
		}
		switch r.Intn(6) {
		case 0: // complete
			for i := 0; i < sz; i++ {
				for j := i + 1; j < sz; j++ {
					setEdge(&g, vs[i], vs[j])
				}
			}
		case 1: // cycle
			if sz >= 3 {
				for i := 0; i < sz; i++ {
					setEdge(&g, vs[i], vs[(i+1)%sz])
				}
			}
		case 2: // path
			for i := 0; i+1 < sz; i++ {
				setEdge(&g, vs[i], vs[i+1])
			}
		case 3: // star
			for i := 1; i < sz; i++ {
				setEdge(&g, vs[0], vs[i])
			}
		case 4: // complete bipartite
			a := r.Range(1, sz)
			for i := 0; i < a; i++ {
				for j := a; j < sz; j++ {
					setEdge(&g, vs[i], vs[j])
				}
			}
		default: // edgeless
		}
		at += sz
	}
	// now and then join two pieces or remove an edge
	if r.Chance(1, 2) {
		for t := r.Range(1, 2); t > 0; t-- {
			u, v := r.Intn(k), r.Intn(k)
			if u != v {
				g.Adj[u] ^= 1 << uint(v)
				g.Adj[v] ^= 1 << uint(u)
			}
		}
	}
	if r.Chance(1, 3) {
		for u := 0; u < k; u++ {
			for v := u + 1; v < k; v++ {
				g.Adj[u] ^= 1 << uint(v)
				g.Adj[v] ^= 1 << uint(u)
			}
		}
	}
	return g
}

// relabel returns h with h(i, j) = g(q[i], q[j]) (h is g relabelled by q, isoP of the Coq side).
func relabel(g *gx.G, q []int) gx.G {
	var h gx.G
	h.N = g.N
	for i := 0; i < g.N; i++ {
		for j := i + 1; j < g.N; j++ {
			if g.Edge(q[i], q[j]) {
				setEdge(&h, i, j)
			}
		}
	}
	return h
}

// specCase = `spec <k> <pairs>;<table>;P<i>=<edges g>|<edges h>|<q>;...`: sampled graphs g on k
// vertices (k above the exhaustive sizes), each with a random relabelling h; the model driver
// evaluates the per-graph clauses of canon_spec on g and on h (extracted check_graph) and that g
// and h get the same canonical form (label_pair_check).  maxAut bounds |Aut(g)| (the checker
// enumerates the group by brute force).
func specCase(r *hx.Rng, k, count int, maxAut uint64) string {
	var gs []gx.G
	seen := map[uint64]bool{}
	for tries := 0; len(gs) < count && tries < 50*count; tries++ {
		var g gx.G
		if r.Chance(3, 4) {
			g = structured(r, k)
		} else {
			tot := uint(k * (k - 1) / 2)
			dens := r.Range(1, 7)
			var x uint64
			for b := uint(0); b < tot; b++ {
				if r.Intn(8) < dens {
					x |= 1 << b
				}
			}
			g = gx.FromBits(k, x)
		}
		if seen[g.Bits()] || gx.AutCount(&g) > maxAut {
			continue
		}
		seen[g.Bits()] = true
		gs = append(gs, g)
	}
	return specPairs(r, k, gs)
}

// specPairs: every listed graph under a random labelling, paired with a random relabelling.
func specPairs(r *hx.Rng, k int, gs []gx.G) string {
	t := newTableBuilder()
	var sb strings.Builder
	for n := range gs {
		g := relabel(&gs[n], r.Perm(k))
		q := r.Perm(k)
		h := relabel(&g, q)
		t.addGraph(&g)
		t.addGraph(&h)
		fmt.Fprintf(&sb, ";P%d=%s|%s|%s", n, edgeString(&g), edgeString(&h), joinInts(q))
	}
	return fmt.Sprintf("spec %d %d%s%s", k, len(gs), t.String(), sb.String())
}

// classReps: one graph of every isomorphism class on k vertices whose automorphism group has
// between minAut and maxAut elements (|Aut| by the independent backtracking of gx).  The list of
// classes is what search.All(k, 0, 1) of the linked library yields; it only serves as a source of
// graphs (nothing is assumed of it: whatever is listed is checked).
func classReps(k int, minAut, maxAut uint64) []gx.G {
	var out []gx.G
	it := search.All(k, 0, 1)
	for it.Next() {
		g := gx.Raw(it.Value())
		if g.N != k {
			continue
		}
		if a := gx.AutCount(&g); a >= minAut && a <= maxAut {
			out = append(out, g)
		}
	}
	return out
}

// emitClassCases: the classes in chunks of 40 pairs per case.
func emitClassCases(g *hx.Gen, k int, reps []gx.G, limit int) {
	if limit > 0 && len(reps) > limit {
		// a seeded random subset
		idx := g.Rng.Perm(len(reps))[:limit]
		sort.Ints(idx)
		sub := make([]gx.G, 0, limit)
		for _, i := range idx {
			sub = append(sub, reps[i])
		}
		reps = sub
	}
	for at := 0; at < len(reps); at += 40 {
		end := at + 40
		if end > len(reps) {
			end = len(reps)
		}
		g.Emit(specPairs(g.Rng, k, reps[at:end]))
	}
}

// ---------------------------------------------------------------- one call at a time (n = 8..14)

// The whole-run co-simulation stops at n = 5/6, but isCanonical and addAugmentations can be
// co-simulated one call at a time on much larger graphs (hook search.VerifCanonAugs): the model
// functions is_canonical / add_augs of Search/Model.v get the same graph, with the real canon
// answers and the real k-subset loop tabulated as for the whole runs.  By degree_tests_spec /
// is_canonical_cdel (Search/OrderlyCanon.v) the model's verdict is the specified one.

// keyOf: (degree, sum of the neighbours' degrees, sum of their squares) of v.
func keyOf(g *gx.G, v int) [3]int {
	k := [3]int{g.Deg(v), 0, 0}
	for u := 0; u < g.N; u++ {
		if u != v && g.Edge(u, v) {
			d := g.Deg(u)
			k[1] += d
			k[2] += d * d
		}
	}
	return k
}

// viableSpec: the other vertices with the key of the last vertex: the ViableBits that the model of
// isCanonical passes to the labelling when it has to ask (written from degree_tests_spec, not
// from the code under test).
func viableSpec(g *gx.G) uint {
	last := keyOf(g, g.N-1)
	vb := uint(0)
	for v := 0; v < g.N-1; v++ {
		if keyOf(g, v) == last {
			vb |= 1 << uint(v)
		}
	}
	return vb
}

func (t *tableBuilder) addUnit(g *gx.G) {
	k := g.N
	nb := make([][]int, k)
	m := 0
	for v := 0; v < k; v++ {
		nb[v] = []int{}
		for u := 0; u < k; u++ {
			if g.Edge(u, v) {
				nb[v] = append(nb[v], u)
			}
		}
		m += len(nb[v])
	}
	m /= 2
	t.add(k, m, nb, false, 0)
	if vb := viableSpec(g); vb != 0 {
		t.add(k, m, nb, true, vb)
	}
}

// lastIs relabels g so that vertex u becomes the last vertex, the others in random order.
func lastIs(r *hx.Rng, g *gx.G, u int) gx.G {
	q := r.Perm(g.N)
	for i, x := range q {
		if x == u {
			q[i], q[g.N-1] = q[g.N-1], q[i]
			break
		}
	}
	return relabel(g, q)
}

func randomGraph(r *hx.Rng, k int, dens int) gx.G {
	var g gx.G
	g.N = k
	for u := 0; u < k; u++ {
		for v := u + 1; v < k; v++ {
			if r.Intn(16) < dens {
				setEdge(&g, u, v)
			}
		}
	}
	return g
}

func minDegVertices(g *gx.G) []int {
	md := g.N
	for v := 0; v < g.N; v++ {
		if g.Deg(v) < md {
			md = g.Deg(v)
		}
	}
	var out []int
	for v := 0; v < g.N; v++ {
		if g.Deg(v) == md {
			out = append(out, v)
		}
	}
	return out
}

// circulant on k vertices with a random connection set.
func circulant(r *hx.Rng, k int) gx.G {
	var g gx.G
	g.N = k
	for d := 1; d <= k/2; d++ {
		if r.Chance(1, 2) {
			for i := 0; i < k; i++ {
				setEdge(&g, i, (i+d)%k)
			}
		}
	}
	return g
}

// multipartite: complete multipartite graph with random part sizes.
func multipartite(r *hx.Rng, k int) gx.G {
	var g gx.G
	g.N = k
	part := make([]int, k)
	p, at := 0, 0
	for at < k {
		sz := r.Range(1, 4)
		for i := 0; i < sz && at < k; i++ {
			part[at] = p
			at++
		}
		p++
	}
	for u := 0; u < k; u++ {
		for v := u + 1; v < k; v++ {
			if part[u] != part[v] {
				setEdge(&g, u, v)
			}
		}
	}
	return g
}

func complement(g *gx.G) gx.G {
	var h gx.G
	h.N = g.N
	for u := 0; u < g.N; u++ {
		for v := u + 1; v < g.N; v++ {
			if !g.Edge(u, v) {
				setEdge(&h, u, v)
			}
		}
	}
	return h
}

type unit struct {
	g    gx.G
	mode byte // 'c': isCanonical, then addAugmentations if accepted; 'a': addAugmentations alone
}

// unitCase = `unit <n> <count>;<table>;U<i>=<edges>|<mode>;...`
func unitCase(k int, us []unit) string {
	t := newTableBuilder()
	var sb strings.Builder
	for i := range us {
		t.addUnit(&us[i].g)
		fmt.Fprintf(&sb, ";U%d=%s|%c", i, edgeString(&us[i].g), us[i].mode)
	}
	return fmt.Sprintf("unit %d %d%s%s", k, len(us), t.String(), sb.String())
}

// tieUnits: graphs on k vertices in which two minimum-degree vertices agree in degree and in the
// sum of their neighbours' degrees but differ in the sum of squares (the last tie-break of
// isCanonical), each of the two as the new vertex, under random labellings of the rest.
func tieUnits(r *hx.Rng, k, want int) []unit {
	var out []unit
	for tries := 0; len(out) < want && tries < 4000; tries++ {
		g := randomGraph(r, k, r.Range(3, 13))
		md := minDegVertices(&g)
		found := false
		for i := 0; i < len(md) && !found; i++ {
			for j := i + 1; j < len(md) && !found; j++ {
				a, b := keyOf(&g, md[i]), keyOf(&g, md[j])
				if a[1] == b[1] && a[2] != b[2] {
					out = append(out, unit{lastIs(r, &g, md[i]), 'c'}, unit{lastIs(r, &g, md[j]), 'c'})
					found = true
				}
			}
		}
	}
	return out
}

// minLastUnits: random graphs of every density with a minimum-degree vertex last (otherwise the
// degree test answers at once), and full ties (several vertices with the key of the last one, so
// that the labelling is asked): regular and nearly regular graphs.
func minLastUnits(r *hx.Rng, k, want int) []unit {
	var out []unit
	for len(out) < want {
		var g gx.G
		switch r.Intn(4) {
		case 0:
			g = circulant(r, k)
			if r.Chance(1, 2) { // break the symmetry a little
				u, v := r.Intn(k), r.Intn(k)
				if u != v {
					g.Adj[u] ^= 1 << uint(v)
					g.Adj[v] ^= 1 << uint(u)
				}
			}
		case 1:
			g = structured(r, k)
		default:
			g = randomGraph(r, k, r.Range(1, 15))
		}
		md := minDegVertices(&g)
		out = append(out, unit{lastIs(r, &g, md[r.Intn(len(md))]), 'c'})
		if r.Chance(1, 4) {
			out = append(out, unit{relabel(&g, r.Perm(k)), 'c'})
		}
	}
	return out
}

// parentUnits: parents for addAugmentations with many k-subsets to sort into orbits (minimum
// degree d, so sets of up to d+1 vertices; C(k, d+1) runs across 128, 256, 512, 1024, ..) and a
// non-trivial group: circulants, complete multipartite graphs, complements of unions of small
// pieces, and the same with one edge toggled; a few random ones (trivial group).
func parentUnits(r *hx.Rng, k, want int) []unit {
	var out []unit
	for tries := 0; len(out) < want && tries < 200*want; tries++ {
		var g gx.G
		switch r.Intn(5) {
		case 0:
			g = circulant(r, k)
		case 1:
			g = multipartite(r, k)
		case 2:
			s := structured(r, k)
			g = complement(&s)
		case 3:
			g = circulant(r, k)
			u, v := r.Intn(k), r.Intn(k)
			if u != v {
				g.Adj[u] ^= 1 << uint(v)
				g.Adj[v] ^= 1 << uint(u)
			}
		default:
			g = randomGraph(r, k, r.Range(6, 12))
		}
		md := g.Deg(minDegVertices(&g)[0])
		if md < 2 || md > 6 {
			continue // sets of size 3..7: C(k, md+1) from about 100 up to a few thousand
		}
		g = relabel(&g, r.Perm(k))
		mode := byte('a')
		if r.Chance(1, 2) {
			mode = 'c'
			g = lastIs(r, &g, minDegVertices(&g)[0])
		}
		out = append(out, unit{g, mode})
	}
	return out
}

// execUnit: the implementation side of a unit case.  Projected: per unit the verdict of isCanonical
// and the number of augmentation masks of every size (= the number of orbits of Aut(g) on the
// subsets of that size, which the specification fixes); strict: the masks in push order (which
// representative of an orbit is pushed is the implementation's choice).
func execUnit(line string, k, count int) hx.Result {
	ent := map[string]string{}
	for _, e := range strings.Split(line, ";") {
		if len(e) > 0 && e[0] == 'U' {
			if i := strings.IndexByte(e, '='); i > 0 {
				ent[e[:i]] = e[i+1:]
			}
		}
	}
	var pj, st strings.Builder
	fmt.Fprintf(&pj, "unit n=%d", k)
	accepted := 0
	for i := 0; i < count; i++ {
		f := strings.Split(ent[fmt.Sprintf("U%d", i)], "|")
		var g gx.G
		g.N = k
		for v := 1; v < k; v++ {
			for u := 0; u < v; u++ {
				if f[0][v*(v-1)/2+u] == '1' {
					setEdge(&g, u, v)
				}
			}
		}
		verdict, masks := search.VerifCanonAugs(g.Dense(), f[1] == "c")
		sizes := make([]int, k+1)
		for _, x := range masks {
			c := 0
			for y := x; y != 0; y &= y - 1 {
				c++
			}
			if c <= k {
				sizes[c]++
			}
		}
		for len(sizes) > 0 && sizes[len(sizes)-1] == 0 {
			sizes = sizes[:len(sizes)-1]
		}
		v := 0
		if verdict {
			v = 1
			accepted++
		}
		fmt.Fprintf(&pj, " | %d:%s%d:%s", i, f[1], v, joinInts(sizes))
		ms := make([]string, len(masks))
		for j, x := range masks {
			ms[j] = strconv.FormatUint(uint64(x), 10)
		}
		fmt.Fprintf(&st, " | %d:%s", i, strings.Join(ms, ","))
	}
	return hx.Result{Obs: pj.String() + " ##" + st.String(), Nontrivial: accepted >= 1,
		Buckets: []string{fmt.Sprintf("unit n=%d", k)}}
}

// ---------------------------------------------------------------- live iterators side by side

func noPrune(*graph.DenseGraph) bool { return false }

func drain(it *search.GraphIterator, limit int) []string {
	var out []string
	for len(out) < limit && it.Next() {
		out = append(out, snap(it.Value()))
	}
	return out
}

func sameSeq(a, b []string) bool {
	if len(a) != len(b) {
		return false
	}
	for i := range a {
		if a[i] != b[i] {
			return false
		}
	}
	return true
}

// execInterleave: two live iterators for the same n must not disturb one another (every iterator
// yields what C03 says whatever else the program does): B advanced from inside A's prune callback
// (in the middle of A's Next), or A and B advanced alternately call by call; both compared with
// twins that run undisturbed.  Nothing to model: the model driver echoes the line.
func execInterleave(n int, variant string) hx.Result {
	res := hx.Result{Obs: fmt.Sprintf("interleave n=%d %s | ok", n, variant), Nontrivial: true,
		Buckets: []string{"interleave " + variant}}
	const limit = 200000
	var gotA, gotB, wantA, wantB []string
	switch variant {
	case "prune", "preprune":
		b := search.All(n, 0, 1)
		bDone := false
		cb := func(*graph.DenseGraph) bool {
			if !bDone && len(gotB) < limit {
				if b.Next() {
					gotB = append(gotB, snap(b.Value()))
				} else {
					bDone = true
				}
			}
			return false
		}
		var a *search.GraphIterator
		if variant == "prune" {
			a = search.WithPruning(n, 0, 1, noPrune, cb)
		} else {
			a = search.WithPruning(n, 0, 1, cb, noPrune)
		}
		gotA = drain(a, limit)
		wantA = drain(search.All(n, 0, 1), limit)
		wantB = drain(search.All(n, 0, 1), len(gotB))
	default: // alternate: two shards, one call each in turn
		a, b := search.All(n, 0, 2), search.All(n, 1, 2)
		aOn, bOn := true, true
		for (aOn || bOn) && len(gotA)+len(gotB) < limit {
			if aOn {
				if a.Next() {
					gotA = append(gotA, snap(a.Value()))
				} else {
					aOn = false
				}
			}
			if bOn {
				if b.Next() {
					gotB = append(gotB, snap(b.Value()))
				} else {
					bOn = false
				}
			}
		}
		wantA = drain(search.All(n, 0, 2), limit)
		wantB = drain(search.All(n, 1, 2), limit)
	}
	if !sameSeq(gotA, wantA) {
		res.Viol = append(res.Viol, hx.Fail("interleave-A", "n=%d %s: iterator A yields %d values with another live iterator for the same n, %d (or other values) when run alone", n, variant, len(gotA), len(wantA)))
	}
	if !sameSeq(gotB, wantB) {
		res.Viol = append(res.Viol, hx.Fail("interleave-B", "n=%d %s: iterator B yields other values when advanced in the middle of / between calls of another iterator for the same n than when run alone (%d values compared)", n, variant, len(gotB)))
	}
	return res
}

// ---------------------------------------------------------------- strongly pruned searches, n = 12..26

// Hereditary families with a closed-form number of classes and a cheap complete invariant, read
// off the Edges array directly (gx.G stops at 16 vertices): the only way to run the search past
// the sizes at which masks, subset counts and table indices cross 8 / 16 bits.
type rawG struct {
	n int
	e []byte
}

func (g rawG) adj(u, v int) bool {
	if u == v {
		return false
	}
	if u > v {
		u, v = v, u
	}
	return g.e[v*(v-1)/2+u] > 0
}

func (g rawG) deg(v int) int {
	c := 0
	for u := 0; u < g.n; u++ {
		if g.adj(u, v) {
			c++
		}
	}
	return c
}

func (g rawG) edges() int {
	c := 0
	for _, b := range g.e {
		if b > 0 {
			c++
		}
	}
	return c
}

// classes of the relation rel (which is an equivalence on the graphs of the family), sizes sorted
func (g rawG) classSizes(rel func(u, v int) bool) string {
	seen := make([]bool, g.n)
	var sizes []int
	for u := 0; u < g.n; u++ {
		if seen[u] {
			continue
		}
		c := 0
		for v := u; v < g.n; v++ {
			if v == u || rel(u, v) {
				seen[v] = true
				c++
			}
		}
		sizes = append(sizes, c)
	}
	sort.Ints(sizes)
	return joinInts(sizes)
}

// some a, b, c distinct with rel(a,b), rel(b,c) and not rel(a,c)
func (g rawG) notTransitive(rel func(u, v int) bool) bool {
	for b := 0; b < g.n; b++ {
		for a := 0; a < g.n; a++ {
			if a == b || !rel(a, b) {
				continue
			}
			for c := a + 1; c < g.n; c++ {
				if c != b && rel(b, c) && !rel(a, c) {
					return true
				}
			}
		}
	}
	return false
}

func partitionsOf(n int) int {
	p := make([]int, n+1)
	p[0] = 1
	for k := 1; k <= n; k++ {
		for i := k; i <= n; i++ {
			p[i] += p[i-k]
		}
	}
	return p[n]
}

type family struct {
	bad     func(g rawG) bool   // true: not in the family (hereditary: stays true when vertices are added)
	inv     func(g rawG) string // complete invariant on the family
	classes func(n int) int
}

var families = map[string]family{
	"matchings": { // maximum degree <= 1
		bad: func(g rawG) bool {
			for v := 0; v < g.n; v++ {
				if g.deg(v) > 1 {
					return true
				}
			}
			return false
		},
		inv:     func(g rawG) string { return strconv.Itoa(g.edges()) },
		classes: func(n int) int { return n/2 + 1 },
	},
	"twoedges": { // at most two edges (n >= 4: none, one, two adjacent, two disjoint)
		bad: func(g rawG) bool { return g.edges() > 2 },
		inv: func(g rawG) string {
			md := 0
			for v := 0; v < g.n; v++ {
				if d := g.deg(v); d > md {
					md = d
				}
			}
			return fmt.Sprintf("%d.%d", g.edges(), md)
		},
		classes: func(n int) int { return 4 },
	},
	"star": { // all edges through one vertex
		bad: func(g rawG) bool {
			m := g.edges()
			if m <= 1 {
				return false
			}
			for v := 0; v < g.n; v++ {
				if g.deg(v) == m {
					return false
				}
			}
			return true
		},
		inv:     func(g rawG) string { return strconv.Itoa(g.edges()) },
		classes: func(n int) int { return n },
	},
	"cliques": { // disjoint unions of cliques
		bad:     func(g rawG) bool { return g.notTransitive(g.adj) },
		inv:     func(g rawG) string { return g.classSizes(g.adj) },
		classes: partitionsOf,
	},
	"multipartite": { // complete multipartite: non-adjacency is an equivalence
		bad: func(g rawG) bool {
			return g.notTransitive(func(u, v int) bool { return u != v && !g.adj(u, v) })
		},
		inv:     func(g rawG) string { return g.classSizes(func(u, v int) bool { return u != v && !g.adj(u, v) }) },
		classes: partitionsOf,
	},
}

// execFamily: all shards a < m of WithPruning(n, a, m, ..) with the family's predicate as preprune
// or prune: every yielded value well formed on n vertices and in the family, the invariants
// pairwise distinct over all shards together, and as many as the closed form says.
func execFamily(n, m int, name, place string) hx.Result {
	res := hx.Result{Obs: fmt.Sprintf("family %d %d %s %s | ok", n, m, name, place),
		Buckets: []string{"family " + name, fmt.Sprintf("family n=%d", n)}}
	fam := families[name]
	pred := func(d *graph.DenseGraph) bool {
		return fam.bad(rawG{d.NumberOfVertices, d.Edges})
	}
	pre, post := noPrune, noPrune
	if place == "pre" {
		pre = pred
	} else {
		post = pred
	}
	want := fam.classes(n)
	seen := map[string]int{}
	total := 0
	fail := func(key, format string, a ...interface{}) {
		if len(res.Viol) < 4 {
			res.Viol = append(res.Viol, hx.Fail(key, "family %s n=%d m=%d %s: "+format, append([]interface{}{name, n, m, place}, a...)...))
		}
	}
	for a := 0; a < m; a++ {
		it := search.WithPruning(n, a, m, pre, post)
		for it.Next() {
			d := it.Value()
			total++
			if total > 20*want+20 {
				fail("family-count", "more than %d values yielded (%d classes expected)", 20*want+20, want)
				return res
			}
			if d.NumberOfVertices != n || len(d.DegreeSequence) != n || len(d.Edges) != n*(n-1)/2 {
				fail("family-wf", "value %d of shard %d is not a graph on %d vertices (N=%d, %d degrees, %d edge bytes)", total, a, n, d.NumberOfVertices, len(d.DegreeSequence), len(d.Edges))
				continue
			}
			g := rawG{n, d.Edges}
			ok := d.NumberOfEdges == g.edges()
			for _, b := range d.Edges {
				if b > 1 {
					ok = false
				}
			}
			for v := 0; v < n; v++ {
				if d.DegreeSequence[v] != g.deg(v) {
					ok = false
				}
			}
			if !ok {
				fail("family-wf", "value %d of shard %d is not well formed (NumberOfEdges / DegreeSequence / Edges disagree)", total, a)
			}
			if fam.bad(g) {
				fail("family-member", "value %d of shard %d is not in the family", total, a)
			}
			seen[fam.inv(g)]++
		}
	}
	for k, c := range seen {
		if c > 1 {
			fail("family-duplicate", "the class with invariant %s is yielded %d times", k, c)
			break
		}
	}
	if len(seen) != want || total != want {
		fail("family-count", "%d values, %d distinct classes, closed form %d", total, len(seen), want)
	}
	res.Nontrivial = total >= 2
	return res
}

// ---------------------------------------------------------------- the combinations

var moduli = []int{1, 2, 3, 4, 7}

var predPlaces = [][2]string{{"none", "-"}, {"edges3", "pre"}, {"edges3", "post"}, {"maxdeg2", "pre"},
	{"maxdeg2", "post"}, {"triangle", "pre"}, {"triangle", "post"}, {"triangle", "both"}}

func predFunc(name string) func(*graph.DenseGraph) bool {
	switch name {
	case "edges3":
		return func(d *graph.DenseGraph) bool { return d.NumberOfEdges > 3 }
	case "maxdeg2":
		return func(d *graph.DenseGraph) bool {
			for _, x := range d.DegreeSequence {
				if x > 2 {
					return true
				}
			}
			return false
		}
	case "triangle":
		return func(d *graph.DenseGraph) bool { g := gx.Raw(d); return gx.Bad("trifree", &g) }
	}
	return func(*graph.DenseGraph) bool { return false }
}

func snap(d *graph.DenseGraph) string {
	var sb strings.Builder
	fmt.Fprintf(&sb, "%d.%d.%s:", d.NumberOfVertices, d.NumberOfEdges, joinInts(d.DegreeSequence))
	for _, b := range d.Edges {
		sb.WriteString(strconv.Itoa(int(b)))
	}
	return sb.String()
}

// classID is the least packed upper triangle (pairs 01 02 12 03 13 23 .., most significant first)
// over ALL orderings of the vertices, read from the Edges array alone; the model driver computes
// the same number from the model's Edges list.  Memoised per labelled graph.
var classMemo = map[string]uint64{}

func permsOf(n int) [][]int {
	var out [][]int
	p := make([]int, n)
	used := make([]bool, n)
	var rec func(k int)
	rec = func(k int) {
		if k == n {
			out = append(out, append([]int(nil), p...))
			return
		}
		for v := 0; v < n; v++ {
			if !used[v] {
				used[v] = true
				p[k] = v
				rec(k + 1)
				used[v] = false
			}
		}
	}
	rec(0)
	return out
}

var permCache = map[int][][]int{}

func classID(n int, edges []byte) uint64 {
	key := strconv.Itoa(n) + ":" + string(edges)
	if c, ok := classMemo[key]; ok {
		return c
	}
	adj := func(u, v int) uint64 {
		if u == v {
			return 0
		}
		if u > v {
			u, v = v, u
		}
		if edges[v*(v-1)/2+u] > 0 {
			return 1
		}
		return 0
	}
	ps := permCache[n]
	if ps == nil {
		ps = permsOf(n)
		permCache[n] = ps
	}
	best := ^uint64(0)
	for _, p := range ps {
		var x uint64
		for j := 1; j < n; j++ {
			for i := 0; i < j; i++ {
				x = x<<1 | adj(p[i], p[j])
			}
		}
		if x < best {
			best = x
		}
	}
	if n == 0 {
		best = 0
	}
	classMemo[key] = best
	return best
}

// exec: projected part = for every (m, predicate, placement) the sorted class ids of everything
// the shards a < m yield together (what the property determines); strict part = the exact
// sequence of yielded values of every shard (the model is meant to be exact, but the order and
// the choice of representatives are not fixed by the property).
func exec(line string) hx.Result {
	head := line
	if i := strings.IndexByte(line, ';'); i >= 0 {
		head = line[:i]
	}
	f := strings.Fields(head)
	if f[0] == "family" {
		n, _ := strconv.Atoi(f[1])
		m, _ := strconv.Atoi(f[2])
		return execFamily(n, m, f[3], f[4])
	}
	if f[0] == "interleave" {
		n, _ := strconv.Atoi(f[1])
		return execInterleave(n, f[2])
	}
	if f[0] == "unit" {
		n, _ := strconv.Atoi(f[1])
		c, _ := strconv.Atoi(f[2])
		return execUnit(line, n, c)
	}
	if f[0] == "tablepanic" {
		return hx.Result{Obs: line, Nontrivial: true, Buckets: []string{"outcome:panic"},
			Viol: []hx.OracleViolation{hx.Fail("tablepanic", "the real code panicked while the table %s was computed (graph.CanonicalIsomorphAllocated, the k-subset orbit loop or search.All on valid inputs)", f[1])}}
	}
	n, _ := strconv.Atoi(f[1])
	if f[0] == "spec" {
		// nothing to run on this side: the table of the case was computed by the real code in gen;
		// the model driver prints the verdict of the extracted checker in place of `ok`
		return hx.Result{Obs: fmt.Sprintf("spec k=%d pairs=%s | spec:ok ## ksubloop:ok(%d)", n, f[2], strings.Count(line, ";K")), Nontrivial: true,
			Buckets: []string{fmt.Sprintf("spec-sample k=%d", n)}}
	}
	res := hx.Result{Buckets: []string{fmt.Sprintf("n=%d", n)}}
	var pj, st strings.Builder
	fmt.Fprintf(&pj, "cosim n=%d", n)
	// the model driver evaluates the extracted checker of canon_spec (Search/OrderlyInstCheckModel.v,
	// proved sound in Search/OrderlyInstCheck.v) on the table of this case, i.e. on the real answers
	// of graph.CanonicalIsomorphAllocated and of the k-subset orbit loop, and prints its verdict here
	pj.WriteString(" | spec:ok")
	// and the verdict of the comparison of the composed labelling model canon_real with every
	// tabulated real answer (orbit partition, early exit only where the spec allows it)
	pj.WriteString(" | canonmodel:ok")
	total := 0
	no := func(*graph.DenseGraph) bool { return false }
	for _, m := range moduli {
		for _, pp := range predPlaces {
			pre, post := no, no
			if pp[1] == "pre" || pp[1] == "both" {
				pre = predFunc(pp[0])
			}
			if pp[1] == "post" || pp[1] == "both" {
				post = predFunc(pp[0])
			}
			var ids []uint64
			for a := 0; a < m; a++ {
				it := search.WithPruning(n, a, m, pre, post)
				fmt.Fprintf(&st, " | %d/%d/%s/%s:", a, m, pp[0], pp[1])
				k := 0
				for it.Next() {
					d := it.Value()
					if k > 0 {
						st.WriteByte(' ')
					}
					st.WriteString(snap(d))
					if d.NumberOfVertices == n && len(d.Edges) == n*(n-1)/2 {
						ids = append(ids, classID(n, d.Edges))
					} else {
						ids = append(ids, ^uint64(0))
					}
					k++
					if k > 100000 {
						break
					}
				}
				total += k
			}
			sort.Slice(ids, func(i, j int) bool { return ids[i] < ids[j] })
			fmt.Fprintf(&pj, " | %d/%s/%s:", m, pp[0], pp[1])
			for i, c := range ids {
				if i > 0 {
					pj.WriteByte(',')
				}
				pj.WriteString(strconv.FormatUint(c, 10))
			}
		}
	}
	res.Nontrivial = total >= 2
	// strict part: first the verdict of the model of the k-subset orbit loop (ksub_real of
	// Search/OrderlyInstKsubModel.v) against the K entries of the table, printed by the model side
	res.Obs = pj.String() + fmt.Sprintf(" ## canonexact:ok ksubloop:ok(%d)", strings.Count(line, ";K")) + st.String()
	return res
}

// emitSafely: the tables are computed by the real code here, in the generator.  A panic of the
// real code on one of these valid inputs must not kill the run: it becomes a case of its own
// whose execution reports the panic as a violation (as a panic inside Exec would be).
func emitSafely(g *hx.Gen, what string, f func()) {
	defer func() {
		if e := recover(); e != nil {
			g.Emit("tablepanic " + what)
		}
	}()
	f()
}

func gen(g *hx.Gen) {
	nmax := g.Pick(5, 6)
	for n := nmax; n >= 0; n-- {
		n := n
		emitSafely(g, fmt.Sprintf("cosim-%d", n), func() { g.Emit(fmt.Sprintf("cosim %d%s", n, buildTables(n))) })
	}
	g.Exhaustive(fmt.Sprintf("co-simulation of the extracted model of Next with search.WithPruning for every n <= %d, every shard a < m, m in {1,2,3,4,7}, predicates none / edges>3 / maxdeg>2 / triangle as preprune, prune (and both)", nmax))
	g.Exhaustive(fmt.Sprintf("canon_spec (Search/OrderlySpec.v) evaluated by the extracted, proved checker check_upto on the real answers of graph.CanonicalIsomorphAllocated and of the k-subset orbit loop for EVERY labelled graph with at most %d vertices and every ViableBits", nmax))
	// graphs above the exhaustive sizes for the spec checker (per-graph clauses and equal forms of
	// relabelled pairs): the symmetric isomorphism classes on 7 vertices (quick), all classes on 7
	// vertices and a sample of the symmetric ones on 8 (thorough), and random / structured graphs
	if g.Thorough() {
		emitSafely(g, "classes-7", func() { emitClassCases(g, 7, classReps(7, 1, 720), 0) })
		emitSafely(g, "classes-7-sym", func() { emitClassCases(g, 7, classReps(7, 6, 720), 0) })
		emitSafely(g, "classes-8", func() { emitClassCases(g, 8, classReps(8, 12, 150), 120) })
		for i := 0; i < 8; i++ {
			emitSafely(g, "sample-7", func() { g.Emit(specCase(g.Rng, 7, 40, 200)) })
		}
		for i := 0; i < 4; i++ {
			emitSafely(g, "sample-8", func() { g.Emit(specCase(g.Rng, 8, 12, 50)) })
		}
	} else {
		emitSafely(g, "classes-7-sym", func() {
			sym := classReps(7, 12, 240)
			emitClassCases(g, 7, sym, 0)
			emitClassCases(g, 7, sym, 0) // again, under other labellings
		})
		emitSafely(g, "sample-7", func() { g.Emit(specCase(g.Rng, 7, 40, 200)) })
	}
	// isCanonical / addAugmentations one call at a time, n = 8..14
	ks := []int{8, 9, 10, 11, 12, 13, 14}
	per := g.Pick(8, 24)
	for _, k := range ks {
		k := k
		emitSafely(g, fmt.Sprintf("unit-%d", k), func() {
			var us []unit
			if k <= 12 {
				us = append(us, tieUnits(g.Rng, k, 8*per)...)
			}
			us = append(us, minLastUnits(g.Rng, k, 10*per)...)
			if k >= 9 {
				us = append(us, parentUnits(g.Rng, k, 8*per)...)
			}
			for at := 0; at < len(us); at += 48 {
				end := at + 48
				if end > len(us) {
					end = len(us)
				}
				g.Emit(unitCase(k, us[at:end]))
			}
		})
	}
	// strongly pruned searches across the sizes where masks / counts leave 8 and 16 bits
	famSizes := map[string][]int{
		"matchings":    {12, 15, 16, 17, 18, 20, 24, 26},
		"twoedges":     {15, 16, 17, 18, 24, 26},
		"star":         {15, 16, 17, 18, 20, 24},
		"cliques":      {12, 14, 16, 17, 18},
		"multipartite": {9, 11, 12},
	}
	if g.Thorough() {
		famSizes["matchings"] = []int{12, 13, 14, 15, 16, 17, 18, 19, 20, 22, 24, 25, 26}
		famSizes["cliques"] = []int{12, 13, 14, 15, 16, 17, 18, 19, 20}
		famSizes["multipartite"] = []int{9, 10, 11, 12, 13, 14}
		famSizes["star"] = []int{15, 16, 17, 18, 19, 20, 22, 24, 26}
	}
	for _, name := range []string{"matchings", "twoedges", "star", "cliques", "multipartite"} {
		for _, n := range famSizes[name] {
			for _, place := range []string{"pre", "post"} {
				for _, m := range []int{1, 3} {
					g.Emit(fmt.Sprintf("family %d %d %s %s", n, m, name, place))
				}
			}
		}
	}
	// two live iterators for the same n
	for _, n := range []int{5, 6, 7} {
		for _, v := range []string{"prune", "preprune", "alternate"} {
			g.Emit(fmt.Sprintf("interleave %d %s", n, v))
		}
	}
	g.Note("spec checker: canon_spec evaluated by the extracted check_upto on ALL graphs with at most nmax vertices (every ViableBits), and per graph (check_graph, label_pair_check) on relabelled pairs of 7- and 8-vertex graphs")
}

func main() {
	hx.Main(hx.Prop{
		Rule:        "case = n with the table of canonical-labelling answers; non-trivial = the runs of the case yield at least 2 graphs in total",
		Gen:         gen,
		Exec:        exec,
		CaseTimeout: 5 * time.Minute,
		MemMB:       4096,
	})
}
