// Command c03sim is the co-simulation stream of C03 (and of the model used by C04): the model of
// GraphIterator.Next extracted from coq/Search/Model.v is run by ocaml/c03/driver.ml on the same
// (n, a, m, preprune, prune) as the real iterator, and the complete sequences of yielded values
// (NumberOfVertices, NumberOfEdges, DegreeSequence, Edges) are compared, in order.
//
// The model takes the canonical labelling as a parameter.  A case line therefore carries a table
// of answers of graph.CanonicalIsomorphAllocated (perm, orbits, generators) for every labelled
// graph on k <= n vertices, with CheckViability = false and with CheckViability = true for every
// non-empty ViableBits among the vertices i < k-1 of the same degree as vertex k-1 (the only
// sets isCanonical can ask for), and a table of the orbit representatives of k-subsets that
// addAugmentations computes from a list of generators (a copy of that loop over the library's
// comb / itertools / disjoint functions).  Every table entry is computed with fresh storage.
//
// case = `cosim <n>;<key>=<value>;...`.  Both sides run the same fixed list of combinations
// (m in {1,2,3,4,7}, a < m, predicate, placement).  Projected observation: per (m, predicate,
// placement) the sorted isomorphism-class ids of what the shards yield together; strict part:
// `a/m/pred/place:<graph> <graph> ...`, the exact sequences.
package main

import (
	"fmt"
	"sort"
	"strconv"
	"strings"
	"time"

	"github.com/Tom-Johnston/mamba/comb"
	"github.com/Tom-Johnston/mamba/disjoint"
	"github.com/Tom-Johnston/mamba/graph"
	"github.com/Tom-Johnston/mamba/graph/search"
	"github.com/Tom-Johnston/mamba/ints"
	"github.com/Tom-Johnston/mamba/itertools"
	"verifharness/cmd/c03/gx"
	"verifharness/hx"
)

// ---------------------------------------------------------------- tables

func joinInts(a []int) string {
	s := make([]string, len(a))
	for i, v := range a {
		s[i] = strconv.Itoa(v)
	}
	return strings.Join(s, ",")
}

func gensString(gens [][]int) string {
	s := make([]string, len(gens))
	for i, g := range gens {
		s[i] = joinInts(g)
	}
	return strings.Join(s, "/")
}

func nbrsString(nb [][]int) string {
	s := make([]string, len(nb))
	for i, l := range nb {
		s[i] = joinInts(l)
	}
	return strings.Join(s, ".")
}

// canonAnswer is getAutomorphismGroup of search_all.go on fresh storage.
func canonAnswer(k, m int, nb [][]int, cv bool, vb uint) (perm []int, orbits []int, gens [][]int) {
	storage := graph.NewStorage(k, (k*(k-1))/2)
	op := graph.NewOrderedPartition(k, (k*(k-1))/2, nil)
	options := new(graph.CanonicalOptions)
	options.CheckViability = cv
	options.ViableBits = vb
	op.Reset(k, m, nil)
	p, o, g := graph.CanonicalIsomorphAllocated(k, m, nb, op, storage, options)
	if p != nil {
		perm = append([]int{}, p...)
	}
	orbits = append([]int{}, o...)
	for _, x := range g {
		gens = append(gens, append([]int{}, x...))
	}
	return
}

// ksubReps is the loop `for k := 2; k <= maxSize; k++` of addAugmentations for one k.
func ksubReps(n, k int, generators [][]int) []uint {
	var out []uint
	ds := make(disjoint.Set, comb.Coeff(n, k))
	for i := range ds {
		ds[i] = -1
	}
	buf := make([]int, n)
	iter := itertools.CombinationsColex(n, k)
	c2 := make([]int, k)
	for i := 0; i < len(ds); i++ {
		iter.Next()
		c := iter.Value()
		for _, g := range generators {
			for j := 0; j < k; j++ {
				c2[j] = g[c[j]]
			}
			ints.Sort(c2)
			ds.UnionBuffered(i, comb.Rank(c2), buf)
		}
	}
	iter = itertools.CombinationsColex(n, k)
	for i := 0; i < len(ds); i++ {
		iter.Next()
		if ds[i] < 0 {
			x := 0
			for _, v := range iter.Value() {
				x |= (1 << uint(v))
			}
			out = append(out, uint(x))
		}
	}
	return out
}

// vbFullK: for graphs on at most this many vertices the table holds the CheckViability = true
// answer for every ViableBits (all subsets of 0..k-2), so that the model driver can evaluate the
// early-exit clause of canon_spec in full (Coq: vbs_mixed in Search/OrderlyInstCheckModel.v uses
// the same constant); above it only the sets isCanonical can ask for.
const vbFullK = 6

// tableBuilder collects the answers of the real labelling and of the real k-subset loop.
type tableBuilder struct {
	entries  map[string]string
	gensSeen map[string][][]int
}

func newTableBuilder() *tableBuilder {
	return &tableBuilder{entries: map[string]string{}, gensSeen: map[string][][]int{}}
}

func (t *tableBuilder) add(k, m int, nb [][]int, cv bool, vb uint) {
	perm, orbits, gens := canonAnswer(k, m, nb, cv, vb)
	ps := "nil"
	if perm != nil {
		ps = joinInts(perm)
	}
	cvs := "0"
	if cv {
		cvs = "1"
	}
	key := fmt.Sprintf("C%d:%d:%s:%s:%d", k, m, nbrsString(nb), cvs, vb)
	t.entries[key] = ps + "~" + joinInts(orbits) + "~" + gensString(gens)
	gk := fmt.Sprintf("%d:%s", k, gensString(gens))
	if _, ok := t.gensSeen[gk]; !ok {
		t.gensSeen[gk] = gens
		for kk := 2; kk <= k; kk++ {
			reps := ksubReps(k, kk, gens)
			rs := make([]string, len(reps))
			for i, r := range reps {
				rs[i] = strconv.FormatUint(uint64(r), 10)
			}
			t.entries[fmt.Sprintf("K%d:%d:%s", k, kk, gensString(gens))] = strings.Join(rs, ",")
		}
	}
}

// addGraph tabulates everything the model and the spec checker ask about one labelled graph.
func (t *tableBuilder) addGraph(g *gx.G) {
	k := g.N
	nb := make([][]int, k)
	m := 0
	for v := 0; v < k; v++ {
		nb[v] = []int{}
		for u := 0; u < k; u++ {
			if g.Edge(u, v) {
				nb[v] = append(nb[v], u)
			}
		}
		m += len(nb[v])
	}
	m /= 2
	t.add(k, m, nb, false, 0)
	if k <= vbFullK {
		// spec checker (clause ok_early of canon_spec): EVERY ViableBits below 2^(k-1)
		for vb := uint(0); vb < 1<<uint(k-1); vb++ {
			t.add(k, m, nb, true, vb)
		}
		return
	}
	// viable sets: non-empty subsets of {i < k-1 : deg i == deg (k-1)}
	var cand []int
	for i := 0; i < k-1; i++ {
		if g.Deg(i) == g.Deg(k-1) {
			cand = append(cand, i)
		}
	}
	for s := 1; s < 1<<uint(len(cand)); s++ {
		vb := uint(0)
		for j, i := range cand {
			if s>>uint(j)&1 == 1 {
				vb |= 1 << uint(i)
			}
		}
		t.add(k, m, nb, true, vb)
	}
}

func (t *tableBuilder) String() string {
	keys := make([]string, 0, len(t.entries))
	for k := range t.entries {
		keys = append(keys, k)
	}
	sort.Strings(keys)
	var sb strings.Builder
	for _, k := range keys {
		sb.WriteByte(';')
		sb.WriteString(k)
		sb.WriteByte('=')
		sb.WriteString(t.entries[k])
	}
	return sb.String()
}

func buildTables(n int) string {
	t := newTableBuilder()
	for k := 1; k <= n; k++ {
		tot := uint(k * (k - 1) / 2)
		for x := uint64(0); x < 1<<tot; x++ {
			g := gx.FromBits(k, x)
			t.addGraph(&g)
		}
	}
	return t.String()
}

// ---------------------------------------------------------------- sampled graphs for the spec checker

// edgeString is the Edges array of the DenseGraph with the same edges (pair uv, u < v, at
// index v(v-1)/2+u), as a string of 0/1.
func edgeString(g *gx.G) string {
	b := make([]byte, 0, g.N*(g.N-1)/2)
	for v := 1; v < g.N; v++ {
		for u := 0; u < v; u++ {
			if g.Edge(u, v) {
				b = append(b, '1')
			} else {
				b = append(b, '0')
			}
		}
	}
	return string(b)
}

func setEdge(g *gx.G, u, v int) {
	g.Adj[u] |= 1 << uint(v)
	g.Adj[v] |= 1 << uint(u)
}

// structured draws a graph on k vertices that is a disjoint union of small symmetric pieces
// (complete, cycle, path, star, complete bipartite, edgeless), possibly complemented: the graphs
// on which the automorphism part of the labelling (orbits, generators) has work to do.
func structured(r *hx.Rng, k int) gx.G {
	var g gx.G
	g.N = k
	at := 0
	for at < k {
		sz := r.Range(1, k-at)
		if r.Chance(1, 2) && sz > 4 {
			sz = r.Range(2, 4)
		}
		vs := make([]int, sz)
		for i := range vs {
			vs[i] = at + i
		}
		switch r.Intn(6) {
		case 0: // complete
			for i := 0; i < sz; i++ {
				for j := i + 1; j < sz; j++ {
					setEdge(&g, vs[i], vs[j])
				}
			}
		case 1: // cycle
			if sz >= 3 {
				for i := 0; i < sz; i++ {
					setEdge(&g, vs[i], vs[(i+1)%sz])
				}
			}
		case 2: // path
			for i := 0; i+1 < sz; i++ {
				setEdge(&g, vs[i], vs[i+1])
			}
		case 3: // star
			for i := 1; i < sz; i++ {
				setEdge(&g, vs[0], vs[i])
			}
		case 4: // complete bipartite
			a := r.Range(1, sz)
			for i := 0; i < a; i++ {
				for j := a; j < sz; j++ {
					setEdge(&g, vs[i], vs[j])
				}
			}
		default: // edgeless
		}
		at += sz
	}
	// now and then join two pieces or remove an edge
	if r.Chance(1, 2) {
		for t := r.Range(1, 2); t > 0; t-- {
			u, v := r.Intn(k), r.Intn(k)
			if u != v {
				g.Adj[u] ^= 1 << uint(v)
				g.Adj[v] ^= 1 << uint(u)
			}
		}
	}
	if r.Chance(1, 3) {
		for u := 0; u < k; u++ {
			for v := u + 1; v < k; v++ {
				g.Adj[u] ^= 1 << uint(v)
				g.Adj[v] ^= 1 << uint(u)
			}
		}
	}
	return g
}

// relabel returns h with h(i, j) = g(q[i], q[j]) (h is g relabelled by q, isoP of the Coq side).
func relabel(g *gx.G, q []int) gx.G {
	var h gx.G
	h.N = g.N
	for i := 0; i < g.N; i++ {
		for j := i + 1; j < g.N; j++ {
			if g.Edge(q[i], q[j]) {
				setEdge(&h, i, j)
			}
		}
	}
	return h
}

// specCase = `spec <k> <pairs>;<table>;P<i>=<edges g>|<edges h>|<q>;...`: sampled graphs g on k
// vertices (k above the exhaustive sizes), each with a random relabelling h; the model driver
// evaluates the per-graph clauses of canon_spec on g and on h (extracted check_graph) and that g
// and h get the same canonical form (label_pair_check).  maxAut bounds |Aut(g)| (the checker
// enumerates the group by brute force).
func specCase(r *hx.Rng, k, count int, maxAut uint64) string {
	var gs []gx.G
	seen := map[uint64]bool{}
	for tries := 0; len(gs) < count && tries < 50*count; tries++ {
		var g gx.G
		if r.Chance(3, 4) {
			g = structured(r, k)
		} else {
			tot := uint(k * (k - 1) / 2)
			dens := r.Range(1, 7)
			var x uint64
			for b := uint(0); b < tot; b++ {
				if r.Intn(8) < dens {
					x |= 1 << b
				}
			}
			g = gx.FromBits(k, x)
		}
		if seen[g.Bits()] || gx.AutCount(&g) > maxAut {
			continue
		}
		seen[g.Bits()] = true
		gs = append(gs, g)
	}
	return specPairs(r, k, gs)
}

// specPairs: every listed graph under a random labelling, paired with a random relabelling.
func specPairs(r *hx.Rng, k int, gs []gx.G) string {
	t := newTableBuilder()
	var sb strings.Builder
	for n := range gs {
		g := relabel(&gs[n], r.Perm(k))
		q := r.Perm(k)
		h := relabel(&g, q)
		t.addGraph(&g)
		t.addGraph(&h)
		fmt.Fprintf(&sb, ";P%d=%s|%s|%s", n, edgeString(&g), edgeString(&h), joinInts(q))
	}
	return fmt.Sprintf("spec %d %d%s%s", k, len(gs), t.String(), sb.String())
}

// classReps: one graph of every isomorphism class on k vertices whose automorphism group has
// between minAut and maxAut elements (|Aut| by the independent backtracking of gx).  The list of
// classes is what search.All(k, 0, 1) of the linked library yields; it only serves as a source of
// graphs (nothing is assumed of it: whatever is listed is checked).
func classReps(k int, minAut, maxAut uint64) []gx.G {
	var out []gx.G
	it := search.All(k, 0, 1)
	for it.Next() {
		g := gx.Raw(it.Value())
		if g.N != k {
			continue
		}
		if a := gx.AutCount(&g); a >= minAut && a <= maxAut {
			out = append(out, g)
		}
	}
	return out
}

// emitClassCases: the classes in chunks of 40 pairs per case.
func emitClassCases(g *hx.Gen, k int, reps []gx.G, limit int) {
	if limit > 0 && len(reps) > limit {
		// a seeded random subset
		idx := g.Rng.Perm(len(reps))[:limit]
		sort.Ints(idx)
		sub := make([]gx.G, 0, limit)
		for _, i := range idx {
			sub = append(sub, reps[i])
		}
		reps = sub
	}
	for at := 0; at < len(reps); at += 40 {
		end := at + 40
		if end > len(reps) {
			end = len(reps)
		}
		g.Emit(specPairs(g.Rng, k, reps[at:end]))
	}
}

// ---------------------------------------------------------------- the combinations

var moduli = []int{1, 2, 3, 4, 7}

var predPlaces = [][2]string{{"none", "-"}, {"edges3", "pre"}, {"edges3", "post"}, {"maxdeg2", "pre"},
	{"maxdeg2", "post"}, {"triangle", "pre"}, {"triangle", "post"}, {"triangle", "both"}}

func predFunc(name string) func(*graph.DenseGraph) bool {
	switch name {
	case "edges3":
		return func(d *graph.DenseGraph) bool { return d.NumberOfEdges > 3 }
	case "maxdeg2":
		return func(d *graph.DenseGraph) bool {
			for _, x := range d.DegreeSequence {
				if x > 2 {
					return true
				}
			}
			return false
		}
	case "triangle":
		return func(d *graph.DenseGraph) bool { g := gx.Raw(d); return gx.Bad("trifree", &g) }
	}
	return func(*graph.DenseGraph) bool { return false }
}

func snap(d *graph.DenseGraph) string {
	var sb strings.Builder
	fmt.Fprintf(&sb, "%d.%d.%s:", d.NumberOfVertices, d.NumberOfEdges, joinInts(d.DegreeSequence))
	for _, b := range d.Edges {
		sb.WriteString(strconv.Itoa(int(b)))
	}
	return sb.String()
}

// classID is the least packed upper triangle (pairs 01 02 12 03 13 23 .., most significant first)
// over ALL orderings of the vertices, read from the Edges array alone; the model driver computes
// the same number from the model's Edges list.  Memoised per labelled graph.
var classMemo = map[string]uint64{}

func permsOf(n int) [][]int {
	var out [][]int
	p := make([]int, n)
	used := make([]bool, n)
	var rec func(k int)
	rec = func(k int) {
		if k == n {
			out = append(out, append([]int(nil), p...))
			return
		}
		for v := 0; v < n; v++ {
			if !used[v] {
				used[v] = true
				p[k] = v
				rec(k + 1)
				used[v] = false
			}
		}
	}
	rec(0)
	return out
}

var permCache = map[int][][]int{}

func classID(n int, edges []byte) uint64 {
	key := strconv.Itoa(n) + ":" + string(edges)
	if c, ok := classMemo[key]; ok {
		return c
	}
	adj := func(u, v int) uint64 {
		if u == v {
			return 0
		}
		if u > v {
			u, v = v, u
		}
		if edges[v*(v-1)/2+u] > 0 {
			return 1
		}
		return 0
	}
	ps := permCache[n]
	if ps == nil {
		ps = permsOf(n)
		permCache[n] = ps
	}
	best := ^uint64(0)
	for _, p := range ps {
		var x uint64
		for j := 1; j < n; j++ {
			for i := 0; i < j; i++ {
				x = x<<1 | adj(p[i], p[j])
			}
		}
		if x < best {
			best = x
		}
	}
	if n == 0 {
		best = 0
	}
	classMemo[key] = best
	return best
}

// exec: projected part = for every (m, predicate, placement) the sorted class ids of everything
// the shards a < m yield together (what the property determines); strict part = the exact
// sequence of yielded values of every shard (the model is meant to be exact, but the order and
// the choice of representatives are not fixed by the property).
func exec(line string) hx.Result {
	head := line
	if i := strings.IndexByte(line, ';'); i >= 0 {
		head = line[:i]
	}
	f := strings.Fields(head)
	if f[0] == "tablepanic" {
		return hx.Result{Obs: line, Nontrivial: true, Buckets: []string{"outcome:panic"},
			Viol: []hx.OracleViolation{hx.Fail("tablepanic", "the real code panicked while the table %s was computed (graph.CanonicalIsomorphAllocated, the k-subset orbit loop or search.All on valid inputs)", f[1])}}
	}
	n, _ := strconv.Atoi(f[1])
	if f[0] == "spec" {
		// nothing to run on this side: the table of the case was computed by the real code in gen;
		// the model driver prints the verdict of the extracted checker in place of `ok`
		return hx.Result{Obs: fmt.Sprintf("spec k=%d pairs=%s | spec:ok ## ksubloop:ok(%d)", n, f[2], strings.Count(line, ";K")), Nontrivial: true,
			Buckets: []string{fmt.Sprintf("spec-sample k=%d", n)}}
	}
	res := hx.Result{Buckets: []string{fmt.Sprintf("n=%d", n)}}
	var pj, st strings.Builder
	fmt.Fprintf(&pj, "cosim n=%d", n)
	// the model driver evaluates the extracted checker of canon_spec (Search/OrderlyInstCheckModel.v,
	// proved sound in Search/OrderlyInstCheck.v) on the table of this case, i.e. on the real answers
	// of graph.CanonicalIsomorphAllocated and of the k-subset orbit loop, and prints its verdict here
	pj.WriteString(" | spec:ok")
	total := 0
	no := func(*graph.DenseGraph) bool { return false }
	for _, m := range moduli {
		for _, pp := range predPlaces {
			pre, post := no, no
			if pp[1] == "pre" || pp[1] == "both" {
				pre = predFunc(pp[0])
			}
			if pp[1] == "post" || pp[1] == "both" {
				post = predFunc(pp[0])
			}
			var ids []uint64
			for a := 0; a < m; a++ {
				it := search.WithPruning(n, a, m, pre, post)
				fmt.Fprintf(&st, " | %d/%d/%s/%s:", a, m, pp[0], pp[1])
				k := 0
				for it.Next() {
					d := it.Value()
					if k > 0 {
						st.WriteByte(' ')
					}
					st.WriteString(snap(d))
					if d.NumberOfVertices == n && len(d.Edges) == n*(n-1)/2 {
						ids = append(ids, classID(n, d.Edges))
					} else {
						ids = append(ids, ^uint64(0))
					}
					k++
					if k > 100000 {
						break
					}
				}
				total += k
			}
			sort.Slice(ids, func(i, j int) bool { return ids[i] < ids[j] })
			fmt.Fprintf(&pj, " | %d/%s/%s:", m, pp[0], pp[1])
			for i, c := range ids {
				if i > 0 {
					pj.WriteByte(',')
				}
				pj.WriteString(strconv.FormatUint(c, 10))
			}
		}
	}
	res.Nontrivial = total >= 2
	// strict part: first the verdict of the model of the k-subset orbit loop (ksub_real of
	// Search/OrderlyInstKsubModel.v) against the K entries of the table, printed by the model side
	res.Obs = pj.String() + fmt.Sprintf(" ## ksubloop:ok(%d)", strings.Count(line, ";K")) + st.String()
	return res
}

// emitSafely: the tables are computed by the real code here, in the generator.  A panic of the
// real code on one of these valid inputs must not kill the run: it becomes a case of its own
// whose execution reports the panic as a violation (as a panic inside Exec would be).
func emitSafely(g *hx.Gen, what string, f func()) {
	defer func() {
		if e := recover(); e != nil {
			g.Emit("tablepanic " + what)
		}
	}()
	f()
}

func gen(g *hx.Gen) {
	nmax := g.Pick(5, 6)
	for n := nmax; n >= 0; n-- {
		n := n
		emitSafely(g, fmt.Sprintf("cosim-%d", n), func() { g.Emit(fmt.Sprintf("cosim %d%s", n, buildTables(n))) })
	}
	g.Exhaustive(fmt.Sprintf("co-simulation of the extracted model of Next with search.WithPruning for every n <= %d, every shard a < m, m in {1,2,3,4,7}, predicates none / edges>3 / maxdeg>2 / triangle as preprune, prune (and both)", nmax))
	g.Exhaustive(fmt.Sprintf("canon_spec (Search/OrderlySpec.v) evaluated by the extracted, proved checker check_upto on the real answers of graph.CanonicalIsomorphAllocated and of the k-subset orbit loop for EVERY labelled graph with at most %d vertices and every ViableBits", nmax))
	// graphs above the exhaustive sizes for the spec checker (per-graph clauses and equal forms of
	// relabelled pairs): the symmetric isomorphism classes on 7 vertices (quick), all classes on 7
	// vertices and a sample of the symmetric ones on 8 (thorough), and random / structured graphs
	if g.Thorough() {
		emitSafely(g, "classes-7", func() { emitClassCases(g, 7, classReps(7, 1, 720), 0) })
		emitSafely(g, "classes-7-sym", func() { emitClassCases(g, 7, classReps(7, 6, 720), 0) })
		emitSafely(g, "classes-8", func() { emitClassCases(g, 8, classReps(8, 12, 150), 120) })
		for i := 0; i < 8; i++ {
			emitSafely(g, "sample-7", func() { g.Emit(specCase(g.Rng, 7, 40, 200)) })
		}
		for i := 0; i < 4; i++ {
			emitSafely(g, "sample-8", func() { g.Emit(specCase(g.Rng, 8, 12, 50)) })
		}
	} else {
		emitSafely(g, "classes-7-sym", func() {
			sym := classReps(7, 12, 240)
			emitClassCases(g, 7, sym, 0)
			emitClassCases(g, 7, sym, 0) // again, under other labellings
		})
		emitSafely(g, "sample-7", func() { g.Emit(specCase(g.Rng, 7, 40, 200)) })
	}
	g.Note("spec checker: canon_spec evaluated by the extracted check_upto on ALL graphs with at most nmax vertices (every ViableBits), and per graph (check_graph, label_pair_check) on relabelled pairs of 7- and 8-vertex graphs")
}

func main() {
	hx.Main(hx.Prop{
		Rule:        "case = n with the table of canonical-labelling answers; non-trivial = the runs of the case yield at least 2 graphs in total",
		Gen:         gen,
		Exec:        exec,
		CaseTimeout: 5 * time.Minute,
		MemMB:       4096,
	})
}
