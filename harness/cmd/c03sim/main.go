// Command c03sim is the co-simulation stream of C03 (and of the model used by C04): the model of
// GraphIterator.Next extracted from coq/Search/Model.v is run by ocaml/c03/driver.ml on the same
// (n, a, m, preprune, prune) as the real iterator, and the complete sequences of yielded values
// (NumberOfVertices, NumberOfEdges, DegreeSequence, Edges) are compared, in order.
//
// The model takes the canonical labelling as a parameter.  A case line therefore carries a table
// of answers of graph.CanonicalIsomorphAllocated (perm, orbits, generators) for every labelled
// graph on k <= n vertices, with CheckViability = false and with CheckViability = true for every
// non-empty ViableBits among the vertices i < k-1 of the same degree as vertex k-1 (the only
// sets isCanonical can ask for), and a table of the orbit representatives of k-subsets that
// addAugmentations computes from a list of generators (a copy of that loop over the library's
// comb / itertools / disjoint functions).  Every table entry is computed with fresh storage.
//
// case = `cosim <n>;<key>=<value>;...`.  Both sides run the same fixed list of combinations
// (m in {1,2,3,4,7}, a < m, predicate, placement).  Projected observation: per (m, predicate,
// placement) the sorted isomorphism-class ids of what the shards yield together; strict part:
// `a/m/pred/place:<graph> <graph> ...`, the exact sequences.
package main

import (
	"fmt"
	"sort"
	"strconv"
	"strings"
	"time"

	"github.com/Tom-Johnston/mamba/comb"
	"github.com/Tom-Johnston/mamba/disjoint"
	"github.com/Tom-Johnston/mamba/graph"
	"github.com/Tom-Johnston/mamba/graph/search"
	"github.com/Tom-Johnston/mamba/ints"
	"github.com/Tom-Johnston/mamba/itertools"
	"verifharness/cmd/c03/gx"
	"verifharness/hx"
)

// ---------------------------------------------------------------- tables

func joinInts(a []int) string {
	s := make([]string, len(a))
	for i, v := range a {
		s[i] = strconv.Itoa(v)
	}
	return strings.Join(s, ",")
}

func gensString(gens [][]int) string {
	s := make([]string, len(gens))
	for i, g := range gens {
		s[i] = joinInts(g)
	}
	return strings.Join(s, "/")
}

func nbrsString(nb [][]int) string {
	s := make([]string, len(nb))
	for i, l := range nb {
		s[i] = joinInts(l)
	}
	return strings.Join(s, ".")
}

// canonAnswer is getAutomorphismGroup of search_all.go on fresh storage.
func canonAnswer(k, m int, nb [][]int, cv bool, vb uint) (perm []int, orbits []int, gens [][]int) {
	storage := graph.NewStorage(k, (k*(k-1))/2)
	op := graph.NewOrderedPartition(k, (k*(k-1))/2, nil)
	options := new(graph.CanonicalOptions)
	options.CheckViability = cv
	options.ViableBits = vb
	op.Reset(k, m, nil)
	p, o, g := graph.CanonicalIsomorphAllocated(k, m, nb, op, storage, options)
	if p != nil {
		perm = append([]int{}, p...)
	}
	orbits = append([]int{}, o...)
	for _, x := range g {
		gens = append(gens, append([]int{}, x...))
	}
	return
}

// ksubReps is the loop `for k := 2; k <= maxSize; k++` of addAugmentations for one k.
func ksubReps(n, k int, generators [][]int) []uint {
	var out []uint
	ds := make(disjoint.Set, comb.Coeff(n, k))
	for i := range ds {
		ds[i] = -1
	}
	buf := make([]int, n)
	iter := itertools.CombinationsColex(n, k)
	c2 := make([]int, k)
	for i := 0; i < len(ds); i++ {
		iter.Next()
		c := iter.Value()
		for _, g := range generators {
			for j := 0; j < k; j++ {
				c2[j] = g[c[j]]
			}
			ints.Sort(c2)
			ds.UnionBuffered(i, comb.Rank(c2), buf)
		}
	}
	iter = itertools.CombinationsColex(n, k)
	for i := 0; i < len(ds); i++ {
		iter.Next()
		if ds[i] < 0 {
			x := 0
			for _, v := range iter.Value() {
				x |= (1 << uint(v))
			}
			out = append(out, uint(x))
		}
	}
	return out
}

func buildTables(n int) string {
	entries := map[string]string{}
	gensSeen := map[string][][]int{}
	add := func(k, m int, nb [][]int, cv bool, vb uint) {
		perm, orbits, gens := canonAnswer(k, m, nb, cv, vb)
		ps := "nil"
		if perm != nil {
			ps = joinInts(perm)
		}
		cvs := "0"
		if cv {
			cvs = "1"
		}
		key := fmt.Sprintf("C%d:%d:%s:%s:%d", k, m, nbrsString(nb), cvs, vb)
		entries[key] = ps + "~" + joinInts(orbits) + "~" + gensString(gens)
		gk := fmt.Sprintf("%d:%s", k, gensString(gens))
		if _, ok := gensSeen[gk]; !ok {
			gensSeen[gk] = gens
			for kk := 2; kk <= k; kk++ {
				reps := ksubReps(k, kk, gens)
				rs := make([]string, len(reps))
				for i, r := range reps {
					rs[i] = strconv.FormatUint(uint64(r), 10)
				}
				entries[fmt.Sprintf("K%d:%d:%s", k, kk, gensString(gens))] = strings.Join(rs, ",")
			}
		}
	}
	for k := 1; k <= n; k++ {
		tot := uint(k * (k - 1) / 2)
		for x := uint64(0); x < 1<<tot; x++ {
			g := gx.FromBits(k, x)
			nb := make([][]int, k)
			m := 0
			for v := 0; v < k; v++ {
				nb[v] = []int{}
				for u := 0; u < k; u++ {
					if g.Edge(u, v) {
						nb[v] = append(nb[v], u)
					}
				}
				m += len(nb[v])
			}
			m /= 2
			add(k, m, nb, false, 0)
			// viable sets: non-empty subsets of {i < k-1 : deg i == deg (k-1)}
			var cand []int
			for i := 0; i < k-1; i++ {
				if g.Deg(i) == g.Deg(k-1) {
					cand = append(cand, i)
				}
			}
			for s := 1; s < 1<<uint(len(cand)); s++ {
				vb := uint(0)
				for j, i := range cand {
					if s>>uint(j)&1 == 1 {
						vb |= 1 << uint(i)
					}
				}
				add(k, m, nb, true, vb)
			}
		}
	}
	keys := make([]string, 0, len(entries))
	for k := range entries {
		keys = append(keys, k)
	}
	sort.Strings(keys)
	var sb strings.Builder
	for _, k := range keys {
		sb.WriteByte(';')
		sb.WriteString(k)
		sb.WriteByte('=')
		sb.WriteString(entries[k])
	}
	return sb.String()
}

// ---------------------------------------------------------------- the combinations

var moduli = []int{1, 2, 3, 4, 7}

var predPlaces = [][2]string{{"none", "-"}, {"edges3", "pre"}, {"edges3", "post"}, {"maxdeg2", "pre"},
	{"maxdeg2", "post"}, {"triangle", "pre"}, {"triangle", "post"}, {"triangle", "both"}}

func predFunc(name string) func(*graph.DenseGraph) bool {
	switch name {
	case "edges3":
		return func(d *graph.DenseGraph) bool { return d.NumberOfEdges > 3 }
	case "maxdeg2":
		return func(d *graph.DenseGraph) bool {
			for _, x := range d.DegreeSequence {
				if x > 2 {
					return true
				}
			}
			return false
		}
	case "triangle":
		return func(d *graph.DenseGraph) bool { g := gx.Raw(d); return gx.Bad("trifree", &g) }
	}
	return func(*graph.DenseGraph) bool { return false }
}

func snap(d *graph.DenseGraph) string {
	var sb strings.Builder
	fmt.Fprintf(&sb, "%d.%d.%s:", d.NumberOfVertices, d.NumberOfEdges, joinInts(d.DegreeSequence))
	for _, b := range d.Edges {
		sb.WriteString(strconv.Itoa(int(b)))
	}
	return sb.String()
}

// classID is the least packed upper triangle (pairs 01 02 12 03 13 23 .., most significant first)
// over ALL orderings of the vertices, read from the Edges array alone; the model driver computes
// the same number from the model's Edges list.  Memoised per labelled graph.
var classMemo = map[string]uint64{}

func permsOf(n int) [][]int {
	var out [][]int
	p := make([]int, n)
	used := make([]bool, n)
	var rec func(k int)
	rec = func(k int) {
		if k == n {
			out = append(out, append([]int(nil), p...))
			return
		}
		for v := 0; v < n; v++ {
			if !used[v] {
				used[v] = true
				p[k] = v
				rec(k + 1)
				used[v] = false
			}
		}
	}
	rec(0)
	return out
}

var permCache = map[int][][]int{}

func classID(n int, edges []byte) uint64 {
	key := strconv.Itoa(n) + ":" + string(edges)
	if c, ok := classMemo[key]; ok {
		return c
	}
	adj := func(u, v int) uint64 {
		if u == v {
			return 0
		}
		if u > v {
			u, v = v, u
		}
		if edges[v*(v-1)/2+u] > 0 {
			return 1
		}
		return 0
	}
	ps := permCache[n]
	if ps == nil {
		ps = permsOf(n)
		permCache[n] = ps
	}
	best := ^uint64(0)
	for _, p := range ps {
		var x uint64
		for j := 1; j < n; j++ {
			for i := 0; i < j; i++ {
				x = x<<1 | adj(p[i], p[j])
			}
		}
		if x < best {
			best = x
		}
	}
	if n == 0 {
		best = 0
	}
	classMemo[key] = best
	return best
}

// exec: projected part = for every (m, predicate, placement) the sorted class ids of everything
// the shards a < m yield together (what the property determines); strict part = the exact
// sequence of yielded values of every shard (the model is meant to be exact, but the order and
// the choice of representatives are not fixed by the property).
func exec(line string) hx.Result {
	head := line
	if i := strings.IndexByte(line, ';'); i >= 0 {
		head = line[:i]
	}
	f := strings.Fields(head)
	n, _ := strconv.Atoi(f[1])
	res := hx.Result{Buckets: []string{fmt.Sprintf("n=%d", n)}}
	var pj, st strings.Builder
	fmt.Fprintf(&pj, "cosim n=%d", n)
	total := 0
	no := func(*graph.DenseGraph) bool { return false }
	for _, m := range moduli {
		for _, pp := range predPlaces {
			pre, post := no, no
			if pp[1] == "pre" || pp[1] == "both" {
				pre = predFunc(pp[0])
			}
			if pp[1] == "post" || pp[1] == "both" {
				post = predFunc(pp[0])
			}
			var ids []uint64
			for a := 0; a < m; a++ {
				it := search.WithPruning(n, a, m, pre, post)
				fmt.Fprintf(&st, " | %d/%d/%s/%s:", a, m, pp[0], pp[1])
				k := 0
				for it.Next() {
					d := it.Value()
					if k > 0 {
						st.WriteByte(' ')
					}
					st.WriteString(snap(d))
					if d.NumberOfVertices == n && len(d.Edges) == n*(n-1)/2 {
						ids = append(ids, classID(n, d.Edges))
					} else {
						ids = append(ids, ^uint64(0))
					}
					k++
					if k > 100000 {
						break
					}
				}
				total += k
			}
			sort.Slice(ids, func(i, j int) bool { return ids[i] < ids[j] })
			fmt.Fprintf(&pj, " | %d/%s/%s:", m, pp[0], pp[1])
			for i, c := range ids {
				if i > 0 {
					pj.WriteByte(',')
				}
				pj.WriteString(strconv.FormatUint(c, 10))
			}
		}
	}
	res.Nontrivial = total >= 2
	res.Obs = pj.String() + " ##" + st.String()
	return res
}

func gen(g *hx.Gen) {
	nmax := g.Pick(5, 6)
	for n := nmax; n >= 0; n-- {
		g.Emit(fmt.Sprintf("cosim %d%s", n, buildTables(n)))
	}
	g.Exhaustive(fmt.Sprintf("co-simulation of the extracted model of Next with search.WithPruning for every n <= %d, every shard a < m, m in {1,2,3,4,7}, predicates none / edges>3 / maxdeg>2 / triangle as preprune, prune (and both)", nmax))
	_ = g.Rng
}

func main() {
	hx.Main(hx.Prop{
		Rule:        "case = n with the table of canonical-labelling answers; non-trivial = the runs of the case yield at least 2 graphs in total",
		Gen:         gen,
		Exec:        exec,
		CaseTimeout: 5 * time.Minute,
		MemMB:       4096,
	})
}
