// Command c12 exercises dawg.Builder (Add sequences with rejected insertions, Finish),
// Lookup, NumberOfWords and the node count of the built automaton (C12).
//
// Case:  a=<hex alphabet>,n=<probe length>,z=<0|1>,p=<hex>.<hex>...;tok tok tok
// Each token is the argument of one Add call in hex ("-" = the empty word).  Probes are all
// strings over the alphabet of length <= n (by length, then in alphabet order) followed by the
// extra probes p.  z=1 starts from the zero Builder (no Initialise call).
// Optional history of the Builder object before the Add sequence (the model ignores it: by the
// documentation of Initialise a re-initialised Builder is a fresh one): h=1 Initialise called
// again (twice); h=2 the words q are added, Finish, Initialise; h=3 the words q are added (no
// Finish), Initialise; h=4 as h=2 and the first Dawg is kept and must not change; h=5 a second
// Builder is alive at the same time and is fed the words q interleaved call by call.
// Every Add argument is handed over in caller-owned storage that is overwritten right after the
// call (one read buffer shared by all words when the number of tokens is even, a slice of exact
// size per word when it is odd); New gets copies that are overwritten before its result is read.
package main

import (
	"bytes"
	"encoding/hex"
	"fmt"
	"sort"
	"strconv"
	"strings"
	"time"

	"github.com/Tom-Johnston/mamba/dawg"
	"verifharness/hx"
)

func hexWord(w []byte) string {
	if len(w) == 0 {
		return "-"
	}
	return hex.EncodeToString(w)
}

func unhex(s string) []byte {
	if s == "-" || s == "" {
		return []byte{}
	}
	b, err := hex.DecodeString(s)
	if err != nil {
		panic("bad hex in case: " + s)
	}
	return b
}

type tcase struct {
	alpha  []byte
	plen   int
	zero   bool
	extra  [][]byte
	tokens [][]byte
	hist   int
	pre    [][]byte
}

func (c tcase) line() string {
	ex := make([]string, len(c.extra))
	for i, p := range c.extra {
		ex[i] = hexWord(p)
	}
	tk := make([]string, len(c.tokens))
	for i, w := range c.tokens {
		tk[i] = hexWord(w)
	}
	z := 0
	if c.zero {
		z = 1
	}
	h := ""
	if c.hist != 0 {
		q := make([]string, len(c.pre))
		for i, w := range c.pre {
			q[i] = hexWord(w)
		}
		h = fmt.Sprintf(",h=%d,q=%s", c.hist, strings.Join(q, "."))
	}
	return fmt.Sprintf("a=%s,n=%d,z=%d,p=%s%s;%s", hex.EncodeToString(c.alpha), c.plen, z, strings.Join(ex, "."), h, strings.Join(tk, " "))
}

func parse(line string) tcase {
	var c tcase
	parts := strings.SplitN(line, ";", 2)
	for _, kv := range strings.Split(parts[0], ",") {
		i := strings.IndexByte(kv, '=')
		if i < 0 {
			continue
		}
		k, v := kv[:i], kv[i+1:]
		switch k {
		case "a":
			c.alpha = unhex(v)
		case "n":
			c.plen, _ = strconv.Atoi(v)
		case "z":
			c.zero = v == "1"
		case "p":
			for _, p := range strings.Split(v, ".") {
				if p != "" {
					c.extra = append(c.extra, unhex(p))
				}
			}
		case "h":
			c.hist, _ = strconv.Atoi(v)
		case "q":
			for _, p := range strings.Split(v, ".") {
				if p != "" {
					c.pre = append(c.pre, unhex(p))
				}
			}
		}
	}
	if len(parts) > 1 {
		for _, t := range strings.Fields(parts[1]) {
			c.tokens = append(c.tokens, unhex(t))
		}
	}
	return c
}

func allProbes(alpha []byte, n int) [][]byte {
	level := [][]byte{{}}
	out := [][]byte{{}}
	for k := 1; k <= n; k++ {
		var next [][]byte
		for _, w := range level {
			for _, c := range alpha {
				next = append(next, append(append([]byte{}, w...), c))
			}
		}
		out = append(out, next...)
		level = next
	}
	return out
}

func dumpString(d *dawg.Dawg, withIDs bool) string {
	var sb strings.Builder
	for _, n := range d.VerifDump() {
		f := 0
		if n.Final {
			f = 1
		}
		kids := make([]string, len(n.Kids))
		for i := range n.Kids {
			if withIDs {
				kids[i] = strconv.FormatUint(n.Kids[i], 10)
			} else {
				kids[i] = strconv.Itoa(n.KidIdx[i])
			}
		}
		if withIDs {
			fmt.Fprintf(&sb, "%d:", n.ID)
		}
		fmt.Fprintf(&sb, "%d:%d:%s:%s|", n.NumWords, f, hexWord(n.Labels), strings.Join(kids, "."))
	}
	return sb.String()
}

// minimalSize counts the Myhill-Nerode classes of the prefixes of ws (the empty prefix always
// counted) by brute force: the residual language of a prefix as a joined string.
func minimalSize(ws [][]byte) (classes int, prefixes int) {
	pre := map[string]bool{"": true}
	for _, w := range ws {
		for i := 1; i <= len(w); i++ {
			pre[string(w[:i])] = true
		}
	}
	res := map[string]bool{}
	for p := range pre {
		var sb strings.Builder
		for _, w := range ws {
			if bytes.HasPrefix(w, []byte(p)) {
				sb.WriteString(hex.EncodeToString(w[len(p):]))
				sb.WriteByte('/')
			}
		}
		res[sb.String()] = true
	}
	return len(res), len(pre)
}

// minimalSizeTrie counts the same classes without enumerating residual languages: the trie of
// ws is merged bottom-up, two nodes being the same class when they agree on the final flag and
// on (label, class of the target) for every link -- written with fixed-width fields, so the
// key is unambiguous for every byte value and every class number.  Returns the number of
// classes and the number of trie nodes (= distinct prefixes, the empty one included).
func minimalSizeTrie(ws [][]byte) (classes int, prefixes int) {
	type tn struct {
		final  bool
		labels []byte
		kids   []int
	}
	nodes := []tn{{}}
	for _, w := range ws {
		cur := 0
		for _, b := range w {
			next := -1
			for i, l := range nodes[cur].labels {
				if l == b {
					next = nodes[cur].kids[i]
					break
				}
			}
			if next < 0 {
				next = len(nodes)
				nodes = append(nodes, tn{})
				nodes[cur].labels = append(nodes[cur].labels, b)
				nodes[cur].kids = append(nodes[cur].kids, next)
			}
			cur = next
		}
		nodes[cur].final = true
	}
	class := make([]int, len(nodes))
	seen := map[string]int{}
	for i := len(nodes) - 1; i >= 0; i-- { // children are created after their parents
		n := nodes[i]
		ord := make([]int, len(n.labels))
		for j := range ord {
			ord[j] = j
		}
		sort.Slice(ord, func(a, b int) bool { return n.labels[ord[a]] < n.labels[ord[b]] })
		key := make([]byte, 0, 1+9*len(ord))
		if n.final {
			key = append(key, 1)
		} else {
			key = append(key, 0)
		}
		for _, j := range ord {
			c := uint64(class[n.kids[j]])
			key = append(key, n.labels[j], byte(c>>56), byte(c>>48), byte(c>>40), byte(c>>32), byte(c>>24), byte(c>>16), byte(c>>8), byte(c))
		}
		k, ok := seen[string(key)]
		if !ok {
			k = len(seen)
			seen[string(key)] = k
		}
		class[i] = k
	}
	return len(seen), len(nodes)
}

// bruteForceCheap says whether minimalSize (prefixes x total letters) is affordable.
func bruteForceCheap(ws [][]byte) bool {
	total, pre := 0, 1
	for _, w := range ws {
		total += len(w) + 1
		pre += len(w)
	}
	return pre*total <= 4000000
}

// bigWords regenerates the word list of an oracle-only case (o=1,s=<seed>,t=<states>): random
// words of 6 or 7 bytes over all byte values, grown until the minimal automaton has t states, so
// that thousands of distinct tails are registered, plus twins that share a fresh tail and lie at
// the very beginning, in the middle and at the very end of the order (a state registered first
// recurs last).  The list is too long for a case line; the case names its seed and size.
func bigWords(seed uint64, t int) [][]byte {
	r := hx.NewRng(seed*1000003 + uint64(t))
	alpha := make([]byte, 256)
	for i := range alpha {
		alpha[i] = byte(i)
	}
	seen := map[string]bool{}
	var ws [][]byte
	for size := 0; size < t; {
		for k := 0; k < 150; k++ {
			w := randWordLen(r, alpha, 7-r.Intn(2))
			if !seen[string(w)] {
				seen[string(w)] = true
				ws = append(ws, w)
			}
		}
		ws = sortDedup(ws)
		size, _ = minimalSizeTrie(ws)
	}
	for k := 0; k < 3; k++ {
		tail := randWordLen(r, alpha, 5)
		for _, hb := range []byte{0x00, 0x80, 0xff} {
			ws = append(ws, cat([]byte{hb, byte(r.Intn(256))}, tail), cat([]byte{hb, hb, byte(r.Intn(256))}, tail))
		}
	}
	return sortDedup(ws)
}

// execBig judges a big automaton by the Go-side oracles only: word list, NumberOfWords, ranks,
// node count = Myhill-Nerode size (minimalSizeTrie) = nodes in the hook's dump.
func execBig(seed uint64, t int) hx.Result {
	ws := bigWords(seed, t)
	var viol []hx.OracleViolation
	cp := make([][]byte, len(ws))
	for i, w := range ws {
		cp[i] = append([]byte{}, w...)
	}
	d, err := dawg.New(cp)
	if err != nil || d == nil {
		return hx.Result{Obs: "oracle-only", Viol: []hx.OracleViolation{hx.Fail("C12:big-new-error", "New failed on %d increasing words: %v", len(ws), err)}}
	}
	mn, npre := minimalSizeTrie(ws)
	nodes := d.VerifNodeCount()
	if nodes != mn {
		viol = append(viol, hx.Fail("C12:not-minimal", "node count %d, minimal automaton has %d states (%d words)", nodes, mn, len(ws)))
	}
	if n := len(d.VerifDump()); n != nodes {
		viol = append(viol, hx.Fail("C12:node-count", "numberOfNodes %d but %d nodes reachable", nodes, n))
	}
	if d.NumberOfWords() != len(ws) {
		viol = append(viol, hx.Fail("C12:big-number-of-words", "NumberOfWords %d for %d words", d.NumberOfWords(), len(ws)))
	}
	words, ids := d.Search()
	ok := len(words) == len(ws)
	for i := 0; ok && i < len(ws); i++ {
		ok = bytes.Equal(words[i], ws[i]) && ids[i] == i
	}
	if !ok {
		viol = append(viol, hx.Fail("C12:big-words", "the automaton does not list exactly the %d words with their ranks", len(ws)))
	}
	step := len(ws)/500 + 1
	for i := 0; i < len(ws); i += step {
		if r, found := d.Lookup(ws[i]); !found || r != i {
			viol = append(viol, hx.Fail("C12:lookup", "Lookup(%x) = (%d,%v), expected (%d,true)", ws[i], r, found, i))
			break
		}
		x := append([]byte{}, ws[i]...)
		x[len(x)-1] ^= 0x01
		j := sort.Search(len(ws), func(k int) bool { return bytes.Compare(ws[k], x) >= 0 })
		member := j < len(ws) && bytes.Equal(ws[j], x)
		if r, found := d.Lookup(x); found != member || (found && r != j) {
			viol = append(viol, hx.Fail("C12:lookup", "Lookup(%x) = (%d,%v), expected (%d,%v)", x, r, found, j, member))
			break
		}
	}
	return hx.Result{Obs: "oracle-only", Nontrivial: nodes < npre, Viol: viol,
		Buckets: []string{fmt.Sprintf("words<=%d", bucket(len(ws))), fmt.Sprintf("nodes<=%d", bucket(nodes)), "oracle-only"}}
}

func exec(line string) hx.Result {
	if strings.HasPrefix(line, "o=1,") {
		var seed uint64
		var t int
		if _, err := fmt.Sscanf(line, "o=1,s=%d,t=%d;", &seed, &t); err != nil {
			panic("bad oracle-only case: " + line)
		}
		return execBig(seed, t)
	}
	c := parse(line)
	var viol []hx.OracleViolation
	db := new(dawg.Builder)
	if !c.zero {
		db.Initialise()
	}
	// the past of the Builder object
	var first *dawg.Dawg
	var firstDump string
	switch c.hist {
	case 1:
		db.Initialise()
		db.Initialise()
	case 2, 3, 4:
		for _, w := range c.pre {
			a := append([]byte{}, w...)
			db.Add(a)
			for i := range a {
				a[i] = 0xff
			}
		}
		if c.hist != 3 {
			f, err := db.Finish()
			if err != nil || f == nil {
				viol = append(viol, hx.Fail("C12:history-finish", "Finish of the first build failed: %v", err))
			} else if c.hist == 4 {
				first, firstDump = f, dumpString(f, true)
			}
		}
		db.Initialise()
	}
	// caller-owned storage of the Add arguments: overwritten after every call, accepted or not
	maxTok := 0
	for _, w := range append(append([][]byte{}, c.tokens...), c.pre...) {
		if len(w) > maxTok {
			maxTok = len(w)
		}
	}
	shared := make([]byte, maxTok+16)
	sharedMode := len(c.tokens)%2 == 0
	scribble := byte(0xff)
	hand := func(w []byte) []byte {
		if sharedMode {
			copy(shared, w)
			return shared[:len(w)]
		}
		a := make([]byte, len(w))
		copy(a, w)
		return a
	}
	spoil := func(a []byte) {
		a = a[:cap(a)]
		for i := range a {
			switch scribble % 3 {
			case 0:
				a[i] = 0
			case 1:
				a[i] = 0xff
			default:
				a[i] ^= 0x5a
			}
		}
		scribble++
	}
	// h=5: a second live Builder, fed call by call between the Adds of the first
	var db2 *dawg.Builder
	var kept2 [][]byte
	add2 := func(w []byte) {
		a := hand(w)
		err := db2.Add(a)
		spoil(a)
		above := len(kept2) == 0 || bytes.Compare(kept2[len(kept2)-1], w) < 0
		if (err == nil) != above {
			viol = append(viol, hx.Fail("C12:second-builder-accept", "the second live Builder answered %v to Add(%x) after %d accepted words", err, w, len(kept2)))
		}
		if err == nil {
			kept2 = append(kept2, w)
		}
	}
	if c.hist == 5 {
		db2 = new(dawg.Builder)
		if c.zero { // the other way round than the first Builder
			db2.Initialise()
		}
	}
	var acc strings.Builder
	var accepted [][]byte
	for k, w := range c.tokens {
		arg := hand(w)
		err := db.Add(arg)
		spoil(arg) // the builder must keep its own copies
		if err == nil {
			acc.WriteByte('1')
			accepted = append(accepted, w)
		} else {
			acc.WriteByte('0')
		}
		if db2 != nil && k < len(c.pre) {
			add2(c.pre[k])
		}
	}
	if db2 != nil {
		for k := len(c.tokens); k < len(c.pre); k++ {
			add2(c.pre[k])
		}
	}
	_, _, _, reg, lastID, _ := db.VerifBuilderState()
	d, err := db.Finish()
	if err != nil || d == nil {
		return hx.Result{Obs: "finish-error"}
	}
	dumpAtFinish := dumpString(d, true)
	if db2 != nil {
		e, err := db2.Finish()
		if err != nil || e == nil {
			viol = append(viol, hx.Fail("C12:second-builder-finish", "Finish of the second live Builder failed: %v", err))
		} else {
			ew, _ := e.Search()
			same := len(ew) == len(kept2)
			for i := 0; same && i < len(ew); i++ {
				same = bytes.Equal(ew[i], kept2[i])
			}
			mn2, _ := minimalSizeTrie(kept2)
			if !same || e.NumberOfWords() != len(kept2) || e.VerifNodeCount() != mn2 || len(e.VerifDump()) != mn2 {
				viol = append(viol, hx.Fail("C12:second-builder-result", "the second live Builder built %d words on %d nodes, expected the %d accepted words on %d nodes", len(ew), e.VerifNodeCount(), len(kept2), mn2))
			}
		}
	}
	// oracle: accepted words are strictly increasing (so the rejections were exactly the bad ones)
	for i := 1; i < len(accepted); i++ {
		if bytes.Compare(accepted[i-1], accepted[i]) >= 0 {
			viol = append(viol, hx.Fail("C12:accepted-out-of-order", "Add accepted %x after %x", accepted[i], accepted[i-1]))
		}
	}
	if first != nil && dumpString(first, true) != firstDump {
		viol = append(viol, hx.Fail("C12:history-first-dawg-changed", "the automaton of the first build changed while the re-initialised Builder built the second"))
	}
	words, ids := d.Search()
	ws := make([]string, len(words))
	for i, w := range words {
		ws[i] = hexWord(w)
	}
	nodes := d.VerifNodeCount()
	// Myhill-Nerode size: by enumeration of the residual languages where that is affordable,
	// by bottom-up merging of the trie always (long words, hundreds of words)
	mn, npre := minimalSizeTrie(accepted)
	if nodes != mn {
		viol = append(viol, hx.Fail("C12:not-minimal", "node count %d, minimal automaton has %d states", nodes, mn))
	}
	if bruteForceCheap(accepted) {
		if bn, _ := minimalSize(accepted); nodes != bn {
			viol = append(viol, hx.Fail("C12:not-minimal-enum", "node count %d, the prefixes have %d distinct residual languages", nodes, bn))
		}
	}
	if len(d.VerifDump()) != nodes {
		viol = append(viol, hx.Fail("C12:node-count", "numberOfNodes %d but %d nodes reachable", nodes, len(d.VerifDump())))
	}
	// oracle: numWords of every reachable node is the size of its right language
	dump := d.VerifDump()
	sizes := make([]int, len(dump))
	for i := range sizes {
		sizes[i] = -1
	}
	var langSize func(i int) int
	langSize = func(i int) int {
		if sizes[i] >= 0 {
			return sizes[i]
		}
		n := 0
		if dump[i].Final {
			n = 1
		}
		for _, k := range dump[i].KidIdx {
			n += langSize(k)
		}
		sizes[i] = n
		return n
	}
	for i, n := range dump {
		if n.NumWords != langSize(i) {
			viol = append(viol, hx.Fail("C12:numwords-node", "node %d (id %d): numWords %d, right language has %d words", i, n.ID, n.NumWords, langSize(i)))
			break
		}
		if langSize(i) == 0 {
			if i != 0 || len(dump) != 1 {
				viol = append(viol, hx.Fail("C12:dead-node", "node %d (id %d) accepts nothing", i, n.ID))
				break
			}
		}
	}
	// oracle: rejected additions do not change what is built
	cp := make([][]byte, len(accepted))
	for i, w := range accepted {
		cp[i] = append([]byte{}, w...)
	}
	d2, err2 := dawg.New(cp)
	for i := range cp { // the caller re-uses its word list
		for j := range cp[i] {
			cp[i][j] = 0xff
		}
		cp[i] = nil
	}
	if err2 != nil {
		viol = append(viol, hx.Fail("C12:new-error", "New on the accepted words failed: %v", err2))
	} else if dumpString(d2, true) != dumpString(d, true) {
		viol = append(viol, hx.Fail("C12:rejected-add-changed-result", "automaton differs from New(accepted words)"))
	}
	// New on the whole argument list, bad insertions included: an error exactly when the list is
	// not strictly increasing (the Dawg returned next to an error is not defined, not looked at)
	tk := make([][]byte, len(c.tokens))
	for i, w := range c.tokens {
		tk[i] = append([]byte{}, w...)
	}
	dn, errN := dawg.New(tk)
	increasing := true
	for i := 1; i < len(c.tokens); i++ {
		if bytes.Compare(c.tokens[i-1], c.tokens[i]) >= 0 {
			increasing = false
		}
	}
	newObs := "ok"
	if errN != nil {
		newObs = "err"
	}
	if (errN == nil) != increasing {
		viol = append(viol, hx.Fail("C12:new-accepts-bad-list", "New returned error %v on a list of %d words that is strictly increasing: %v", errN, len(c.tokens), increasing))
	} else if errN == nil && (dn == nil || dumpString(dn, true) != dumpAtFinish) {
		viol = append(viol, hx.Fail("C12:new-differs", "New on the (valid) argument list built another automaton than the Builder"))
	}
	probes := append(allProbes(c.alpha, c.plen), c.extra...)
	nwBefore := d.NumberOfWords()
	lk := make([]string, len(probes))
	type lres struct {
		r  int
		ok bool
	}
	firstPass := make([]lres, len(probes))
	for i, p := range probes {
		r, ok := d.Lookup(p)
		firstPass[i] = lres{r, ok}
		// oracle: rank in the sorted accepted list
		j := sort.Search(len(accepted), func(k int) bool { return bytes.Compare(accepted[k], p) >= 0 })
		member := j < len(accepted) && bytes.Equal(accepted[j], p)
		if ok != member || (ok && r != j) {
			viol = append(viol, hx.Fail("C12:lookup", "Lookup(%x) = (%d,%v), expected (%d,%v)", p, r, ok, j, member))
		}
		if ok {
			lk[i] = strconv.Itoa(r)
		} else {
			lk[i] = "-"
		}
	}
	// observers called again, in the opposite order: same answers, automaton untouched
	for i := len(probes) - 1; i >= 0; i-- {
		pc := append([]byte{}, probes[i]...)
		r, ok := d.Lookup(pc)
		if ok != firstPass[i].ok || (ok && r != firstPass[i].r) {
			viol = append(viol, hx.Fail("C12:lookup-unstable", "Lookup(%x) = (%d,%v) the second time, (%d,%v) the first", probes[i], r, ok, firstPass[i].r, firstPass[i].ok))
			break
		}
		if !bytes.Equal(pc, probes[i]) {
			viol = append(viol, hx.Fail("C12:lookup-writes-argument", "Lookup changed its argument %x", probes[i]))
			break
		}
	}
	if d.NumberOfWords() != nwBefore {
		viol = append(viol, hx.Fail("C12:numberofwords-unstable", "NumberOfWords %d before the lookups, %d after", nwBefore, d.NumberOfWords()))
	}
	if dumpString(d, true) != dumpAtFinish {
		viol = append(viol, hx.Fail("C12:dawg-changed-later", "the automaton changed after Finish (New, Lookup, Search, NumberOfWords on it or on other automata)"))
	}
	if first != nil && dumpString(first, true) != firstDump {
		viol = append(viol, hx.Fail("C12:history-first-dawg-changed", "the automaton of the first build changed later"))
	}
	obs := fmt.Sprintf("acc=%s new=%s words=%s ranks=%s nw=%d nodes=%d lk=%s ## reg=%s lastid=%d dump=%s",
		acc.String(), newObs, strings.Join(ws, ","), hx.Ints(ids), d.NumberOfWords(), nodes, strings.Join(lk, ","),
		joinU64(reg), lastID, dumpString(d, true))
	properPrefix := false
	for i := 1; i < len(accepted) && !properPrefix; i++ {
		properPrefix = bytes.HasPrefix(accepted[i], accepted[i-1])
	}
	maxBranch := 0
	for _, n := range d.VerifDump() {
		if len(n.Labels) > maxBranch {
			maxBranch = len(n.Labels)
		}
	}
	rej := len(c.tokens) - len(accepted)
	depth := 0
	for _, w := range accepted {
		if len(w) > depth {
			depth = len(w)
		}
	}
	return hx.Result{Obs: obs, Nontrivial: nodes < npre || properPrefix, Viol: viol,
		Buckets: []string{fmt.Sprintf("words<=%d", bucket(len(accepted))), fmt.Sprintf("alphabet<=%d", bucket(alphabetSize(accepted))),
			fmt.Sprintf("branch<=%d", bucket(maxBranch)), fmt.Sprintf("rejected<=%d", bucket(rej)), fmt.Sprintf("depth<=%d", bucket(depth)), fmt.Sprintf("nodes<=%d", bucket(nodes)), fmt.Sprintf("history=%d", c.hist)}}
}

func joinU64(a []uint64) string {
	s := make([]string, len(a))
	for i, v := range a {
		s[i] = strconv.FormatUint(v, 10)
	}
	return strings.Join(s, ".")
}

func alphabetSize(ws [][]byte) int {
	var seen [256]bool
	n := 0
	for _, w := range ws {
		for _, b := range w {
			if !seen[b] {
				seen[b] = true
				n++
			}
		}
	}
	return n
}

func bucket(n int) int {
	if n == 0 {
		return 0
	}
	b := 1
	for b < n {
		b *= 2
	}
	return b
}

// ---------------------------------------------------------------- generation

func sortDedup(ws [][]byte) [][]byte {
	sort.Slice(ws, func(i, j int) bool { return bytes.Compare(ws[i], ws[j]) < 0 })
	out := ws[:0]
	for i, w := range ws {
		if i == 0 || !bytes.Equal(w, ws[i-1]) {
			out = append(out, w)
		}
	}
	return out
}

func randWord(r *hx.Rng, alpha []byte, maxLen int) []byte {
	n := r.Intn(maxLen + 1)
	w := make([]byte, n)
	for i := range w {
		w[i] = alpha[r.Intn(len(alpha))]
	}
	return w
}

func randAlphabet(r *hx.Rng) []byte {
	switch r.Intn(6) {
	case 0:
		return []byte("a")
	case 1:
		return []byte("ab")
	case 2:
		return []byte("abc")
	case 3:
		return []byte("abcd")
	case 4: // bytes at the edges of the range
		return []byte{0x00, 0x01, 0x7f, 0x80, 0xfe, 0xff}[:r.Range(2, 6)]
	default: // a random subset of all bytes
		k := r.Range(2, 40)
		p := r.Perm(256)[:k]
		sort.Ints(p)
		a := make([]byte, k)
		for i, v := range p {
			a[i] = byte(v)
		}
		return a
	}
}

// wordSet builds a set with the shapes the property names.
func wordSet(r *hx.Rng, alpha []byte) [][]byte {
	var ws [][]byte
	switch r.Intn(6) {
	case 0: // independent random words
		n := r.Range(0, 12)
		for i := 0; i < n; i++ {
			ws = append(ws, randWord(r, alpha, 5))
		}
	case 1: // prefixes x suffixes: heavy sharing at both ends
		np, ns := r.Range(1, 4), r.Range(1, 4)
		var pre, suf [][]byte
		for i := 0; i < np; i++ {
			pre = append(pre, randWord(r, alpha, 3))
		}
		for i := 0; i < ns; i++ {
			suf = append(suf, randWord(r, alpha, 3))
		}
		for _, p := range pre {
			for _, s := range suf {
				if r.Chance(5, 6) {
					ws = append(ws, append(append([]byte{}, p...), s...))
				}
			}
		}
	case 2: // a few words and many of their prefixes
		n := r.Range(1, 4)
		for i := 0; i < n; i++ {
			w := randWord(r, alpha, 7)
			for k := 0; k <= len(w); k++ {
				if r.Chance(1, 2) {
					ws = append(ws, append([]byte{}, w[:k]...))
				}
			}
			ws = append(ws, w)
		}
	case 3: // dense: most short words
		maxLen := 3
		if len(alpha) > 4 {
			maxLen = 2
		}
		if len(alpha) > 16 {
			maxLen = 1
		}
		for _, w := range allProbes(alpha, maxLen) {
			if r.Chance(3, 5) {
				ws = append(ws, w)
			}
		}
	case 4: // common stem, then branches with common endings
		stem := randWord(r, alpha, 4)
		ends := [][]byte{randWord(r, alpha, 2), randWord(r, alpha, 2)}
		n := r.Range(1, 8)
		for i := 0; i < n; i++ {
			w := append(append([]byte{}, stem...), randWord(r, alpha, 3)...)
			w = append(w, ends[r.Intn(2)]...)
			ws = append(ws, w)
		}
	default: // tiny
		n := r.Range(0, 3)
		for i := 0; i < n; i++ {
			ws = append(ws, randWord(r, alpha, 2))
		}
	}
	if r.Chance(1, 5) {
		ws = append(ws, []byte{})
	}
	return sortDedup(ws)
}

// withBadAdds interleaves out-of-order and duplicate insertions into the sorted list.
func withBadAdds(r *hx.Rng, ws [][]byte, alpha []byte) [][]byte {
	var toks [][]byte
	for i, w := range ws {
		toks = append(toks, w)
		for r.Chance(1, 4) {
			switch r.Intn(4) {
			case 0: // the same word again
				toks = append(toks, w)
			case 1: // an earlier word
				toks = append(toks, ws[r.Intn(i+1)])
			case 2: // a proper prefix of the last word (smaller), possibly empty
				toks = append(toks, append([]byte{}, w[:r.Intn(len(w)+1)]...))
			default: // a random word, kept only if it is not larger than the last one
				x := randWord(r, alpha, 4)
				if bytes.Compare(x, w) <= 0 {
					toks = append(toks, x)
				}
			}
		}
	}
	return toks
}

func extraProbes(r *hx.Rng, ws [][]byte, alpha []byte) [][]byte {
	var ps [][]byte
	for _, w := range ws {
		if len(ps) > 60 {
			break
		}
		ps = append(ps, w)
		ps = append(ps, append(append([]byte{}, w...), alpha[r.Intn(len(alpha))]))
		if len(w) > 0 {
			ps = append(ps, append([]byte{}, w[:len(w)-1]...))
			x := append([]byte{}, w...)
			x[r.Intn(len(x))] = alpha[r.Intn(len(alpha))]
			ps = append(ps, x)
			y := append([]byte{}, w...)
			y[r.Intn(len(y))] = byte(r.Intn(256))
			ps = append(ps, y)
		}
	}
	for i := 0; i < 4; i++ {
		ps = append(ps, randWord(r, alpha, 6))
	}
	return ps
}

func probeAlphabet(alpha []byte) ([]byte, int) {
	if len(alpha) <= 2 {
		return alpha, 4
	}
	if len(alpha) <= 4 {
		return alpha, 3
	}
	return alpha[:4], 2
}

func gen(g *hx.Gen) {
	r := g.Rng
	emit := func(c tcase) { g.Emit(c.line()) }
	ab := []byte("ab")
	// corpus: inputs that failed on the pinned tree (see KNOWN_FINDINGS.txt, fixed) and the
	// non-vacuity example of Props/C12.v
	emit(tcase{alpha: ab, plen: 2, tokens: nil})
	emit(tcase{alpha: ab, plen: 2, zero: true, tokens: nil})
	emit(tcase{alpha: ab, plen: 2, tokens: [][]byte{{}}})
	emit(tcase{alpha: ab, plen: 2, zero: true, tokens: [][]byte{{}, {}}})
	emit(tcase{alpha: ab, plen: 2, tokens: [][]byte{{}, {}, []byte("a"), {}}})
	emit(tcase{alpha: []byte("abcd"), plen: 3, tokens: [][]byte{[]byte("ab"), []byte("a"), []byte("ac"), {}, []byte("ad"), []byte("ad"), []byte("b")}})
	var tw [][]byte
	for _, s := range []string{"abject", "abjection", "abjections", "abjectly", "abjectness", "ablate", "ablated", "ablation", "ablations"} {
		tw = append(tw, []byte(s))
	}
	emit(tcase{alpha: []byte("abl"), plen: 3, tokens: tw, extra: [][]byte{[]byte("ab"), []byte("hello"), []byte("abjection"), []byte("ablations")}})
	// Builders with a past: every history kind x small first lives x small second lists
	lists := [][][]byte{{}, {{}}, {{}, []byte("a")}, {[]byte("a")}, {[]byte("a"), []byte("b")}, {[]byte("b")}, {[]byte("a"), {}}}
	for h := 1; h <= 5; h++ {
		for _, pre := range lists {
			if h == 1 && len(pre) > 0 {
				continue
			}
			for _, toks := range lists {
				for z := 0; z < 2; z++ {
					emit(tcase{alpha: ab, plen: 2, zero: z == 1, hist: h, pre: pre, tokens: toks})
				}
			}
		}
	}
	g.Exhaustive("Builder histories (Initialise twice; build + Finish + Initialise; Adds + Initialise; the same keeping the first Dawg; a second Builder alive and fed call by call) x 7 first lives x 7 Add sequences over {\"\", a, b} x zero/initialised Builder")
	// invalid lists (for New and for the Builder): one defect -- duplicate, two neighbours swapped,
	// the empty word not first, a word followed by its proper prefix, a smaller word from far
	// back -- at the first, a middle and the last pair of lists of 2, 3, 4, 17, 64, 65 words
	for _, n := range []int{2, 3, 4, 17, 64, 65} {
		for rep := g.Pick(1, 6); rep > 0; rep-- {
			alpha := [][]byte{ab, []byte("abc"), {0x00, 0xff}, []byte("019")}[r.Intn(4)]
			base := manyWords(r, alpha, n)
			for len(base) < n || len(base[0]) == 0 {
				base = manyWords(r, alpha, n+1)
				if len(base) > 0 && len(base[0]) == 0 {
					base = base[1:]
				}
			}
			base = base[:n]
			for _, at := range []int{1, n / 2, n - 1} { // the defect is the pair (at-1, at)
				if at < 1 {
					at = 1
				}
				for kind := 0; kind < 5; kind++ {
					l := make([][]byte, n)
					copy(l, base)
					switch kind {
					case 0:
						l[at] = l[at-1]
					case 1:
						l[at-1], l[at] = l[at], l[at-1]
					case 2:
						l[at] = []byte{}
					case 3: // w.x then w
						l[at-1] = cat(base[at], alpha[:1])
						if at >= 2 && bytes.Compare(l[at-2], l[at-1]) >= 0 {
							continue // would add a second defect
						}
					default:
						l[at] = base[0]
						if at == 1 {
							l[at] = base[0][:len(base[0])-1]
						}
					}
					emit(tcase{alpha: ab, plen: 1, zero: r.Chance(1, 3), tokens: l, extra: [][]byte{base[at], base[at-1], base[n-1]}})
				}
			}
		}
	}
	// exhaustive: every subset of the 15 words of length <= 3 over {a,b}
	all := sortDedup(allProbes(ab, 3))
	subset := func(mask int) [][]byte {
		var ws [][]byte
		for i, w := range all {
			if mask>>uint(i)&1 == 1 {
				ws = append(ws, w)
			}
		}
		return ws
	}
	if g.Thorough() {
		for mask := 0; mask < 1<<uint(len(all)); mask++ {
			emit(tcase{alpha: ab, plen: 4, tokens: subset(mask)})
		}
		g.Exhaustive("every subset of the 15 words of length <= 3 over {a,b} (32768 sets), probes: all strings of length <= 4")
	} else {
		// all subsets of the 7 words of length <= 2, and a sample of the larger space
		short := sortDedup(allProbes(ab, 2))
		for mask := 0; mask < 1<<uint(len(short)); mask++ {
			var ws [][]byte
			for i, w := range short {
				if mask>>uint(i)&1 == 1 {
					ws = append(ws, w)
				}
			}
			emit(tcase{alpha: ab, plen: 3, tokens: ws})
		}
		g.Exhaustive("every subset of the 7 words of length <= 2 over {a,b} (128 sets), probes: all strings of length <= 3")
		for i := 0; i < 1500; i++ {
			emit(tcase{alpha: ab, plen: 4, tokens: subset(r.Intn(1 << uint(len(all))))})
		}
	}
	// structured random sets, with rejected additions interleaved
	count := g.Pick(5000, 120000)
	for i := 0; i < count; i++ {
		alpha := randAlphabet(r)
		ws := wordSet(r, alpha)
		toks := ws
		if r.Chance(1, 2) {
			toks = withBadAdds(r, ws, alpha)
		}
		pa, pn := probeAlphabet(alpha)
		c := tcase{alpha: pa, plen: pn, zero: r.Chance(1, 3), extra: extraProbes(r, ws, alpha), tokens: toks}
		if r.Chance(1, 4) {
			c = withHistory(r, c, ws, alpha)
		}
		emit(c)
	}
	// wide branching over the full byte alphabet and larger sets
	big := g.Pick(40, 600)
	for i := 0; i < big; i++ {
		var ws [][]byte
		switch r.Intn(3) {
		case 0: // root (or an inner node) with up to 256 links
			k := []int{127, 128, 200, 255, 256}[r.Intn(5)]
			p := r.Perm(256)[:k]
			stem := randWord(r, []byte("xy"), 2)
			for _, v := range p {
				w := append(append([]byte{}, stem...), byte(v))
				if r.Chance(1, 3) {
					w = append(w, byte(r.Intn(3)))
				}
				ws = append(ws, w)
			}
		case 1: // a few hundred words over 3 letters
			n := r.Range(100, 400)
			for j := 0; j < n; j++ {
				ws = append(ws, randWord(r, []byte("abc"), 8))
			}
		default: // long words with long common suffixes
			suf := randWord(r, []byte("ab"), 40)
			n := r.Range(2, 30)
			for j := 0; j < n; j++ {
				ws = append(ws, append(randWord(r, []byte("abcde"), 6), suf...))
			}
		}
		ws = sortDedup(ws)
		toks := ws
		if r.Chance(1, 3) {
			toks = withBadAdds(r, ws, []byte("abc"))
		}
		emit(tcase{alpha: []byte("ab"), plen: 2, zero: r.Chance(1, 3), extra: extraProbes(r, ws, []byte{0, 'a', 'x', 0xff}), tokens: toks})
	}
	genRound3(g, emit)
	// oracle-only: automata of 5000, 9000 (thorough: 17000) states (register across 4096, 8192, 16384 entries);
	// the extracted minimal_size is quadratic, the model side prints a constant for these
	for i := g.Pick(1, 4); i > 0; i-- {
		sizes := []int{5000, 9000, 17000}
		if !g.Thorough() {
			sizes = sizes[:2] // the library's own register scan is quadratic: 17000 states cost 3.5 s
		}
		for _, t := range sizes {
			g.Emit(fmt.Sprintf("o=1,s=%d,t=%d;", r.Intn(1000000), t+r.Intn(200)))
		}
	}
}

// ---------------------------------------------------------------- round 3: byte range, counters, depth, width

// sizes just below, at and above the powers of two (and a few in between) at which fixed
// buffers, small integer types and decimal field widths change
var countSteps = []int{30, 36, 50, 64, 99, 100, 101, 127, 128, 129, 200, 255, 256, 257, 300}
var depthSteps = []int{15, 16, 17, 31, 32, 33, 63, 64, 65, 66, 100, 127, 128, 129, 255, 256, 257, 300, 400}
var widthSteps = []int{8, 9, 10, 15, 16, 17, 31, 32, 33, 63, 64, 65, 127, 128, 129, 200, 255, 256}

func pickBytes(r *hx.Rng, from []byte, lo, hi int) []byte {
	if hi > len(from) {
		hi = len(from)
	}
	if lo > hi {
		lo = hi
	}
	k := r.Range(lo, hi)
	p := r.Perm(len(from))[:k]
	sort.Ints(p)
	a := make([]byte, k)
	for i, v := range p {
		a[i] = from[v]
	}
	return a
}

func mergeBytes(as ...[]byte) []byte {
	var seen [256]bool
	var out []byte
	for _, a := range as {
		for _, b := range a {
			if !seen[b] {
				seen[b] = true
				out = append(out, b)
			}
		}
	}
	sort.Slice(out, func(i, j int) bool { return out[i] < out[j] })
	return out
}

// byteAlphabet draws letters from the whole byte range: digits, punctuation and bytes that
// look like field separators or terminators, NUL, 0xff, the sign boundary 0x7f/0x80, blanks.
func byteAlphabet(r *hx.Rng) []byte {
	digits := []byte("0123456789")
	seps := []byte(",.:;|/-+_ #=\\\"'()[]{}<>%&*!?@^~`$")
	ctrl := []byte{0x00, 0x01, 0x09, 0x0a, 0x0d, 0x1b, 0x20, 0x7f, 0x80, 0xfe, 0xff}
	switch r.Intn(11) {
	case 10: // bytes congruent modulo 32, 64 or 128 (and the same letter in both cases)
		m := []int{32, 64, 128}[r.Intn(3)]
		base := r.Intn(m)
		var a []byte
		for v := base; v < 256; v += m {
			a = append(a, byte(v))
		}
		a = pickBytes(r, a, 2, 5)
		return mergeBytes(a, pickBytes(r, []byte("aAzZ0"), 0, 2))
	case 0:
		return []byte("123")
	case 1:
		return digits
	case 2:
		return pickBytes(r, digits, 2, 6)
	case 3: // digits with separators
		return mergeBytes(pickBytes(r, digits, 2, 4), pickBytes(r, seps, 1, 3))
	case 4: // separators / punctuation only
		return pickBytes(r, seps, 2, 6)
	case 5: // NUL, 0xff and their neighbours
		return mergeBytes([]byte{0x00, 0xff}, pickBytes(r, ctrl, 0, 3))
	case 6: // NUL next to the digit '0', 0xff, a separator
		return mergeBytes([]byte{0x00, '0'}, pickBytes(r, []byte{'1', 0xff, ',', ' ', 0x0a}, 1, 3))
	case 7: // letters with digits
		return mergeBytes(pickBytes(r, []byte("abcxyzAZ"), 1, 3), pickBytes(r, digits, 1, 3))
	case 8: // blanks and control bytes
		return pickBytes(r, ctrl, 2, 6)
	default: // any bytes
		k := r.Range(2, 12)
		p := r.Perm(256)[:k]
		sort.Ints(p)
		a := make([]byte, k)
		for i, v := range p {
			a[i] = byte(v)
		}
		return a
	}
}

func randWordLen(r *hx.Rng, alpha []byte, n int) []byte {
	w := make([]byte, n)
	for i := range w {
		w[i] = alpha[r.Intn(len(alpha))]
	}
	return w
}

func cat(parts ...[]byte) []byte {
	var w []byte
	for _, p := range parts {
		w = append(w, p...)
	}
	if w == nil {
		w = []byte{}
	}
	return w
}

// manyWords builds about n distinct words (so that node ids, numWords and ranks reach two and
// three decimal digits and pass 127 and 255) with many nodes of the same label set.
func manyWords(r *hx.Rng, alpha []byte, n int) [][]byte {
	k := len(alpha)
	need := func(target int) int { // smallest m with k^m >= target (k >= 2)
		m, c := 1, k
		for c < target {
			c *= k
			m++
		}
		return m
	}
	set := map[string]bool{}
	var ws [][]byte
	add := func(w []byte) {
		if !set[string(w)] {
			set[string(w)] = true
			ws = append(ws, w)
		}
	}
	switch r.Intn(5) {
	case 0: // independent words of mixed length
		maxLen := need(4*n) + r.Intn(3)
		for tries := 0; len(ws) < n && tries < 20*n; tries++ {
			add(randWordLen(r, alpha, r.Range(1, maxLen)))
		}
	case 1: // numerals: consecutive numbers written with the alphabet as digits, some left out
		v := r.Intn(60)
		for len(ws) < n {
			if r.Chance(3, 4) {
				var w []byte
				for x := v; ; x /= k {
					w = append([]byte{alpha[x%k]}, w...)
					if x < k {
						break
					}
				}
				add(w)
			}
			v++
		}
	case 2: // all of one length: a layered automaton
		m := need(2 * n)
		for tries := 0; len(ws) < n && tries < 20*n; tries++ {
			add(randWordLen(r, alpha, m))
		}
	case 3: // heads x tails
		nt := r.Range(3, 10)
		var tails [][]byte
		for i := 0; i < nt; i++ {
			tails = append(tails, randWordLen(r, alpha, r.Range(1, 5)))
		}
		hl := need(2*n/nt + 2)
		for tries := 0; len(ws) < n && tries < 20*n; tries++ {
			h := randWordLen(r, alpha, r.Range(1, hl+1))
			for _, t := range tails {
				if r.Chance(4, 5) {
					add(cat(h, t))
				}
			}
		}
	default: // a few long stems with every extension by short words
		for len(ws) < n {
			stem := randWordLen(r, alpha, r.Range(0, 6))
			m := r.Range(4, 40)
			for j := 0; j < m; j++ {
				add(cat(stem, randWordLen(r, alpha, r.Range(0, 4))))
			}
		}
	}
	if len(ws) > n {
		ws = ws[:n]
	}
	return sortDedup(ws)
}

// longWords builds a small set of words of length about L that share long prefixes and long
// tails, so that the branch closed by replaceOrRegister, the path walked by commonPrefix,
// addSuffix and Lookup, and the chain minimised at Finish are all about L nodes deep.
func longWords(r *hx.Rng, alpha []byte, L int) [][]byte {
	small := L <= 130
	tail := randWordLen(r, alpha, L)
	if r.Chance(1, 4) { // one repeated letter
		for i := range tail {
			tail[i] = alpha[0]
		}
	}
	heads := func(k int) [][]byte { // k distinct non-empty heads
		hs := map[string]bool{}
		var out [][]byte
		for len(out) < k {
			h := randWordLen(r, alpha, r.Range(1, 3))
			h = append(h, byte(len(out))) // distinct whatever the alphabet
			if !hs[string(h)] {
				hs[string(h)] = true
				out = append(out, h)
			}
		}
		return out
	}
	var ws [][]byte
	switch r.Intn(6) {
	case 0: // k heads, one tail: the tail must be shared
		k := r.Range(2, 3)
		if small {
			k = r.Range(2, 12)
		}
		for _, h := range heads(k) {
			ws = append(ws, cat(h, tail))
		}
	case 1: // long common prefix, distinct middles, long common tail
		pre := randWordLen(r, alpha, []int{1, 15, 17, 33, 63, 65}[r.Intn(6)])
		for _, h := range heads(r.Range(2, 4)) {
			ws = append(ws, cat(pre, h, tail))
		}
	case 2: // the same final positions along the tail under every head
		var cuts []int
		for j := 0; j <= L; j++ {
			if j == L || r.Chance(1, 12) {
				cuts = append(cuts, j)
			}
		}
		if !small && len(cuts) > 6 {
			cuts = cuts[len(cuts)-6:]
		}
		for _, h := range heads(r.Range(2, 3)) {
			for _, j := range cuts {
				ws = append(ws, cat(h, tail[:j]))
			}
		}
	case 3: // tails equal but for one position: early (shared below it) or at the very end
		hs := heads(3)
		t2 := append([]byte{}, tail...)
		pos := []int{0, 1, L / 2, L - 2, L - 1}[r.Intn(5)]
		if pos < 0 {
			pos = 0
		}
		t2[pos] ^= 0x55
		ws = append(ws, cat(hs[0], tail), cat(hs[1], t2), cat(hs[2], tail))
	case 4: // two tails of different lengths around L, several heads each
		tl := [][]byte{tail, tail[1:], cat(tail, alpha[:1])}
		k := r.Range(2, 4)
		for i, h := range heads(k) {
			ws = append(ws, cat(h, tl[i%3]))
		}
		ws = append(ws, tail)
	default: // a comb: words forking off one long word at many depths, all ending alike
		end := randWordLen(r, alpha, r.Range(1, 3))
		end = append(end, 0xff)
		ws = append(ws, tail)
		step := r.Range(5, 20)
		if !small {
			step = L / r.Range(3, 6)
		}
		for j := L - 1; j > 0; j -= step {
			ws = append(ws, cat(tail[:j], []byte{tail[j] ^ 0x01}, end))
		}
	}
	return sortDedup(ws)
}

// wideWords builds nodes with k links (labels drawn from all bytes): several of them with the
// same links (must be merged) and one that differs in a single target or a single label.
func wideWords(r *hx.Rng, k int) [][]byte {
	labels := make([]byte, k)
	p := r.Perm(256)
	for i := range labels {
		labels[i] = byte(p[i])
	}
	tails := [][]byte{{}, {byte(r.Intn(256))}, {byte(r.Intn(256)), byte(r.Intn(256))}}
	nt := r.Range(1, 3)
	var ws [][]byte
	switch r.Intn(6) {
	case 0: // the root itself
		for _, l := range labels {
			ws = append(ws, cat([]byte{l}, tails[r.Intn(nt)]))
		}
	case 1: // below a stem, some labels also final
		stem := randWordLen(r, []byte{'0', ',', 0x00, 0xff}, r.Range(1, 3))
		for _, l := range labels {
			ws = append(ws, cat(stem, []byte{l}, tails[r.Intn(nt)]))
		}
		ws = append(ws, stem)
	default: // two heads over the same wide node, up to three more over near copies that differ
		// in one target or one label: at the last link, just past a power of two, anywhere
		sort.Slice(labels, func(a, b int) bool { return labels[a] < labels[b] })
		used := map[byte]bool{}
		for _, l := range labels {
			used[l] = true
		}
		tl := make([][]byte, k)
		for i := range tl {
			tl[i] = tails[r.Intn(nt)]
		}
		heads := [][]byte{{'1'}, {0x00}, {'2', '0'}, {0xff, ','}, {'3', 0xff}}
		for _, h := range heads[:2] {
			for i, l := range labels {
				ws = append(ws, cat(h, []byte{l}, tl[i]))
			}
		}
		p2 := 1
		for p2*2 <= k-1 {
			p2 *= 2
		}
		where := []int{k - 1, p2, r.Intn(k)}
		otherLabel := []bool{r.Bool(), r.Bool(), r.Bool()}
		for c := 0; c < 3; c++ {
			if c > 0 && r.Bool() {
				continue
			}
			odd := where[c]
			for i, l := range labels {
				t := tl[i]
				if i == odd {
					// a free label that keeps the position in the label order, if there is one
					lo, hi := 0, 255
					if i > 0 {
						lo = int(labels[i-1]) + 1
					}
					if i+1 < k {
						hi = int(labels[i+1]) - 1
					}
					var free []byte
					for v := lo; v <= hi; v++ {
						if !used[byte(v)] {
							free = append(free, byte(v))
						}
					}
					if otherLabel[c] && len(free) > 0 {
						l = free[r.Intn(len(free))]
					} else {
						t = cat(t, []byte{'9'}) // another target under the same label
					}
				}
				ws = append(ws, cat(heads[2+c], []byte{l}, t))
			}
		}
	}
	return sortDedup(ws)
}

// gridWords builds a pool of K distinct short tails and one node for (almost) every
// combination of targets from the pool under one fixed label set: head.l1.tail_i, head.l2.tail_j
// (and head.l3.tail_k).  All these nodes agree on the final flag and on their labels and differ
// only in which pool nodes they point to, so the register has to keep a hundred and more nodes
// apart by target identity alone while the ids run through one, two and three decimal digits.
func gridWords(r *hx.Rng, alpha []byte, K, nl, maxWords int) [][]byte {
	k := len(alpha)
	need := func(target int) int {
		m, c := 1, k
		for c < target {
			c *= k
			m++
		}
		return m
	}
	if nl > k {
		nl = k
	}
	lp := r.Perm(k)[:nl]
	sort.Ints(lp)
	labels := make([]byte, nl)
	for i, v := range lp {
		labels[i] = alpha[v]
	}
	var tails [][]byte
	if r.Chance(1, 4) { // the endings of one word: consecutive ids
		t := randWordLen(r, alpha, K-1)
		for i := 0; i < K; i++ {
			tails = append(tails, t[i:])
		}
	} else {
		tl := need(2*K) + r.Intn(2)
		seen := map[string]bool{}
		for len(tails) < K {
			t := randWordLen(r, alpha, r.Range(0, tl))
			if !seen[string(t)] {
				seen[string(t)] = true
				tails = append(tails, t)
			}
		}
	}
	total := 1
	for i := 0; i < nl; i++ {
		total *= K
	}
	M := maxWords / nl
	var combos [][]int
	if total <= M { // the full grid
		M = total
		for c := 0; c < total; c++ {
			cb := make([]int, nl)
			for i, x := 0, c; i < nl; i, x = i+1, x/K {
				cb[i] = x % K
			}
			combos = append(combos, cb)
		}
		for i := len(combos) - 1; i > 0; i-- {
			j := r.Intn(i + 1)
			combos[i], combos[j] = combos[j], combos[i]
		}
	} else {
		seen := map[string]bool{}
		for len(combos) < M {
			cb := make([]int, nl)
			for i := range cb {
				cb[i] = r.Intn(K)
			}
			if key := fmt.Sprint(cb); !seen[key] {
				seen[key] = true
				combos = append(combos, cb)
			}
		}
	}
	hl := need(M)
	varHeads := r.Chance(1, 3)
	hseen := map[string]bool{}
	var heads [][]byte
	for len(heads) < M {
		n := hl
		if varHeads {
			n = r.Range(1, hl+1)
		}
		h := randWordLen(r, alpha, n)
		if !hseen[string(h)] {
			hseen[string(h)] = true
			heads = append(heads, h)
		}
	}
	heads = sortDedup(heads)
	var ws [][]byte
	for i, h := range heads {
		for j, l := range labels {
			ws = append(ws, cat(h, []byte{l}, tails[combos[i][j]]))
		}
	}
	return sortDedup(ws)
}

// withHistory gives the case a Builder with a past: the words of an earlier (complete or
// abandoned) build chosen relative to the new list -- its own words, its first or last word,
// the empty word, a word above everything, an unrelated set.
func withHistory(r *hx.Rng, c tcase, ws [][]byte, alpha []byte) tcase {
	c.hist = []int{1, 2, 2, 3, 3, 4, 4, 5, 5}[r.Intn(9)]
	if c.hist == 1 {
		return c
	}
	switch r.Intn(7) {
	case 0:
		c.pre = [][]byte{{}}
	case 1:
		c.pre = [][]byte{{0xff, 0xff, 0xff, 0xff, 0xff, 0xff, 0xff, 0xff}}
	case 2:
		if len(ws) > 0 {
			c.pre = [][]byte{ws[len(ws)-1]}
		} else {
			c.pre = [][]byte{alpha[:1]}
		}
	case 3:
		if len(ws) > 0 {
			c.pre = [][]byte{ws[0]}
		} else {
			c.pre = [][]byte{{}, alpha[:1]}
		}
	case 4:
		c.pre = ws
		if len(c.pre) > 40 {
			c.pre = c.pre[len(c.pre)-40:]
		}
	case 5:
		c.pre = [][]byte{{}, alpha[:1], cat(alpha[:1], alpha[len(alpha)-1:])}
	default:
		pre := wordSet(r, alpha)
		if r.Bool() {
			pre = withBadAdds(r, pre, alpha)
		}
		c.pre = pre
	}
	return c
}

// extremeProbes asks at the places the automaton itself makes extreme, read off the word list:
// the longest word (its proper prefixes around the size steps, itself, itself continued by 1,
// 255, 256 and sometimes thousands of letters), the prefix with the most continuations (each
// byte just outside its label set: below the smallest, above the largest, in a gap, 0x00, 0xff),
// the first and the last word with a byte that occurs in no word, the empty probe.
func extremeProbes(r *hx.Rng, ws [][]byte) [][]byte {
	ps := [][]byte{{}}
	if len(ws) == 0 {
		return append(ps, []byte{0x00}, []byte{0xff}, bytes.Repeat([]byte{'a'}, 300))
	}
	var occurs [256]bool
	long := ws[0]
	for _, w := range ws {
		if len(w) > len(long) {
			long = w
		}
		for _, b := range w {
			occurs[b] = true
		}
	}
	var outside []byte
	for v := 0; v < 256; v++ {
		if !occurs[v] {
			outside = append(outside, byte(v))
		}
	}
	fill := byte('a')
	if len(long) > 0 {
		fill = long[len(long)-1]
	}
	for _, k := range []int{1, 255, 256} {
		ps = append(ps, cat(long, bytes.Repeat([]byte{fill}, k)))
	}
	if r.Chance(1, 8) {
		ps = append(ps, cat(long, bytes.Repeat([]byte{fill}, []int{1023, 4096}[r.Intn(2)])))
	}
	for _, k := range []int{7, 8, 15, 16, 31, 32, 63, 64, 65, 127, 128, 255, 256, 257} {
		if k < len(long) {
			ps = append(ps, long[:k])
		}
	}
	// the widest prefix
	next := map[string]*[256]bool{}
	best, bestN := "", 0
	count := map[string]int{}
	for _, w := range ws {
		for i := 0; i < len(w) && i < 6; i++ {
			k := string(w[:i])
			m := next[k]
			if m == nil {
				m = new([256]bool)
				next[k] = m
			}
			if !m[w[i]] {
				m[w[i]] = true
				count[k]++
				if count[k] > bestN {
					best, bestN = k, count[k]
				}
			}
		}
	}
	if m := next[best]; m != nil {
		lo, hi := -1, -1
		for v := 0; v < 256; v++ {
			if m[v] {
				if lo < 0 {
					lo = v
				}
				hi = v
			}
		}
		cand := []int{0x00, 0xff, lo - 1, hi + 1, lo, hi}
		for v := lo + 1; v < hi; v++ {
			if !m[v] {
				cand = append(cand, v)
				break
			}
		}
		for v := hi - 1; v > lo; v-- {
			if !m[v] {
				cand = append(cand, v)
				break
			}
		}
		for _, v := range cand {
			if v >= 0 && v < 256 {
				ps = append(ps, cat([]byte(best), []byte{byte(v)}), cat([]byte(best), []byte{byte(v), byte(v)}))
			}
		}
	}
	if len(outside) > 0 {
		o := outside[r.Intn(len(outside))]
		for _, w := range [][]byte{ws[0], ws[len(ws)-1], long} {
			ps = append(ps, cat(w, []byte{o}), cat([]byte{o}, w))
			if len(w) > 0 {
				x := append([]byte{}, w...)
				x[len(x)-1] = o
				y := append([]byte{}, w...)
				y[0] = o
				ps = append(ps, x, y)
			}
		}
	}
	return ps
}

// asymWords puts one (or two) very long words among n short ones: first, in the middle or last
// in the order, continuing a short word, ending in a short word, sharing the long tail.
func asymWords(r *hx.Rng, alpha []byte, n, L int) [][]byte {
	ws := manyWords(r, alpha, n)
	long := randWordLen(r, alpha, L)
	switch r.Intn(4) {
	case 0: // first in the order (after its own prefixes)
		for i := range long {
			if i < L/2 || r.Bool() {
				long[i] = alpha[0]
			}
		}
	case 1: // last
		for i := 0; i < 3 && i < L; i++ {
			long[i] = alpha[len(alpha)-1]
		}
	case 2: // continues a short word and ends in one
		if len(ws) > 1 {
			a, b := ws[r.Intn(len(ws))], ws[r.Intn(len(ws))]
			copy(long, a)
			if len(b) < L {
				copy(long[L-len(b):], b)
			}
		}
	}
	ws = append(ws, long)
	if r.Bool() { // a second long word with the same tail, far away in the order
		h := randWordLen(r, alpha, r.Range(1, 2))
		ws = append(ws, cat(h, long[len(long)/4:]))
	}
	return sortDedup(ws)
}

func genRound3(g *hx.Gen, emit func(tcase)) {
	r := g.Rng
	finish := func(ws [][]byte, alpha []byte, bad bool) {
		toks := ws
		if bad {
			toks = withBadAdds(r, ws, alpha)
		}
		pa := alpha
		if len(pa) > 4 {
			pa = pa[:4]
		}
		pn := 2
		if len(pa) <= 2 {
			pn = 3
		}
		ex := append(extremeProbes(r, ws), extraProbes(r, ws, alpha)...)
		for i, total := 0, 0; i < len(ex); i++ { // keep the case line short (it is also a command-line argument on replay)
			if total += len(ex[i]); total > 16000 {
				ex = ex[:i]
				break
			}
		}
		c := tcase{alpha: pa, plen: pn, zero: r.Chance(1, 3), extra: ex, tokens: toks}
		if r.Chance(1, 5) {
			c = withHistory(r, c, ws, alpha)
		}
		emit(c)
	}
	// hundreds of words over alphabets from the whole byte range
	for round := g.Pick(2, 24); round > 0; round-- {
		for _, n := range countSteps {
			for rep := 0; rep < 4; rep++ {
				alpha := byteAlphabet(r)
				finish(manyWords(r, alpha, n+r.Intn(2)*r.Intn(8)), alpha, r.Chance(1, 4))
			}
		}
	}
	// one label set, every combination of targets; two thirds of them over digits (decimal, hex) and separators
	for i := g.Pick(400, 4000); i > 0; i-- {
		alpha := byteAlphabet(r)
		if r.Chance(2, 3) {
			alpha = [][]byte{[]byte("123"), []byte("0123456789"), []byte("12"), []byte("019"), []byte("1,2"), []byte("0:9|"), []byte("1a2b"), []byte("0123456789abcdef")}[r.Intn(8)]
		}
		K := []int{6, 8, 10, 12, 12, 12, 16, 24}[r.Intn(8)]
		nl := 2
		if r.Chance(1, 5) {
			nl = 3
			K = []int{4, 5, 6}[r.Intn(3)]
		}
		finish(gridWords(r, alpha, K, nl, []int{100, 200, 290, 290}[r.Intn(4)]), alpha, r.Chance(1, 6))
	}
	// one or two very long words among many short ones
	for round := g.Pick(1, 12); round > 0; round-- {
		for _, L := range []int{63, 64, 65, 127, 128, 129, 255, 256, 257, 400} {
			for _, n := range []int{30, 120, 300} {
				alpha := byteAlphabet(r)
				finish(asymWords(r, alpha, n, L), alpha, r.Chance(1, 6))
			}
		}
	}
	// word counts around 512 and 1024
	for round := g.Pick(1, 6); round > 0; round-- {
		for _, n := range []int{511, 512, 513, 1023, 1024, 1025} {
			alpha := byteAlphabet(r)
			finish(manyWords(r, alpha, n), alpha, r.Chance(1, 6))
		}
	}
	// little sharing: the automaton (and the register) has about 500, 1000, 2000 (4000) nodes
	targets := []int{500, 540, 1010, 1080, 2030, 2150}
	if g.Thorough() {
		targets = append(targets, 250, 270, 4080, 4200, 515, 520, 1030, 1040, 2060, 2080)
	}
	for _, t := range targets {
		m := r.Range(5, 10)
		alpha := make([]byte, 256)
		for i := range alpha {
			alpha[i] = byte(i)
		}
		if r.Chance(1, 3) {
			alpha = pickBytes(r, alpha, 16, 64)
		}
		seen := map[string]bool{}
		var ws [][]byte
		for size := 0; size < t; { // grow until the minimal automaton has just t nodes or a few more
			for k := 0; k < 8; k++ {
				w := randWordLen(r, alpha, m-r.Intn(2))
				if !seen[string(w)] {
					seen[string(w)] = true
					ws = append(ws, w)
				}
			}
			ws = sortDedup(ws)
			size, _ = minimalSizeTrie(ws)
		}
		// twins that must share a fresh tail: early, in the middle and at the very end of the order
		for _, hb := range []byte{alpha[0], alpha[len(alpha)/2], alpha[len(alpha)-1]} {
			tail := randWordLen(r, alpha, m-2)
			x := r.Perm(len(alpha))
			ws = append(ws, cat([]byte{hb, alpha[x[0]]}, tail), cat([]byte{hb, alpha[x[1]]}, tail))
		}
		finish(sortDedup(ws), alpha, r.Chance(1, 6))
	}
	// deep branches
	for round := g.Pick(2, 16); round > 0; round-- {
		for _, L := range depthSteps {
			alpha := byteAlphabet(r)
			if r.Bool() {
				alpha = []byte("ab")
			}
			finish(longWords(r, alpha, L), mergeBytes(alpha, []byte{0x00, 0xff}), r.Chance(1, 4))
		}
	}
	// wide nodes
	for round := g.Pick(3, 24); round > 0; round-- {
		for _, k := range widthSteps {
			finish(wideWords(r, k), []byte{0x00, '0', ',', 0xff}, r.Chance(1, 4))
		}
	}
}

func main() {
	hx.Main(hx.Prop{
		Rule:        "case = a sequence of Builder.Add arguments (sorted word set with out-of-order/duplicate insertions interleaved) on a fresh, zero-value or re-initialised (after a complete or abandoned build) Builder, plus probe strings; non-trivial = the built automaton shares a node (node count < number of distinct prefixes) or some word is a proper prefix of another; distinct by case text",
		Gen:         gen,
		Exec:        exec,
		CaseTimeout: 20 * time.Second,
		MemMB:       2048,
	})
}
