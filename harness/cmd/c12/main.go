// Command c12 exercises dawg.Builder (Add sequences with rejected insertions, Finish),
// Lookup, NumberOfWords and the node count of the built automaton (C12).
//
// Case:  a=<hex alphabet>,n=<probe length>,z=<0|1>,p=<hex>.<hex>...;tok tok tok
// Each token is the argument of one Add call in hex ("-" = the empty word).  Probes are all
// strings over the alphabet of length <= n (by length, then in alphabet order) followed by the
// extra probes p.  z=1 starts from the zero Builder (no Initialise call).
package main

import (
	"bytes"
	"encoding/hex"
	"fmt"
	"sort"
	"strconv"
	"strings"
	"time"

	"github.com/Tom-Johnston/mamba/dawg"
	"verifharness/hx"
)

func hexWord(w []byte) string {
	if len(w) == 0 {
		return "-"
	}
	return hex.EncodeToString(w)
}

func unhex(s string) []byte {
	if s == "-" || s == "" {
		return []byte{}
	}
	b, err := hex.DecodeString(s)
	if err != nil {
		panic("bad hex in case: " + s)
	}
	return b
}

type tcase struct {
	alpha  []byte
	plen   int
	zero   bool
	extra  [][]byte
	tokens [][]byte
}

func (c tcase) line() string {
	ex := make([]string, len(c.extra))
	for i, p := range c.extra {
		ex[i] = hexWord(p)
	}
	tk := make([]string, len(c.tokens))
	for i, w := range c.tokens {
		tk[i] = hexWord(w)
	}
	z := 0
	if c.zero {
		z = 1
	}
	return fmt.Sprintf("a=%s,n=%d,z=%d,p=%s;%s", hex.EncodeToString(c.alpha), c.plen, z, strings.Join(ex, "."), strings.Join(tk, " "))
}

func parse(line string) tcase {
	var c tcase
	parts := strings.SplitN(line, ";", 2)
	for _, kv := range strings.Split(parts[0], ",") {
		i := strings.IndexByte(kv, '=')
		if i < 0 {
			continue
		}
		k, v := kv[:i], kv[i+1:]
		switch k {
		case "a":
			c.alpha = unhex(v)
		case "n":
			c.plen, _ = strconv.Atoi(v)
		case "z":
			c.zero = v == "1"
		case "p":
			for _, p := range strings.Split(v, ".") {
				if p != "" {
					c.extra = append(c.extra, unhex(p))
				}
			}
		}
	}
	if len(parts) > 1 {
		for _, t := range strings.Fields(parts[1]) {
			c.tokens = append(c.tokens, unhex(t))
		}
	}
	return c
}

func allProbes(alpha []byte, n int) [][]byte {
	level := [][]byte{{}}
	out := [][]byte{{}}
	for k := 1; k <= n; k++ {
		var next [][]byte
		for _, w := range level {
			for _, c := range alpha {
				next = append(next, append(append([]byte{}, w...), c))
			}
		}
		out = append(out, next...)
		level = next
	}
	return out
}

func dumpString(d *dawg.Dawg, withIDs bool) string {
	var sb strings.Builder
	for _, n := range d.VerifDump() {
		f := 0
		if n.Final {
			f = 1
		}
		kids := make([]string, len(n.Kids))
		for i := range n.Kids {
			if withIDs {
				kids[i] = strconv.FormatUint(n.Kids[i], 10)
			} else {
				kids[i] = strconv.Itoa(n.KidIdx[i])
			}
		}
		if withIDs {
			fmt.Fprintf(&sb, "%d:", n.ID)
		}
		fmt.Fprintf(&sb, "%d:%d:%s:%s|", n.NumWords, f, hexWord(n.Labels), strings.Join(kids, "."))
	}
	return sb.String()
}

// minimalSize counts the Myhill-Nerode classes of the prefixes of ws (the empty prefix always
// counted) by brute force: the residual language of a prefix as a joined string.
func minimalSize(ws [][]byte) (classes int, prefixes int) {
	pre := map[string]bool{"": true}
	for _, w := range ws {
		for i := 1; i <= len(w); i++ {
			pre[string(w[:i])] = true
		}
	}
	res := map[string]bool{}
	for p := range pre {
		var sb strings.Builder
		for _, w := range ws {
			if bytes.HasPrefix(w, []byte(p)) {
				sb.WriteString(hex.EncodeToString(w[len(p):]))
				sb.WriteByte('/')
			}
		}
		res[sb.String()] = true
	}
	return len(res), len(pre)
}

func exec(line string) hx.Result {
	c := parse(line)
	var viol []hx.OracleViolation
	db := new(dawg.Builder)
	if !c.zero {
		db.Initialise()
	}
	var acc strings.Builder
	var accepted [][]byte
	for _, w := range c.tokens {
		arg := append([]byte{}, w...)
		err := db.Add(arg)
		if err == nil {
			acc.WriteByte('1')
			accepted = append(accepted, w)
			// the builder must keep its own copy of the previous word
			for i := range arg {
				arg[i] ^= 0xff
			}
		} else {
			acc.WriteByte('0')
		}
	}
	_, _, _, reg, lastID, _ := db.VerifBuilderState()
	d, err := db.Finish()
	if err != nil || d == nil {
		return hx.Result{Obs: "finish-error"}
	}
	// oracle: accepted words are strictly increasing (so the rejections were exactly the bad ones)
	for i := 1; i < len(accepted); i++ {
		if bytes.Compare(accepted[i-1], accepted[i]) >= 0 {
			viol = append(viol, hx.Fail("C12:accepted-out-of-order", "Add accepted %x after %x", accepted[i], accepted[i-1]))
		}
	}
	words, ids := d.Search()
	ws := make([]string, len(words))
	for i, w := range words {
		ws[i] = hexWord(w)
	}
	nodes := d.VerifNodeCount()
	mn, npre := minimalSize(accepted)
	if nodes != mn {
		viol = append(viol, hx.Fail("C12:not-minimal", "node count %d, minimal automaton has %d states", nodes, mn))
	}
	if len(d.VerifDump()) != nodes {
		viol = append(viol, hx.Fail("C12:node-count", "numberOfNodes %d but %d nodes reachable", nodes, len(d.VerifDump())))
	}
	// oracle: numWords of every reachable node is the size of its right language
	dump := d.VerifDump()
	sizes := make([]int, len(dump))
	for i := range sizes {
		sizes[i] = -1
	}
	var langSize func(i int) int
	langSize = func(i int) int {
		if sizes[i] >= 0 {
			return sizes[i]
		}
		n := 0
		if dump[i].Final {
			n = 1
		}
		for _, k := range dump[i].KidIdx {
			n += langSize(k)
		}
		sizes[i] = n
		return n
	}
	for i, n := range dump {
		if n.NumWords != langSize(i) {
			viol = append(viol, hx.Fail("C12:numwords-node", "node %d (id %d): numWords %d, right language has %d words", i, n.ID, n.NumWords, langSize(i)))
			break
		}
		if langSize(i) == 0 {
			if i != 0 || len(dump) != 1 {
				viol = append(viol, hx.Fail("C12:dead-node", "node %d (id %d) accepts nothing", i, n.ID))
				break
			}
		}
	}
	// oracle: rejected additions do not change what is built
	if d2, err2 := dawg.New(accepted); err2 != nil {
		viol = append(viol, hx.Fail("C12:new-error", "New on the accepted words failed: %v", err2))
	} else if dumpString(d2, true) != dumpString(d, true) {
		viol = append(viol, hx.Fail("C12:rejected-add-changed-result", "automaton differs from New(accepted words)"))
	}
	probes := append(allProbes(c.alpha, c.plen), c.extra...)
	lk := make([]string, len(probes))
	for i, p := range probes {
		r, ok := d.Lookup(p)
		// oracle: rank in the sorted accepted list
		j := sort.Search(len(accepted), func(k int) bool { return bytes.Compare(accepted[k], p) >= 0 })
		member := j < len(accepted) && bytes.Equal(accepted[j], p)
		if ok != member || (ok && r != j) {
			viol = append(viol, hx.Fail("C12:lookup", "Lookup(%x) = (%d,%v), expected (%d,%v)", p, r, ok, j, member))
		}
		if ok {
			lk[i] = strconv.Itoa(r)
		} else {
			lk[i] = "-"
		}
	}
	obs := fmt.Sprintf("acc=%s words=%s ranks=%s nw=%d nodes=%d lk=%s ## reg=%s lastid=%d dump=%s",
		acc.String(), strings.Join(ws, ","), hx.Ints(ids), d.NumberOfWords(), nodes, strings.Join(lk, ","),
		joinU64(reg), lastID, dumpString(d, true))
	properPrefix := false
	for i := 1; i < len(accepted) && !properPrefix; i++ {
		properPrefix = bytes.HasPrefix(accepted[i], accepted[i-1])
	}
	maxBranch := 0
	for _, n := range d.VerifDump() {
		if len(n.Labels) > maxBranch {
			maxBranch = len(n.Labels)
		}
	}
	rej := len(c.tokens) - len(accepted)
	return hx.Result{Obs: obs, Nontrivial: nodes < npre || properPrefix, Viol: viol,
		Buckets: []string{fmt.Sprintf("words<=%d", bucket(len(accepted))), fmt.Sprintf("alphabet<=%d", bucket(alphabetSize(accepted))),
			fmt.Sprintf("branch<=%d", bucket(maxBranch)), fmt.Sprintf("rejected<=%d", bucket(rej))}}
}

func joinU64(a []uint64) string {
	s := make([]string, len(a))
	for i, v := range a {
		s[i] = strconv.FormatUint(v, 10)
	}
	return strings.Join(s, ".")
}

func alphabetSize(ws [][]byte) int {
	var seen [256]bool
	n := 0
	for _, w := range ws {
		for _, b := range w {
			if !seen[b] {
				seen[b] = true
				n++
			}
		}
	}
	return n
}

func bucket(n int) int {
	if n == 0 {
		return 0
	}
	b := 1
	for b < n {
		b *= 2
	}
	return b
}

// ---------------------------------------------------------------- generation

func sortDedup(ws [][]byte) [][]byte {
	sort.Slice(ws, func(i, j int) bool { return bytes.Compare(ws[i], ws[j]) < 0 })
	out := ws[:0]
	for i, w := range ws {
		if i == 0 || !bytes.Equal(w, ws[i-1]) {
			out = append(out, w)
		}
	}
	return out
}

func randWord(r *hx.Rng, alpha []byte, maxLen int) []byte {
	n := r.Intn(maxLen + 1)
	w := make([]byte, n)
	for i := range w {
		w[i] = alpha[r.Intn(len(alpha))]
	}
	return w
}

func randAlphabet(r *hx.Rng) []byte {
	switch r.Intn(6) {
	case 0:
		return []byte("a")
	case 1:
		return []byte("ab")
	case 2:
		return []byte("abc")
	case 3:
		return []byte("abcd")
	case 4: // bytes at the edges of the range
		return []byte{0x00, 0x01, 0x7f, 0x80, 0xfe, 0xff}[:r.Range(2, 6)]
	default: // a random subset of all bytes
		k := r.Range(2, 40)
		p := r.Perm(256)[:k]
		sort.Ints(p)
		a := make([]byte, k)
		for i, v := range p {
			a[i] = byte(v)
		}
		return a
	}
}

// wordSet builds a set with the shapes the property names.
func wordSet(r *hx.Rng, alpha []byte) [][]byte {
	var ws [][]byte
	switch r.Intn(6) {
	case 0: // independent random words
		n := r.Range(0, 12)
		for i := 0; i < n; i++ {
			ws = append(ws, randWord(r, alpha, 5))
		}
	case 1: // prefixes x suffixes: heavy sharing at both ends
		np, ns := r.Range(1, 4), r.Range(1, 4)
		var pre, suf [][]byte
		for i := 0; i < np; i++ {
			pre = append(pre, randWord(r, alpha, 3))
		}
		for i := 0; i < ns; i++ {
			suf = append(suf, randWord(r, alpha, 3))
		}
		for _, p := range pre {
			for _, s := range suf {
				if r.Chance(5, 6) {
					ws = append(ws, append(append([]byte{}, p...), s...))
				}
			}
		}
	case 2: // a few words and many of their prefixes
		n := r.Range(1, 4)
		for i := 0; i < n; i++ {
			w := randWord(r, alpha, 7)
			for k := 0; k <= len(w); k++ {
				if r.Chance(1, 2) {
					ws = append(ws, append([]byte{}, w[:k]...))
				}
			}
			ws = append(ws, w)
		}
	case 3: // dense: most short words
		maxLen := 3
		if len(alpha) > 4 {
			maxLen = 2
		}
		if len(alpha) > 16 {
			maxLen = 1
		}
		for _, w := range allProbes(alpha, maxLen) {
			if r.Chance(3, 5) {
				ws = append(ws, w)
			}
		}
	case 4: // common stem, then branches with common endings
		stem := randWord(r, alpha, 4)
		ends := [][]byte{randWord(r, alpha, 2), randWord(r, alpha, 2)}
		n := r.Range(1, 8)
		for i := 0; i < n; i++ {
			w := append(append([]byte{}, stem...), randWord(r, alpha, 3)...)
			w = append(w, ends[r.Intn(2)]...)
			ws = append(ws, w)
		}
	default: // tiny
		n := r.Range(0, 3)
		for i := 0; i < n; i++ {
			ws = append(ws, randWord(r, alpha, 2))
		}
	}
	if r.Chance(1, 5) {
		ws = append(ws, []byte{})
	}
	return sortDedup(ws)
}

// withBadAdds interleaves out-of-order and duplicate insertions into the sorted list.
func withBadAdds(r *hx.Rng, ws [][]byte, alpha []byte) [][]byte {
	var toks [][]byte
	for i, w := range ws {
		toks = append(toks, w)
		for r.Chance(1, 4) {
			switch r.Intn(4) {
			case 0: // the same word again
				toks = append(toks, w)
			case 1: // an earlier word
				toks = append(toks, ws[r.Intn(i+1)])
			case 2: // a proper prefix of the last word (smaller), possibly empty
				toks = append(toks, append([]byte{}, w[:r.Intn(len(w)+1)]...))
			default: // a random word, kept only if it is not larger than the last one
				x := randWord(r, alpha, 4)
				if bytes.Compare(x, w) <= 0 {
					toks = append(toks, x)
				}
			}
		}
	}
	return toks
}

func extraProbes(r *hx.Rng, ws [][]byte, alpha []byte) [][]byte {
	var ps [][]byte
	for _, w := range ws {
		if len(ps) > 60 {
			break
		}
		ps = append(ps, w)
		ps = append(ps, append(append([]byte{}, w...), alpha[r.Intn(len(alpha))]))
		if len(w) > 0 {
			ps = append(ps, append([]byte{}, w[:len(w)-1]...))
			x := append([]byte{}, w...)
			x[r.Intn(len(x))] = alpha[r.Intn(len(alpha))]
			ps = append(ps, x)
			y := append([]byte{}, w...)
			y[r.Intn(len(y))] = byte(r.Intn(256))
			ps = append(ps, y)
		}
	}
	for i := 0; i < 4; i++ {
		ps = append(ps, randWord(r, alpha, 6))
	}
	return ps
}

func probeAlphabet(alpha []byte) ([]byte, int) {
	if len(alpha) <= 2 {
		return alpha, 4
	}
	if len(alpha) <= 4 {
		return alpha, 3
	}
	return alpha[:4], 2
}

func gen(g *hx.Gen) {
	r := g.Rng
	emit := func(c tcase) { g.Emit(c.line()) }
	ab := []byte("ab")
	// corpus: inputs that failed on the pinned tree (see KNOWN_FINDINGS.txt, fixed) and the
	// non-vacuity example of Props/C12.v
	emit(tcase{alpha: ab, plen: 2, tokens: nil})
	emit(tcase{alpha: ab, plen: 2, zero: true, tokens: nil})
	emit(tcase{alpha: ab, plen: 2, tokens: [][]byte{{}}})
	emit(tcase{alpha: ab, plen: 2, zero: true, tokens: [][]byte{{}, {}}})
	emit(tcase{alpha: ab, plen: 2, tokens: [][]byte{{}, {}, []byte("a"), {}}})
	emit(tcase{alpha: []byte("abcd"), plen: 3, tokens: [][]byte{[]byte("ab"), []byte("a"), []byte("ac"), {}, []byte("ad"), []byte("ad"), []byte("b")}})
	var tw [][]byte
	for _, s := range []string{"abject", "abjection", "abjections", "abjectly", "abjectness", "ablate", "ablated", "ablation", "ablations"} {
		tw = append(tw, []byte(s))
	}
	emit(tcase{alpha: []byte("abl"), plen: 3, tokens: tw, extra: [][]byte{[]byte("ab"), []byte("hello"), []byte("abjection"), []byte("ablations")}})
	// exhaustive: every subset of the 15 words of length <= 3 over {a,b}
	all := sortDedup(allProbes(ab, 3))
	subset := func(mask int) [][]byte {
		var ws [][]byte
		for i, w := range all {
			if mask>>uint(i)&1 == 1 {
				ws = append(ws, w)
			}
		}
		return ws
	}
	if g.Thorough() {
		for mask := 0; mask < 1<<uint(len(all)); mask++ {
			emit(tcase{alpha: ab, plen: 4, tokens: subset(mask)})
		}
		g.Exhaustive("every subset of the 15 words of length <= 3 over {a,b} (32768 sets), probes: all strings of length <= 4")
	} else {
		// all subsets of the 7 words of length <= 2, and a sample of the larger space
		short := sortDedup(allProbes(ab, 2))
		for mask := 0; mask < 1<<uint(len(short)); mask++ {
			var ws [][]byte
			for i, w := range short {
				if mask>>uint(i)&1 == 1 {
					ws = append(ws, w)
				}
			}
			emit(tcase{alpha: ab, plen: 3, tokens: ws})
		}
		g.Exhaustive("every subset of the 7 words of length <= 2 over {a,b} (128 sets), probes: all strings of length <= 3")
		for i := 0; i < 1500; i++ {
			emit(tcase{alpha: ab, plen: 4, tokens: subset(r.Intn(1 << uint(len(all))))})
		}
	}
	// structured random sets, with rejected additions interleaved
	count := g.Pick(5000, 120000)
	for i := 0; i < count; i++ {
		alpha := randAlphabet(r)
		ws := wordSet(r, alpha)
		toks := ws
		if r.Chance(1, 2) {
			toks = withBadAdds(r, ws, alpha)
		}
		pa, pn := probeAlphabet(alpha)
		emit(tcase{alpha: pa, plen: pn, zero: r.Chance(1, 3), extra: extraProbes(r, ws, alpha), tokens: toks})
	}
	// wide branching over the full byte alphabet and larger sets
	big := g.Pick(40, 600)
	for i := 0; i < big; i++ {
		var ws [][]byte
		switch r.Intn(3) {
		case 0: // root (or an inner node) with up to 256 links
			k := []int{127, 128, 200, 255, 256}[r.Intn(5)]
			p := r.Perm(256)[:k]
			stem := randWord(r, []byte("xy"), 2)
			for _, v := range p {
				w := append(append([]byte{}, stem...), byte(v))
				if r.Chance(1, 3) {
					w = append(w, byte(r.Intn(3)))
				}
				ws = append(ws, w)
			}
		case 1: // a few hundred words over 3 letters
			n := r.Range(100, 400)
			for j := 0; j < n; j++ {
				ws = append(ws, randWord(r, []byte("abc"), 8))
			}
		default: // long words with long common suffixes
			suf := randWord(r, []byte("ab"), 40)
			n := r.Range(2, 30)
			for j := 0; j < n; j++ {
				ws = append(ws, append(randWord(r, []byte("abcde"), 6), suf...))
			}
		}
		ws = sortDedup(ws)
		toks := ws
		if r.Chance(1, 3) {
			toks = withBadAdds(r, ws, []byte("abc"))
		}
		emit(tcase{alpha: []byte("ab"), plen: 2, zero: r.Chance(1, 3), extra: extraProbes(r, ws, []byte{0, 'a', 'x', 0xff}), tokens: toks})
	}
}

func main() {
	hx.Main(hx.Prop{
		Rule:        "case = a sequence of Builder.Add arguments (sorted word set with out-of-order/duplicate insertions interleaved) plus probe strings; non-trivial = the built automaton shares a node (node count < number of distinct prefixes) or some word is a proper prefix of another; distinct by case text",
		Gen:         gen,
		Exec:        exec,
		CaseTimeout: 20 * time.Second,
		MemMB:       2048,
	})
}
