package main

// User-defined implementations of dawg.Searcher (the interface is exported, so Search must work
// with any type that keeps the searcher contract, not only with the two library types):
//
//   wrapS      a type that delegates every method to a library searcher and records how Search
//              drives it (the call protocol); optionally it runs a nested Search on the same Dawg
//              from inside its Step callback (two live searches interleaved)
//   myPattern  an independent implementation of the pattern rule
//   myAnagram  an independent implementation of the anagram rule (counting table)
//   bomb       accepts everything and panics in its k-th AllowStep call (the caller recovers)
//
// By C13_search_contract the result of Search depends only on what the searchers accept, so the
// expected observation of a case is the same whichever of these types carries a description.

import (
	"fmt"
	"strings"

	"github.com/Tom-Johnston/mamba/dawg"
)

type wrapS struct {
	in                  dawg.Searcher
	steps, backs        int
	chosen              int
	allowed             [256]bool // the bytes AllowStep accepted since the last Step/Backstep
	proto               string
	nestEvery, nestLeft int
	nest                func()
}

func newWrap(in dawg.Searcher) *wrapS { return &wrapS{in: in} }

func (w *wrapS) fail(format string, a ...interface{}) {
	if w.proto == "" {
		w.proto = fmt.Sprintf(format, a...)
	}
}

func (w *wrapS) AllowStep(b byte) bool {
	ok := w.in.AllowStep(b)
	w.allowed[b] = ok
	return ok
}

func (w *wrapS) Step(b byte) {
	if !w.allowed[b] {
		w.fail("Step(%02x) without a preceding AllowStep(%02x) = true in the same state", b, b)
	}
	w.allowed = [256]bool{}
	w.steps++
	w.in.Step(b)
	if w.nest != nil && w.nestLeft > 0 && w.steps%w.nestEvery == 0 {
		w.nestLeft--
		w.nest()
	}
}

func (w *wrapS) Backstep() {
	w.allowed = [256]bool{}
	w.backs++
	if w.backs > w.steps {
		w.fail("Backstep number %d after %d Steps", w.backs, w.steps)
	}
	w.in.Backstep()
}

func (w *wrapS) AllowWord() bool { return w.in.AllowWord() }

func (w *wrapS) Chosen() {
	w.chosen++
	w.in.Chosen()
}

// protocol after a completed run that returned n words (counters are reset)
func (w *wrapS) settle(n int) string {
	msg := w.proto
	if msg == "" && w.steps != w.backs {
		msg = fmt.Sprintf("%d Steps but %d Backsteps", w.steps, w.backs)
	}
	if msg == "" && w.chosen != n {
		msg = fmt.Sprintf("Chosen called %d times for %d returned words", w.chosen, n)
	}
	w.steps, w.backs, w.chosen, w.proto, w.allowed = 0, 0, 0, "", [256]bool{}
	return msg
}

type myPattern struct {
	pat   []byte
	blank byte
	idx   int
}

func (p *myPattern) AllowStep(b byte) bool {
	return p.idx < len(p.pat) && (p.pat[p.idx] == p.blank || p.pat[p.idx] == b)
}
func (p *myPattern) Step(b byte)     { p.idx++ }
func (p *myPattern) Backstep()       { p.idx-- }
func (p *myPattern) AllowWord() bool { return p.idx == len(p.pat) }
func (p *myPattern) Chosen()         {}

type myAnagram struct {
	have    [256]int
	present [256]bool
	blanks  int
	target  int
	path    []bool // per step: was a blank used
	letters []byte
}

func newMyAnagram(a []byte, blank byte) *myAnagram {
	m := &myAnagram{target: len(a)}
	for _, c := range a {
		if c == blank {
			m.blanks++
		} else {
			m.have[c]++
			m.present[c] = true
		}
	}
	return m
}

func (m *myAnagram) AllowStep(b byte) bool {
	return len(m.path) < m.target && (m.blanks > 0 || m.have[b] > 0)
}

func (m *myAnagram) Step(b byte) {
	if m.have[b] > 0 {
		m.have[b]--
		m.path = append(m.path, false)
	} else {
		m.blanks--
		m.path = append(m.path, true)
	}
	m.letters = append(m.letters, b)
}

func (m *myAnagram) Backstep() {
	k := len(m.path) - 1
	if m.path[k] {
		m.blanks++
	} else {
		m.have[m.letters[k]]++
	}
	m.path, m.letters = m.path[:k], m.letters[:k]
}

func (m *myAnagram) AllowWord() bool { return len(m.path) == m.target }
func (m *myAnagram) Chosen()         {}

func (m *myAnagram) proj() string {
	var parts []string
	for b := 0; b < 256; b++ {
		if m.present[b] {
			parts = append(parts, fmt.Sprintf("%02x:%d", b, m.have[b]))
		}
	}
	return fmt.Sprintf("a%d/%d/%d/%s", m.blanks, m.target, len(m.path), strings.Join(parts, "."))
}

type bomb struct{ k, calls int }

func (x *bomb) AllowStep(b byte) bool {
	x.calls++
	if x.calls == x.k {
		panic("user searcher gives up")
	}
	return true
}
func (x *bomb) Step(b byte)     {}
func (x *bomb) Backstep()       {}
func (x *bomb) AllowWord() bool { return true }
func (x *bomb) Chosen()         {}
