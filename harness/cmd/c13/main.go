// Command c13 exercises (*dawg.Dawg).Search with PatternSearcher / AnagramSearcher objects
// (property C13): every case builds a Dawg from a strictly increasing word list, creates the
// searcher objects once, runs Search twice with the same objects and prints both result lists
// and the state of the searchers before, between and after the runs.  On the Go side the
// results are also checked against a brute-force filter of the word list.
//
// Case:  [@<provenance>@]<searchers>;tok tok tok
// <searchers> = comma separated list (possibly empty) of P:<hex pattern>:<hex blank> or
// A:<hex anagram>:<hex blank> ("-" = empty); each token is a word in hex ("-" = the empty word).
//
// A kind letter may carry a modifier saying which object carries the description on the Go side
// (the model side ignores it): w a user-defined type delegating to the library searcher and
// recording how Search drives it | n the same, running a nested Search on the same Dawg from
// inside its Step callback | u an independent user-defined implementation of the same rule |
// x the library searcher after a manual walk (allowed Steps, then as many Backsteps).
// X:-:<hex k> is not a description: before the observed runs, one Search with fresh searchers
// plus a user-defined searcher that panics in its k-th AllowStep call is run and recovered.
//
// <provenance> (optional, default "n--") says how the Dawg object that is searched is obtained
// from the word list; the model side ignores it (the expected answer is the model's search on the
// Dawg of the word list, whatever way the API was used to get a Dawg holding these words):
//   <src><via><tgt>[:<hex>.<hex>...]
//   src  n dawg.New | z zero-value Builder, Add..., Finish | i Builder after Initialise |
//        j,J the same two with rejected Adds in between (duplicates, earlier words, prefixes:
//        Add returns its documented error and the Builder is used further) |
//        r a Builder that first built the other word list, then Initialise, then this one |
//        t,T,m,M GobDecode of a stream written by another producer (t the unmerged trie, m a
//        partly merged automaton; capital: sparse large ids instead of small ones)
//   via  - search the source object itself | g GobEncode + GobDecode | e through encoding/gob |
//        2 two generations (encode, decode into a fresh value, encode that, decode)
//   tgt  the value decoded into:  f new(Dawg) | n,z,i a Dawg that held the other word list (built
//        by New / zero Builder / initialised Builder) | d a value that was itself decoded from
//        the other word list | s the source object itself
//   the list after ':' is the other word list (strictly increasing, "-" = the empty word).
package main

import (
	"bytes"
	"encoding/gob"
	"encoding/hex"
	"fmt"
	"reflect"
	"sort"
	"strings"
	"time"

	"github.com/Tom-Johnston/mamba/dawg"
	"verifharness/hx"
)

type spec struct {
	kind  byte // 'P' or 'A' ('X': see the package comment)
	body  []byte
	blank byte
	mod   byte // 0, 'w', 'n', 'u', 'x'
}

func hexWord(w []byte) string {
	if len(w) == 0 {
		return "-"
	}
	return hex.EncodeToString(w)
}

func unhex(s string) []byte {
	if s == "-" || s == "" {
		return []byte{}
	}
	b, err := hex.DecodeString(s)
	if err != nil {
		panic("bad hex " + s)
	}
	return b
}

func (s spec) String() string {
	k := string(s.kind)
	if s.mod != 0 {
		k += string(s.mod)
	}
	return fmt.Sprintf("%s:%s:%02x", k, hexWord(s.body), s.blank)
}

// prov: how the searched Dawg object is obtained (see the package comment)
type prov struct {
	src, via, tgt byte
	prev          [][]byte
}

var plain = prov{src: 'n', via: '-', tgt: '-'}

func (p prov) String() string {
	if p.src == 'n' && p.via == '-' {
		return ""
	}
	s := "@" + string([]byte{p.src, p.via, p.tgt})
	if len(p.prev) > 0 {
		ws := make([]string, len(p.prev))
		for i, w := range p.prev {
			ws[i] = hexWord(w)
		}
		s += ":" + strings.Join(ws, ".")
	}
	return s + "@"
}

func caseLine(pv prov, specs []spec, words [][]byte) string {
	ss := make([]string, len(specs))
	for i, s := range specs {
		ss[i] = s.String()
	}
	ws := make([]string, len(words))
	for i, w := range words {
		ws[i] = hexWord(w)
	}
	return pv.String() + strings.Join(ss, ",") + ";" + strings.Join(ws, " ")
}

// parseCase returns the provenance, the descriptions, the words and k of an X entry (0 = none).
func parseCase(line string) (prov, []spec, [][]byte, int) {
	i := strings.LastIndex(line, ";")
	head := line[:i]
	pv := plain
	if strings.HasPrefix(head, "@") {
		j := strings.Index(head[1:], "@")
		if j < 3 {
			panic("bad provenance " + head)
		}
		ps := head[1 : 1+j]
		head = head[j+2:]
		pv = prov{src: ps[0], via: ps[1], tgt: ps[2]}
		if len(ps) > 3 {
			if ps[3] != ':' {
				panic("bad provenance " + ps)
			}
			for _, t := range strings.Split(ps[4:], ".") {
				pv.prev = append(pv.prev, unhex(t))
			}
		}
	}
	var specs []spec
	for _, t := range strings.Split(head, ",") {
		if t == "" {
			continue
		}
		f := strings.Split(t, ":")
		if len(f) != 3 || len(f[0]) < 1 || len(f[0]) > 2 {
			panic("bad searcher " + t)
		}
		bl := unhex(f[2])
		if len(bl) != 1 {
			panic("bad blank " + t)
		}
		sp := spec{kind: f[0][0], body: unhex(f[1]), blank: bl[0]}
		if len(f[0]) == 2 {
			sp.mod = f[0][1]
		}
		specs = append(specs, sp)
	}
	var words [][]byte
	for _, t := range strings.Fields(line[i+1:]) {
		words = append(words, unhex(t))
	}
	bombAt := 0
	kept := specs[:0]
	for _, sp := range specs {
		if sp.kind == 'X' {
			bombAt = int(sp.blank)
		} else {
			kept = append(kept, sp)
		}
	}
	return pv, kept, words, bombAt
}

// ---------------------------------------------------------------- independent oracle

func matchPattern(p []byte, blank byte, w []byte) bool {
	if len(p) != len(w) {
		return false
	}
	for i := range p {
		if p[i] != blank && p[i] != w[i] {
			return false
		}
	}
	return true
}

// counting form: same length and sum_b max(0, #_w(b) - #_nonblank-anagram(b)) <= #blanks
func matchAnagram(a []byte, blank byte, w []byte) bool {
	if len(a) != len(w) {
		return false
	}
	var have, need [256]int
	blanks := 0
	for _, c := range a {
		if c == blank {
			blanks++
		} else {
			have[c]++
		}
	}
	for _, c := range w {
		need[c]++
	}
	deficit := 0
	for b := 0; b < 256; b++ {
		if need[b] > have[b] {
			deficit += need[b] - have[b]
		}
	}
	return deficit <= blanks
}

func (s spec) matches(w []byte) bool {
	if s.kind == 'P' {
		return matchPattern(s.body, s.blank, w)
	}
	return matchAnagram(s.body, s.blank, w)
}

// ---------------------------------------------------------------- observation

type live struct {
	sp spec
	p  *dawg.PatternSearcher
	a  *dawg.AnagramSearcher
	up *myPattern
	ua *myAnagram
	wr *wrapS
}

func (l live) proj() string {
	if l.up != nil {
		return fmt.Sprintf("p%d", l.up.idx)
	}
	if l.ua != nil {
		return l.ua.proj()
	}
	if l.p != nil {
		return fmt.Sprintf("p%d", l.p.VerifIndex())
	}
	letters, counts, blanks, target, path := l.a.VerifState()
	var tot [256]int
	var seen [256]bool
	for i, c := range letters {
		tot[c] += counts[i]
		seen[c] = true
	}
	var parts []string
	for b := 0; b < 256; b++ {
		if seen[b] {
			parts = append(parts, fmt.Sprintf("%02x:%d", b, tot[b]))
		}
	}
	return fmt.Sprintf("a%d/%d/%d/%s", blanks, target, len(path), strings.Join(parts, "."))
}

func (l live) strict() string {
	if l.p != nil || l.up != nil {
		return "p"
	}
	if l.sp.mod == 'u' || l.sp.mod == 'x' {
		return "-" // no library object / entries rearranged by the manual walk
	}
	letters, counts, _, target, _ := l.a.VerifState()
	if target > 12 {
		return "-" // sort.Slice leaves insertion sort; the entry layout is not modelled
	}
	parts := make([]string, len(letters))
	for i := range letters {
		parts[i] = fmt.Sprintf("%02x:%d", letters[i], counts[i])
	}
	return "a" + strings.Join(parts, ".")
}

func states(ls []live, f func(live) string) string {
	s := make([]string, len(ls))
	for i, l := range ls {
		s[i] = f(l)
	}
	return strings.Join(s, "|")
}

func solnString(ws [][]byte, ids []int) string {
	if len(ws) != len(ids) {
		return fmt.Sprintf("LENGTHS-DIFFER(%d,%d)", len(ws), len(ids))
	}
	s := make([]string, len(ws))
	for i := range ws {
		s[i] = fmt.Sprintf("%s:%d", hexWord(ws[i]), ids[i])
	}
	return strings.Join(s, ",")
}

func countPrefixes(words [][]byte) (prefixes int, properPrefix bool) {
	set := map[string]bool{}
	full := map[string]bool{}
	for _, w := range words {
		full[string(w)] = true
	}
	for _, w := range words {
		for i := 1; i <= len(w); i++ {
			set[string(w[:i])] = true
		}
		for i := 0; i < len(w); i++ {
			if full[string(w[:i])] {
				properPrefix = true
			}
		}
	}
	return len(set), properPrefix
}

func bucket(n int) int {
	b := 1
	for b < n {
		b *= 2
	}
	return b
}

// wellFormed checks the hypothesis of the theorems on the implementation's automaton: acyclic,
// labels strictly increasing at every node, numWords = size of the right language.
func wellFormed(dump []dawg.VerifNode) string {
	state := make([]int, len(dump)) // 0 new, 1 on the path, 2 done
	size := make([]int, len(dump))
	var visit func(i int) string
	visit = func(i int) string {
		if state[i] == 1 {
			return fmt.Sprintf("cycle through node %d", dump[i].ID)
		}
		if state[i] == 2 {
			return ""
		}
		state[i] = 1
		n := dump[i]
		if len(n.Labels) != len(n.KidIdx) {
			return fmt.Sprintf("node %d: %d labels, %d links", n.ID, len(n.Labels), len(n.KidIdx))
		}
		total := 0
		if n.Final {
			total = 1
		}
		for j, k := range n.KidIdx {
			if j > 0 && n.Labels[j-1] >= n.Labels[j] {
				return fmt.Sprintf("node %d: labels not strictly increasing", n.ID)
			}
			if msg := visit(k); msg != "" {
				return msg
			}
			total += size[k]
		}
		if n.NumWords != total {
			return fmt.Sprintf("node %d: numWords %d, right language has %d words", n.ID, n.NumWords, total)
		}
		size[i] = total
		state[i] = 2
		return ""
	}
	if len(dump) == 0 {
		return "empty dump"
	}
	return visit(0)
}

// ---------------------------------------------------------------- obtaining the Dawg

// scribble overwrites caller-owned bytes after the library has been given them: nothing the
// library holds may depend on them any more
func scribble(ws ...[]byte) {
	for k, w := range ws {
		for i := range w {
			if k%2 == 0 {
				w[i] = 0xff
			} else {
				w[i] = 0x00
			}
		}
	}
}

func copies(ws [][]byte) [][]byte {
	out := make([][]byte, len(ws))
	for i, w := range ws {
		out[i] = append([]byte{}, w...)
	}
	return out
}

func addAll(b *dawg.Builder, ws [][]byte) (*dawg.Dawg, error) {
	cw := copies(ws)
	for k, w := range cw {
		if err := b.Add(w); err != nil {
			return nil, err
		}
		// the caller's slice is the caller's again as soon as Add has returned
		if k%2 == 0 {
			scribble(w)
		} else {
			scribble(nil, w)
		}
	}
	return b.Finish()
}

func build(how byte, ws [][]byte) (*dawg.Dawg, error) {
	switch how {
	case 'z':
		var b dawg.Builder
		return addAll(&b, ws)
	case 'i':
		b := new(dawg.Builder)
		b.Initialise()
		return addAll(b, ws)
	case 'n':
		cw := copies(ws)
		d, err := dawg.New(cw)
		scribble(cw...)
		return d, err
	case 'j', 'J': // a Builder that also sees Adds it must refuse (each returns an error)
		b := new(dawg.Builder)
		if how == 'J' {
			b.Initialise()
		}
		refuse := func(w []byte) {
			cw := append([]byte{}, w...)
			if b.Add(cw) == nil {
				panic("refused-add-accepted") // becomes the observation "panic": never on a correct library
			}
			scribble(cw)
		}
		for k, w := range ws {
			cw := append([]byte{}, w...)
			if err := b.Add(cw); err != nil {
				return nil, err
			}
			scribble(cw)
			if (k+len(w))%2 == 0 {
				refuse(w) // the word just added, again
			}
			if k > 0 && (k+len(w))%3 == 0 {
				refuse(ws[(k*7+len(w))%k]) // an earlier word
			}
			if len(w) > 0 && (k+len(w))%5 < 2 {
				refuse(w[:len(w)*((k+len(w))%5)/2]) // a prefix of it (empty or half): sorts before it
			}
			if k == len(ws)-1 {
				refuse(w)
				refuse(ws[0])
			}
		}
		return b.Finish()
	case 't', 'T', 'm', 'M': // a stream of another producer
		salt := uint64(len(ws)) * 1000003
		for _, w := range ws {
			salt = salt*31 + uint64(len(w))
		}
		mode, ids := 0, int(salt%2)
		if how == 'm' || how == 'M' {
			mode = 1
		}
		if how == 'T' || how == 'M' {
			ids = 2
		}
		enc := foreignStream(ws, mode, ids, salt)
		d := new(dawg.Dawg)
		err := d.GobDecode(enc)
		scribble(enc)
		return d, err
	}
	panic("bad provenance: builder " + string(how))
}

func transport(via byte, src, tgt *dawg.Dawg) error {
	switch via {
	case 'g':
		enc, err := src.GobEncode()
		if err != nil {
			return err
		}
		err = tgt.GobDecode(enc)
		scribble(enc)
		return err
	case 'e':
		var buf bytes.Buffer
		if err := gob.NewEncoder(&buf).Encode(src); err != nil {
			return err
		}
		return gob.NewDecoder(&buf).Decode(tgt)
	case '2':
		enc, err := src.GobEncode()
		if err != nil {
			return err
		}
		mid := new(dawg.Dawg)
		if err := mid.GobDecode(enc); err != nil {
			return err
		}
		scribble(enc)
		enc2, err := mid.GobEncode()
		if err != nil {
			return err
		}
		err = tgt.GobDecode(enc2)
		scribble(enc2)
		return err
	}
	panic("bad provenance: transport " + string(via))
}

// language lists the words of the dumped automaton in link order.
func language(dump []dawg.VerifNode, limit int) [][]byte {
	var out [][]byte
	var rec func(i int, w []byte)
	rec = func(i int, w []byte) {
		if len(out) > limit {
			return
		}
		if dump[i].Final {
			out = append(out, append([]byte{}, w...))
		}
		for j, k := range dump[i].KidIdx {
			rec(k, append(w, dump[i].Labels[j]))
		}
	}
	rec(0, nil)
	return out
}

// a result held by the caller while further calls are made
type held struct {
	what string
	w    [][]byte
	i    []int
	str  string
	dead bool // the caller has scribbled over it
}

// env: the Dawg under test with its words, the results held so far, the violations found inside
// callbacks
type env struct {
	d     *dawg.Dawg
	words [][]byte
	held  []*held
	viol  []hx.OracleViolation
	nests int
}

func (e *env) hold(what string, w [][]byte, i []int) string {
	h := &held{what: what, w: w, i: i, str: solnString(w, i)}
	e.held = append(e.held, h)
	// the caller extends each returned word with append (the returned slice headers are kept as
	// they are): a word's spare capacity, if it has any, must be its own - no other returned
	// value may change.  Search's doc comment puts no restriction on the use of the results.
	for k := range w {
		ext := append(w[k], 0xa5, 0x5a, 0xa5)
		_ = append(ext[:len(w[k])+1], 0x3c) // and once more from the middle of the extension
	}
	for k := len(w) - 1; k >= 0; k-- {
		_ = append(w[k], bytes.Repeat([]byte{0xc3}, 1+k%9)...)
	}
	if len(i) > 0 {
		_ = append(i, -7, -7)
	}
	e.revalidate("the caller appending to the words returned by " + what)
	return h.str
}

// every result still held reads as it did when it was returned
func (e *env) revalidate(when string) {
	for _, h := range e.held {
		if h.dead {
			continue
		}
		if now := solnString(h.w, h.i); now != h.str {
			e.viol = append(e.viol, hx.Fail("C13:result-aliased", "the lists returned by %s changed by %s: %s, now %s", h.what, when, h.str, now))
			h.str = now
		}
	}
}

// blankQuery: one Search on e.d with a fresh all-blank pattern of length l (every word of that
// length, with its rank), result held and compared with the brute-force filter
func (e *env) blankQuery(what string, l int) {
	sp := []spec{{kind: 'P', body: make([]byte, l), blank: 0}}
	_, srch := newSearchers(sp, nil)
	w, i := e.d.Search(srch...)
	got := e.hold(what, w, i)
	if want, _ := bruteForce(sp, e.words); got != want {
		e.viol = append(e.viol, hx.Fail("C13:query-sequence", "%s (every word of length %d): Search returned %s, the matching words with ranks are %s", what, l, got, want))
	}
}

func (e *env) nested() {
	maxW := 0
	for _, w := range e.words {
		if len(w) > maxW {
			maxW = len(w)
		}
	}
	e.nests++
	e.blankQuery("a Search started inside a Step callback of another Search", (maxW+e.nests)%(maxW+1))
}

func newSearchers(specs []spec, e *env) ([]live, []dawg.Searcher) {
	ls := make([]live, len(specs))
	srch := make([]dawg.Searcher, len(specs))
	shared := map[string][]byte{}
	for i, sp := range specs {
		ls[i].sp = sp
		// the constructors keep the slices they are given: the caller does not write to them
		// any more; searchers with the same body are handed the very same slice (they only read)
		body, ok := shared[string(sp.body)]
		if !ok {
			body = append([]byte{}, sp.body...)
			shared[string(sp.body)] = body
		}
		var in dawg.Searcher
		switch {
		case sp.mod == 'u' && sp.kind == 'P':
			ls[i].up = &myPattern{pat: body, blank: sp.blank}
			in = ls[i].up
		case sp.mod == 'u':
			ls[i].ua = newMyAnagram(body, sp.blank)
			in = ls[i].ua
		case sp.kind == 'P':
			ls[i].p = dawg.NewPatternSearcher(body, sp.blank)
			in = ls[i].p
		default:
			ls[i].a = dawg.NewAnagramSearcher(body, sp.blank)
			in = ls[i].a
		}
		switch sp.mod {
		case 'w', 'n':
			ls[i].wr = newWrap(in)
			if sp.mod == 'n' && e != nil {
				ls[i].wr.nestEvery = 1 + len(sp.body)%3
				ls[i].wr.nestLeft = 3
				ls[i].wr.nest = e.nested
			}
			in = ls[i].wr
		case 'x': // a manual walk: allowed Steps along the body and a stored word, then back
			walk := append([]byte{}, sp.body...)
			if e != nil && len(e.words) > 0 {
				walk = append(walk, e.words[len(e.words)/2]...)
			}
			n := 0
			for _, b := range walk {
				if in.AllowStep(b) {
					in.Step(b)
					n++
				}
			}
			in.AllowWord()
			for ; n > 0; n-- {
				in.Backstep()
			}
		}
		srch[i] = in
	}
	return ls, srch
}

// protocol of the recording wrappers after a run that returned n words
func settle(res *hx.Result, ls []live, run string, n int) {
	for k, l := range ls {
		if l.wr == nil {
			continue
		}
		if l.sp.mod == 'n' {
			l.wr.nestLeft = 3
		}
		if msg := l.wr.settle(n); msg != "" {
			res.Viol = append(res.Viol, hx.Fail("C13:searcher-protocol", "%s, user-defined searcher %d (%s): %s", run, k, l.sp.String(), msg))
		}
	}
}

// brute-force oracle on a word list
func bruteForce(specs []spec, words [][]byte) (string, int) {
	var ow [][]byte
	var oi []int
	for k, w := range words {
		ok := true
		for _, sp := range specs {
			if !sp.matches(w) {
				ok = false
				break
			}
		}
		if ok {
			ow = append(ow, w)
			oi = append(oi, k)
		}
	}
	return solnString(ow, oi), len(ow)
}

// side object (the Dawg of the other word list, or the source after it was encoded): one search
// with fresh searcher objects against the brute-force filter
func sideSearch(res *hx.Result, key, what string, d *dawg.Dawg, specs []spec, words [][]byte) {
	e := &env{d: d, words: words}
	ls, srch := newSearchers(specs, e)
	w, i := d.Search(srch...)
	got := solnString(w, i)
	if want, _ := bruteForce(specs, words); got != want {
		res.Viol = append(res.Viol, hx.Fail(key, "%s: Search returned %s, the matching words with ranks are %s", what, got, want))
	}
	settle(res, ls, what, len(w))
	res.Viol = append(res.Viol, e.viol...)
}

// obtain builds the Dawg object to be searched in the way pv says.
func obtain(res *hx.Result, pv prov, specs []spec, words [][]byte) (*dawg.Dawg, string) {
	var src *dawg.Dawg
	var err error
	if pv.src == 'r' {
		var b dawg.Builder
		first, e := addAll(&b, pv.prev)
		if e != nil {
			return nil, "new-error"
		}
		b.Initialise()
		src, err = addAll(&b, words)
		if err == nil {
			sideSearch(res, "C13:builder-reuse", "the Dawg finished before the Builder was initialised again", first, specs, pv.prev)
		}
	} else {
		src, err = build(pv.src, words)
	}
	if err != nil {
		return nil, "new-error"
	}
	if pv.via == '-' {
		return src, ""
	}
	var tgt *dawg.Dawg
	switch pv.tgt {
	case 'f':
		tgt = new(dawg.Dawg)
	case 's':
		tgt = src
	case 'n', 'z', 'i', 't', 'm':
		if tgt, err = build(pv.tgt, pv.prev); err != nil {
			return nil, "new-error"
		}
	case 'd':
		p0, e := dawg.New(copies(pv.prev))
		if e != nil {
			return nil, "new-error"
		}
		tgt = new(dawg.Dawg)
		if e := transport('g', p0, tgt); e != nil {
			return nil, "transport-error"
		}
	default:
		panic("bad provenance: target " + string(pv.tgt))
	}
	if pv.tgt != 'f' && pv.tgt != 's' {
		// the value is in use before it is decoded into
		sideSearch(res, "C13:previous-contents", "the Dawg of the other word list (before it is decoded into)", tgt, specs, pv.prev)
	}
	if err := transport(pv.via, src, tgt); err != nil {
		return nil, "transport-error"
	}
	if pv.tgt != 's' {
		sideSearch(res, "C13:source-after-encode", "the encoded Dawg after GobEncode", src, specs, words)
	}
	return tgt, ""
}

func exec(line string) hx.Result {
	pv, specs, words, bombAt := parseCase(line)
	var res hx.Result
	d, obs := obtain(&res, pv, specs, words)
	if d == nil {
		res.Obs = obs
		return res
	}
	// guard: whatever the way it was obtained, the object is a well-formed Dawg of the words
	before := d.VerifDump()
	if msg := wellFormed(before); msg != "" {
		res.Viol = append(res.Viol, hx.Fail("C13:dawg-wellformed", "the Dawg (provenance %q) is not well-formed: %s", pv.String(), msg))
	} else if lang := language(before, len(words)); !reflect.DeepEqual(lang, copies(words)) && (len(lang) > 0 || len(words) > 0) {
		res.Viol = append(res.Viol, hx.Fail("C13:dawg-language", "the Dawg (provenance %q) does not hold the words of the case (it holds %d words)", pv.String(), len(lang)))
	}
	e := &env{d: d, words: words}
	if bombAt > 0 {
		// a Search that ends in a panic of a user-defined searcher, recovered by the caller; the
		// library searchers of that run are dropped (they were left in the middle of a walk)
		_, srch := newSearchers(specs, nil)
		x := &bomb{k: bombAt}
		if bombAt%2 == 0 {
			srch = append([]dawg.Searcher{x}, srch...)
		} else {
			srch = append(srch, x)
		}
		func() {
			defer func() { recover() }()
			d.Search(srch...)
		}()
	}
	ls, srch := newSearchers(specs, e)
	kinds := ""
	mods := ""
	for _, sp := range specs {
		kinds += string(sp.kind)
	}
	for _, m := range "nuwx" {
		for _, sp := range specs {
			if sp.mod == byte(m) {
				mods += string(m)
				break
			}
		}
	}
	s0, c0 := states(ls, live.proj), states(ls, live.strict)
	w1, i1 := d.Search(srch...)
	r1 := e.hold("the first Search", w1, i1)
	settle(&res, ls, "first Search", len(w1))
	s1, c1 := states(ls, live.proj), states(ls, live.strict)
	w2, i2 := d.Search(srch...)
	r2 := e.hold("the second Search", w2, i2)
	settle(&res, ls, "second Search", len(w2))
	s2, c2 := states(ls, live.proj), states(ls, live.strict)
	res.Obs = fmt.Sprintf("s0=%s r1=%s s1=%s r2=%s s2=%s ## c0=%s c1=%s c2=%s", s0, r1, s1, r2, s2, c0, c1, c2)
	e.revalidate("the second Search")

	// brute-force oracle on the word list
	want, hits := bruteForce(specs, words)
	if r1 != want {
		res.Viol = append(res.Viol, hx.Fail("C13:oracle-first", "first Search returned %s, the matching words with ranks are %s", r1, want))
	}
	if r2 != want {
		res.Viol = append(res.Viol, hx.Fail("C13:oracle-second", "second Search (same searcher objects) returned %s, the matching words with ranks are %s", r2, want))
	}
	if s1 != s0 || s2 != s0 {
		res.Viol = append(res.Viol, hx.Fail("C13:searcher-state", "searchers not back in their initial state: before %s, after first %s, after second %s", s0, s1, s2))
	}
	// a third run with the same objects
	{
		w9, i9 := d.Search(srch...)
		r9 := e.hold("the third Search", w9, i9)
		settle(&res, ls, "third Search", len(w9))
		if r9 != want {
			res.Viol = append(res.Viol, hx.Fail("C13:oracle-third", "third Search (same searcher objects) returned %s, the matching words with ranks are %s", r9, want))
		}
		if s3 := states(ls, live.proj); s3 != s0 {
			res.Viol = append(res.Viol, hx.Fail("C13:searcher-state", "searchers not back in their initial state after the third Search: before %s, after %s", s0, s3))
		}
	}
	// the same searcher objects, as the two runs left them, on another Dawg (the Dawg of the
	// other word list of the provenance, or of the words without their last letters): they are
	// back in their initial state, so the answer is again the brute-force one
	other := pv.prev
	if len(other) == 0 {
		for _, w := range words {
			if len(w) > 0 {
				other = append(other, w[:len(w)-1])
			}
		}
		other = sortDedupe(other)
	}
	if od, err := dawg.New(copies(other)); err == nil {
		saved := e.d
		e.d, e.words = od, other // nested searches of this run go to the second Dawg
		w3, i3 := od.Search(srch...)
		r3 := e.hold("the Search on a second Dawg", w3, i3)
		e.d, e.words = saved, words
		settle(&res, ls, "Search on a second Dawg", len(w3))
		if want3, _ := bruteForce(specs, other); r3 != want3 {
			res.Viol = append(res.Viol, hx.Fail("C13:searchers-on-another-dawg", "the searcher objects used on a second Dawg (words %s): Search returned %s, the matching words with ranks are %s", solnString(other, make([]int, len(other))), r3, want3))
		}
	}
	e.revalidate("the Search on a second Dawg")

	// a sequence of further queries on the same Dawg with result sizes going down and up, every
	// result held; after each call the earlier results are read again, then the caller scribbles
	// over the oldest one (the library must not depend on slices it has handed out)
	maxW := 0
	for _, w := range words {
		if len(w) > maxW {
			maxW = len(w)
		}
	}
	var lens []int
	for _, l := range []int{maxW, 0, (maxW + 1) / 2, 1, maxW + 1, 2} {
		dup := false
		for _, m := range lens {
			dup = dup || m == l
		}
		if !dup {
			lens = append(lens, l)
		}
	}
	for k, l := range lens {
		what := fmt.Sprintf("query %d of the sequence", k+1)
		e.blankQuery(what, l)
		e.revalidate(what)
		for _, h := range e.held {
			if !h.dead {
				scribble(h.w...)
				for j := range h.i {
					h.i[j] = -1
				}
				h.dead = true
				break
			}
		}
	}
	{
		_, fresh := newSearchers(specs, nil)
		w4, i4 := d.Search(fresh...)
		if r4 := solnString(w4, i4); r4 != want {
			res.Viol = append(res.Viol, hx.Fail("C13:after-sequence", "Search with fresh searchers after the query sequence returned %s, the matching words with ranks are %s", r4, want))
		}
	}
	res.Viol = append(res.Viol, e.viol...)
	if !reflect.DeepEqual(before, d.VerifDump()) {
		res.Viol = append(res.Viol, hx.Fail("C13:dawg-changed", "the searches changed the Dawg"))
	}
	// non-triviality (DESIGN 4.4): a shared node or a word that is a proper prefix of another,
	// and at least one word returned
	np, pp := countPrefixes(words)
	shared := d.VerifNodeCount() < np+1
	res.Nontrivial = (shared || pp) && hits > 0
	longA := false
	for _, sp := range specs {
		if sp.kind == 'A' && len(sp.body) > 12 {
			longA = true
		}
	}
	if kinds == "" {
		kinds = "none"
	}
	res.Buckets = []string{
		"searchers:" + kinds,
		fmt.Sprintf("words<=%d", bucket(len(words))),
		fmt.Sprintf("hits<=%d", bucket(hits)),
		"provenance:" + string([]byte{pv.src, pv.via, pv.tgt}),
		"carriers:" + mods,
		fmt.Sprintf("recovered-panic:%v", bombAt > 0),
		fmt.Sprintf("shared:%v prefix:%v", shared, pp),
	}
	if longA {
		res.Buckets = append(res.Buckets, "anagram>12")
	}
	maxW, maxQ := 0, 0
	var used [256]bool
	for _, w := range words {
		if len(w) > maxW {
			maxW = len(w)
		}
		for _, c := range w {
			used[c] = true
		}
	}
	for _, sp := range specs {
		if len(sp.body) > maxQ {
			maxQ = len(sp.body)
		}
		for _, c := range sp.body {
			used[c] = true
		}
		used[sp.blank] = true
	}
	// largest modulus 2^k (k = 3..7) at which two different bytes of the case (letters of the
	// words, of the queries, blank bytes) collide
	coll := "none"
	for _, m := range []int{8, 16, 32, 64, 128} {
		var seen [128]bool
		for b := 0; b < 256; b++ {
			if used[b] {
				if seen[b%m] {
					coll = fmt.Sprint(m)
				}
				seen[b%m] = true
			}
		}
	}
	res.Buckets = append(res.Buckets, fmt.Sprintf("wordlen<=%d", bucket(maxW)), fmt.Sprintf("querylen<=%d", bucket(maxQ)), "bytes-collide-mod:"+coll)
	return res
}

// ---------------------------------------------------------------- generator

func sortDedupe(ws [][]byte) [][]byte {
	sort.Slice(ws, func(i, j int) bool { return bytes.Compare(ws[i], ws[j]) < 0 })
	out := ws[:0]
	for i, w := range ws {
		if i == 0 || !bytes.Equal(w, ws[i-1]) {
			out = append(out, w)
		}
	}
	return out
}

func randWord(r *hx.Rng, alpha []byte, n int) []byte {
	w := make([]byte, n)
	for i := range w {
		w[i] = alpha[r.Intn(len(alpha))]
	}
	return w
}

// two to four different bytes congruent modulo m (m = 8, 16, 32, 64, 128), sometimes with one
// unrelated letter: 'p' and '0', 'a' and 'A' and '!', 0x05 and 0x85, ...
func congruentAlphabet(r *hx.Rng) []byte {
	m := []int{8, 16, 32, 64, 64, 128}[r.Intn(6)]
	x := r.Intn(256)
	if r.Bool() {
		x = r.Range(0x20, 0x7e)
	}
	k := r.Range(2, 4)
	if k > 256/m {
		k = 256 / m
	}
	var a []byte
	for _, j := range r.Perm(256 / m)[:k] {
		a = append(a, byte((x+j*m)%256))
	}
	if r.Chance(1, 3) {
		c := byte(r.Intn(256))
		if bytes.IndexByte(a, c) < 0 {
			a = append(a, c)
		}
	}
	return a
}

// a byte congruent to a letter of the alphabet modulo 32, 64 or 128 and different from it
func congruentByte(r *hx.Rng, alpha []byte) byte {
	c := alpha[r.Intn(len(alpha))]
	m := []int{32, 64, 128}[r.Intn(3)]
	return byte((int(c) + m*r.Range(1, 256/m-1)) % 256)
}

// a letter for queries that is (usually) not a letter of the words
func outsideLetter(r *hx.Rng, alpha []byte) byte {
	switch r.Intn(3) {
	case 0:
		return 'z'
	case 1:
		return congruentByte(r, alpha)
	default:
		return byte(r.Intn(256))
	}
}

// bytes at the edges of the ranges a byte-handling fast path may single out
var edgeBytes = []byte{0x00, 0x01, 0x7f, 0x80, 0x81, 0xfe, 0xff, ' ', '\n', '0', '9', ',', ';', ':', '-', '?', '@', 'A', 'Z', '[', '`', 'a', 'z', '{'}

func randAlphabet(r *hx.Rng) []byte {
	switch r.Intn(11) {
	case 10:
		k := r.Range(2, 5)
		var a []byte
		for _, j := range r.Perm(len(edgeBytes))[:k] {
			a = append(a, edgeBytes[j])
		}
		return a
	case 6, 7, 8:
		return congruentAlphabet(r)
	case 9: // any bytes
		k := r.Range(2, 8)
		var a []byte
		for len(a) < k {
			c := byte(r.Intn(256))
			if bytes.IndexByte(a, c) < 0 {
				a = append(a, c)
			}
		}
		return a
	case 0:
		return []byte("a")
	case 1:
		return []byte("ab")
	case 2:
		return []byte("abc")
	case 3:
		return []byte("abcd")
	case 4: // full bytes, including 0x00 and 0xff
		k := r.Range(2, 6)
		a := []byte{0x00, 0xff}
		for len(a) < k {
			a = append(a, byte(r.Intn(256)))
		}
		return a
	default:
		return []byte{0x00, 'a', 'b', 0xff}
	}
}

// word sets with much sharing
func randWords(r *hx.Rng, alpha []byte) [][]byte {
	var ws [][]byte
	switch r.Intn(6) {
	case 0: // random short words
		n := r.Range(0, 12)
		for i := 0; i < n; i++ {
			ws = append(ws, randWord(r, alpha, r.Range(0, 5)))
		}
	case 1: // prefixes x suffixes: shared suffix nodes
		np, ns := r.Range(1, 4), r.Range(1, 4)
		var ps, ss [][]byte
		for i := 0; i < np; i++ {
			ps = append(ps, randWord(r, alpha, r.Range(0, 3)))
		}
		for i := 0; i < ns; i++ {
			ss = append(ss, randWord(r, alpha, r.Range(0, 3)))
		}
		for _, p := range ps {
			for _, s := range ss {
				if r.Chance(5, 6) {
					ws = append(ws, append(append([]byte{}, p...), s...))
				}
			}
		}
	case 2: // chain of prefixes of one word, plus some noise
		w := randWord(r, alpha, r.Range(1, 7))
		for i := 0; i <= len(w); i++ {
			if r.Chance(3, 4) {
				ws = append(ws, append([]byte{}, w[:i]...))
			}
		}
		for i := r.Intn(3); i > 0; i-- {
			ws = append(ws, randWord(r, alpha, r.Range(0, 4)))
		}
	case 3: // all words of one length over the alphabet, thinned: maximal sharing
		if len(alpha) > 3 {
			alpha = alpha[:3]
		}
		n := r.Range(1, 3)
		idx := make([]int, n)
		for {
			w := make([]byte, n)
			for i, j := range idx {
				w[i] = alpha[j]
			}
			if r.Chance(4, 5) {
				ws = append(ws, w)
			}
			i := n - 1
			for ; i >= 0; i-- {
				idx[i]++
				if idx[i] < len(alpha) {
					break
				}
				idx[i] = 0
			}
			if i < 0 {
				break
			}
		}
		if r.Bool() {
			ws = append(ws, []byte{})
		}
	case 4: // permutations and near-permutations of one multiset (anagram classes)
		base := randWord(r, alpha, r.Range(2, 5))
		n := r.Range(2, 8)
		for i := 0; i < n; i++ {
			w := append([]byte{}, base...)
			p := r.Perm(len(w))
			v := make([]byte, len(w))
			for k, j := range p {
				v[k] = w[j]
			}
			if r.Chance(1, 4) {
				v[r.Intn(len(v))] = alpha[r.Intn(len(alpha))]
			}
			if r.Chance(1, 6) {
				v = v[:len(v)-1]
			}
			ws = append(ws, v)
		}
	default: // the empty set, the empty word, single words
		switch r.Intn(3) {
		case 0:
		case 1:
			ws = append(ws, []byte{})
		default:
			ws = append(ws, randWord(r, alpha, r.Range(0, 4)))
		}
	}
	return sortDedupe(ws)
}

func randBlank(r *hx.Rng, alpha []byte) byte {
	switch r.Intn(7) {
	case 5, 6: // collides with a letter modulo 32/64/128 (and may be another letter of the words)
		return congruentByte(r, alpha)
	case 0: // a letter of the alphabet: the blank byte occurs as a real letter in the words
		return alpha[r.Intn(len(alpha))]
	case 1:
		return 0x00
	case 2:
		return 0xff
	default:
		return '?'
	}
}

// a searcher derived from the word w (so that it has a good chance to accept something), or
// a random one
func randSpec(r *hx.Rng, alpha []byte, w []byte, blank byte) spec {
	out := outsideLetter(r, alpha)
	kind := byte('P')
	if r.Bool() {
		kind = 'A'
	}
	var body []byte
	switch r.Intn(8) {
	case 0: // random, any length
		body = randWord(r, append(append([]byte{}, alpha...), blank, blank, out), r.Range(0, 6))
	case 1: // all blanks
		body = bytes.Repeat([]byte{blank}, r.Range(0, len(w)+1))
	default:
		body = append([]byte{}, w...)
		for i := range body {
			if r.Chance(1, 3) {
				body[i] = blank
			}
		}
		if kind == 'A' {
			p := r.Perm(len(body))
			v := make([]byte, len(body))
			for k, j := range p {
				v[k] = body[j]
			}
			body = v
		}
		switch r.Intn(10) {
		case 0: // one longer
			body = append(body, alpha[r.Intn(len(alpha))])
		case 1: // one shorter
			if len(body) > 0 {
				body = body[:len(body)-1]
			}
		case 2: // a letter outside the alphabet
			if len(body) > 0 {
				body[r.Intn(len(body))] = out
			}
		case 3: // one letter changed
			if len(body) > 0 {
				body[r.Intn(len(body))] = alpha[r.Intn(len(alpha))]
			}
		}
	}
	return spec{kind: kind, body: body, blank: blank}
}

// ---------------------------------------------------------------- provenance

var provSrcs = []byte("nzirtTmMjJ")
var provVias = []byte("ge2")
var provTgts = []byte("fnzidstm")

// the other word list (what the decoded-into value held before / what a reused Builder built
// first): shorter words, longer words, unrelated words, the same words, nothing, only the empty
// word; with and without the empty word
func prevWords(r *hx.Rng, alpha []byte, words [][]byte, kind int) [][]byte {
	maxLen := 0
	for _, w := range words {
		if len(w) > maxLen {
			maxLen = len(w)
		}
	}
	var ws [][]byte
	switch kind % 6 {
	case 0: // truncations: every word strictly shorter than the longest of the final list
		l := 0
		if maxLen > 1 {
			l = r.Range(0, maxLen-1)
			if r.Bool() {
				l = maxLen - 1
			}
		}
		for _, w := range words {
			if len(w) > l {
				w = w[:l]
			}
			if r.Chance(5, 6) {
				ws = append(ws, append([]byte{}, w...))
			}
		}
	case 1: // extensions: longer words
		for _, w := range words {
			ws = append(ws, append(append([]byte{}, w...), randWord(r, alpha, r.Range(1, 3))...))
		}
	case 2:
		ws = randWords(r, alpha)
	case 3:
		for _, w := range words {
			ws = append(ws, append([]byte{}, w...))
		}
	case 4:
	default:
		ws = append(ws, []byte{})
	}
	ws = sortDedupe(ws)
	if kind%6 < 4 && r.Chance(1, 3) { // toggle the empty word
		if len(ws) > 0 && len(ws[0]) == 0 {
			ws = ws[1:]
		} else {
			ws = append([][]byte{{}}, ws...)
		}
	}
	return ws
}

// carriers: which Go objects carry the descriptions (library searcher, user-defined wrapper, with
// nested searches, independent user implementation, library searcher after a manual walk), and
// now and then a recovered panic of a user-defined searcher before the observed runs
func carriers(r *hx.Rng, specs []spec, p int) []spec {
	out := append([]spec{}, specs...)
	for i := range out {
		if r.Chance(1, p) {
			out[i].mod = "wnux"[r.Intn(4)]
		}
	}
	if r.Chance(1, 3*p) {
		k := r.Range(1, 12)
		if r.Bool() {
			k = []int{15, 16, 17, 31, 32, 33, 63, 64, 65, 127, 128, 129, 255}[r.Intn(13)]
		}
		out = append(out, spec{kind: 'X', body: nil, blank: byte(k)})
	}
	return out
}

func randProv(r *hx.Rng, alpha []byte, words [][]byte) prov {
	pv := prov{src: provSrcs[r.Intn(len(provSrcs))], via: '-', tgt: '-'}
	if r.Chance(2, 3) {
		pv.via = provVias[r.Intn(3)]
		pv.tgt = provTgts[r.Intn(len(provTgts))]
	}
	if pv.src == 'r' || (pv.via != '-' && pv.tgt != 'f' && pv.tgt != 's') {
		pv.prev = prevWords(r, alpha, words, r.Intn(6))
	}
	return pv
}

// a list of words around the length n (n >= 2) that share long prefixes: permutations of the
// tail of one word, branches leaving it near the end, prefixes, extensions, and a word sorting
// after all of these, so that a query of about n letters walks n deep, passes skipped branches
// down there and reports words (with ranks) after them
func deepWords(r *hx.Rng, alpha []byte, n int) (base []byte, words [][]byte) {
	base = randWord(r, alpha, n)
	ws := [][]byte{base}
	cp := func(w []byte) []byte { return append([]byte{}, w...) }
	for k := r.Range(1, 5); k > 0; k-- { // same multiset, long common prefix
		v := cp(base)
		t := r.Range(2, 4)
		if t > n {
			t = n
		}
		tail := v[n-t:]
		for i, j := range r.Perm(t) {
			tail[i] = base[n-t+j]
		}
		ws = append(ws, v)
	}
	for k := r.Range(1, 4); k > 0; k-- { // a branch leaving base within the last letters
		cut := n - r.Range(1, 3)
		if cut < 0 {
			cut = 0
		}
		v := append(cp(base[:cut]), randWord(r, alpha, r.Range(1, 4))...)
		ws = append(ws, v)
	}
	for k := r.Intn(3); k > 0; k-- { // whole permutations (anagram class)
		v := make([]byte, n)
		for i, j := range r.Perm(n) {
			v[i] = base[j]
		}
		ws = append(ws, v)
	}
	if r.Bool() {
		ws = append(ws, cp(base[:n-1]))
	}
	if r.Bool() {
		ws = append(ws, cp(base[:r.Intn(n)]))
	}
	if r.Bool() {
		ws = append(ws, append(cp(base), randWord(r, alpha, r.Range(1, 2))...))
	}
	if r.Chance(2, 3) { // later in the order: differs early, same length
		v := cp(base)
		v[r.Intn((n+3)/4)] = alpha[r.Intn(len(alpha))]
		ws = append(ws, v)
	}
	return base, sortDedupe(ws)
}

// a query of about the length of w that keeps most of w (few blanks, so that the search does not
// fan out over a deep automaton)
func deepSpec(r *hx.Rng, alpha []byte, w []byte, blank byte) spec {
	kind := byte('P')
	if r.Bool() {
		kind = 'A'
	}
	body := append([]byte{}, w...)
	n := len(body)
	for k := r.Intn(4); k > 0 && n > 0; k-- {
		i := r.Intn(n)
		if r.Bool() && n > 4 { // blanks near the end: several deep words match
			i = n - 1 - r.Intn(4)
		}
		body[i] = blank
	}
	if kind == 'A' && r.Chance(2, 3) {
		v := make([]byte, n)
		for i, j := range r.Perm(n) {
			v[i] = body[j]
		}
		body = v
	}
	switch r.Intn(8) {
	case 0:
		body = append(body, alpha[r.Intn(len(alpha))])
	case 1:
		if n > 0 {
			body = body[:n-1]
		}
	case 2:
		if n > 0 {
			body[r.Intn(n)] = outsideLetter(r, alpha)
		}
	}
	return spec{kind: kind, body: body, blank: blank}
}

func gen(g *hx.Gen) {
	r := g.Rng
	W := func(ss ...string) [][]byte {
		var ws [][]byte
		for _, s := range ss {
			ws = append(ws, []byte(s))
		}
		return sortDedupe(ws)
	}
	P := func(p string, blank byte) spec { return spec{kind: 'P', body: []byte(p), blank: blank} }
	A := func(a string, blank byte) spec { return spec{kind: 'A', body: []byte(a), blank: blank} }
	do := func(specs []spec, words [][]byte) { g.Emit(caseLine(plain, specs, words)) }
	doP := func(pv prov, specs []spec, words [][]byte) { g.Emit(caseLine(pv, specs, words)) }

	// corpus: the non-vacuity examples of Props/C13.v and the shapes the constructor's odd
	// comparator and its `i > 1` test can get wrong
	dict := W("", "a", "aa", "aab", "ab", "aba", "abb", "b", "ba", "baa", "bab", "bb", "bba", "tap", "taps", "top", "tops")
	do(nil, dict)
	do([]spec{P("t?p", '?')}, dict)
	do([]spec{P("t?ps", '?')}, dict)
	do([]spec{A("pat", '?')}, dict)
	do([]spec{A("spo?", '?'), P("t???", '?')}, dict)
	for _, a := range []string{"aa", "aab", "aba", "baa", "a?a", "?aa", "aa?", "bab", "abb", "bba", "ba", "ab", "??", "???", "a", "?", ""} {
		do([]spec{A(a, '?')}, dict)
		do([]spec{A(a, 'a')}, dict) // the blank byte is a letter of the words
		do([]spec{P(a, '?')}, dict)
		do([]spec{P(a, 'b')}, dict)
	}
	// anagrams longer than 12 (sort.Slice leaves insertion sort) with repeated letters
	long := W("aaaaaaabbbbbbb", "abababababababa", "abababababababab", "bbbbbbbaaaaaaa", "aabbaabbaabbaabb", "abcabcabcabcabc", "abcabcabcabcab")
	for _, a := range []string{"abababababababab", "bbbbbbbbaaaaaaaa", "aaaaaaa?bbbbbbbb", "bababababababa", "?b?b?b?b?b?b?b", "cbacbacbacbacba", "????????????????", "ccbbaaccbbaacc?"} {
		do([]spec{A(a, '?')}, long)
		do([]spec{A(a, '?'), P("a???????????????", '?')}, long)
	}

	// exhaustive small spaces
	exh := func(maxWord int, alpha []byte, maxPat int, palpha []byte, blank byte) {
		var all [][]byte
		var rec func(w []byte)
		rec = func(w []byte) {
			all = append(all, append([]byte{}, w...))
			if len(w) == maxWord {
				return
			}
			for _, c := range alpha {
				rec(append(w, c))
			}
		}
		rec(nil)
		all = sortDedupe(all)
		var pats [][]byte
		var recp func(w []byte)
		recp = func(w []byte) {
			pats = append(pats, append([]byte{}, w...))
			if len(w) == maxPat {
				return
			}
			for _, c := range palpha {
				recp(append(w, c))
			}
		}
		recp(nil)
		for mask := 0; mask < 1<<uint(len(all)); mask++ {
			var ws [][]byte
			for i, w := range all {
				if mask>>uint(i)&1 == 1 {
					ws = append(ws, w)
				}
			}
			for _, p := range pats {
				do([]spec{{kind: 'P', body: p, blank: blank}}, ws)
				do([]spec{{kind: 'A', body: p, blank: blank}}, ws)
			}
		}
		g.Exhaustive(fmt.Sprintf("all subsets of the words of length <= %d over %q x every pattern and every anagram of length <= %d over %q with blank %q",
			maxWord, alpha, maxPat, palpha, blank))
	}
	// two searchers combined, exhaustively: every pair of bodies, every pair of kinds
	exh2 := func(maxWord int, alpha []byte, maxPat int, palpha []byte, blank byte) {
		var all [][]byte
		var rec func(w []byte)
		rec = func(w []byte) {
			all = append(all, append([]byte{}, w...))
			if len(w) == maxWord {
				return
			}
			for _, c := range alpha {
				rec(append(w, c))
			}
		}
		rec(nil)
		all = sortDedupe(all)
		var pats [][]byte
		var recp func(w []byte)
		recp = func(w []byte) {
			pats = append(pats, append([]byte{}, w...))
			if len(w) == maxPat {
				return
			}
			for _, c := range palpha {
				recp(append(w, c))
			}
		}
		recp(nil)
		for mask := 0; mask < 1<<uint(len(all)); mask++ {
			var ws [][]byte
			for i, w := range all {
				if mask>>uint(i)&1 == 1 {
					ws = append(ws, w)
				}
			}
			for _, p := range pats {
				for _, q := range pats {
					do([]spec{{kind: 'P', body: p, blank: blank}, {kind: 'A', body: q, blank: blank}}, ws)
					do([]spec{{kind: 'A', body: p, blank: blank}, {kind: 'A', body: q, blank: blank}}, ws)
					do([]spec{{kind: 'A', body: p, blank: blank}, {kind: 'P', body: q, blank: blank}}, ws)
				}
			}
		}
		g.Exhaustive(fmt.Sprintf("all subsets of the words of length <= %d over %q x every pair of bodies of length <= %d over %q (pattern+anagram, anagram+anagram, anagram+pattern) with blank %q",
			maxWord, alpha, maxPat, palpha, blank))
	}
	if g.Thorough() {
		exh2(2, []byte("ab"), 2, []byte("ab?"), '?')
	} else {
		exh2(2, []byte("a"), 2, []byte("a?"), '?')
	}
	if g.Thorough() {
		exh(2, []byte("ab"), 3, []byte("ab?"), '?')
		exh(2, []byte("ab"), 3, []byte("ab"), 'b') // the blank byte is a letter
		exh(3, []byte("a"), 4, []byte("a?z"), '?')
	} else {
		exh(2, []byte("ab"), 2, []byte("ab?"), '?')
		exh(2, []byte("ab"), 2, []byte("ab"), 'b')
	}

	count := g.Pick(5000, 400000)
	for i := 0; i < count; i++ {
		alpha := randAlphabet(r)
		words := randWords(r, alpha)
		blank := randBlank(r, alpha)
		ns := 1
		switch r.Intn(10) {
		case 0:
			ns = 0
		case 1, 2, 3:
			ns = 2
		case 4:
			ns = 3
		}
		var base []byte
		if len(words) > 0 {
			base = words[r.Intn(len(words))]
			switch r.Intn(8) { // the implementation's own extremes: deepest walk, rank 0, last rank
			case 0, 1:
				for _, w := range words {
					if len(w) > len(base) {
						base = w
					}
				}
			case 2:
				base = words[0]
			case 3:
				base = words[len(words)-1]
			}
		}
		specs := make([]spec, ns)
		for k := range specs {
			if r.Chance(1, 8) && len(words) > 0 {
				base = words[r.Intn(len(words))]
			}
			bl := blank
			if r.Chance(1, 10) {
				bl = randBlank(r, alpha)
			}
			specs[k] = randSpec(r, alpha, base, bl)
		}
		specs = carriers(r, specs, 4)
		if r.Chance(1, 3) {
			doP(randProv(r, alpha, words), specs, words)
		} else {
			do(specs, words)
		}
	}

	// object provenance, systematically: one search scenario on the Dawg obtained in every way
	// (every builder; every transport x every kind of decoded-into value), the other word list
	// cycling through shorter / longer / unrelated / same / none / only the empty word
	countProv := g.Pick(300, 3000)
	for i := 0; i < countProv; i++ {
		alpha := randAlphabet(r)
		words := randWords(r, alpha)
		for t := 0; len(words) < 2 && t < 5; t++ {
			words = randWords(r, alpha)
		}
		if len(words) == 0 {
			words = [][]byte{randWord(r, alpha, r.Range(1, 4))}
		}
		blank := randBlank(r, alpha)
		base := words[r.Intn(len(words))]
		if r.Bool() { // a longest word: the query is longer than every word of a shorter list
			for _, w := range words {
				if len(w) > len(base) {
					base = w
				}
			}
		}
		specs := []spec{randSpec(r, alpha, base, blank)}
		if r.Chance(1, 4) {
			specs = append(specs, randSpec(r, alpha, base, blank))
		}
		if r.Bool() {
			specs = carriers(r, specs, 2)
		}
		k := r.Intn(6)
		for _, src := range provSrcs {
			pv := prov{src: src, via: '-', tgt: '-'}
			if src == 'r' {
				pv.prev = prevWords(r, alpha, words, k)
				k++
			}
			doP(pv, specs, words)
		}
		for _, via := range provVias {
			for _, tgt := range provTgts {
				pv := prov{src: provSrcs[r.Intn(len(provSrcs))], via: via, tgt: tgt}
				if tgt != 'f' && tgt != 's' {
					pv.prev = prevWords(r, alpha, words, k)
					k++
				}
				doP(pv, specs, words)
			}
		}
	}

	// long words and long queries at the lengths where buffers and bit sets change size
	lengths := []int{7, 8, 9, 15, 16, 17, 31, 32, 33, 63, 64, 65, 127, 128, 129, 255, 256, 257}
	perLength := g.Pick(96, 800)
	for _, n := range lengths {
		per := perLength
		if n > 100 {
			per = perLength / 8
		}
		for i := 0; i < per; i++ {
			var alpha []byte
			switch r.Intn(6) {
			case 5: // one letter nearly everywhere: its count in an anagram runs up to the length
				x, y := byte(r.Intn(256)), byte(r.Intn(256))
				alpha = append(bytes.Repeat([]byte{x}, 15), y)
				if r.Chance(1, 3) {
					alpha = []byte{x}
				}
			case 0:
				alpha = []byte("ab")
			case 1:
				alpha = []byte("abc")
			case 2: // about as many letters as the word is long: anagrams with many different letters
				k := n + r.Range(-1, 2)
				if k > 256 {
					k = 256
				}
				for _, c := range r.Perm(256)[:k] {
					alpha = append(alpha, byte(c))
				}
			default:
				alpha = randAlphabet(r)
			}
			m := n + r.Range(-1, 1)
			base, words := deepWords(r, alpha, m)
			blank := randBlank(r, alpha)
			specs := []spec{deepSpec(r, alpha, base, blank)}
			if r.Chance(1, 3) {
				specs = append(specs, deepSpec(r, alpha, words[r.Intn(len(words))], blank))
			}
			switch r.Intn(12) {
			case 0, 4: // nothing but blanks, as long as the words
				specs[0].body = bytes.Repeat([]byte{blank}, m)
			case 1, 5: // mostly blanks
				for j := range specs[0].body {
					if r.Chance(7, 8) {
						specs[0].body[j] = blank
					}
				}
			case 2: // a short query against long words
				specs[0].body = append([]byte{}, specs[0].body[:r.Intn(3)]...)
			case 3: // a long query against a few short words
				words = sortDedupe([][]byte{randWord(r, alpha, r.Range(0, 3)), randWord(r, alpha, r.Range(1, 3)), append([]byte{}, base[:r.Range(1, 2)]...)})
			}
			specs = carriers(r, specs, 4)
			if r.Chance(1, 2) {
				doP(randProv(r, alpha, words), specs, words)
			} else {
				do(specs, words)
			}
		}
	}

	// many searchers at once: either all derived from one stored word (so that words survive),
	// or all but one accepting everything of that length, the selective one anywhere in the list
	for _, ns := range []int{4, 7, 8, 9, 15, 16, 17, 31, 32, 33, 63, 64, 65} {
		for i := g.Pick(20, 80); i > 0; i-- {
			alpha := randAlphabet(r)
			words := randWords(r, alpha)
			if len(words) == 0 {
				words = [][]byte{randWord(r, alpha, r.Range(1, 5))}
			}
			blank := randBlank(r, alpha)
			base := words[r.Intn(len(words))]
			permissive := r.Bool()
			specs := make([]spec, ns)
			for k := range specs {
				body := append([]byte{}, base...)
				for j := range body {
					if permissive || r.Chance(1, 3) {
						body[j] = blank
					}
				}
				specs[k] = spec{kind: 'P', body: body, blank: blank}
				if r.Bool() {
					specs[k].kind = 'A'
					v := make([]byte, len(body))
					for a, b := range r.Perm(len(body)) {
						v[a] = body[b]
					}
					specs[k].body = v
				}
			}
			if permissive || r.Chance(1, 4) { // the one that decides
				k := r.Intn(ns)
				if r.Bool() {
					k = ns - 1 - r.Intn(2)
				}
				specs[k] = randSpec(r, alpha, base, blank)
			}
			do(carriers(r, specs, 6), words)
		}
	}

	// many words and many hits: (nearly) all words up to a length, the counts of words, of hits
	// and the ranks crossing 8 ... 4096 (16384 in thorough)
	shapes := [][2]int{{2, 3}, {2, 4}, {2, 5}, {2, 6}, {2, 7}, {2, 8}, {2, 9}, {2, 10}, {2, 11}, {3, 4}, {3, 5}, {3, 6}, {3, 7}, {4, 4}, {4, 5}}
	if g.Thorough() {
		shapes = append(shapes, [2]int{2, 12}, [2]int{2, 13}, [2]int{3, 8}, [2]int{4, 6})
	}
	for _, sh := range shapes {
		for i := g.Pick(10, 40); i > 0; i-- {
			alpha := randAlphabet(r)
			for len(alpha) < sh[0] {
				alpha = randAlphabet(r)
			}
			alpha = alpha[:sh[0]]
			var ws [][]byte
			var rec func(w []byte)
			rec = func(w []byte) {
				if len(w) == sh[1] || r.Chance(1, 16) {
					if r.Chance(15, 16) {
						ws = append(ws, append([]byte{}, w...))
					}
				}
				if len(w) == sh[1] {
					return
				}
				for _, c := range alpha {
					rec(append(w, c))
				}
			}
			rec(nil)
			words := sortDedupe(ws)
			if len(words) == 0 {
				continue
			}
			blank := randBlank(r, alpha)
			body := append([]byte{}, words[r.Intn(len(words))]...)
			for len(body) < sh[1] {
				body = append(body, blank)
			}
			kind := byte('P')
			if r.Bool() {
				kind = 'A'
			}
			switch r.Intn(3) {
			case 0: // many blanks: many hits
				for k := r.Range(sh[1]/2, sh[1]); k > 0; k-- {
					body[r.Intn(len(body))] = blank
				}
			case 1: // only the first letter fixed, to the last letter in byte order: everything
				// before it (a subtree holding most of the words) is skipped, then many hits
				mx := alpha[0]
				for _, c := range alpha {
					if c > mx {
						mx = c
					}
				}
				for k := range body {
					body[k] = blank
				}
				body[0] = mx
				if blank == mx {
					kind = 'P' // all blanks then; keep it a pattern
				}
			default: // few blanks: most branches are skipped
				for k := r.Intn(3); k > 0; k-- {
					body[r.Intn(len(body))] = blank
				}
			}
			switch r.Intn(8) {
			case 0: // a tiny query against many words
				body = append([]byte{}, body[:r.Intn(3)]...)
			case 1: // longer than every word
				body = append(body, bytes.Repeat([]byte{blank}, []int{1, 2, 9, 60}[r.Intn(4)])...)
			case 2: // exactly one stored word: the first, the last, the middle one, or the word
				// right after a word that fails at its last letter
				j := []int{0, len(words) - 1, len(words) / 2, r.Intn(len(words))}[r.Intn(4)]
				body = append([]byte{}, words[j]...)
			}
			specs := carriers(r, []spec{{kind: kind, body: body, blank: blank}}, 4)
			if r.Chance(1, 2) {
				doP(randProv(r, alpha, words), specs, words)
			} else {
				do(specs, words)
			}
			// the same many words against a query of 0, 1 or 2 letters
			tiny := randWord(r, append(append([]byte{}, alpha...), blank, blank), r.Intn(3))
			tk := byte('P')
			if r.Chance(1, 3) {
				tk = 'A'
			}
			do([]spec{{kind: tk, body: tiny, blank: blank}}, words)
		}
	}

	// multiplicities: words and queries made of one or two letters, a^k, a^i b a^j, a^k b, b a^k,
	// a^i b^j, with k around 127/128, 255/256/257, 300 (and 511..513, 600 in thorough): a
	// letter's count in an anagram, the number of blanks and the pattern index cross those values;
	// the stored words have the same shapes, so that matches exist
	mults := []int{127, 128, 129, 255, 256, 257, 300}
	if g.Thorough() {
		mults = append(mults, 511, 512, 513, 600)
	}
	for _, k := range mults {
		for rep := g.Pick(3, 12); rep > 0; rep-- {
			alpha := randAlphabet(r)
			a, b := alpha[0], alpha[len(alpha)-1]
			if a == b {
				b = a + 1
			}
			rp := func(c byte, n int) []byte { return bytes.Repeat([]byte{c}, n) }
			cat := func(ps ...[]byte) []byte {
				var o []byte
				for _, p := range ps {
					o = append(o, p...)
				}
				return o
			}
			i := k / 2
			if r.Bool() {
				i = r.Range(1, k-1)
			}
			shapes := [][]byte{
				rp(a, k),
				cat(rp(a, i), []byte{b}, rp(a, k-i)),
				cat(rp(a, k), []byte{b}),
				cat([]byte{b}, rp(a, k)),
				cat(rp(a, i), rp(b, k-i)),
			}
			words := sortDedupe(append(copies(shapes),
				rp(a, k-1), rp(a, k+1), cat(rp(a, i+1), []byte{b}, rp(a, k-i-1)), cat(rp(a, k-1), []byte{b}, []byte{a}),
				cat([]byte{b}, rp(a, k-1)), cat(rp(a, i), rp(b, k-i+1)), rp(a, 3), []byte{b}))
			blank := randBlank(r, alpha)
			for _, sh := range shapes {
				body := append([]byte{}, sh...)
				kind := byte('A')
				switch r.Intn(4) {
				case 0: // as it is (for an anagram the constructor's sort then leaves several entries per letter)
				case 1:
					v := make([]byte, len(body))
					for x, y := range r.Perm(len(body)) {
						v[x] = body[y]
					}
					body = v
				case 2:
					for n := r.Range(1, 3); n > 0; n-- {
						body[r.Intn(len(body))] = blank
					}
				default:
					kind = 'P'
					for n := r.Intn(3); n > 0; n-- {
						body[r.Intn(len(body))] = blank
					}
				}
				specs := []spec{{kind: kind, body: body, blank: blank}}
				if r.Chance(1, 4) {
					specs = append(specs, spec{kind: 'A', body: append([]byte{}, sh...), blank: blank})
				}
				specs = carriers(r, specs, 6)
				if r.Chance(1, 3) {
					doP(randProv(r, alpha, words), specs, words)
				} else {
					do(specs, words)
				}
			}
		}
	}

	// hubs: a root (and one inner node) with 127..256 outgoing links
	for _, deg := range []int{127, 128, 129, 255, 256} {
		for i := g.Pick(2, 10); i > 0; i-- {
			letters := r.Perm(256)[:deg]
			sort.Ints(letters)
			var ws [][]byte
			hub := byte(letters[r.Intn(deg)])
			for _, c := range letters {
				ws = append(ws, []byte{byte(c)})
				if r.Chance(1, 2) {
					ws = append(ws, []byte{hub, byte(c)})
				}
				if r.Chance(1, 8) {
					ws = append(ws, []byte{byte(c), hub})
				}
			}
			words := sortDedupe(ws)
			alpha := []byte{hub, byte(letters[0]), byte(letters[deg-1]), byte(letters[r.Intn(deg)])}
			blank := randBlank(r, alpha)
			specs := []spec{randSpec(r, alpha, words[r.Intn(len(words))], blank)}
			doP(randProv(r, alpha, words), specs, words)
			doP(plain, []spec{{kind: 'P', body: []byte{hub, blank}, blank: blank}}, words)
			doP(randProv(r, alpha, words), []spec{{kind: 'A', body: []byte{blank, hub}, blank: blank}}, words)
		}
	}
	// long words with repeated letters and anagrams of more than 12 letters
	countLong := g.Pick(300, 12000)
	for i := 0; i < countLong; i++ {
		alpha := []byte("ab")
		if r.Chance(1, 3) {
			alpha = []byte("abc")
		}
		n := r.Range(11, 18)
		base := randWord(r, alpha, n)
		var ws [][]byte
		for k := r.Range(1, 6); k > 0; k-- {
			p := r.Perm(n)
			v := make([]byte, n)
			for a, b := range p {
				v[a] = base[b]
			}
			if r.Chance(1, 5) {
				v[r.Intn(n)] = alpha[r.Intn(len(alpha))]
			}
			ws = append(ws, v)
			if r.Chance(1, 3) {
				ws = append(ws, append([]byte{}, v[:r.Intn(n)]...))
			}
		}
		words := sortDedupe(ws)
		blank := byte('?')
		if r.Chance(1, 6) {
			blank = 'a'
		}
		specs := []spec{randSpec(r, alpha, base, blank)}
		specs[0].kind = 'A'
		if r.Chance(1, 3) {
			specs = append(specs, randSpec(r, alpha, words[r.Intn(len(words))], blank))
		}
		do(specs, words)
	}
}

func main() {
	hx.Main(hx.Prop{
		Rule:        "case = strictly increasing word list + list of pattern/anagram searchers + the way the Dawg object is obtained (New, zero/initialised/reused Builder, GobDecode direct / through encoding/gob / two generations into a fresh value, into a Dawg that held another word list, into the source itself), Search run twice with the same searcher objects, then once on another Dawg; non-trivial = the Dawg has a shared node (VerifNodeCount < number of distinct prefixes + 1) or some word is a proper prefix of another, and the search returns at least one word; distinct by case text",
		Gen:         gen,
		Exec:        exec,
		CaseTimeout: 5 * time.Second,
		MemMB:       2048,
	})
}
