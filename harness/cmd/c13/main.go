// Command c13 exercises (*dawg.Dawg).Search with PatternSearcher / AnagramSearcher objects
// (property C13): every case builds a Dawg from a strictly increasing word list, creates the
// searcher objects once, runs Search twice with the same objects and prints both result lists
// and the state of the searchers before, between and after the runs.  On the Go side the
// results are also checked against a brute-force filter of the word list.
//
// Case:  <searchers>;tok tok tok
// <searchers> = comma separated list (possibly empty) of P:<hex pattern>:<hex blank> or
// A:<hex anagram>:<hex blank> ("-" = empty); each token is a word in hex ("-" = the empty word).
package main

import (
	"bytes"
	"encoding/hex"
	"fmt"
	"reflect"
	"sort"
	"strings"
	"time"

	"github.com/Tom-Johnston/mamba/dawg"
	"verifharness/hx"
)

type spec struct {
	kind  byte // 'P' or 'A'
	body  []byte
	blank byte
}

func hexWord(w []byte) string {
	if len(w) == 0 {
		return "-"
	}
	return hex.EncodeToString(w)
}

func unhex(s string) []byte {
	if s == "-" || s == "" {
		return []byte{}
	}
	b, err := hex.DecodeString(s)
	if err != nil {
		panic("bad hex " + s)
	}
	return b
}

func (s spec) String() string {
	return fmt.Sprintf("%c:%s:%02x", s.kind, hexWord(s.body), s.blank)
}

func caseLine(specs []spec, words [][]byte) string {
	ss := make([]string, len(specs))
	for i, s := range specs {
		ss[i] = s.String()
	}
	ws := make([]string, len(words))
	for i, w := range words {
		ws[i] = hexWord(w)
	}
	return strings.Join(ss, ",") + ";" + strings.Join(ws, " ")
}

func parseCase(line string) ([]spec, [][]byte) {
	i := strings.LastIndex(line, ";")
	var specs []spec
	for _, t := range strings.Split(line[:i], ",") {
		if t == "" {
			continue
		}
		f := strings.Split(t, ":")
		if len(f) != 3 || len(f[0]) != 1 {
			panic("bad searcher " + t)
		}
		bl := unhex(f[2])
		if len(bl) != 1 {
			panic("bad blank " + t)
		}
		specs = append(specs, spec{kind: f[0][0], body: unhex(f[1]), blank: bl[0]})
	}
	var words [][]byte
	for _, t := range strings.Fields(line[i+1:]) {
		words = append(words, unhex(t))
	}
	return specs, words
}

// ---------------------------------------------------------------- independent oracle

func matchPattern(p []byte, blank byte, w []byte) bool {
	if len(p) != len(w) {
		return false
	}
	for i := range p {
		if p[i] != blank && p[i] != w[i] {
			return false
		}
	}
	return true
}

// counting form: same length and sum_b max(0, #_w(b) - #_nonblank-anagram(b)) <= #blanks
func matchAnagram(a []byte, blank byte, w []byte) bool {
	if len(a) != len(w) {
		return false
	}
	var have, need [256]int
	blanks := 0
	for _, c := range a {
		if c == blank {
			blanks++
		} else {
			have[c]++
		}
	}
	for _, c := range w {
		need[c]++
	}
	deficit := 0
	for b := 0; b < 256; b++ {
		if need[b] > have[b] {
			deficit += need[b] - have[b]
		}
	}
	return deficit <= blanks
}

func (s spec) matches(w []byte) bool {
	if s.kind == 'P' {
		return matchPattern(s.body, s.blank, w)
	}
	return matchAnagram(s.body, s.blank, w)
}

// ---------------------------------------------------------------- observation

type live struct {
	sp spec
	p  *dawg.PatternSearcher
	a  *dawg.AnagramSearcher
}

func (l live) proj() string {
	if l.p != nil {
		return fmt.Sprintf("p%d", l.p.VerifIndex())
	}
	letters, counts, blanks, target, path := l.a.VerifState()
	var tot [256]int
	var seen [256]bool
	for i, c := range letters {
		tot[c] += counts[i]
		seen[c] = true
	}
	var parts []string
	for b := 0; b < 256; b++ {
		if seen[b] {
			parts = append(parts, fmt.Sprintf("%02x:%d", b, tot[b]))
		}
	}
	return fmt.Sprintf("a%d/%d/%d/%s", blanks, target, len(path), strings.Join(parts, "."))
}

func (l live) strict() string {
	if l.p != nil {
		return "p"
	}
	letters, counts, _, target, _ := l.a.VerifState()
	if target > 12 {
		return "-" // sort.Slice leaves insertion sort; the entry layout is not modelled
	}
	parts := make([]string, len(letters))
	for i := range letters {
		parts[i] = fmt.Sprintf("%02x:%d", letters[i], counts[i])
	}
	return "a" + strings.Join(parts, ".")
}

func states(ls []live, f func(live) string) string {
	s := make([]string, len(ls))
	for i, l := range ls {
		s[i] = f(l)
	}
	return strings.Join(s, "|")
}

func solnString(ws [][]byte, ids []int) string {
	if len(ws) != len(ids) {
		return fmt.Sprintf("LENGTHS-DIFFER(%d,%d)", len(ws), len(ids))
	}
	s := make([]string, len(ws))
	for i := range ws {
		s[i] = fmt.Sprintf("%s:%d", hexWord(ws[i]), ids[i])
	}
	return strings.Join(s, ",")
}

func countPrefixes(words [][]byte) (prefixes int, properPrefix bool) {
	set := map[string]bool{}
	full := map[string]bool{}
	for _, w := range words {
		full[string(w)] = true
	}
	for _, w := range words {
		for i := 1; i <= len(w); i++ {
			set[string(w[:i])] = true
		}
		for i := 0; i < len(w); i++ {
			if full[string(w[:i])] {
				properPrefix = true
			}
		}
	}
	return len(set), properPrefix
}

func bucket(n int) int {
	b := 1
	for b < n {
		b *= 2
	}
	return b
}

// wellFormed checks the hypothesis of the theorems on the implementation's automaton: acyclic,
// labels strictly increasing at every node, numWords = size of the right language.
func wellFormed(dump []dawg.VerifNode) string {
	state := make([]int, len(dump)) // 0 new, 1 on the path, 2 done
	size := make([]int, len(dump))
	var visit func(i int) string
	visit = func(i int) string {
		if state[i] == 1 {
			return fmt.Sprintf("cycle through node %d", dump[i].ID)
		}
		if state[i] == 2 {
			return ""
		}
		state[i] = 1
		n := dump[i]
		if len(n.Labels) != len(n.KidIdx) {
			return fmt.Sprintf("node %d: %d labels, %d links", n.ID, len(n.Labels), len(n.KidIdx))
		}
		total := 0
		if n.Final {
			total = 1
		}
		for j, k := range n.KidIdx {
			if j > 0 && n.Labels[j-1] >= n.Labels[j] {
				return fmt.Sprintf("node %d: labels not strictly increasing", n.ID)
			}
			if msg := visit(k); msg != "" {
				return msg
			}
			total += size[k]
		}
		if n.NumWords != total {
			return fmt.Sprintf("node %d: numWords %d, right language has %d words", n.ID, n.NumWords, total)
		}
		size[i] = total
		state[i] = 2
		return ""
	}
	if len(dump) == 0 {
		return "empty dump"
	}
	return visit(0)
}

func exec(line string) hx.Result {
	specs, words := parseCase(line)
	var res hx.Result
	d, err := dawg.New(words)
	if err != nil {
		res.Obs = "new-error"
		return res
	}
	before := d.VerifDump()
	if msg := wellFormed(before); msg != "" {
		res.Viol = append(res.Viol, hx.Fail("C13:dawg-wellformed", "the Dawg built by dawg.New is not well-formed: %s", msg))
	}
	ls := make([]live, len(specs))
	srch := make([]dawg.Searcher, len(specs))
	kinds := ""
	for i, sp := range specs {
		ls[i].sp = sp
		// the constructors keep the slices they are given: hand each its own copy
		body := append([]byte{}, sp.body...)
		if sp.kind == 'P' {
			ls[i].p = dawg.NewPatternSearcher(body, sp.blank)
			srch[i] = ls[i].p
		} else {
			ls[i].a = dawg.NewAnagramSearcher(body, sp.blank)
			srch[i] = ls[i].a
		}
		kinds += string(sp.kind)
	}
	s0, c0 := states(ls, live.proj), states(ls, live.strict)
	w1, i1 := d.Search(srch...)
	r1 := solnString(w1, i1)
	s1, c1 := states(ls, live.proj), states(ls, live.strict)
	w2, i2 := d.Search(srch...)
	r2 := solnString(w2, i2)
	s2, c2 := states(ls, live.proj), states(ls, live.strict)
	res.Obs = fmt.Sprintf("s0=%s r1=%s s1=%s r2=%s s2=%s ## c0=%s c1=%s c2=%s", s0, r1, s1, r2, s2, c0, c1, c2)

	// brute-force oracle on the word list
	var ow [][]byte
	var oi []int
	for k, w := range words {
		ok := true
		for _, sp := range specs {
			if !sp.matches(w) {
				ok = false
				break
			}
		}
		if ok {
			ow = append(ow, w)
			oi = append(oi, k)
		}
	}
	want := solnString(ow, oi)
	if r1 != want {
		res.Viol = append(res.Viol, hx.Fail("C13:oracle-first", "first Search returned %s, the matching words with ranks are %s", r1, want))
	}
	if r2 != want {
		res.Viol = append(res.Viol, hx.Fail("C13:oracle-second", "second Search (same searcher objects) returned %s, the matching words with ranks are %s", r2, want))
	}
	if s1 != s0 || s2 != s0 {
		res.Viol = append(res.Viol, hx.Fail("C13:searcher-state", "searchers not back in their initial state: before %s, after first %s, after second %s", s0, s1, s2))
	}
	if !reflect.DeepEqual(before, d.VerifDump()) {
		res.Viol = append(res.Viol, hx.Fail("C13:dawg-changed", "Search changed the Dawg"))
	}
	// non-triviality (DESIGN 4.4): a shared node or a word that is a proper prefix of another,
	// and at least one word returned
	np, pp := countPrefixes(words)
	shared := d.VerifNodeCount() < np+1
	res.Nontrivial = (shared || pp) && len(ow) > 0
	longA := false
	for _, sp := range specs {
		if sp.kind == 'A' && len(sp.body) > 12 {
			longA = true
		}
	}
	if kinds == "" {
		kinds = "none"
	}
	res.Buckets = []string{
		"searchers:" + kinds,
		fmt.Sprintf("words<=%d", bucket(len(words))),
		fmt.Sprintf("hits<=%d", bucket(len(ow))),
		fmt.Sprintf("shared:%v prefix:%v", shared, pp),
	}
	if longA {
		res.Buckets = append(res.Buckets, "anagram>12")
	}
	return res
}

// ---------------------------------------------------------------- generator

func sortDedupe(ws [][]byte) [][]byte {
	sort.Slice(ws, func(i, j int) bool { return bytes.Compare(ws[i], ws[j]) < 0 })
	out := ws[:0]
	for i, w := range ws {
		if i == 0 || !bytes.Equal(w, ws[i-1]) {
			out = append(out, w)
		}
	}
	return out
}

func randWord(r *hx.Rng, alpha []byte, n int) []byte {
	w := make([]byte, n)
	for i := range w {
		w[i] = alpha[r.Intn(len(alpha))]
	}
	return w
}

func randAlphabet(r *hx.Rng) []byte {
	switch r.Intn(6) {
	case 0:
		return []byte("a")
	case 1:
		return []byte("ab")
	case 2:
		return []byte("abc")
	case 3:
		return []byte("abcd")
	case 4: // full bytes, including 0x00 and 0xff
		k := r.Range(2, 6)
		a := []byte{0x00, 0xff}
		for len(a) < k {
			a = append(a, byte(r.Intn(256)))
		}
		return a
	default:
		return []byte{0x00, 'a', 'b', 0xff}
	}
}

// word sets with much sharing
func randWords(r *hx.Rng, alpha []byte) [][]byte {
	var ws [][]byte
	switch r.Intn(6) {
	case 0: // random short words
		n := r.Range(0, 12)
		for i := 0; i < n; i++ {
			ws = append(ws, randWord(r, alpha, r.Range(0, 5)))
		}
	case 1: // prefixes x suffixes: shared suffix nodes
		np, ns := r.Range(1, 4), r.Range(1, 4)
		var ps, ss [][]byte
		for i := 0; i < np; i++ {
			ps = append(ps, randWord(r, alpha, r.Range(0, 3)))
		}
		for i := 0; i < ns; i++ {
			ss = append(ss, randWord(r, alpha, r.Range(0, 3)))
		}
		for _, p := range ps {
			for _, s := range ss {
				if r.Chance(5, 6) {
					ws = append(ws, append(append([]byte{}, p...), s...))
				}
			}
		}
	case 2: // chain of prefixes of one word, plus some noise
		w := randWord(r, alpha, r.Range(1, 7))
		for i := 0; i <= len(w); i++ {
			if r.Chance(3, 4) {
				ws = append(ws, append([]byte{}, w[:i]...))
			}
		}
		for i := r.Intn(3); i > 0; i-- {
			ws = append(ws, randWord(r, alpha, r.Range(0, 4)))
		}
	case 3: // all words of one length over the alphabet, thinned: maximal sharing
		if len(alpha) > 3 {
			alpha = alpha[:3]
		}
		n := r.Range(1, 3)
		idx := make([]int, n)
		for {
			w := make([]byte, n)
			for i, j := range idx {
				w[i] = alpha[j]
			}
			if r.Chance(4, 5) {
				ws = append(ws, w)
			}
			i := n - 1
			for ; i >= 0; i-- {
				idx[i]++
				if idx[i] < len(alpha) {
					break
				}
				idx[i] = 0
			}
			if i < 0 {
				break
			}
		}
		if r.Bool() {
			ws = append(ws, []byte{})
		}
	case 4: // permutations and near-permutations of one multiset (anagram classes)
		base := randWord(r, alpha, r.Range(2, 5))
		n := r.Range(2, 8)
		for i := 0; i < n; i++ {
			w := append([]byte{}, base...)
			p := r.Perm(len(w))
			v := make([]byte, len(w))
			for k, j := range p {
				v[k] = w[j]
			}
			if r.Chance(1, 4) {
				v[r.Intn(len(v))] = alpha[r.Intn(len(alpha))]
			}
			if r.Chance(1, 6) {
				v = v[:len(v)-1]
			}
			ws = append(ws, v)
		}
	default: // the empty set, the empty word, single words
		switch r.Intn(3) {
		case 0:
		case 1:
			ws = append(ws, []byte{})
		default:
			ws = append(ws, randWord(r, alpha, r.Range(0, 4)))
		}
	}
	return sortDedupe(ws)
}

func randBlank(r *hx.Rng, alpha []byte) byte {
	switch r.Intn(5) {
	case 0: // a letter of the alphabet: the blank byte occurs as a real letter in the words
		return alpha[r.Intn(len(alpha))]
	case 1:
		return 0x00
	case 2:
		return 0xff
	default:
		return '?'
	}
}

// a searcher derived from the word w (so that it has a good chance to accept something), or
// a random one
func randSpec(r *hx.Rng, alpha []byte, w []byte, blank byte) spec {
	kind := byte('P')
	if r.Bool() {
		kind = 'A'
	}
	var body []byte
	switch r.Intn(8) {
	case 0: // random, any length
		body = randWord(r, append(append([]byte{}, alpha...), blank, blank, 'z'), r.Range(0, 6))
	case 1: // all blanks
		body = bytes.Repeat([]byte{blank}, r.Range(0, len(w)+1))
	default:
		body = append([]byte{}, w...)
		for i := range body {
			if r.Chance(1, 3) {
				body[i] = blank
			}
		}
		if kind == 'A' {
			p := r.Perm(len(body))
			v := make([]byte, len(body))
			for k, j := range p {
				v[k] = body[j]
			}
			body = v
		}
		switch r.Intn(10) {
		case 0: // one longer
			body = append(body, alpha[r.Intn(len(alpha))])
		case 1: // one shorter
			if len(body) > 0 {
				body = body[:len(body)-1]
			}
		case 2: // a letter outside the alphabet
			if len(body) > 0 {
				body[r.Intn(len(body))] = 'z'
			}
		case 3: // one letter changed
			if len(body) > 0 {
				body[r.Intn(len(body))] = alpha[r.Intn(len(alpha))]
			}
		}
	}
	return spec{kind: kind, body: body, blank: blank}
}

func gen(g *hx.Gen) {
	r := g.Rng
	W := func(ss ...string) [][]byte {
		var ws [][]byte
		for _, s := range ss {
			ws = append(ws, []byte(s))
		}
		return sortDedupe(ws)
	}
	P := func(p string, blank byte) spec { return spec{'P', []byte(p), blank} }
	A := func(a string, blank byte) spec { return spec{'A', []byte(a), blank} }
	do := func(specs []spec, words [][]byte) { g.Emit(caseLine(specs, words)) }

	// corpus: the non-vacuity examples of Props/C13.v and the shapes the constructor's odd
	// comparator and its `i > 1` test can get wrong
	dict := W("", "a", "aa", "aab", "ab", "aba", "abb", "b", "ba", "baa", "bab", "bb", "bba", "tap", "taps", "top", "tops")
	do(nil, dict)
	do([]spec{P("t?p", '?')}, dict)
	do([]spec{P("t?ps", '?')}, dict)
	do([]spec{A("pat", '?')}, dict)
	do([]spec{A("spo?", '?'), P("t???", '?')}, dict)
	for _, a := range []string{"aa", "aab", "aba", "baa", "a?a", "?aa", "aa?", "bab", "abb", "bba", "ba", "ab", "??", "???", "a", "?", ""} {
		do([]spec{A(a, '?')}, dict)
		do([]spec{A(a, 'a')}, dict) // the blank byte is a letter of the words
		do([]spec{P(a, '?')}, dict)
		do([]spec{P(a, 'b')}, dict)
	}
	// anagrams longer than 12 (sort.Slice leaves insertion sort) with repeated letters
	long := W("aaaaaaabbbbbbb", "abababababababa", "abababababababab", "bbbbbbbaaaaaaa", "aabbaabbaabbaabb", "abcabcabcabcabc", "abcabcabcabcab")
	for _, a := range []string{"abababababababab", "bbbbbbbbaaaaaaaa", "aaaaaaa?bbbbbbbb", "bababababababa", "?b?b?b?b?b?b?b", "cbacbacbacbacba", "????????????????", "ccbbaaccbbaacc?"} {
		do([]spec{A(a, '?')}, long)
		do([]spec{A(a, '?'), P("a???????????????", '?')}, long)
	}

	// exhaustive small spaces
	exh := func(maxWord int, alpha []byte, maxPat int, palpha []byte, blank byte) {
		var all [][]byte
		var rec func(w []byte)
		rec = func(w []byte) {
			all = append(all, append([]byte{}, w...))
			if len(w) == maxWord {
				return
			}
			for _, c := range alpha {
				rec(append(w, c))
			}
		}
		rec(nil)
		all = sortDedupe(all)
		var pats [][]byte
		var recp func(w []byte)
		recp = func(w []byte) {
			pats = append(pats, append([]byte{}, w...))
			if len(w) == maxPat {
				return
			}
			for _, c := range palpha {
				recp(append(w, c))
			}
		}
		recp(nil)
		for mask := 0; mask < 1<<uint(len(all)); mask++ {
			var ws [][]byte
			for i, w := range all {
				if mask>>uint(i)&1 == 1 {
					ws = append(ws, w)
				}
			}
			for _, p := range pats {
				do([]spec{{'P', p, blank}}, ws)
				do([]spec{{'A', p, blank}}, ws)
			}
		}
		g.Exhaustive(fmt.Sprintf("all subsets of the words of length <= %d over %q x every pattern and every anagram of length <= %d over %q with blank %q",
			maxWord, alpha, maxPat, palpha, blank))
	}
	// two searchers combined, exhaustively: every pair of bodies, every pair of kinds
	exh2 := func(maxWord int, alpha []byte, maxPat int, palpha []byte, blank byte) {
		var all [][]byte
		var rec func(w []byte)
		rec = func(w []byte) {
			all = append(all, append([]byte{}, w...))
			if len(w) == maxWord {
				return
			}
			for _, c := range alpha {
				rec(append(w, c))
			}
		}
		rec(nil)
		all = sortDedupe(all)
		var pats [][]byte
		var recp func(w []byte)
		recp = func(w []byte) {
			pats = append(pats, append([]byte{}, w...))
			if len(w) == maxPat {
				return
			}
			for _, c := range palpha {
				recp(append(w, c))
			}
		}
		recp(nil)
		for mask := 0; mask < 1<<uint(len(all)); mask++ {
			var ws [][]byte
			for i, w := range all {
				if mask>>uint(i)&1 == 1 {
					ws = append(ws, w)
				}
			}
			for _, p := range pats {
				for _, q := range pats {
					do([]spec{{'P', p, blank}, {'A', q, blank}}, ws)
					do([]spec{{'A', p, blank}, {'A', q, blank}}, ws)
					do([]spec{{'A', p, blank}, {'P', q, blank}}, ws)
				}
			}
		}
		g.Exhaustive(fmt.Sprintf("all subsets of the words of length <= %d over %q x every pair of bodies of length <= %d over %q (pattern+anagram, anagram+anagram, anagram+pattern) with blank %q",
			maxWord, alpha, maxPat, palpha, blank))
	}
	if g.Thorough() {
		exh2(2, []byte("ab"), 2, []byte("ab?"), '?')
	} else {
		exh2(2, []byte("a"), 2, []byte("a?"), '?')
	}
	if g.Thorough() {
		exh(2, []byte("ab"), 3, []byte("ab?"), '?')
		exh(2, []byte("ab"), 3, []byte("ab"), 'b') // the blank byte is a letter
		exh(3, []byte("a"), 4, []byte("a?z"), '?')
	} else {
		exh(2, []byte("ab"), 2, []byte("ab?"), '?')
		exh(2, []byte("ab"), 2, []byte("ab"), 'b')
	}

	count := g.Pick(5000, 400000)
	for i := 0; i < count; i++ {
		alpha := randAlphabet(r)
		words := randWords(r, alpha)
		blank := randBlank(r, alpha)
		ns := 1
		switch r.Intn(10) {
		case 0:
			ns = 0
		case 1, 2, 3:
			ns = 2
		case 4:
			ns = 3
		}
		var base []byte
		if len(words) > 0 {
			base = words[r.Intn(len(words))]
		}
		specs := make([]spec, ns)
		for k := range specs {
			if r.Chance(1, 8) && len(words) > 0 {
				base = words[r.Intn(len(words))]
			}
			bl := blank
			if r.Chance(1, 10) {
				bl = randBlank(r, alpha)
			}
			specs[k] = randSpec(r, alpha, base, bl)
		}
		do(specs, words)
	}
	// long words with repeated letters and anagrams of more than 12 letters
	countLong := g.Pick(300, 12000)
	for i := 0; i < countLong; i++ {
		alpha := []byte("ab")
		if r.Chance(1, 3) {
			alpha = []byte("abc")
		}
		n := r.Range(11, 18)
		base := randWord(r, alpha, n)
		var ws [][]byte
		for k := r.Range(1, 6); k > 0; k-- {
			p := r.Perm(n)
			v := make([]byte, n)
			for a, b := range p {
				v[a] = base[b]
			}
			if r.Chance(1, 5) {
				v[r.Intn(n)] = alpha[r.Intn(len(alpha))]
			}
			ws = append(ws, v)
			if r.Chance(1, 3) {
				ws = append(ws, append([]byte{}, v[:r.Intn(n)]...))
			}
		}
		words := sortDedupe(ws)
		blank := byte('?')
		if r.Chance(1, 6) {
			blank = 'a'
		}
		specs := []spec{randSpec(r, alpha, base, blank)}
		specs[0].kind = 'A'
		if r.Chance(1, 3) {
			specs = append(specs, randSpec(r, alpha, words[r.Intn(len(words))], blank))
		}
		do(specs, words)
	}
}

func main() {
	hx.Main(hx.Prop{
		Rule:        "case = strictly increasing word list + list of pattern/anagram searchers, Search run twice with the same searcher objects; non-trivial = the Dawg has a shared node (VerifNodeCount < number of distinct prefixes + 1) or some word is a proper prefix of another, and the search returns at least one word; distinct by case text",
		Gen:         gen,
		Exec:        exec,
		CaseTimeout: 5 * time.Second,
		MemMB:       2048,
	})
}
