package main

// A Dawg written by "another producer": the byte format of GobEncode admits any well-formed
// automaton of the word set (not only the minimal one the Builder makes) and any numbering of
// its nodes in which the root has the least id.  The stream is written here without calling the
// library, in the shape GobEncode writes (count, sorted id table, records in depth-first
// first-visit order, shortest integers); GobDecode of it gives a Dawg that the harness then
// guards (well-formed, language = the words) before it is searched.  The C13 theorems hold for
// every well-formed Dawg, so the expected answer is the model's search on the word list.

import (
	"fmt"
	"sort"
)

type fnode struct {
	id       uint64
	numWords int
	final    bool
	labels   []byte
	kids     []*fnode
	seen     bool
}

// mode: 0 the plain trie, 1 equal subtrees merged with probability 1/2 each (decided by the
// bits of salt), 2 all merged (minimal).  ids: 0 depth-first 0,1,2..., 1 root 0 and the others
// in reverse, 2 sparse and large (gaps up to 2^40).
func foreignStream(ws [][]byte, mode, ids int, salt uint64) []byte {
	next := func() uint64 { // splitmix64 on salt
		salt += 0x9e3779b97f4a7c15
		z := salt
		z = (z ^ (z >> 30)) * 0xbf58476d1ce4e5b9
		z = (z ^ (z >> 27)) * 0x94d049bb133111eb
		return z ^ (z >> 31)
	}
	root := &fnode{}
	for _, w := range ws {
		cur := root
		for _, c := range w {
			if k := len(cur.labels); k > 0 && cur.labels[k-1] == c {
				cur = cur.kids[k-1]
				continue
			}
			nn := &fnode{}
			cur.labels = append(cur.labels, c)
			cur.kids = append(cur.kids, nn)
			cur = nn
		}
		cur.final = true
	}
	reg := map[string]*fnode{}
	names := map[*fnode]int{}
	var fold func(n *fnode) *fnode
	fold = func(n *fnode) *fnode {
		n.numWords = 0
		if n.final {
			n.numWords = 1
		}
		sig := fmt.Sprint(n.final)
		for i, k := range n.kids {
			n.kids[i] = fold(k)
			n.numWords += n.kids[i].numWords
			sig += fmt.Sprintf("|%d:%d", n.labels[i], names[n.kids[i]])
		}
		if m, ok := reg[sig]; ok && (mode == 2 || mode == 1 && next()&1 == 1) {
			return m
		}
		names[n] = len(names) + 1
		if _, ok := reg[sig]; !ok {
			reg[sig] = n
		}
		return n
	}
	root = fold(root)
	var order []*fnode
	var visit func(n *fnode)
	visit = func(n *fnode) {
		if n.seen {
			return
		}
		n.seen = true
		order = append(order, n)
		for _, k := range n.kids {
			visit(k)
		}
	}
	visit(root)
	cur := uint64(0)
	if ids == 2 {
		cur = next() % 1000
	}
	for i, n := range order {
		switch ids {
		case 0:
			n.id = uint64(i)
		case 1:
			if i > 0 {
				n.id = uint64(len(order) - i)
			}
		default:
			n.id = cur
			cur += 1 + next()%(1<<(next()%41))
		}
	}
	table := make([]uint64, len(order))
	for i, n := range order {
		table[i] = n.id
	}
	sort.Slice(table, func(i, j int) bool { return table[i] < table[j] })
	index := func(id uint64) uint64 {
		return uint64(sort.Search(len(table), func(i int) bool { return table[i] >= id }))
	}
	var out []byte
	put := func(x uint64) {
		if x <= 127 {
			out = append(out, byte(x))
			return
		}
		var tmp []byte
		for y := x; y > 0; y >>= 8 {
			tmp = append([]byte{byte(y)}, tmp...)
		}
		out = append(out, byte(128+len(tmp)))
		out = append(out, tmp...)
	}
	put(uint64(len(order)))
	for _, id := range table {
		put(id)
	}
	for _, n := range order {
		put(index(n.id))
		put(uint64(n.numWords))
		if n.final {
			out = append(out, 1)
		} else {
			out = append(out, 0)
		}
		put(uint64(len(n.labels)))
		for i, c := range n.labels {
			out = append(out, c)
			put(index(n.kids[i].id))
		}
	}
	return out
}
