module verifharness

go 1.21

require github.com/Tom-Johnston/mamba v0.0.0

replace github.com/Tom-Johnston/mamba => /repo
