package hx

import (
	"bufio"
	"encoding/json"
	"fmt"
	"io"
	"os"
	"os/exec"
	"runtime"
	"strings"
	"sync"
	"syscall"
	"time"
)

// Result is what executing one case on the implementation gives.
type Result struct {
	Obs        string            `json:"o"`
	Nontrivial bool              `json:"n,omitempty"`
	Buckets    []string          `json:"b,omitempty"`
	Viol       []OracleViolation `json:"v,omitempty"`
}

// Prop describes the harness of one property.
type Prop struct {
	Rule        string
	Gen         func(g *Gen)                 // generates the case lines from g.Rng / g.Tier
	Exec        func(caseLine string) Result // runs the implementation on one case (in a worker)
	CaseTimeout time.Duration
	Workers     int
	MemMB       int      // address-space limit of a worker
	WorkerEnv   []string // extra environment of the worker processes (e.g. GORACE=...)
}

// Gen is handed to Prop.Gen.
type Gen struct {
	Tier  string
	Rng   *Rng
	cases []string
	run   *Run
}

func (g *Gen) Thorough() bool { return g.Tier == "thorough" }
func (g *Gen) Pick(q, t int) int {
	if g.Thorough() {
		return t
	}
	return q
}
func (g *Gen) Emit(caseLine string) { g.cases = append(g.cases, caseLine) }
func (g *Gen) Exhaustive(space string) {
	g.run.Stats.ExhaustiveSpaces = append(g.run.Stats.ExhaustiveSpaces, space)
}
func (g *Gen) Note(s string) { g.run.Note(s) }

// Main is the entry point of every cmd/<id>.
func Main(p Prop) {
	for _, a := range os.Args[1:] {
		if a == "-worker" || a == "--worker" {
			worker(p)
			return
		}
	}
	r := Start(p.Rule)
	g := &Gen{Tier: r.Tier, Rng: r.Rng, run: r}
	if r.ReplayCases != nil {
		g.cases = r.ReplayCases
	} else {
		p.Gen(g)
	}
	results := execAll(p, g.cases, r)
	for i, c := range g.cases {
		res := results[i]
		if r.MaxSec > 0 && res.Obs == "skipped" {
			continue // budgeted run: cases that were not reached are not part of the run
		}
		for _, b := range res.Buckets {
			r.Count(b)
		}
		for _, v := range res.Viol {
			if v.Case == "" {
				v.Case = c
			}
			r.Violation(v.Case, v.Detail, v.Key)
		}
		switch res.Obs {
		case "hang", "crash":
			r.Count("outcome:" + res.Obs)
		}
		r.Emit(c, res.Obs, res.Nontrivial)
	}
	r.Finish()
}

func worker(p Prop) {
	if p.MemMB > 0 {
		lim := uint64(p.MemMB) << 20
		syscall.Setrlimit(syscall.RLIMIT_AS, &syscall.Rlimit{Cur: lim, Max: lim})
	}
	in := bufio.NewReaderSize(os.Stdin, 1<<20)
	out := bufio.NewWriterSize(os.Stdout, 1<<20)
	enc := json.NewEncoder(out)
	for {
		line, err := in.ReadString('\n')
		if len(line) > 0 && line[len(line)-1] == '\n' {
			line = line[:len(line)-1]
		}
		if err != nil && line == "" {
			return
		}
		res := safeExec(p, line)
		enc.Encode(res)
		out.Flush()
		if err != nil {
			return
		}
	}
}

func safeExec(p Prop, line string) (res Result) {
	defer func() {
		if e := recover(); e != nil {
			res = Result{Obs: "panic", Buckets: []string{"outcome:panic"}}
		}
	}()
	return p.Exec(line)
}

type wproc struct {
	cmd    *exec.Cmd
	in     io.WriteCloser
	out    *bufio.Reader
	stderr *tailBuf
}

// tailBuf keeps the first 8 KiB a worker writes to stderr (a race report, a fatal error).
type tailBuf struct {
	mu sync.Mutex
	b  []byte
}

func (t *tailBuf) Write(p []byte) (int, error) {
	t.mu.Lock()
	if len(t.b) < 8192 {
		t.b = append(t.b, p...)
	}
	t.mu.Unlock()
	return len(p), nil
}

func (t *tailBuf) String() string {
	t.mu.Lock()
	defer t.mu.Unlock()
	return string(t.b)
}

var workerEnv []string

func startWorker() *wproc {
	cmd := exec.Command(os.Args[0], "-worker")
	tb := &tailBuf{}
	cmd.Stderr = tb
	cmd.Env = append(os.Environ(), workerEnv...)
	cmd.SysProcAttr = &syscall.SysProcAttr{Pdeathsig: syscall.SIGKILL}
	in, _ := cmd.StdinPipe()
	out, _ := cmd.StdoutPipe()
	if err := cmd.Start(); err != nil {
		panic(err)
	}
	return &wproc{cmd: cmd, in: in, out: bufio.NewReaderSize(out, 1<<20), stderr: tb}
}

func (w *wproc) kill() {
	w.in.Close()
	w.cmd.Process.Kill()
	w.cmd.Wait()
}

func execAll(p Prop, cases []string, r *Run) []Result {
	results := make([]Result, len(cases))
	// budgeted run: seeded random order, stop handing out cases at the deadline
	order := make([]int, len(cases))
	for i := range order {
		order[i] = i
	}
	var deadline time.Time
	if r != nil && r.MaxSec > 0 && r.ReplayCases == nil {
		sh := NewRng(r.Seed ^ 0x9e3779b97f4a7c15)
		for i := len(order) - 1; i > 0; i-- {
			j := sh.Intn(i + 1)
			order[i], order[j] = order[j], order[i]
		}
		deadline = time.Now().Add(time.Duration(r.MaxSec) * time.Second)
	}
	workerEnv = p.WorkerEnv
	nw := p.Workers
	if nw <= 0 {
		nw = runtime.NumCPU()
		if nw > 8 {
			nw = 8
		}
	}
	if nw > len(cases) {
		nw = len(cases)
	}
	if p.CaseTimeout == 0 {
		p.CaseTimeout = 10 * time.Second
	}
	// A hang is reported as a violation, so the watchdog must not fire on a merely slow machine:
	// never less than 90 s per case (a genuinely non-terminating case still ends the run: after
	// maxAbnormal of them the remaining cases are skipped).
	if p.CaseTimeout < 90*time.Second {
		p.CaseTimeout = 90 * time.Second
	}
	var mu sync.Mutex
	next := 0
	abnormal := 0 // hangs and crashes so far; after maxAbnormal of them the rest is skipped
	const maxAbnormal = 24
	take := func() int {
		mu.Lock()
		defer mu.Unlock()
		for next < len(cases) && (abnormal >= maxAbnormal || (!deadline.IsZero() && time.Now().After(deadline))) {
			results[order[next]] = Result{Obs: "skipped"}
			next++
		}
		if next >= len(cases) {
			return -1
		}
		next++
		return order[next-1]
	}
	bad := func() {
		mu.Lock()
		abnormal++
		mu.Unlock()
	}
	var wg sync.WaitGroup
	for k := 0; k < nw; k++ {
		wg.Add(1)
		go func() {
			defer wg.Done()
			var w *wproc
			type rd struct {
				line []byte
				err  error
			}
			for {
				i := take()
				if i < 0 {
					break
				}
				if w == nil {
					w = startWorker()
				}
				if _, err := io.WriteString(w.in, cases[i]+"\n"); err != nil {
					results[i] = Result{Obs: "crash"}
					w.kill()
					w = nil
					continue
				}
				ch := make(chan rd, 1)
				go func(w *wproc) {
					l, err := w.out.ReadBytes('\n')
					ch <- rd{l, err}
				}(w)
				select {
				case x := <-ch:
					if x.err != nil {
						w.cmd.Wait()
						msg := w.stderr.String()
						if strings.Contains(msg, "DATA RACE") {
							results[i] = Result{Obs: "race", Viol: []OracleViolation{{Detail: "data race reported by the race detector: " + clip(msg, 1500), Key: "race"}}}
						} else {
							results[i] = Result{Obs: "crash", Viol: []OracleViolation{{Detail: "worker died: " + clip(msg, 600)}}}
						}
						bad()
						w.kill()
						w = nil
						continue
					}
					var res Result
					if err := json.Unmarshal(x.line, &res); err != nil {
						res = Result{Obs: "crash"}
					}
					results[i] = res
				case <-time.After(p.CaseTimeout):
					results[i] = Result{Obs: "hang"}
					bad()
					w.kill()
					w = nil
				}
			}
			if w != nil {
				w.in.Close()
				w.cmd.Wait()
			}
		}()
	}
	wg.Wait()
	return results
}

// Fail builds an oracle violation for the case being executed.
func Fail(key, format string, a ...interface{}) OracleViolation {
	return OracleViolation{Detail: fmt.Sprintf(format, a...), Key: key}
}
