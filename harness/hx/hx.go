// Package hx holds what every per-property harness command shares: the single PRNG state,
// the output files of the correspondence protocol and the statistics written for the evidence.
//
// Protocol (see /verif/DESIGN.md section 2.1): a command `cmd/<id>` is called as
//
//	<id> -tier quick|thorough -seed N -out DIR            (generate + run the implementation)
//	<id> -replay 'CASE LINE' -out DIR                     (run exactly one case)
//	<id> -replayfile FILE -out DIR                        (run exactly these cases)
//	<id> -worker                                          (internal: execute case lines from stdin)
//
// The parent process only generates case lines; every case is executed in a worker process
// (same binary, -worker) under recover, a per-case deadline and an address-space limit, so a
// panic, a hang or a memory blow-up of the code under test is an observation ("panic", "hang",
// "crash"), never the end of the run.
//
// and writes DIR/cases.txt (one case per line, syntax private to the property and shared with
// the OCaml driver of the extracted model), DIR/impl.txt (one observation line per case, same
// order) and DIR/stats.json.  An observation line is `<projected>` or `<projected> ## <strict>`:
// only the projected part (what the property determines) decides a violation.
package hx

import (
	"bufio"
	"encoding/json"
	"flag"
	"fmt"
	"os"
	"path/filepath"
	"sort"
	"strings"
	"time"
)

// Rng is splitmix64; every random choice of a run derives from one state seeded by VERIF_SEED.
type Rng struct{ s uint64 }

// NewRng scrambles the seed first: with a plain multiple of the increment as the start state,
// consecutive seeds would give the same stream shifted by one draw.
func NewRng(seed uint64) *Rng {
	r := &Rng{s: seed*0x9E3779B97F4A7C15 + 0x1234567}
	r.s = r.U64() ^ (seed * 0xD1B54A32D192ED03)
	return r
}

func (r *Rng) U64() uint64 {
	r.s += 0x9E3779B97F4A7C15
	z := r.s
	z = (z ^ (z >> 30)) * 0xBF58476D1CE4E5B9
	z = (z ^ (z >> 27)) * 0x94D049BB133111EB
	return z ^ (z >> 31)
}

// Intn returns a value in [0,n); n must be > 0.
func (r *Rng) Intn(n int) int { return int(r.U64() % uint64(n)) }

// Range returns a value in [lo,hi].
func (r *Rng) Range(lo, hi int) int { return lo + r.Intn(hi-lo+1) }

func (r *Rng) Bool() bool { return r.U64()&1 == 1 }

// Chance is true with probability num/den.
func (r *Rng) Chance(num, den int) bool { return r.Intn(den) < num }

func (r *Rng) Perm(n int) []int {
	p := make([]int, n)
	for i := range p {
		p[i] = i
	}
	for i := n - 1; i > 0; i-- {
		j := r.Intn(i + 1)
		p[i], p[j] = p[j], p[i]
	}
	return p
}

// OracleViolation is a failure of the property itself detected on the implementation side by
// an oracle (used where the property leaves the result open, so no line-by-line diff decides).
type OracleViolation struct {
	Case   string `json:"case"`
	Detail string `json:"detail"`
	Key    string `json:"key,omitempty"`
}

type Stats struct {
	Evaluations        int               `json:"evaluations"`
	DistinctNontrivial int               `json:"distinct_nontrivial"`
	Rule               string            `json:"rule"`
	Samples            []string          `json:"samples"`
	Distribution       map[string]int    `json:"distribution"`
	Exhaustive         bool              `json:"exhaustive"`
	ExhaustiveSpaces   []string          `json:"exhaustive_spaces,omitempty"`
	OracleViolations   []OracleViolation `json:"oracle_violations"`
	Notes              []string          `json:"notes,omitempty"`
	WallS              float64           `json:"wall_s"`
}

// Run is one invocation of a harness command.
type Run struct {
	MaxSec int // wall budget for executing cases (0 = none)
	Tier   string
	Seed   uint64
	Out    string
	Replay string
	// ReplayCases is non-nil when the command must run exactly these case lines (-replay / -replayfile).
	ReplayCases []string
	Rng         *Rng
	Stats       Stats

	cases, impl *bufio.Writer
	fc, fi      *os.File
	seen        map[string]bool
	start       time.Time
}

// Start parses the common flags and opens the output files.
func Start(rule string) *Run {
	tier := flag.String("tier", "quick", "quick|thorough")
	seed := flag.Uint64("seed", 1, "PRNG seed")
	out := flag.String("out", "", "output directory")
	replay := flag.String("replay", "", "run exactly this case line")
	replayFile := flag.String("replayfile", "", "run exactly the case lines of this file")
	maxSec := flag.Int("maxsec", 0, "wall budget in seconds for executing cases: cases are then run in a seeded random order and those not reached are dropped (0 = run all, in order)")
	flag.Parse()
	if *out == "" {
		fmt.Fprintln(os.Stderr, "missing -out")
		os.Exit(2)
	}
	if err := os.MkdirAll(*out, 0o755); err != nil {
		panic(err)
	}
	r := &Run{Tier: *tier, Seed: *seed, Out: *out, Replay: *replay, Rng: NewRng(*seed), seen: map[string]bool{}, start: time.Now(), MaxSec: *maxSec}
	r.Stats.Rule = rule
	if *replay != "" {
		r.ReplayCases = []string{*replay}
	}
	if *replayFile != "" {
		b, err := os.ReadFile(*replayFile)
		if err != nil {
			panic(err)
		}
		for _, l := range strings.Split(string(b), "\n") {
			if l != "" {
				r.ReplayCases = append(r.ReplayCases, l)
			}
		}
		if len(r.ReplayCases) == 0 {
			r.ReplayCases = []string{}
		}
	}
	r.Stats.Distribution = map[string]int{}
	r.Stats.OracleViolations = []OracleViolation{}
	var err error
	if r.fc, err = os.Create(filepath.Join(*out, "cases.txt")); err != nil {
		panic(err)
	}
	if r.fi, err = os.Create(filepath.Join(*out, "impl.txt")); err != nil {
		panic(err)
	}
	r.cases = bufio.NewWriterSize(r.fc, 1<<20)
	r.impl = bufio.NewWriterSize(r.fi, 1<<20)
	return r
}

func (r *Run) Thorough() bool { return r.Tier == "thorough" }

// Pick returns q in the quick tier and t in the thorough tier.
func (r *Run) Pick(q, t int) int {
	if r.Thorough() {
		return t
	}
	return q
}

// Emit records one case and the implementation's observation of it.  nontrivial says whether
// the case is non-trivial by the property's rule; distinctness is measured on the case text.
func (r *Run) Emit(caseLine, obs string, nontrivial bool) {
	if strings.ContainsAny(caseLine, "\n") || strings.ContainsAny(obs, "\n") {
		panic("newline in case or observation")
	}
	r.cases.WriteString(caseLine)
	r.cases.WriteByte('\n')
	r.impl.WriteString(obs)
	r.impl.WriteByte('\n')
	r.Stats.Evaluations++
	if nontrivial {
		// distinctness by a 64-bit FNV hash of the case text (collisions undercount: conservative)
		h := fnv(caseLine)
		if !r.seen[h] {
			r.seen[h] = true
			r.Stats.DistinctNontrivial++
		}
	}
	if len(r.Stats.Samples) < 5 && (nontrivial || r.Stats.Evaluations <= 2) && len(caseLine) < 400 {
		r.Stats.Samples = append(r.Stats.Samples, caseLine+" => "+clip(obs, 300))
	}
}

// Count adds to the input-distribution histogram printed in the evidence.
func (r *Run) Count(bucket string) { r.Stats.Distribution[bucket]++ }

// Violation records an oracle failure.
func (r *Run) Violation(caseLine, detail, key string) {
	if len(r.Stats.OracleViolations) < 50 {
		r.Stats.OracleViolations = append(r.Stats.OracleViolations, OracleViolation{Case: caseLine, Detail: detail, Key: key})
	}
}

func (r *Run) Note(s string) { r.Stats.Notes = append(r.Stats.Notes, s) }

// Finish flushes everything and writes stats.json.
func (r *Run) Finish() {
	r.cases.Flush()
	r.impl.Flush()
	r.fc.Close()
	r.fi.Close()
	r.Stats.WallS = time.Since(r.start).Seconds()
	b, _ := json.MarshalIndent(r.Stats, "", " ")
	if err := os.WriteFile(filepath.Join(r.Out, "stats.json"), b, 0o644); err != nil {
		panic(err)
	}
}

func fnv(s string) string {
	h := uint64(14695981039346656037)
	for i := 0; i < len(s); i++ {
		h ^= uint64(s[i])
		h *= 1099511628211
	}
	return fmt.Sprintf("%x", h)
}

func clip(s string, n int) string {
	if len(s) > n {
		return s[:n] + "…"
	}
	return s
}

// Guard runs f and maps a panic to the string "panic"; a run longer than d gives "hang".
// The goroutine of a hung call is abandoned (the process exits at the end of the run).
func Guard(d time.Duration, f func() string) string {
	ch := make(chan string, 1)
	go func() {
		defer func() {
			if e := recover(); e != nil {
				ch <- "panic"
			}
		}()
		ch <- f()
	}()
	select {
	case s := <-ch:
		return s
	case <-time.After(d):
		return "hang"
	}
}

// Ints formats a slice as a comma separated list.
func Ints(a []int) string {
	var sb strings.Builder
	for i, v := range a {
		if i > 0 {
			sb.WriteByte(',')
		}
		fmt.Fprintf(&sb, "%d", v)
	}
	return sb.String()
}

func SortedCopy(a []int) []int {
	b := append([]int(nil), a...)
	sort.Ints(b)
	return b
}
