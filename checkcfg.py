"""Per-property configuration of ./check: one JSON file per property under cfg/."""
import json, os, glob

COMMON_TRUSTED = [
    "Coq 8.16.1 kernel (coqc, full .vo build; vm_compute used, native_compute not used)",
    "extraction to OCaml 4.13.1 with ExtrOcamlBasic only (its Extract Inductive for bool, option, unit, list, prod, sumbool, sumor; no Extract Constant)",
    "hand-written ocaml/<id>/driver.ml (parsing, printing) and the Go harness (generation, observation, canonicalisation)",
]

PROPS = {}
for _p in sorted(glob.glob(os.path.join(os.path.dirname(os.path.abspath(__file__)), "cfg", "C*.json"))):
    _c = json.load(open(_p))
    if _c.get("driver"):
        _c["driver"] = (_c["driver"][0], _c["driver"][1], list(_c["driver"][2]))
    PROPS[os.path.basename(_p)[:-5]] = _c
