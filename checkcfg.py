"""Per-property configuration of ./check (levels, drivers, trusted base)."""

COMMON_TRUSTED = [
    "Coq 8.16.1 kernel (coqc, full .vo build; vm_compute used, native_compute not used)",
    "extraction to OCaml 4.13.1 with ExtrOcamlBasic only (its Extract Inductive for bool, option, unit, list, prod, sumbool, sumor; no Extract Constant)",
    "hand-written ocaml/<id>/driver.ml (parsing, printing) and the Go harness (generation, observation, canonicalisation)",
]

PROPS = {
    "C18": {
        "level": "proof",
        "driver": ("c18", "C18", ["conv_nat", "conv_z"]),
        "shrink": "tokens",
        "trusted": ["model of disjoint.Set written by hand (coq/Disjoint/Model.v), tied to /repo by correspondence on every run"],
        "assumptions": ["indices passed to Find/Union are in [0,n) (Go panics otherwise; the model returns None)",
                        "FindBuffered's buffer has capacity >= 1"],
        "explanation": "theorems over all n and all finite histories on the array-level model; correspondence of the extracted model with disjoint.Set after every operation",
    },
}
