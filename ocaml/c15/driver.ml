(* Driver of the extracted model of the itertools iterators: reads the case file of
   harness/cmd/c15 on stdin and prints one observation per line in the format of that command. *)
open Model
open Conv_nat
open Conv_z

let zs (l : int list) : z list = List.map z_of_int l
let is_ (l : z list) : int list = List.map int_of_z l

let tup (a : int list) : string =
  if a = [] then "e" else String.concat "." (List.map string_of_int a)

(* ---- predicates: the same definitions as in harness/cmd/c15/main.go *)
let fixed_pred (i : int) (a : int list) : bool =
  let arr = Array.of_list a in
  let l = Array.length arr in
  let last = arr.(l - 1) in
  match i with
  | 0 -> true
  | 1 -> false
  | 2 -> last mod 2 = 0
  | 3 -> (List.fold_left (+) 0 a) mod 3 <> 0
  | 4 -> l < 2 || last >= arr.(l - 2)
  | 5 -> l < 2 || (last - arr.(l - 2) <> 1 && arr.(l - 2) - last <> 1)
  | 6 -> l < 3 || last <> arr.(0)
  | 7 -> l <= 2
  | 8 -> arr.(0) = 0
  | 9 -> last <> l - 1
  | 10 -> l < 2 || last > arr.(l - 2)
  | 11 -> last <> 1
  | 12 -> l < 2 || last < arr.(l - 2)
  | 13 ->
    let mx = ref true and mn = ref true in
    for k = 0 to l - 2 do
      if arr.(k) >= last then mx := false;
      if arr.(k) <= last then mn := false
    done;
    !mx || !mn
  | _ -> failwith "bad predicate index"

let hash_pred seed num den (a : int list) : bool =
  let h = ref (seed land 0x7fffffff) in
  List.iter (fun x -> h := (!h * 1103515245 + 12345 + (x + 1) * 7919) land 0x7fffffff) a;
  h := (!h * 1103515245 + 12345) land 0x7fffffff;
  ((!h lsr 12) mod den) < num

(* the strongly pruning families of harness/cmd/c15/main.go (prunePred); deviations only at
   positions lo <= i < hi *)
let prune_pred (kind : char) (c : int) (lo : int) (hi : int) (a : int list) : bool =
  let arr = Array.of_list a in
  let l = Array.length arr in
  let last = arr.(l - 1) in
  let inr i = lo <= i && i < hi in
  match kind with
  | 's' ->
    let t = ref 0 and ok = ref true in
    Array.iteri (fun i v -> t := !t + v; if !t > c || (v <> 0 && not (inr i)) then ok := false) arr; !ok
  | 'd' ->
    if last - (l - 1) > 1 || (l - 1) - last > 1 then false
    else begin
      let t = ref 0 and ok = ref true in
      Array.iteri (fun i v -> (if v > i then incr t); if v <> i && not (inr i) then ok := false) arr;
      !ok && !t <= c
    end
  | 'e' ->
    if last < l - 2 then false
    else begin
      let t = ref 0 and mx = ref (-1) and ok = ref true in
      Array.iteri (fun i v -> if v < !mx then (incr t; if not (inr i) then ok := false) else mx := v) arr;
      !ok && !t <= c
    end
  | _ -> failwith "bad predicate kind"

let parse_pred (tok : string) : z list -> bool =
  let rest = String.sub tok 1 (String.length tok - 1) in
  match tok.[0] with
  | 'P' -> let i = int_of_string rest in fun a -> fixed_pred i (is_ a)   (* provenance variant of pI *)
  | 'z' -> let n = int_of_string rest in fun a -> List.length a < n
  | 's' | 'd' | 'e' ->
    let k = tok.[0] in
    (match List.map int_of_string (String.split_on_char ':' rest) with
     | [c] -> fun a -> prune_pred k c 0 max_int (is_ a)
     | [c; lo; hi] -> fun a -> prune_pred k c lo hi (is_ a)
     | _ -> failwith "bad predicate")
  | 'p' -> let i = int_of_string rest in fun a -> fixed_pred i (is_ a)
  | 'h' ->
    (match List.map int_of_string (String.split_on_char ':' rest) with
     | [seed; num; den] -> fun a -> hash_pred seed num den (is_ a)
     | _ -> failwith "bad predicate")
  | _ -> failwith "bad predicate"

let parse_less (tok : string) : z -> z -> bool =
  let rest = String.sub tok 1 (String.length tok - 1) in
  if tok.[0] = 'f' then begin
    (* the total order without the pairs (i, i+1) for the listed i *)
    let free = if rest = "" then [] else List.map int_of_string (String.split_on_char '.' rest) in
    fun i j ->
      let i = int_of_z i and j = int_of_z j in
      i < j && not (j = i + 1 && List.mem i free)
  end else if tok.[0] = 'c' then begin
    (* the chain given by its covers only, without the listed links *)
    let broken = if rest = "" then [] else List.map int_of_string (String.split_on_char '.' rest) in
    fun i j ->
      let i = int_of_z i and j = int_of_z j in
      j = i + 1 && not (List.mem i broken)
  end else
  let mask = int_of_string rest in
  fun i j ->
    let i = int_of_z i and j = int_of_z j in
    i < j && (mask lsr (j * (j - 1) / 2 + i)) land 1 = 1

(* ---- draining: [next] is the extracted Next; None is a panic of the model *)
exception Model_panic

(* the window of the case being run: 0 = drain completely *)
let window = ref 0

(* the API call pattern of the case being run ("" = Value after every Next); see observe in
   harness/cmd/c15/main.go.  The model has no notion of "calling Value": its object at a step is
   what Value must return whenever it is called at that step. *)
let call_pat = ref ""

let observe (pat : string) (i : int) : int =
  let arg = String.sub pat 1 (String.length pat - 1) in
  match pat.[0] with
  | 'k' -> if (i + 1) mod (int_of_string arg) = 0 then 1 else 0
  | 'r' ->
    let h = (int_of_string arg) land 0x7fffffff in
    let h = (h * 1103515245 + 12345 + (i + 1) * 7919) land 0x7fffffff in
    let h = (h * 1103515245 + 12345) land 0x7fffffff in
    (h lsr 12) land 1
  | 'd' -> 2
  | 'n' -> 0
  | 'w' | 't' -> 1
  | _ -> failwith "bad call pattern"

let observed (vals : string list) : string list =
  List.concat (List.mapi (fun i v -> if observe !call_pat i > 0 then [Printf.sprintf "%d=%s" i v] else []) vals)

let drain (next : 's -> ('s * bool) option) (value : 's -> string) (init : 's) : string list * string =
  let s = ref init and vals = ref [] and cnt = ref 0 and go = ref true and win = ref false in
  while !go do
    match next !s with
    | None -> raise Model_panic
    | Some (s', true) ->
      s := s'; vals := value s' :: !vals; incr cnt;
      if !window > 0 && !cnt = !window then (go := false; win := true)
    | Some (s', false) -> s := s'; go := false
  done;
  if !win then (List.rev !vals, "WIN") else begin
    let tail = Buffer.create 3 in
    for _ = 1 to 3 do
      match next !s with
      | None -> raise Model_panic
      | Some (s', b) -> s := s'; Buffer.add_char tail (if b then 'T' else 'F')
    done;
    (List.rev !vals, Buffer.contents tail)
  end

let obs_of vals tail =
  if tail = "WIN" then Printf.sprintf "%d+:%s;WIN" (List.length vals) (String.concat "/" vals)
  else Printf.sprintf "%d:%s;%s" (List.length vals) (String.concat "/" vals) tail

(* Peano numeral built without recursion depth *)
let big_nat (i : int) : nat = let r = ref O in for _ = 1 to i do r := S !r done; !r

(* For parameters whose whole search tree is astronomically large the model's constructors
   cannot even compute their fuel (a Peano numeral of the size of the tree); the driver then
   builds the same initial state with the fuel below, which bounds the steps of ONE call of
   Next (the generator only produces such cases with strongly pruning predicates or windows). *)
let driver_fuel = lazy (big_nat 2_000_000)

let zs_str (l : string list) : z list = List.map z_of_string l
let tree_is_big (l : string list) : bool =
  let p = ref 1.0 in
  List.iter (fun s -> let v = float_of_string s in if v > 0.0 then p := !p *. (v +. 1.0)) l;
  !p > 50000.0

let opt = function Some x -> x | None -> raise Model_panic

let rec obs_of_line (line : string) : string =
  let pre = if String.length line > 3 then String.sub line 0 3 else "" in
  let rest3 () = String.sub line 3 (String.length line - 3) in
  if pre = "ap " || pre = "sc " then obs_of_line (rest3 ())   (* judged as the plain case in fresh state *)
  else if pre = "sh " then begin
    (* two iterators on one caller-owned slice: the model runs them separately *)
    match List.filter (fun s -> s <> "") (String.split_on_char ' ' (rest3 ())) with
    | "mcomb" :: k1 :: k2 :: m ->
      let a = obs_of_line (String.concat " " ("mcomb" :: k1 :: m)) in
      let b = obs_of_line (String.concat " " ("mcomb" :: k2 :: m)) in
      a ^ " && " ^ b
    | _ -> let a = obs_of_line (rest3 ()) in a ^ " && " ^ a
  end
  else if pre = "il " || pre = "cb " then begin
    (* interleaved pair: the model runs the two constructor calls separately *)
    let rest = String.sub line 3 (String.length line - 3) in
    let sep = Str.regexp_string " ;; " in
    match Str.bounded_split_delim sep rest 2 with
    | [a; b] -> let oa = obs_of_line a in let ob = obs_of_line b in oa ^ " && " ^ ob
    | _ -> failwith "bad pair"
  end else
      let f = List.filter (fun s -> s <> "") (String.split_on_char ' ' line) in
      let f =
        match List.rev f with
        | w :: rest when String.length w > 1 && w.[0] = '%' ->
          call_pat := String.sub w 1 (String.length w - 1); List.rev rest
        | _ -> call_pat := ""; f in
      let f =
        match List.rev f with
        | w :: rest when String.length w > 1 && w.[0] = '@' ->
          window := int_of_string (String.sub w 1 (String.length w - 1)); List.rev rest
        | _ -> window := 0; f in
      let name = List.hd f and args = List.tl f in
      let nums l = List.map int_of_string l in
      let lv value = fun s -> tup (is_ (value s)) in
      (try
        let ordered, (vals, tail) =
          match name with
          | "product" -> true, drain product_next (lv product_value) (product_init (zs_str args))
          | "comb" ->
            (match args with [n; k] -> true, drain comb_next (lv comb_value) (comb_init (z_of_string n) (nat_of_int (int_of_string k))) | _ -> failwith "args")
          | "colex" ->
            (match args with [n; k] -> true, drain colex_next (lv colex_value) (colex_init (z_of_string n) (nat_of_int (int_of_string k))) | _ -> failwith "args")
          | "mcomb" ->
            (match args with k :: m -> true, drain mcomb_next (lv mcomb_value) (mcomb_init (zs_str m) (z_of_string k)) | _ -> failwith "args")
          | "heap" -> false, drain heap_next (lv heap_value) (heap_init (nat_of_int (int_of_string (List.hd args))))
          | "lexperm" -> true, drain lexperm_next (lv lexperm_value) (lexperm_init (nat_of_int (int_of_string (List.hd args))))
          | "mperm" -> true, drain lexperm_next (lv lexperm_value) (mperm_init (zs (nums args)))
          | "parts" ->
            let value s = String.concat "|" (List.map (fun b -> String.concat "." (List.map string_of_int (is_ b))) (opt (parts_value s))) in
            true, drain parts_next value (opt (parts_init (nat_of_int (int_of_string (List.hd args)))))
          | "intparts" ->
            true, drain intparts_next (fun s -> tup (is_ (opt (intparts_value s)))) (intparts_init (nat_of_int (int_of_string (List.hd args))))
          | "rpprod" ->
            let p = parse_pred (List.hd args) in
            let ns = List.tl args in
            let init = if tree_is_big ns then rpprod_init_with (Lazy.force driver_fuel) (zs_str ns) else rpprod_init (zs_str ns) in
            true, drain (rpprod_next p) (lv rpprod_value) init
          | "rpperm" ->
            let p = parse_pred (List.hd args) in
            let n = int_of_string (List.nth args 1) in
            let init = if n > 8 then rpperm_init_with (Lazy.force driver_fuel) (nat_of_int n) else rpperm_init (nat_of_int n) in
            true, drain (rpperm_next p) (lv rpperm_value) init
          | "pattern" ->
            let p = parse_pred (List.hd args) in
            let n = int_of_string (List.nth args 1) in
            let init = if n > 8 then pattern_init_with (Lazy.force driver_fuel) (nat_of_int n) else pattern_init (nat_of_int n) in
            false, drain (pattern_next p) (lv pattern_value) init
          | "topo" ->
            let less = parse_less (List.hd args) in
            false, drain (topo_next less) (lv topo_value) (topo_init (nat_of_int (int_of_string (List.nth args 1))))
          | _ -> failwith ("unknown iterator " ^ name)
        in
        if !call_pat <> "" then begin
          let n = List.length vals in
          if ordered then Printf.sprintf "%d:%s;%s" n (String.concat "/" (observed vals)) tail
          else Printf.sprintf "%d:;%s ## %s" n tail (String.concat "/" (observed vals))
        end else
        if ordered then obs_of vals tail
        else if tail = "WIN" then Printf.sprintf "%d+:;WIN ## %s" (List.length vals) (String.concat "/" vals)
        else obs_of (List.sort compare vals) tail ^ " ## " ^ String.concat "/" vals
      with Model_panic -> "panic")

let () =
  try
    while true do
      print_endline (obs_of_line (input_line stdin))
    done
  with End_of_file -> ()
