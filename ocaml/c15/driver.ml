(* Driver of the extracted model of the itertools iterators: reads the case file of
   harness/cmd/c15 on stdin and prints one observation per line in the format of that command. *)
open Model
open Conv_nat
open Conv_z

let zs (l : int list) : z list = List.map z_of_int l
let is_ (l : z list) : int list = List.map int_of_z l

let tup (a : int list) : string =
  if a = [] then "e" else String.concat "." (List.map string_of_int a)

(* ---- predicates: the same definitions as in harness/cmd/c15/main.go *)
let fixed_pred (i : int) (a : int list) : bool =
  let arr = Array.of_list a in
  let l = Array.length arr in
  let last = arr.(l - 1) in
  match i with
  | 0 -> true
  | 1 -> false
  | 2 -> last mod 2 = 0
  | 3 -> (List.fold_left (+) 0 a) mod 3 <> 0
  | 4 -> l < 2 || last >= arr.(l - 2)
  | 5 -> l < 2 || (last - arr.(l - 2) <> 1 && arr.(l - 2) - last <> 1)
  | 6 -> l < 3 || last <> arr.(0)
  | 7 -> l <= 2
  | 8 -> arr.(0) = 0
  | 9 -> last <> l - 1
  | 10 -> l < 2 || last > arr.(l - 2)
  | 11 -> last <> 1
  | 12 -> l < 2 || last < arr.(l - 2)
  | 13 ->
    let mx = ref true and mn = ref true in
    for k = 0 to l - 2 do
      if arr.(k) >= last then mx := false;
      if arr.(k) <= last then mn := false
    done;
    !mx || !mn
  | _ -> failwith "bad predicate index"

let hash_pred seed num den (a : int list) : bool =
  let h = ref (seed land 0x7fffffff) in
  List.iter (fun x -> h := (!h * 1103515245 + 12345 + (x + 1) * 7919) land 0x7fffffff) a;
  h := (!h * 1103515245 + 12345) land 0x7fffffff;
  ((!h lsr 12) mod den) < num

let parse_pred (tok : string) : z list -> bool =
  let rest = String.sub tok 1 (String.length tok - 1) in
  match tok.[0] with
  | 'p' -> let i = int_of_string rest in fun a -> fixed_pred i (is_ a)
  | 'h' ->
    (match List.map int_of_string (String.split_on_char ':' rest) with
     | [seed; num; den] -> fun a -> hash_pred seed num den (is_ a)
     | _ -> failwith "bad predicate")
  | _ -> failwith "bad predicate"

let parse_less (tok : string) : z -> z -> bool =
  let mask = int_of_string (String.sub tok 1 (String.length tok - 1)) in
  fun i j ->
    let i = int_of_z i and j = int_of_z j in
    i < j && (mask lsr (j * (j - 1) / 2 + i)) land 1 = 1

(* ---- draining: [next] is the extracted Next; None is a panic of the model *)
exception Model_panic

let drain (next : 's -> ('s * bool) option) (value : 's -> string) (init : 's) : string list * string =
  let s = ref init and vals = ref [] and go = ref true in
  while !go do
    match next !s with
    | None -> raise Model_panic
    | Some (s', true) -> s := s'; vals := value s' :: !vals
    | Some (s', false) -> s := s'; go := false
  done;
  let tail = Buffer.create 3 in
  for _ = 1 to 3 do
    match next !s with
    | None -> raise Model_panic
    | Some (s', b) -> s := s'; Buffer.add_char tail (if b then 'T' else 'F')
  done;
  (List.rev !vals, Buffer.contents tail)

let obs_of vals tail = Printf.sprintf "%d:%s;%s" (List.length vals) (String.concat "/" vals) tail

let opt = function Some x -> x | None -> raise Model_panic

let () =
  try
    while true do
      let line = input_line stdin in
      let f = List.filter (fun s -> s <> "") (String.split_on_char ' ' line) in
      let name = List.hd f and args = List.tl f in
      let nums l = List.map int_of_string l in
      let lv value = fun s -> tup (is_ (value s)) in
      (try
        let ordered, (vals, tail) =
          match name with
          | "product" -> true, drain product_next (lv product_value) (product_init (zs (nums args)))
          | "comb" ->
            (match nums args with [n; k] -> true, drain comb_next (lv comb_value) (comb_init (z_of_int n) (nat_of_int k)) | _ -> failwith "args")
          | "colex" ->
            (match nums args with [n; k] -> true, drain colex_next (lv colex_value) (colex_init (z_of_int n) (nat_of_int k)) | _ -> failwith "args")
          | "mcomb" ->
            (match nums args with k :: m -> true, drain mcomb_next (lv mcomb_value) (mcomb_init (zs m) (z_of_int k)) | _ -> failwith "args")
          | "heap" -> false, drain heap_next (lv heap_value) (heap_init (nat_of_int (int_of_string (List.hd args))))
          | "lexperm" -> true, drain lexperm_next (lv lexperm_value) (lexperm_init (nat_of_int (int_of_string (List.hd args))))
          | "mperm" -> true, drain lexperm_next (lv lexperm_value) (mperm_init (zs (nums args)))
          | "parts" ->
            let value s = String.concat "|" (List.map (fun b -> String.concat "." (List.map string_of_int (is_ b))) (opt (parts_value s))) in
            true, drain parts_next value (opt (parts_init (nat_of_int (int_of_string (List.hd args)))))
          | "intparts" ->
            true, drain intparts_next (fun s -> tup (is_ (opt (intparts_value s)))) (intparts_init (nat_of_int (int_of_string (List.hd args))))
          | "rpprod" ->
            let p = parse_pred (List.hd args) in
            true, drain (rpprod_next p) (lv rpprod_value) (rpprod_init (zs (nums (List.tl args))))
          | "rpperm" ->
            let p = parse_pred (List.hd args) in
            true, drain (rpperm_next p) (lv rpperm_value) (rpperm_init (nat_of_int (int_of_string (List.nth args 1))))
          | "pattern" ->
            let p = parse_pred (List.hd args) in
            false, drain (pattern_next p) (lv pattern_value) (pattern_init (nat_of_int (int_of_string (List.nth args 1))))
          | "topo" ->
            let less = parse_less (List.hd args) in
            false, drain (topo_next less) (lv topo_value) (topo_init (nat_of_int (int_of_string (List.nth args 1))))
          | _ -> failwith ("unknown iterator " ^ name)
        in
        if ordered then print_endline (obs_of vals tail)
        else print_endline (obs_of (List.sort compare vals) tail ^ " ## " ^ String.concat "/" vals)
      with Model_panic -> print_endline "panic")
    done
  with End_of_file -> ()
