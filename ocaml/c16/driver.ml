(* Driver of the extracted model of package comb (C16): reads the case file of harness/cmd/c16
   on stdin and prints one observation per line in the format of that command.

   Case lines (kind;arguments):
     U;n k        CoeffUint64(n,k)
     C;n k        Coeff(n,k)
     T;n          Coeffs(n)
     R;c0 c1 ...  Rank of the increasing list
     N;r k        Unrank(r,k) followed by Rank of the result
     O;r k        Unrank(r,k), decided by the harness's oracle only (too many steps for this driver)
     X;n k        all values of CombinationsColex(n,k)
     S;tok ...    a sequence of calls (T<n>, U<n>,<k>, C<n>,<k>, R<c0>,..., N<r>,<k>, m) in one process

   Projected observation = what the property determines: the exact value where the function
   must return, `opt:<value>` where it may either return the exact value or panic (the value
   fits the result type but the step-by-step product does not), `panic` where it must panic.
   The strict part (after ##) is the raw result of the model.  Whenever the model's own result
   breaks the specification (possible only while a proof obligation is broken, e.g. after a
   table entry changed) the projected part says MODEL-BREAKS-SPEC so that the case is reported. *)
open Model

(* ---- decimal strings <-> extracted Z *)
let rec pos_of_int (i : int) : positive =
  if i <= 1 then XH else if i land 1 = 0 then XO (pos_of_int (i lsr 1)) else XI (pos_of_int (i lsr 1))
let z_of_int (i : int) : z = if i = 0 then Z0 else if i > 0 then Zpos (pos_of_int i) else Zneg (pos_of_int (- i))
let rec int_of_pos (p : positive) : int = match p with XH -> 1 | XO q -> 2 * int_of_pos q | XI q -> 2 * int_of_pos q + 1
let rec pos_bits (p : positive) : int = match p with XH -> 1 | XO q | XI q -> 1 + pos_bits q
let e18 = z_of_int 1_000_000_000_000_000_000

let rec z_of_digits (s : string) : z =
  let n = String.length s in
  if n <= 18 then z_of_int (int_of_string s)
  else Z.add (Z.mul (z_of_digits (String.sub s 0 (n - 18))) e18) (z_of_int (int_of_string (String.sub s (n - 18) 18)))

let z_of_string (s : string) : z =
  if String.length s > 0 && s.[0] = '-' then Z.sub Z0 (z_of_digits (String.sub s 1 (String.length s - 1)))
  else z_of_digits s

let rec string_of_pos (p : positive) : string =
  if pos_bits p <= 61 then string_of_int (int_of_pos p)
  else
    let (q, r) = Z.div_eucl (Zpos p) e18 in
    let rs = (match r with Z0 -> 0 | Zpos x -> int_of_pos x | Zneg _ -> failwith "neg rem") in
    (match q with Zpos qp -> string_of_pos qp | _ -> failwith "bad quotient") ^ Printf.sprintf "%018d" rs

let string_of_z (x : z) : string =
  match x with Z0 -> "0" | Zpos p -> string_of_pos p | Zneg p -> "-" ^ string_of_pos p

let rec nat_of_int (i : int) : nat = if i <= 0 then O else S (nat_of_int (i - 1))

let zlist l = String.concat "," (List.map string_of_z l)

let two63m1 = Z.sub two63 (z_of_int 1)

let raw_z = function Ret v -> string_of_z v | Panic -> "panic" | OutOfFuel -> "outoffuel"

(* classification of a value-or-panic result *)
let classify ~(ok : bool) ~(must : bool) ~(fits : bool) ~(value : string) ~(raw : string) : string =
  if not ok then "MODEL-BREAKS-SPEC model=" ^ raw ^ " exact=" ^ value
  else if must then value
  else if fits then "opt:" ^ value
  else "panic"

let binom_class exact n k limit_ok =
  (* (exact value as string, must return, fits) *)
  match exact with
  | None -> ("huge", false, false)
  | Some c ->
    let m = Z.min k (Z.sub n k) in
    (string_of_z c, limit_ok (Z.mul c m), limit_ok c)

let obs_u64 n k =
  let r = coeff_u64 n k in
  let exact = binom_small n k in
  let (value, must, fits) = binom_class exact n k (fun x -> Z.ltb x two64) in
  classify ~ok:(coeff_u64_meets_spec n k exact r) ~must ~fits ~value ~raw:(raw_z r) ^ " ## " ^ raw_z r

let obs_coeff n k =
  let r = coeff n k in
  let exact = binom_small n k in
  let (value, must, fits) = binom_class exact n k (fun x -> Z.leb x two63m1) in
  classify ~ok:(coeff_meets_spec n k exact r) ~must ~fits ~value ~raw:(raw_z r) ^ " ## " ^ raw_z r

let rows_string rows = String.concat "/" (List.map zlist rows)

let obs_coeffs n =
  let r = coeffs n in
  let raw = (match r with Ret rows -> rows_string rows | Panic -> "panic" | OutOfFuel -> "outoffuel") in
  if not (coeffs_meets_spec n r) then "MODEL-BREAKS-SPEC model=" ^ raw else raw

(* Rank: the colex rank where every term times min(i+1, c_i-i-1) and the sum fit an int *)
let rank_proj (c : z list) (r : z res) : string =
  let rec go i l sum must =
    match l with
    | [] -> Some (sum, must)
    | v :: t ->
      let i1 = Z.add i (z_of_int 1) in
      (match binom_small v i1 with
       | None -> None
       | Some b ->
         let m = Z.min i1 (Z.sub v i1) in
         go i1 t (Z.add sum b) (must && Z.leb (Z.mul b m) two63m1))
  in
  match go Z0 c Z0 true with
  | None -> classify ~ok:(rank_meets_spec c r) ~must:false ~fits:false ~value:"huge" ~raw:(raw_z r)
  | Some (sum, must) ->
    let fits = Z.leb sum two63m1 in
    classify ~ok:(rank_meets_spec c r) ~must:(must && fits) ~fits ~value:(string_of_z sum) ~raw:(raw_z r)

let obs_rank c =
  if List.exists (fun v -> Z.ltb v Z0) c then "invalid"
  else let r = rank c in rank_proj c r ^ " ## " ^ raw_z r

let obs_unrank r k =
  let res = unrank r k in
  match res with
  | Ret c when unrank_meets_spec r k res ->
    let rr = rank c in
    zlist c ^ ";rt=" ^ rank_proj c rr ^ " ## " ^ raw_z rr
  | Ret c -> "MODEL-BREAKS-SPEC model=" ^ zlist c
  | Panic -> "MODEL-BREAKS-SPEC model=panic"
  | OutOfFuel -> "MODEL-BREAKS-SPEC model=outoffuel"

(* the values of CombinationsColex(n,k) in order: by the property, Unrank(i,k) for i < C(n,k) *)
let obs_colex n k =
  let total = fast_binom n k in
  let buf = Buffer.create 1024 in
  let rec go i first =
    if Z.ltb i total then begin
      (match unrank i k with
       | Ret c -> if not first then Buffer.add_char buf '/'; Buffer.add_string buf (zlist c)
       | _ -> Buffer.add_string buf "/MODEL-FAILS");
      go (Z.add i (z_of_int 1)) false
    end
  in
  go Z0 true;
  Buffer.contents buf

(* one call: kind and arguments *)
let obs_call (kind : string) (zs : z list) : string =
  match kind, zs with
  | "U", [n; k] when Z.leb Z0 n && Z.leb Z0 k && Z.ltb n two64 && Z.ltb k two64 -> obs_u64 n k
  | "C", [n; k] when Z.leb Z0 n -> obs_coeff n k
  | "T", [n] when Z.leb Z0 n -> obs_coeffs n
  | "R", c -> obs_rank c
  | "N", [r; k] when Z.leb Z0 r && Z.leb r two63m1 && (Z.ltb Z0 k || (Z.eqb k Z0 && Z.eqb r Z0)) -> obs_unrank r k
  | "O", [_; _] -> "oracle-only"
  | "X", [n; k] when Z.leb Z0 n && Z.leb Z0 k -> obs_colex n k
  | _ -> "invalid"

let projected (o : string) : string =
  (* the part before " ## " *)
  let n = String.length o in
  let rec find i = if i + 4 > n then n else if String.sub o i 4 = " ## " then i else find (i + 1) in
  String.sub o 0 (find 0)

(* a sequence of calls in one process: the model has no state, so every call is judged on its own;
   "m" (the caller scribbles over what the previous call returned) changes nothing *)
let obs_seq (toks : string list) : string =
  let one tok =
    if tok = "m" then "m"
    else begin
      let kind = String.sub tok 0 1 in
      if not (String.contains "UCTRN" kind.[0]) then raise Not_found;
      let rest = String.sub tok 1 (String.length tok - 1) in
      let zs = List.map z_of_string (List.filter (fun s -> s <> "") (String.split_on_char ',' rest)) in
      projected (obs_call kind zs)
    end
  in
  String.concat " | " (List.map one toks)

let () =
  if translation_failed_comb then begin
    prerr_endline "coq/Gen/CombTables.v: the translator did not find the tables in comb.go (translation_failed_comb)";
    exit 3
  end;
  try
    while true do
      let line = input_line stdin in
      let out =
        try
          let i = String.index line ';' in
          let kind = String.sub line 0 i in
          let args = List.filter (fun s -> s <> "") (String.split_on_char ' ' (String.sub line (i + 1) (String.length line - i - 1))) in
          if kind = "S" then obs_seq args
          else obs_call kind (List.map z_of_string args)
        with Not_found | Failure _ | Invalid_argument _ -> "invalid"
      in
      print_endline out
    done
  with End_of_file -> ()
