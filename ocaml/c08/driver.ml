(* Driver of the extracted model of Graph6Decode / Sparse6Decode on arbitrary byte strings (C08):
   reads the case file of harness/cmd/c08 on stdin, one observation per line. *)
open Model
open Conv_nat
open Conv_z

let split_on c s = List.filter (fun t -> t <> "") (String.split_on_char c s)

let ints l = String.concat "," (List.map string_of_int l)
let edges_text es = String.concat "," (List.map (fun (v, u) -> Printf.sprintf "%d-%d" v u) es)

let derived (n : int) (es : (int * int) list) : string =
  let deg = Array.make (max n 0) 0 in
  List.iter (fun (v, u) -> if v < n && u < n then begin deg.(v) <- deg.(v) + 1; deg.(u) <- deg.(u) + 1 end) es;
  Printf.sprintf "%d:%d:%s:%s" n (List.length es) (ints (Array.to_list deg)) (edges_text es)

let edges_of_bits (bits : bool list) : (int * int) list =
  let rec go v u bits acc =
    match bits with
    | [] -> List.rev acc
    | b :: r ->
      let acc = if b then (v, u) :: acc else acc in
      if u + 1 = v then go (v + 1) 0 r acc else go v (u + 1) r acc
  in go 1 0 bits []

let mk_graph (n : int) (es : (int * int) list) : graph =
  let h = Hashtbl.create 64 in
  List.iter (fun (v, u) -> Hashtbl.replace h (v, u) (); Hashtbl.replace h (u, v) ()) es;
  { gn = nat_of_int n;
    gadj = (fun i j -> let i = int_of_nat i and j = int_of_nat j in i < n && j < n && Hashtbl.mem h (i, j)) }

type outcome = OkG of int * (int * int) list | E | P | F

let dense (r : (z * bool list) res) : outcome =
  match r with
  | Ok (n, bits) -> OkG (int_of_z n, edges_of_bits bits)
  | Err -> E | Panic -> P | OutOfFuel -> F

let sparse (r : (z * (z * z) list) res) : outcome =
  match r with
  | Ok (n, el) -> OkG (int_of_z n, List.map (fun (v, u) -> (int_of_z v, int_of_z u)) el)
  | Err -> E | Panic -> P | OutOfFuel -> F

let max_declared = 4096

(* the declared n of a sparse6 string, by the format text *)
let sparse_declared (s : z list) : int option =
  match strip hdr_sparse6 s with
  | [] -> None
  | c :: r ->
    if int_of_z c <> 58 || not (List.for_all in_range r) then None
    else match spec_read_N r with
      | Some (n, _) -> Some (int_of_z n)
      | None -> None

let run (kind : char) (s : z list) : string =
  let skip = kind = 's' && (match sparse_declared s with Some n -> n > max_declared | None -> false) in
  if skip then "skipped" else
  let dec s = if kind = 'g' then dense (graph6_decode s) else sparse (sparse6_decode s) in
  match dec s with
  | E -> "err"
  | P -> "panic"
  | F -> "hang"
  | OkG (n, es) ->
    let d = derived n es in
    if n > 128 then "ok:" ^ d ^ ";re=na" else
    let g = mk_graph n es in
    let enc = if kind = 'g' then graph6_encode g else sparse6_encode g in
    let re = match enc with
      | Ok s2 -> (match dec s2 with
          | OkG (n2, es2) -> derived n2 es2
          | E -> "err" | P -> "decode-panic" | F -> "decode-hang")
      | _ -> "panic" in
    "ok:" ^ d ^ ";re=" ^ re

let hex_bytes (h : string) : z list =
  List.init (String.length h / 2) (fun i -> z_of_int (int_of_string ("0x" ^ String.sub h (2 * i) 2)))

(* one call of a sequence: the observation without the re-encoding part *)
let run_seq_tok (t : string) : string =
  let kind = t.[0] in
  let s = hex_bytes (String.sub t 2 (String.length t - 2)) in
  let skip = kind = 's' && (match sparse_declared s with Some n -> n > max_declared | None -> false) in
  if skip then "skipped" else
  match (if kind = 'g' then dense (graph6_decode s) else sparse (sparse6_decode s)) with
  | E -> "err" | P -> "panic" | F -> "hang"
  | OkG (n, es) -> "ok:" ^ derived n es

let () =
  try
    while true do
      let line = input_line stdin in
      let i = String.index line ';' in
      let kind = line.[0] in
      let toks = split_on ' ' (String.sub line (i + 1) (String.length line - i - 1)) in
      if kind = 'q' then print_endline (String.concat "|" (List.map run_seq_tok toks)) else
      let s = List.map (fun t -> z_of_int (int_of_string ("0x" ^ t))) toks in
      print_endline (run kind s)
    done
  with End_of_file -> ()
