(* Driver of the extracted model for C14: reads the case lines of harness/cmd/c14 on stdin,
   prints one observation line per case in the format of that command.
   Case:  b=<hex blank byte>,s=<hex pattern>.<hex pattern>...;tok tok tok
   where the tokens are the words of the set in hex ("-" = the empty word), strictly increasing.
   The automaton is built by the model of the builder (C12), encoded by [gob_encode], decoded by
   [gob_decode] into a fresh node and observed; then encoded again.
   Extensions (see harness/cmd/c14/lib/{foreign,history}.go): header fields n=<number of sources>,
   x=<i>:<hex stream>/... (source i is the automaton [gob_decode] reads from that stream, a
   stream written with another node numbering), p=<program>, v=e|f; tokens "<i>:<hex word>". *)
open Model
open Conv_nat
open Conv_z

let n_of_int (i : int) : n = if i = 0 then N0 else Npos (pos_of_int i)
let int_of_n (x : n) : int = match x with N0 -> 0 | Npos p -> int_of_pos p
(* ids are uint64 values: beyond OCaml's int *)
let string_of_n (x : n) : string = match x with N0 -> "0" | Npos p -> string_of_pos p

let word_of_hex (h : string) : word =
  if h = "-" || h = "" then [] else
    List.init (String.length h / 2) (fun i -> n_of_int (int_of_string ("0x" ^ String.sub h (2 * i) 2)))

let hex_of_word (w : word) : string =
  if w = [] then "-" else String.concat "" (List.map (fun b -> Printf.sprintf "%02x" (int_of_n b)) w)

let hex_of_bytes (w : n list) : string =
  let b = Buffer.create 256 in
  List.iter (fun x -> let v = int_of_n x in
              if v < 256 then Buffer.add_string b (Printf.sprintf "%02x" v)
              else Buffer.add_string b (Printf.sprintf "<%d>" v)) w;
  Buffer.contents b

let split_nonempty c s = List.filter (fun x -> x <> "") (String.split_on_char c s)

(* long fields are replaced by their MD5 (same rule in the Go harness) *)
let clip (s : string) : string =
  if String.length s > 4096 then Printf.sprintf "md5:%s:%d" (Digest.to_hex (Digest.string s)) (String.length s) else s

let rec mk_nat acc i = if i <= 0 then acc else mk_nat (S acc) (i - 1)

(* explicit fuel, grown until the run does not stop for lack of it *)
let with_fuel (f : nat -> 'a res) : 'a res =
  let rec go k = match f (mk_nat O k) with
    | NoFuel when k < (1 lsl 24) -> go (k * 8)
    | r -> r in
  go 4096

let dump (s : store) : string =
  let seen = Hashtbl.create 64 in
  let out = Buffer.create 256 in
  let rec visit (i : n) =
    let k = int_of_n i in
    if not (Hashtbl.mem seen k) then begin
      Hashtbl.add seen k ();
      match sget s i with
      | None -> Buffer.add_string out (Printf.sprintf "dangling(%d)|" k)
      | Some nd ->
        let kid_id x = match sget s x with Some nk -> string_of_n nk.nid | None -> "?" in
        Buffer.add_string out (Printf.sprintf "%s:%s:%d:%s:%s|" (string_of_n nd.nid) (string_of_z nd.nwords)
                                 (if nd.nfinal then 1 else 0) (hex_of_word nd.nlabels)
                                 (String.concat "." (List.map kid_id nd.nkids)));
        List.iter visit nd.nkids
    end in
  visit root;
  Buffer.contents out

(* certificates for the proved domain check [wf_checkb]: the reachable keys in depth-first
   preorder (the root first, every other key after a node linking to it) and their heights.
   Nothing is assumed about them: the checker decides. *)
let wf_limit = 3000
let wf_string (s : store) : string =
  let seen = Hashtbl.create 64 in
  let order = ref [] in
  let rec visit (i : n) =
    let k = int_of_n i in
    if not (Hashtbl.mem seen k) then begin
      Hashtbl.add seen k ();
      order := i :: !order;
      match sget s i with
      | None -> ()
      | Some nd -> List.iter visit nd.nkids
    end in
  visit root;
  let univ = List.rev !order in
  if List.length univ > wf_limit then "skipped" else begin
    let ht = Hashtbl.create 64 in
    let rec height (depth : int) (i : n) : int =
      let k = int_of_n i in
      match Hashtbl.find_opt ht k with
      | Some h -> h
      | None ->
        let h = if depth > wf_limit + 1 then 0 else
            match sget s i with
            | None -> 0
            | Some nd -> List.fold_left (fun m x -> max m (1 + height (depth + 1) x)) 0 nd.nkids in
        Hashtbl.replace ht k h; h in
    let hl = List.map (fun i -> (i, nat_of_int (height 0 i))) univ in
    if wf_checkb s root univ hl then "ok" else "BAD"
  end

let str_res f = function Ok x -> f x | Panic -> "panic" | NoFuel -> "nofuel"

(* o=p in the header: the language is too large to enumerate; counts and probe ranks only *)
let probe_only = ref false

let observe (s2 : store) (maxlen : int) (blank : n) (pats : word list) : string =
  let lk w = str_res (function Some r -> string_of_z r | None -> "-") (lookup s2 root w) in
  let probes = clip (String.concat "," (List.map (fun p -> hex_of_word p ^ ":" ^ lk p) pats)) in
  if !probe_only then
    Printf.sprintf "nw=%s nodes=%s probes=%s" (str_res string_of_z (number_of_words s2 root))
      (str_res (fun k -> string_of_int (int_of_nat k)) (with_fuel (fun f -> number_of_nodes f s2 root))) probes
  else
  let ws = words_from (nat_of_int (maxlen + 2)) s2 root in
  let wl = match ws with Ok l -> l | _ -> [] in
  let words_s = str_res (fun l -> String.concat "," (List.map hex_of_word l)) ws in
  let ranks = List.map lk wl in
  let nw = str_res string_of_z (number_of_words s2 root) in
  let nodes = str_res (fun k -> string_of_int (int_of_nat k)) (with_fuel (fun f -> number_of_nodes f s2 root)) in
  let wr = List.combine wl ranks in
  let search p =
    let hits = List.filter (fun (w, _) -> pat_match blank p w) wr in
    hex_of_word p ^ "=" ^ String.concat "," (List.map (fun (w, r) -> hex_of_word w ^ "@" ^ r) hits) in
  Printf.sprintf "words=%s ranks=%s nw=%s nodes=%s search=%s probes=%s"
    (clip words_s) (clip (String.concat "," ranks)) nw nodes (clip (String.concat ";" (List.map search pats))) probes

(* height of the automaton (longest path from the root), for the fuel of [words_from];
   bounded so that a cyclic store (never generated; the domain check reports it) cannot loop *)
let height_of (s : store) : int =
  let ht = Hashtbl.create 64 in
  let rec height (depth : int) (i : n) : int =
    let k = int_of_n i in
    match Hashtbl.find_opt ht k with
    | Some h -> h
    | None ->
      let h = if depth > 100000 then 0 else
          match sget s i with
          | None -> 0
          | Some nd -> List.fold_left (fun m x -> max m (1 + height (depth + 1) x)) 0 nd.nkids in
      Hashtbl.replace ht k h; h in
  height 0 root

let bytes_of_hex (h : string) : n list =
  List.init (String.length h / 2) (fun i -> n_of_int (int_of_string ("0x" ^ String.sub h (2 * i) 2)))

type source = Words of word list | Stream of n list

(* the observation of one source: (projected, strict) *)
let round_trip (src : source) (blank : n) (pats : word list) : string * string =
  let built = match src with
    | Words words ->
      (match new_dawg words with
       | Panic -> Error "build-panic"
       | NoFuel -> Error "build-nofuel"
       | Ok None -> Error "build-error"
       | Ok (Some s) -> Ok s)
    | Stream b ->
      (match gob_decode zero_node b with
       | DErr -> Error "src-decode-error"
       | DPanic -> Error "src-decode-panic"
       | DOk s -> Ok s) in
  match built with
  | Error e -> (e, "")
  | Ok s ->
    let maxlen = match src with
      | Words words -> List.fold_left (fun m w -> max m (List.length w)) 0 words
      | Stream _ -> height_of s in
    match with_fuel (fun f -> gob_encode f s root) with
    | Panic -> ("encode-panic", "")
    | NoFuel -> ("encode-nofuel", "")
    | Ok b ->
      match gob_decode zero_node b with
      | DErr -> ("decode-error", "bytes=" ^ clip (hex_of_bytes b))
      | DPanic -> ("decode-panic", "bytes=" ^ clip (hex_of_bytes b))
      | DOk s2 ->
        let re = match with_fuel (fun f -> gob_encode f s2 root) with
          | Ok b2 -> if b2 = b then "same" else "DIFFERENT"
          | Panic -> "panic" | NoFuel -> "nofuel" in
        let canon = match src with
          | Words _ -> ""
          | Stream st -> if st = b then " canon=same" else " canon=DIFFERENT" in
        (Printf.sprintf "wf=%s %s reenc=%s%s" (wf_string s) (observe s2 maxlen blank pats) re canon,
         Printf.sprintf "dump=%s bytes=%s" (clip (dump s2)) (clip (hex_of_bytes b)))

let () =
  try
    while true do
      let line = input_line stdin in
      let i = String.index line ';' in
      let header = String.sub line 0 i in
      let toks = split_nonempty ' ' (String.sub line (i + 1) (String.length line - i - 1)) in
      probe_only := false;
      let blank = ref (n_of_int 63) and pats = ref [] and nsrc = ref 0 and streams = ref [] and prog = ref false in
      List.iter (fun kv ->
          match String.index_opt kv '=' with
          | None -> ()
          | Some j ->
            let k = String.sub kv 0 j and v = String.sub kv (j + 1) (String.length kv - j - 1) in
            if k = "b" then blank := n_of_int (int_of_string ("0x" ^ v))
            else if k = "s" then pats := List.map word_of_hex (split_nonempty '.' v)
            else if k = "n" then nsrc := int_of_string v
            else if k = "o" then probe_only := (v = "p")
            else if k = "p" then prog := (v <> "")
            else if k = "x" then
              List.iter (fun e ->
                  match String.index_opt e ':' with
                  | Some c when c > 0 ->
                    streams := (int_of_string (String.sub e 0 c),
                                bytes_of_hex (String.sub e (c + 1) (String.length e - c - 1))) :: !streams
                  | _ -> ()) (split_nonempty '/' v))
        (String.split_on_char ',' header);
      let n = max 1 !nsrc in
      (* tokens: "<hex word>" belongs to source 0, "<i>:<hex word>" to source i *)
      let words = Array.make n [] in
      List.iter (fun t ->
          let si, w = match String.index_opt t ':' with
            | Some c when c > 0 -> (int_of_string (String.sub t 0 c), String.sub t (c + 1) (String.length t - c - 1))
            | _ -> (0, t) in
          if si >= 0 && si < n && not (List.mem_assoc si !streams) then words.(si) <- word_of_hex w :: words.(si)) toks;
      let src k = match List.assoc_opt k !streams with
        | Some b -> Stream b
        | None -> Words (List.rev words.(k)) in
      if n = 1 && not !prog then begin
        (* a plain case: one source, its round trip *)
        let (p, st) = round_trip (src 0) !blank !pats in
        if st = "" then print_endline p else Printf.printf "%s ## %s\n" p st
      end else begin
        (* a history case: the model of every step of the program is the round trip of the source
           concerned (GobEncode / GobDecode have no state in the model), so the observation is the
           round trip of each source *)
        let rs = List.init n (fun k -> round_trip (src k) !blank !pats) in
        let failed = List.exists (fun (p, _) -> String.length p < 3 || String.sub p 0 3 <> "wf=") rs in
        let built_failed = List.exists (fun (p, _) -> p = "build-error" || p = "src-decode-error") rs in
        if built_failed then
          print_endline (String.concat " " (List.mapi (fun k (p, _) ->
              Printf.sprintf "[%d] %s" k (if p = "build-error" || p = "src-decode-error" then p else "not-run")) rs))
        else begin
          ignore failed;
          Printf.printf "%s ##%s\n"
            (String.concat " " (List.mapi (fun k (p, _) -> Printf.sprintf "[%d] %s" k p) rs))
            (String.concat "" (List.mapi (fun k (_, st) -> Printf.sprintf " [%d] %s" k st) rs))
        end
      end
    done
  with End_of_file -> ()
