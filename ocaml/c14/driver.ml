(* Driver of the extracted model for C14: reads the case lines of harness/cmd/c14 on stdin,
   prints one observation line per case in the format of that command.
   Case:  b=<hex blank byte>,s=<hex pattern>.<hex pattern>...;tok tok tok
   where the tokens are the words of the set in hex ("-" = the empty word), strictly increasing.
   The automaton is built by the model of the builder (C12), encoded by [gob_encode], decoded by
   [gob_decode] into a fresh node and observed; then encoded again. *)
open Model
open Conv_nat
open Conv_z

let n_of_int (i : int) : n = if i = 0 then N0 else Npos (pos_of_int i)
let int_of_n (x : n) : int = match x with N0 -> 0 | Npos p -> int_of_pos p

let word_of_hex (h : string) : word =
  if h = "-" || h = "" then [] else
    List.init (String.length h / 2) (fun i -> n_of_int (int_of_string ("0x" ^ String.sub h (2 * i) 2)))

let hex_of_word (w : word) : string =
  if w = [] then "-" else String.concat "" (List.map (fun b -> Printf.sprintf "%02x" (int_of_n b)) w)

let hex_of_bytes (w : n list) : string =
  let b = Buffer.create 256 in
  List.iter (fun x -> let v = int_of_n x in
              if v < 256 then Buffer.add_string b (Printf.sprintf "%02x" v)
              else Buffer.add_string b (Printf.sprintf "<%d>" v)) w;
  Buffer.contents b

let split_nonempty c s = List.filter (fun x -> x <> "") (String.split_on_char c s)

(* long fields are replaced by their MD5 (same rule in the Go harness) *)
let clip (s : string) : string =
  if String.length s > 4096 then Printf.sprintf "md5:%s:%d" (Digest.to_hex (Digest.string s)) (String.length s) else s

let rec mk_nat acc i = if i <= 0 then acc else mk_nat (S acc) (i - 1)

(* explicit fuel, grown until the run does not stop for lack of it *)
let with_fuel (f : nat -> 'a res) : 'a res =
  let rec go k = match f (mk_nat O k) with
    | NoFuel when k < (1 lsl 24) -> go (k * 8)
    | r -> r in
  go 4096

let dump (s : store) : string =
  let seen = Hashtbl.create 64 in
  let out = Buffer.create 256 in
  let rec visit (i : n) =
    let k = int_of_n i in
    if not (Hashtbl.mem seen k) then begin
      Hashtbl.add seen k ();
      match sget s i with
      | None -> Buffer.add_string out (Printf.sprintf "dangling(%d)|" k)
      | Some nd ->
        let kid_id x = match sget s x with Some nk -> string_of_int (int_of_n nk.nid) | None -> "?" in
        Buffer.add_string out (Printf.sprintf "%d:%s:%d:%s:%s|" (int_of_n nd.nid) (string_of_z nd.nwords)
                                 (if nd.nfinal then 1 else 0) (hex_of_word nd.nlabels)
                                 (String.concat "." (List.map kid_id nd.nkids)));
        List.iter visit nd.nkids
    end in
  visit root;
  Buffer.contents out

(* certificates for the proved domain check [wf_checkb]: the reachable keys in depth-first
   preorder (the root first, every other key after a node linking to it) and their heights.
   Nothing is assumed about them: the checker decides. *)
let wf_limit = 3000
let wf_string (s : store) : string =
  let seen = Hashtbl.create 64 in
  let order = ref [] in
  let rec visit (i : n) =
    let k = int_of_n i in
    if not (Hashtbl.mem seen k) then begin
      Hashtbl.add seen k ();
      order := i :: !order;
      match sget s i with
      | None -> ()
      | Some nd -> List.iter visit nd.nkids
    end in
  visit root;
  let univ = List.rev !order in
  if List.length univ > wf_limit then "skipped" else begin
    let ht = Hashtbl.create 64 in
    let rec height (depth : int) (i : n) : int =
      let k = int_of_n i in
      match Hashtbl.find_opt ht k with
      | Some h -> h
      | None ->
        let h = if depth > wf_limit + 1 then 0 else
            match sget s i with
            | None -> 0
            | Some nd -> List.fold_left (fun m x -> max m (1 + height (depth + 1) x)) 0 nd.nkids in
        Hashtbl.replace ht k h; h in
    let hl = List.map (fun i -> (i, nat_of_int (height 0 i))) univ in
    if wf_checkb s root univ hl then "ok" else "BAD"
  end

let str_res f = function Ok x -> f x | Panic -> "panic" | NoFuel -> "nofuel"

let observe (s2 : store) (maxlen : int) (blank : n) (pats : word list) : string =
  let lk w = str_res (function Some r -> string_of_z r | None -> "-") (lookup s2 root w) in
  let ws = words_from (nat_of_int (maxlen + 2)) s2 root in
  let wl = match ws with Ok l -> l | _ -> [] in
  let words_s = str_res (fun l -> String.concat "," (List.map hex_of_word l)) ws in
  let ranks = List.map lk wl in
  let nw = str_res string_of_z (number_of_words s2 root) in
  let nodes = str_res (fun k -> string_of_int (int_of_nat k)) (with_fuel (fun f -> number_of_nodes f s2 root)) in
  let wr = List.combine wl ranks in
  let search p =
    let hits = List.filter (fun (w, _) -> pat_match blank p w) wr in
    hex_of_word p ^ "=" ^ String.concat "," (List.map (fun (w, r) -> hex_of_word w ^ "@" ^ r) hits) in
  Printf.sprintf "words=%s ranks=%s nw=%s nodes=%s search=%s"
    (clip words_s) (clip (String.concat "," ranks)) nw nodes (clip (String.concat ";" (List.map search pats)))

let () =
  try
    while true do
      let line = input_line stdin in
      let i = String.index line ';' in
      let header = String.sub line 0 i in
      let toks = split_nonempty ' ' (String.sub line (i + 1) (String.length line - i - 1)) in
      let blank = ref (n_of_int 63) and pats = ref [] in
      List.iter (fun kv ->
          match String.index_opt kv '=' with
          | None -> ()
          | Some j ->
            let k = String.sub kv 0 j and v = String.sub kv (j + 1) (String.length kv - j - 1) in
            if k = "b" then blank := n_of_int (int_of_string ("0x" ^ v))
            else if k = "s" then pats := List.map word_of_hex (split_nonempty '.' v))
        (String.split_on_char ',' header);
      let words = List.map word_of_hex toks in
      let maxlen = List.fold_left (fun m w -> max m (List.length w)) 0 words in
      (match new_dawg words with
       | Panic -> print_endline "build-panic"
       | NoFuel -> print_endline "build-nofuel"
       | Ok None -> print_endline "build-error"
       | Ok (Some s) ->
         match with_fuel (fun f -> gob_encode f s root) with
         | Panic -> print_endline "encode-panic"
         | NoFuel -> print_endline "encode-nofuel"
         | Ok b ->
           match gob_decode zero_node b with
           | DErr -> Printf.printf "decode-error ## bytes=%s\n" (clip (hex_of_bytes b))
           | DPanic -> Printf.printf "decode-panic ## bytes=%s\n" (clip (hex_of_bytes b))
           | DOk s2 ->
             let re = match with_fuel (fun f -> gob_encode f s2 root) with
               | Ok b2 -> if b2 = b then "same" else "DIFFERENT"
               | Panic -> "panic" | NoFuel -> "nofuel" in
             Printf.printf "wf=%s %s reenc=%s ## dump=%s bytes=%s\n" (wf_string s) (observe s2 maxlen !blank !pats) re
               (clip (dump s2)) (clip (hex_of_bytes b)))
    done
  with End_of_file -> ()
