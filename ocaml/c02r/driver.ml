(* Driver of the extracted reuse model (coq/Canon/SearchReuseModel.v, canon_alloc_reset): reads the
   case file of harness/cmd/c02r on stdin and prints one observation per line.

     r:<family>;<capn>;<capm>;<bound>;<seed>;<item> <item> ...     item = <graph6>!<classes>

   One storage is threaded through the items (the storage returned by the model of one call is the
   storage of the next); the partition handed to Reset is the initial one every time (the search
   model does not keep the partition arrays; by C02_reuse_reset_noninterference_partial its contents
   do not matter).  bound = 0: new_storage capn capm; bound > 0: every array filled with the junk
   of the linear congruential generator of harness/cmd/c02r/main.go (same order of draws).

   observation:  for every item  cg=<graph6 relabelled> orb=<orbit labels>  ##  for every item
   perm= ds= gens=, then  final: <backing arrays of the storage after the last call>.
   Parsing/printing and the junk generator are hand-written here; everything else is extracted. *)
open Model
open Conv_nat
open Conv_z

let graph_of_graph6 (s : string) : bool list list =
  let len = String.length s in
  if len = 0 then failwith "empty graph6";
  let n0 = Char.code s.[0] - 63 in
  let n, s =
    if n0 = 63 then begin
      if len < 4 then failwith "graph6 order";
      let c i = Char.code s.[i] - 63 in
      ((c 1 lsl 12) lor (c 2 lsl 6) lor c 3, String.sub s 3 (len - 3))
    end else (n0, s) in
  if n < 0 || n > 2000 then failwith "graph6 order";
  let a = Array.make_matrix n n false in
  let bit = ref 0 in
  for j = 1 to n - 1 do
    for i = 0 to j - 1 do
      let byte = Char.code s.[1 + !bit / 6] - 63 in
      if (byte lsr (5 - !bit mod 6)) land 1 = 1 then begin a.(i).(j) <- true; a.(j).(i) <- true end;
      incr bit
    done
  done;
  Array.to_list (Array.map Array.to_list a)

let graph6_of_graph (g : bool list list) : string =
  let a = Array.of_list (List.map Array.of_list g) in
  let n = Array.length a in
  let b = Buffer.create 16 in
  if n <= 62 then Buffer.add_char b (Char.chr (n + 63))
  else begin
    Buffer.add_char b '~';
    Buffer.add_char b (Char.chr (((n lsr 12) land 63) + 63));
    Buffer.add_char b (Char.chr (((n lsr 6) land 63) + 63));
    Buffer.add_char b (Char.chr ((n land 63) + 63))
  end;
  let cur = ref 0 and k = ref 0 in
  for j = 1 to n - 1 do
    for i = 0 to j - 1 do
      cur := (!cur lsl 1) lor (if a.(i).(j) then 1 else 0);
      incr k;
      if !k = 6 then begin Buffer.add_char b (Char.chr (!cur + 63)); cur := 0; k := 0 end
    done
  done;
  if !k > 0 then Buffer.add_char b (Char.chr ((!cur lsl (6 - !k)) + 63));
  Buffer.contents b

let ints l = String.concat "," (List.map (fun x -> string_of_int (int_of_nat x)) l)
let zints l = String.concat "," (List.map (fun x -> string_of_int (int_of_z x)) l)

let nats (s : string) : nat list =
  if s = "" || s = "-" then [] else List.map (fun t -> nat_of_int (int_of_string t)) (String.split_on_char ',' s)

let fuel = let rec mk acc i = if i <= 0 then acc else mk (S acc) (i - 1) in mk O 3_000_000

(* ---------------------------------------------------------------- junk *)
let lcg = ref 0
let next () = lcg := (!lcg * 1103515245 + 12345) land 0x7fffffff; !lcg lsr 16

let rec tab k f = if k <= 0 then [] else let x = f () in x :: tab (k - 1) f

(* one array: capacity base + 0..2, a length, the contents: (contents, length) *)
let arr_nat base bound =
  let c = base + next () mod 3 in
  let ln = next () mod (c + 1) in
  let a = tab c (fun () -> nat_of_int (next () mod bound)) in
  (a, ln)

let arr_z base capn =
  let c = base + next () mod 3 in
  let _ln = next () mod (c + 1) in
  tab c (fun () -> z_of_int (next () mod (capn + 3) - 3))

let junk_storage capn capm bound : storage =
  let nat base = fst (arr_nat base bound) in
  let cb = nat capm in
  let cbPath = nat capn in
  let cbPerm = nat capn in
  let cbInv = nat capn in
  let cbOrb = arr_z capn capn in
  let fl = nat capm in
  let flInv = nat capn in
  let flOrb = arr_z capn capn in
  let flPath = nat capn in
  let ng = capn - 1 + next () mod 2 in
  let gens = tab ng (fun () ->
    let c = next () mod (capn + 2) in
    let _ln = next () mod (c + 1) in
    tab c (fun () -> nat_of_int (next () mod bound))) in
  let space = nat capn in
  let dws =
    let c = capn + next () mod 3 in
    let _ln = next () mod (c + 1) in
    tab c (fun () -> let v = nat_of_int (next () mod bound) in let k = nat_of_int (next () mod bound) in (v, k)) in
  let nbs = nat capn in
  let timesSeen = nat capn in
  let maxCell = nat capn in
  let numberOfMax = nat capn in
  let path = nat capn in
  let choices = nat capn in
  { st_path = path; st_choices = choices; st_gens = gens; st_cb = cb; st_cbPath = cbPath; st_cbPerm = cbPerm;
    st_cbInv = cbInv; st_cbOrb = cbOrb; st_fl = fl; st_flInv = flInv; st_flOrb = flOrb; st_flPath = flPath;
    st_space = space; st_dws = dws; st_nbs = nbs; st_timesSeen = timesSeen; st_maxCell = maxCell;
    st_numberOfMax = numberOfMax }

let junk_partition capn capm bound : opst =
  let sl base = let (a, ln) = arr_nat base bound in { arr = a; len = nat_of_int ln } in
  let order = sl capn in
  let binDividers = sl capn in
  let binAges = sl capn in
  let binsToCheck = sl capn in
  let value = sl capm in
  let inCell = sl capn in
  let age = nat_of_int (next () mod bound) in
  let spl = nat_of_int (next () mod bound) in
  { order; binDividers; binAges; binsToCheck; value; inCell; age; spl }

(* NewOrderedPartition(capn, capm, nil) *)
let fresh_partition capn capm : opst =
  let zeros k = tab k (fun () -> nat_of_int 0) in
  let i = ref (-1) in
  { order = { arr = tab capn (fun () -> incr i; nat_of_int !i); len = nat_of_int capn };
    binDividers = { arr = (match zeros capn with [] -> [] | _ :: t -> nat_of_int capn :: t); len = nat_of_int 1 };
    binAges = { arr = zeros capn; len = nat_of_int 1 };
    binsToCheck = { arr = zeros capn; len = nat_of_int 1 };
    value = { arr = zeros capm; len = nat_of_int 0 };
    inCell = { arr = zeros capn; len = nat_of_int capn };
    age = nat_of_int 0; spl = nat_of_int 0 }

let dump (st : storage) : string =
  Printf.sprintf " currentBest=%s currentBestPath=%s currentBestPerm=%s currentBestPermInv=%s currentBestOrbits=%s firstLeaf=%s firstLeafPermInv=%s firstLeafOrbits=%s firstLeafPath=%s slots=%s"
    (ints st.st_cb) (ints st.st_cbPath) (ints st.st_cbPerm) (ints st.st_cbInv) (zints st.st_cbOrb)
    (ints st.st_fl) (ints st.st_flInv) (zints st.st_flOrb) (ints st.st_flPath)
    (String.concat "/" (List.map ints st.st_gens))

let () =
  try
    while true do
      let line = input_line stdin in
      let out =
        try
          match String.split_on_char ';' line with
          | [_tag; capn; capm; bound; seed; items] ->
            let capn = int_of_string capn and capm = int_of_string capm and bound = int_of_string bound in
            lcg := int_of_string seed;
            let st0, op =
              if bound = 0 then (new_storage (nat_of_int capn) (nat_of_int capm), fresh_partition capn capm)
              else begin
                let s = junk_storage capn capm bound in
                let o = junk_partition capn capm bound in (s, o)
              end in
            let toks = List.filter (fun t -> t <> "") (String.split_on_char ' ' items) in
            let st = ref st0 in
            let proj = ref [] and strict = ref [] and failed = ref None in
            List.iter (fun tok ->
              if !failed = None then begin
                match String.index_opt tok '!' with
                | None -> failed := Some "badcase"
                | Some i ->
                  let g6 = String.sub tok 0 i and cls = String.sub tok (i + 1) (String.length tok - i - 1) in
                  let g = graph_of_graph6 g6 in
                  let classes = if cls = "-" then None else Some (List.map nats (String.split_on_char '|' cls)) in
                  (match canon_alloc_reset fuel !st op g classes with
                   | Panic -> failed := Some "model-panic"
                   | Fuel -> failed := Some "model-out-of-fuel"
                   | Ok ((((perm, ds), gens)), st') ->
                     st := st';
                     let cg = graph6_of_graph (relabel g perm) in
                     let orb = match labels_of_ds ds with Some l -> ints l | None -> "notforest" in
                     proj := Printf.sprintf "cg=%s orb=%s" cg orb :: !proj;
                     strict := Printf.sprintf "perm=%s ds=%s gens=%s" (ints perm) (zints ds)
                                 (String.concat "/" (List.map ints gens)) :: !strict)
              end) toks;
            (match !failed with
             | Some m -> m
             | None ->
               String.concat " | " (List.rev !proj) ^ " ## " ^ String.concat " | " (List.rev !strict) ^ " final:" ^ dump !st)
          | _ -> "badcase"
        with Failure m -> "badcase " ^ m | Not_found -> "badcase" | Invalid_argument _ -> "badcase"
      in
      print_string out; print_newline ()
    done
  with End_of_file -> ()
