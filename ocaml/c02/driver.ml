(* Driver of the extracted, proved checkers of C02 (coq/Canon): reads the case file of
   harness/cmd/c02 on stdin and prints one observation per line.

   chk;<g6>;<cls>;<gens>;<ds>    full certificate (brute-force Aut, n small)
   chkp;<g6>;<cls>;<gens>;<ds>   partial certificate (generators are automorphisms, array = orbits
                                 of the generators)
   big;<g6>;<cls>;<gens>;<ds>;<known>   as chkp (n = 17..70; the known automorphisms are used by the harness only)
   any other mode (o, seq)       oracle-only cases of the harness: "ok"

   <gens>/<ds> are the generators and the orbit array that the implementation returned for the
   graph with these vertex classes (the harness puts them into the case line), so the verdict
   printed here is the proved checker's verdict on the implementation's output. *)
open Model
open Conv_nat
open Conv_z

let ints l = if l = [] then "-" else String.concat "," (List.map string_of_int l)
let nats l = ints (List.map int_of_nat l)

let parse_g6 (s : string) : int * bool list list =
  (* one size byte for n <= 62, "~" and three bytes above *)
  let n, off =
    if s.[0] = '~' then
      (((Char.code s.[1] - 63) lsl 12) lor ((Char.code s.[2] - 63) lsl 6) lor (Char.code s.[3] - 63), 3)
    else (Char.code s.[0] - 63, 0) in
  let a = Array.make_matrix n n false in
  let k = ref 0 in
  for j = 1 to n - 1 do
    for i = 0 to j - 1 do
      let c = Char.code s.[off + 1 + !k / 6] - 63 in
      if (c lsr (5 - !k mod 6)) land 1 = 1 then begin a.(i).(j) <- true; a.(j).(i) <- true end;
      incr k
    done
  done;
  (n, Array.to_list (Array.map Array.to_list a))

let parse_cls (n : int) (s : string) : nat list =
  let c = Array.make n 0 in
  if s <> "-" then
    List.iteri (fun i part ->
        if part <> "" then
          List.iter (fun v -> c.(int_of_string v) <- i) (String.split_on_char ',' part))
      (String.split_on_char '|' s);
  List.map nat_of_int (Array.to_list c)

let parse_gens (s : string) : nat list list =
  if s = "-" then []
  else List.map (fun g -> List.map (fun v -> nat_of_int (int_of_string v)) (String.split_on_char ',' g))
      (String.split_on_char '/' s)

let parse_ds (s : string) : z list =
  if s = "-" then [] else List.map (fun v -> z_of_int (int_of_string v)) (String.split_on_char ',' s)

let rec fact n = if n <= 1 then 1 else n * fact (n - 1)

(* the bins of the initial ordered partition: the classes in order, each sorted (ints.Sort in
   NewOrderedPartition); one bin 0..n-1 without classes *)
let parse_cells (n : int) (s : string) : int list list =
  if s = "-" then (if n = 0 then [] else [List.init n (fun i -> i)])
  else if s = "" then []
  else List.map (fun part -> List.sort compare (List.map int_of_string (String.split_on_char ',' part)))
      (String.split_on_char '|' s)

(* model of the m == 0 branch: the generators and the array it writes (strict part) *)
let edgeless_strict (n : int) (m : bool list list) (clss : string) : string =
  if n = 0 || List.exists (fun row -> List.mem true row) m then ""
  else begin
    let cells = List.map (List.map nat_of_int) (parse_cells n clss) in
    let gens = edgeless_gens (nat_of_int n) cells in
    let ds = edgeless_ds (List.init n (fun _ -> z_of_int 7)) cells in
    let gs = if gens = [] then "-" else String.concat "/" (List.map (fun g -> String.concat "," (List.map (fun v -> string_of_int (int_of_nat v)) g)) gens) in
    " ## eg=" ^ gs ^ ";" ^ ints (List.map int_of_z ds)
  end

let check (full : bool) (g6 : string) (clss : string) (genss : string) (dss : string) : string =
  let n, m = parse_g6 g6 in
  let nn = nat_of_int n in
  let adj = adj_of m in
  let cls = cls_of (parse_cls n clss) in
  let gens = parse_gens genss in
  let ds = parse_ds dss in
  let strict = edgeless_strict n m clss in
  (fun v -> v ^ strict) @@
  if not (List.for_all (fun g -> is_automorphism nn adj cls g) gens) then "gens=0"
  else
    match labels_of_ds ds with
    | None -> "gens=1 ds=bad"
    | Some _ when List.length ds <> n -> "gens=1 ds=bad"
    | Some lab ->
      let gorb = match orbits_of nn gens with Some l -> nats l | None -> "none" in
      let b = Buffer.create 128 in
      Buffer.add_string b (Printf.sprintf "gens=1 ds=%s gorb=%s" (nats lab) gorb);
      if full then begin
        let cap = max 1 (fact n) in
        let capn = nat_of_int cap in
        let fuel = S capn in
        let order = match group_order fuel capn nn gens with Some k -> string_of_int (int_of_nat k) | None -> "big" in
        let aut = aut_bruteforce nn adj cls in
        let aorb = match orbits_of nn aut with Some l -> nats l | None -> "none" in
        let v = check_full fuel capn nn adj cls gens ds in
        Buffer.add_string b (Printf.sprintf " order=%s aut=%d:%s full=%d" order (List.length aut) aorb (if v then 1 else 0))
      end else begin
        let v = check_partial nn adj cls gens ds in
        Buffer.add_string b (Printf.sprintf " part=%d" (if v then 1 else 0))
      end;
      Buffer.contents b

(* rst;<capn>;<g6>/<cls> ...: the array-level model of NewOrderedPartition / Reset
   (coq/Canon/AutReset.v) threaded through the items; the visible state after every Reset goes
   into the strict part (implementation detail: a difference is a warning, not a violation) *)
let count_edges (m : bool list list) : int =
  List.fold_left (fun a row -> a + List.length (List.filter (fun b -> b) row)) 0 m / 2

let parse_classes_opt (s : string) : nat list list option =
  if s = "-" then None
  else Some (List.map (fun part -> List.map (fun v -> nat_of_int (int_of_string v)) (String.split_on_char ',' part))
               (String.split_on_char '|' s))

let show_state (st : opst) : string =
  let (sl, (a, b)) = visible st in
  String.concat "|" (List.map nats sl) ^ "|" ^ string_of_int (int_of_nat a) ^ "|" ^ string_of_int (int_of_nat b)

let reset_case (capn : int) (items : string list) : string =
  let capm = capn * (capn - 1) / 2 in
  match new_op isort (nat_of_int capn) (nat_of_int capm) None with
  | None -> "ok ## nil"
  | Some op0 ->
    let op = ref (Some op0) in
    let out = List.map (fun it ->
        match String.split_on_char '/' it, !op with
        | g6 :: cls :: _, Some o ->
          let n, m = parse_g6 g6 in
          (match reset isort o (nat_of_int n) (nat_of_int (count_edges m)) (parse_classes_opt cls) with
           | Some st -> op := Some st; show_state st
           | None -> op := None; "panic")
        | _, _ -> "panic") items in
    "ok ## " ^ String.concat ";" out

let () =
  try
    while true do
      let line = input_line stdin in
      let f = String.split_on_char ';' line in
      let mode = match f with [] -> "" | m :: _ -> (match String.index_opt m ':' with Some i -> String.sub m 0 i | None -> m) in
      let out =
        match mode, f with
        | "chk", [_; g6; cls; gens; ds] -> (try check true g6 cls gens ds with _ -> "badcase")
        | "chkp", [_; g6; cls; gens; ds] -> (try check false g6 cls gens ds with _ -> "badcase")
        | "big", [_; g6; cls; gens; ds; _] -> (try check false g6 cls gens ds with _ -> "badcase")
        | ("chk" | "chkp"), _ -> "badcase"
        | "rst", [_; capn; items] ->
          (try reset_case (int_of_string capn) (List.filter (fun x -> x <> "") (String.split_on_char ' ' items)) with _ -> "badcase")
        | _ -> "ok"
      in
      print_string out; print_char '\n'
    done
  with End_of_file -> ()
