(* Driver of the extracted, proved checkers of C02 (coq/Canon): reads the case file of
   harness/cmd/c02 on stdin and prints one observation per line.

   chk;<g6>;<cls>;<gens>;<ds>    full certificate (brute-force Aut, n small)
   chkp;<g6>;<cls>;<gens>;<ds>   partial certificate (generators are automorphisms, array = orbits
                                 of the generators)
   any other mode (o, seq)       oracle-only cases of the harness: "ok"

   <gens>/<ds> are the generators and the orbit array that the implementation returned for the
   graph with these vertex classes (the harness puts them into the case line), so the verdict
   printed here is the proved checker's verdict on the implementation's output. *)
open Model
open Conv_nat
open Conv_z

let ints l = if l = [] then "-" else String.concat "," (List.map string_of_int l)
let nats l = ints (List.map int_of_nat l)

let parse_g6 (s : string) : int * bool list list =
  let n = Char.code s.[0] - 63 in
  let a = Array.make_matrix n n false in
  let k = ref 0 in
  for j = 1 to n - 1 do
    for i = 0 to j - 1 do
      let c = Char.code s.[1 + !k / 6] - 63 in
      if (c lsr (5 - !k mod 6)) land 1 = 1 then begin a.(i).(j) <- true; a.(j).(i) <- true end;
      incr k
    done
  done;
  (n, Array.to_list (Array.map Array.to_list a))

let parse_cls (n : int) (s : string) : nat list =
  let c = Array.make n 0 in
  if s <> "-" then
    List.iteri (fun i part ->
        if part <> "" then
          List.iter (fun v -> c.(int_of_string v) <- i) (String.split_on_char ',' part))
      (String.split_on_char '|' s);
  List.map nat_of_int (Array.to_list c)

let parse_gens (s : string) : nat list list =
  if s = "-" then []
  else List.map (fun g -> List.map (fun v -> nat_of_int (int_of_string v)) (String.split_on_char ',' g))
      (String.split_on_char '/' s)

let parse_ds (s : string) : z list =
  if s = "-" then [] else List.map (fun v -> z_of_int (int_of_string v)) (String.split_on_char ',' s)

let rec fact n = if n <= 1 then 1 else n * fact (n - 1)

let check (full : bool) (g6 : string) (clss : string) (genss : string) (dss : string) : string =
  let n, m = parse_g6 g6 in
  let nn = nat_of_int n in
  let adj = adj_of m in
  let cls = cls_of (parse_cls n clss) in
  let gens = parse_gens genss in
  let ds = parse_ds dss in
  if not (List.for_all (fun g -> is_automorphism nn adj cls g) gens) then "gens=0"
  else
    match labels_of_ds ds with
    | None -> "gens=1 ds=bad"
    | Some _ when List.length ds <> n -> "gens=1 ds=bad"
    | Some lab ->
      let gorb = match orbits_of nn gens with Some l -> nats l | None -> "none" in
      let b = Buffer.create 128 in
      Buffer.add_string b (Printf.sprintf "gens=1 ds=%s gorb=%s" (nats lab) gorb);
      if full then begin
        let cap = max 1 (fact n) in
        let capn = nat_of_int cap in
        let fuel = S capn in
        let order = match group_order fuel capn nn gens with Some k -> string_of_int (int_of_nat k) | None -> "big" in
        let aut = aut_bruteforce nn adj cls in
        let aorb = match orbits_of nn aut with Some l -> nats l | None -> "none" in
        let v = check_full fuel capn nn adj cls gens ds in
        Buffer.add_string b (Printf.sprintf " order=%s aut=%d:%s full=%d" order (List.length aut) aorb (if v then 1 else 0))
      end else begin
        let v = check_partial nn adj cls gens ds in
        Buffer.add_string b (Printf.sprintf " part=%d" (if v then 1 else 0))
      end;
      Buffer.contents b

let () =
  try
    while true do
      let line = input_line stdin in
      let f = String.split_on_char ';' line in
      let mode = match f with [] -> "" | m :: _ -> (match String.index_opt m ':' with Some i -> String.sub m 0 i | None -> m) in
      let out =
        match mode, f with
        | "chk", [_; g6; cls; gens; ds] -> (try check true g6 cls gens ds with _ -> "badcase")
        | "chkp", [_; g6; cls; gens; ds] -> (try check false g6 cls gens ds with _ -> "badcase")
        | ("chk" | "chkp"), _ -> "badcase"
        | _ -> "ok"
      in
      print_string out; print_char '\n'
    done
  with End_of_file -> ()
