(* Driver of the extracted model for C13: reads the case lines of harness/cmd/c13 on stdin,
   prints one observation line per case in the format of that command.
   Case:  [@<provenance>@]<searchers>;tok tok tok
   <provenance> says in which way the Go side obtains the Dawg object holding the words (New,
   Builder, GobDecode into a fresh or a used value, ...); it is skipped here: whatever the way,
   the expected observation is the model's search on the Dawg of the word list.
   <searchers> = comma separated list (possibly empty) of  P:<hex pattern>:<hex blank byte>
   or  A:<hex anagram>:<hex blank byte>  ("-" = the empty pattern/anagram); each token is a
   word in hex ("-" = the empty word), strictly increasing.
   Observation:  s0=<states> r1=<w:rank,...> s1=<states> r2=... s2=... ## c0=<raw counts> c1=... c2=... *)
open Model
open Conv_nat
open Conv_z

let n_of_int (i : int) : n = if i = 0 then N0 else Npos (pos_of_int i)
let int_of_n (x : n) : int = match x with N0 -> 0 | Npos p -> int_of_pos p

let word_of_hex (h : string) : word =
  if h = "-" || h = "" then [] else
    List.init (String.length h / 2) (fun i -> n_of_int (int_of_string ("0x" ^ String.sub h (2 * i) 2)))

let hex_of_word (w : word) : string =
  if w = [] then "-" else String.concat "" (List.map (fun b -> Printf.sprintf "%02x" (int_of_n b)) w)

let split_nonempty c s = List.filter (fun x -> x <> "") (String.split_on_char c s)

(* the kind letter may carry a modifier (w, n, u, x: which Go object carries the description;
   the model has one kind of object per rule); the result is (description, modifier).
   X:-:kk entries (a recovered panic before the observed runs) describe no searcher. *)
let spec_of_string (t : string) : (sspec * char) option =
  match String.split_on_char ':' t with
  | [k; body; bl] when String.length k >= 1 && String.length k <= 2 ->
    let blank = match word_of_hex bl with [b] -> b | _ -> failwith "blank" in
    let m = if String.length k = 2 then k.[1] else ' ' in
    if k.[0] = 'P' then Some (SpecP (word_of_hex body, blank), m)
    else if k.[0] = 'A' then Some (SpecA (word_of_hex body, blank), m)
    else if k.[0] = 'X' then None
    else failwith ("searcher kind " ^ k)
  | _ -> failwith ("searcher " ^ t)

(* per-letter totals of the counts entries, sorted by letter *)
let totals (cs : (byte * z) list) : (int * int) list =
  let tbl = Hashtbl.create 8 in
  List.iter (fun (l, c) ->
      let l = int_of_n l and c = int_of_z c in
      Hashtbl.replace tbl l (c + (try Hashtbl.find tbl l with Not_found -> 0))) cs;
  List.sort compare (Hashtbl.fold (fun l c acc -> (l, c) :: acc) tbl [])

let proj_state (x : searcher) : string =
  match x with
  | SPattern p -> Printf.sprintf "p%d" (int_of_z p.ps_index)
  | SAnagram a ->
    Printf.sprintf "a%d/%d/%d/%s" (int_of_z a.as_blanks) (int_of_z a.as_target) (List.length a.as_path)
      (String.concat "." (List.map (fun (l, c) -> Printf.sprintf "%02x:%d" l c) (totals a.as_counts)))

(* raw counts entries; "-" for anagrams longer than 12, where Go's sort.Slice leaves the
   insertion sort and the entry layout is not modelled *)
let strict_state (m : char) (x : searcher) : string =
  match x with
  | SPattern p -> "p"
  | SAnagram a ->
    if int_of_z a.as_target > 12 || m = 'u' || m = 'x' then "-" else
      "a" ^ String.concat "." (List.map (fun (l, c) -> Printf.sprintf "%02x:%d" (int_of_n l) (int_of_z c)) a.as_counts)

let str_solns (r : (word * z) list) : string =
  String.concat "," (List.map (fun (w, i) -> hex_of_word w ^ ":" ^ string_of_int (int_of_z i)) r)

let () =
  try
    while true do
      let line = input_line stdin in
      let i = String.rindex line ';' in
      let header = String.sub line 0 i in
      let header =
        if String.length header > 0 && header.[0] = '@' then
          let j = String.index_from header 1 '@' in
          String.sub header (j + 1) (String.length header - j - 1)
        else header in
      let toks = split_nonempty ' ' (String.sub line (i + 1) (String.length line - i - 1)) in
      let sm = List.filter_map spec_of_string (split_nonempty ',' header) in
      let specs = List.map fst sm and mods = List.map snd sm in
      let words = List.map word_of_hex toks in
      (match new_dawg words with
       | Panic -> print_endline "panic"
       | NoFuel -> print_endline "nofuel"
       | Ok None -> print_endline "new-error"
       | Ok (Some s) ->
         (* the hypothesis of the theorems, decided by the extracted checker on this very
            store: well-formed, language = the words; the fuel is the theorems' fuel *)
         let depth = nat_of_int (1 + List.fold_left (fun m w -> max m (List.length w)) 0 words) in
         (match check_wf depth s root with
          | None -> print_endline "model-dawg-not-wellformed"
          | Some t when tlang t <> words -> print_endline "model-dawg-language-differs"
          | Some t ->
         let fuel = search_fuel t in
         (match new_searchers specs with
          | Panic -> print_endline "panic"
          | NoFuel -> print_endline "nofuel"
          | Ok xs0 ->
            let c0 = String.concat "|" (List.map2 strict_state mods xs0) in
            (match search_c fuel s root xs0 with
             | Panic -> print_endline "panic"
             | NoFuel -> print_endline "nofuel"
             | Ok (r1, xs1) ->
               (match search_c fuel s root xs1 with
                | Panic -> print_endline "panic"
                | NoFuel -> print_endline "nofuel"
                | Ok (r2, xs2) ->
                  let st xs = String.concat "|" (List.map proj_state xs) in
                  let sst xs = String.concat "|" (List.map2 strict_state mods xs) in
                  Printf.printf "s0=%s r1=%s s1=%s r2=%s s2=%s ## c0=%s c1=%s c2=%s\n"
                    (st xs0) (str_solns r1) (st xs1) (str_solns r2) (st xs2) c0 (sst xs1) (sst xs2))))))
    done
  with End_of_file -> ()
