(* OCaml int / decimal string <-> extracted positive and Z (binary, unbounded) *)
open Model
let rec pos_of_int (i : int) : positive =
  if i <= 1 then XH else if i land 1 = 0 then XO (pos_of_int (i lsr 1)) else XI (pos_of_int (i lsr 1))
let z_of_int (i : int) : z = if i = 0 then Z0 else if i > 0 then Zpos (pos_of_int i) else Zneg (pos_of_int (- i))
let rec int_of_pos (p : positive) : int = match p with XH -> 1 | XO q -> 2 * int_of_pos q | XI q -> 2 * int_of_pos q + 1
let int_of_z (x : z) : int = match x with Z0 -> 0 | Zpos p -> int_of_pos p | Zneg p -> - (int_of_pos p)

(* full 64-bit range and decimal strings (Go's int is 64 bit; OCaml's int is 63) *)
let rec pos_of_int64 (i : int64) : positive =
  if Int64.compare i 1L <= 0 then XH
  else if Int64.logand i 1L = 0L then XO (pos_of_int64 (Int64.shift_right_logical i 1))
  else XI (pos_of_int64 (Int64.shift_right_logical i 1))
let z_of_int64 (i : int64) : z =
  if i = 0L then Z0
  else if Int64.compare i 0L > 0 then Zpos (pos_of_int64 i)
  else if i = Int64.min_int then Zneg (XO (pos_of_int64 (Int64.shift_right_logical i 1)))
  else Zneg (pos_of_int64 (Int64.neg i))
let z_of_string (s : string) : z = z_of_int64 (Int64.of_string s)
(* decimal printing of an arbitrary Z by repeated division of the bit list *)
let rec bits_of_pos (p : positive) : bool list = match p with XH -> [true] | XO q -> false :: bits_of_pos q | XI q -> true :: bits_of_pos q
let string_of_pos (p : positive) : string =
  (* digits little endian in base 10^9 *)
  let base = 1_000_000_000 in
  let digits = ref [0] in
  let mul2add (c : int) =
    let carry = ref c in
    digits := List.map (fun d -> let v = 2 * d + !carry in carry := v / base; v mod base) !digits;
    if !carry > 0 then digits := !digits @ [!carry] in
  List.iter (fun b -> mul2add (if b then 1 else 0)) (List.rev (bits_of_pos p));
  match List.rev !digits with
  | [] -> "0"
  | hd :: tl -> String.concat "" (string_of_int hd :: List.map (Printf.sprintf "%09d") tl)
let string_of_z (x : z) : string = match x with Z0 -> "0" | Zpos p -> string_of_pos p | Zneg p -> "-" ^ string_of_pos p
