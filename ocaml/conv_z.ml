(* OCaml int / decimal string <-> extracted positive and Z (binary, unbounded) *)
open Model
let rec pos_of_int (i : int) : positive =
  if i <= 1 then XH else if i land 1 = 0 then XO (pos_of_int (i lsr 1)) else XI (pos_of_int (i lsr 1))
let z_of_int (i : int) : z = if i = 0 then Z0 else if i > 0 then Zpos (pos_of_int i) else Zneg (pos_of_int (- i))
let rec int_of_pos (p : positive) : int = match p with XH -> 1 | XO q -> 2 * int_of_pos q | XI q -> 2 * int_of_pos q + 1
let int_of_z (x : z) : int = match x with Z0 -> 0 | Zpos p -> int_of_pos p | Zneg p -> - (int_of_pos p)
