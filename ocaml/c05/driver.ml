(* Driver of the extracted model of DenseGraph / SparseGraph / the abstract graph (C05).
   Reads the case file of harness/cmd/c05 on stdin, prints one observation per line.

   Case syntax:  <n0>;tok tok tok ...      (store starts as [empty graph on n0 vertices])
     e<g>,<i>,<j>   AddEdge      x<g>,<i>,<j>  RemoveEdge     r<g>,<v>  RemoveVertex
     v<g>,<a>.<b>.. AddVertex    s<g>,<a>.<b>.. InducedSubgraph             c<g>  Copy
   All numbers are raw: the store index is taken modulo the store size, vertices modulo the
   current n of that graph (an op needing a vertex is skipped when n = 0), vertex lists are
   reduced modulo n and repeats after the first are dropped.  A created graph is appended while
   the store has fewer than 4 entries, otherwise it replaces entry (g+1) mod 4.
   Large mode (header L<n0>): same semantics; after a token only the touched graphs (receiver,
   created graph) are printed, as n/m/degrees/IsEdge rows of the sampled vertices (0, n/2, n-1,
   first three arguments modulo n)/neighbour lists (sampled vertices after e/x, all otherwise);
   at the end " F:" and every graph with all rows and lists. *)
open Model
open Conv_nat
open Conv_z

let maxstore = 4
let ints l = String.concat "," (List.map string_of_int l)

let dedupe l =
  let rec go seen = function
    | [] -> []
    | x :: t -> if List.mem x seen then go seen t else x :: go (x :: seen) t in
  go [] l

let split_on c s = List.filter (fun x -> x <> "") (String.split_on_char c s)

exception Panic

(* graph dump from observer functions: n/m/degrees/IsEdge rows as bit masks/neighbour lists *)
let dump n m degs is_edge nbrs =
  let rows = List.init n (fun v ->
      let r = ref 0 in
      for u = 0 to n - 1 do if is_edge v u then r := !r lor (1 lsl u) done; !r) in
  let nb = List.init n (fun v -> String.concat "." (List.map string_of_int (nbrs v))) in
  Printf.sprintf "%d/%d/%s/%s/%s" n m (ints degs) (ints rows) (String.concat "," nb)

(* large mode: rows and neighbour lists of chosen vertices, each prefixed by the vertex *)
let big_dump n m degs is_edge nbrs rows nbs =
  let rs = List.map (fun v ->
      Printf.sprintf "%d:%s" v (String.init n (fun u -> if is_edge v u then '1' else '0'))) rows in
  let ns = List.map (fun v ->
      Printf.sprintf "%d:%s" v (String.concat "." (List.map string_of_int (nbrs v)))) nbs in
  Printf.sprintf "%d/%d/%s/%s/%s" n m (ints degs) (String.concat "," rs) (String.concat "," ns)

let sample kind n args =
  if n = 0 then [] else
    let rec take k = function [] -> [] | x :: t -> if k = 0 then [] else (x mod n) :: take (k - 1) t in
    if kind = 'e' || kind = 'x' then take 2 args
    else [0; n / 2; n - 1] @ List.filter (fun v -> v < n) [63; 64; 65; 72; 80] @ take 3 args

let all_vertices n = List.init n (fun i -> i)

let some = function Some x -> x | None -> raise Panic

let dump_d (g : dense) =
  let n = int_of_nat (d_N g) in
  dump n (int_of_z (d_M g)) (List.map int_of_z (d_degrees g))
    (fun v u -> some (d_is_edge g (nat_of_int v) (nat_of_int u)))
    (fun v -> List.map int_of_nat (some (d_neighbours g (nat_of_int v))))

let dump_s (g : sparse) =
  let n = int_of_nat (s_N g) in
  dump n (int_of_z (s_M g)) (List.map int_of_z (s_degrees g))
    (fun v u -> some (s_is_edge g (nat_of_int v) (nat_of_int u)))
    (fun v -> List.map int_of_nat (some (s_neighbours g (nat_of_int v))))

let dump_a (g : agraph) =
  let n = int_of_nat (a_N g) in
  dump n (int_of_z (a_M g)) (List.map int_of_z (a_degrees g))
    (fun v u -> a_is_edge g (nat_of_int v) (nat_of_int u))
    (fun v -> List.map int_of_nat (a_neighbours g (nat_of_int v)))

(* tabulate the adjacency function so that closures do not pile up along a history *)
let tabulate (g : agraph) : agraph =
  let n = int_of_nat g.an in
  let t = Array.init n (fun v -> Array.init n (fun u -> g.adj (nat_of_int v) (nat_of_int u))) in
  { an = g.an; adj = (fun x y -> let x = int_of_nat x and y = int_of_nat y in x < n && y < n && t.(x).(y)) }

let big_d (g : dense) rows nbs =
  let n = int_of_nat (d_N g) in
  big_dump n (int_of_z (d_M g)) (List.map int_of_z (d_degrees g))
    (fun v u -> some (d_is_edge g (nat_of_int v) (nat_of_int u)))
    (fun v -> List.map int_of_nat (some (d_neighbours g (nat_of_int v)))) (rows n) (nbs n)

let big_s (g : sparse) rows nbs =
  let n = int_of_nat (s_N g) in
  big_dump n (int_of_z (s_M g)) (List.map int_of_z (s_degrees g))
    (fun v u -> some (s_is_edge g (nat_of_int v) (nat_of_int u)))
    (fun v -> List.map int_of_nat (some (s_neighbours g (nat_of_int v)))) (rows n) (nbs n)

type entry = { d : dense; s : sparse; a : agraph }

let parse_tok (t : string) : char * int * int list =
  let k = t.[0] in
  let rest = String.sub t 1 (String.length t - 1) in
  match String.index_opt rest ',' with
  | None -> (k, int_of_string rest, [])
  | Some i ->
    let g = int_of_string (String.sub rest 0 i) in
    let args = String.sub rest (i + 1) (String.length rest - i - 1) in
    let sep = if k = 'v' || k = 's' then '.' else ',' in
    (k, g, List.map int_of_string (split_on sep args))

let () =
  try
    while true do
      let line = input_line stdin in
      let i = String.index line ';' in
      if line.[0] = 'H' then print_endline "huge" else
      let large = line.[0] = 'L' in
      let quiet = line.[0] = 'q' in
      let prov = line.[0] = 'p' in
      let hd = String.sub line 0 i in
      let pf = if prov then String.split_on_char ',' hd else [] in
      let n0 = if large || quiet then int_of_string (String.sub line 1 (i - 1))
        else if prov then int_of_string (List.nth pf 1) else int_of_string hd in
      (* provenance mode: p<dk><sk>,<n0>,<salt>,<a>.<b>,... : start from the graph with these edges *)
      let pedges = if prov && n0 > 0 then
          List.filter_map (fun e -> match String.split_on_char '.' e with
              | [a; b] -> let a = int_of_string a mod n0 and b = int_of_string b mod n0 in
                if a = b then None else Some (a, b)
              | _ -> None) (List.filteri (fun k _ -> k >= 3) pf)
        else [] in
      let toks = split_on ' ' (String.sub line (i + 1) (String.length line - i - 1)) in
      let buf = Buffer.create 1024 in
      (try
         let n0n = nat_of_int n0 in
         let start = List.fold_left (fun e (a, b) ->
             let o = OAddE (nat_of_int a, nat_of_int b) in
             let (d', _) = some (d_step e.d o) in
             let (s', _) = some (s_step e.s o) in
             let (a', _) = a_step e.a o in
             { d = d'; s = s'; a = tabulate a' })
             { d = d_empty n0n; s = s_empty n0n; a = a_empty n0n } pedges in
         let store = ref [ start ] in
         let bad = ref false in
         if prov then begin
           let ds = dump_d start.d and ss = dump_s start.s and aa = dump_a start.a in
           Buffer.add_string buf ("I:D:" ^ ds ^ "|S:" ^ ss);
           if aa <> ds || aa <> ss then Buffer.add_string buf ("|MODELS-DIFFER-FROM-ABSTRACT:" ^ aa)
         end;
         List.iteri (fun k t ->
             let (kind, graw, args) = parse_tok t in
             let size = List.length !store in
             let gi = graw mod size in
             let e = List.nth !store gi in
             let n = int_of_nat (d_N e.d) in
             let vl l = if n = 0 then [] else List.map nat_of_int (dedupe (List.map (fun r -> r mod n) l)) in
             let o : op option =
               match kind, args with
               | 'e', [x; y] -> if n = 0 then None else Some (OAddE (nat_of_int (x mod n), nat_of_int (y mod n)))
               | 'x', [x; y] -> if n = 0 then None else Some (ORemE (nat_of_int (x mod n), nat_of_int (y mod n)))
               | 'r', [x] -> if n = 0 then None else Some (ORemV (nat_of_int (x mod n)))
               | 'v', l -> Some (OAddV (vl l))
               | 's', l -> Some (OInduced (vl l))
               | 'c', _ -> Some OCopy
               | 'o', _ -> None
               | _ -> failwith ("bad token " ^ t) in
             let touched = ref [gi] in
             (match o with
              | None -> ()
              | Some o ->
                if not (op_validb (d_N e.d) o) then bad := true;
                let (d', dnew) = some (d_step e.d o) in
                let (s', snew) = some (s_step e.s o) in
                (* the abstract model is run beside the two others in small mode only *)
                let (a', anew) = if large then (e.a, (match dnew with None -> None | Some _ -> Some e.a))
                  else a_step e.a o in
                let tabulate a = if large then a else tabulate a in
                let e' = { d = d'; s = s'; a = tabulate a' } in
                store := List.mapi (fun j x -> if j = gi then e' else x) !store;
                (match dnew, snew, anew with
                 | None, None, None -> ()
                 | Some dn, Some sn, Some an ->
                   let ne = { d = dn; s = sn; a = tabulate an } in
                   if size < maxstore then (store := !store @ [ne]; touched := [gi; size])
                   else let p = (gi + 1) mod maxstore in
                     (store := List.mapi (fun j x -> if j = p then ne else x) !store;
                      touched := [gi; p])
                 | _ -> failwith "models disagree on whether a graph is returned"));
             if (not quiet) || kind = 'o' then begin
             if Buffer.length buf > 0 then Buffer.add_char buf ' ';
             let rows n = sample kind n args in
             let nbs n = if kind = 'e' || kind = 'x' then sample kind n args else all_vertices n in
             let pre j x = if large then Printf.sprintf "%d=%s" j x else x in
             let sel = if large then !touched else List.init (List.length !store) (fun j -> j) in
             let ds = List.map (fun j -> let e = List.nth !store j in
                                 pre j (if large then big_d e.d rows nbs else dump_d e.d)) sel in
             let ss = List.map (fun j -> let e = List.nth !store j in
                                 pre j (if large then big_s e.s rows nbs else dump_s e.s)) sel in
             let aa = if large then ds else
                 List.map (fun j -> let e = List.nth !store j in pre j (dump_a e.a)) sel in
             Buffer.add_string buf ("D:" ^ String.concat ";" ds ^ "|S:" ^ String.concat ";" ss);
             if aa <> ds || aa <> ss then Buffer.add_string buf "|MODELS-DIFFER-FROM-ABSTRACT:" ;
             if aa <> ds || aa <> ss then Buffer.add_string buf (String.concat ";" aa) end) toks;
         if quiet then begin
           if Buffer.length buf > 0 then Buffer.add_char buf ' ';
           let ds = List.map (fun e -> dump_d e.d) !store in
           let ss = List.map (fun e -> dump_s e.s) !store in
           let aa = List.map (fun e -> dump_a e.a) !store in
           Buffer.add_string buf ("E:D:" ^ String.concat ";" ds ^ "|S:" ^ String.concat ";" ss);
           if aa <> ds || aa <> ss then
             Buffer.add_string buf ("|MODELS-DIFFER-FROM-ABSTRACT:" ^ String.concat ";" aa)
         end;
         if large then begin
           let ds = List.map (fun e -> big_d e.d all_vertices all_vertices) !store in
           let ss = List.map (fun e -> big_s e.s all_vertices all_vertices) !store in
           Buffer.add_string buf (" F:" ^ String.concat ";" ds ^ "|" ^ String.concat ";" ss)
         end;
         if !bad then Buffer.add_string buf " INVALID-OP";
         let strict = String.concat ";" (List.map (fun e ->
             Printf.sprintf "%d:%s" (int_of_nat e.d.dlen) (ints (List.map int_of_z e.d.darr))) !store) in
         print_endline (if prov then Buffer.contents buf else Buffer.contents buf ^ " ## " ^ strict)
       with Panic -> print_endline "panic")
    done
  with End_of_file -> ()
