(* Driver of the extracted models and proved reference oracles of C09: reads the case file of
   harness/cmd/c09 on stdin and prints one observation per line in the format of that command.
   Case: <graph6>,<level>;<tok> ...  (o:<order>, p:<colouring>; the variant tokens are ignored:
   every value printed is a function of the abstract base graph). *)
open Model
open Conv_nat
open Conv_z

let ints l = String.concat "." (List.map string_of_int l)

let parse_g6 (s : string) : int * bool array array =
  let n = Char.code s.[0] - 63 in
  let a = Array.make_matrix n n false in
  let bit k = let b = Char.code s.[1 + k / 6] - 63 in (b lsr (5 - k mod 6)) land 1 = 1 in
  let k = ref 0 in
  for j = 1 to n - 1 do
    for i = 0 to j - 1 do
      if bit !k then begin a.(i).(j) <- true; a.(j).(i) <- true end;
      incr k
    done
  done;
  (n, a)

let parse_ints (s : string) : int list =
  if s = "" then [] else List.map int_of_string (String.split_on_char '.' s)

let () =
  try
    while true do
      let line = input_line stdin in
      let semi = String.rindex line ';' in
      let head = String.sub line 0 semi in
      let tail = String.sub line (semi + 1) (String.length line - semi - 1) in
      let comma = String.rindex head ',' in
      let g6 = String.sub head 0 comma in
      let level = int_of_string (String.sub head (comma + 1) (String.length head - comma - 1)) in
      let (n, a) = parse_g6 g6 in
      let adj u v = let u = int_of_nat u and v = int_of_nat v in u < n && v < n && a.(u).(v) in
      let g = { gn = nat_of_int n; gadj = adj } in
      let m = List.length (edges g) in
      if level = 2 then begin
        (* single planted graphs: only the proved model of dfsDsatur (no exponential oracle) *)
        let zs l = ints (List.map int_of_z l) in
        let show_col = function Some c -> zs c | None -> "nil" in
        let chi, ds = match chromatic_number_dsatur g with
          | Ok (chi, c) -> string_of_int (int_of_z chi), Printf.sprintf "%d:%s" (int_of_z chi) (show_col c)
          | Panic -> "panic", "panic" | Fuel -> "fuel", "fuel" in
        let k_res = List.init (n + 2) (fun k -> is_k_colorable g (z_of_int k)) in
        let kc = String.concat "" (List.map (fun r -> match r with
            | Ok (true, _) -> "1" | Ok (false, _) -> "0" | Panic -> "P" | Fuel -> "F") k_res) in
        let dk = String.concat "/" (List.map (fun r -> match r with
            | Ok (true, c) -> "1:" ^ show_col c
            | Ok (false, c) -> "0:" ^ show_col c
            | Panic -> "panic" | Fuel -> "fuel") k_res) in
        Printf.printf "n=%d m=%d chi=%s kc=%s ## ds=%s dk=%s\n" n m chi kc ds dk
      end else
      let toks = List.filter (fun s -> s <> "") (String.split_on_char ' ' tail) in
      let gr = ref [] and pr = Buffer.create 16 in
      List.iter (fun t ->
          let body = String.sub t 2 (String.length t - 2) in
          match t.[0] with
          | 'o' ->
            (match greedy_color g (List.map nat_of_int (parse_ints body)) with
             | Some (_, c) -> gr := ints (List.map int_of_z c) :: !gr
             | None -> gr := "panic" :: !gr)
          | 'p' ->
            (match is_proper_colouring g (List.map z_of_int (parse_ints body)) with
             | Some true -> Buffer.add_char pr 't'
             | Some false -> Buffer.add_char pr 'f'
             | None -> Buffer.add_char pr 'P')
          | _ -> ()) toks;
      let mc = List.sort compare (List.map (List.map int_of_nat) (maximal_cliques_ref g)) in
      let kc = String.concat "" (List.init (n + 2) (fun k -> if k_colourable_ref g (nat_of_int k) then "1" else "0")) in
      let dg, strict = match degeneracy g with
        | Some (d, order) -> string_of_int (int_of_nat d), "order=" ^ ints (List.map int_of_nat order)
        | None -> "panic", "" in
      let bk = match all_maximal_cliques g with
        | Some l -> String.concat "/" (List.map (fun c -> ints (List.map int_of_nat c)) l)
        | None -> "panic" in
      let strict = strict ^ " bk=" ^ bk in
      (* the models of CliqueNumber / IndependenceNumber must agree with the proved oracles *)
      let w_ref = int_of_nat (clique_number_ref g) and a_ref = int_of_nat (independence_number_ref g) in
      let strict = match clique_number_bk g, independence_number_bk g with
        | Some w, Some a when int_of_nat w = w_ref && int_of_nat a = a_ref -> strict
        | _ -> strict ^ " MODEL-DISAGREES-WITH-ORACLE" in
      let lg = if m <= 22 then
          let ((_, _), rows) = line_graph_rows g in
          String.concat "" (List.map (fun r -> String.concat "" (List.map (fun x -> if x then "1" else "0") r)) rows)
        else "-" in
      let strict = strict ^ " lg=" ^ lg in
      (* the model of the DSATUR branch and bound (Invariants/DsaturModel.v): chi with the exact
         colouring, IsKColorable for k = 0..n+1 with the exact witnesses, the chromatic index with
         the exact edge array *)
      let zs l = ints (List.map int_of_z l) in
      let show_col = function Some c -> zs c | None -> "nil" in
      let cn_res = chromatic_number_dsatur g in
      let k_res = List.init (n + 2) (fun k -> is_k_colorable g (z_of_int k)) in
      let ds = match cn_res with
        | Ok (chi, c) -> Printf.sprintf "%d:%s" (int_of_z chi) (show_col c)
        | Panic -> "panic" | Fuel -> "fuel" in
      let dk = String.concat "/" (List.map (fun r ->
          match r with
          | Ok (true, c) -> "1:" ^ show_col c
          | Ok (false, c) -> "0:" ^ show_col c
          | Panic -> "panic" | Fuel -> "fuel") k_res) in
      let dci = if m <= 22 then
          (match chromatic_index_dsatur g with
           | Ok (ci, c) -> Printf.sprintf "%d:%s" (int_of_z ci) (show_col c)
           | Panic -> "panic" | Fuel -> "fuel")
        else "-" in
      let strict = Printf.sprintf "%s ds=%s dk=%s dci=%s" strict ds dk dci in
      (* the DSATUR model must agree with the proved oracles (it is proved to: DsaturProofs) *)
      let strict =
        let chi_ref = int_of_nat (chromatic_number_ref g) in
        let ok_chi = (match cn_res with Ok (chi, _) -> int_of_z chi = chi_ref | _ -> false) in
        let ok_k = List.for_all2 (fun k r -> match r with
            | Ok (b, _) -> b = k_colourable_ref g (nat_of_int k) | _ -> false) (List.init (n + 2) (fun k -> k)) k_res in
        if ok_chi && ok_k then strict else strict ^ " DSATUR-MODEL-DISAGREES-WITH-ORACLE" in
      (* corpus of the known finding C09:chromatic-index-byte-wrap: token B:<leaves>.<extra> names the
         tree "star with <leaves> leaves at centre 0 plus a path of <extra> vertices off leaf 1";
         the model of ChromaticIndex (with its byte conversion) is run on it, edge colours in
         dense-array order *)
      let strict = List.fold_left (fun strict t ->
          if t.[0] <> 'B' then strict else
            match parse_ints (String.sub t 2 (String.length t - 2)) with
            | [leaves; extra; 1] when extra = 0 ->
              let bn = leaves + 1 + extra in
              let ba = Array.make_matrix bn bn false in
              let add i j = ba.(i).(j) <- true; ba.(j).(i) <- true in
              for i = 1 to leaves do add 0 i done;
              let prev = ref 1 in
              for i = 0 to extra - 1 do add !prev (leaves + 1 + i); prev := leaves + 1 + i done;
              let badj u v = let u = int_of_nat u and v = int_of_nat v in u < bn && v < bn && ba.(u).(v) in
              let bg = { gn = nat_of_int bn; gadj = badj } in
              let r = match chromatic_index_dsatur bg with
                | Ok (ci, Some ce) ->
                  let ce = Array.of_list (List.map int_of_z ce) in
                  let cols = ref [] in
                  let idx = ref 0 in
                  for j = 1 to bn - 1 do
                    for i = 0 to j - 1 do
                      if ba.(i).(j) then cols := string_of_int ce.(!idx) :: !cols;
                      incr idx
                    done
                  done;
                  Printf.sprintf "%d:%s" (int_of_z ci) (String.concat "." (List.rev !cols))
                | Ok (ci, None) -> Printf.sprintf "%d:nil" (int_of_z ci)
                | Panic -> "panic" | Fuel -> "fuel" in
              strict ^ " big=" ^ r
            | _ -> strict) strict toks in
      let b = Buffer.create 256 in
      Printf.bprintf b "n=%d m=%d w=%d a=%d mc=%d:%s chi=%d kc=%s dg=%s gr=%s pr=%s" n m
        w_ref a_ref
        (List.length mc) (String.concat "/" (List.map ints mc))
        (int_of_nat (chromatic_number_ref g)) kc dg (String.concat "|" (List.rev !gr)) (Buffer.contents pr);
      if level >= 1 then
        Printf.bprintf b " ci=%d pk=%s cp=%s" (int_of_nat (chromatic_index_ref g))
          (String.concat "," (List.init (n + 2) (fun k -> string_of_int (int_of_nat (count_colourings_ref g (nat_of_int k))))))
          (match chromatic_polynomial g with
           | Some p -> String.concat "," (List.map (fun x -> string_of_int (int_of_z x)) p)
           | None -> "panic");
      Printf.printf "%s ## %s\n" (Buffer.contents b) strict
    done
  with End_of_file -> ()
