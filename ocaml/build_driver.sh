#!/bin/sh
# usage: build_driver.sh <id-lowercase> <ExtractFile> [conv modules...]
# extracts the model in ocaml/<id>/ and builds ocaml/<id>/driver
set -e
cd "$(dirname "$0")/$1"
ex=$2; shift 2
timeout 600 coqc -Q /verif/coq Mamba /verif/coq/Extract/$ex.v > extract.log 2>&1 || { cat extract.log; exit 1; }
convs=""
for c in "$@"; do cp ../$c.ml .; convs="$convs $c.ml"; done
timeout 600 ocamlfind ocamlopt -O3 -w -a -package str -linkpkg model.mli model.ml $convs driver.ml -o driver 2> ocaml.log || { cat ocaml.log; exit 1; }
