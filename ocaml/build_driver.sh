#!/bin/sh
# usage: build_driver.sh <id-lowercase> <ExtractFile> [conv modules...]
# extracts the model and builds the driver.  Defaults: Coq tree /verif/coq, output in
# ocaml/<id>/; COQDIR and DRIVER_OUT override them (used for scratch copies of the repository).
set -e
here="$(cd "$(dirname "$0")" && pwd)"
src="$here/$1"
out="${DRIVER_OUT:-$src}"
coqdir="${COQDIR:-/verif/coq}"
ex=$2; shift 2
mkdir -p "$out"; cd "$out"
timeout 900 coqc -Q "$coqdir" Mamba "$coqdir/Extract/$ex.v" > extract.log 2>&1 || { cat extract.log; exit 1; }
if [ "$out" != "$src" ]; then for f in "$src"/*.ml; do case "$(basename "$f")" in model.ml|conv_*.ml) ;; *) cp "$f" "$out"/;; esac; done; fi
convs=""
for c in "$@"; do cp "$here/$c.ml" .; convs="$convs $c.ml"; done
extra=""
[ -f "$src/EXTRA_ML" ] && extra=$(cat "$src/EXTRA_ML")
timeout 900 ocamlfind ocamlopt -O3 -w -a -package str -linkpkg model.mli model.ml $convs $extra driver.ml -o driver 2> ocaml.log || { cat ocaml.log; exit 1; }
