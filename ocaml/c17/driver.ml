(* Driver of the extracted models of sortints and ints.Sort (C17): reads the case file of
   harness/cmd/c17 on stdin and prints one observation per line in the format of that command.
   Values are 64-bit: they are parsed into the extracted binary Z through Int64 (OCaml's native
   int has 63 bits only). *)
open Model

let rec pos_of_u64 (i : int64) : positive =
  if Int64.equal i 1L then XH
  else
    let r = pos_of_u64 (Int64.shift_right_logical i 1) in
    if Int64.equal (Int64.logand i 1L) 0L then XO r else XI r

let z_of_int64 (i : int64) : z =
  if Int64.equal i 0L then Z0
  else if Int64.compare i 0L > 0 then Zpos (pos_of_u64 i)
  else Zneg (pos_of_u64 (Int64.neg i))

let rec int64_of_pos (p : positive) : int64 =
  match p with
  | XH -> 1L
  | XO q -> Int64.mul 2L (int64_of_pos q)
  | XI q -> Int64.add (Int64.mul 2L (int64_of_pos q)) 1L

let int64_of_z (x : z) : int64 =
  match x with Z0 -> 0L | Zpos p -> int64_of_pos p | Zneg p -> Int64.neg (int64_of_pos p)

let rec nat_of_int (i : int) : nat = if i <= 0 then O else S (nat_of_int (i - 1))
let int_of_nat (n : nat) : int = let rec go acc = function O -> acc | S m -> go (acc + 1) m in go 0 n

let z_of_string s = z_of_int64 (Int64.of_string s)
let string_of_z x = Int64.to_string (int64_of_z x)
let zs (l : z list) = String.concat "," (List.map string_of_z l)
let parse_list s = if s = "" then [] else List.map z_of_string (String.split_on_char ',' s)

let show_list = function Ret l -> zs l | Panic -> "panic" | OutOfFuel -> "fuel"
let show_bool b = if b then "t" else "f"

(* seq <elements>+<poison>;op op op *)
let run_seq (hdr : string) (ops : string list) : string =
  let hl = if String.length hdr >= 4 && String.sub hdr 0 4 = "seqn" then 5 else 4 in
  let hdr = if String.length hdr < hl then hdr ^ " " else hdr in
  let recv = String.sub hdr hl (String.length hdr - hl) in
  let el, poison =
    match String.index_opt recv '+' with
    | Some i -> String.sub recv 0 i, String.sub recv (i + 1) (String.length recv - i - 1)
    | None -> recv, "" in
  let el = parse_list el and poison = parse_list poison in
  let st = ref ((el @ poison, nat_of_int (List.length el)) : sl) in
  let out = Buffer.create 256 and strict = Buffer.create 256 in
  let first = ref true and stop = ref false in
  let emit s = (if not !first then Buffer.add_char out '|'); first := false; Buffer.add_string out s in
  let last = ref None and nostrict = ref false in
  let mut (r : sl res) =
    match r with
    | Ret s' -> st := s'; emit (zs (view s'));
      if not !nostrict then begin Buffer.add_string strict (zs (fst s')); Buffer.add_char strict '|' end
    | Panic -> emit "panic"; stop := true
    | OutOfFuel -> emit "fuel"; stop := true in
  let fn (r : z list res) =
    emit (show_list r); (match r with Ret l -> last := Some l | _ -> stop := true) in
  List.iter (fun t ->
      if not !stop then begin
        let k = t.[0] in
        let arg = String.sub t 2 (String.length t - 2) in
        let a = view !st in
        let parse_list s = if s = "@" then a else parse_list s in
        match k with
        | 'p' -> emit (match range (z_of_string "5") Z0 (z_of_string "1") with Panic -> "P" | _ -> "noP")
        | 'R' -> (match !last with
                  | Some l -> st := fresh l; last := None; nostrict := true; emit (zs l)
                  | None -> emit "-")
        | 'a' -> mut (add_m !st (parse_list arg))
        | 'r' -> mut (Ret (remove_m !st (z_of_string arg)))
        | 'u' -> mut (union_m !st (parse_list arg))
        | 'U' -> fn (union a (parse_list arg))
        | 'V' -> fn (union (parse_list arg) a)
        | 'I' -> fn (intersection a (parse_list arg))
        | 'J' -> fn (intersection (parse_list arg) a)
        | 'Z' -> emit (string_of_int (int_of_nat (isize a (parse_list arg))))
        | 'M' -> fn (set_minus a (parse_list arg))
        | 'W' -> fn (set_minus (parse_list arg) a)
        | 'X' -> fn (xor a (parse_list arg))
        | 'Y' -> fn (xor (parse_list arg) a)
        | 'C' -> fn (complement (z_of_string arg) a)
        | 's' -> emit (show_bool (contains_single a (z_of_string arg)))
        | 'S' -> emit (show_bool (contains_sorted a (parse_list arg)))
        | 'T' -> emit (show_bool (contains_sorted (parse_list arg) a))
        | 'N' -> fn (new_sorted_ints (parse_list arg))
        | _ -> failwith ("bad op " ^ t)
      end) ops;
  Buffer.contents out ^ " ## " ^ Buffer.contents strict

let words s = List.filter (fun x -> x <> "") (String.split_on_char ' ' s)

(* sortall <n> <prefix digits>: every array of length n over {0,1,2} that starts with the
   prefix, in counting order of the remaining positions; the sorted arrays are concatenated *)
let run_sortall (n : int) (prefix : string) : string =
  let p = String.length prefix in
  let a = Array.make n 0 in
  String.iteri (fun i c -> a.(i) <- Char.code c - 48) prefix;
  let out = Buffer.create 4096 in
  let digit = [| Z0; Zpos XH; Zpos (XO XH) |] in
  let rec go () =
    (match sort (List.map (fun v -> digit.(v)) (Array.to_list a)) with
     | Ret l -> List.iter (fun v -> Buffer.add_string out (string_of_z v)) l
     | Panic -> Buffer.add_string out "panic"
     | OutOfFuel -> Buffer.add_string out "fuel");
    Buffer.add_char out '.';
    (* next array *)
    let i = ref (n - 1) in
    while !i >= p && a.(!i) = 2 do a.(!i) <- 0; decr i done;
    if !i >= p then begin a.(!i) <- a.(!i) + 1; go () end in
  go ();
  Buffer.contents out

let run_line (line : string) : string =
  let i = String.index line ';' in
  let hdr = String.sub line 0 i in
  let toks = words (String.sub line (i + 1) (String.length line - i - 1)) in
  match words hdr with
  | "seq" :: _ | "seqn" :: _ -> run_seq hdr toks
  | ["range"; s; e; st] -> show_list (range (z_of_string s) (z_of_string e) (z_of_string st))
  | ["sort"] | ["sortsub"; _; _] -> show_list (sort (List.map z_of_string toks))
  | ["heapsort"; a; b] -> show_list (heap_sort (List.map z_of_string toks) (z_of_string a) (z_of_string b))
  | ["sortall"; n] -> run_sortall (int_of_string n) ""
  | ["sortall"; n; prefix] -> run_sortall (int_of_string n) prefix
  | _ -> "bad"

let () =
  try
    while true do
      let line = input_line stdin in
      print_endline (try run_line line with Failure _ | Not_found | Invalid_argument _ -> "bad")
    done
  with End_of_file -> ()
