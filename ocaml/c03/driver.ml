(* Driver of the extracted model of GraphIterator.Next (coq/Search/Model.v, ShardModel.outputs)
   for the co-simulation stream of C03: reads the case file of harness/cmd/c03sim on stdin and
   prints one observation per line in the format of that command.

   case = `cosim <n>;<key>=<value>;...`.  The entries are the answers of the canonical labelling
   (keys C..) and of the k-subset orbit representatives (keys K..) that the model takes as
   parameters; a query that is not in the table makes the run print `model-missing:<key>`.
   With CheckViability = false the key does not contain ViableBits (the model passes the stale
   value; the real function does not read it: hypothesis canon_ignores_stale_bits). *)
open Model
open Conv_nat
open Conv_z

exception Missing of string

let n_of_int (i : int) : n = if i = 0 then N0 else Npos (pos_of_int i)
let int_of_n (x : n) : int = match x with N0 -> 0 | Npos p -> int_of_pos p

let split_list (c : char) (s : string) : string list = if s = "" then [] else String.split_on_char c s
let ints (s : string) : int list = List.map int_of_string (split_list ',' s)
let join_ints (l : int list) : string = String.concat "," (List.map string_of_int l)
let nats (l : nat list) : string = join_ints (List.map int_of_nat l)
let gens_string (g : nat list list) : string = String.concat "/" (List.map nats g)

let moduli = [1; 2; 3; 4; 7]
let pred_places = [ ("none", "-"); ("edges3", "pre"); ("edges3", "post"); ("maxdeg2", "pre");
                    ("maxdeg2", "post"); ("triangle", "pre"); ("triangle", "post"); ("triangle", "both") ]

(* the least packed upper triangle over all orderings of the vertices (same definition as
   classID in harness/cmd/c03sim), from the Edges list of the model's graph *)
let rec perms_of (l : int list) : int list list =
  match l with
  | [] -> [[]]
  | _ -> List.concat_map (fun x -> List.map (fun p -> x :: p) (perms_of (List.filter (fun y -> y <> x) l))) l
let perm_cache : (int, int array list) Hashtbl.t = Hashtbl.create 8
let perms (n : int) : int array list =
  match Hashtbl.find_opt perm_cache n with
  | Some p -> p
  | None -> let p = List.map Array.of_list (perms_of (List.init n (fun i -> i))) in Hashtbl.add perm_cache n p; p
let class_memo : (string, int) Hashtbl.t = Hashtbl.create 4096
let class_id (n : int) (e : int array) : int =
  if Array.length e <> n * (n - 1) / 2 then -1 else
  let key = string_of_int n ^ ":" ^ String.concat "" (Array.to_list (Array.map string_of_int e)) in
  match Hashtbl.find_opt class_memo key with
  | Some c -> c
  | None ->
    let adj u v = if u = v then 0 else
        let u, v = if u > v then v, u else u, v in
        if e.(v * (v - 1) / 2 + u) > 0 then 1 else 0 in
    let best = ref max_int in
    List.iter (fun p ->
        let x = ref 0 in
        for j = 1 to n - 1 do for i = 0 to j - 1 do x := (!x lsl 1) lor adj p.(i) p.(j) done done;
        if !x < !best then best := !x) (perms n);
    let c = if n = 0 then 0 else !best in
    Hashtbl.add class_memo key c; c

let pred_of (name : string) : vgraph -> bool =
  match name with
  | "edges3" -> p_edges3
  | "maxdeg2" -> p_maxdeg2
  | "triangle" -> p_triangle
  | _ -> p_none

let snap (g : vgraph) : string =
  let (((nv, ne), d), e) = g in
  Printf.sprintf "%d.%d.%s:%s" (int_of_nat nv) (int_of_z ne)
    (join_ints (List.map int_of_z d))
    (String.concat "" (List.map (fun b -> string_of_int (int_of_n b)) e))

let () =
  let calls = nat_of_int 400 and fuel = nat_of_int 20000 in
  try
    while true do
      let line = input_line stdin in
      (* the real code panicked while the harness computed the table: nothing to model, the
         harness reports the violation itself *)
      if String.length line >= 10 && String.sub line 0 10 = "tablepanic" then print_endline line
      else if String.length line >= 7 && String.sub line 0 7 = "family " then
        (* strongly pruned search of a family with a closed-form class count: oracle-only *)
        print_endline (line ^ " | ok")
      else if String.length line >= 10 && String.sub line 0 10 = "interleave" then
        (* two live iterators: an oracle-only scenario of the harness, nothing to model *)
        (match String.split_on_char ' ' line with
         | [_; n; v] -> print_endline (Printf.sprintf "interleave n=%s %s | ok" n v)
         | _ -> failwith "bad interleave case")
      else begin
      let parts = String.split_on_char ';' line in
      let head, entries = match parts with h :: t -> h, t | [] -> "", [] in
      let kind, nn, npairs = match String.split_on_char ' ' head with
        | [k; s] -> k, int_of_string s, 0
        | [k; s; c] -> k, int_of_string s, int_of_string c
        | _ -> failwith "bad case" in
      let tbl : (string, string) Hashtbl.t = Hashtbl.create 65536 in
      List.iter (fun e ->
          match String.index_opt e '=' with
          | Some i -> Hashtbl.replace tbl (String.sub e 0 i) (String.sub e (i + 1) (String.length e - i - 1))
          | None -> ()) entries;
      let find key = match Hashtbl.find_opt tbl key with Some v -> v | None -> raise (Missing key) in
      let canon (k : nat) (m : z) (nb : nat list list) (cv : bool) (vb : n) : cache =
        let key = Printf.sprintf "C%d:%d:%s:%s:%d" (int_of_nat k) (int_of_z m)
            (String.concat "." (List.map nats nb)) (if cv then "1" else "0")
            (if cv then int_of_n vb else 0) in
        match String.split_on_char '~' (find key) with
        | [p; o; g] ->
          { cPerm = (if p = "nil" then None else Some (List.map nat_of_int (ints p)));
            cOrb = List.map z_of_int (ints o);
            cGens = List.map (fun s -> List.map nat_of_int (ints s)) (split_list '/' g) }
        | _ -> failwith "bad table value" in
      let ksub (k : nat) (kk : nat) (gens : nat list list) : n list =
        let key = Printf.sprintf "K%d:%d:%s" (int_of_nat k) (int_of_nat kk) (gens_string gens) in
        List.map n_of_int (ints (find key)) in
      (* correspondence of the model of the k-subset orbit loop with its parameters instantiated
         by the models of CombinationsColex / Rank / Sort (Search/OrderlyInstKsubModel.v: ksub_real,
         proved a transversal in Search/OrderlyInstKsub.v): on every generator list of the table
         the extracted loop must return exactly the masks the real loop returned, in order.  Which
         representative is kept is not fixed by the property, so this goes to the strict part. *)
      let ksub_loop_verdict () : string =
        let bad = ref "" and cnt = ref 0 in
        Hashtbl.iter (fun key v ->
            if !bad = "" && String.length key > 0 && key.[0] = 'K' then begin
              match String.split_on_char ':' (String.sub key 1 (String.length key - 1)) with
              | [k; kk; g] ->
                let gens = List.map (fun s -> List.map nat_of_int (ints s)) (split_list '/' g) in
                incr cnt;
                (match ksub_real (nat_of_int (int_of_string k)) (nat_of_int (int_of_string kk)) gens with
                 | Some r -> if join_ints (List.map int_of_n r) <> v then bad := "MISMATCH:" ^ key
                 | None -> bad := "model-panic:" ^ key)
              | _ -> ()
            end) tbl;
        if !bad = "" then Printf.sprintf "ksubloop:ok(%d)" !cnt else "ksubloop:" ^ !bad in
      (* correspondence of the composed labelling model canon_real (Search/ComposeModel.v: the
         proved search-labelling model behind the adapter of getAutomorphismGroup, with the
         CheckViability early exit canon_search_v) with the REAL answers of
         graph.CanonicalIsomorphAllocated, on every C entry of the table (sampled above
         canon_full_k vertices).  Projected (what canon_spec determines): the orbit partition of
         the real forest = the model's; a real nil answer only where the clause ok_early allows
         it, judged with the model's (proved) orbits: the first vertex of the real canonical
         order that is the last vertex or viable is not in the orbit of the last vertex; a real
         non-nil CheckViability answer has the partition of the plain answer.  Strict: the exact
         permutation, raw orbit array and generators (also nil where the model exits). *)
      let canon_model_verdict (canon_full_k : int) (canon_sample : int) : string * string =
        let cache_string (c : cache) : string =
          (match c.cPerm with None -> "nil" | Some p -> nats p) ^ "~" ^
          join_ints (List.map int_of_z c.cOrb) ^ "~" ^ gens_string c.cGens in
        (* least member of the class of every vertex; [] if the array is not a forest *)
        let labels (o : int array) : int list =
          let n = Array.length o in
          let root x = let r = ref x and steps = ref 0 in
            while !r >= 0 && !r < n && o.(!r) >= 0 && !steps <= n do r := o.(!r); incr steps done;
            if !r < 0 || !r >= n || !steps > n then -1 else !r in
          let rs = Array.init n root in
          if Array.exists (fun r -> r < 0) rs then [] else
            Array.to_list (Array.map (fun r -> let m = ref (-1) in
                                       Array.iteri (fun j rj -> if !m < 0 && rj = r then m := j) rs; !m) rs) in
        let orb_of (v : string) : int array = match String.split_on_char '~' v with
          | [_; o; _] -> Array.of_list (ints o) | _ -> [||] in
        let perm_of (v : string) : string = match String.split_on_char '~' v with p :: _ -> p | [] -> "" in
        let plain : (string, int list * int list) Hashtbl.t = Hashtbl.create 4096 in
        let bad = ref "" and sbad = ref "" and cnt = ref 0 in
        let keys = Hashtbl.fold (fun k _ acc -> if String.length k > 0 && k.[0] = 'C' then k :: acc else acc) tbl [] in
        List.iter (fun key ->
            match String.split_on_char ':' (String.sub key 1 (String.length key - 1)) with
            | [k; m; nb; cv; vb] ->
              let k = int_of_string k and vbi = int_of_string vb in
              let take = k <= canon_full_k || ((vbi * 7 + int_of_string m + String.length nb) mod canon_sample = 0) in
              if take then begin
                incr cnt;
                let nbl = if k = 0 then [] else
                    List.map (fun s -> List.map nat_of_int (ints s)) (String.split_on_char '.' nb) in
                let model cvb vbn = canon_real (nat_of_int k) (z_of_int (int_of_string m)) nbl cvb vbn in
                let real = Hashtbl.find tbl key in
                let c = model (cv = "1") (n_of_int vbi) in
                if !sbad = "" && cache_string c <> real then sbad := "MISMATCH:" ^ key;
                if !bad = "" then begin
                  let gkey = Printf.sprintf "C%d:%s:%s:0:0" k m nb in
                  let (mlab, preal) =
                    match Hashtbl.find_opt plain gkey with
                    | Some x -> x
                    | None ->
                      let c0 = if cv = "0" then c else model false N0 in
                      let x = (labels (Array.of_list (List.map int_of_z c0.cOrb)),
                               (match Hashtbl.find_opt tbl gkey with Some v -> (try ints (perm_of v) with _ -> []) | None -> [])) in
                      Hashtbl.add plain gkey x; x in
                  if mlab = [] && k > 0 then bad := "FAIL:model-forest:" ^ key
                  else if perm_of real = "nil" then begin
                    if cv = "0" then bad := "FAIL:nil-plain:" ^ key
                    else begin
                      let hit = List.find_opt (fun u -> u = k - 1 || (vbi lsr u) land 1 = 1) preal in
                      match hit with
                      | Some u -> if List.nth mlab u = List.nth mlab (k - 1) then bad := "FAIL:early-exit-on-true-verdict:" ^ key
                      | None -> ()
                    end
                  end else if labels (orb_of real) <> mlab then bad := "FAIL:orbits:" ^ key
                end
              end
            | _ -> ()) keys;
        ((if !bad = "" then "canonmodel:ok" else "canonmodel:" ^ !bad),
         (if !sbad = "" then "canonexact:ok" else "canonexact:" ^ !sbad)) in
      (* which clause of the per-graph check fails on g ("" = none) *)
      let clause_of (g : vgraph) : string =
        match get_aut canon g false N0 with
        | None -> "panic"
        | Some c ->
          if not (check_perm g c) then "perm"
          else if not (check_orb g c) then "orbits-generators"
          else if not (check_ksub ksub g c) then "ksub"
          else if not (check_early canon (vbs_mixed g) g c) then "early"
          else "" in
      if kind = "unit" then begin
        (* isCanonical / addAugmentations one call at a time: U<i>=<edges>|<mode>; the model
           functions is_canonical / add_augs of Search/Model.v on the same graph (state right
           after AddVertex: no cache), canon and ksub_reps from the table of real answers *)
        let pj = Buffer.create 4096 and st = Buffer.create 4096 in
        Buffer.add_string pj (Printf.sprintf "unit n=%d" nn);
        let popcount x = let c = ref 0 and y = ref x in while !y <> 0 do y := !y land (!y - 1); incr c done; !c in
        for i = 0 to npairs - 1 do
          let r = try
              (match String.split_on_char '|' (find (Printf.sprintf "U%d" i)) with
               | [es; mode] ->
                 let g = vg_of_edges (nat_of_int nn)
                     (List.init (String.length es) (fun i -> if es.[i] = '1' then n_of_int 1 else N0)) in
                 let base = (nn - 1) * (nn - 2) / 2 in
                 let aug = List.filter_map (fun u -> if es.[base + u] = '1' then Some (nat_of_int u) else None)
                     (List.init (nn - 1) (fun u -> u)) in
                 let augs c vb = match add_augs canon ksub g c vb with
                   | Some (masks, _) -> Some (List.map int_of_n masks)
                   | None -> None in
                 let res = if mode = "c" then
                     (match is_canonical canon g aug no_cache N0 with
                      | None -> None
                      | Some ((b, c), vb) -> if b then (match augs c vb with Some m -> Some (1, m) | None -> None)
                        else Some (0, []))
                   else (match augs no_cache N0 with Some m -> Some (1, m) | None -> None) in
                 (match res with
                  | None -> (Printf.sprintf "%d:model-panic" i, Printf.sprintf "%d:model-panic" i)
                  | Some (v, masks) ->
                    let sizes = Array.make (nn + 1) 0 in
                    List.iter (fun x -> let c = popcount x in if c <= nn then sizes.(c) <- sizes.(c) + 1) masks;
                    let l = ref (Array.to_list sizes) in
                    let rec trim = function [] -> [] | 0 :: t -> trim t | x -> x in
                    l := List.rev (trim (List.rev !l));
                    (Printf.sprintf "%d:%s%d:%s" i mode v (join_ints !l), Printf.sprintf "%d:%s" i (join_ints masks)))
               | _ -> failwith "bad unit")
            with Missing key -> (Printf.sprintf "%d:model-missing:%s" i key, Printf.sprintf "%d:model-missing" i) in
          Buffer.add_string pj (" | " ^ fst r); Buffer.add_string st (" | " ^ snd r)
        done;
        print_endline (Buffer.contents pj ^ " ##" ^ Buffer.contents st)
      end else
      if kind = "spec" then begin
        (* sampled graphs: P<i>=<edges g>|<edges h>|<q>, h = g relabelled by q.  The per-graph
           clauses of canon_spec on both (check_graph, sound by check_graph_sound) and equality of
           their canonical forms (label_pair_check, sound by label_pair_check_sound). *)
        let graph_of (es : string) : vgraph =
          vg_of_edges (nat_of_int nn)
            (List.init (String.length es) (fun i -> if es.[i] = '1' then n_of_int 1 else N0)) in
        let verdict = ref "ok" in
        (try
           for i = 0 to npairs - 1 do
             if !verdict = "ok" then begin
               match String.split_on_char '|' (find (Printf.sprintf "P%d" i)) with
               | [eg; eh; q] ->
                 let g = graph_of eg and h = graph_of eh in
                 let qq = List.map nat_of_int (ints q) in
                 if not (check_graph canon ksub (vbs_mixed g) g) then
                   verdict := Printf.sprintf "FAIL:%s:k=%d:e=%s" (clause_of g) nn eg
                 else if not (check_graph canon ksub (vbs_mixed h) h) then
                   verdict := Printf.sprintf "FAIL:%s:k=%d:e=%s" (clause_of h) nn eh
                 else if not (label_pair_check canon g h qq) then
                   verdict := Printf.sprintf "FAIL:label:k=%d:e=%s:q=%s" nn eg q
               | _ -> failwith "bad pair"
             end
           done
         with Missing key -> verdict := "model-missing:" ^ key);
        print_endline (Printf.sprintf "spec k=%d pairs=%d | spec:%s ## %s" nn npairs !verdict (ksub_loop_verdict ()))
      end else begin
      let pj = Buffer.create 4096 and st = Buffer.create 4096 in
      Buffer.add_string pj (Printf.sprintf "cosim n=%d" nn);
      (* the hypothesis of the orderly-generation theorem, evaluated on the table: check_upto
         (Search/OrderlyInstCheckModel.v) = true implies canon_spec canon ksub nn for nn <= 6 and
         canon_spec with the early-exit clause restricted to the tabulated viable sets above
         (Search/OrderlyInstCheck.v: check_upto_sound, check_upto_sound_dom).  On a failure the
         clauses are evaluated one by one to name the first graph and clause that fail. *)
      let spec_verdict =
        try
          if check_upto canon ksub vbs_mixed (nat_of_int nn) then "ok"
          else begin
            let found = ref "" in
            for k = 1 to nn do
              if !found = "" then begin
                let gs = all_graphs (nat_of_int k) in
                List.iter (fun g ->
                    if !found = "" then begin
                      let (((_, _), _), e) = g in
                      let es = String.concat "" (List.map (fun b -> string_of_int (int_of_n b)) e) in
                      let clause = clause_of g in
                      if clause <> "" then found := Printf.sprintf "FAIL:%s:k=%d:e=%s" clause k es
                    end) gs;
                if !found = "" && not (label_check canon (nat_of_int k) gs) then
                  found := Printf.sprintf "FAIL:label:k=%d" k
              end
            done;
            if !found = "" then "FAIL:unknown" else !found
          end
        with Missing key -> "model-missing:" ^ key in
      Buffer.add_string pj (" | spec:" ^ spec_verdict);
      let (cm, cx) = canon_model_verdict 5 256 in
      Buffer.add_string pj (" | " ^ cm);
      List.iter (fun m ->
          List.iter (fun (p, pl) ->
              let pre = if pl = "pre" || pl = "both" then pred_of p else p_none in
              let post = if pl = "post" || pl = "both" then pred_of p else p_none in
              let ids = ref [] and bad = ref "" in
              for a = 0 to m - 1 do
                Buffer.add_string st (Printf.sprintf " | %d/%d/%s/%s:" a m p pl);
                let r = try
                    (match outputs (fun _ -> O) canon ksub pre post calls fuel
                             (init (nat_of_int nn) (nat_of_int a) (nat_of_int m)) with
                     | Ok l ->
                       List.iter (fun g ->
                           let (((nv, _), _), e) = g in
                           let c = if int_of_nat nv = nn then class_id nn (Array.of_list (List.map int_of_n e)) else -1 in
                           ids := c :: !ids) l;
                       String.concat " " (List.map snap l)
                     | Panic -> bad := "model-panic"; "model-panic"
                     | Fuel -> bad := "model-fuel"; "model-fuel")
                  with Missing key -> bad := "model-missing:" ^ key; "model-missing:" ^ key in
                Buffer.add_string st r
              done;
              Buffer.add_string pj (Printf.sprintf " | %d/%s/%s:" m p pl);
              if !bad <> "" then Buffer.add_string pj !bad
              else Buffer.add_string pj (join_ints (List.sort compare !ids))) pred_places) moduli;
      print_endline (Buffer.contents pj ^ " ## " ^ cx ^ " " ^ ksub_loop_verdict () ^ Buffer.contents st)
      end
      end
    done
  with End_of_file -> ()
