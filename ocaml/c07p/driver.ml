(* Driver of the extracted Multicode / Pruefer models: reads the case file of harness/cmd/c07p
   on stdin and prints one observation per line in the format of that command.

   Case lines:
     P;c c c ...                a Pruefer code (n = length + 2)
     T <rep> <n>;v-u v-u ...    a labelled tree (rep only selects the Go representation)
     M <rep>;n:v-u,v-u n: ...   a sequence of graphs: each is Multicode-encoded and decoded, the
                                concatenation goes through MulticodeDecodeMultiple
     PP;c,c,c - c,c ...         a sequence of Pruefer codes ("-" = empty): the P observations joined by |
     TT <rep>;n:v-u,v-u ...     a sequence of labelled trees: the T observations joined by |
   The model is stateless: a sequence is the list of the single-call results. *)
open Model
open Conv_nat
open Conv_z

let ints l = String.concat "," (List.map string_of_int l)
let fields s = List.filter (fun t -> t <> "") (String.split_on_char ' ' s)

(* a graph value from an edge list *)
let graph_of (n : int) (es : (int * int) list) : graph =
  let a = Array.make_matrix (max n 1) (max n 1) false in
  List.iter (fun (v, u) -> if v <> u && v >= 0 && u >= 0 && v < n && u < n then begin a.(v).(u) <- true; a.(u).(v) <- true end) es;
  { gn = nat_of_int n;
    gadj = (fun i j -> let i = int_of_nat i and j = int_of_nat j in i < n && j < n && a.(i).(j)) }

let parse_edge t =
  match String.split_on_char '-' t with
  | [a; b] -> (int_of_string a, int_of_string b)
  | _ -> failwith ("bad edge " ^ t)

(* canonical text n:m:degrees:edges of a DenseGraph literal: m and the degree sequence are the stored fields *)
let descr_dgraph (d : dgraph) : string =
  let n = int_of_nat d.dn in
  let b = Array.of_list d.dedges in
  let es = ref [] in
  for v = 0 to n - 1 do
    for u = 0 to v - 1 do
      if b.(v * (v - 1) / 2 + u) then es := Printf.sprintf "%d-%d" v u :: !es
    done
  done;
  Printf.sprintf "%d:%d:%s:%s" n (int_of_z d.dm) (ints (List.map int_of_z d.ddeg)) (String.concat "," (List.rev !es))

let hex (l : int list) = String.concat "" (List.map (Printf.sprintf "%02x") l)

(* a record with every neighbour list sorted (the format does not fix the order inside a list) *)
let canon (l : int list) : int list =
  match l with
  | [] -> []
  | n :: rest ->
    (* acc: output so far, reversed; cur: the current list, reversed *)
    let rec go cur acc = function
      | [] -> List.rev_append acc (List.rev cur)
      | 0 :: r -> go [] (0 :: List.rev_append (List.sort compare cur) acc) r
      | c :: r -> go (c :: cur) acc r
    in n :: go [] [] rest

let do_p toks =
  let code = List.map int_of_string toks in
  match prufer_decode (List.map z_of_int code) with
  | Panic -> "pd=panic;pe=na"
  | Ok d ->
    let pe = match prufer_encode (graph_of_bits d.dn d.dedges) with
      | Panic -> "panic"
      | Ok c -> ints (List.map int_of_z c) in
    Printf.sprintf "pd=ok:%s;pe=%s" (descr_dgraph d) pe

let do_t n toks =
  let g = graph_of n (List.map parse_edge toks) in
  match prufer_encode g with
  | Panic -> "pe=panic;pd=na"
  | Ok c ->
    let pd = match prufer_decode c with
      | Panic -> "panic"
      | Ok d -> "ok:" ^ descr_dgraph d in
    Printf.sprintf "pe=%s;pd=%s" (ints (List.map int_of_z c)) pd

let parse_rec t =
  match String.split_on_char ':' t with
  | [n; es] ->
    let es = List.filter (fun s -> s <> "") (String.split_on_char ',' es) in
    (int_of_string n, List.map parse_edge es)
  | _ -> failwith ("bad record " ^ t)

let do_m toks =
  let recs = List.map parse_rec toks in
  let encs = List.map (fun (n, es) -> multicode_encode (graph_of n es)) recs in
  if List.exists (fun e -> e = Panic) encs then "mc=panic;md=na;mm=na"
  else begin
    let encs = List.map (function Ok s -> s | Panic -> []) encs in
    let bytes = List.map (List.map int_of_z) encs in
    let md = List.map (fun s -> match multicode_decode s with Panic -> "panic" | Ok d -> descr_dgraph d) encs in
    let mm = match multicode_decode_multiple (List.concat encs) with
      | Panic -> "panic"
      | Ok ds -> "ok:" ^ String.concat "|" (List.map descr_dgraph ds) in
    Printf.sprintf "mc=%s;md=%s;mm=%s ## raw=%s"
      (String.concat "." (List.map (fun b -> hex (canon b)) bytes))
      (String.concat "|" md) mm
      (String.concat "." (List.map hex bytes))
  end

let () =
  try
    while true do
      let line = input_line stdin in
      let obs =
        match String.index_opt line ';' with
        | None -> "badcase"
        | Some i ->
          let head = fields (String.sub line 0 i) in
          let toks = fields (String.sub line (i + 1) (String.length line - i - 1)) in
          (match head with
           | ["P"] -> do_p toks
           | ["T"; _; n] -> do_t (int_of_string n) toks
           | ["M"; _] -> do_m toks
           | ["PP"] ->
             String.concat "|" (List.map (fun t ->
                 do_p (if t = "-" then [] else String.split_on_char ',' t)) toks)
           | ["GS"; _] -> Printf.sprintf "gs=%d" (List.length (List.map parse_rec toks))
           | ["TT"; _] ->
             String.concat "|" (List.map (fun t ->
                 let (n, es) = parse_rec t in
                 do_t n (List.map (fun (a, b) -> Printf.sprintf "%d-%d" a b) es)) toks)
           | _ -> "badcase")
      in
      print_endline obs
    done
  with End_of_file -> ()
