(* Driver of the extracted model for C04: reads the case file of harness/cmd/c04 on stdin and
   prints one observation per line.

   Two kinds of case lines:
   - behaviour cases `n a m pred placement mode;k j1 j2 ...`: Next needs the canonical labelling,
     which is a parameter of the model, so the model side computes nothing; the property
     determines the observation to be the constant `ok` (all iterators of the case showed the
     undisturbed sequence), and that is what is printed;
   - state cases `S n a m pred placement k|<dump>`: <dump> is the complete state of the
     iterator of /repo at position k (harness: search.VerifDump).  The driver builds the model
     state s, runs the extracted [load (save s)] and prints the resulting state in the same
     syntax, plus the extracted invariant tests on s:
       projected:  N A M F NV NE D E CH PA of the loaded state, inv=[inv_vis_b s]
       strict:     DT ET P O G VB of the loaded state, hid=[inv_hid_b s]. *)
open Model
open Conv_nat
open Conv_z

let n_of_int (i : int) : n = if i = 0 then N0 else Npos (pos_of_int i)
let int_of_n (x : n) : int = match x with N0 -> 0 | Npos p -> int_of_pos p
(* choices are Go uints: parse through Int64 to keep bit 63 *)
let n_of_string (s : string) : n =
  let i = Int64.of_string ("0u" ^ s) in
  if i = 0L then N0 else
    let rec pos (i : int64) : positive =
      if i = 1L then XH
      else if Int64.logand i 1L = 0L then XO (pos (Int64.shift_right_logical i 1))
      else XI (pos (Int64.shift_right_logical i 1)) in
    Npos (pos i)
let string_of_n (x : n) : string = match x with N0 -> "0" | Npos p -> string_of_pos p

let split_list (s : string) : string list = if s = "" then [] else String.split_on_char ',' s
let ints (s : string) : int list = List.map int_of_string (split_list s)

let field (toks : (string * string) list) (k : string) : string =
  try List.assoc k toks with Not_found -> failwith ("missing field " ^ k)

let parse_state (dump : string) : state =
  let toks = List.filter_map (fun t ->
      if t = "" then None else
        let i = String.index t '=' in
        Some (String.sub t 0 i, String.sub t (i + 1) (String.length t - i - 1)))
      (String.split_on_char ' ' dump) in
  let f = field toks in
  let nat k = nat_of_int (int_of_string (f k)) in
  let zs k = List.map z_of_string (split_list (f k)) in
  let ns k = List.map n_of_string (split_list (f k)) in
  let g = { nV = nat "NV"; nE = z_of_string (f "NE"); deg = zs "D"; degTail = zs "DT";
            edg = ns "E"; edgTail = ns "ET" } in
  let perm = if f "P" = "nil" then None else Some (List.map nat_of_int (ints (f "P"))) in
  let gens = if f "G" = "" then [] else
      List.map (fun s -> List.map nat_of_int (ints s)) (String.split_on_char '/' (f "G")) in
  let c = { cPerm = perm; cOrb = zs "O"; cGens = gens } in
  (* the model keeps both stacks with the top at the head; the dump is in Go order *)
  { sN = nat "N"; sA = nat "A"; sM = nat "M"; sFirst = (f "F" = "1"); sG = g; sCache = c;
    sVB = n_of_string (f "VB"); sChoices = List.rev (ns "CH");
    sPath = List.rev (List.map nat_of_int (ints (f "PA"))) }

let cat f l = String.concat "," (List.map f l)
let nat_s x = string_of_int (int_of_nat x)
let b01 b = if b then "1" else "0"

let print_state (s : state) (inv_v : bool) (inv_h : bool) : string =
  let g = s.sG in
  let c = s.sCache in
  Printf.sprintf "N=%s A=%s M=%s F=%s NV=%s NE=%s D=%s E=%s CH=%s PA=%s inv=%s ## DT=%s ET=%s P=%s O=%s G=%s VB=%s hid=%s"
    (nat_s s.sN) (nat_s s.sA) (nat_s s.sM) (b01 s.sFirst) (nat_s g.nV) (string_of_z g.nE)
    (cat string_of_z g.deg) (cat string_of_n g.edg)
    (cat string_of_n (List.rev s.sChoices)) (cat nat_s (List.rev s.sPath)) (b01 inv_v)
    (cat string_of_z g.degTail) (cat string_of_n g.edgTail)
    (match c.cPerm with None -> "nil" | Some p -> cat nat_s p)
    (cat string_of_z c.cOrb)
    (String.concat "/" (List.map (cat nat_s) c.cGens))
    (string_of_n s.sVB) (b01 inv_h)

let () =
  try
    while true do
      let line = input_line stdin in
      if String.length line >= 2 && line.[0] = 'S' && line.[1] = ' ' then begin
        let i = String.index line '|' in
        let s = parse_state (String.sub line (i + 1) (String.length line - i - 1)) in
        match load (save s) with
        | Some s' -> print_endline (print_state s' (inv_vis_b s) (inv_hid_b s))
        | None -> print_endline "panic"
      end else
        print_endline "ok"
    done
  with End_of_file -> ()
