(* Driver of the extracted model of the graph constructors (C06): reads the case file of
   harness/cmd/c06 on stdin and prints one observation per line in the format of that command. *)
open Model
open Conv_nat
open Conv_z

let ni = nat_of_int
let ints l = String.concat "," (List.map string_of_int l)

exception Panic

let get = function Some x -> x | None -> raise Panic

(* the dump of a value of the Graph interface through the model's observers *)
let dump (g : gval) : string =
  let n = int_of_nat (g_N g) in
  let m = int_of_z (get (g_M g)) in
  let deg = List.map int_of_z (get (g_degrees g)) in
  let buf = Buffer.create 256 in
  Buffer.add_string buf (Printf.sprintf "N=%d M=%d D=%s A=" n m (ints deg));
  let idx = Array.init n ni in
  for i = 0 to n - 1 do
    if i > 0 then Buffer.add_char buf '.';
    for j = 0 to n - 1 do
      Buffer.add_char buf (if get (g_is_edge g idx.(i) idx.(j)) then '1' else '0')
    done
  done;
  Buffer.add_string buf " NB=";
  for i = 0 to n - 1 do
    if i > 0 then Buffer.add_char buf '/';
    Buffer.add_string buf (ints (List.sort compare (List.map int_of_nat (get (g_neighbours g idx.(i))))))
  done;
  Buffer.contents buf

let fields s = List.filter (fun x -> x <> "") (String.split_on_char ' ' s)
let comma_ints s = if s = "-" || s = "" then [] else List.map int_of_string (String.split_on_char ',' s)
let edge_of t = match String.split_on_char '-' t with
  | [a; b] -> (ni (int_of_string a), ni (int_of_string b))
  | _ -> failwith ("bad edge " ^ t)

(* the input graph of a transformation in the representation rep *)
let build (rep : string) (n : int) (es : (nat * nat) list) : gval =
  match rep with
  | "d" -> GD (get (add_edges (d_empty (ni n)) es))
  | "s" -> GS (get (sparse_of_edges (ni n) es))
  | "c" -> GC (GD (get (complement_dense (GD (get (add_edges (d_empty (ni n)) es))))))
  | "i" ->
    let v x = ni ((int_of_nat x + 1) mod n) in
    let h = get (add_edges (d_empty (ni n)) (List.map (fun (a, b) -> (v a, v b)) es)) in
    induced_view (GD h) (List.init n (fun x -> ni ((x + 1) mod n)))
  | _ when String.length rep = 2 && rep.[0] = 's' ->
    (* provenance layer of the harness (prov.go): the same abstract graph reached in another way;
       the model builds the plain value: sparse for the s-provenances, dense for the d- and v- ones *)
    GS (get (sparse_of_edges (ni n) es))
  | _ when String.length rep = 2 && (rep.[0] = 'd' || rep.[0] = 'v') ->
    GD (get (add_edges (d_empty (ni n)) es))
  | _ -> failwith ("bad representation " ^ rep)

(* ---- kind big: the defining predicate of a family (the one the theorem C06_<family> states)
   evaluated directly; N as in the theorem *)
let big (mode : string) (fam : string) (args : string list) (toks : string list) : string =
  let p i = int_of_string (List.nth args i) in
  let zs i = List.map z_of_int (comma_ints (List.nth args i)) in
  let pow2 d = 1 lsl d in
  (* number of vertices and adjacency on nat arguments *)
  let (nn, adjn) : int * (nat -> nat -> bool) = match fam with
    | "complete" -> (p 0, complete_def)
    | "path" -> (p 0, path_def)
    | "cycle" -> (p 0, cycle_def (ni (p 0)))
    | "star" -> (p 0, star_def)
    | "partite" -> let nums = comma_ints (List.nth args 0) in
      (List.fold_left (+) 0 nums, partite_def (List.map ni nums))
    | "hypercube" -> (pow2 (p 0), hypercube_def (ni (p 0)))
    | "folded" -> (pow2 (p 0 - 1), folded_def (ni (p 0)))
    | "friendship" -> (2 * p 0 + 1, friendship_def)
    | "petersen" -> (2 * p 0, petersen_def (ni (p 0)) (ni (p 1)))
    | "circulant" -> (p 0, circulant_def (ni (p 0)) (zs 1))
    | "circbip" -> (p 0 + p 1, circbip_def (ni (p 0)) (ni (p 1)) (zs 2))
    | "flower" -> (4 * p 0, flower_def (ni (p 0)))
    | "rook" -> (p 0 * p 1, rook_def (ni (p 0)))
    | "kneser" -> (int_of_nat (binom (ni (p 0)) (ni (p 1))), fun _ _ -> false)
    | "bikneser" -> (2 * int_of_nat (binom (ni (p 0)) (ni (p 1))), fun _ _ -> false)
    | _ -> failwith ("unknown family " ^ fam) in
  let nat_of = Array.init nn ni in
  let adj : int -> int -> bool =
    if fam = "kneser" then begin
      (* kneser_set_def k x y = negb (x =? y) && disjointb (ksubset k x) (ksubset k y), with the
         subset of every vertex computed once *)
      let k = ni (p 1) in
      let sub = Array.init nn (fun x -> ksubset k nat_of.(x)) in
      fun x y -> x <> y && disjointb sub.(x) sub.(y)
    end else fun x y -> adjn nat_of.(x) nat_of.(y) in
  match mode with
  | "oracle" -> Printf.sprintf "N=%d" nn
  | "all" ->
    let deg = Array.make nn 0 in
    let m = ref 0 and h = ref 7 in
    for j = 1 to nn - 1 do
      for i = 0 to j - 1 do
        let b = adj i j in
        if b then (deg.(i) <- deg.(i) + 1; deg.(j) <- deg.(j) + 1; incr m);
        h := (!h * 1000003 + (if b then 2 else 1)) mod 2147483647
      done
    done;
    Printf.sprintf "N=%d M=%d D=%s H=%d" nn !m (ints (Array.to_list deg)) !h
  | "sample" ->
    let rows = Buffer.create 1024 and bits = Buffer.create 2048 in
    List.iter (fun t ->
        if t.[0] = 'r' then begin
          let v = int_of_string (String.sub t 1 (String.length t - 1)) in
          let row = List.filter (fun u -> adj v u) (List.init nn (fun u -> u)) in
          if Buffer.length rows > 0 then Buffer.add_char rows '|';
          Buffer.add_string rows (Printf.sprintf "%d:%s" v (ints row))
        end else
          match String.split_on_char '-' t with
          | [a; b] -> Buffer.add_char bits (if adj (int_of_string a) (int_of_string b) then '1' else '0')
          | _ -> failwith ("bad pair " ^ t)) toks;
    Printf.sprintf "N=%d R=%s P=%s" nn (Buffer.contents rows) (Buffer.contents bits)
  | _ -> failwith ("bad mode " ^ mode)

let editable (g : gval) : egraph = match g with GD d -> ED d | GS s -> ES s | _ -> failwith "not editable"

let rec run (line : string) : string =
  let semi = String.index line ';' in
  let head = fields (String.sub line 0 semi) in
  let toks = fields (String.sub line (semi + 1) (String.length line - semi - 1)) in
  let kind = List.hd head in
  let args = List.tl head in
  let arg i = int_of_string (List.nth args i) in
  let narg i = ni (arg i) in
  let itoks () = List.map int_of_string toks in
  let full g = dump g in
  (* the strict dump of a large graph is left out on both sides (slow in the unary model) *)
  let wfonly g = let n = int_of_nat (g_N g) in
    if n <= 70 then Printf.sprintf "wf N=%d ## %s" n (dump g) else Printf.sprintf "wf N=%d" n in
  let d o = GD (get o) in
  match kind with
  | "complete" -> full (d (complete_graph (narg 0)))
  | "path" -> full (d (path (narg 0)))
  | "cycle" -> full (d (cycle (narg 0)))
  | "star" -> full (d (star (narg 0)))
  | "partite" -> full (d (complete_partite (List.map ni (itoks ()))))
  | "rook" -> full (d (rook (narg 0) (narg 1)))
  | "flower" -> full (d (flower_snark (narg 0)))
  | "flower1" -> wfonly (d (flower_snark (ni 1)))
  | "hypercube" -> full (d (hypercube (narg 0)))
  | "folded" -> full (d (folded_hypercube (narg 0)))
  | "kneser" -> full (d (kneser (narg 0) (narg 1)))
  | "bikneser" -> full (d (bipartite_kneser (narg 0) (narg 1)))
  | "circulant" -> full (d (circulant (narg 0) (List.map z_of_int (itoks ()))))
  | "circbip" -> full (d (circulant_bipartite (narg 0) (narg 1) (List.map z_of_int (itoks ()))))
  | "petersen" -> full (d (generalised_petersen (narg 0) (narg 1)))
  | "friendship" -> full (d (friendship (narg 0)))
  | "newdense" ->
    (* heap model: the caller's slice is buffer 0; after the call the caller overwrites every
       byte of it exactly as the harness does, and the graph is observed again *)
    let bytes = itoks () in
    let h0 = [List.map z_of_int bytes] in
    let (h1, g) = get (h_new_dense h0 (narg 0) (ni 0)) in
    let d1 = full (GD (get (h_view h1 g))) in
    let h2 = List.fold_left (fun h (k, b) -> h_write h (ni 0) (ni k) (z_of_int (if b = 0 then 1 else 0)))
        h1 (List.mapi (fun k b -> (k, b)) bytes) in
    d1 ^ " => " ^ full (GD (get (h_view h2 g)))
  | "newdensenil" -> full (d (new_dense (narg 0) None))
  | "newsparse" ->
    let n = arg 0 in
    let nb = List.map comma_ints toks in
    let h0 = List.map (List.map ni) nb in
    let (h1, g) = get (h_new_sparse h0 (ni n) (List.init (List.length nb) ni)) in
    let d1 = full (GS (get (hs_view h1 g))) in
    let h2 = List.fold_left (fun h (a, l) ->
        List.fold_left (fun h (k, x) -> hn_write h (ni a) (ni k) (ni ((x + 1) mod n))) h (List.mapi (fun k x -> (k, x)) l))
        h1 (List.mapi (fun a l -> (a, l)) nb) in
    d1 ^ " => " ^ full (GS (get (hs_view h2 g)))
  | "newsparsenil" -> full (GS (get (new_sparse (narg 0) None)))
  | "rgraph" ->
    let bits = Array.of_list (itoks ()) in
    let draw k = let k = int_of_nat k in k < Array.length bits && bits.(k) = 1 in
    wfonly (d (random_graph (narg 0) draw))
  | "rtree" ->
    let code = Array.of_list (itoks ()) in
    let draw k = ni code.(int_of_nat k) in
    wfonly (d (random_tree (narg 0) draw))
  | "compdense" -> full (d (complement_dense (build (List.nth args 0) (arg 1) (List.map edge_of toks))))
  | "compview" -> full (GC (build (List.nth args 0) (arg 1) (List.map edge_of toks)))
  | "line" -> full (d (line_graph (build (List.nth args 0) (arg 1) (List.map edge_of toks))))
  | "indview" ->
    let v = List.map ni (comma_ints (List.nth args 2)) in
    full (induced_view (build (List.nth args 0) (arg 1) (List.map edge_of toks)) v)
  | "split" ->
    let g = editable (build (List.nth args 0) (arg 1) (List.map edge_of toks)) in
    full (e_val (get (split_edge g (narg 2) (narg 3))))
  | "contract" ->
    let g = editable (build (List.nth args 0) (arg 1) (List.map edge_of toks)) in
    full (e_val (get (contract g (narg 2) (narg 3))))
  | "prufer" -> wfonly (d (prufer_decode (List.map ni (itoks ()))))
  | "multicode" -> wfonly (d (multicode_decode (List.map z_of_int (itoks ()))))
  | "consplit" ->
    (* Contract(i, j), observed, then SplitEdge(k, l) on the same graph (re-slices into the stale
       tail RemoveVertex left in a DenseGraph's backing array), observed again *)
    let g = editable (build (List.nth args 0) (arg 1) (List.map edge_of toks)) in
    let g1 = get (contract g (narg 2) (narg 3)) in
    let d1 = full (e_val g1) in
    d1 ^ " => " ^ full (e_val (get (split_edge g1 (narg 4) (narg 5))))
  | "twice" ->
    (* the same call twice, the second result edited: the first is what it was (functional model) *)
    let s = run (String.sub line 6 (String.length line - 6)) in
    s ^ " => " ^ s
  | "big" -> big (List.nth args 0) (List.nth args 1) (List.tl (List.tl args)) toks
  | "viewedit" ->
    (* views of an editable base, observed before and after every edit of the base: the view
       models applied to the CURRENT model base.  Tokens with ':' are edits, the others edges. *)
    let is_op t = String.contains t ':' in
    let es = List.filter (fun t -> not (is_op t)) toks in
    let ops = List.filter is_op toks in
    let base = ref (editable (build (List.nth args 0) (arg 1) (List.map edge_of es))) in
    let v = List.map ni (comma_ints (List.nth args 2)) in
    let buf = Buffer.create 1024 in
    let first = ref true in
    let see_all () =
      let b = e_val !base in
      List.iter (fun g ->
          if not !first then Buffer.add_string buf " => ";
          first := false;
          Buffer.add_string buf (full g))
        [b; GC b; induced_view b v; GC (induced_view b v); induced_view (GC b) v] in
    see_all ();
    List.iter (fun t ->
        (match String.split_on_char ':' t with
         | ["av"; l] -> base := get (e_add_vertex !base (List.map ni (comma_ints l)))
         | ["rv"; x] -> base := get (e_remove_vertex !base (ni (int_of_string x)))
         | ["ae"; e] -> let (a, b) = edge_of e in base := get (e_add_edge !base a b)
         | ["re"; e] -> let (a, b) = edge_of e in base := get (e_remove_edge !base a b)
         | ["sp"; e] -> let (a, b) = edge_of e in base := get (split_edge !base a b)
         | ["ct"; e] -> let (a, b) = edge_of e in base := get (contract !base a b)
         | _ -> failwith ("bad edit " ^ t));
        see_all ()) ops;
    Buffer.contents buf
  | "graph6" ->
    (* C08's decoder model completed by NewDense (Graph/CtorDecodeModel.v); a decode error is "wf" *)
    (match graph6_decode_graph (List.map z_of_int (itoks ())) with
     | Ok (g, false) -> wfonly (GD g)
     | Ok (_, true) -> "wf"
     | _ -> "panic")
  | "sparse6" ->
    (match sparse6_decode_graph (List.map z_of_int (itoks ())) with
     | Ok (g, false) -> wfonly (GS g)
     | Ok (_, true) -> "wf"
     | _ -> "panic")
  | _ -> failwith ("unknown kind " ^ kind)

let () =
  try
    while true do
      let line = input_line stdin in
      print_endline (try run line with Panic -> "panic")
    done
  with End_of_file -> ()
