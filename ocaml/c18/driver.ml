(* Driver of the extracted model of disjoint.Set: reads the case file of harness/cmd/c18 on
   stdin and prints one observation per line in the format of that command. *)
open Model
open Conv_nat
open Conv_z

let ints l = String.concat "," (List.map string_of_int l)

let parse_op (t : string) : op =
  let k = t.[0] in
  let nums = List.map int_of_string (String.split_on_char ',' (String.sub t 1 (String.length t - 1))) in
  match k, nums with
  | 'f', [x] -> OFind (nat_of_int x)
  | 'F', [x] -> OFindB (nat_of_int x)
  | 'u', [x; y] -> OUnion (nat_of_int x, nat_of_int y)
  | 'U', [x; y] -> OUnionB (nat_of_int x, nat_of_int y)
  | _ -> failwith ("bad op " ^ t)

(* the least member of every class, from the roots found on the unmodified array *)
let labels (ds : dset) : int list option =
  let n = List.length ds in
  let tbl = Hashtbl.create 16 in
  let rec go i acc =
    if i = n then Some (List.rev acc)
    else match find ds (nat_of_int i) with
      | None -> None
      | Some (_, r) ->
        let r = int_of_nat r in
        let l = match Hashtbl.find_opt tbl r with Some m -> m | None -> Hashtbl.add tbl r i; i in
        go (i + 1) (l :: acc)
  in go 0 []

let () =
  try
    while true do
      let line = input_line stdin in
      let i = String.index line ';' in
      let n = int_of_string (String.sub line 0 i) in
      let ops = List.map parse_op
          (List.filter (fun s -> s <> "") (String.split_on_char ' ' (String.sub line (i + 1) (String.length line - i - 1)))) in
      let buf = Buffer.create 256 in
      let strict = Buffer.create 64 in
      let failed = ref false in
      let ds = ref (new0 (nat_of_int n)) in
      List.iteri (fun k o ->
          if not !failed then begin
            (match o with
             | OFind x | OFindB x ->
               (match find !ds x with
                | Some (d, r) -> ds := d; Buffer.add_string strict (string_of_int (int_of_nat r) ^ " ")
                | None -> failed := true)
             | OUnion (x, y) | OUnionB (x, y) ->
               (match union !ds x y with Some d -> ds := d | None -> failed := true));
            if not !failed then begin
              if k > 0 then Buffer.add_char buf '|';
              match labels !ds with
              | Some l -> Buffer.add_string buf (ints l)
              | None -> failed := true
            end
          end) ops;
      if !failed then print_endline "panic"
      else begin
        match labels !ds, sets !ds, smallest_rep !ds with
        | Some lab, Some (_, ss), Some (_, sr) ->
          let ss = List.map (fun s -> String.concat "." (List.map (fun x -> string_of_int (int_of_nat x)) s)) ss in
          let laba = Array.of_list lab in
          let rl = List.sort compare (List.map (fun r -> laba.(int_of_nat r)) (roots !ds)) in
          Printf.printf "%s;sets=%s;sr=%s;roots=%s ## %s finds=%s\n" (Buffer.contents buf)
            (String.concat "/" ss) (ints (List.map int_of_nat sr)) (ints rl)
            (ints (List.map int_of_z !ds)) (String.trim (Buffer.contents strict))
        | _ -> print_endline "panic"
      end
    done
  with End_of_file -> ()
