(* Driver of the extracted model of disjoint.Set: reads the case file of harness/cmd/c18 on
   stdin and prints one observation per line in the format of that command.

   Case syntax (shared with harness/cmd/c18/main.go):
     <n>[:s][:c<cap>][:g][:t<n2>];tok tok ...
   header flag s = sparse (the partition is observed only at `o` tokens and at the end; without
   it the partition is observed after every token), c<cap> = capacity of the scratch buffer of
   the buffered calls, g = the harness fills that buffer with arbitrary values between calls
   (both irrelevant to the model), t<n2> = a second, independent set of n2 elements; a token
   with prefix @ goes to the second set and its items carry the prefix too.  Tokens:
     f<x> F<x>        Find / FindBuffered
     u<x>,<y> U<x>,<y> Union / UnionBuffered
     q<x>,<y> Q<x>,<y> "same set?" = Find(x) == Find(y) (second lookup on the array as
                      compressed by the first), item q0|q1
     o                item = the partition (least member of every element's class)
     v                Sets(), SmallestRep(), Roots() on the set itself, in this order (the
                      compressed array is kept), item v<sets>~<sr>~<roots>
     s  m  r          one of the three alone, items s<sets>, m<sr>, r<roots>
   Peano indices: every model find costs at least length ds steps, so a partition snapshot is
   O(n^2) and the quadratic views are O(n^3) in the worst case; the final views are taken from
   the model's [sets]/[smallest_rep] when an estimate of that cost (from the final partition) is
   within [view_budget], otherwise they are derived from the partition, which is what
   C18_sets / C18_smallest_rep / C18_roots prove the model's views to be. *)
open Model
open Conv_nat
open Conv_z

let ints l = String.concat "," (List.map string_of_int l)

type tok =
  | TFind of nat | TFindB of nat
  | TUnion of nat * nat | TUnionB of nat * nat
  | TQuery of nat * nat | TQueryB of nat * nat
  | TObs | TViews | TSets | TSmallest | TRoots

let parse_tok (t : string) : tok =
  let k = t.[0] in
  let rest = String.sub t 1 (String.length t - 1) in
  let nums = if rest = "" then [] else List.map int_of_string (String.split_on_char ',' rest) in
  match k, nums with
  | 'f', [x] -> TFind (nat_of_int x)
  | 'F', [x] -> TFindB (nat_of_int x)
  | 'u', [x; y] -> TUnion (nat_of_int x, nat_of_int y)
  | 'U', [x; y] -> TUnionB (nat_of_int x, nat_of_int y)
  | 'q', [x; y] -> TQuery (nat_of_int x, nat_of_int y)
  | 'Q', [x; y] -> TQueryB (nat_of_int x, nat_of_int y)
  | 'o', [] -> TObs
  | 'v', [] -> TViews
  | 's', [] -> TSets
  | 'm', [] -> TSmallest
  | 'r', [] -> TRoots
  | _ -> failwith ("bad token " ^ t)

(* The least member of every class.  The finds are threaded (each runs on the array as
   compressed by the previous ones, on a functional copy: the caller's array is untouched), as
   the harness does on its copy; by C18_find_noop that does not change the partition, and it
   keeps a snapshot of a deep tree quadratic instead of cubic. *)
let labels (ds : dset) : int array option =
  let n = List.length ds in
  let lab = Array.make n 0 in
  let tbl = Hashtbl.create 64 in
  let rec go i ni d =
    if i = n then Some lab
    else match find d ni with
      | None -> None
      | Some (d', r) ->
        let r = int_of_nat r in
        (match Hashtbl.find_opt tbl r with
         | Some m -> lab.(i) <- m
         | None -> Hashtbl.add tbl r i; lab.(i) <- i);
        go (i + 1) (S ni) d'
  in go 0 O ds

let sets_str (ss : int list list) = String.concat "/" (List.map (fun s -> String.concat "." (List.map string_of_int s)) ss)

(* the three views as determined by a partition given by its least-member labels *)
let views_of_labels (lab : int array) : int list list * int list * int list =
  let n = Array.length lab in
  let members = Array.make n [] in
  for i = n - 1 downto 0 do members.(lab.(i)) <- i :: members.(lab.(i)) done;
  let mins = List.filter (fun i -> lab.(i) = i) (List.init n (fun i -> i)) in
  (List.map (fun m -> members.(m)) mins, Array.to_list lab, mins)

let view_budget = 16_000_000

(* estimate of the model steps of [sets] and [smallest_rep] on a set with this partition:
   (number of finds) * n; the harness computes the same number for its histogram *)
let views_cost (lab : int array) : int =
  let n = Array.length lab in
  let idx = Array.make n 0 in
  let k = ref 0 in
  let c = ref 0 in
  for i = 0 to n - 1 do
    if lab.(i) = i then begin idx.(i) <- !k; incr k; c := !c + 2 * !k + 2 * i end
    else c := !c + 2 * (idx.(lab.(i)) + 1) + 2 * (lab.(i) + 1)
  done;
  !c * n

let roots_labels (lab : int array) (ds : dset) : int list =
  List.sort compare (List.map (fun r -> lab.(int_of_nat r)) (roots ds))

let model_views (ds : dset) : (dset * int list list * int list) option =
  match sets ds with
  | None -> None
  | Some (d1, ss) ->
    match smallest_rep d1 with
    | None -> None
    | Some (d2, sr) -> Some (d2, List.map (List.map int_of_nat) ss, List.map int_of_nat sr)

exception Panic

let () =
  try
    while true do
      let line = input_line stdin in
      let i = String.index line ';' in
      let hd = String.split_on_char ':' (String.sub line 0 i) in
      let n = int_of_string (List.hd hd) in
      let flags = List.tl hd in
      let sparse = List.mem "s" flags in
      let n2 = List.fold_left (fun acc f ->
          if String.length f > 1 && f.[0] = 't' then Some (int_of_string (String.sub f 1 (String.length f - 1))) else acc)
          None flags in
      let toks = List.map (fun t ->
          if t.[0] = '@' then (1, parse_tok (String.sub t 1 (String.length t - 1))) else (0, parse_tok t))
          (List.filter (fun s -> s <> "") (String.split_on_char ' ' (String.sub line (i + 1) (String.length line - i - 1)))) in
      let buf = Buffer.create 256 in
      let strict = Buffer.create 64 in
      let first = ref true in
      let item obj s =
        if !first then first := false else Buffer.add_char buf '|';
        if obj = 1 then Buffer.add_char buf '@';
        Buffer.add_string buf s in
      (* the objects are independent values: the model has no state outside them *)
      let dss = match n2 with
        | None -> [| new0 (nat_of_int n) |]
        | Some m -> [| new0 (nat_of_int n); new0 (nat_of_int m) |] in
      let ex = function Some x -> x | None -> raise Panic in
      try
        List.iter (fun (obj, t) ->
            if obj < Array.length dss then begin
              let ds = dss.(obj) in
              let set d = dss.(obj) <- d in
              let snapshot () = item obj (ints (Array.to_list (ex (labels dss.(obj))))) in
              (match t with
               | TFind x | TFindB x ->
                 let (d, r) = ex (find ds x) in
                 set d; Buffer.add_string strict (string_of_int (int_of_nat r) ^ " ")
               | TUnion (x, y) | TUnionB (x, y) -> set (ex (union ds x y))
               | TQuery (x, y) | TQueryB (x, y) ->
                 let (d1, rx) = ex (find ds x) in
                 let (d2, ry) = ex (find d1 y) in
                 set d2; item obj (if int_of_nat rx = int_of_nat ry then "q1" else "q0")
               | TObs -> snapshot ()
               | TSets ->
                 let (d1, ss) = ex (sets ds) in
                 set d1; item obj ("s" ^ sets_str (List.map (List.map int_of_nat) ss))
               | TSmallest ->
                 let (d1, sr) = ex (smallest_rep ds) in
                 set d1; item obj ("m" ^ ints (List.map int_of_nat sr))
               | TRoots ->
                 item obj ("r" ^ ints (roots_labels (ex (labels ds)) ds))
               | TViews ->
                 let (d2, ss, sr) = ex (model_views ds) in
                 set d2;
                 let lab = ex (labels d2) in
                 item obj ("v" ^ sets_str ss ^ "~" ^ ints sr ^ "~" ^ ints (roots_labels lab d2)));
              if not sparse && t <> TObs then snapshot ()
            end) toks;
        Array.iteri (fun obj ds ->
            let lab = ex (labels ds) in
            let (ss, sr, rl) =
              if views_cost lab <= view_budget then begin
                (* each view on its own copy of the final array, as the harness does *)
                let (_, ss) = ex (sets ds) in
                let (_, sr) = ex (smallest_rep ds) in
                (List.map (List.map int_of_nat) ss, List.map int_of_nat sr, roots_labels lab ds)
              end else begin
                let (ss, sr, _) = views_of_labels lab in
                (ss, sr, roots_labels lab ds)
              end in
            let pre = if obj = 1 then "@" else "" in
            Buffer.add_string buf (Printf.sprintf ";%ssets=%s;%ssr=%s;%sroots=%s" pre (sets_str ss) pre (ints sr) pre (ints rl))) dss;
        Printf.printf "%s ## %s finds=%s\n" (Buffer.contents buf)
          (String.concat " @ " (Array.to_list (Array.map (fun ds -> ints (List.map int_of_z ds)) dss)))
          (String.trim (Buffer.contents strict))
      with Panic -> print_endline "panic"
    done
  with End_of_file -> ()
