(* Driver of the extracted reference model of the canonical labelling (coq/Canon/Model.v):
   reads the case file of harness/cmd/c01 on stdin and prints one observation per line.

     m[:fam];<graph6>;...   canonical graph (graph6) of canon_graph, the relabellings are ignored
     o[:fam];<graph6>;...   "ok"   (oracle-only case: nothing to compare)
     c;<n>;all              "ok"   (oracle-only case)
     x...;...;...  k...;...;...   "ok"   (oracle-only cases of the hardening pass)
     r[:fam];<graph6>;cls=<c>|<c>|.. picks=<k>,<k>,..
                            the partitions after each refinement of refine_run: projected the cells
                            as sets "0,3|1,2" separated by " / ", strict (after " ## ")
                            <order>:<dividers>   (cls=- : no vertex classes)
   Parsing/printing (graph6, integers) is hand-written here; everything else is extracted. *)
open Model
open Conv_nat

let graph_of_graph6 (s : string) : bool list list =
  let len = String.length s in
  if len = 0 then failwith "empty graph6";
  let n0 = Char.code s.[0] - 63 in
  let n, s =
    if n0 = 63 then begin
      if len < 4 then failwith "graph6 order";
      let c i = Char.code s.[i] - 63 in
      ((c 1 lsl 12) lor (c 2 lsl 6) lor c 3, String.sub s 3 (len - 3))
    end else (n0, s) in
  if n < 0 || n > 2000 then failwith "graph6 order";
  let a = Array.make_matrix n n false in
  let bit = ref 0 in
  for j = 1 to n - 1 do
    for i = 0 to j - 1 do
      let byte = Char.code s.[1 + !bit / 6] - 63 in
      if (byte lsr (5 - !bit mod 6)) land 1 = 1 then begin a.(i).(j) <- true; a.(j).(i) <- true end;
      incr bit
    done
  done;
  Array.to_list (Array.map Array.to_list a)

let graph6_of_graph (g : bool list list) : string =
  let a = Array.of_list (List.map Array.of_list g) in
  let n = Array.length a in
  let b = Buffer.create 16 in
  if n <= 62 then Buffer.add_char b (Char.chr (n + 63))
  else begin
    Buffer.add_char b '~';
    Buffer.add_char b (Char.chr (((n lsr 12) land 63) + 63));
    Buffer.add_char b (Char.chr (((n lsr 6) land 63) + 63));
    Buffer.add_char b (Char.chr ((n land 63) + 63))
  end;
  let cur = ref 0 and k = ref 0 in
  for j = 1 to n - 1 do
    for i = 0 to j - 1 do
      cur := (!cur lsl 1) lor (if a.(i).(j) then 1 else 0);
      incr k;
      if !k = 6 then begin Buffer.add_char b (Char.chr (!cur + 63)); cur := 0; k := 0 end
    done
  done;
  if !k > 0 then Buffer.add_char b (Char.chr ((!cur lsl (6 - !k)) + 63));
  Buffer.contents b

let ints l = String.concat "," (List.map (fun x -> string_of_int (int_of_nat x)) l)

let show_part (p : (bool * nat list) list) : string =
  let order = List.concat (List.map snd p) in
  let _, divs = List.fold_left (fun (pos, acc) (_, c) -> let e = pos + List.length c in (e, e :: acc)) (0, []) p in
  ints order ^ ":" ^ String.concat "," (List.map string_of_int (List.rev divs))

let show_cells (p : (bool * nat list) list) : string =
  String.concat "|" (List.map (fun (_, c) ->
      String.concat "," (List.map string_of_int (List.sort compare (List.map int_of_nat c)))) p)

let nats (s : string) : nat list =
  if s = "" || s = "-" then [] else List.map (fun t -> nat_of_int (int_of_string t)) (String.split_on_char ',' s)

let after_eq (tok : string) : string =
  let i = String.index tok '=' in String.sub tok (i + 1) (String.length tok - i - 1)

let () =
  try
    while true do
      let line = input_line stdin in
      let out =
        try
          match String.split_on_char ';' line with
          | [mode; g6; rest] ->
            let mode1 = if mode = "" then ' ' else mode.[0] in
            (match mode1 with
             | 'm' ->
               let g = graph_of_graph6 g6 in
               (match canon_graph g with
                | Some c -> graph6_of_graph c
                | None -> "model-out-of-fuel")
             | 'r' ->
               let g = graph_of_graph6 g6 in
               let toks = List.filter (fun s -> s <> "") (String.split_on_char ' ' rest) in
               let cls = ref None and picks = ref [] in
               List.iter (fun t ->
                   if String.length t >= 4 && String.sub t 0 4 = "cls=" then begin
                     let v = after_eq t in
                     if v <> "-" then cls := Some (List.map nats (String.split_on_char '|' v))
                   end else if String.length t >= 6 && String.sub t 0 6 = "picks=" then
                     picks := nats (after_eq t)) toks;
               let p0 = match !cls with
                 | None -> init_part (nat_of_int (List.length g))
                 | Some c -> init_classes c in
               let res = refine_run g p0 !picks in
               (* projected: the cells as sets (members ascending); strict: order and dividers as they are *)
               String.concat " / " (List.map (function Some p -> show_cells p | None -> "model-out-of-fuel") res)
               ^ " ## " ^
               String.concat " / " (List.map (function Some p -> show_part p | None -> "model-out-of-fuel") res)
             | 'o' | 'c' -> "ok"
             | 'x' ->
               (* same validity rule as the harness: the first token names the scenario *)
               (match List.filter (fun s -> s <> "") (String.split_on_char ' ' rest) with
                | ("prov" | "reuse" | "alias" | "hidden") :: _ -> "ok"
                | _ -> "badcase")
             | 'k' ->
               if List.exists (fun t -> String.length t > 4 && String.sub t 0 4 = "cls=" && t <> "cls=-")
                   (String.split_on_char ' ' rest) then "ok" else "badcase"
             | _ -> "badcase")
          | _ -> "badcase"
        with Failure m -> "badcase " ^ m | Not_found -> "badcase" | Invalid_argument _ -> "badcase"
      in
      print_string out; print_newline ()
    done
  with End_of_file -> ()
