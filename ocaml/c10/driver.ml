(* Driver of the extracted references of C10 (coq/Invariants/DistRef.v): reads the case file of
   harness/cmd/c10 on stdin (<graph6>,<level>;<variants>) and prints, for the base graph, the
   values the property determines in the format of that command:
     n m D(distance matrix, -1 = no path) ec di ra cc(components, each ascending, ordered by
     least element) and at level 1 also gi bl(blocks, sorted) ar cy ic ip.
   The graph is handed to the extracted code as a vertex count and an adjacency function over
   an OCaml array (parsing and printing are the only things done here). *)
open Model
open Conv_nat
open Conv_z

let ints sep l = String.concat sep (List.map string_of_int l)
let nats sep l = ints sep (List.map int_of_nat l)
let zs sep l = ints sep (List.map int_of_z l)
let lists l = Printf.sprintf "%d:%s" (List.length l) (String.concat "/" (List.map (ints ".") l))

let from_g6 (s : string) : int * bool array array =
  let n = Char.code s.[0] - 63 in
  let a = Array.make_matrix n n false in
  let pos = ref 0 in
  for j = 1 to n - 1 do
    for i = 0 to j - 1 do
      let b = Char.code s.[1 + !pos / 6] - 63 in
      if (b lsr (5 - !pos mod 6)) land 1 = 1 then begin a.(i).(j) <- true; a.(j).(i) <- true end;
      incr pos
    done
  done;
  (n, a)

(* ---------------------------------------------------------------- large graphs (level 2)
   Case  #<n>:<a>-<b>.<a>-<b>...,2;<tokens>   (token K:<cy>.<icb>.<ipb> = NumberOfCycles called or
   not, bounds of the two bounded counts, -9 = not called).  Everything printed comes from the
   proved models of the Go functions (polynomial on these inputs); distances for a fixed
   sample of pairs, ConnectedComponent for three vertices. *)
let pairs n =
  if n = 0 then [] else
    let srcs = List.sort_uniq compare [0; n / 3; n - 1] in
    let step = max 1 (n / 10) in
    let rec ts t acc = if t >= n then acc else ts (t + step) (t :: acc) in
    let tg = List.sort_uniq compare ((n - 1) :: ts 0 []) in
    List.concat_map (fun s -> List.map (fun t -> (s, t)) tg) srcs
let cvs n = if n = 0 then [] else [0; n / 2; n - 1]

let big (line : string) : string =
  let semi = String.rindex line ';' in
  let head = String.sub line 0 semi in
  let tail = String.sub line (semi + 1) (String.length line - semi - 1) in
  let comma = String.rindex head ',' in
  let spec = String.sub head 1 (comma - 1) in
  let colon = String.index spec ':' in
  let n = int_of_string (String.sub spec 0 colon) in
  let es = String.sub spec (colon + 1) (String.length spec - colon - 1) in
  let a = Array.make_matrix n n false in
  let m = ref 0 in
  List.iter (fun e -> if e <> "" then begin
      let d = String.index e '-' in
      let u = int_of_string (String.sub e 0 d) and v = int_of_string (String.sub e (d + 1) (String.length e - d - 1)) in
      if not a.(u).(v) then incr m;
      a.(u).(v) <- true; a.(v).(u) <- true end) (String.split_on_char '.' es);
  let k = List.fold_left (fun acc t ->
      if String.length t > 2 && t.[0] = 'K' && t.[1] = ':' then
        List.map int_of_string (String.split_on_char '.' (String.sub t 2 (String.length t - 2))) else acc)
      [0; 3; 2] (List.filter (fun t -> t <> "") (String.split_on_char ' ' tail)) in
  let (cyf, icb, ipb) = match k with [c; i; p] -> (c, i, p) | _ -> (0, 3, 2) in
  let nn = Array.init (n + 1) nat_of_int in
  let adj u v = let i = int_of_nat u and j = int_of_nat v in i < n && j < n && a.(i).(j) in
  let g = { gn = nn.(n); gadj = adj } in
  let out f = function Done x -> f x | Panic -> "panic" | Fuel -> "fuel" in
  let zi z = string_of_int (int_of_z z) in
  let dp = String.concat "." (List.map (fun (s, t) -> out zi (distance_go g nn.(s) nn.(t))) (pairs n)) in
  let ec = out (zs ".") (eccentricity_go g) in
  let cc = out (fun cs -> lists (List.sort compare (List.map (List.map int_of_nat) cs))) (connected_components_go g) in
  let cvp = lists (List.map (fun v -> match connected_component_go g nn.(v) with
      | Done c -> List.map int_of_nat c | _ -> [-7]) (cvs n)) in
  let (bl, ar) = match biconnected_components_go g with
    | Done (bl, ar) -> (lists (List.sort compare (List.map (List.map int_of_nat) bl)),
                        ints "." (List.sort compare (List.map int_of_nat ar)))
    | _ -> ("panic", "panic") in
  let cy = if cyf = 1 then out (nats ".") (number_of_cycles_go g) else "-" in
  let ic = if icb = -9 then "-" else Printf.sprintf "%d:%s" icb (out (nats ".") (number_of_induced_cycles_go g (z_of_int icb))) in
  let ip = if ipb = -9 then "-" else Printf.sprintf "%d:%s" ipb (out (nats ".") (number_of_induced_paths_go g (z_of_int ipb))) in
  Printf.sprintf "n=%d m=%d Dp=%s ec=%s di=%s ra=%s cc=%s cvp=%s gm=%s bl=%s ar=%s cy=%s ic=%s ip=%s"
    n !m dp ec (if n <= 70 then out zi (diameter_go g) else "-") (if n <= 70 then out zi (radius_go g) else "-")
    cc cvp (out zi (girth_go g)) bl ar cy ic ip

let () =
  try
    while true do
      let line = input_line stdin in
      if String.length line > 0 && line.[0] = '!' then print_endline "oracle-only"
      else if String.length line > 0 && line.[0] = '#' then print_endline (big line) else begin
      let semi = String.rindex line ';' in
      let head = String.sub line 0 semi in
      let comma = String.rindex head ',' in
      let g6 = String.sub head 0 comma in
      let level = int_of_string (String.sub head (comma + 1) (String.length head - comma - 1)) in
      let (n, a) = from_g6 g6 in
      let m = ref 0 in
      for i = 0 to n - 1 do for j = i + 1 to n - 1 do if a.(i).(j) then incr m done done;
      let adj u v = let i = int_of_nat u and j = int_of_nat v in i < n && j < n && a.(i).(j) in
      let g = { gn = nat_of_int n; gadj = adj } in
      let buf = Buffer.create 256 in
      (* the models of Distance / Eccentricity / Diameter / Radius (proved equal to the
         references; both are run and must agree: "model!=ref" would mean the graph handed over
         is not a simple graph or the build is inconsistent) *)
      let out f = function Done x -> f x | Panic -> "panic" | Fuel -> "fuel" in
      let vs = List.init n nat_of_int in
      let dm = String.concat "/" (List.map (fun u ->
          String.concat "." (List.map (fun v -> out (fun z -> string_of_int (int_of_z z)) (distance_go g u v)) vs)) vs) in
      let ec = out (zs ".") (eccentricity_go g) in
      let di = out (fun z -> string_of_int (int_of_z z)) (diameter_go g) in
      let ra = out (fun z -> string_of_int (int_of_z z)) (radius_go g) in
      let dm' = String.concat "/" (List.map (zs ".") (dist_matrix g)) in
      if dm <> dm' || ec <> zs "." (ecc_ref g) || di <> string_of_int (int_of_z (diam_ref g))
         || ra <> string_of_int (int_of_z (rad_ref g)) then Buffer.add_string buf "model!=ref ";
      (* models of ConnectedComponents (sorted: the order of discovery is not determined) and of
         ConnectedComponent(v) for every v (must be the member of cc that contains v) *)
      let cc_ref = List.map (List.map int_of_nat) (comps_ref g) in
      let cc = match connected_components_go g with
        | Done cs -> lists (List.sort compare (List.map (List.map int_of_nat) cs))
        | Panic -> "panic" | Fuel -> "fuel" in
      (* cv: for every v the position in cc of the list ConnectedComponent(v) returns (-1 when it
         is not a member of cc or does not contain v) *)
      let cc_sorted = match connected_components_go g with
        | Done cs -> List.sort compare (List.map (List.map int_of_nat) cs) | _ -> [] in
      let cv = String.concat "." (List.mapi (fun vi v ->
          match connected_component_go g v with
          | Done c ->
            let c = List.map int_of_nat c in
            if not (List.mem c cc_ref) then Buffer.add_string buf "model!=ref ";
            let rec find k = function [] -> -1 | x :: t -> if x = c && List.mem vi c then k else find (k + 1) t in
            string_of_int (find 0 cc_sorted)
          | _ -> "panic") vs) in
      if cc <> lists cc_ref then Buffer.add_string buf "model!=ref ";
      (* Girth: the model (proved exact, Props/C10_cycles.v: C10_girth_model) gives gm at every
         level; the projected gi at level 1 is the proved reference *)
      let gmodel = out (fun z -> string_of_int (int_of_z z)) (girth_go g) in
      Buffer.add_string buf (Printf.sprintf "n=%d m=%d D=%s ec=%s di=%s ra=%s cc=%s cv=%s gm=%s" n !m dm ec di ra cc cv gmodel);
      if level >= 1 && gmodel <> string_of_int (int_of_z (zgirth g)) then Buffer.add_string buf " girthmodel!=ref";
      (* above the size where the references are affordable the model of BiconnectedComponents is
         still run: it must not panic or run out of fuel *)
      if level < 1 then (match biconnected_components_go g with Done _ -> () | _ -> Buffer.add_string buf " bcmodel-panic");
      if level >= 1 then begin
        let blocks_r = List.sort compare (List.map (List.map int_of_nat) (blocks_ref g)) in
        (* the model of BiconnectedComponents (Invariants/BlockModel.v, proved equal to the
           references in Props/C10_blocks.v): bl / ar of the line are the model's values (blocks
           as a sorted list of sorted lists, articulation vertices sorted); they must equal the
           reference's ("bcmodel!=ref" otherwise, never seen) *)
        let (blocks, arts) = match biconnected_components_go g with
          | Done (bl, ar) ->
            (List.sort compare (List.map (List.map int_of_nat) bl), List.sort compare (List.map int_of_nat ar))
          | _ -> Buffer.add_string buf " bcmodel-panic"; ([], []) in
        if blocks <> blocks_r || arts <> List.map int_of_nat (artic_ref g) then
          Buffer.add_string buf (Printf.sprintf " bcmodel!=ref(bl=%s ar=%s)" (lists blocks_r) (nats "." (artic_ref g)));
        let bounds = List.init (n + 5) (fun k -> z_of_int (k - 2)) in
        (* the bounded references: icycles_bounded_ref g k is by definition
           bounded_counts (icycles_ref g) (eff_bound k n) (and ipaths_bounded_ref likewise with
           n - 1); the full vectors are computed once per graph and shared by all bounds *)
        let ic_full = lazy (icycles_ref g) and ip_full = lazy (ipaths_ref g) in
        let icycles_bounded_ref _ k = bounded_counts (Lazy.force ic_full) (eff_bound k (nat_of_int n)) in
        let ipaths_bounded_ref _ k = bounded_counts (Lazy.force ip_full) (eff_bound k (nat_of_int (max 0 (n - 1)))) in
        (* the model of NumberOfInducedPaths (proved equal to the reference): run for every bound
           when n <= 6 and for the bounds -1, 0, 3 when n = 7 *)
        List.iter (fun k ->
            if n <= 6 || List.mem (int_of_z k) [-1; 0; 3] then
              match number_of_induced_paths_go g k with
              | Done l -> if nats "." l <> nats "." (ipaths_bounded_ref g k) then Buffer.add_string buf " ipmodel!=ref"
              | _ -> Buffer.add_string buf " ipmodel-panic") bounds;
        (* the model of NumberOfInducedCycles (Invariants/CycleICModel.v, proved equal to the
           reference in Props/C10_cycles.v): every bound when n <= 6, the bounds -1, 0, 3, 4 when n = 7; "icmodel!=ref" never seen *)
        List.iter (fun k ->
            if n <= 6 || List.mem (int_of_z k) [-1; 0; 3; 4] then
              match number_of_induced_cycles_go g k with
              | Done l -> if nats "." l <> nats "." (icycles_bounded_ref g k) then Buffer.add_string buf " icmodel!=ref"
              | _ -> Buffer.add_string buf " icmodel-panic") bounds;
        (* the model of NumberOfCycles (Invariants/CycleNCModel.v: Paton's fundamental cycles and
           Gibbs' algorithm per block, on top of the model of BiconnectedComponents): must equal
           the reference ("ncmodel!=ref" never seen).  Gibbs' algorithm keeps all 2^(m-n+1) - 1
           combinations: the model is run when m - n < 12 *)
        if !m - n < 12 then begin
          match number_of_cycles_go g with
          | Done l -> if nats "." l <> nats "." (cycles_ref g) then Buffer.add_string buf " ncmodel!=ref"
          | _ -> Buffer.add_string buf " ncmodel-panic"
        end;
        Buffer.add_string buf (Printf.sprintf " gi=%d bl=%s ar=%s cy=%s ic=%s ip=%s icb=%s ipb=%s"
          (int_of_z (zgirth g)) (lists blocks) (ints "." arts)
          (nats "." (cycles_ref g)) (nats "." (Lazy.force ic_full)) (nats "." (Lazy.force ip_full))
          (String.concat "/" (List.map (fun k -> nats "." (icycles_bounded_ref g k)) bounds))
          (String.concat "/" (List.map (fun k -> nats "." (ipaths_bounded_ref g k)) bounds)))
      end;
      print_endline (Buffer.contents buf ^ " ## gi=" ^ gmodel)
      end
    done
  with End_of_file -> ()
