(* Driver of the extracted model of the pruned search (coq/Canon/SearchModel.v, canon_search):
   reads the case file of harness/cmd/c01s on stdin and prints one observation per line.

     <tag>;<graph6>;<classes>      classes: "-" (nil) or "0,3|1|2,4"

   observation:  cg=<graph6 of the graph relabelled by the returned permutation> orb=<least member
   of the orbit of every vertex>  ##  perm=<p> ds=<raw union-find array> gens=<g>/<g>/...
   "model-panic" / "model-out-of-fuel" when the model returns Panic / Fuel.
   Parsing/printing (graph6, integers) is hand-written here; everything else is extracted. *)
open Model
open Conv_nat
open Conv_z

let graph_of_graph6 (s : string) : bool list list =
  let len = String.length s in
  if len = 0 then failwith "empty graph6";
  let n0 = Char.code s.[0] - 63 in
  let n, s =
    if n0 = 63 then begin
      if len < 4 then failwith "graph6 order";
      let c i = Char.code s.[i] - 63 in
      ((c 1 lsl 12) lor (c 2 lsl 6) lor c 3, String.sub s 3 (len - 3))
    end else (n0, s) in
  if n < 0 || n > 2000 then failwith "graph6 order";
  let a = Array.make_matrix n n false in
  let bit = ref 0 in
  for j = 1 to n - 1 do
    for i = 0 to j - 1 do
      let byte = Char.code s.[1 + !bit / 6] - 63 in
      if (byte lsr (5 - !bit mod 6)) land 1 = 1 then begin a.(i).(j) <- true; a.(j).(i) <- true end;
      incr bit
    done
  done;
  Array.to_list (Array.map Array.to_list a)

let graph6_of_graph (g : bool list list) : string =
  let a = Array.of_list (List.map Array.of_list g) in
  let n = Array.length a in
  let b = Buffer.create 16 in
  if n <= 62 then Buffer.add_char b (Char.chr (n + 63))
  else begin
    Buffer.add_char b '~';
    Buffer.add_char b (Char.chr (((n lsr 12) land 63) + 63));
    Buffer.add_char b (Char.chr (((n lsr 6) land 63) + 63));
    Buffer.add_char b (Char.chr ((n land 63) + 63))
  end;
  let cur = ref 0 and k = ref 0 in
  for j = 1 to n - 1 do
    for i = 0 to j - 1 do
      cur := (!cur lsl 1) lor (if a.(i).(j) then 1 else 0);
      incr k;
      if !k = 6 then begin Buffer.add_char b (Char.chr (!cur + 63)); cur := 0; k := 0 end
    done
  done;
  if !k > 0 then Buffer.add_char b (Char.chr ((!cur lsl (6 - !k)) + 63));
  Buffer.contents b

let ints l = String.concat "," (List.map (fun x -> string_of_int (int_of_nat x)) l)
let zints l = String.concat "," (List.map (fun x -> string_of_int (int_of_z x)) l)

let nats (s : string) : nat list =
  if s = "" || s = "-" then [] else List.map (fun t -> nat_of_int (int_of_string t)) (String.split_on_char ',' s)

(* fuel of the main loop: one unit per node of the pruned tree that is entered *)
let fuel = let rec mk acc i = if i <= 0 then acc else mk (S acc) (i - 1) in mk O 3_000_000

let () =
  try
    while true do
      let line = input_line stdin in
      let out =
        try
          match String.split_on_char ';' line with
          | [_tag; g6; cls] ->
            let g = graph_of_graph6 g6 in
            let classes = if cls = "-" then None else Some (List.map nats (String.split_on_char '|' cls)) in
            (match canon_search fuel g classes with
             | Panic -> "model-panic"
             | Fuel -> "model-out-of-fuel"
             | Ok ((perm, ds), gens) ->
               let cg = graph6_of_graph (relabel g perm) in
               let orb = match labels_of_ds ds with Some l -> ints l | None -> "notforest" in
               Printf.sprintf "cg=%s orb=%s ## perm=%s ds=%s gens=%s" cg orb (ints perm) (zints ds)
                 (String.concat "/" (List.map ints gens)))
          | _ -> "badcase"
        with Failure m -> "badcase " ^ m | Not_found -> "badcase" | Invalid_argument _ -> "badcase"
      in
      print_string out; print_newline ()
    done
  with End_of_file -> ()
