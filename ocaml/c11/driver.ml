(* Driver of the extracted planarity oracle and of the extracted model of IsPlanar (C11): reads
   the case lines of harness/cmd/c11 on stdin and prints, for every graph of the chain of a
   case, `n.m.hash=<t|f|?>:<t|f|panic|fuel|->`.  The second value is the result of the executable
   model of graph.IsPlanar (coq/Planar/DmpModel.v; `-` above model_max vertices).  The first
   value is the specification's answer when it is determined by a proved function:
     - graphs with at most `lim` vertices: the extracted exhaustive search [planar_b];
     - a base graph with a certificate: [check_model_b] (a valid K5 / K3,3 model => non-planar);
     - otherwise the value of the predecessor carried along a transformation under which the
       specification is invariant / monotone (theorems of coq/Props/C11.v), else `?`.
   The transformations are re-implemented here exactly as in harness/cmd/c11/graphs.go; the
   hash of every graph of the chain is printed so that a disagreement is visible. *)
open Model

type gr = { n : int; adj : bool array array }

let new_gr n = { n; adj = Array.make_matrix n n false }
let add g u v = if u <> v then (g.adj.(u).(v) <- true; g.adj.(v).(u) <- true)
let del g u v = g.adj.(u).(v) <- false; g.adj.(v).(u) <- false

let grow g k =
  let h = new_gr (g.n + k) in
  for u = 0 to g.n - 1 do for v = 0 to g.n - 1 do h.adj.(u).(v) <- g.adj.(u).(v) done done;
  h

let edges g =
  let es = ref [] in
  for u = g.n - 1 downto 0 do
    for v = g.n - 1 downto u + 1 do
      if g.adj.(u).(v) then es := (u, v) :: !es
    done
  done;
  !es

let parse_gr (s : string) : gr =
  let i = String.index s ':' in
  let n = int_of_string (String.sub s 0 i) in
  let g = new_gr n in
  let rest = String.sub s (i + 1) (String.length s - i - 1) in
  if rest <> "" then
    List.iter (fun e ->
        let j = String.index e '-' in
        add g (int_of_string (String.sub e 0 j)) (int_of_string (String.sub e (j + 1) (String.length e - j - 1))))
      (String.split_on_char ',' rest);
  g

let hash g =
  List.fold_left (fun h (u, v) -> (h * 1000003 + u * 1009 + v + 1) mod 1073741824) (g.n mod 1073741824) (edges g)

let lcg_perm (seed : int64) (n : int) : int array =
  let p = Array.init n (fun i -> i) in
  let x = ref seed in
  for i = n - 1 downto 1 do
    x := Int64.add (Int64.mul !x 6364136223846793005L) 1442695040888963407L;
    let j = Int64.to_int (Int64.shift_right_logical !x 33) mod (i + 1) in
    let t = p.(i) in p.(i) <- p.(j); p.(j) <- t
  done;
  p

let relabel g p =
  let h = new_gr g.n in
  for u = 0 to g.n - 1 do for v = 0 to g.n - 1 do if g.adj.(u).(v) then h.adj.(p.(u)).(p.(v)) <- true done done;
  h

let remove_vertex g k =
  let h = new_gr (g.n - 1) in
  let idx v = if v > k then v - 1 else v in
  for u = 0 to g.n - 1 do for v = 0 to g.n - 1 do
      if u <> k && v <> k && g.adj.(u).(v) then h.adj.(idx u).(idx v) <- true done done;
  h

(* numbers in tokens are < 2^62 *)
let num s = int_of_string s

let apply (g : gr) (tok : string) : gr * char =
  let kind = tok.[0] in
  let arg = String.sub tok 1 (String.length tok - 1) in
  match kind with
  | 'r' -> (relabel g (lcg_perm (Int64.of_string arg) g.n), kind)
  | 's' ->
    let es = edges g in
    if es = [] then (grow g 0, kind)
    else begin
      let (a, b) = List.nth es (num arg mod List.length es) in
      let h = grow g 1 in
      del h a b; add h a g.n; add h b g.n; (h, kind)
    end
  | 'i' -> (grow g 1, kind)
  | 'p' ->
    let h = grow g 1 in
    if g.n > 0 then add h (num arg mod g.n) g.n;
    (h, kind)
  | 'd' ->
    let es = edges g in
    let h = grow g 0 in
    if es <> [] then begin
      let (a, b) = List.nth es (num arg mod List.length es) in del h a b
    end;
    (h, kind)
  | 'v' -> if g.n = 0 then (grow g 0, kind) else (remove_vertex g (num arg mod g.n), kind)
  | 'a' ->
    let h = grow g 0 in
    if g.n > 0 then begin
      let j = String.index arg ',' in
      let u = num (String.sub arg 0 j) mod g.n and v = num (String.sub arg (j + 1) (String.length arg - j - 1)) mod g.n in
      add h u v
    end;
    (h, kind)
  | 'c' ->
    let es = edges g in
    if es = [] then (grow g 0, kind)
    else begin
      let (a, b) = List.nth es (num arg mod List.length es) in
      let h = grow g 0 in
      for w = 0 to g.n - 1 do if g.adj.(b).(w) && w <> a then add h a w done;
      (remove_vertex h b, kind)
    end
  | _ -> failwith ("bad token " ^ tok)

(* ---- to the extracted types *)
let nat_tbl : nat array =
  let a = Array.make 4096 O in
  for i = 1 to 4095 do a.(i) <- S a.(i - 1) done;
  a
let nat_of_int i = if i < 4096 then nat_tbl.(i) else failwith "graph too large for the driver"

let to_graph (g : gr) : graph =
  { gn = nat_of_int g.n; ge = List.map (fun (u, v) -> (nat_of_int u, nat_of_int v)) (edges g) }

type status = Unknown | Planar | Nonplanar

let propagate st kind =
  match kind with
  | 'r' | 's' | 'i' | 'p' -> st
  | 'd' | 'v' | 'c' -> if st = Planar then Planar else Unknown
  | 'a' -> if st = Nonplanar then Nonplanar else Unknown
  | _ -> Unknown

let oracle_max = 10
(* graphs with more vertices are not given to the model of IsPlanar (second field "-"); the same
   constant is in harness/cmd/c11/main.go *)
let model_max = 200

let () =
  try
    while true do
      let line = input_line stdin in
      let k = String.rindex line ';' in
      let head = List.filter (fun s -> s <> "") (String.split_on_char ' ' (String.sub line 0 k)) in
      let toks = List.filter (fun s -> s <> "") (String.split_on_char ' ' (String.sub line (k + 1) (String.length line - k - 1))) in
      let lim, gtxt, cert =
        match head with
        | l :: _fam :: _truth :: g :: rest ->
          (int_of_string (String.sub l 1 (String.length l - 1)), g, (match rest with c :: _ -> Some c | [] -> None))
        | _ -> failwith "bad case header" in
      let g0 = parse_gr gtxt in
      let decide g = if planar_b (to_graph g) then Planar else Nonplanar in
      let small g = g.n <= lim && g.n <= oracle_max in
      let st0 =
        if small g0 then decide g0
        else match cert with
          | None -> Unknown
          | Some c ->
            let j = String.index c '=' in
            let hname = String.sub c 0 j in
            let sets = List.map (fun s -> List.map (fun x -> nat_of_int (int_of_string x)) (List.filter (fun x -> x <> "") (String.split_on_char '.' s)))
                (String.split_on_char '/' (String.sub c (j + 1) (String.length c - j - 1))) in
            let h = if hname = "K5" then Some k5 else if hname = "K33" then Some k33 else None in
            (match h with
             | Some h when check_model_b h (to_graph g0) sets -> Nonplanar
             | _ -> Unknown) in
      (* second field: the result of the executable model of IsPlanar (coq/Planar/DmpModel.v) *)
      let run_model g =
        if g.n > model_max then "-" else
        match is_planar_model (to_graph g) with
        | RT -> "t" | RF -> "f" | RPanic -> "panic" | RFuel -> "fuel" in
      let show g st =
        Printf.sprintf "%d.%d.%d=%s:%s" g.n (List.length (edges g)) (hash g)
          (match st with Unknown -> "?" | Planar -> "t" | Nonplanar -> "f") (run_model g) in
      let buf = Buffer.create 256 in
      Buffer.add_string buf (show g0 st0);
      let g = ref g0 and st = ref st0 in
      List.iter (fun tok ->
          let (h, kind) = apply !g tok in
          g := h;
          st := (if small h then decide h else propagate !st kind);
          Buffer.add_char buf ' ';
          Buffer.add_string buf (show h !st)) toks;
      print_endline (Buffer.contents buf)
    done
  with End_of_file -> ()
