(* Driver of the extracted model of tsp.LIB; case syntax of harness/cmd/c20:
     n;failspec;kind;w=v,v,...      failspec: none | h0 | h1 | h2 | f<j> | eof
   kind: e/s/c = transient (only that call fails: zero count / short count / full count, all
   with a non-nil error), E/S/C = permanent (that call and all later); w=# = formula weights. *)
open Model
open Conv_nat
open Conv_z

let words = [| "TYPE:"; "TSP"; "DIMENSION:"; "DISPLAY_DATA_TYPE:"; "NO_DISPLAY"; "EDGE_WEIGHT_TYPE:";
               "EXPLICIT"; "EDGE_WEIGHT_FORMAT:"; "LOWER_DIAG_ROW"; "EDGE_WEIGHT_SECTION"; "EOF" |]

let tok = function TWord w -> words.(int_of_nat w) | TNum z -> string_of_z z

let () =
  try
    while true do
      let line = input_line stdin in
      match String.split_on_char ';' line with
      | [ns; failspec; kind; ws] ->
        let n = int_of_string ns in
        let wt =
          if ws = "w=#" then
            (fun i j -> let i = int_of_nat i and j = int_of_nat j in z_of_string (string_of_int ((i * 31 + j * 17) mod 1000 - 500)))
          else
            let vals = Array.of_list (List.map z_of_string
              (List.filter (fun s -> s <> "") (String.split_on_char ',' (String.sub ws 2 (String.length ws - 2))))) in
            (fun i j -> let i = int_of_nat i and j = int_of_nat j in vals.(i * (i - 1) / 2 + j)) in
        (* the model's own chunking: one write per cell and per newline *)
        let chunks (ls : token list list) = nat_of_int (List.fold_left (fun a l -> a + List.length l + 1) 0 ls) in
        let c = int_of_nat (chunks (rows wt (nat_of_int n))) in
        let idx = match failspec with
          | "none" -> -1 | "h0" -> 0 | "h1" -> 1 | "h2" -> 2 | "eof" -> 3 + c
          | s -> let j = int_of_string (String.sub s 1 (String.length s - 1)) in
            if c > 0 then 3 + (j mod c) else 3 + c in
        let permanent = (kind = "E" || kind = "S" || kind = "C") in
        (* the model asks for call indices from, S from, S (S from), ...: convert incrementally
           (physical equality with the previous argument), falling back to the plain conversion *)
        let last_n = ref O and last_i = ref 0 in
        let fast_int k =
          let i = (match k with S p when p == !last_n -> !last_i + 1 | _ -> int_of_nat k) in
          last_n := k; last_i := i; i in
        let w k = let k = fast_int k in
          if idx < 0 then true else if permanent then k < idx else k <> idx in
        let r = lib chunks w (nat_of_int n) wt in
        let dom_ok = List.for_all (fun (i, j) -> let i = int_of_nat i and j = int_of_nat j in 0 <= j && j < i && i < n) r.wcalls in
        let calls =
          if ws = "w=#" then begin
            let sum = ref 0 and k = ref 0 in
            List.iter (fun (i, j) -> let i = int_of_nat i and j = int_of_nat j in
                        sum := (!sum + (i * 1009 + j) * (!k mod 977 + 1)) mod 1000000007; incr k) r.wcalls;
            Printf.sprintf "#=%d:%d" !k !sum end
          else "=" ^ String.concat "," (List.map (fun (i, j) -> Printf.sprintf "%d.%d" (int_of_nat i) (int_of_nat j)) r.wcalls) in
        let lines = if idx < 0 then
            ";lines=" ^ String.concat "/" (List.map (fun l -> String.concat " " (List.map tok l)) (output (nat_of_int n) wt))
          else "" in
        Printf.printf "err=%b;domain_ok=%b%s ## calls%s\n" r.err dom_ok lines calls
      | _ -> print_endline "badcase"
    done
  with End_of_file -> ()
