(* int <-> extracted Peano nat (used only for small, data-independent sizes) *)
open Model
let rec nat_of_int (i : int) : nat = if i <= 0 then O else S (nat_of_int (i - 1))
let int_of_nat (n : nat) : int = let rec go acc = function O -> acc | S m -> go (acc + 1) m in go 0 n
