(* Driver of the extracted model for C12: reads the case lines of harness/cmd/c12 on stdin,
   prints one observation line per case in the format of that command.
   Case:  a=<hex alphabet>,n=<probe length>,p=<hex>.<hex>...;tok tok tok
   where each token is a word in hex ("-" = the empty word), in the order of the Add calls. *)
open Model
open Conv_nat
open Conv_z

let n_of_int (i : int) : n = if i = 0 then N0 else Npos (pos_of_int i)
let int_of_n (x : n) : int = match x with N0 -> 0 | Npos p -> int_of_pos p

let word_of_hex (h : string) : word =
  if h = "-" || h = "" then [] else
    List.init (String.length h / 2) (fun i -> n_of_int (int_of_string ("0x" ^ String.sub h (2 * i) 2)))

let hex_of_word (w : word) : string =
  if w = [] then "-" else String.concat "" (List.map (fun b -> Printf.sprintf "%02x" (int_of_n b)) w)

let split_nonempty c s = List.filter (fun x -> x <> "") (String.split_on_char c s)

(* all strings over alpha of length <= n, by length then in alphabet order *)
let all_probes (alpha : word) (n : int) : word list =
  let rec level k = if k = 0 then [ [] ] else
      let prev = level (k - 1) in
      List.concat_map (fun w -> List.map (fun c -> w @ [c]) alpha) prev in
  List.concat (List.init (n + 1) level)

let big_fuel = let rec mk acc i = if i <= 0 then acc else mk (S acc) (i - 1) in mk O 2000000

let dump (s : store) : string =
  let seen = Hashtbl.create 64 in
  let out = Buffer.create 256 in
  let rec visit (i : n) =
    let k = int_of_n i in
    if not (Hashtbl.mem seen k) then begin
      Hashtbl.add seen k ();
      match sget s i with
      | None -> Buffer.add_string out (Printf.sprintf "%d:dangling|" k)
      | Some nd ->
        Buffer.add_string out (Printf.sprintf "%d:%d:%d:%s:%s|" (int_of_n nd.nid) (int_of_z nd.nwords)
                                 (if nd.nfinal then 1 else 0) (hex_of_word nd.nlabels)
                                 (String.concat "." (List.map (fun x -> string_of_int (int_of_n x)) nd.nkids)));
        List.iter visit nd.nkids
    end in
  visit root;
  Buffer.contents out

let () =
  try
    while true do
      let line = input_line stdin in
      let i = String.index line ';' in
      let header = String.sub line 0 i in
      let toks = split_nonempty ' ' (String.sub line (i + 1) (String.length line - i - 1)) in
      let alpha = ref [] and plen = ref 0 and extra = ref [] and oracle_only = ref false in
      List.iter (fun kv ->
          match String.index_opt kv '=' with
          | None -> ()
          | Some j ->
            let k = String.sub kv 0 j and v = String.sub kv (j + 1) (String.length kv - j - 1) in
            if k = "a" then alpha := word_of_hex v
            else if k = "n" then plen := int_of_string v
            else if k = "o" then oracle_only := (v = "1")
            else if k = "p" then extra := List.map word_of_hex (split_nonempty '.' v))
        (String.split_on_char ',' header);
      (* o=1: a big automaton judged by the harness's own oracles only (minimal_size is quadratic) *)
      if !oracle_only then print_endline "oracle-only" else
      let words = List.map word_of_hex toks in
      let maxlen = List.fold_left (fun m w -> max m (List.length w)) 0 words in
      match add_seq initialise words with
      | Panic -> print_endline "panic"
      | NoFuel -> print_endline "nofuel"
      | Ok (b, flags) ->
        let accepted = List.filter_map (fun (w, ok) -> if ok then Some w else None) (List.combine words flags) in
        (match finish b with
         | Panic -> print_endline "panic"
         | NoFuel -> print_endline "nofuel"
         | Ok None -> print_endline "finish-error"
         | Ok (Some s) ->
           let str_res f = function Ok x -> f x | Panic -> "panic" | NoFuel -> "nofuel" in
           let lk w = str_res (function Some r -> string_of_int (int_of_z r) | None -> "-") (lookup s root w) in
           let ws = words_from (nat_of_int (maxlen + 2)) s root in
           let wl = match ws with Ok l -> l | _ -> [] in
           let words_s = str_res (fun l -> String.concat "," (List.map hex_of_word l)) ws in
           let ranks_s = String.concat "," (List.map lk wl) in
           let nw = str_res (fun z -> string_of_int (int_of_z z)) (number_of_words s root) in
           let mn = int_of_nat (minimal_size accepted) in
           let nodes_s = match number_of_nodes big_fuel s root with
             | Ok k -> if int_of_nat k = mn then string_of_int mn
               else Printf.sprintf "MODEL-NOT-MINIMAL(model=%d,spec=%d)" (int_of_nat k) mn
             | Panic -> "panic" | NoFuel -> "nofuel" in
           let probes = all_probes !alpha !plen @ !extra in
           let lks = String.concat "," (List.map lk probes) in
           (* dawg.New on the whole argument list: an error exactly when the model's new_dawg refuses it *)
           (* when every Add was accepted, new_dawg words = finish b (C12_finish_after_add_sequence,
              kept = the whole list), which is Some here: not recomputed *)
           let new_s = if List.for_all (fun f -> f) flags then "ok" else match new_dawg words with
             | Ok (Some _) -> "ok" | Ok None -> "err" | Panic -> "panic" | NoFuel -> "nofuel" in
           Printf.printf "acc=%s new=%s words=%s ranks=%s nw=%s nodes=%s lk=%s ## reg=%s lastid=%d dump=%s\n"
             (String.concat "" (List.map (fun f -> if f then "1" else "0") flags)) new_s
             words_s ranks_s nw nodes_s lks
             (String.concat "." (List.map (fun x -> string_of_int (int_of_n x)) b.breg))
             (int_of_n b.blastid) (dump s))
    done
  with End_of_file -> ()
