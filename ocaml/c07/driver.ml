(* Driver of the extracted model of graph6 / sparse6 (C07): reads the case file of
   harness/cmd/c07 on stdin and prints one observation per line in the format of that command. *)
open Model
open Conv_nat
open Conv_z

let hex (l : z list) : string =
  String.concat "" (List.map (fun c -> Printf.sprintf "%02x" (int_of_z c)) l)

let split_on c s = List.filter (fun t -> t <> "") (String.split_on_char c s)

let parse_edge (t : string) : int * int =
  match String.split_on_char '-' t with
  | [a; b] -> let a = int_of_string a and b = int_of_string b in if a < b then (b, a) else (a, b)
  | _ -> failwith ("bad edge " ^ t)

(* sorted, duplicate free, loops and out-of-range edges dropped *)
let clean (n : int) (es : (int * int) list) : (int * int) list =
  List.sort_uniq compare (List.filter (fun (v, u) -> u <> v && u >= 0 && v < n) es)

let mk_graph (n : int) (es : (int * int) list) : graph =
  let a = Array.make_matrix (max n 1) (max n 1) false in
  List.iter (fun (v, u) -> a.(v).(u) <- true; a.(u).(v) <- true) es;
  { gn = nat_of_int n;
    gadj = (fun i j -> let i = int_of_nat i and j = int_of_nat j in i < n && j < n && a.(i).(j)) }

let ints l = String.concat "," (List.map string_of_int l)
let edges_text es = String.concat "," (List.map (fun (v, u) -> Printf.sprintf "%d-%d" v u) es)

let descr_of (n : int) (m : int) (deg : int list) (es : (int * int) list) : string =
  Printf.sprintf "%d:%d:%s:%s" n m (ints deg) (edges_text es)

let derived (n : int) (es : (int * int) list) : string =
  let deg = Array.make (max n 0) 0 in
  List.iter (fun (v, u) -> if v < n && u < n then begin deg.(v) <- deg.(v) + 1; deg.(u) <- deg.(u) + 1 end) es;
  descr_of n (List.length es) (Array.to_list deg) es

(* the edges of a triangle bit vector in column order *)
let edges_of_bits (bits : bool list) : (int * int) list =
  let rec go v u bits acc =
    match bits with
    | [] -> List.rev acc
    | b :: r ->
      let acc = if b then (v, u) :: acc else acc in
      if u + 1 = v then go (v + 1) 0 r acc else go v (u + 1) r acc
  in go 1 0 bits []

let dense_res (r : (z * bool list) res) : string =
  match r with
  | Ok (n, bits) -> "ok:" ^ derived (int_of_z n) (edges_of_bits bits)
  | Err -> "err" | Panic -> "panic" | OutOfFuel -> "outoffuel"

let sparse_res (r : (z * (z * z) list) res) : string =
  match r with
  | Ok (n, el) -> "ok:" ^ derived (int_of_z n) (List.map (fun (v, u) -> (int_of_z v, int_of_z u)) el)
  | Err -> "err" | Panic -> "panic" | OutOfFuel -> "outoffuel"

let bytes_of_string (s : string) : z list = List.init (String.length s) (fun i -> z_of_int (Char.code s.[i]))

let spec_text (r : (z * (z * z) list) option) : string =
  match r with
  | None -> "invalid"
  | Some (n, el) -> Printf.sprintf "%d:%s" (int_of_z n) (edges_text (List.map (fun (v, u) -> (int_of_z v, int_of_z u)) el))

let do_graph (n : int) (es : (int * int) list) : string =
  let es = clean n es in
  let g = mk_graph n es in
  let b = Buffer.create 256 in
  (match graph6_encode g with
   | Ok s ->
     Buffer.add_string b (Printf.sprintf "g6=%s;g6d=%s;g6hd=%s" (hex s) (dense_res (graph6_decode s))
                            (dense_res (graph6_decode (bytes_of_string ">>graph6<<" @ s))))
   | _ -> Buffer.add_string b "g6=panic;g6d=na;g6hd=na");
  (match sparse6_encode g with
   | Ok s ->
     Buffer.add_string b (Printf.sprintf ";s6=%s;s6d=%s;s6hd=%s;s6spec=%s" (hex s) (sparse_res (sparse6_decode s))
                            (sparse_res (sparse6_decode (bytes_of_string ">>sparse6<<" @ s)))
                            (spec_text (s6_spec_decode s)))
   | _ -> Buffer.add_string b ";s6=panic;s6d=na;s6hd=na;s6spec=na");
  Buffer.contents b

(* a stub graph: only the header bytes are observed; they are those of the model's header chain *)
let hdr_size n = if n <= 62 then 1 else if n <= 258047 then 4 else 8

let do_stub (n : int) : string =
  let hdr = match enc_size (z_of_int n) with Ok h -> hex h | _ -> "panic" in
  let g6 = if n <= 5000 then (if hdr = "panic" then "panic" else hdr) else "na" in
  let s6 = if hdr = "panic" then "panic" else "3a" ^ hdr in
  Printf.sprintf "g6hdr=%s;s6hdr=%s" g6 s6

let () =
  try
    while true do
      let line = input_line stdin in
      let i = String.index line ';' in
      let head = split_on ' ' (String.sub line 0 i) in
      let toks = split_on ' ' (String.sub line (i + 1) (String.length line - i - 1)) in
      let out =
        match head with
        | ["G"; _; n] -> do_graph (int_of_string n) (List.map parse_edge toks)
        | ["H"; n] -> do_stub (int_of_string n)
        | _ -> "badcase"
      in
      print_endline out
    done
  with End_of_file -> ()
