#!/bin/sh
# MANIFEST.setup_cmd: build the whole framework offline from the files on disk.
set -e
cd "$(dirname "$0")"
export GOFLAGS=-mod=mod GOPROXY=off GOSUMDB=off GOTOOLCHAIN=local
mkdir -p build/bin evidence/replay
# 1. regenerate the source-derived Coq files
if [ -d tools/gotrans ]; then (cd tools/gotrans && timeout 600 go run . -repo /repo -out /verif/coq/Gen all); fi
# 2. discipline: nothing admitted or assumed anywhere in the development
if grep -rnE '\b(Admitted|admit|Axiom|Parameter|Conjecture)\b|Unset Guard|bypass_check|type-in-type' coq --include='*.v' | grep -v '^[^:]*:[0-9]*: *(\*' ; then
  echo "setup: forbidden construct in coq/ (see above)"; exit 1
fi
# 3. full Coq build (.vo, never -vos)
# -k: a file that does not compile must not stop the other properties from being built;
# each check re-makes its own closure and reports a broken obligation itself
(cd coq && ./gen_project.sh && { timeout 7000 make -k -j16 || echo "setup: WARNING some Coq files failed to compile (see above)"; })
# 4. extracted models and their drivers
python3 - <<'PY'
import subprocess, sys
sys.path.insert(0, '.')
from checkcfg import PROPS
done = set()
for pid, cfg in sorted(PROPS.items()):
    d = cfg.get('driver')
    if d and d[0] not in done:
        done.add(d[0])
        print('driver', d[0], flush=True)
        if subprocess.call(['./build_driver.sh', d[0], d[1]] + d[2], cwd='ocaml'):
            print('setup: WARNING driver', d[0], 'failed to build (its check will report it)', flush=True)
PY
# 5. harness commands (against /repo's working tree, hooks on)
(cd harness && for d in cmd/*/; do n=$(basename $d); timeout 1200 go build -tags verif -o ../build/bin/$n ./cmd/$n || echo "setup: WARNING harness $n failed to build"; done)
echo "setup ok"
