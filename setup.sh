#!/bin/sh
# MANIFEST.setup_cmd: build the whole framework offline from the files on disk.
set -e
cd "$(dirname "$0")"
export GOFLAGS=-mod=mod GOPROXY=off GOSUMDB=off GOTOOLCHAIN=local
mkdir -p build/bin evidence/replay
# 1. regenerate the source-derived Coq files
if [ -d tools/gotrans ]; then (cd tools/gotrans && timeout 600 go run . -repo /repo -out /verif/coq/Gen all); fi
# 2. discipline: nothing admitted or assumed anywhere in the development
if grep -rnE '\b(Admitted|admit|Axiom|Parameter|Conjecture)\b|Unset Guard|bypass_check|type-in-type' coq --include='*.v' | grep -v '^[^:]*:[0-9]*: *(\*' ; then
  echo "setup: forbidden construct in coq/ (see above)"; exit 1
fi
# 3. full Coq build (.vo, never -vos)
(cd coq && ./gen_project.sh && timeout 7000 make -j16)
# 4. extracted models and their drivers
python3 - <<'PY'
import subprocess, sys
sys.path.insert(0, '.')
from checkcfg import PROPS
done = set()
for pid, cfg in sorted(PROPS.items()):
    d = cfg.get('driver')
    if d and d[0] not in done:
        done.add(d[0])
        print('driver', d[0], flush=True)
        subprocess.check_call(['./build_driver.sh', d[0], d[1]] + d[2], cwd='ocaml')
PY
# 5. harness commands (against /repo's working tree, hooks on)
(cd harness && timeout 1200 go build -tags verif -o ../build/bin/ ./cmd/...)
echo "setup ok"
