(* C19: the instances, re-checked by computation on the regenerated table. *)
From Coq Require Import List String Bool.
From Mamba Require Import Gen.Effects Effects.Skel Effects.Closure Effects.Flow Effects.Fields Effects.Chan.
Import ListNotations.
Open Scope string_scope.

Definition is_nil {A} (l : list A) : bool := match l with [] => true | _ => false end.

Lemma is_nil_eq {A} (l : list A) : is_nil l = true -> l = [].
Proof. destruct l; [reflexivity | discriminate]. Qed.

(* the translator found the shapes it expects *)
Lemma translation_ok : translation_failed_effects = false.
Proof. vm_compute. reflexivity. Qed.

(* (0) fail closed: the translator understood every construct of every function (no method
   values, reflection, unsafe, cgo, linkname, bodiless or generic functions, unrootable
   assignment targets).  A function with unknown effects breaks this lemma and with it every
   theorem below that is stated through [understood]. *)
Lemma no_unknown_b : forallb (fun f => is_nil (unknown f)) funcs = true.
Proof. vm_compute. reflexivity. Qed.

(* callbacks are called by these functions only (user supplied prune / restriction / weight
   functions: the documented assumption of C19 is about them) *)
Definition callback_users : list string :=
  ["itertools.PermutationsByPatternIterator.Next"; "itertools.RestrictedPrefixPermutationIterator.Next";
   "itertools.RestrictedPrefixProductIterator.Next"; "itertools.TopologicalSortIterator.Next";
   "search.GraphIterator.Next"; "tsp.LIB"].
Lemma callbacks_b :
  forallb (fun f => is_nil (dyncalls f) || mem (fname f) callback_users) funcs = true.
Proof. vm_compute. reflexivity. Qed.

(* (i) no function of the repository assigns a package-level variable, and none starts a goroutine *)
Lemma no_global_writes_b : forallb (fun f => is_nil (gwrites f)) funcs = true.
Proof. vm_compute. reflexivity. Qed.

Lemma no_go_statements_b : forallb (fun f => Nat.eqb (gostmts f) 0) funcs = true.
Proof. vm_compute. reflexivity. Qed.

(* the only package-level variables are the two read-only tables of comb *)
Lemma globals_are_tables : globals = ["comb.maxSizes"; "comb.smallEntries"].
Proof. vm_compute. reflexivity. Qed.

(* (iii) AllMaximalCliques is the only function with channel operations *)
Lemma chan_ops_b :
  forallb (fun f => orb (Nat.eqb (chanops f) 0) (String.eqb (fname f) "graph.AllMaximalCliques")) funcs = true.
Proof. vm_compute. reflexivity. Qed.

(* (ii) read-only queries, by the types written.  Edges: the calls that pass on a possibly
   shared value (scalls); a call on fresh local values cannot write into the caller's shared
   value because, by (i), there is no other channel than the arguments.  Every member of a
   closure must also be free of callbacks, go statements and channel operations. *)
Definition quiet_fn (f : finfo) : bool :=
  is_nil (unknown f) && is_nil (dyncalls f) && is_nil (gwrites f) && Nat.eqb (gostmts f) 0 && Nat.eqb (chanops f) 0.
Definition readonly_fn (forbidden : list string) (f : finfo) : bool := no_swrite_of forbidden f && quiet_fn f.

Definition dawg_queries : list string :=
  ["dawg.Dawg.Lookup"; "dawg.Dawg.Search"; "dawg.Dawg.NumberOfWords"; "dawg.Dawg.GobEncode"].
Definition dawg_types : list string := ["dawg.Dawg"; "append:dawg.Dawg"; "dawg.Builder"; "append:dawg.Builder"].
Definition dawg_closure : list string := Eval vm_compute in grow funcs scalls (List.length funcs) dawg_queries.

Lemma dawg_roots_in : forallb (fun r => mem r dawg_closure) dawg_queries = true.
Proof. vm_compute. reflexivity. Qed.
Lemma dawg_closed : closed funcs scalls dawg_closure = true.
Proof. vm_compute. reflexivity. Qed.
Lemma dawg_readonly_b :
  forallb (fun n => match lookup funcs n with Some info => readonly_fn dawg_types info | None => false end)
          dawg_closure = true.
Proof. vm_compute. reflexivity. Qed.

Definition graph_reps : list string := ["DenseGraph"; "SparseGraph"; "complement"; "inducedSubgraph"].
Definition graph_observers : list string :=
  flat_map (fun t => map (fun m => "graph." ++ t ++ "." ++ m) ["N"; "M"; "IsEdge"; "Neighbours"; "Degrees"]) graph_reps.
Definition graph_types : list string :=
  ["graph.DenseGraph"; "graph.SparseGraph"; "graph.complement"; "graph.inducedSubgraph"; "graph.Graph";
   "sortints.SortedInts"; "[]int"; "[]byte";
   "append:graph.DenseGraph"; "append:graph.SparseGraph"; "append:graph.complement"; "append:graph.inducedSubgraph";
   "append:sortints.SortedInts"; "append:[]int"; "append:[]byte"].
Definition graph_closure : list string := Eval vm_compute in grow funcs scalls (List.length funcs) graph_observers.

Lemma graph_roots_in : forallb (fun r => mem r graph_closure) graph_observers = true.
Proof. vm_compute. reflexivity. Qed.
Lemma graph_closed : closed funcs scalls graph_closure = true.
Proof. vm_compute. reflexivity. Qed.
Lemma graph_readonly_b :
  forallb (fun n => match lookup funcs n with Some info => readonly_fn graph_types info | None => false end)
          graph_closure = true.
Proof. vm_compute. reflexivity. Qed.

Definition comb_queries : list string :=
  ["comb.Coeff"; "comb.CoeffUint64"; "comb.Coeffs"; "comb.Rank"; "comb.Unrank"].
Definition comb_closure : list string := Eval vm_compute in grow funcs calls (List.length funcs) comb_queries.
Definition pure_fn (f : finfo) : bool := is_nil (swrites f) && is_nil (dwrites f) && quiet_fn f.
Lemma comb_roots_in : forallb (fun r => mem r comb_closure) comb_queries = true.
Proof. vm_compute. reflexivity. Qed.
Lemma comb_closed : closed funcs calls comb_closure = true.
Proof. vm_compute. reflexivity. Qed.
Lemma comb_pure_b :
  forallb (fun n => match lookup funcs n with Some info => pure_fn info | None => false end) comb_closure = true.
Proof. vm_compute. reflexivity. Qed.

(* (iv) roots: which receiver / parameter / package-level variable may a function write
   through, transitively over the calls (Effects/Flow.v) *)
Definition W : wtab := Eval vm_compute in wcompute funcs.

Lemma W_closed : wclosed funcs W = true.
Proof. vm_compute. reflexivity. Qed.

Definition is_global_root (r : string) : bool := String.prefix "g:" r.

Lemma W_no_globals_b : forallb (fun p => forallb (fun r => negb (is_global_root r)) (snd p)) W = true.
Proof. vm_compute. reflexivity. Qed.

(* exported functions write through their receiver, through values they allocated themselves,
   and through the following parameters only.  Documented in the API: *)
Definition documented_param_writes : list (string * string) :=
  [ ("dawg.Dawg.Search", "p0")                      (* the searcher: its own state is advanced *)
  ; ("disjoint.Set.FindBuffered", "p1")             (* the caller's scratch buffer *)
  ; ("disjoint.Set.UnionBuffered", "p2")            (* the caller's scratch buffer *)
  ; ("graph.CanonicalIsomorphAllocated", "p3")      (* op: "op, storage and options may be modified" *)
  ; ("graph.CanonicalIsomorphAllocated", "p4")      (* storage *)
  ; ("graph.CanonicalIsomorphAllocated", "p5")      (* options *)
  ; ("graph.Contract", "p0")                        (* edits the EditableGraph in place *)
  ; ("graph.SplitEdge", "p0")                       (* edits the EditableGraph in place *)
  ; ("ints.Add", "p0"); ("ints.Reverse", "p0"); ("ints.Sort", "p0")   (* in place on the slice *)
  ; ("search.GraphIterator.Save", "p0")             (* the io.Writer *)
  ; ("search.Load", "p0")                           (* the io.Reader *)
  ; ("tsp.LIB", "p0")                               (* the io.Writer *)
  (* not a real write: neighbourhoods is rebound to a fresh slice (when nil) before its elements
     are assigned; the analysis is flow-insensitive for containers of references *)
  ; ("graph.NewSparse", "p1") ].

Definition pair_mem (f r : string) (l : list (string * string)) : bool :=
  existsb (fun p => String.eqb (fst p) f && String.eqb (snd p) r) l.

Definition exported_ok (f r : string) : bool :=
  match lookup funcs f with
  | Some info => negb (fexported info) || String.eqb r "recv" || pair_mem f r documented_param_writes
  | None => false
  end.

Lemma W_exported_b : forallb (fun p => forallb (exported_ok (fst p)) (snd p)) W = true.
Proof. vm_compute. reflexivity. Qed.

(* the read-only queries the property names, with the roots they may write through *)
Definition query_spec : list (string * list string) :=
  [("dawg.Dawg.Lookup", []); ("dawg.Dawg.Search", ["p0"]); ("dawg.Dawg.NumberOfWords", []); ("dawg.Dawg.GobEncode", [])]
  ++ map (fun q => (q, [])) graph_observers
  ++ map (fun q => (q, [])) comb_queries
  (* searcher queries and the other read-only API on shared values *)
  ++ map (fun q => (q, []))
       ["dawg.PatternSearcher.AllowStep"; "dawg.PatternSearcher.AllowWord"; "dawg.PatternSearcher.Chosen";
        "dawg.AnagramSearcher.AllowStep"; "dawg.AnagramSearcher.AllowWord"; "dawg.AnagramSearcher.Chosen";
        "graph.Graph6Encode"; "graph.Sparse6Encode"; "graph.MulticodeEncode"; "graph.AdjacencyMatrixEncode"; "graph.PruferEncode";
        "graph.CanonicalIsomorph"; "graph.CanonicalIsomorphFull"; "graph.AllMaximalCliques"; "graph.CliqueNumber";
        "graph.IndependenceNumber"; "graph.ChromaticNumber"; "graph.ChromaticIndex"; "graph.ChromaticPolynomial";
        "graph.GreedyColor"; "graph.IsKColorable"; "graph.IsProperColouring"; "graph.IsPlanar"; "graph.Girth";
        "graph.Diameter"; "graph.Radius"; "graph.Distance"; "graph.Eccentricity"; "graph.Degeneracy";
        "graph.ConnectedComponent"; "graph.ConnectedComponents"; "graph.BiconnectedComponents";
        "graph.NumberOfCycles"; "graph.NumberOfInducedCycles"; "graph.NumberOfInducedPaths";
        "graph.MaxDegree"; "graph.MinDegree"; "graph.Equal"; "graph.Complement"; "graph.ComplementDense";
        "graph.InducedSubgraph"; "graph.LineGraphDense"; "graph.RandomMaximalClique";
        "graph.DenseGraph.Copy"; "graph.DenseGraph.InducedSubgraph"; "graph.SparseGraph.Copy"; "graph.SparseGraph.InducedSubgraph";
        "sortints.Union"; "sortints.Intersection"; "sortints.SetMinus"; "sortints.XOR"; "sortints.IntersectionSize";
        "sortints.Complement"; "sortints.ContainsSorted"; "sortints.ContainsSingle"; "sortints.NewSortedInts";
        "ints.Equal"; "ints.Compare"; "ints.HasPrefix"; "ints.Max"; "ints.Min"; "ints.Sum";
        "disjoint.Set.Roots";
        "search.GraphIterator.Value"; "itertools.CombinationIterator.Value"; "itertools.PermutationIterator.Value";
        "itertools.ProductIterator.Value"; "itertools.PartitionIterator.Value"; "itertools.IntegerPartitionIterator.Value"].

Definition query_ok (q : string * list string) : bool :=
  match lookup funcs (fst q) with
  | Some _ => forallb (fun r => mem r (snd q)) (wget W (fst q))
  | None => false
  end.

Lemma queries_b : forallb query_ok query_spec = true.
Proof. vm_compute. reflexivity. Qed.

(* (iv') fields that keep a caller's slice / map / pointer without copying it (Effects/Fields.v):
   today PatternSearcher.pattern, inducedSubgraph.g and .verts, complement.g, the work stack of
   ChromaticPolynomial and MultisetCombinationIterator.m.  No function writes through any of
   them, so values built from the same argument do not interfere through it. *)
Definition ST : stab := Eval vm_compute in scompute funcs.
Lemma ST_closed : sclosed funcs ST = true.
Proof. vm_compute. reflexivity. Qed.

Definition borrowed_fields : list string := Eval vm_compute in biter funcs documented_param_writes 64 ST [].
Lemma borrowed_closed : bclosed funcs documented_param_writes ST borrowed_fields = true.
Proof. vm_compute. reflexivity. Qed.

(* borrowed fields that are nevertheless written through, by design (none today) *)
Definition documented_borrowed_field_writes : list string := [].

Lemma borrowed_not_written_b :
  fw_ok funcs W (fun tf => negb (mem tf borrowed_fields) || mem tf documented_borrowed_field_writes) = true.
Proof. vm_compute. reflexivity. Qed.

(* (v) the channel *)
Lemma chanskels_b :
  forallb (fun t => match t with (f, _, dn, body) => String.eqb f "graph.AllMaximalCliques" && check_once dn body end)
          chanskels = true.
Proof. vm_compute. reflexivity. Qed.

(* ------------------------------------------------------------------ the lifted statements *)
Theorem all_understood : forall f, In f funcs -> unknown f = [].
Proof.
  intros f Hf. pose proof no_unknown_b as A. rewrite forallb_forall in A. now apply is_nil_eq, A.
Qed.

Theorem callbacks_only_in : forall f, In f funcs -> dyncalls f <> [] -> In (fname f) callback_users.
Proof.
  intros f Hf Hd. pose proof callbacks_b as A. rewrite forallb_forall in A. specialize (A f Hf).
  apply orb_true_iff in A. destruct A as [A|A].
  - apply is_nil_eq in A. contradiction.
  - now apply mem_In.
Qed.

Theorem no_global_writes : forall f, In f funcs -> gwrites f = [] /\ gostmts f = 0.
Proof.
  intros f Hf. pose proof no_global_writes_b as A. pose proof no_go_statements_b as B.
  rewrite forallb_forall in A, B. specialize (A f Hf). specialize (B f Hf). split.
  - now apply is_nil_eq.
  - now apply PeanoNat.Nat.eqb_eq.
Qed.

Theorem dawg_queries_readonly : forall g, Reach funcs scalls dawg_queries g ->
  exists info, lookup funcs g = Some info /\ readonly_fn dawg_types info = true.
Proof. exact (reach_all funcs scalls dawg_queries dawg_closure _ dawg_roots_in dawg_closed dawg_readonly_b). Qed.

Theorem graph_observers_readonly : forall g, Reach funcs scalls graph_observers g ->
  exists info, lookup funcs g = Some info /\ readonly_fn graph_types info = true.
Proof. exact (reach_all funcs scalls graph_observers graph_closure _ graph_roots_in graph_closed graph_readonly_b). Qed.

Theorem comb_functions_pure : forall g, Reach funcs calls comb_queries g ->
  exists info, lookup funcs g = Some info /\ pure_fn info = true.
Proof. exact (reach_all funcs calls comb_queries comb_closure _ comb_roots_in comb_closed comb_pure_b). Qed.

Theorem channels_only_in_cliques : forall f, In f funcs -> chanops f <> 0 -> fname f = "graph.AllMaximalCliques".
Proof.
  intros f Hf Hc. pose proof chan_ops_b as A. rewrite forallb_forall in A. specialize (A f Hf).
  apply orb_true_iff in A. destruct A as [A|A].
  - apply PeanoNat.Nat.eqb_eq in A. contradiction.
  - now apply String.eqb_eq.
Qed.

(* no function writes, even through a chain of calls, through a package-level variable or a
   local alias of one *)
Theorem no_deep_global_writes : forall f r, MayWrite funcs f r -> is_global_root r = false.
Proof.
  intros f r H.
  pose proof (maywrite_all funcs W (fun _ r => negb (is_global_root r)) W_closed W_no_globals_b f r H) as A.
  now apply negb_true_iff.
Qed.

(* an exported function writes only through its receiver or a documented parameter *)
Theorem exported_writes_documented : forall f info r,
  lookup funcs f = Some info -> fexported info = true -> MayWrite funcs f r ->
  r = "recv" \/ In (f, r) documented_param_writes.
Proof.
  intros f info r Hl He H.
  pose proof (maywrite_all funcs W exported_ok W_closed W_exported_b f r H) as A.
  unfold exported_ok in A. rewrite Hl, He in A. cbn [negb orb] in A.
  apply orb_true_iff in A. destruct A as [A|A].
  - left. now apply String.eqb_eq.
  - right. unfold pair_mem in A. apply existsb_exists in A. destruct A as ([f' r'] & Hin & E).
    cbn [fst snd] in E. apply andb_true_iff in E. destruct E as [E1 E2].
    apply String.eqb_eq in E1, E2. now subst.
Qed.

(* a query writes through nothing but the roots listed for it (never its receiver) *)
Theorem queries_write_nothing_shared : forall q allowed r,
  In (q, allowed) query_spec -> MayWrite funcs q r -> In r allowed.
Proof.
  intros q allowed r Hq H. pose proof queries_b as A. rewrite forallb_forall in A.
  specialize (A _ Hq). unfold query_ok in A. cbn [fst snd] in A.
  destruct (lookup funcs q); [|discriminate].
  rewrite forallb_forall in A. apply mem_In. apply A.
  exact (wclosed_sound funcs W W_closed q r H).
Qed.

(* no function writes through a field that may hold memory owned by a caller of the API *)
Theorem borrowed_fields_not_written : forall tf,
  Borrowed funcs documented_param_writes tf -> FieldWritten funcs tf -> In tf documented_borrowed_field_writes.
Proof.
  exact (borrowed_not_written funcs documented_param_writes ST borrowed_fields W documented_borrowed_field_writes
           ST_closed borrowed_closed W_closed borrowed_not_written_b).
Qed.

Lemma query_spec_no_recv : forallb (fun q => negb (mem "recv" (snd q))) query_spec = true.
Proof. vm_compute. reflexivity. Qed.

(* every function with a channel parameter is AllMaximalCliques, and on every path of its body
   that ends normally the channel is closed exactly once and nothing is sent after the close *)
Theorem channel_closed_once : forall f p dn body, In (f, p, dn, body) chanskels ->
  f = "graph.AllMaximalCliques" /\
  forall tr e, Exec body tr e -> e = ENormal \/ e = EReturn ->
    closes (tr ++ repeat EvClose dn) = 1 /\ no_send_after_close (tr ++ repeat EvClose dn).
Proof.
  intros f p dn body Hin. pose proof chanskels_b as A. rewrite forallb_forall in A.
  specialize (A _ Hin). cbn beta iota in A. apply andb_true_iff in A. destruct A as [A1 A2]. split.
  - now apply String.eqb_eq.
  - intros tr e HE He. apply closed_means. exact (check_once_sound dn body A2 tr e HE He).
Qed.
