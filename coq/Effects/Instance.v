(* C19: the instances, re-checked by computation on the regenerated table. *)
From Coq Require Import List String Bool.
From Mamba Require Import Gen.Effects Effects.Closure.
Import ListNotations.
Open Scope string_scope.

(* the translator found the shapes it expects *)
Lemma translation_ok : translation_failed_effects = false.
Proof. vm_compute. reflexivity. Qed.

(* (i) no function of the repository assigns a package-level variable, and none starts a goroutine *)
Lemma no_global_writes_b :
  forallb (fun f => match gwrites f with [] => true | _ => false end) funcs = true.
Proof. vm_compute. reflexivity. Qed.

Lemma no_go_statements_b : forallb (fun f => Nat.eqb (gostmts f) 0) funcs = true.
Proof. vm_compute. reflexivity. Qed.

(* the only package-level variables are the two read-only tables of comb *)
Lemma globals_are_tables : globals = ["comb.maxSizes"; "comb.smallEntries"].
Proof. vm_compute. reflexivity. Qed.

(* (iii) AllMaximalCliques is the only function with channel operations *)
Lemma chan_ops_b :
  forallb (fun f => orb (Nat.eqb (chanops f) 0) (String.eqb (fname f) "graph.AllMaximalCliques")) funcs = true.
Proof. vm_compute. reflexivity. Qed.

(* (ii) read-only queries.  Edges: the calls that pass on a possibly shared value (scalls);
   a call on fresh local values cannot write into the caller's shared value because, by (i),
   there is no other channel than the arguments. *)
Definition dawg_queries : list string :=
  ["dawg.Dawg.Lookup"; "dawg.Dawg.Search"; "dawg.Dawg.NumberOfWords"; "dawg.Dawg.GobEncode"].
Definition dawg_types : list string :=
  ["dawg.Dawg"; "append:dawg.Dawg"; "append:[]*github.com/Tom-Johnston/mamba/dawg.Dawg"].
Definition dawg_closure : list string := Eval vm_compute in grow funcs scalls (List.length funcs) dawg_queries.

Lemma dawg_roots_in : forallb (fun r => mem r dawg_closure) dawg_queries = true.
Proof. vm_compute. reflexivity. Qed.
Lemma dawg_closed : closed funcs scalls dawg_closure = true.
Proof. vm_compute. reflexivity. Qed.
Lemma dawg_readonly_b :
  forallb (fun n => match lookup funcs n with Some info => no_swrite_of dawg_types info | None => false end)
          dawg_closure = true.
Proof. vm_compute. reflexivity. Qed.

Definition graph_observers : list string :=
  flat_map (fun t => map (fun m => "graph." ++ t ++ "." ++ m) ["N"; "M"; "IsEdge"; "Neighbours"; "Degrees"])
           ["DenseGraph"; "SparseGraph"; "complement"; "inducedSubgraph"].
Definition graph_types : list string :=
  ["graph.DenseGraph"; "graph.SparseGraph"; "graph.complement"; "graph.inducedSubgraph"; "graph.Graph";
   "sortints.SortedInts"; "[]int"; "[]byte";
   "append:graph.DenseGraph"; "append:graph.SparseGraph"; "append:sortints.SortedInts"; "append:[]int"; "append:[]byte"].
Definition graph_closure : list string := Eval vm_compute in grow funcs scalls (List.length funcs) graph_observers.

Lemma graph_roots_in : forallb (fun r => mem r graph_closure) graph_observers = true.
Proof. vm_compute. reflexivity. Qed.
Lemma graph_closed : closed funcs scalls graph_closure = true.
Proof. vm_compute. reflexivity. Qed.
Lemma graph_readonly_b :
  forallb (fun n => match lookup funcs n with Some info => no_swrite_of graph_types info | None => false end)
          graph_closure = true.
Proof. vm_compute. reflexivity. Qed.

Definition comb_queries : list string :=
  ["comb.Coeff"; "comb.CoeffUint64"; "comb.Coeffs"; "comb.Rank"; "comb.Unrank"].
Definition comb_closure : list string := Eval vm_compute in grow funcs calls (List.length funcs) comb_queries.
Lemma comb_roots_in : forallb (fun r => mem r comb_closure) comb_queries = true.
Proof. vm_compute. reflexivity. Qed.
Lemma comb_closed : closed funcs calls comb_closure = true.
Proof. vm_compute. reflexivity. Qed.
Lemma comb_pure_b :
  forallb (fun n => match lookup funcs n with
                    | Some info => match gwrites info, swrites info with [], [] => true | _, _ => false end
                    | None => false end) comb_closure = true.
Proof. vm_compute. reflexivity. Qed.

(* the lifted statements *)
Theorem no_global_writes : forall f, In f funcs -> gwrites f = [] /\ gostmts f = 0.
Proof.
  intros f Hf. pose proof no_global_writes_b as A. pose proof no_go_statements_b as B.
  rewrite forallb_forall in A, B. specialize (A f Hf). specialize (B f Hf). split.
  - destruct (gwrites f); [reflexivity | discriminate].
  - now apply PeanoNat.Nat.eqb_eq.
Qed.

Theorem dawg_queries_readonly : forall g, Reach funcs scalls dawg_queries g ->
  exists info, lookup funcs g = Some info /\ no_swrite_of dawg_types info = true.
Proof. exact (reach_all funcs scalls dawg_queries dawg_closure _ dawg_roots_in dawg_closed dawg_readonly_b). Qed.

Theorem graph_observers_readonly : forall g, Reach funcs scalls graph_observers g ->
  exists info, lookup funcs g = Some info /\ no_swrite_of graph_types info = true.
Proof. exact (reach_all funcs scalls graph_observers graph_closure _ graph_roots_in graph_closed graph_readonly_b). Qed.

Theorem comb_functions_pure : forall g, Reach funcs calls comb_queries g ->
  exists info, lookup funcs g = Some info /\
    match gwrites info, swrites info with [], [] => true | _, _ => false end = true.
Proof. exact (reach_all funcs calls comb_queries comb_closure _ comb_roots_in comb_closed comb_pure_b). Qed.

Theorem channels_only_in_cliques : forall f, In f funcs -> chanops f <> 0 -> fname f = "graph.AllMaximalCliques".
Proof.
  intros f Hf Hc. pose proof chan_ops_b as A. rewrite forallb_forall in A. specialize (A f Hf).
  apply orb_true_iff in A. destruct A as [A|A].
  - apply PeanoNat.Nat.eqb_eq in A. contradiction.
  - now apply String.eqb_eq.
Qed.
