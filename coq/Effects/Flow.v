(* C19: which roots may a function write through, transitively.

   The summary gives, per function, the roots it writes through directly ([dwrites]: "recv",
   "p<i>", "g:<pkg>.<var>", ...) and, per call, which caller root each callee root may alias
   ([argflow]).  [MayWrite tbl f r] is the least relation closed under both; a table W that
   passes the boolean check [wclosed] contains it ([wclosed_sound]).  The instances compute a
   candidate W on the regenerated table and check it. *)
From Coq Require Import List String Bool.
From Mamba Require Import Gen.Effects Effects.Closure.
Import ListNotations.
Open Scope string_scope.

Definition wtab := list (string * list string).

Definition wget (W : wtab) (f : string) : list string :=
  match find (fun p => String.eqb (fst p) f) W with Some p => snd p | None => [] end.

Section Flow.
  Variable tbl : list finfo.

  Inductive MayWrite : string -> string -> Prop :=
  | mw_direct f info r : lookup tbl f = Some info -> In r (dwrites info) -> MayWrite f r
  | mw_call f info g q r : lookup tbl f = Some info -> In (g, q, r) (argflow info) ->
      MayWrite g q -> MayWrite f r.

  Definition flow_ok (W : wtab) (f : string) (t : string * string * string) : bool :=
    match t with (g, q, r) => implb (mem q (wget W g)) (mem r (wget W f)) end.

  Definition wclosed (W : wtab) : bool :=
    forallb (fun info => forallb (fun r => mem r (wget W (fname info))) (dwrites info) &&
                         forallb (flow_ok W (fname info)) (argflow info)) tbl.

  Lemma lookup_some f info : lookup tbl f = Some info -> In info tbl /\ fname info = f.
  Proof.
    unfold lookup. intros H. apply find_some in H. destruct H as [H1 H2].
    split; auto. now apply String.eqb_eq.
  Qed.

  Theorem wclosed_sound W : wclosed W = true -> forall f r, MayWrite f r -> In r (wget W f).
  Proof.
    intros HC f r H. unfold wclosed in HC. rewrite forallb_forall in HC.
    induction H as [f info r Hl Hr | f info g q r Hl Hf _ IH].
    - apply lookup_some in Hl. destruct Hl as [Hin <-].
      specialize (HC info Hin). apply andb_true_iff in HC. destruct HC as [HC _].
      rewrite forallb_forall in HC. apply mem_In. auto.
    - apply lookup_some in Hl. destruct Hl as [Hin <-].
      specialize (HC info Hin). apply andb_true_iff in HC. destruct HC as [_ HC].
      rewrite forallb_forall in HC. specialize (HC _ Hf). simpl in HC.
      apply mem_In in IH. rewrite IH in HC. simpl in HC. now apply mem_In.
  Qed.

  (* a candidate, by iteration (no claim is needed about it: [wclosed] is checked on the result) *)
  Definition add (x : string) (l : list string) : list string := if mem x l then l else l ++ [x].

  Definition wstep (W : wtab) : wtab :=
    map (fun info =>
           let f := fname info in
           (f, fold_left (fun acc t => match t with (g, q, r) => if mem q (wget W g) then add r acc else acc end)
                         (argflow info) (fold_left (fun acc r => add r acc) (dwrites info) (wget W f)))) tbl.

  Definition wsize (W : wtab) : nat := fold_left (fun n p => n + List.length (snd p)) W 0.

  Fixpoint witer (fuel : nat) (W : wtab) : wtab :=
    match fuel with
    | O => W
    | S k => let W' := wstep W in if Nat.eqb (wsize W') (wsize W) then W' else witer k W'
    end.

  Definition wcompute : wtab := witer 64 (map (fun info => (fname info, [])) tbl).

  (* every (function, root) pair of the relation satisfies P, if every pair of W does *)
  Corollary maywrite_all W (P : string -> string -> bool) :
    wclosed W = true ->
    forallb (fun p => forallb (P (fst p)) (snd p)) W = true ->
    forall f r, MayWrite f r -> P f r = true.
  Proof.
    intros HC HP f r H. pose proof (wclosed_sound W HC f r H) as Hin.
    unfold wget in Hin. destruct (find (fun p => String.eqb (fst p) f) W) as [p|] eqn:E; [|destruct Hin].
    apply find_some in E. destruct E as [E1 E2]. apply String.eqb_eq in E2.
    rewrite forallb_forall in HP. specialize (HP p E1). rewrite forallb_forall in HP.
    rewrite <- E2. auto.
  Qed.
End Flow.
