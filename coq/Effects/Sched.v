(* C19 — the schedule quantifier, discharged for an abstract machine.

   A sequentially consistent interleaving semantics over a heap of locations: a goroutine is a list of
   atomic operations, each with a read set, a write set and a transition that respects them (its result and
   the new contents of its write set depend only on its footprint, and nothing outside its write set
   changes).  A SCHEDULE is any list of operations tagged with goroutine ids — every interleaving of the
   goroutines [proj i s] is such a list, and every such list is an interleaving of them.

   Theorem (sched_alone): if no operation of one goroutine writes a location in the footprint of another
   goroutine's operation (no conflicting accesses = no data race, statically), then under EVERY schedule
   every goroutine obtains exactly the results it obtains running alone from the initial heap, and leaves
   the locations of its footprint exactly as it would alone.  Shared locations may be read by everybody as
   long as nobody writes them.

   What this is and is not: the heap/footprint machine is an abstraction — that the library's operations
   have the footprints claimed (distinct values own disjoint regions; queries write nothing reachable from
   a shared value; no package-level state is written) is what the regenerated effect summary (Effects/
   Instance.v, Props/C19.v) establishes syntactically, and that race-free Go programs behave sequentially
   consistently is the DRF-SC guarantee of the Go memory model (assumed).  The theorem closes the step in
   between, for all schedules, by induction on the schedule. *)
From Coq Require Import List Arith Bool Lia.
Import ListNotations.

Section Sched.
  Variable val out : Type.
  Definition loc := nat.
  Definition heap := loc -> val.

  Record op := mkOp { run : heap -> heap * out; rd : loc -> bool; wr : loc -> bool }.

  Definition fp (a : op) (l : loc) : bool := rd a l || wr a l.

  (* the transition respects the declared sets *)
  Definition op_ok (a : op) : Prop :=
    (forall h l, wr a l = false -> fst (run a h) l = h l) /\
    (forall h h', (forall l, fp a l = true -> h l = h' l) ->
       snd (run a h) = snd (run a h') /\ forall l, wr a l = true -> fst (run a h) l = fst (run a h') l).

  (* one goroutine alone *)
  Fixpoint exec1 (h : heap) (t : list op) : heap * list out :=
    match t with
    | [] => (h, [])
    | a :: r => let h1 := fst (run a h) in let o := snd (run a h) in
                (fst (exec1 h1 r), o :: snd (exec1 h1 r))
    end.

  (* a schedule: operations tagged with the goroutine that issues them, executed in this order *)
  Fixpoint exec (h : heap) (s : list (nat * op)) : heap * list (nat * out) :=
    match s with
    | [] => (h, [])
    | (i, a) :: r => let h1 := fst (run a h) in let o := snd (run a h) in
                     (fst (exec h1 r), (i, o) :: snd (exec h1 r))
    end.

  Definition proj {X : Type} (i : nat) (s : list (nat * X)) : list X :=
    map snd (filter (fun p => fst p =? i) s).

  Lemma proj_cons_same : forall X i (x : X) s, proj i ((i, x) :: s) = x :: proj i s.
  Proof. intros. unfold proj. simpl. rewrite Nat.eqb_refl. reflexivity. Qed.

  Lemma proj_cons_other : forall X i j (x : X) s, j <> i -> proj i ((j, x) :: s) = proj i s.
  Proof. intros X i j x s H. unfold proj. simpl. apply Nat.eqb_neq in H. rewrite H. reflexivity. Qed.

  Lemma exec_proj : forall i (P : loc -> Prop) s h g,
    (forall j a, In (j, a) s -> op_ok a) ->
    (forall a l, In (i, a) s -> fp a l = true -> P l) ->
    (forall j a l, In (j, a) s -> j <> i -> wr a l = true -> ~ P l) ->
    (forall l, P l -> h l = g l) ->
    proj i (snd (exec h s)) = snd (exec1 g (proj i s)) /\
    forall l, P l -> fst (exec h s) l = fst (exec1 g (proj i s)) l.
  Proof.
    intros i P. induction s as [|[j a] r IH]; intros h g Hok Hin Hout Hag.
    - simpl. split; [reflexivity|exact Hag].
    - assert (Hoka : op_ok a) by (apply (Hok j); left; reflexivity).
      destruct Hoka as [Hframe Hdet].
      assert (Hok' : forall j0 a0, In (j0, a0) r -> op_ok a0) by (intros; eapply Hok; right; eassumption).
      assert (Hin' : forall a0 l, In (i, a0) r -> fp a0 l = true -> P l) by (intros; eapply Hin; [right|]; eassumption).
      assert (Hout' : forall j0 a0 l, In (j0, a0) r -> j0 <> i -> wr a0 l = true -> ~ P l)
        by (intros; eapply Hout; [right| |]; eassumption).
      destruct (Nat.eq_dec j i) as [->|Hne].
      + (* the goroutine itself moves *)
        rewrite proj_cons_same. cbn [exec exec1 fst snd]. rewrite proj_cons_same.
        assert (Hfp : forall l, fp a l = true -> h l = g l).
        { intros l Hl. apply Hag. apply (Hin a l); [left; reflexivity|exact Hl]. }
        destruct (Hdet h g Hfp) as [Ho Hw].
        assert (Hag1 : forall l, P l -> fst (run a h) l = fst (run a g) l).
        { intros l Pl. destruct (wr a l) eqn:W.
          - apply Hw. exact W.
          - rewrite (Hframe h l W), (Hframe g l W). apply Hag. exact Pl. }
        destruct (IH (fst (run a h)) (fst (run a g)) Hok' Hin' Hout' Hag1) as [IHo IHh].
        split; [rewrite Ho, IHo; reflexivity|exact IHh].
      + (* somebody else moves: nothing of P changes *)
        rewrite proj_cons_other by exact Hne. cbn [exec fst snd]. rewrite proj_cons_other by exact Hne.
        assert (Hag1 : forall l, P l -> fst (run a h) l = g l).
        { intros l Pl. destruct (wr a l) eqn:W.
          - exfalso. apply (Hout j a l); [left; reflexivity|exact Hne|exact W|exact Pl].
          - rewrite (Hframe h l W). apply Hag. exact Pl. }
        exact (IH (fst (run a h)) g Hok' Hin' Hout' Hag1).
  Qed.

  (* the locations goroutine i touches in the schedule *)
  Definition tfp (i : nat) (s : list (nat * op)) (l : loc) : Prop :=
    exists a, In (i, a) s /\ fp a l = true.

  (* no conflicting accesses between different goroutines: a write of one never meets a read or write of
     another (reads of shared locations by several goroutines are allowed) *)
  Definition conflict_free (s : list (nat * op)) : Prop :=
    forall i a j b l, In (i, a) s -> In (j, b) s -> i <> j -> wr a l = true -> fp b l = false.

  Theorem sched_alone : forall s h0 i,
    (forall j a, In (j, a) s -> op_ok a) -> conflict_free s ->
    proj i (snd (exec h0 s)) = snd (exec1 h0 (proj i s)) /\
    forall l, tfp i s l -> fst (exec h0 s) l = fst (exec1 h0 (proj i s)) l.
  Proof.
    intros s h0 i Hok Hcf. apply (exec_proj i (tfp i s) s h0 h0 Hok).
    - intros a l Ha Hl. exists a. split; assumption.
    - intros j a l Ha Hne W [b [Hb Fb]]. rewrite (Hcf j a i b l Ha Hb Hne W) in Fb. discriminate.
    - reflexivity.
  Qed.

  (* two schedules of the same goroutines (same projections) give every goroutine the same results *)
  Corollary sched_independent : forall s s' h0 i,
    (forall j a, In (j, a) s -> op_ok a) -> conflict_free s ->
    (forall j a, In (j, a) s' -> op_ok a) -> conflict_free s' ->
    proj i s = proj i s' ->
    proj i (snd (exec h0 s)) = proj i (snd (exec h0 s')).
  Proof.
    intros s s' h0 i Hok Hcf Hok' Hcf' E.
    rewrite (proj1 (sched_alone s h0 i Hok Hcf)), (proj1 (sched_alone s' h0 i Hok' Hcf')), E. reflexivity.
  Qed.

  (* locations nobody writes keep their initial contents under every schedule (a shared finished value) *)
  Lemma exec_frame : forall s h l,
    (forall j a, In (j, a) s -> op_ok a) -> (forall j a, In (j, a) s -> wr a l = false) ->
    fst (exec h s) l = h l.
  Proof.
    induction s as [|[j a] r IH]; intros h l Hok Hw; [reflexivity|].
    cbn [exec fst]. rewrite IH.
    - destruct (Hok j a (or_introl eq_refl)) as [Hframe _]. apply Hframe. apply (Hw j). left. reflexivity.
    - intros; eapply Hok; right; eassumption.
    - intros; eapply Hw; right; eassumption.
  Qed.
End Sched.

(* ---- the shape of C19: every VALUE (an iterator, a builder, a storage, a finished Dawg, a graph) is one
   location holding its whole state; a mutating operation on value v is a state transformer applied to
   location v (footprint {v}); a read-only query on v is a function of the state of v (reads {v}, writes
   nothing).  If every value that is mutated at all is used by ONE goroutine only (its owner), while values
   nobody mutates may be queried by everybody, the schedule is conflict free — so the theorem above applies:
   under every interleaving every goroutine gets what it gets alone. *)
Section Values.
  Variable S R : Type.

  Definition mut_op (v : loc) (f : S -> S * R) : op S R :=
    mkOp S R (fun h => (fun l => if l =? v then fst (f (h v)) else h l, snd (f (h v))))
         (fun l => l =? v) (fun l => l =? v).

  Definition query_op (v : loc) (q : S -> R) : op S R :=
    mkOp S R (fun h => (h, q (h v))) (fun l => l =? v) (fun _ => false).

  Lemma mut_op_ok : forall v f, op_ok S R (mut_op v f).
  Proof.
    intros v f. split.
    - intros h l W. cbn [mut_op run wr fst] in *. rewrite W. reflexivity.
    - intros h h' E. cbn [mut_op run wr fst snd].
      assert (Ev : h v = h' v).
      { apply E. unfold fp. cbn [mut_op rd wr]. rewrite Nat.eqb_refl. reflexivity. }
      rewrite Ev. split; [reflexivity|]. intros l W. rewrite W. reflexivity.
  Qed.

  Lemma query_op_ok : forall v q, op_ok S R (query_op v q).
  Proof.
    intros v q. split.
    - intros h l _. reflexivity.
    - intros h h' E. cbn [query_op run wr fst snd].
      assert (Ev : h v = h' v).
      { apply E. unfold fp. cbn [query_op rd wr]. rewrite Nat.eqb_refl. reflexivity. }
      rewrite Ev. split; [reflexivity|]. intros l W. discriminate.
  Qed.

  (* a schedule in the discipline of C19: [owner v = Some g] — value v belongs to goroutine g, which may
     mutate and query it; [owner v = None] — v is a shared finished value that anybody may query *)
  Inductive disciplined (owner : loc -> option nat) : nat * op S R -> Prop :=
  | d_mut : forall g v f, owner v = Some g -> disciplined owner (g, mut_op v f)
  | d_own_query : forall g v q, owner v = Some g -> disciplined owner (g, query_op v q)
  | d_shared_query : forall g v q, owner v = None -> disciplined owner (g, query_op v q).

  Lemma disciplined_ok : forall owner s, Forall (disciplined owner) s ->
    forall j a, In (j, a) s -> op_ok S R a.
  Proof.
    intros owner s HF j a Hin. rewrite Forall_forall in HF. specialize (HF _ Hin).
    inversion HF; subst; [apply mut_op_ok|apply query_op_ok|apply query_op_ok].
  Qed.

  Lemma disciplined_conflict_free : forall owner s, Forall (disciplined owner) s -> conflict_free S R s.
  Proof.
    intros owner s HF i a j b l Ha Hb Hne W. rewrite Forall_forall in HF.
    pose proof (HF _ Ha) as Da. pose proof (HF _ Hb) as Db.
    inversion Da; subst; cbn [mut_op query_op wr] in W; try discriminate.
    apply Nat.eqb_eq in W. subst l.
    inversion Db; subst; unfold fp; cbn [mut_op query_op rd wr];
      rewrite ?orb_false_r, ?orb_diag; apply Nat.eqb_neq; intros E; subst; congruence.
  Qed.

  Theorem values_alone : forall owner s h0 i, Forall (disciplined owner) s ->
    proj i (snd (exec S R h0 s)) = snd (exec1 S R h0 (proj i s)) /\
    forall l, tfp S R i s l -> fst (exec S R h0 s) l = fst (exec1 S R h0 (proj i s)) l.
  Proof.
    intros owner s h0 i HF.
    exact (sched_alone S R s h0 i (disciplined_ok owner s HF) (disciplined_conflict_free owner s HF)).
  Qed.
End Values.
