(* C19: "the channel it was given is closed exactly once on every path".

   A skeleton (Effects/Skel.v) keeps, of a function body, only the control structure and the
   operations on one channel.  [Exec s tr e]: some execution of s performs the channel events
   tr and leaves s through exit e; conditions are nondeterministic and loops run any number of
   times, so every path of the real body (that does not panic implicitly) is a path here.
   [run] is the three-state automaton Open -> Closed -> Bad (a second close, or a send after the
   close: both panic in Go).  [post] computes, by abstract execution over the automaton states,
   a superset of the (state, exit) pairs; [post_sound] proves that.  The result for the body of
   AllMaximalCliques is then obtained by computation on the regenerated skeleton. *)
From Coq Require Import List Bool.
From Mamba Require Import Effects.Skel.
Import ListNotations.

Inductive event := EvClose | EvSend | EvRecv.
Inductive exit := ENormal | EBreak | EContinue | EReturn | EPanic.
Inductive cs := Open | Closed | Bad.

Definition step (st : cs) (ev : event) : cs :=
  match st, ev with
  | Bad, _ => Bad
  | st, EvRecv => st
  | Open, EvClose => Closed
  | Open, EvSend => Open
  | Closed, EvClose => Bad
  | Closed, EvSend => Bad
  end.

Definition run (st : cs) (tr : list event) : cs := fold_left step tr st.

Lemma run_app st tr1 tr2 : run st (tr1 ++ tr2) = run (run st tr1) tr2.
Proof. unfold run. apply fold_left_app. Qed.

Inductive Exec : cstmt -> list event -> exit -> Prop :=
| ex_skip : Exec CSkip [] ENormal
| ex_close : Exec CClose [EvClose] ENormal
| ex_send : Exec CSend [EvSend] ENormal
| ex_recv : Exec CRecv [EvRecv] ENormal
| ex_return : Exec CReturn [] EReturn
| ex_break : Exec CBreak [] EBreak
| ex_continue : Exec CContinue [] EContinue
| ex_panic : Exec CPanic [] EPanic
| ex_unknown tr e : Exec CUnknown tr e
| ex_seq_stop a b tr e : Exec a tr e -> e <> ENormal -> Exec (CSeq a b) tr e
| ex_seq a b tr1 tr2 e : Exec a tr1 ENormal -> Exec b tr2 e -> Exec (CSeq a b) (tr1 ++ tr2) e
| ex_if_l a b tr e : Exec a tr e -> Exec (CIf a b) tr e
| ex_if_r a b tr e : Exec b tr e -> Exec (CIf a b) tr e
| ex_block_break b tr : Exec b tr EBreak -> Exec (CBlock b) tr ENormal
| ex_block b tr e : Exec b tr e -> e <> EBreak -> Exec (CBlock b) tr e
| ex_loop_done b : Exec (CLoop b) [] ENormal
| ex_loop_break b tr : Exec b tr EBreak -> Exec (CLoop b) tr ENormal
| ex_loop_exit b tr e : Exec b tr e -> e = EReturn \/ e = EPanic -> Exec (CLoop b) tr e
| ex_loop_next b tr1 tr2 e1 e : Exec b tr1 e1 -> e1 = ENormal \/ e1 = EContinue ->
    Exec (CLoop b) tr2 e -> Exec (CLoop b) (tr1 ++ tr2) e.

(* ---- abstract execution *)
Definition cs_eqb (a b : cs) : bool :=
  match a, b with Open, Open | Closed, Closed | Bad, Bad => true | _, _ => false end.
Definition exit_eqb (a b : exit) : bool :=
  match a, b with
  | ENormal, ENormal | EBreak, EBreak | EContinue, EContinue | EReturn, EReturn | EPanic, EPanic => true
  | _, _ => false
  end.

Lemma cs_eqb_eq a b : cs_eqb a b = true <-> a = b.
Proof. destruct a, b; simpl; split; intro H; try reflexivity; discriminate. Qed.

Definition res := (cs * exit)%type.
Definition res_eqb (x y : res) : bool := cs_eqb (fst x) (fst y) && exit_eqb (snd x) (snd y).
Definition memcs (x : cs) (l : list cs) : bool := existsb (cs_eqb x) l.

Lemma memcs_In x l : memcs x l = true <-> In x l.
Proof.
  unfold memcs. rewrite existsb_exists. split.
  - intros (y & Hy & E). apply cs_eqb_eq in E. now subst.
  - intros H. exists x. split; auto. now apply cs_eqb_eq.
Qed.

Definition cs_eq_dec (a b : cs) : {a = b} + {a <> b}.
Proof. decide equality. Defined.
Definition res_eq_dec (a b : res) : {a = b} + {a <> b}.
Proof. decide equality; [destruct b0, e | apply cs_eq_dec]; (left; reflexivity) || (right; discriminate). Defined.

(* evaluate f once per state (the abstract execution of nested loops would otherwise repeat it) *)
Definition memo (f : cs -> list res) : cs -> list res :=
  let a := f Open in let b := f Closed in let c := f Bad in
  fun st => match st with Open => a | Closed => b | Bad => c end.

Lemma memo_eq f st : memo f st = f st.
Proof. destruct st; reflexivity. Qed.

Definition all_cs : list cs := [Open; Closed; Bad].
Definition all_exit : list exit := [ENormal; EBreak; EContinue; EReturn; EPanic].
Definition top : list res := flat_map (fun s => map (fun e => (s, e)) all_exit) all_cs.

Lemma in_top x e : In (x, e) top.
Proof. destruct x, e; simpl; tauto. Qed.

Section Loop.
  Variable f : cs -> list res.       (* abstract execution of the loop body *)

  Definition continues (r : res) : bool :=
    match snd r with ENormal | EContinue => true | _ => false end.

  Definition expand (H : list cs) : list cs :=
    nodup cs_eq_dec (H ++ flat_map (fun h => map fst (filter continues (f h))) H).

  Definition heads_closed (H : list cs) : bool :=
    forallb (fun h => forallb (fun r => implb (continues r) (memcs (fst r) H)) (f h)) H.

  Definition loop_result (H : list cs) : list res :=
    flat_map (fun h => (h, ENormal) ::
                flat_map (fun r => match snd r with
                                   | EBreak => [(fst r, ENormal)]
                                   | EReturn => [(fst r, EReturn)]
                                   | EPanic => [(fst r, EPanic)]
                                   | _ => []
                                   end) (f h)) H.

  Definition loop_post (st : cs) : list res :=
    let H := expand (expand (expand [st])) in
    if heads_closed H && memcs st H then nodup res_eq_dec (loop_result H) else top.
End Loop.

Fixpoint post (s : cstmt) (st : cs) : list res :=
  match s with
  | CSkip => [(st, ENormal)]
  | CClose => [(step st EvClose, ENormal)]
  | CSend => [(step st EvSend, ENormal)]
  | CRecv => [(step st EvRecv, ENormal)]
  | CReturn => [(st, EReturn)]
  | CBreak => [(st, EBreak)]
  | CContinue => [(st, EContinue)]
  | CPanic => [(st, EPanic)]
  | CUnknown => top
  | CSeq a b => nodup res_eq_dec (flat_map (fun r => match snd r with ENormal => post b (fst r) | _ => [r] end) (post a st))
  | CIf a b => nodup res_eq_dec (post a st ++ post b st)
  | CBlock b => map (fun r => (fst r, match snd r with EBreak => ENormal | e => e end)) (post b st)
  | CLoop b => loop_post (memo (post b)) st
  end.

Lemma loop_sound (b : cstmt) (f : cs -> list res)
  (Hf : forall tr e, Exec b tr e -> forall st, In (run st tr, e) (f st)) :
  forall tr e, Exec (CLoop b) tr e ->
  forall Hs, heads_closed f Hs = true -> forall h, In h Hs -> In (run h tr, e) (loop_result f Hs).
Proof.
  intros tr e HE. remember (CLoop b) as s eqn:Es. revert Es.
  induction HE; intros Es; try discriminate; inversion Es; subst; intros Hs HC h Hh.
  - (* done *) unfold loop_result. apply in_flat_map. exists h. split; auto. left. reflexivity.
  - (* break *)
    unfold loop_result. apply in_flat_map. exists h. split; auto.
    right. apply in_flat_map. exists (run h tr, EBreak). split; [now apply Hf|]. simpl. auto.
  - (* return / panic *)
    unfold loop_result. apply in_flat_map. exists h. split; auto.
    right. apply in_flat_map. exists (run h tr, e). split; [now apply Hf|].
    match goal with D : _ = EReturn \/ _ |- _ => destruct D as [-> | ->] end; simpl; auto.
  - (* another iteration *)
    assert (Hin : In (run h tr1) Hs).
    { unfold heads_closed in HC. rewrite forallb_forall in HC. specialize (HC h Hh).
      rewrite forallb_forall in HC. specialize (HC (run h tr1, e1) (Hf _ _ HE1 h)).
      assert (continues (run h tr1, e1) = true) as C
        by (match goal with D : _ = ENormal \/ _ |- _ => destruct D as [-> | ->] end; reflexivity).
      rewrite C in HC. simpl in HC. now apply memcs_In. }
    rewrite run_app. exact (IHHE2 eq_refl Hs HC (run h tr1) Hin).
Qed.

Theorem post_sound : forall s tr e, Exec s tr e -> forall st, In (run st tr, e) (post s st).
Proof.
  induction s; intros tr e HE st; try (inversion HE; subst; simpl; auto; fail).
  - (* CUnknown *) simpl. apply in_top.
  - (* CSeq *)
    inversion HE; subst; simpl; apply nodup_In; apply in_flat_map.
    + exists (run st tr, e). split; [now apply IHs1|]. simpl. destruct e; try (left; reflexivity). contradiction.
    + exists (run st tr1, ENormal). split; [now apply IHs1|]. simpl. rewrite run_app. now apply IHs2.
  - (* CIf *)
    inversion HE; subst; simpl; apply nodup_In; apply in_or_app; [left; now apply IHs1 | right; now apply IHs2].
  - (* CLoop *)
    simpl. unfold loop_post.
    set (f := memo (post s)).
    assert (Hf : forall tr e, Exec s tr e -> forall st, In (run st tr, e) (f st)).
    { intros tr0 e0 H0 st0. unfold f. rewrite memo_eq. now apply IHs. }
    destruct (heads_closed f (expand f (expand f (expand f [st]))) &&
              memcs st (expand f (expand f (expand f [st])))) eqn:C.
    + apply andb_true_iff in C. destruct C as [C1 C2]. apply nodup_In.
      apply (loop_sound s f Hf tr e HE _ C1 st). now apply memcs_In.
    + apply in_top.
  - (* CBlock *)
    inversion HE; subst; simpl; apply in_map_iff.
    + exists (run st tr, EBreak). split; auto.
    + exists (run st tr, e). split; [|now apply IHs]. simpl. destruct e; try reflexivity. contradiction.
Qed.

(* ---- the property *)
(* dn = number of `defer close(c)` at the top of the function: they run at every exit *)
Definition closes_once (dn : nat) (body : cstmt) : Prop :=
  forall tr e, Exec body tr e -> e = ENormal \/ e = EReturn ->
  run Open (tr ++ repeat EvClose dn) = Closed.

Definition check_once (dn : nat) (body : cstmt) : bool :=
  forallb (fun r => match snd r with
                    | ENormal | EReturn => cs_eqb (run (fst r) (repeat EvClose dn)) Closed
                    | _ => true
                    end) (post body Open).

Theorem check_once_sound dn body : check_once dn body = true -> closes_once dn body.
Proof.
  intros HC tr e HE He. unfold check_once in HC. rewrite forallb_forall in HC.
  specialize (HC _ (post_sound body tr e HE Open)). simpl in HC. rewrite run_app.
  destruct He as [-> | ->]; now apply cs_eqb_eq.
Qed.

(* what the automaton's Closed state means on the trace itself *)
Fixpoint closes (tr : list event) : nat :=
  match tr with [] => 0 | EvClose :: t => S (closes t) | _ :: t => closes t end.

(* no send (and no close) after the first close *)
Fixpoint quiet (tr : list event) : Prop :=
  match tr with [] => True | EvRecv :: t => quiet t | _ :: _ => False end.
Fixpoint no_send_after_close (tr : list event) : Prop :=
  match tr with
  | [] => True
  | EvClose :: t => quiet t
  | _ :: t => no_send_after_close t
  end.

Lemma run_bad tr : run Bad tr = Bad.
Proof. induction tr as [|ev t IH]; simpl; auto. Qed.

Lemma run_closed tr : run Closed tr = Closed -> closes tr = 0 /\ quiet tr.
Proof.
  induction tr as [|ev t IH]; simpl; intros H; auto.
  destruct ev; simpl in H.
  - change (run Bad t = Closed) in H. rewrite run_bad in H. discriminate.
  - change (run Bad t = Closed) in H. rewrite run_bad in H. discriminate.
  - exact (IH H).
Qed.

Theorem closed_means tr : run Open tr = Closed -> closes tr = 1 /\ no_send_after_close tr.
Proof.
  induction tr as [|ev t IH]; simpl; intros H; [discriminate|].
  destruct ev; simpl in H.
  - change (run Closed t = Closed) in H. apply run_closed in H. destruct H as [H1 H2]. rewrite H1. auto.
  - exact (IH H).
  - exact (IH H).
Qed.
