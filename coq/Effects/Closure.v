(* C19: reasoning over the regenerated effect summary (coq/Gen/Effects.v).

   The summary lists, for every function of the repository, the package-level variables it
   assigns, the types through which it writes into values shared with its caller, and its call
   edges.  This file proves, once and for all, that a *checked* closed set over-approximates
   call-graph reachability; the instances are then closed by computation on the table that
   gotrans regenerated from the current source. *)
From Coq Require Import List String Bool.
From Mamba Require Import Gen.Effects.
Import ListNotations.
Open Scope string_scope.

Definition lookup (tbl : list finfo) (name : string) : option finfo :=
  find (fun f => String.eqb (fname f) name) tbl.

Definition mem (x : string) (l : list string) : bool := existsb (String.eqb x) l.

Lemma mem_In x l : mem x l = true <-> In x l.
Proof.
  unfold mem. rewrite existsb_exists. split.
  - intros (y & Hy & E). apply String.eqb_eq in E. now subst.
  - intros H. exists x. split; auto. apply String.eqb_refl.
Qed.

(* reachability along an edge relation given by the table *)
Section Reach.
  Variable tbl : list finfo.
  Variable edges : finfo -> list string.

  Inductive Reach (roots : list string) : string -> Prop :=
  | reach_root r : In r roots -> Reach roots r
  | reach_step f g info : Reach roots f -> lookup tbl f = Some info -> In g (edges info) ->
      Reach roots g.

  (* S is closed: every member is a known function and all its edges stay inside S *)
  Definition closed (S : list string) : bool :=
    forallb (fun n => match lookup tbl n with
                      | Some info => forallb (fun c => mem c S) (edges info)
                      | None => false
                      end) S.

  Theorem closed_sound roots S :
    forallb (fun r => mem r S) roots = true -> closed S = true ->
    forall g, Reach roots g -> In g S.
  Proof.
    intros HR HC g H. induction H as [r Hr | f g info Hf IH Hl Hg].
    - rewrite forallb_forall in HR. apply mem_In. auto.
    - unfold closed in HC. rewrite forallb_forall in HC. specialize (HC f IH).
      rewrite Hl in HC. rewrite forallb_forall in HC. apply mem_In. auto.
  Qed.

  (* a candidate closed set, computed by iteration (no correctness claim is needed for it:
     [closed] is checked on the result) *)
  Fixpoint grow (fuel : nat) (S : list string) : list string :=
    match fuel with
    | O => S
    | Datatypes.S k =>
      let new := flat_map (fun n => match lookup tbl n with
                                    | Some info => filter (fun c => negb (mem c S)) (edges info)
                                    | None => []
                                    end) S in
      match new with
      | [] => S
      | _ => grow k (S ++ nodup string_dec new)
      end
    end.

  (* every function in a closed superset of the roots satisfies P  =>  every reachable one does *)
  Corollary reach_all roots S (P : finfo -> bool) :
    forallb (fun r => mem r S) roots = true -> closed S = true ->
    forallb (fun n => match lookup tbl n with Some info => P info | None => false end) S = true ->
    forall g, Reach roots g -> exists info, lookup tbl g = Some info /\ P info = true.
  Proof.
    intros HR HC HP g H. pose proof (closed_sound roots S HR HC g H) as Hin.
    rewrite forallb_forall in HP. specialize (HP g Hin).
    destruct (lookup tbl g) as [info|]; [|discriminate]. exists info; auto.
  Qed.
End Reach.

Definition no_swrite_of (forbidden : list string) (f : finfo) : bool :=
  forallb (fun w => negb (mem w forbidden)) (swrites f).
