(* C19: fields that hold memory owned by the caller.

   A constructor that keeps a slice / map / pointer argument without copying it (x.f = p,
   T{f: p}) makes two values built from the same argument share that memory: "separate"
   iterators then interfere as soon as any method writes through the field.  The summary
   records, per function, [fieldalias] (field, own root stored into it), [fieldflow] (field,
   field the stored value was read through), [fwrites] (fields written through) and [fargflow]
   (callee, callee root, field an argument was reached through).

   [MayStore f r tf]: calling f may store into field tf a reference aliasing f's root r
   (transitively over the calls).  [Borrowed doc tf]: tf may hold memory owned by a caller of
   the exported API -- stored from a parameter of an exported function that is not documented
   as written (doc), or from a foreign root (global, callback result, channel), or copied from
   a borrowed field.  [FieldWritten tf]: some function writes through tf, directly or by
   handing it to a callee that writes the corresponding parameter.  Tables passing the boolean
   checks contain these relations. *)
From Coq Require Import List String Bool.
From Mamba Require Import Gen.Effects Effects.Closure Effects.Flow.
Import ListNotations.
Open Scope string_scope.

Definition stab := list (string * list (string * string)).   (* function -> (root, field) *)

Definition sget (S : stab) (f : string) : list (string * string) :=
  match find (fun p => String.eqb (fst p) f) S with Some p => snd p | None => [] end.

Definition pmem (x : string * string) (l : list (string * string)) : bool :=
  existsb (fun y => String.eqb (fst x) (fst y) && String.eqb (snd x) (snd y)) l.

Lemma pmem_In x l : pmem x l = true <-> In x l.
Proof.
  unfold pmem. rewrite existsb_exists. split.
  - intros (y & Hy & E). apply andb_true_iff in E. destruct E as [E1 E2].
    apply String.eqb_eq in E1, E2. destruct x, y. simpl in *. now subst.
  - intros H. exists x. split; auto. now rewrite !String.eqb_refl.
Qed.

Definition param_root (r : string) : bool := String.eqb r "recv" || String.prefix "p" r.

Section Fields.
  Variable tbl : list finfo.
  Variable doc : list (string * string).       (* (exported function, parameter) documented as written *)

  Inductive MayStore : string -> string -> string -> Prop :=
  | ms_direct f info tf r : lookup tbl f = Some info -> In (tf, r) (fieldalias info) -> MayStore f r tf
  | ms_call f info g q r tf : lookup tbl f = Some info -> In (g, q, r) (argflow info) ->
      MayStore g q tf -> MayStore f r tf.

  Definition sflow_ok (S : stab) (f : string) (t : string * string * string) : bool :=
    match t with (g, q, r) =>
      forallb (fun e => implb (String.eqb (fst e) q) (pmem (r, snd e) (sget S f))) (sget S g) end.

  Definition sclosed (S : stab) : bool :=
    forallb (fun info => forallb (fun p => pmem (snd p, fst p) (sget S (fname info))) (fieldalias info) &&
                         forallb (sflow_ok S (fname info)) (argflow info)) tbl.

  Theorem sclosed_sound S : sclosed S = true -> forall f r tf, MayStore f r tf -> In (r, tf) (sget S f).
  Proof.
    intros HC f r tf H. unfold sclosed in HC. rewrite forallb_forall in HC.
    induction H as [f info tf r Hl Hr | f info g q r tf Hl Hf _ IH].
    - apply (lookup_some tbl) in Hl. destruct Hl as [Hin <-].
      specialize (HC info Hin). apply andb_true_iff in HC. destruct HC as [HC _].
      rewrite forallb_forall in HC. apply pmem_In. exact (HC _ Hr).
    - apply (lookup_some tbl) in Hl. destruct Hl as [Hin <-].
      specialize (HC info Hin). apply andb_true_iff in HC. destruct HC as [_ HC].
      rewrite forallb_forall in HC. specialize (HC _ Hf). unfold sflow_ok in HC.
      rewrite forallb_forall in HC. specialize (HC _ IH). cbn [fst snd] in HC.
      rewrite String.eqb_refl in HC. simpl in HC. now apply pmem_In.
  Qed.

  (* candidate by iteration *)
  Definition padd (x : string * string) (l : list (string * string)) := if pmem x l then l else (l ++ [x])%list.

  Definition sstep (S : stab) : stab :=
    map (fun info =>
           let f := fname info in
           (f, fold_left (fun acc t => match t with (g, q, r) =>
                            fold_left (fun acc e => if String.eqb (fst e) q then padd (r, snd e) acc else acc) (sget S g) acc end)
                         (argflow info)
                         (fold_left (fun acc p => padd (snd p, fst p) acc) (fieldalias info) (sget S f)))) tbl.

  Definition ssize (S : stab) : nat := fold_left (fun n p => n + List.length (snd p)) S 0.

  Fixpoint siter (fuel : nat) (S : stab) : stab :=
    match fuel with
    | O => S
    | Datatypes.S k => let S' := sstep S in if Nat.eqb (ssize S') (ssize S) then S' else siter k S'
    end.

  Definition scompute : stab := siter 64 (map (fun info => (fname info, [])) tbl).

  (* ---- borrowed fields *)
  Definition api_store (f r : string) : bool :=
    match lookup tbl f with
    | Some info => negb (param_root r) ||
                   (fexported info && negb (String.eqb r "recv") && negb (pmem (f, r) doc))
    | None => false
    end.

  Inductive Borrowed : string -> Prop :=
  | bo_store f r tf : MayStore f r tf -> api_store f r = true -> Borrowed tf
  | bo_flow info tf tf' : In info tbl -> In (tf, tf') (fieldflow info) -> Borrowed tf' -> Borrowed tf.

  Definition bclosed (S : stab) (B : list string) : bool :=
    forallb (fun p => forallb (fun e => implb (api_store (fst p) (fst e)) (mem (snd e) B)) (snd p)) S &&
    forallb (fun info => forallb (fun p => implb (mem (snd p) B) (mem (fst p) B)) (fieldflow info)) tbl.

  Lemma sget_in S f e : In e (sget S f) -> exists p, In p S /\ fst p = f /\ In e (snd p).
  Proof.
    unfold sget. destruct (find (fun p => String.eqb (fst p) f) S) as [p|] eqn:E; [|intros []].
    intros H. apply find_some in E. destruct E as [E1 E2]. apply String.eqb_eq in E2. exists p. auto.
  Qed.

  Theorem bclosed_sound S B : sclosed S = true -> bclosed S B = true -> forall tf, Borrowed tf -> In tf B.
  Proof.
    intros HS HB tf H. apply andb_true_iff in HB. destruct HB as [HB1 HB2].
    rewrite forallb_forall in HB1, HB2.
    induction H as [f r tf Hm Ha | info tf tf' Hin Hf _ IH].
    - pose proof (sclosed_sound S HS f r tf Hm) as Hi. apply sget_in in Hi.
      destruct Hi as (p & Hp & <- & He). specialize (HB1 p Hp). rewrite forallb_forall in HB1.
      specialize (HB1 _ He). cbn [fst snd] in HB1. rewrite Ha in HB1. simpl in HB1. now apply mem_In.
    - specialize (HB2 info Hin). rewrite forallb_forall in HB2. specialize (HB2 _ Hf). cbn [fst snd] in HB2.
      apply mem_In in IH. rewrite IH in HB2. simpl in HB2. now apply mem_In.
  Qed.

  Definition bstep (S : stab) (B : list string) : list string :=
    let B1 := fold_left (fun acc p => fold_left (fun acc e => if api_store (fst p) (fst e) then add (snd e) acc else acc) (snd p) acc) S B in
    fold_left (fun acc info => fold_left (fun acc p => if mem (snd p) acc then add (fst p) acc else acc) (fieldflow info) acc) tbl B1.

  Fixpoint biter (fuel : nat) (S : stab) (B : list string) : list string :=
    match fuel with
    | O => B
    | Datatypes.S k => let B' := bstep S B in if Nat.eqb (List.length B') (List.length B) then B' else biter k S B'
    end.

  (* ---- fields written through *)
  Inductive FieldWritten : string -> Prop :=
  | fw_direct info tf : In info tbl -> In tf (fwrites info) -> FieldWritten tf
  | fw_call info g q tf : In info tbl -> In (g, q, tf) (fargflow info) -> MayWrite tbl g q -> FieldWritten tf.

  Definition fw_ok (W : wtab) (ok : string -> bool) : bool :=
    forallb (fun info => forallb ok (fwrites info) &&
                         forallb (fun t => match t with (g, q, tf) => implb (mem q (wget W g)) (ok tf) end) (fargflow info)) tbl.

  Theorem fw_ok_sound W ok : wclosed tbl W = true -> fw_ok W ok = true ->
    forall tf, FieldWritten tf -> ok tf = true.
  Proof.
    intros HW HO tf H. unfold fw_ok in HO. rewrite forallb_forall in HO.
    destruct H as [info tf Hin Hf | info g q tf Hin Hf Hm].
    - specialize (HO info Hin). apply andb_true_iff in HO. destruct HO as [HO _].
      rewrite forallb_forall in HO. auto.
    - specialize (HO info Hin). apply andb_true_iff in HO. destruct HO as [_ HO].
      rewrite forallb_forall in HO. specialize (HO _ Hf). simpl in HO.
      pose proof (wclosed_sound tbl W HW g q Hm) as Hi. apply mem_In in Hi. rewrite Hi in HO. exact HO.
  Qed.

  (* no borrowed field is written through, except the allowed ones *)
  Theorem borrowed_not_written S B W (allowed : list string) :
    sclosed S = true -> bclosed S B = true -> wclosed tbl W = true ->
    fw_ok W (fun tf => negb (mem tf B) || mem tf allowed) = true ->
    forall tf, Borrowed tf -> FieldWritten tf -> In tf allowed.
  Proof.
    intros HS HB HW HO tf Hb Hw.
    pose proof (fw_ok_sound W _ HW HO tf Hw) as A. simpl in A.
    pose proof (bclosed_sound S B HS HB tf Hb) as Hi. apply mem_In in Hi. rewrite Hi in A. simpl in A.
    now apply mem_In.
  Qed.
End Fields.
