(* C19: skeleton of a function body with respect to one channel (emitted by tools/gotrans for
   every function with a channel-typed parameter; see Effects/Chan.v for its meaning).
   Definitions only; Gen/Effects.v imports this file. *)

Inductive cstmt : Set :=
| CSkip                       (* anything that does not touch the channel *)
| CClose                      (* close(c) *)
| CSend                       (* c <- v *)
| CRecv                       (* <-c *)
| CReturn
| CBreak
| CContinue
| CPanic                      (* an explicit panic(...) *)
| CUnknown                    (* a use of the channel the translator does not understand: anything may happen *)
| CSeq (a b : cstmt)
| CIf (a b : cstmt)           (* nondeterministic choice (if/else, switch and select clauses) *)
| CLoop (b : cstmt)           (* for / range: zero or more iterations; break and continue bind here *)
| CBlock (b : cstmt).         (* switch / select body: break binds here *)
