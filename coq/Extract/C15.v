From Coq Require Import Extraction ExtrOcamlBasic.
From Mamba Require Import Iter.Model.
Extraction Language OCaml.
Extraction "model.ml"
  product_init product_next product_value
  comb_init comb_next comb_value
  colex_init colex_next colex_value
  mcomb_init mcomb_next mcomb_value mcomb_freq
  heap_init heap_next heap_value
  lexperm_init mperm_init lexperm_next lexperm_value
  parts_init parts_next parts_value parts_rgs
  intparts_init intparts_next intparts_value
  rpprod_init rpprod_init_with rpprod_next rpprod_value
  rpperm_init rpperm_init_with rpperm_next rpperm_value
  pattern_init pattern_init_with pattern_next pattern_value
  topo_init topo_next topo_value topo_inverse.
