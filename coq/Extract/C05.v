From Coq Require Import Extraction ExtrOcamlBasic.
From Mamba Require Import Graph.Model.
Extraction Language OCaml.
Extraction "model.ml" op_validb a_empty a_step a_N a_M a_is_edge a_neighbours a_degrees
  d_empty d_step d_N d_M d_is_edge d_neighbours d_degrees
  s_empty s_step s_N s_M s_is_edge s_neighbours s_degrees run.
