From Coq Require Import Extraction ExtrOcamlBasic.
From Mamba Require Import Canon.Perm Canon.Iso Canon.Model.
Extraction Language OCaml.
Extraction "model.ml" is_perm relabel simpleb init_part init_classes refine indiv_at refine_run all_leaves canon_ref canon_graph verts.
