From Coq Require Import Extraction ExtrOcamlBasic.
From Mamba Require Import Dawg.Model Dawg.Tree Dawg.SearchModel Dawg.SearchSpec.
Extraction Language OCaml.
Extraction "model.ml" new_dawg root sget search_c new_searchers new_anagram_searcher_from
  check_wf tlang search_fuel.
