From Coq Require Import Extraction ExtrOcamlBasic.
From Mamba Require Import Canon.AutBase Canon.Aut Canon.Group Canon.Orbit Canon.GroupOrder Canon.AutCheck Canon.GroupEdgeless Canon.AutReset.
Extraction Language OCaml.
Extraction "model.ml" adj_of cls_of is_automorphism labels_of_ds orbits_of group_order
  aut_bruteforce check_full check_partial edgeless_gens edgeless_ds
  AutReset.reset AutReset.new_op AutReset.visible AutReset.isort.
