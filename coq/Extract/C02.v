From Coq Require Import Extraction ExtrOcamlBasic.
From Mamba Require Import Canon.AutBase Canon.Aut Canon.Group Canon.Orbit Canon.GroupOrder Canon.AutCheck.
Extraction Language OCaml.
Extraction "model.ml" adj_of cls_of is_automorphism labels_of_ds orbits_of group_order
  aut_bruteforce check_full check_partial.
