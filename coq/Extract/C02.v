From Coq Require Import Extraction ExtrOcamlBasic.
(* definitions only: the extraction does not depend on any proof file of the area *)
From Mamba Require Import Canon.AutModel.
From Mamba Require Canon.AutResetModel.
Extraction Language OCaml.
Extraction "model.ml" adj_of cls_of is_automorphism labels_of_ds orbits_of group_order
  aut_bruteforce check_full check_partial edgeless_gens edgeless_ds
  AutResetModel.reset AutResetModel.new_op AutResetModel.visible AutResetModel.isort.
