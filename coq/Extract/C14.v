From Coq Require Import Extraction ExtrOcamlBasic.
From Mamba Require Import Dawg.Model Dawg.Spec Dawg.CodecModel.
Extraction Language OCaml.
Extraction "model.ml" new_dawg lookup number_of_words number_of_nodes words_from sget root
  encode_u64 decode_u64 gob_encode gob_decode zero_node pat_match wf_checkb.
