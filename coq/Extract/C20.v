From Coq Require Import Extraction ExtrOcamlBasic.
From Mamba Require Import Tsp.Model.
Extraction Language OCaml.
Extraction "model.ml" lib output rows calls.
