From Coq Require Import Extraction ExtrOcamlBasic.
From Mamba Require Import Sortints.Base Sortints.Model IntSort.Model.
Extraction Language OCaml.
Extraction "model.ml" isize union set_minus intersection xor contains_sorted contains_single
  complement range new_sorted_ints add add_m remove_m union_m view fresh mstep mrun
  sort heap_sort insertion_sort do_pivot isort.
