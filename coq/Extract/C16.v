From Coq Require Import Extraction ExtrOcamlBasic ZArith.
From Mamba Require Import Gen.CombTables Comb.Model Comb.Spec.
Extraction Language OCaml.
Extraction "model.ml" coeff_u64 coeff coeffs rank unrank
  coeff_u64_meets_spec coeff_meets_spec coeffs_meets_spec rank_meets_spec unrank_meets_spec
  fast_binom binom_small tables_ok translation_failed_comb maxInt two64 two63
  Z.add Z.mul Z.sub Z.div_eucl Z.compare Z.leb Z.ltb Z.eqb Z.min.
