From Coq Require Import Extraction ExtrOcamlBasic.
From Mamba Require Import Codec.Model Codec.Spec.
Extraction Language OCaml.
Extraction "model.ml" graph6_encode graph6_decode sparse6_encode sparse6_decode
  strip hdr_sparse6 in_range spec_read_N.
