From Coq Require Import Extraction ExtrOcamlBasic.
From Mamba Require Import Graph.Model Graph.CtorModel Graph.CtorDecodeModel Graph.CtorSpec.
Extraction Language OCaml.
Extraction "model.ml" new_dense new_sparse complete_graph complete_partite path cycle star
  flower_snark hypercube folded_hypercube kneser bipartite_kneser circulant circulant_bipartite
  generalised_petersen friendship random_graph random_tree prufer_decode multicode_decode
  induced_view g_N g_M g_degrees g_neighbours g_is_edge complement_dense line_graph rook
  split_edge contract e_val add_edges sparse_of_edges d_empty
  h_new_dense h_view h_write h_new_sparse hs_view hn_write
  graph6_decode_graph sparse6_decode_graph
  e_add_edge e_remove_edge e_add_vertex e_remove_vertex
  complete_def path_def cycle_def star_def partite_def hypercube_def folded_def friendship_def
  petersen_def circulant_def circbip_def flower_def rook_def ksubset disjointb binom.
