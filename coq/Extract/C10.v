From Coq Require Import Extraction ExtrOcamlBasic.
From Mamba Require Import Invariants.Graph Invariants.DistRef Invariants.DistModel Invariants.ConnModel Invariants.GirthModel Invariants.CycleIPModel.
Extraction Language OCaml.
Extraction "model.ml" mkGraph dist_matrix ecc_ref diam_ref rad_ref comp_ref comps_ref
  zgirth blocks_ref artic_ref cycles_ref icycles_ref ipaths_ref icycles_bounded_ref ipaths_bounded_ref
  distance_go eccentricity_go diameter_go radius_go connected_component_go connected_components_go girth_go number_of_induced_paths_go.
(* + the model of BiconnectedComponents (Invariants/BlockModel.v); a later Extraction of the same
   file name replaces the earlier one, so this line repeats every name above *)
From Mamba Require Import Invariants.BlockModel.
Extraction "model.ml" mkGraph dist_matrix ecc_ref diam_ref rad_ref comp_ref comps_ref
  zgirth blocks_ref artic_ref cycles_ref icycles_ref ipaths_ref icycles_bounded_ref ipaths_bounded_ref
  distance_go eccentricity_go diameter_go radius_go connected_component_go connected_components_go girth_go number_of_induced_paths_go
  biconnected_components_go.
(* + the models of NumberOfInducedCycles (Invariants/CycleICModel.v) and NumberOfCycles
   (Invariants/CycleNCModel.v); again the last line repeats every name *)
From Mamba Require Import Invariants.CycleICModel Invariants.CycleNCModel.
Extraction "model.ml" mkGraph dist_matrix ecc_ref diam_ref rad_ref comp_ref comps_ref
  zgirth blocks_ref artic_ref cycles_ref icycles_ref ipaths_ref icycles_bounded_ref ipaths_bounded_ref
  distance_go eccentricity_go diameter_go radius_go connected_component_go connected_components_go girth_go number_of_induced_paths_go
  biconnected_components_go
  number_of_induced_cycles_go number_of_cycles_go.
