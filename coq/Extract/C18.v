From Coq Require Import Extraction ExtrOcamlBasic.
From Mamba Require Import Disjoint.Model.
Extraction Language OCaml.
Extraction "model.ml" new get find union step run_from run sets smallest_rep roots walk.
