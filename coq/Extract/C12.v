From Coq Require Import Extraction ExtrOcamlBasic.
From Mamba Require Import Dawg.Model Dawg.Spec.
Extraction Language OCaml.
Extraction "model.ml" initialise add add_seq finish new_dawg lookup number_of_words
  list_nodes_count_edges number_of_nodes words_from minimal_size rank_of sget root.
