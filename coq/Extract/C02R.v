From Coq Require Import Extraction ExtrOcamlBasic.
From Mamba Require Import Canon.Perm Canon.Iso Canon.Model Disjoint.Model Canon.AutModel Canon.SearchModel
  Canon.AutResetModel Canon.SearchReuseModel.
Extraction Language OCaml.
Extraction "model.ml" canon_alloc_reset canon_search new_storage relabel labels_of_ds num_edges.
