From Coq Require Import Extraction ExtrOcamlBasic.
From Mamba Require Import Search.Model Search.ShardModel Search.ShardPreds.
Extraction Language OCaml.
Extraction "model.ml" outputs init p_edges3 p_maxdeg2 p_triangle p_none.
