From Coq Require Import Extraction ExtrOcamlBasic.
From Mamba Require Import Search.Model Search.ShardModel Search.ShardPreds Search.OrderlyInstCheckModel Search.OrderlyInstKsubModel Search.ComposeModel.
Extraction Language OCaml.
Extraction "model.ml" outputs init p_edges3 p_maxdeg2 p_triangle p_none
  check_upto check_level check_graph check_perm check_orb check_ksub check_early label_check label_pair_check
  vbs_all vbs_deg vbs_mixed all_graphs get_aut vg_of_edges ksub_real is_canonical add_augs canon_real.
