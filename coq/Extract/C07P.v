From Coq Require Import Extraction ExtrOcamlBasic.
From Mamba Require Import Codec.PruferMulticodeBase Codec.MulticodeModel Codec.PruferModel.
Extraction Language OCaml.
Extraction "model.ml" multicode_encode multicode_decode multicode_decode_multiple prufer_encode prufer_decode
  graph_of_bits bits_adj tri.
