From Coq Require Import Extraction ExtrOcamlBasic.
From Mamba Require Import Invariants.Graph Invariants.ColourModel Invariants.CliqueRef Invariants.ColourRef Invariants.ChromPolyModel.
Extraction Language OCaml.
Extraction "model.ml" mkGraph complement is_proper_colouring greedy_color degeneracy
  maximal_cliques_ref clique_number_ref independence_number_ref
  chromatic_number_ref k_colourable_ref count_colourings_ref chromatic_index_ref edges chromatic_polynomial.
