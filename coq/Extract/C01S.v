From Coq Require Import Extraction ExtrOcamlBasic.
From Mamba Require Import Canon.Perm Canon.Iso Canon.Model Disjoint.Model Canon.AutModel Canon.SearchModel.
Extraction Language OCaml.
Extraction "model.ml" canon_search relabel labels_of_ds.
