From Coq Require Import Extraction ExtrOcamlBasic.
From Mamba Require Import Planar.Model Planar.DmpModel.
Extraction Language OCaml.
Extraction "model.ml" mkG adj K5 K33 planar_b k5_minor_b k33_minor_b check_model_b is_planar_model.
