From Coq Require Import Extraction ExtrOcamlBasic.
From Mamba Require Import Search.Model Search.SaveModel.
Extraction Language OCaml.
Extraction "model.ml" save load inv_vis_b inv_hid_b.
