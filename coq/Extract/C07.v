From Coq Require Import Extraction ExtrOcamlBasic.
From Mamba Require Import Codec.Model Codec.Spec.
Extraction Language OCaml.
Extraction "model.ml" graph6_encode graph6_decode sparse6_encode sparse6_decode
  multicode_encode multicode_decode multicode_decode_multiple prufer_encode prufer_decode
  g6_spec g6_spec_decode s6_spec_decode.
