From Coq Require Import Extraction ExtrOcamlBasic.
From Mamba Require Import Codec.Model Codec.Spec.
Extraction Language OCaml.
Extraction "model.ml" graph6_encode graph6_decode sparse6_encode sparse6_decode enc_size
  g6_spec g6_spec_decode s6_spec_decode.
