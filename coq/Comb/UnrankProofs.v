(* Unrank: for every rank an int can hold the walk terminates within the fuel r+2, never wraps,
   and returns the k-subset of colex rank r; Rank and Unrank are mutually inverse. *)
From Coq Require Import List ZArith Lia Bool PArith.
From Mamba Require Import Gen.CombTables Comb.Model Comb.Spec Comb.Arith64 Comb.Binom Comb.Tables
  Comb.CoeffProofs Comb.RankProofs.
Import ListNotations.
Open Scope Z_scope.

(* ---------------------------------------------------------------- the fuelled loop *)

Section LoopNat.
  Context {St R : Type} (step : St -> St + R).

  Fixpoint loop_nat (n : nat) (s : St) : St + R :=
    match n with
    | O => inl s
    | S m => match step s with
             | inl s' => loop_nat m s'
             | inr r => inr r
             end
    end.

  Lemma loop_nat_add : forall a b s,
    loop_nat (a + b) s = match loop_nat a s with inl s' => loop_nat b s' | inr r => inr r end.
  Proof.
    induction a as [|a IH]; intros b s; cbn [Nat.add loop_nat]; [reflexivity|].
    destruct (step s) as [s'|r]; [apply IH|reflexivity].
  Qed.

  Lemma loop_pos_nat : forall p s, loop_pos step p s = loop_nat (Pos.to_nat p) s.
  Proof.
    induction p as [q IH|q IH|]; intros s; cbn [loop_pos].
    - rewrite Pos2Nat.inj_xI. cbn [loop_nat]. destruct (step s) as [s1|r]; [|reflexivity].
      replace (2 * Pos.to_nat q)%nat with (Pos.to_nat q + Pos.to_nat q)%nat by lia.
      rewrite loop_nat_add, <- IH. destruct (loop_pos step q s1); [apply IH|reflexivity].
    - rewrite Pos2Nat.inj_xO.
      replace (2 * Pos.to_nat q)%nat with (Pos.to_nat q + Pos.to_nat q)%nat by lia.
      rewrite loop_nat_add, <- IH. destruct (loop_pos step q s); [apply IH|reflexivity].
    - change (Pos.to_nat 1) with 1%nat. cbn [loop_nat]. destruct (step s); reflexivity.
  Qed.
End LoopNat.

(* ---------------------------------------------------------------- arithmetic *)

Lemma u64_i64 x : 0 <= x < two64 -> u64 (i64 x) = x.
Proof.
  intros H. rewrite u64_mod, i64_mod. unfold two64, two63 in *.
  pose proof (Z.div_mod (x + 9223372036854775808) 18446744073709551616 ltac:(lia)).
  pose proof (Z.mod_pos_bound (x + 9223372036854775808) 18446744073709551616 ltac:(lia)).
  set (r := (x + 9223372036854775808) mod 18446744073709551616) in *.
  set (q := (x + 9223372036854775808) / 18446744073709551616) in *.
  assert (q = 0 \/ q = 1) as [Q|Q] by lia; subst q.
  - replace (r - 9223372036854775808) with x by lia. apply Z.mod_small. lia.
  - replace (r - 9223372036854775808) with (x + (-1) * 18446744073709551616) by lia.
    rewrite Z.mod_add by lia. apply Z.mod_small. lia.
Qed.

(* (l+1) C(l,j) = (l+1-j) C(l+1,j) *)
Lemma binomz_next_n l j : 0 <= l -> 0 <= j -> (l + 1) * binomz l j = (l + 1 - j) * binomz (l + 1) j.
Proof.
  intros Hl Hj.
  pose proof (binomz_next_k (l + 1) j ltac:(lia) Hj). pose proof (binomz_absorb l j Hl Hj). lia.
Qed.

(* ---------------------------------------------------------------- one walk *)

Section Walk.
  Variables i m : Z.
  Hypothesis Hi : 0 <= i.
  Hypothesis Hi1 : i + 1 <= maxInt.
  Hypothesis Hm : 0 <= m <= maxInt.

  (* at the loop head: b = C(l, i+1), prev = C(l-1, i+1), and l is still an int *)
  Definition Inv (st : Z * Z * Z) : Prop :=
    let '(l, b, prev) := st in
    i + 1 <= l <= maxInt /\ b = binomz l (i + 1) /\ b <= maxInt /\
    prev = binomz (l - 1) (i + 1) /\ prev <= m.

  (* when the loop is left: comb[i] = x with C(x,i+1) <= m < C(x+1,i+1), prev = C(x,i+1) *)
  Definition Post (r : Z * Z) : Prop :=
    let x := i64 (fst r - 1) in
    i <= x <= maxInt /\ snd r = binomz x (i + 1) /\ snd r <= m < binomz (x + 1) (i + 1).

  Lemma step_spec l b prev : Inv (l, b, prev) ->
    (b <= m /\ exists q, unrank_step i m (l, b, prev) = inl (l + 1, q, b) /\ Inv (l + 1, q, b)) \/
    (exists r, unrank_step i m (l, b, prev) = inr (Ret r) /\ Post r).
  Proof.
    intros (Hl & Hb & Hbm & Hp & Hpm). pose proof maxInt_val as MI.
    assert (T63 : two63 = 9223372036854775808) by reflexivity.
    assert (T64 : two64 = 18446744073709551616) by reflexivity.
    assert (Hb1 : 1 <= b) by (rewrite Hb; pose proof (binomz_pos l (i + 1) ltac:(lia)); lia).
    unfold unrank_step. destruct (Z.leb_spec b m) as [Hle|Hgt].
    2:{ right. exists (l, prev). split; [reflexivity|]. unfold Post. cbn [fst snd].
        rewrite i64_id by lia. replace (l - 1 + 1) with l by lia. rewrite <- Hb. repeat split; lia. }
    rewrite (u64_id b) by lia. rewrite (u64_i64 (l + 1)) by lia. rewrite (u64_i64 (l - i)) by lia.
    set (Q := binomz (l + 1) (i + 1)).
    assert (HQ : b * (l + 1) = Q * (l - i)).
    { pose proof (binomz_next_n l (i + 1) ltac:(lia) ltac:(lia)) as N. fold Q in N. rewrite Hb. lia. }
    assert (HQ0 : 0 <= Q) by apply binomz_nonneg.
    rewrite HQ. rewrite hi_div.
    assert (Hbreak : forall r, r = (i64 (l + 1), b) -> maxInt < Q -> Post r).
    { intros r -> HQm. unfold Post. cbn [fst snd]. rewrite i64_succ_pred by lia. fold Q. repeat split; lia. }
    rewrite Z.geb_leb. destruct (Z.leb_spec (l - i) (Q * (l - i) / two64)) as [Hhi|Hhi].
    { right. eexists. split; [reflexivity|]. apply Hbreak; [reflexivity|].
      assert (two64 <= Q); [|lia].
      destruct (Z.lt_ge_cases Q two64) as [C|C]; [|exact C]. exfalso.
      assert (Q * (l - i) / two64 < l - i); [|lia].
      apply Z.div_lt_upper_bound; [lia|]. nia. }
    unfold div64.
    destruct (Z.eqb_spec (l - i) 0) as [Z0|_]; [lia|]. cbn [orb].
    destruct (Z.leb_spec (l - i) (Q * (l - i) / two64)) as [C|_]; [lia|].
    rewrite <- hi_div. rewrite hi_lo by nia. rewrite Z.div_mul by lia.
    rewrite Z.gtb_ltb. destruct (Z.ltb_spec maxInt Q) as [HQm|HQm].
    { right. eexists. split; [reflexivity|]. apply Hbreak; [reflexivity|exact HQm]. }
    (* the walk goes on: l+1 is still an int, because C(2^63, i+1) >= 2^63 *)
    assert (Hl1 : l + 1 <= maxInt).
    { destruct (Z.le_gt_cases (l + 1) maxInt) as [C|C]; [exact C|]. exfalso.
      pose proof (binomz_ge_n (l + 1) (i + 1) ltac:(lia)). fold Q in H. lia. }
    left. split; [exact Hle|]. exists Q. rewrite !i64_id by lia. split; [reflexivity|].
    unfold Inv. replace (l + 1 - 1) with l by lia. repeat split; lia.
  Qed.

  (* every continuing step has l <= m + i, so m + i + 2 - l steps suffice *)
  Lemma walk_spec : forall n st, Inv st -> (1 <= n)%nat ->
    m + i + 2 - fst (fst st) <= Z.of_nat n ->
    exists r, loop_nat (unrank_step i m) n st = inr (Ret r) /\ Post r.
  Proof.
    induction n as [|n IH]; intros [[l b] prev] HI Hn Hfuel; [lia|].
    cbn [fst] in Hfuel. cbn [loop_nat].
    destruct (step_spec l b prev HI) as [(Hle & q & E & HI')|(r & E & P)]; rewrite E.
    - destruct HI as (Hl & Hb & _).
      pose proof (binomz_ge_lin l (i + 1) ltac:(lia)) as G.
      apply IH; [exact HI'| |cbn [fst]]; lia.
    - exists r. split; [reflexivity|exact P].
  Qed.

  Lemma unrank_inner_spec fuel : m + 2 <= Z.pos fuel ->
    exists r, unrank_inner fuel i m = Ret r /\ Post r.
  Proof.
    intros Hf. pose proof maxInt_val as MI. unfold unrank_inner. rewrite loop_pos_nat.
    rewrite i64_id by (unfold two63 in *; lia).
    destruct (walk_spec (Pos.to_nat fuel) (i + 1, 1, 0)) as (r & E & P).
    - unfold Inv. replace (i + 1 - 1) with i by lia.
      rewrite binomz_diag, binomz_gt by lia. unfold two63 in *. repeat split; lia.
    - lia.
    - cbn [fst]. lia.
    - exists r. rewrite E. split; [reflexivity|exact P].
  Qed.
End Walk.

(* ---------------------------------------------------------------- the outer loop *)

Definition is_int_nat (v : Z) : Prop := 0 <= v <= maxInt.

Lemma unrank_go_spec fuel : forall cnt m acc,
  Z.of_nat cnt <= maxInt -> 0 <= m <= maxInt -> m + 2 <= Z.pos fuel -> (cnt = 0%nat -> m = 0) ->
  exists c, unrank_go fuel cnt m acc = Ret (c ++ acc) /\ length c = cnt /\ incr_from 0 c /\
            crank_from 0 c = m /\ Forall is_int_nat c /\
            (forall v, m < binomz v (Z.of_nat cnt) -> top 0 c <= v).
Proof.
  pose proof maxInt_val as MI.
  induction cnt as [|cnt IH]; intros m acc Hc Hm Hf H0.
  - exists []. cbn [unrank_go app length incr_from crank_from top]. rewrite (H0 eq_refl).
    repeat split; try constructor. intros v Hv.
    destruct (Z.lt_ge_cases v 0) as [N|N]; [rewrite binomz_neg in Hv by lia; lia|exact N].
  - cbn [unrank_go]. rewrite Nat2Z.inj_succ in Hc.
    set (i := Z.of_nat cnt) in *.
    destruct (unrank_inner_spec i m ltac:(lia) ltac:(lia) Hm fuel Hf) as ([l' p] & E & P).
    rewrite E. cbn [bind fst snd]. unfold Post in P. cbn [fst snd] in P.
    set (x := i64 (l' - 1)) in *. destruct P as (Hx & Hp & Hpm).
    pose proof (binomz_nonneg x (i + 1)) as NN.
    assert (Hm' : 0 <= m - p <= maxInt) by lia.
    rewrite (i64_id (m - p)) by (unfold two63 in *; lia).
    (* the remainder is below C(x, i): the next element is below x *)
    assert (Hrem : m - p < binomz x i).
    { destruct (Z.eq_dec i 0) as [I0|I0].
      - rewrite I0 in *. rewrite binomz_0_r by lia. change (0 + 1) with 1 in *.
        rewrite binomz_1_r in * by lia. lia.
      - pose proof (binomz_pascal x (i - 1 + 1 - 1) ltac:(lia) ltac:(lia)) as Pa.
        replace (i - 1 + 1 - 1 + 1) with i in Pa by lia.
        pose proof (binomz_pascal x i ltac:(lia) ltac:(lia)). lia. }
    destruct (IH (m - p) (x :: acc) ltac:(lia) Hm' ltac:(lia)) as (c1 & R & L & Inc & Cr & Fa & Tp).
    { intros C0. subst i. rewrite C0 in *. change (Z.of_nat 0) with 0 in *. change (0 + 1) with 1 in *.
      rewrite binomz_1_r in * by lia. lia. }
    exists (c1 ++ [x]). rewrite <- app_assoc. cbn [app]. split; [exact R|].
    pose proof (Tp x Hrem) as Tx.
    repeat split.
    + rewrite app_length, L. cbn [length]. lia.
    + apply incr_from_snoc; assumption.
    + rewrite crank_from_app, Cr, L. cbn [crank_from]. fold i. rewrite Z.add_0_l. lia.
    + apply Forall_app. split; [exact Fa|]. constructor; [unfold is_int_nat; lia|constructor].
    + intros v Hv. rewrite top_snoc. rewrite Nat2Z.inj_succ in Hv. fold i in Hv.
      replace (Z.succ i) with (i + 1) in Hv by lia.
      pose proof (binomz_lt_inv x v (i + 1) ltac:(lia)). lia.
Qed.

(* Unrank(r,k) for every rank and size an int can hold (k >= 1, or r = k = 0): it returns, and
   the result is the increasing k-list of naturals whose colex rank sum is r *)
Theorem unrank_spec r k : 0 <= r <= maxInt -> 0 <= k <= maxInt -> (k = 0 -> r = 0) ->
  exists c, unrank r k = Ret c /\ Z.of_nat (length c) = k /\ subset_nat c /\ crank c = r /\
            Forall is_int_nat c.
Proof.
  intros Hr Hk H0. unfold unrank. destruct (Z.ltb_spec k 0) as [N|_]; [lia|].
  destruct (unrank_go_spec (unrank_fuel r) (Z.to_nat k) r [] ltac:(lia) Hr) as (c & R & L & Inc & Cr & Fa & _).
  - unfold unrank_fuel. rewrite Z2Pos.id by lia. lia.
  - intros C0. apply H0. lia.
  - exists c. rewrite app_nil_r in R. repeat split; try assumption. lia.
Qed.

(* Rank after Unrank: if Rank returns at all it returns r *)
Theorem rank_unrank r k c v : 0 <= r <= maxInt -> 0 <= k <= maxInt -> (k = 0 -> r = 0) ->
  unrank r k = Ret c -> rank c = Ret v -> v = r.
Proof.
  intros Hr Hk H0 U Rk. pose proof maxInt_val as MI.
  destruct (unrank_spec r k Hr Hk H0) as (c' & U' & L & _ & Cr & Fa). rewrite U in U'. injection U' as <-.
  rewrite <- Cr. apply rank_sound; [| |exact Rk].
  - eapply Forall_impl; [|exact Fa]. unfold is_int_nat. intros a Ha. unfold two63 in *. lia.
  - unfold two63 in *. lia.
Qed.

Lemma incr_from_nat : forall c lo, 0 <= lo -> incr_from lo c ->
  Forall (fun v => v < two63) c -> Forall (fun v => 0 <= v < two63) c.
Proof.
  induction c as [|v t IH]; intros lo Hlo Hc Hb; [constructor|].
  inversion Hb as [|? ? Hv Ht]; subst. destruct Hc as [Hc1 Hc2]. constructor; [lia|].
  apply (IH (v + 1)); [lia|assumption|assumption].
Qed.

(* Unrank after Rank: the list comes back *)
Theorem unrank_rank c r : subset_nat c -> Forall (fun v => v < two63) c -> Z.of_nat (length c) < two63 ->
  rank c = Ret r -> unrank r (Z.of_nat (length c)) = Ret c.
Proof.
  intros Hc Hb Hl Rk. pose proof maxInt_val as MI.
  assert (Hnat : Forall (fun v => 0 <= v < two63) c).
  { apply (incr_from_nat c 0); [lia|exact Hc|exact Hb]. }
  destruct (rank_cases c Hnat Hl) as [[E B]|[E _]]; rewrite E in Rk; [|discriminate].
  injection Rk as <-.
  pose proof (crank_from_nonneg c 0) as NN. fold (crank c) in NN.
  destruct (unrank_spec (crank c) (Z.of_nat (length c))) as (c' & U & L & S' & Cr & _).
  - lia.
  - unfold two63 in *. lia.
  - intros L0. destruct c; [reflexivity|discriminate].
  - rewrite U. f_equal. apply crank_inj; [lia|assumption|assumption|exact Cr].
Qed.

(* Unrank enumerates in colex order: r < r' gives colex-smaller subsets *)
Theorem unrank_colex r r' k c c' : 0 <= r < r' -> r' <= maxInt -> 1 <= k <= maxInt ->
  unrank r k = Ret c -> unrank r' k = Ret c' -> colex_lt c c'.
Proof.
  intros Hr Hr' Hk U U'.
  destruct (unrank_spec r k ltac:(lia) ltac:(lia) ltac:(lia)) as (d & E & L & S & Cr & _).
  destruct (unrank_spec r' k ltac:(lia) ltac:(lia) ltac:(lia)) as (d' & E' & L' & S' & Cr' & _).
  rewrite U in E. rewrite U' in E'. injection E as <-. injection E' as <-.
  apply crank_lt_colex; try assumption; lia.
Qed.
