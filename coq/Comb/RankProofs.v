(* Rank: the colex rank sum C(c_i, i+1), exact or panic; strictly monotone in the colex order,
   hence injective on the k-subsets of the naturals. *)
From Coq Require Import List ZArith Lia Bool.
From Mamba Require Import Gen.CombTables Comb.Model Comb.Spec Comb.Arith64 Comb.Binom Comb.Tables Comb.CoeffProofs.
Import ListNotations.
Open Scope Z_scope.

(* ---------------------------------------------------------------- the specification side *)

Lemma crank_from_nonneg : forall c i, 0 <= crank_from i c.
Proof.
  induction c as [|v t IH]; intros i; cbn [crank_from]; [lia|].
  pose proof (binomz_nonneg v (i + 1)). pose proof (IH (i + 1)). lia.
Qed.

Lemma crank_from_app : forall c d i,
  crank_from i (c ++ d) = crank_from i c + crank_from (i + Z.of_nat (length c)) d.
Proof.
  induction c as [|v t IH]; intros d i.
  - cbn [app crank_from length]. rewrite Z.add_0_r. reflexivity.
  - cbn [app crank_from length]. rewrite IH. rewrite Nat2Z.inj_succ.
    replace (i + 1 + Z.of_nat (length t)) with (i + Z.succ (Z.of_nat (length t))) by lia. lia.
Qed.

Lemma incr_from_weaken : forall c lo lo', lo' <= lo -> incr_from lo c -> incr_from lo' c.
Proof. intros [|v t] lo lo' H; cbn [incr_from]; [tauto|]. intros [H1 H2]. split; [lia|exact H2]. Qed.

(* one past the last element (lo for the empty list) *)
Fixpoint top (lo : Z) (c : list Z) : Z :=
  match c with
  | [] => lo
  | v :: t => top (v + 1) t
  end.

Lemma top_ge : forall c lo, incr_from lo c -> lo <= top lo c.
Proof.
  induction c as [|v t IH]; intros lo H; cbn [top]; [lia|].
  destruct H as [H1 H2]. pose proof (IH (v + 1) H2). lia.
Qed.

Lemma top_ge_len : forall c lo, incr_from lo c -> lo + Z.of_nat (length c) <= top lo c.
Proof.
  induction c as [|v t IH]; intros lo H; cbn [top length]; [lia|].
  destruct H as [H1 H2]. pose proof (IH (v + 1) H2). lia.
Qed.

Lemma incr_from_snoc : forall c lo x, incr_from lo c -> top lo c <= x -> incr_from lo (c ++ [x]).
Proof.
  induction c as [|v t IH]; intros lo x H Hx; cbn [app incr_from top] in *.
  - split; [lia|exact I].
  - destruct H as [H1 H2]. split; [exact H1|]. apply IH; assumption.
Qed.

Lemma top_snoc : forall c lo x, top lo (c ++ [x]) = x + 1.
Proof. induction c as [|v t IH]; intros lo x; cbn [app top]; [reflexivity|apply IH]. Qed.

(* all k-subsets below v: fewer than C(v,k) of them precede.  With the head bounded below by lo:
   C(lo,i) + sum <= C(top, i + |c|) *)
Lemma crank_from_top : forall c lo i, 0 <= lo -> 0 <= i -> incr_from lo c ->
  binomz lo i + crank_from i c <= binomz (top lo c) (i + Z.of_nat (length c)).
Proof.
  induction c as [|v t IH]; intros lo i Hlo Hi H.
  - cbn [crank_from top length]. rewrite !Z.add_0_r. lia.
  - cbn [crank_from top length]. destruct H as [H1 H2].
    pose proof (IH (v + 1) (i + 1) ltac:(lia) ltac:(lia) H2) as B.
    rewrite binomz_pascal in B by lia.
    pose proof (binomz_mono lo v i H1). rewrite Nat2Z.inj_succ.
    replace (i + Z.succ (Z.of_nat (length t))) with (i + 1 + Z.of_nat (length t)) by lia. lia.
Qed.

(* the rank of a k-subset with all elements below v is below C(v,k) *)
Lemma crank_lt_top c : subset_nat c -> crank c < binomz (top 0 c) (Z.of_nat (length c)).
Proof.
  intros H. pose proof (crank_from_top c 0 0 ltac:(lia) ltac:(lia) H) as B.
  change (binomz 0 0) with 1 in B. rewrite Z.add_0_l in B. unfold crank. lia.
Qed.

(* strict monotonicity in the colex order *)
Lemma crank_from_colex : forall c d i w, colex_lt c d -> length c = length d ->
  incr_from w c -> 0 <= w -> 0 <= i ->
  binomz w i + crank_from i c <= crank_from i d.
Proof.
  induction c as [|x c' IH]; intros [|y d'] i w L E Hc Hw Hi; cbn [colex_lt] in L; try tauto.
  cbn [crank_from]. destruct Hc as [H1 H2]. cbn [length] in E.
  pose proof (binomz_mono w x i H1) as M.
  pose proof (binomz_pascal x i ltac:(lia) Hi) as P.
  destruct L as [L|[-> L]].
  - pose proof (IH d' (i + 1) (x + 1) L ltac:(lia) H2 ltac:(lia) ltac:(lia)).
    pose proof (binomz_nonneg y (i + 1)). lia.
  - pose proof (binomz_mono (x + 1) y (i + 1) ltac:(lia)). lia.
Qed.

Theorem crank_colex_lt c d : length c = length d -> subset_nat c ->
  colex_lt c d -> crank c < crank d.
Proof.
  intros E Hc L. pose proof (crank_from_colex c d 0 0 L E Hc ltac:(lia) ltac:(lia)) as B.
  change (binomz 0 0) with 1 in B. unfold crank. lia.
Qed.

(* the colex order is total on lists of equal length *)
Lemma colex_total : forall c d : list Z, length c = length d -> c = d \/ colex_lt c d \/ colex_lt d c.
Proof.
  induction c as [|x c' IH]; intros [|y d'] E; cbn [length] in E; try discriminate.
  - left. reflexivity.
  - destruct (IH d' ltac:(lia)) as [->|[L|L]].
    + destruct (Z.lt_total x y) as [H|[->|H]].
      * right. left. cbn [colex_lt]. right. split; [reflexivity|exact H].
      * left. reflexivity.
      * right. right. cbn [colex_lt]. right. split; [reflexivity|exact H].
    + right. left. cbn [colex_lt]. left. exact L.
    + right. right. cbn [colex_lt]. left. exact L.
Qed.

Lemma colex_irrefl : forall c : list Z, ~ colex_lt c c.
Proof.
  induction c as [|x c' IH]; cbn [colex_lt]; [tauto|]. intros [L|[_ L]]; [exact (IH L)|lia].
Qed.

(* colex rank is injective on k-subsets *)
Theorem crank_inj c d : length c = length d -> subset_nat c -> subset_nat d ->
  crank c = crank d -> c = d.
Proof.
  intros E Hc Hd R. destruct (colex_total c d E) as [->|[L|L]]; [reflexivity| |].
  - pose proof (crank_colex_lt c d E Hc L). lia.
  - pose proof (crank_colex_lt d c (eq_sym E) Hd L). lia.
Qed.

(* and order-reflecting *)
Theorem crank_lt_colex c d : length c = length d -> subset_nat c -> subset_nat d ->
  crank c < crank d -> colex_lt c d.
Proof.
  intros E Hc Hd R. destruct (colex_total c d E) as [->|[L|L]]; [lia|exact L|].
  pose proof (crank_colex_lt d c (eq_sym E) Hd L). lia.
Qed.

(* ---------------------------------------------------------------- the model *)

(* every term's step-by-step product fits an int *)
Fixpoint rank_fits (i : Z) (c : list Z) : Prop :=
  match c with
  | [] => True
  | v :: t => binomz v (i + 1) * Z.min (i + 1) (v - (i + 1)) <= maxInt /\ rank_fits (i + 1) t
  end.

Lemma rank_go_spec : forall c i acc,
  Forall (fun v => 0 <= v < two63) c -> 0 <= i -> i + Z.of_nat (length c) < two63 -> 0 <= acc <= maxInt ->
  (rank_go i c acc = Ret (acc + crank_from i c) /\ acc + crank_from i c <= maxInt) \/
  (rank_go i c acc = Panic /\ (~ rank_fits i c \/ maxInt < acc + crank_from i c)).
Proof.
  pose proof maxInt_val as MI.
  induction c as [|v t IH]; intros i acc Hc Hi Hlen Hacc.
  - left. cbn [rank_go crank_from]. rewrite Z.add_0_r. split; [reflexivity|lia].
  - cbn [rank_go crank_from rank_fits]. cbn [length] in Hlen. rewrite Nat2Z.inj_succ in Hlen.
    inversion Hc as [|? ? Hv Ht]; subst.
    pose proof (crank_from_nonneg t (i + 1)) as NN.
    destruct (coeff_cases v (i + 1) Hv ltac:(unfold two63 in *; lia)) as [[E R]|[E B]]; rewrite E; cbn [bind].
    + destruct (Z.le_gt_cases (acc + binomz v (i + 1)) maxInt) as [Hfit|Hbig].
      * rewrite add_ovf_ok by (unfold two63 in *; lia).
        destruct (IH (i + 1) (acc + binomz v (i + 1)) Ht ltac:(lia) ltac:(lia) ltac:(lia)) as [[R1 R2]|[R1 R2]].
        -- left. rewrite R1. split; [f_equal; lia|lia].
        -- right. split; [exact R1|]. destruct R2 as [R2|R2]; [left; tauto|right; lia].
      * right. pose proof (add_ovf_bad acc (binomz v (i + 1)) ltac:(unfold two63 in *; lia)
                             ltac:(unfold two63 in *; lia) ltac:(unfold two63 in *; lia)) as Bad.
        destruct (add_ovf acc (binomz v (i + 1))) as [s o]. cbn [snd] in Bad. subst o.
        split; [reflexivity|]. right. lia.
    + right. split; [reflexivity|]. left. intros [F _]. lia.
Qed.

(* Rank on every list of naturals of int size: the colex rank sum, or a panic; it returns
   whenever every term's product C(c_i,i+1)*min(i+1, c_i-i-1) and the sum fit an int *)
Theorem rank_cases c : Forall (fun v => 0 <= v < two63) c -> Z.of_nat (length c) < two63 ->
  (rank c = Ret (crank c) /\ crank c <= maxInt) \/
  (rank c = Panic /\ (~ rank_fits 0 c \/ maxInt < crank c)).
Proof.
  intros Hc Hl. unfold rank, crank.
  pose proof (rank_go_spec c 0 0 Hc ltac:(lia) ltac:(lia) ltac:(rewrite maxInt_val; unfold two63; lia)) as S.
  rewrite !Z.add_0_l in S. exact S.
Qed.

Theorem rank_sound c v : Forall (fun v => 0 <= v < two63) c -> Z.of_nat (length c) < two63 ->
  rank c = Ret v -> v = crank c.
Proof.
  intros Hc Hl H. destruct (rank_cases c Hc Hl) as [[E _]|[E _]]; rewrite E in H; congruence.
Qed.

Theorem rank_complete c : Forall (fun v => 0 <= v < two63) c -> Z.of_nat (length c) < two63 ->
  rank_fits 0 c -> crank c <= maxInt -> rank c = Ret (crank c).
Proof.
  intros Hc Hl F B. destruct (rank_cases c Hc Hl) as [[E _]|[_ [E|E]]]; [exact E|tauto|lia].
Qed.
