(* The binomial coefficient [binom] (Pascal's triangle on nat) and its extension [binomz] to Z:
   the identities the proofs of C16 need, and [fast_binom] = [binomz]. *)
From Coq Require Import List ZArith Lia Bool Arith.
From Mamba Require Import Gen.CombTables Comb.Model Comb.Spec.
Import ListNotations.
Open Scope Z_scope.

(* ---------------------------------------------------------------- on nat *)

Lemma binom_SS n k : binom (S n) (S k) = binom n k + binom n (S k).
Proof. reflexivity. Qed.

Lemma binom_0_r n : binom n 0 = 1.
Proof. destruct n; reflexivity. Qed.

Lemma binom_0_l k : binom 0 (S k) = 0.
Proof. reflexivity. Qed.

Lemma binom_gt : forall n k, (n < k)%nat -> binom n k = 0.
Proof.
  induction n as [|n IH]; intros [|k] H; try lia.
  - reflexivity.
  - rewrite binom_SS, !IH by lia. reflexivity.
Qed.

Lemma binom_nonneg : forall n k, 0 <= binom n k.
Proof.
  induction n as [|n IH]; intros [|k]; try rewrite binom_0_r; try rewrite binom_0_l; try lia.
  rewrite binom_SS. pose proof (IH k). pose proof (IH (S k)). lia.
Qed.

Lemma binom_pos : forall n k, (k <= n)%nat -> 0 < binom n k.
Proof.
  induction n as [|n IH]; intros [|k] H; try rewrite binom_0_r; try lia.
  rewrite binom_SS. pose proof (IH k ltac:(lia)). pose proof (binom_nonneg n (S k)). lia.
Qed.

Lemma binom_diag : forall n, binom n n = 1.
Proof.
  induction n as [|n IH]; [reflexivity|].
  rewrite binom_SS, IH, binom_gt by lia. reflexivity.
Qed.

(* (k+1) C(n+1,k+1) = (n+1) C(n,k) *)
Lemma binom_absorb : forall n k,
  (Z.of_nat k + 1) * binom (S n) (S k) = (Z.of_nat n + 1) * binom n k.
Proof.
  induction n as [|n IH]; intros k.
  - destruct k as [|k]; [reflexivity|].
    rewrite binom_SS, binom_0_l. rewrite (binom_gt 0 (S (S k))) by lia. lia.
  - rewrite binom_SS. destruct k as [|k].
    + rewrite !binom_0_r. pose proof (IH 0%nat) as H. rewrite binom_0_r in H. lia.
    + pose proof (IH k) as H1. pose proof (IH (S k)) as H2.
      rewrite (binom_SS n k) in *. rewrite !Nat2Z.inj_succ in *.
      generalize dependent (binom n k). generalize dependent (binom n (S k)).
      generalize dependent (binom (S n) (S (S k))). intros c b H2 a H1. lia.
Qed.

Lemma binom_sym : forall n k, (k <= n)%nat -> binom n k = binom n (n - k).
Proof.
  induction n as [|n IH]; intros k H.
  - replace k with 0%nat by lia. reflexivity.
  - destruct k as [|k].
    + rewrite Nat.sub_0_r, binom_0_r, binom_diag. reflexivity.
    + destruct (Nat.eq_dec k n) as [->|Hne].
      * rewrite Nat.sub_diag, binom_0_r, binom_diag. reflexivity.
      * replace (S n - S k)%nat with (S (n - S k)) by lia.
        rewrite !binom_SS.
        rewrite (IH k) by lia. rewrite (IH (S k)) by lia.
        replace (n - k)%nat with (S (n - S k)) by lia. lia.
Qed.

Lemma binom_mono_S n k : binom n k <= binom (S n) k.
Proof.
  destruct k as [|k]; [rewrite !binom_0_r; lia|].
  rewrite binom_SS. pose proof (binom_nonneg n k). lia.
Qed.

Lemma binom_mono : forall n m k, (n <= m)%nat -> binom n k <= binom m k.
Proof.
  intros n m k H. induction H as [|m H IH]; [lia|].
  pose proof (binom_mono_S m k). lia.
Qed.

(* ---------------------------------------------------------------- on Z *)

Lemma binomz_nat a b : binomz (Z.of_nat a) (Z.of_nat b) = binom a b.
Proof.
  unfold binomz.
  destruct (Z.ltb_spec (Z.of_nat a) 0); [lia|]. destruct (Z.ltb_spec (Z.of_nat b) 0); [lia|].
  cbn [orb]. rewrite !Nat2Z.id. reflexivity.
Qed.

Lemma binomz_neg n k : n < 0 \/ k < 0 -> binomz n k = 0.
Proof.
  intros H. unfold binomz.
  destruct (Z.ltb_spec n 0); [reflexivity|]. destruct (Z.ltb_spec k 0); [reflexivity|]. lia.
Qed.

(* transfer tactic: replace nonnegative n by Z.of_nat _ *)
Ltac to_nat x :=
  let a := fresh "a" in
  let E := fresh "E" in
  assert (E : x = Z.of_nat (Z.to_nat x)) by (rewrite Z2Nat.id; lia);
  set (a := Z.to_nat x) in *; clearbody a; subst x.

Lemma binomz_nonneg n k : 0 <= binomz n k.
Proof.
  unfold binomz. destruct ((n <? 0) || (k <? 0)); [lia|]. apply binom_nonneg.
Qed.

Lemma binomz_0_r n : 0 <= n -> binomz n 0 = 1.
Proof. intros H. to_nat n. change 0 with (Z.of_nat 0) at 1. rewrite binomz_nat. apply binom_0_r. Qed.

Lemma binomz_gt n k : n < k -> binomz n k = 0.
Proof.
  intros H. destruct (Z.ltb_spec n 0) as [Hn|Hn]; [apply binomz_neg; lia|].
  to_nat n. assert (0 <= k) by lia. to_nat k. rewrite binomz_nat. apply binom_gt. lia.
Qed.

Lemma binomz_pos n k : 0 <= k <= n -> 0 < binomz n k.
Proof.
  intros H. assert (0 <= n) by lia. destruct H as [H1 H2]. to_nat n. to_nat k. rewrite binomz_nat.
  apply binom_pos. lia.
Qed.

Lemma binomz_diag n : 0 <= n -> binomz n n = 1.
Proof. intros H. to_nat n. rewrite binomz_nat. apply binom_diag. Qed.

Lemma binomz_pascal n k : 0 <= n -> 0 <= k -> binomz (n + 1) (k + 1) = binomz n k + binomz n (k + 1).
Proof.
  intros Hn Hk. to_nat n. to_nat k.
  replace (Z.of_nat a + 1) with (Z.of_nat (S a)) by lia.
  replace (Z.of_nat a0 + 1) with (Z.of_nat (S a0)) by lia.
  rewrite !binomz_nat. apply binom_SS.
Qed.

Lemma binomz_absorb n k : 0 <= n -> 0 <= k -> (k + 1) * binomz (n + 1) (k + 1) = (n + 1) * binomz n k.
Proof.
  intros Hn Hk. to_nat n. to_nat k.
  replace (binomz (Z.of_nat a + 1) (Z.of_nat a0 + 1)) with (binomz (Z.of_nat (S a)) (Z.of_nat (S a0)))
    by (f_equal; lia).
  rewrite !binomz_nat. apply binom_absorb.
Qed.

Lemma binomz_sym n k : 0 <= k <= n -> binomz n k = binomz n (n - k).
Proof.
  intros H. assert (0 <= n) by lia. destruct H as [H1 H2]. to_nat n. to_nat k.
  rewrite <- Nat2Z.inj_sub by lia. rewrite !binomz_nat. apply binom_sym. lia.
Qed.

Lemma binomz_mono n m k : n <= m -> binomz n k <= binomz m k.
Proof.
  intros H. destruct (Z.ltb_spec n 0) as [Hn|Hn].
  { rewrite (binomz_neg n) by lia. apply binomz_nonneg. }
  destruct (Z.ltb_spec k 0) as [Hk|Hk].
  { rewrite !binomz_neg by lia. lia. }
  assert (0 <= m) by lia. to_nat n. to_nat m. to_nat k. rewrite !binomz_nat. apply binom_mono. lia.
Qed.

(* C(n,1) = n *)
Lemma binomz_1_r n : 0 <= n -> binomz n 1 = n.
Proof.
  intros H. destruct (Z.eq_dec n 0) as [->|Hne]; [reflexivity|].
  pose proof (binomz_absorb (n - 1) 0 ltac:(lia) ltac:(lia)) as A.
  replace (n - 1 + 1) with n in A by lia. rewrite binomz_0_r in A by lia.
  change (0 + 1) with 1 in A. lia.
Qed.

(* strict growth in n: C(n,k) < C(n+1,k) for 1 <= k <= n+1 *)
Lemma binomz_lt_succ n k : 1 <= k <= n + 1 -> binomz n k < binomz (n + 1) k.
Proof.
  intros H. replace k with (k - 1 + 1) by lia. rewrite binomz_pascal by lia.
  pose proof (binomz_pos n (k - 1) ltac:(lia)). lia.
Qed.

Lemma binomz_lt_mono n m k : 1 <= k <= n + 1 -> n < m -> binomz n k < binomz m k.
Proof.
  intros H L. pose proof (binomz_lt_succ n k H). pose proof (binomz_mono (n + 1) m k ltac:(lia)). lia.
Qed.

(* C(n,k) <= m < C(v,k) forces n < v *)
Lemma binomz_lt_inv n v k : binomz n k < binomz v k -> n < v.
Proof.
  intros H. destruct (Z.lt_ge_cases n v) as [L|L]; [exact L|].
  pose proof (binomz_mono v n k L). lia.
Qed.

(* (k+1) C(n,k+1) = (n-k) C(n,k) *)
Lemma binomz_next_k n k : 0 <= n -> 0 <= k -> (k + 1) * binomz n (k + 1) = (n - k) * binomz n k.
Proof.
  intros Hn Hk. pose proof (binomz_absorb n k Hn Hk) as A. rewrite binomz_pascal in A by lia. lia.
Qed.

(* the rows rise up to the middle *)
Lemma binomz_le_next_k n k : 0 <= k -> 2 * k + 1 <= n -> binomz n k <= binomz n (k + 1).
Proof.
  intros Hk H. pose proof (binomz_next_k n k ltac:(lia) Hk) as A.
  pose proof (binomz_nonneg n k). pose proof (binomz_nonneg n (k + 1)). nia.
Qed.

(* C(n,k) >= n - k + 1 for 1 <= k <= n *)
Lemma binomz_ge_lin : forall n k, 1 <= k <= n -> n - k + 1 <= binomz n k.
Proof.
  intros n k H.
  assert (G : forall d : nat, Z.of_nat d + 1 <= binomz (k + Z.of_nat d) k).
  { induction d as [|d IH].
    - rewrite Z.add_0_r, binomz_diag by lia. lia.
    - rewrite Nat2Z.inj_succ.
      pose proof (binomz_lt_succ (k + Z.of_nat d) k ltac:(lia)).
      replace (k + Z.succ (Z.of_nat d)) with (k + Z.of_nat d + 1) by lia. lia. }
  specialize (G (Z.to_nat (n - k))). rewrite Z2Nat.id in G by lia.
  replace (k + (n - k)) with n in G by lia. lia.
Qed.

(* C(n,k) >= n for 1 <= k <= n-1 *)
Lemma binomz_ge_n n k : 1 <= k <= n - 1 -> n <= binomz n k.
Proof.
  intros H.
  destruct (Z.le_gt_cases (2 * k) n) as [L|L].
  - (* C(n,k) >= C(n,1): rows rise up to the middle *)
    assert (G : forall d : nat, 1 + Z.of_nat d <= k -> n <= binomz n (1 + Z.of_nat d)).
    { induction d as [|d IH]; intros Hd.
      - rewrite Z.add_0_r, binomz_1_r by lia. lia.
      - rewrite Nat2Z.inj_succ in *.
        pose proof (binomz_le_next_k n (1 + Z.of_nat d) ltac:(lia) ltac:(lia)).
        replace (1 + Z.succ (Z.of_nat d)) with (1 + Z.of_nat d + 1) by lia. lia. }
    specialize (G (Z.to_nat (k - 1))). rewrite Z2Nat.id in G by lia.
    replace (1 + (k - 1)) with k in G by lia. apply G. lia.
  - rewrite binomz_sym by lia.
    assert (G : forall d : nat, 1 + Z.of_nat d <= n - k -> n <= binomz n (1 + Z.of_nat d)).
    { induction d as [|d IH]; intros Hd.
      - rewrite Z.add_0_r, binomz_1_r by lia. lia.
      - rewrite Nat2Z.inj_succ in *.
        pose proof (binomz_le_next_k n (1 + Z.of_nat d) ltac:(lia) ltac:(lia)).
        replace (1 + Z.succ (Z.of_nat d)) with (1 + Z.of_nat d + 1) by lia. lia. }
    specialize (G (Z.to_nat (n - k - 1))). rewrite Z2Nat.id in G by lia.
    replace (1 + (n - k - 1)) with (n - k) in G by lia. apply G. lia.
Qed.

(* the central coefficients grow: C(2k,k) <= C(2k+2,k+1) *)
Lemma binomz_central_mono : forall k k', 0 <= k <= k' -> binomz (2 * k) k <= binomz (2 * k') k'.
Proof.
  intros k k' H.
  assert (G : forall d : nat, binomz (2 * k) k <= binomz (2 * (k + Z.of_nat d)) (k + Z.of_nat d)).
  { induction d as [|d IH]; [rewrite Z.add_0_r; lia|].
    rewrite Nat2Z.inj_succ. set (j := k + Z.of_nat d) in *.
    replace (k + Z.succ (Z.of_nat d)) with (j + 1) by lia.
    replace (2 * (j + 1)) with (2 * j + 1 + 1) by lia.
    rewrite binomz_pascal by lia.
    pose proof (binomz_mono (2 * j) (2 * j + 1) j ltac:(lia)).
    pose proof (binomz_nonneg (2 * j + 1) (j + 1)). lia. }
  specialize (G (Z.to_nat (k' - k))). rewrite Z2Nat.id in G by lia.
  replace (k + (k' - k)) with k' in G by lia. exact G.
Qed.

(* ---------------------------------------------------------------- fast_binom *)

Lemma fb_loop_spec : forall cnt m i, 0 <= m -> 1 <= i ->
  fb_loop cnt m i (binomz (m + i - 1) (i - 1)) = binomz (m + i - 1 + Z.of_nat cnt) (i - 1 + Z.of_nat cnt).
Proof.
  induction cnt as [|cnt IH]; intros m i Hm Hi.
  - cbn [fb_loop]. rewrite !Z.add_0_r. reflexivity.
  - cbn [fb_loop].
    assert (E : binomz (m + i - 1) (i - 1) * (m + i) / i = binomz (m + (i + 1) - 1) (i + 1 - 1)).
    { pose proof (binomz_absorb (m + i - 1) (i - 1) ltac:(lia) ltac:(lia)) as A.
      replace (m + i - 1 + 1) with (m + i) in A by lia. replace (i - 1 + 1) with i in A by lia.
      replace (m + (i + 1) - 1) with (m + i) by lia. replace (i + 1 - 1) with i by lia.
      rewrite (Z.mul_comm (binomz _ _)), <- A, Z.mul_comm. apply Z.div_mul. lia. }
    rewrite E, IH by lia. rewrite Nat2Z.inj_succ. f_equal; lia.
Qed.

Theorem fast_binom_correct n k : fast_binom n k = binomz n k.
Proof.
  unfold fast_binom.
  destruct (Z.ltb_spec n 0) as [Hn|Hn]; cbn [orb]; [rewrite binomz_neg by lia; reflexivity|].
  destruct (Z.ltb_spec k 0) as [Hk|Hk]; cbn [orb]; [rewrite binomz_neg by lia; reflexivity|].
  destruct (Z.ltb_spec n k) as [Hnk|Hnk]; [rewrite binomz_gt by lia; reflexivity|].
  set (k' := Z.min k (n - k)).
  assert (Hk' : 0 <= k' <= n) by (unfold k'; lia).
  pose proof (fb_loop_spec (Z.to_nat k') (n - k') 1 ltac:(lia) ltac:(lia)) as S.
  replace (n - k' + 1 - 1) with (n - k') in S by lia. replace (1 - 1) with 0 in S by lia.
  rewrite binomz_0_r in S by lia. rewrite S. rewrite Z2Nat.id by lia.
  replace (n - k' + k') with n by lia. rewrite Z.add_0_l.
  unfold k'. destruct (Z.min_spec k (n - k)) as [[_ ->]|[_ ->]]; [reflexivity|].
  symmetry. apply binomz_sym. lia.
Qed.
