(* CoeffUint64 and Coeff: exact or panic, never a wrapped value; and they do return whenever
   C(n,k) * min(k, n-k) fits the result type. *)
From Coq Require Import List ZArith Lia Bool.
From Mamba Require Import Gen.CombTables Comb.Model Comb.Spec Comb.Arith64 Comb.Binom Comb.Tables.
Import ListNotations.
Open Scope Z_scope.

(* The loop invariant: before the iteration with counter i, comb = C(n-k+i-1, i-1); the product
   comb * (n-k+i) = i * C(n-k+i, i) <= k * C(n,k) does not wrap and the division is exact. *)
Lemma coeff_loop_spec : forall cnt n k i,
  0 <= k <= n -> n < two64 -> 1 <= i -> i - 1 + Z.of_nat cnt = k ->
  k * binomz n k < two64 ->
  coeff_loop cnt n k i (binomz (n - k + i - 1) (i - 1)) = binomz n k.
Proof.
  induction cnt as [|cnt IH]; intros n k i Hk Hn Hi Hc Hfit.
  - cbn [coeff_loop]. f_equal; lia.
  - cbn [coeff_loop].
    assert (Hik : i <= k) by lia.
    rewrite (u64_id (n - k + i)) by lia.
    pose proof (binomz_absorb (n - k + i - 1) (i - 1) ltac:(lia) ltac:(lia)) as A.
    replace (n - k + i - 1 + 1) with (n - k + i) in A by lia. replace (i - 1 + 1) with i in A by lia.
    (* i * C(n-k+i, i) <= k * C(n,k) *)
    assert (B : binomz (n - k + i) i <= binomz n k).
    { rewrite (binomz_sym (n - k + i) i) by lia. rewrite (binomz_sym n k) by lia.
      replace (n - k + i - i) with (n - k) by lia. apply binomz_mono. lia. }
    pose proof (binomz_nonneg (n - k + i) i) as P.
    assert (F : 0 <= i * binomz (n - k + i) i < two64) by nia.
    replace (binomz (n - k + i - 1) (i - 1) * (n - k + i)) with (i * binomz (n - k + i) i) by lia.
    rewrite u64_id by exact F.
    rewrite Z.mul_comm, Z.div_mul by lia.
    replace (binomz (n - k + i) i) with (binomz (n - k + (i + 1) - 1) (i + 1 - 1)) by (f_equal; lia).
    apply IH; try lia.
Qed.

(* the column actually used: k' = min(k, n-k) *)
Lemma fold_col n k : 0 <= k <= n -> n < two64 ->
  (if k >? n / 2 then u64 (n - k) else k) = Z.min k (n - k).
Proof.
  intros Hk Hn. rewrite Z.gtb_ltb. destruct (Z.ltb_spec (n / 2) k) as [H|H].
  - rewrite u64_id by lia. pose proof (Z.div_mod n 2 ltac:(lia)). pose proof (Z.mod_pos_bound n 2 ltac:(lia)). lia.
  - pose proof (Z.div_mod n 2 ltac:(lia)). pose proof (Z.mod_pos_bound n 2 ltac:(lia)). lia.
Qed.

Lemma binomz_min n k : 0 <= k <= n -> binomz n (Z.min k (n - k)) = binomz n k.
Proof.
  intros H. destruct (Z.min_spec k (n - k)) as [[_ ->]|[_ ->]]; [reflexivity|].
  symmetry. apply binomz_sym. exact H.
Qed.

(* CoeffUint64 on all of uint64 x uint64: the exact value, or a panic outside the range the
   step-by-step product needs *)
Theorem coeff_u64_cases n k : 0 <= n < two64 -> 0 <= k < two64 ->
  coeff_u64 n k = Ret (binomz n k) \/
  (coeff_u64 n k = Panic /\ two64 <= binomz n k * Z.min k (n - k)).
Proof.
  intros Hn Hk. unfold coeff_u64. rewrite (Z.gtb_ltb k n).
  destruct (Z.ltb_spec n k) as [Hgt|Hle].
  { left. rewrite binomz_gt by lia. reflexivity. }
  rewrite fold_col by lia. rewrite <- (binomz_min n k) by lia.
  set (k' := Z.min k (n - k)).
  assert (Hk' : 0 <= k' /\ 2 * k' <= n) by (unfold k'; lia).
  destruct (Z.eqb_spec k' 0) as [E|E].
  { left. rewrite E, binomz_0_r by lia. reflexivity. }
  assert (Hdiv : k' <= n / 2).
  { pose proof (Z.div_mod n 2 ltac:(lia)). pose proof (Z.mod_pos_bound n 2 ltac:(lia)). lia. }
  destruct (Z.leb_spec n smallLimit) as [Hs|Hs].
  { left. destruct (small_entries_exact n k' ltac:(lia) ltac:(lia)) as (row & R1 & R2).
    rewrite R1. cbn [bind]. exact R2. }
  rewrite (Z.gtb_ltb k' largestK).
  destruct (Z.ltb_spec largestK k') as [Hl|Hl].
  { right. split; [reflexivity|]. pose proof (beyond_largestK n k' Hl ltac:(lia)). lia. }
  destruct (thresholds_tight k' ltac:(lia)) as (t & T1 & T2 & T3 & T4).
  rewrite T1. cbn [bind]. rewrite (Z.gtb_ltb n t).
  destruct (Z.ltb_spec t n) as [Ht|Ht].
  { right. split; [reflexivity|].
    pose proof (binomz_mono (t + 1) n k' ltac:(lia)). nia. }
  left. f_equal.
  pose proof (binomz_mono n t k' Ht).
  pose proof (coeff_loop_spec (Z.to_nat k') n k' 1 ltac:(lia) ltac:(lia) ltac:(lia) ltac:(lia) ltac:(nia)) as L.
  replace (n - k' + 1 - 1) with (n - k') in L by lia. change (1 - 1) with 0 in L.
  rewrite binomz_0_r in L by lia. exact L.
Qed.

Theorem coeff_u64_sound n k v : 0 <= n < two64 -> 0 <= k < two64 ->
  coeff_u64 n k = Ret v -> v = binomz n k.
Proof.
  intros Hn Hk H. destruct (coeff_u64_cases n k Hn Hk) as [E|[E _]]; rewrite E in H; congruence.
Qed.

Theorem coeff_u64_complete n k : 0 <= n < two64 -> 0 <= k < two64 ->
  binomz n k * Z.min k (n - k) < two64 -> coeff_u64 n k = Ret (binomz n k).
Proof.
  intros Hn Hk H. destruct (coeff_u64_cases n k Hn Hk) as [E|[_ E]]; [exact E|lia].
Qed.

Theorem coeff_u64_no_fuel n k : 0 <= n < two64 -> 0 <= k < two64 -> coeff_u64 n k <> OutOfFuel.
Proof.
  intros Hn Hk. destruct (coeff_u64_cases n k Hn Hk) as [E|[E _]]; rewrite E; discriminate.
Qed.

(* ---------------------------------------------------------------- Coeff *)

(* Coeff on all ints n >= 0 and all ints k: the exact value (0 for k < 0 or k > n), or a panic
   when C(n,k) * min(k, n-k) does not fit an int *)
Theorem coeff_cases n k : 0 <= n < two63 -> - two63 <= k < two63 ->
  (coeff n k = Ret (binomz n k) /\ 0 <= binomz n k <= maxInt) \/
  (coeff n k = Panic /\ maxInt < binomz n k * Z.min k (n - k)).
Proof.
  intros Hn Hk. unfold coeff. pose proof maxInt_val as MI. pose proof (binomz_nonneg n k) as NN.
  destruct (Z.ltb_spec n 0) as [H0|_]; [lia|].
  destruct (Z.ltb_spec k 0) as [Hneg|Hpos].
  { left. rewrite binomz_neg by lia. split; [reflexivity|]. unfold two63 in *. lia. }
  assert (T : two63 < two64) by reflexivity.
  rewrite (u64_id n), (u64_id k) by lia.
  destruct (coeff_u64_cases n k ltac:(lia) ltac:(lia)) as [E|[E B]]; rewrite E; cbn [bind].
  - rewrite Z.gtb_ltb. destruct (Z.ltb_spec maxInt (binomz n k)) as [Hb|Hb].
    + right. split; [reflexivity|].
      destruct (Z.ltb_spec n k) as [Hgt|Hle]; [rewrite binomz_gt in Hb by lia; lia|].
      destruct (Z.eq_dec (Z.min k (n - k)) 0) as [Z0|NZ].
      * rewrite <- (binomz_min n k) in Hb by lia. rewrite Z0, binomz_0_r in Hb by lia. unfold two63 in *. lia.
      * assert (1 <= Z.min k (n - k)) by lia. pose proof (binomz_nonneg n k). nia.
    + left. split; [|lia]. rewrite i64_id; [reflexivity|]. lia.
  - right. split; [reflexivity|]. unfold two64, two63 in *. lia.
Qed.

Theorem coeff_sound n k v : 0 <= n < two63 -> - two63 <= k < two63 ->
  coeff n k = Ret v -> v = binomz n k.
Proof.
  intros Hn Hk H. destruct (coeff_cases n k Hn Hk) as [[E _]|[E _]]; rewrite E in H; congruence.
Qed.

Theorem coeff_complete n k : 0 <= n < two63 -> - two63 <= k < two63 ->
  binomz n k * Z.min k (n - k) <= maxInt -> coeff n k = Ret (binomz n k).
Proof.
  intros Hn Hk H. destruct (coeff_cases n k Hn Hk) as [[E _]|[_ E]]; [exact E|lia].
Qed.

(* n < 0 is refused *)
Lemma coeff_neg n k : n < 0 -> coeff n k = Panic.
Proof. intros H. unfold coeff. destruct (Z.ltb_spec n 0); [reflexivity|lia]. Qed.
