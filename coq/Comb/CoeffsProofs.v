(* Coeffs(n) is Pascal's triangle (rows 0..n, row i = C(i,0..i/2)), or a panic exactly when
   some entry does not fit an int. *)
From Coq Require Import List ZArith Lia Bool.
From Mamba Require Import Gen.CombTables Comb.Model Comb.Spec Comb.Arith64 Comb.Binom Comb.Tables.
Import ListNotations.
Open Scope Z_scope.

Lemma zrange_S lo c : zrange lo (S c) = lo :: zrange (lo + 1) c.
Proof.
  unfold zrange. cbn [seq map]. f_equal; [lia|].
  rewrite <- seq_shift, map_map. apply map_ext. intros a. lia.
Qed.

Lemma nth_error_zrange : forall c lo p, (p < c)%nat -> nth_error (zrange lo c) p = Some (lo + Z.of_nat p).
Proof.
  induction c as [|c IH]; intros lo p H; [lia|].
  rewrite zrange_S. destruct p as [|p]; cbn [nth_error].
  - f_equal. lia.
  - rewrite IH by lia. f_equal. lia.
Qed.

Lemma idx_map_zrange (f : Z -> Z) c j : 0 <= j < Z.of_nat c -> idx (map f (zrange 0 c)) j = Ret (f j).
Proof.
  intros H. unfold idx. destruct (Z.ltb_spec j 0); [lia|].
  rewrite (map_nth_error f _ _ (nth_error_zrange c 0 (Z.to_nat j) ltac:(lia))).
  do 2 f_equal. lia.
Qed.

Lemma pascal_row_idx i j : 0 <= i -> 0 <= j <= i / 2 -> idx (pascal_row i) j = Ret (binomz i j).
Proof.
  intros Hi Hj. unfold pascal_row. apply idx_map_zrange. lia.
Qed.

Definition row_fits (i : Z) : Prop := forall j, 0 <= j <= i / 2 -> binomz i j <= maxInt.

Lemma half_facts i : 0 <= i -> 2 * (i / 2) <= i < 2 * (i / 2) + 2.
Proof. intros H. pose proof (Z.div_mod i 2 ltac:(lia)). pose proof (Z.mod_pos_bound i 2 ltac:(lia)). lia. Qed.

(* the inner loop: entries j.., given the entries below j *)
Lemma row_fill_spec i prev : 1 <= i -> prev = pascal_row (i - 1) -> row_fits (i - 1) ->
  forall cnt j acc, 1 <= j -> j + Z.of_nat cnt = i / 2 + 1 ->
  (row_fill cnt i j prev acc = Ret (rev acc ++ map (binomz i) (zrange j cnt)) /\
   (forall j', j <= j' <= i / 2 -> binomz i j' <= maxInt)) \/
  (row_fill cnt i j prev acc = Panic /\ exists j', j <= j' <= i / 2 /\ maxInt < binomz i j').
Proof.
  intros Hi Hprev Hfits. subst prev. pose proof maxInt_val as MI.
  induction cnt as [|cnt IH]; intros j acc Hj Hc.
  - left. cbn [row_fill]. change (zrange j 0) with (@nil Z). cbn [map]. rewrite app_nil_r.
    split; [reflexivity|]. intros j' H. lia.
  - cbn [row_fill]. pose proof (half_facts i ltac:(lia)) as HF. pose proof (half_facts (i - 1) ltac:(lia)) as HF1.
    assert (Hjm : 0 <= j - 1 <= (i - 1) / 2) by lia.
    (* the second summand is C(i-1, j) in both branches *)
    assert (E2 : (if 2 * j =? i then idx (pascal_row (i - 1)) (j - 1) else idx (pascal_row (i - 1)) j)
                 = Ret (binomz (i - 1) j)).
    { destruct (Z.eqb_spec (2 * j) i) as [E|E].
      - rewrite pascal_row_idx by lia. f_equal.
        rewrite (binomz_sym (i - 1) (j - 1)) by lia. f_equal. lia.
      - apply pascal_row_idx; lia. }
    rewrite E2. rewrite (pascal_row_idx (i - 1) (j - 1)) by lia. cbn [bind].
    assert (P : binomz i j = binomz (i - 1) (j - 1) + binomz (i - 1) j).
    { pose proof (binomz_pascal (i - 1) (j - 1) ltac:(lia) ltac:(lia)) as P.
      replace (i - 1 + 1) with i in P by lia. replace (j - 1 + 1) with j in P by lia. exact P. }
    assert (Ra : - two63 <= binomz (i - 1) (j - 1) < two63).
    { pose proof (binomz_nonneg (i - 1) (j - 1)). pose proof (Hfits (j - 1) ltac:(lia)). unfold two63 in *. lia. }
    assert (Rb : - two63 <= binomz (i - 1) j < two63).
    { pose proof (binomz_nonneg (i - 1) j). split; [unfold two63; lia|].
      destruct (Z.eq_dec (2 * j) i) as [E|E].
      - rewrite (binomz_sym (i - 1) j) by lia. replace (i - 1 - j) with (j - 1) by lia. lia.
      - pose proof (Hfits j ltac:(lia)). unfold two63 in *. lia. }
    destruct (Z.le_gt_cases (binomz i j) maxInt) as [Hfit|Hbig].
    + rewrite add_ovf_ok by (try assumption; pose proof (binomz_nonneg i j); unfold two63 in *; lia).
      rewrite <- P.
      destruct (IH (j + 1) (binomz i j :: acc) ltac:(lia) ltac:(lia)) as [[R F]|[R (j' & J1 & J2)]].
      * left. split.
        -- rewrite R. cbn [rev]. rewrite <- app_assoc. cbn [app]. rewrite zrange_S. reflexivity.
        -- intros j' H'. destruct (Z.eq_dec j' j) as [->|N]; [exact Hfit|apply F; lia].
      * right. split; [exact R|]. exists j'. split; [lia|exact J2].
    + right. pose proof (add_ovf_bad _ _ Ra Rb ltac:(unfold two63 in *; lia)) as B.
      destruct (add_ovf (binomz (i - 1) (j - 1)) (binomz (i - 1) j)) as [s o]. cbn [snd] in B. subst o.
      split; [reflexivity|]. exists j. split; [lia|exact Hbig].
Qed.

Lemma pascal_row_0 : pascal_row 0 = [1].
Proof. reflexivity. Qed.

Lemma pascal_row_cons i : 0 <= i -> pascal_row i = 1 :: map (binomz i) (zrange 1 (Z.to_nat (i / 2))).
Proof.
  intros Hi. unfold pascal_row. pose proof (half_facts i Hi).
  replace (Z.to_nat (i / 2 + 1)) with (S (Z.to_nat (i / 2))) by lia.
  rewrite zrange_S. cbn [map]. rewrite binomz_0_r by lia. reflexivity.
Qed.

(* one row from the previous one *)
Lemma next_row_spec i prev : 0 <= i ->
  (i = 0 \/ (prev = pascal_row (i - 1) /\ row_fits (i - 1))) ->
  (next_row i prev = Ret (pascal_row i) /\ row_fits i) \/
  (next_row i prev = Panic /\ exists j, 0 <= j <= i / 2 /\ maxInt < binomz i j).
Proof.
  intros Hi Hprev. destruct (Z.eq_dec i 0) as [E|NE].
  - subst i. left. split; [reflexivity|]. intros j Hj. change (0 / 2) with 0 in Hj.
    replace j with 0 by lia. rewrite maxInt_val. change (binomz 0 0) with 1. unfold two63. lia.
  - destruct Hprev as [E|[Hp Hf]]; [lia|].
    pose proof (half_facts i Hi).
    unfold next_row.
    destruct (row_fill_spec i prev ltac:(lia) Hp Hf (Z.to_nat (i / 2)) 1 [1] ltac:(lia) ltac:(lia))
      as [[R F]|[R (j & J1 & J2)]].
    + left. split.
      * rewrite R. cbn [rev app]. rewrite pascal_row_cons by lia. reflexivity.
      * intros j Hj. destruct (Z.eq_dec j 0) as [->|N]; [|apply F; lia].
        rewrite binomz_0_r, maxInt_val by lia. unfold two63. lia.
    + right. split; [exact R|]. exists j. split; [lia|exact J2].
Qed.

(* the outer loop *)
Lemma coeffs_go_spec : forall cnt i prev acc, 0 <= i ->
  (i = 0 \/ (prev = pascal_row (i - 1) /\ row_fits (i - 1))) ->
  (coeffs_go cnt i prev acc = Ret (rev acc ++ map pascal_row (zrange i cnt)) /\
   (forall i', i <= i' < i + Z.of_nat cnt -> row_fits i')) \/
  (coeffs_go cnt i prev acc = Panic /\
   exists i' j, i <= i' < i + Z.of_nat cnt /\ 0 <= j <= i' / 2 /\ maxInt < binomz i' j).
Proof.
  induction cnt as [|cnt IH]; intros i prev acc Hi Hp.
  - left. cbn [coeffs_go]. change (zrange i 0) with (@nil Z). cbn [map]. rewrite app_nil_r.
    split; [reflexivity|]. intros; lia.
  - cbn [coeffs_go].
    destruct (next_row_spec i prev Hi Hp) as [[R F]|[R (j & J1 & J2)]]; rewrite R; cbn [bind].
    + destruct (IH (i + 1) (pascal_row i) (pascal_row i :: acc) ltac:(lia)) as [[R' F']|[R' (i' & j & I1 & J1 & J2)]].
      { right. replace (i + 1 - 1) with i by lia. split; [reflexivity|exact F]. }
      * left. split.
        -- rewrite R'. cbn [rev]. rewrite <- app_assoc. cbn [app]. rewrite zrange_S. reflexivity.
        -- intros i' H'. destruct (Z.eq_dec i' i) as [->|N]; [exact F|apply F'; lia].
      * right. split; [exact R'|]. exists i', j. repeat split; try lia; assumption.
    + right. split; [reflexivity|]. exists i, j. repeat split; try lia; assumption.
Qed.

(* Coeffs(n) for every int n >= 0 (n + 1 must itself be an int: n < MaxInt) *)
Theorem coeffs_cases n : 0 <= n < two63 - 1 ->
  (coeffs n = Ret (pascal n) /\ forall i j, 0 <= i <= n -> 0 <= j <= i / 2 -> binomz i j <= maxInt) \/
  (coeffs n = Panic /\ exists i j, 0 <= i <= n /\ 0 <= j <= i / 2 /\ maxInt < binomz i j).
Proof.
  intros Hn. unfold coeffs. rewrite i64_id by (unfold two63 in *; lia).
  destruct (Z.ltb_spec (n + 1) 0) as [H|_]; [lia|].
  destruct (coeffs_go_spec (Z.to_nat (n + 1)) 0 [] [] ltac:(lia) ltac:(left; reflexivity))
    as [[R F]|[R (i & j & I1 & J1 & J2)]].
  - left. split; [exact R|]. intros i j Hi Hj. apply (F i); lia.
  - right. split; [exact R|]. exists i, j. repeat split; try lia; assumption.
Qed.

Theorem coeffs_sound n rows : 0 <= n < two63 - 1 -> coeffs n = Ret rows -> rows = pascal n.
Proof.
  intros Hn H. destruct (coeffs_cases n Hn) as [[E _]|[E _]]; rewrite E in H; congruence.
Qed.

(* the largest entry of the triangle is the central one of the last row *)
Lemma binomz_le_central : forall i j, 0 <= i -> 0 <= j <= i / 2 -> binomz i j <= binomz i (i / 2).
Proof.
  intros i j Hi Hj. pose proof (half_facts i Hi).
  assert (G : forall d : nat, j + Z.of_nat d <= i / 2 -> binomz i j <= binomz i (j + Z.of_nat d)).
  { induction d as [|d IH]; intros Hd; [rewrite Z.add_0_r; lia|].
    rewrite Nat2Z.inj_succ in *.
    pose proof (binomz_le_next_k i (j + Z.of_nat d) ltac:(lia) ltac:(lia)).
    replace (j + Z.succ (Z.of_nat d)) with (j + Z.of_nat d + 1) by lia. lia. }
  specialize (G (Z.to_nat (i / 2 - j))). rewrite Z2Nat.id in G by lia.
  replace (j + (i / 2 - j)) with (i / 2) in G by lia. apply G. lia.
Qed.

Lemma central_mono_S i : 0 <= i -> binomz i (i / 2) <= binomz (i + 1) ((i + 1) / 2).
Proof.
  intros Hi. pose proof (half_facts i Hi). pose proof (half_facts (i + 1) ltac:(lia)).
  destruct (Z.eq_dec ((i + 1) / 2) (i / 2)) as [E|E].
  - rewrite E. apply binomz_mono. lia.
  - replace ((i + 1) / 2) with (i / 2 + 1) by lia. rewrite binomz_pascal by lia.
    pose proof (binomz_nonneg i (i / 2 + 1)). lia.
Qed.

Lemma central_mono i n : 0 <= i <= n -> binomz i (i / 2) <= binomz n (n / 2).
Proof.
  intros H.
  assert (G : forall d : nat, binomz i (i / 2) <= binomz (i + Z.of_nat d) ((i + Z.of_nat d) / 2)).
  { induction d as [|d IH]; [rewrite Z.add_0_r; lia|].
    rewrite Nat2Z.inj_succ. pose proof (central_mono_S (i + Z.of_nat d) ltac:(lia)).
    replace (i + Z.succ (Z.of_nat d)) with (i + Z.of_nat d + 1) by lia. lia. }
  specialize (G (Z.to_nat (n - i))). rewrite Z2Nat.id in G by lia.
  replace (i + (n - i)) with n in G by lia. exact G.
Qed.

(* Coeffs(n) returns Pascal's triangle exactly when C(n, n/2) fits an int *)
Theorem coeffs_iff_central n : 0 <= n < two63 - 1 ->
  (binomz n (n / 2) <= maxInt -> coeffs n = Ret (pascal n)) /\
  (maxInt < binomz n (n / 2) -> coeffs n = Panic).
Proof.
  intros Hn. pose proof (half_facts n ltac:(lia)) as HF.
  destruct (coeffs_cases n Hn) as [[E F]|[E (i & j & I & J & B)]]; split; intros H; try exact E; exfalso.
  - specialize (F n (n / 2) ltac:(lia) ltac:(lia)). lia.
  - pose proof (binomz_le_central i j ltac:(lia) J). pose proof (central_mono i n I). lia.
Qed.
