(* The model of itertools.CombinationsColex (Iter/Model.v, proved in Iter/Colex.v to list the
   k-subsets of {0..n-1} in colex order) yields Unrank(0,k), Unrank(1,k), ... in this order.
   This file only reads the Iter area (owner: C15). *)
From Coq Require Import List ZArith Lia Bool Sorted.
From Mamba Require Import Gen.CombTables Comb.Model Comb.Spec Comb.Binom Comb.RankProofs Comb.UnrankProofs
  Comb.ColexEnum.
From Mamba Require Iter.Model Iter.Enum Iter.Comb Iter.Colex.
Import ListNotations.
Open Scope Z_scope.

(* [in_comb] of Iter/Comb.v (stated with nth) is [below] *)
Lemma chain_ge : forall (t : list Z) a, (forall i, (S i < length (a :: t))%nat -> nth i (a :: t) 0 < nth (S i) (a :: t) 0) ->
  forall i, (i < length t)%nat -> a + 1 <= nth i t 0.
Proof.
  intros t a H. induction i as [|i IH]; intros Hi.
  - specialize (H 0%nat). cbn [length nth] in H. specialize (H ltac:(lia)). lia.
  - specialize (IH ltac:(lia)). specialize (H (S i)). cbn [length] in H. specialize (H ltac:(lia)).
    cbn [nth] in H. lia.
Qed.

Lemma nth_form_iff n : forall (x : list Z) lo, lo <= n ->
  ((forall i, (i < length x)%nat -> lo <= nth i x 0 < n) /\
   (forall i, (S i < length x)%nat -> nth i x 0 < nth (S i) x 0))
  <-> (incr_from lo x /\ top lo x <= n).
Proof.
  induction x as [|a t IH]; intros lo Hlo.
  - cbn [incr_from top length]. split; [intros _; split; [exact I|exact Hlo]|].
    intros _. split; intros i Hi; lia.
  - cbn [incr_from top]. split.
    + intros [Hb Hc].
      pose proof (Hb 0%nat ltac:(cbn [length]; lia)) as H0. cbn [nth] in H0.
      assert (P : (forall i, (i < length t)%nat -> a + 1 <= nth i t 0 < n) /\
                  (forall i, (S i < length t)%nat -> nth i t 0 < nth (S i) t 0)).
      { split.
        - intros i Hi. split; [apply (chain_ge t a Hc i Hi)|].
          specialize (Hb (S i) ltac:(cbn [length]; lia)). cbn [nth] in Hb. lia.
        - intros i Hi. specialize (Hc (S i) ltac:(cbn [length]; lia)). cbn [nth] in Hc. exact Hc. }
      apply (IH (a + 1) ltac:(lia)) in P. destruct P as [P1 P2]. repeat split; try assumption; lia.
    + intros [[H1 H2] H3]. pose proof (top_ge t (a + 1) H2) as G.
      destruct (proj2 (IH (a + 1) ltac:(lia)) (conj H2 H3)) as [Pb Pc]. split.
      * intros [|i] Hi; cbn [nth length] in *; [lia|]. specialize (Pb i ltac:(lia)). lia.
      * intros [|i] Hi; cbn [nth length] in *.
        -- destruct t as [|b t']; [cbn [length] in Hi; lia|]. specialize (Pb 0%nat ltac:(cbn [length]; lia)).
           cbn [nth] in *. lia.
        -- apply Pc. lia.
Qed.

Lemma in_comb_below n k x : 0 <= n -> (Iter.Comb.in_comb n k x <-> below n k x).
Proof.
  intros Hn. unfold Iter.Comb.in_comb, below, subset_nat. split.
  - intros (L & B & C). split; [exact L|]. apply (nth_form_iff n x 0 Hn). rewrite L. split; assumption.
  - intros (L & Q). split; [exact L|]. rewrite <- L. apply (nth_form_iff n x 0 Hn). exact Q.
Qed.

Lemma sorted_transfer n k (l : list (list Z)) : 0 <= n ->
  (forall x, In x l -> Iter.Comb.in_comb n k x) ->
  StronglySorted Iter.Colex.colex_lt l -> StronglySorted colex_lt l.
Proof.
  intros Hn. induction l as [|a t IH]; intros H S; [constructor|].
  inversion S as [|? ? St Fa]; subst. constructor.
  - apply IH; [|exact St]. intros x Hx. apply H. right. exact Hx.
  - rewrite Forall_forall in *. intros y Hy.
    destruct (H a (or_introl eq_refl)) as [La _]. destruct (H y (or_intror Hy)) as [Ly _].
    apply colex_lt_nth_iff; [lia|]. exact (Fa y Hy).
Qed.

(* For all n >= 0 and k with C(n,k) - 1 <= MaxInt: the model of CombinationsColex(n,k), drained,
   yields exactly C(n,k) values, then reports exhaustion for ever, and its i-th value is
   Unrank(i,k) (so Rank of it, when it returns, is i). *)
Theorem combinations_colex_is_unrank n k : 0 <= n -> Z.of_nat k <= maxInt ->
  binomz n (Z.of_nat k) <= maxInt + 1 ->
  exists fuel l e,
    Iter.Enum.drain Iter.Model.colex_next Iter.Model.colex_value fuel (Iter.Model.colex_init n k) = Some (l, e) /\
    Iter.Enum.exhausted Iter.Model.colex_next e /\
    Z.of_nat (length l) = binomz n (Z.of_nat k) /\
    forall i, (i < length l)%nat -> unrank (Z.of_nat i) (Z.of_nat k) = Ret (nth i l []).
Proof.
  intros Hn Hk HN.
  destruct (Iter.Colex.colex_enumerates n k) as (fuel & l & e & D & S & M & X).
  exists fuel, l, e. split; [exact D|]. split; [exact X|].
  apply colex_listing_is_unrank; try assumption.
  - apply (sorted_transfer n k); [exact Hn| |exact S]. intros x Hx. apply M. exact Hx.
  - intros x. rewrite M. apply in_comb_below. exact Hn.
Qed.
