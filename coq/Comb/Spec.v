(* Specification side of C16 (definitions only).

   [binom] is Pascal's triangle on nat (the specification of "the binomial coefficient");
   [binomz] is its extension to Z (0 outside 0 <= k, 0 <= n).  [fast_binom] is an efficiently
   computable function proved equal to [binomz] (Binom.v); it is used to evaluate the checks of
   the regenerated tables and, extracted, by the model driver to check the model's own results
   against the specification when a proof is broken. *)
From Coq Require Import List ZArith Bool.
From Mamba Require Import Gen.CombTables Comb.Model.
Import ListNotations.
Open Scope Z_scope.

Fixpoint binom (n k : nat) : Z :=
  match n, k with
  | _, O => 1
  | O, S _ => 0
  | S n', S k' => binom n' k' + binom n' k
  end.

Definition binomz (n k : Z) : Z :=
  if (n <? 0) || (k <? 0) then 0 else binom (Z.to_nat n) (Z.to_nat k).

(* c_j = c_{j-1} * (m + j) / j, exact in Z: after the loop c = C(m + cnt, cnt) *)
Fixpoint fb_loop (cnt : nat) (m i c : Z) : Z :=
  match cnt with
  | O => c
  | S cnt' => fb_loop cnt' m (i + 1) (c * (m + i) / i)
  end.

Definition fast_binom (n k : Z) : Z :=
  if (n <? 0) || (k <? 0) || (n <? k) then 0
  else let k' := Z.min k (n - k) in fb_loop (Z.to_nat k') (n - k') 1 1.

(* lo, lo+1, ..., lo+cnt-1 *)
Definition zrange (lo : Z) (cnt : nat) : list Z := map (fun j => lo + Z.of_nat j) (seq 0 cnt).

(* ---------------------------------------------------------------- checks of the regenerated tables *)

(* every entry smallEntries[n][k], n <= smallLimit, k <= n/2, is present and is C(n,k) *)
Definition small_row_ok (n : Z) : bool :=
  match idx smallEntries n with
  | Ret row => forallb (fun k => match idx row k with
                                 | Ret v => v =? fast_binom n k
                                 | _ => false
                                 end) (zrange 0 (Z.to_nat (n / 2 + 1)))
  | _ => false
  end.

Definition small_ok : bool := forallb small_row_ok (zrange 0 (Z.to_nat (smallLimit + 1))).

(* maxSizes[k] is present, is a uint64 and is the largest n with k * C(n,k) < 2^64:
   both sides of the threshold *)
Definition threshold_ok (k : Z) : bool :=
  match idx maxSizes k with
  | Ret t => (0 <=? t) && (t <? two64) && (k * fast_binom t k <? two64) && (two64 <=? k * fast_binom (t + 1) k)
  | _ => false
  end.

Definition thresholds_ok : bool := forallb threshold_ok (zrange 1 (Z.to_nat largestK)).

(* beyond largestK the step-by-step product always overflows: with k <= n/2 and k > largestK,
   k * C(n,k) >= (largestK+1) * C(2(largestK+1), largestK+1) >= 2^64 *)
Definition beyond_ok : bool :=
  (0 <=? largestK) && (two64 <=? (largestK + 1) * fast_binom (2 * (largestK + 1)) (largestK + 1)).

Definition consts_ok : bool := (maxInt =? (two63 - 1)) && (0 <=? smallLimit) && negb translation_failed_comb.

Definition tables_ok : bool := small_ok && thresholds_ok && beyond_ok && consts_ok.

(* the table holds nothing but the rows 0..smallLimit with n/2+1 entries each *)
Definition small_shape_ok : bool :=
  (Z.of_nat (length smallEntries) =? smallLimit + 1) &&
  forallb (fun n => match idx smallEntries n with
                    | Ret row => Z.of_nat (length row) =? n / 2 + 1
                    | _ => false
                    end) (zrange 0 (length smallEntries)) &&
  (Z.of_nat (length maxSizes) =? largestK + 1).

(* ---------------------------------------------------------------- k-subsets, colex order, rank *)

(* strictly increasing, all elements >= lo *)
Fixpoint incr_from (lo : Z) (c : list Z) : Prop :=
  match c with
  | [] => True
  | v :: t => lo <= v /\ incr_from (v + 1) t
  end.

(* a finite set of naturals written as its increasing list *)
Definition subset_nat (c : list Z) : Prop := incr_from 0 c.

(* colexicographic order on lists of equal length: the last position where they differ decides *)
Fixpoint colex_lt (c d : list Z) : Prop :=
  match c, d with
  | x :: c', y :: d' => colex_lt c' d' \/ (c' = d' /\ x < y)
  | _, _ => False
  end.

(* sum over positions j (counted from i) of C(c_j, j+1) *)
Fixpoint crank_from (i : Z) (c : list Z) : Z :=
  match c with
  | [] => 0
  | v :: t => binomz v (i + 1) + crank_from (i + 1) t
  end.

Definition crank (c : list Z) : Z := crank_from 0 c.

(* Pascal's triangle as Coeffs lays it out: rows 0..n, row i holding C(i,0..i/2) *)
Definition pascal_row (i : Z) : list Z := map (fun j => binomz i j) (zrange 0 (Z.to_nat (i / 2 + 1))).
Definition pascal (n : Z) : list (list Z) := map pascal_row (zrange 0 (Z.to_nat (n + 1))).

(* ---------------------------------------------------------------- computable checks for the driver *)

Fixpoint incr_fromb (lo : Z) (c : list Z) : bool :=
  match c with
  | [] => true
  | v :: t => (lo <=? v) && incr_fromb (v + 1) t
  end.

Fixpoint list_eqb (a b : list Z) : bool :=
  match a, b with
  | [], [] => true
  | x :: a', y :: b' => (x =? y) && list_eqb a' b'
  | _, _ => false
  end.

Fixpoint rows_eqb (a b : list (list Z)) : bool :=
  match a, b with
  | [], [] => true
  | x :: a', y :: b' => list_eqb x y && rows_eqb a' b'
  | _, _ => false
  end.

Definition pascalf (n : Z) : list (list Z) :=
  map (fun i => map (fun j => fast_binom i j) (zrange 0 (Z.to_nat (i / 2 + 1)))) (zrange 0 (Z.to_nat (n + 1))).

(* C(n,k) if it is below 2^64, else None -- without computing the huge values: the partial
   products C(m+i,i) only grow, so the loop stops at the first one >= 2^64, and for
   min(k,n-k) >= 34 nothing is computed at all (C(n,k) >= C(68,34) > 2^64). *)
Definition hugeK : Z := 34.

Fixpoint fb_loop_cap (cnt : nat) (m i c : Z) : option Z :=
  match cnt with
  | O => Some c
  | S cnt' => let c' := c * (m + i) / i in
              if two64 <=? c' then None else fb_loop_cap cnt' m (i + 1) c'
  end.

Definition binom_small (n k : Z) : option Z :=
  if (n <? 0) || (k <? 0) || (n <? k) then Some 0
  else let k' := Z.min k (n - k) in
       if hugeK <=? k' then None else fb_loop_cap (Z.to_nat k') (n - k') 1 1.

Definition is_panic {A} (r : Res A) : bool := match r with Panic => true | _ => false end.

(* In the two checks below [exact] is [binom_small n k] (computed once by the driver). *)

(* CoeffUint64(n,k), 0 <= n,k < 2^64: exact, or a panic outside the range C(n,k)*min(k,n-k) < 2^64 *)
Definition coeff_u64_meets_spec (n k : Z) (exact : option Z) (r : Res Z) : bool :=
  match exact with
  | None => is_panic r
  | Some c =>
    match r with
    | Ret v => v =? c
    | Panic => negb (c * Z.min k (n - k) <? two64)
    | OutOfFuel => false
    end
  end.

(* Coeff(n,k), n >= 0 *)
Definition coeff_meets_spec (n k : Z) (exact : option Z) (r : Res Z) : bool :=
  match exact with
  | None => is_panic r
  | Some c =>
    match r with
    | Ret v => v =? c
    | Panic => negb (c * Z.min k (n - k) <=? (two63 - 1))
    | OutOfFuel => false
    end
  end.

(* Coeffs(n), n >= 0: Pascal's triangle, or a panic when some entry exceeds an int *)
Definition coeffs_meets_spec (n : Z) (r : Res (list (list Z))) : bool :=
  match r with
  | Ret rows => (n <? 2 * hugeK) && rows_eqb rows (pascalf n)
  | Panic => match binom_small n (n / 2) with None => true | Some c => (two63 - 1) <? c end
  | OutOfFuel => false
  end.

(* sum of C(c_j, i+j+1), None when some term is beyond binom_small *)
Fixpoint crank_small (i : Z) (c : list Z) : option Z :=
  match c with
  | [] => Some 0
  | v :: t => match binom_small v (i + 1), crank_small (i + 1) t with
              | Some b, Some s => Some (b + s)
              | _, _ => None
              end
  end.

(* Rank(c), c strictly increasing naturals: the colex rank or a panic *)
Definition rank_meets_spec (c : list Z) (r : Res Z) : bool :=
  match r with
  | Ret v => match crank_small 0 c with Some s => v =? s | None => false end
  | Panic => true
  | OutOfFuel => false
  end.

(* Unrank(r,k), 0 <= r <= maxInt, k >= 1 or r = 0: the k-subset of colex rank r *)
Definition unrank_meets_spec (r k : Z) (res : Res (list Z)) : bool :=
  match res with
  | Ret c => (Z.of_nat (length c) =? k) && incr_fromb 0 c &&
             match crank_small 0 c with Some s => s =? r | None => false end
  | _ => false
  end.
