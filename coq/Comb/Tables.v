(* The regenerated tables of comb.go (Gen/CombTables.v) are what the proofs need: the boolean
   sweeps of Spec.v are evaluated here by the kernel ([vm_compute]) and lifted to statements
   about [binomz].  When a table entry or a threshold of /repo changes, [tables_ok_true] fails. *)
From Coq Require Import List ZArith Lia Bool.
From Mamba Require Import Gen.CombTables Comb.Model Comb.Spec Comb.Binom.
Import ListNotations.
Open Scope Z_scope.

Lemma tables_ok_true : tables_ok = true.
Proof. vm_compute. reflexivity. Qed.

Lemma small_shape_ok_true : small_shape_ok = true.
Proof. vm_compute. reflexivity. Qed.

Lemma zrange_In lo cnt x : lo <= x < lo + Z.of_nat cnt -> In x (zrange lo cnt).
Proof.
  intros H. unfold zrange. apply in_map_iff. exists (Z.to_nat (x - lo)). split; [lia|].
  apply in_seq. lia.
Qed.

Lemma zrange_length lo cnt : length (zrange lo cnt) = cnt.
Proof. unfold zrange. rewrite map_length, seq_length. reflexivity. Qed.

Lemma small_ok_true : small_ok = true.
Proof. vm_compute. reflexivity. Qed.
Lemma thresholds_ok_true : thresholds_ok = true.
Proof. vm_compute. reflexivity. Qed.
Lemma beyond_ok_true : beyond_ok = true.
Proof. vm_compute. reflexivity. Qed.
Lemma consts_ok_true : consts_ok = true.
Proof. vm_compute. reflexivity. Qed.

Lemma tables_parts : small_ok = true /\ thresholds_ok = true /\ beyond_ok = true /\ consts_ok = true.
Proof.
  exact (conj small_ok_true (conj thresholds_ok_true (conj beyond_ok_true consts_ok_true))).
Qed.

Lemma maxInt_val : maxInt = two63 - 1.
Proof.
  destruct tables_parts as (_ & _ & _ & H). unfold consts_ok in H. rewrite !andb_true_iff in H.
  destruct H as [[H _] _]. apply Z.eqb_eq in H. exact H.
Qed.

Lemma smallLimit_nonneg : 0 <= smallLimit.
Proof.
  destruct tables_parts as (_ & _ & _ & H). unfold consts_ok in H. rewrite !andb_true_iff in H.
  destruct H as [[_ H] _]. apply Z.leb_le in H. exact H.
Qed.

Lemma largestK_nonneg : 0 <= largestK.
Proof.
  destruct tables_parts as (_ & _ & H & _). unfold beyond_ok in H. rewrite !andb_true_iff in H.
  destruct H as [H _]. apply Z.leb_le in H. exact H.
Qed.

(* every entry of the table is the binomial coefficient *)
Lemma small_entries_exact n k : 0 <= n <= smallLimit -> 0 <= k <= n / 2 ->
  exists row, idx smallEntries n = Ret row /\ idx row k = Ret (binomz n k).
Proof.
  intros Hn Hk. destruct tables_parts as (H & _).
  unfold small_ok in H. rewrite forallb_forall in H.
  specialize (H n). lapply H; [clear H; intros H|apply zrange_In; lia]. unfold small_row_ok in H.
  destruct (idx smallEntries n) as [row| |]; try discriminate.
  exists row. split; [reflexivity|].
  rewrite forallb_forall in H.
  specialize (H k). lapply H; [clear H; intros H|apply zrange_In; lia].
  destruct (idx row k) as [v| |]; try discriminate.
  apply Z.eqb_eq in H. rewrite H, fast_binom_correct. reflexivity.
Qed.

(* both sides of every overflow threshold *)
Lemma thresholds_tight k : 1 <= k <= largestK ->
  exists t, idx maxSizes k = Ret t /\ 0 <= t < two64 /\
            k * binomz t k < two64 /\ two64 <= k * binomz (t + 1) k.
Proof.
  intros Hk. destruct tables_parts as (_ & H & _).
  unfold thresholds_ok in H. rewrite forallb_forall in H.
  specialize (H k). lapply H; [clear H; intros H|apply zrange_In; lia]. unfold threshold_ok in H.
  destruct (idx maxSizes k) as [t| |]; try discriminate.
  exists t. rewrite !andb_true_iff in H. destruct H as [[[H1 H2] H3] H4].
  rewrite !fast_binom_correct in *.
  apply Z.leb_le in H1, H4. apply Z.ltb_lt in H2, H3. repeat split; assumption.
Qed.

(* beyond largestK the step-by-step product always leaves uint64 *)
Lemma beyond_largestK n k : largestK < k -> 2 * k <= n -> two64 <= k * binomz n k.
Proof.
  intros Hk Hn. destruct tables_parts as (_ & _ & H & _).
  unfold beyond_ok in H. rewrite !andb_true_iff in H. destruct H as [H0 H].
  apply Z.leb_le in H0, H. rewrite fast_binom_correct in H.
  pose proof (binomz_central_mono (largestK + 1) k ltac:(lia)) as C.
  pose proof (binomz_mono (2 * k) n k Hn) as M.
  pose proof (binomz_nonneg (2 * (largestK + 1)) (largestK + 1)). nia.
Qed.
