(* Any listing of the k-subsets of {0..n-1} in colex order is Unrank(0,k), Unrank(1,k), ...:
   the link between Rank/Unrank and an enumeration in colex order such as CombinationsColex. *)
From Coq Require Import List ZArith Lia Bool Sorted.
From Mamba Require Import Gen.CombTables Comb.Model Comb.Spec Comb.Arith64 Comb.Binom Comb.Tables
  Comb.CoeffsProofs Comb.RankProofs Comb.UnrankProofs.
Import ListNotations.
Open Scope Z_scope.

(* x is a k-subset of {0..n-1}, written as its increasing list *)
Definition below (n : Z) (k : nat) (x : list Z) : Prop :=
  length x = k /\ subset_nat x /\ top 0 x <= n.

(* the rank sum is at least the term of the last element *)
Lemma crank_from_ge_last : forall c i lo, c <> [] ->
  binomz (top lo c - 1) (i + Z.of_nat (length c)) <= crank_from i c.
Proof.
  induction c as [|v t IH]; intros i lo Hne; [congruence|].
  destruct t as [|w t'].
  - cbn [top length crank_from]. change (Z.of_nat 1) with 1. replace (v + 1 - 1) with v by lia. lia.
  - specialize (IH (i + 1) (v + 1) ltac:(discriminate)).
    change (top lo (v :: w :: t')) with (top (v + 1) (w :: t')).
    change (crank_from i (v :: w :: t')) with (binomz v (i + 1) + crank_from (i + 1) (w :: t')).
    change (length (v :: w :: t')) with (S (length (w :: t'))). rewrite Nat2Z.inj_succ.
    replace (i + Z.succ (Z.of_nat (length (w :: t')))) with (i + 1 + Z.of_nat (length (w :: t'))) by lia.
    pose proof (binomz_nonneg v (i + 1)). lia.
Qed.

Lemma crank_lt_below c n : subset_nat c -> crank c < binomz n (Z.of_nat (length c)) -> top 0 c <= n.
Proof.
  intros Hc H. destruct c as [|v t].
  - cbn [top]. destruct (Z.lt_ge_cases n 0) as [N|N]; [|exact N].
    rewrite binomz_neg in H by lia. unfold crank in H. cbn in H. lia.
  - pose proof (crank_from_ge_last (v :: t) 0 0 ltac:(discriminate)) as G. rewrite Z.add_0_l in G.
    fold (crank (v :: t)) in G.
    pose proof (binomz_lt_inv (top 0 (v :: t) - 1) n (Z.of_nat (length (v :: t))) ltac:(lia)). lia.
Qed.

Lemma below_crank n k x : below n k x -> 0 <= crank x < binomz n (Z.of_nat k).
Proof.
  intros (L & Sx & T). split; [apply crank_from_nonneg|].
  pose proof (crank_lt_top x Sx) as B. rewrite L in B.
  pose proof (binomz_mono (top 0 x) n (Z.of_nat k) T). lia.
Qed.

(* a strictly increasing list of integers that contains exactly [lo,hi) is lo, lo+1, ..., hi-1 *)
Lemma sorted_range : forall (m : list Z) lo hi, StronglySorted Z.lt m ->
  (forall r, In r m <-> lo <= r < hi) -> m = zrange lo (Z.to_nat (hi - lo)).
Proof.
  induction m as [|a t IH]; intros lo hi Hs H.
  - destruct (Z.lt_ge_cases lo hi) as [L|L].
    + exfalso. apply (proj2 (H lo)). lia.
    + replace (Z.to_nat (hi - lo)) with 0%nat by lia. reflexivity.
  - inversion Hs as [|? ? St Fa]; subst. rewrite Forall_forall in Fa.
    pose proof (proj1 (H a) (or_introl eq_refl)) as Ha.
    assert (a = lo).
    { destruct (proj2 (H lo) ltac:(lia)) as [E|E]; [exact E|]. specialize (Fa lo E). lia. }
    subst a. replace (Z.to_nat (hi - lo)) with (S (Z.to_nat (hi - (lo + 1)))) by lia.
    rewrite zrange_S. f_equal. apply IH; [exact St|].
    intros r. split.
    + intros E. pose proof (Fa r E). pose proof (proj1 (H r) (or_intror E)). lia.
    + intros E. destruct (proj2 (H r) ltac:(lia)) as [E'|E']; [lia|exact E'].
Qed.

Lemma sorted_map_crank k : forall l, StronglySorted colex_lt l ->
  (forall x, In x l -> length x = k /\ subset_nat x) -> StronglySorted Z.lt (map crank l).
Proof.
  induction l as [|a t IH]; intros Hs H; [constructor|].
  inversion Hs as [|? ? St Fa]; subst. cbn [map]. constructor.
  - apply IH; [exact St|]. intros x Hx. apply H. right. exact Hx.
  - rewrite Forall_forall in *. intros r Hr. apply in_map_iff in Hr. destruct Hr as (x & <- & Hx).
    destruct (H a (or_introl eq_refl)) as [La Sa]. destruct (H x (or_intror Hx)) as [Lx _].
    apply crank_colex_lt; [lia|exact Sa|apply Fa; exact Hx].
Qed.

(* For every n and k with C(n,k) - 1 <= MaxInt (every rank is an int): a list [l] that is strictly
   increasing in colex order and contains exactly the k-subsets of {0..n-1} has C(n,k) entries and
   its i-th entry is Unrank(i,k) *)
Theorem colex_listing_is_unrank n k l : Z.of_nat k <= maxInt -> binomz n (Z.of_nat k) <= maxInt + 1 ->
  StronglySorted colex_lt l -> (forall x, In x l <-> below n k x) ->
  Z.of_nat (length l) = binomz n (Z.of_nat k) /\
  forall i, (i < length l)%nat -> unrank (Z.of_nat i) (Z.of_nat k) = Ret (nth i l []).
Proof.
  intros Hk HN Hs H. set (N := binomz n (Z.of_nat k)) in *.
  assert (HN0 : 0 <= N) by apply binomz_nonneg.
  assert (Hk0 : Z.of_nat k = 0 -> forall r, 0 <= r < N -> r = 0).
  { intros K0 r Hr. unfold N in Hr. rewrite K0 in Hr.
    destruct (Z.lt_ge_cases n 0) as [C|C]; [rewrite binomz_neg in Hr by lia|rewrite binomz_0_r in Hr by lia]; lia. }
  assert (Hin : forall x, In x l -> length x = k /\ subset_nat x).
  { intros x Hx. destruct (proj1 (H x) Hx) as (L & Sx & _). split; assumption. }
  pose proof (sorted_map_crank k l Hs Hin) as Sm.
  assert (Hr : forall r, In r (map crank l) <-> 0 <= r < 0 + N).
  { intros r. rewrite Z.add_0_l. split.
    - intros E. apply in_map_iff in E. destruct E as (x & <- & Hx).
      apply (below_crank n k). apply H. exact Hx.
    - intros E.
      destruct (unrank_spec r (Z.of_nat k) ltac:(lia) ltac:(lia)) as (c & U & L & Sc & Cr & _).
      { intros K0. apply Hk0; assumption. }
      apply in_map_iff. exists c. split; [exact Cr|]. apply H. split; [lia|]. split; [exact Sc|].
      apply crank_lt_below; [exact Sc|]. rewrite L, Cr. unfold N in E. lia. }
  pose proof (sorted_range (map crank l) 0 (0 + N) Sm Hr) as M.
  replace (0 + N - 0) with N in M by lia.
  assert (Len : length l = Z.to_nat N).
  { rewrite <- (map_length crank l), M, zrange_length. reflexivity. }
  split; [lia|].
  intros i Hi.
  assert (Ci : crank (nth i l []) = Z.of_nat i).
  { rewrite <- (map_nth crank l [] i). change (crank []) with 0.
    apply nth_error_nth. rewrite M. rewrite nth_error_zrange by lia. f_equal. }
  destruct (proj1 (H (nth i l [])) (nth_In l [] Hi)) as (Lx & Sx & _).
  destruct (unrank_spec (Z.of_nat i) (Z.of_nat k) ltac:(lia) ltac:(lia)) as (c & U & L & Sc & Cr & _).
  { intros K0. apply Hk0; [exact K0|lia]. }
  rewrite U. f_equal. apply crank_inj; [lia|exact Sc|exact Sx|lia].
Qed.

(* The order of Iter/Colex.v (C15: "the last position where the lists differ decides", stated
   with nth) is this file's [colex_lt] on lists of equal length. *)
Definition colex_lt_nth (x y : list Z) : Prop :=
  exists j, (j < length x)%nat /\
    (forall i, (j < i < length x)%nat -> nth i x 0 = nth i y 0) /\ nth j x 0 < nth j y 0.

Lemma colex_lt_nth_iff : forall x y, length x = length y -> (colex_lt x y <-> colex_lt_nth x y).
Proof.
  induction x as [|a x IH]; intros [|b y] E; cbn [length] in E; try discriminate.
  - split; [intros []|intros (j & Hj & _)]. cbn in Hj. lia.
  - cbn [colex_lt]. rewrite (IH y ltac:(lia)). split.
    + intros [(j & Hj & Heq & Hlt)|[-> Hlt]].
      * exists (S j). cbn [length nth]. split; [lia|]. split; [|exact Hlt].
        intros [|i] Hi; [lia|]. cbn [nth]. apply Heq. lia.
      * exists 0%nat. cbn [length nth]. split; [lia|]. split; [|exact Hlt].
        intros [|i] Hi; [lia|]. reflexivity.
    + intros (j & Hj & Heq & Hlt). cbn [length] in *. destruct j as [|j].
      * right. cbn [nth] in Hlt. split; [|exact Hlt].
        apply (nth_ext x y 0 0); [lia|]. intros i Hi. apply (Heq (S i)). lia.
      * left. exists j. cbn [nth] in Hlt. split; [lia|]. split; [|exact Hlt].
        intros i Hi. apply (Heq (S i)). lia.
Qed.
